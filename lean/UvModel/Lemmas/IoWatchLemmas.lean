import UvModel.IoWatch
/-! helper lemmas for C14: list facts, the step relation every model function decomposes into, and
the structural invariant `SInv` preserved by every step -/
namespace UvModel.IoWatch

theorem Mask.sub_refl (a : Mask) : a.sub a := by
  cases a; simp [Mask.sub, Mask.and]

/-! ### lists -/

theorem countP_set_some (l : List (Option Nat)) (i x : Nat) (h : i < l.length) (hn : l.getD i none = none) :
    (l.set i (some x)).countP Option.isSome = l.countP Option.isSome + 1 := by
  induction l generalizing i with
  | nil => simp at h
  | cons a t ih =>
    cases i with
    | zero => simp at hn; subst hn; simp
    | succ j =>
      simp at h hn
      simp [List.countP_cons, ih j h (by simpa using hn)]; omega

theorem countP_set_none (l : List (Option Nat)) (i x : Nat) (hn : l.getD i none = some x) :
    (l.set i none).countP Option.isSome + 1 = l.countP Option.isSome := by
  induction l generalizing i with
  | nil => simp at hn
  | cons a t ih =>
    cases i with
    | zero => simp at hn; subst hn; simp
    | succ j =>
      simp at hn
      simp [List.countP_cons]; have := ih j (by simpa using hn); omega

theorem getD_set_eq (l : List (Option Nat)) (i j : Nat) (v : Option Nat) :
    (l.set i v).getD j none = if i = j ∧ i < l.length then v else l.getD j none := by
  simp [List.getD_eq_getElem?_getD, List.getElem?_set]
  split <;> split <;> simp_all
  all_goals (try omega)

theorem getD_append_replicate (l : List (Option Nat)) (n j : Nat) :
    (l ++ List.replicate n none).getD j none = l.getD j none := by
  simp [List.getD_eq_getElem?_getD, List.getElem?_append]
  split
  · rfl
  · rename_i h
    have : l[j]? = none := by simp; omega
    simp [this, List.getElem?_replicate]
    split <;> rfl

theorem some_getD_lt (l : List (Option Nat)) (j x : Nat) (h : l.getD j none = some x) : j < l.length := by
  by_cases hj : j < l.length
  · exact hj
  · simp [List.getD_eq_getElem?_getD] at h
    have : l[j]? = none := by simp; omega
    simp [this] at h

/-! ### watcher table access -/

theorem getW_setW (s : St) (id j : Nat) (w : W) :
    getW (setW s id w) j = if j = id ∧ id < s.ws.length then w else getW s j := by
  simp [getW, setW, List.getD_eq_getElem?_getD, List.getElem?_set]
  split <;> split <;> simp_all
  all_goals (try omega)
  all_goals (rename_i h1 h2; have : s.ws[j]? = none := by simp; omega)
  all_goals simp [this]

@[simp] theorem setW_len (s : St) (id : Nat) (w : W) : (setW s id w).ws.length = s.ws.length := by
  simp [setW]

/-! ### the frame: what a step that is neither start, stop nor queue application keeps -/

structure Kept (s s' : St) : Prop where
  watchers : s'.watchers = s.watchers
  nfds : s'.nfds = s.nfds
  wq : s'.wq = s.wq
  len : s.ws.length ≤ s'.ws.length
  core : ∀ id, id < s.ws.length → (getW s' id).fd = (getW s id).fd ∧
    (getW s' id).pevents = (getW s id).pevents ∧ (getW s' id).events = (getW s id).events
  fresh : ∀ id, s.ws.length ≤ id → (getW s' id).pevents = Mask.none ∧ (getW s' id).events = Mask.none
  old : ∀ id, s.ws.length ≤ id → (getW s id).pevents = Mask.none ∧ (getW s id).events = Mask.none

theorem getW_oob (s : St) (id : Nat) (h : s.ws.length ≤ id) : getW s id = default := by
  simp [getW, List.getD_eq_getElem?_getD]
  have : s.ws[id]? = none := by simp; omega
  simp [this]

theorem Kept.rfl' (s : St) : Kept s s :=
  ⟨rfl, rfl, rfl, Nat.le_refl _, fun _ _ => ⟨rfl, rfl, rfl⟩,
   fun id h => by rw [getW_oob s id h]; exact ⟨rfl, rfl⟩, fun id h => by rw [getW_oob s id h]; exact ⟨rfl, rfl⟩⟩

/-- only fields other than ws/watchers/nfds/wq differ -/
theorem Kept.of_eq {s s' : St} (h1 : s'.ws = s.ws) (h2 : s'.watchers = s.watchers) (h3 : s'.nfds = s.nfds)
    (h4 : s'.wq = s.wq) : Kept s s' := by
  have hg : ∀ id, getW s' id = getW s id := by intro id; simp [getW, h1]
  refine ⟨h2, h3, h4, by simp [h1], fun id _ => by simp [hg], fun id h => ?_, fun id h => ?_⟩
  · rw [hg, getW_oob s id h]; exact ⟨rfl, rfl⟩
  · rw [getW_oob s id h]; exact ⟨rfl, rfl⟩

/-- a watcher record rewritten without touching fd/pevents/events -/
theorem Kept.setW (s : St) (id : Nat) (w : W) (hf : w.fd = (getW s id).fd)
    (hp : w.pevents = (getW s id).pevents) (he : w.events = (getW s id).events) : Kept s (setW s id w) := by
  refine ⟨rfl, rfl, rfl, by simp, fun j _ => ?_, fun j h => ?_, fun j h => ?_⟩
  · rw [getW_setW]; split
    · rename_i h; rw [h.1]; exact ⟨hf, hp, he⟩
    · exact ⟨rfl, rfl, rfl⟩
  · rw [getW_setW]; split
    · rename_i h'; omega
    · rw [getW_oob s j h]; exact ⟨rfl, rfl⟩
  · rw [getW_oob s j h]; exact ⟨rfl, rfl⟩

/-- a new, stopped watcher appended -/
theorem Kept.push (s : St) (w : W) (hp : w.pevents = Mask.none) (he : w.events = Mask.none) :
    Kept s { s with ws := s.ws ++ [w] } := by
  refine ⟨rfl, rfl, rfl, by simp, fun j hj => ?_, fun j h => ?_, fun j h => ?_⟩
  · simp [getW, List.getD_eq_getElem?_getD, List.getElem?_append, hj]
  · simp [getW, List.getD_eq_getElem?_getD, List.getElem?_append]
    have h1 : ¬ j < s.ws.length := by omega
    simp [h1]
    by_cases h2 : j - s.ws.length = 0
    · simp [h2, hp, he]
    · have : ([w] : List W)[j - s.ws.length]? = none := by simp; omega
      simp [this]; exact ⟨rfl, rfl⟩
  · rw [getW_oob s j h]; exact ⟨rfl, rfl⟩

/-- what `applyQueue` does to the registry: queue emptied, queued watchers get `events := pevents` -/
structure Applied (s s' : St) : Prop where
  watchers : s'.watchers = s.watchers
  nfds : s'.nfds = s.nfds
  wq : s'.wq = []
  len : s'.ws.length = s.ws.length
  fd : ∀ id, (getW s' id).fd = (getW s id).fd
  pev : ∀ id, (getW s' id).pevents = (getW s id).pevents
  ev : ∀ id, (getW s' id).events = if id ∈ s.wq ∧ id < s.ws.length then (getW s id).pevents else (getW s id).events

inductive Step : St → St → Prop
  | kept {s s'} : Kept s s' → Step s s'
  | start {s} (id : Nat) (m : Mask) : id < s.ws.length → m.e = false → m.h = false → m ≠ Mask.none →
      Step s (ioStart s id m)
  | stop {s} (id : Nat) (m : Mask) : Step s (ioStop s id m)
  | applied {s s'} : Applied s s' → Step s s'

inductive Reach : St → St → Prop
  | refl (s) : Reach s s
  | tail {s t u} : Reach s t → Step t u → Reach s u

theorem Reach.trans {a b c : St} (h1 : Reach a b) (h2 : Reach b c) : Reach a c := by
  induction h2 with
  | refl => exact h1
  | tail _ st ih => exact .tail ih st

theorem Reach.step {s t : St} (h : Step s t) : Reach s t := .tail (.refl s) h
theorem Reach.kept {s t : St} (h : Kept s t) : Reach s t := .step (.kept h)

/-! ### the structural invariant -/

structure SInv (s : St) : Prop where
  /-- `loop->nfds` counts the registered descriptors -/
  nfds : s.nfds = ((s.watchers.countP Option.isSome : Nat) : Int)
  nodup : s.wq.Nodup
  /-- a registered watcher is registered under its own descriptor -/
  reg : ∀ fd id, watcherAt s fd = some id → id < s.ws.length ∧ (getW s id).fd = fd
  /-- requested masks never contain POLLERR/POLLHUP -/
  mask4 : ∀ id, (getW s id).pevents.e = false ∧ (getW s id).pevents.h = false
  /-- a registered watcher whose kernel mask is stale is queued -/
  told : ∀ fd id, watcherAt s fd = some id → (getW s id).events ≠ (getW s id).pevents → id ∈ s.wq
  /-- registered watchers have something requested; watchers with something requested are registered -/
  regReq : ∀ fd id, watcherAt s fd = some id → (getW s id).pevents ≠ Mask.none

theorem watcherAt_lt {s : St} {fd id : Nat} (h : watcherAt s fd = some id) : fd < s.watchers.length :=
  some_getD_lt _ _ _ h

theorem SInv.kept {s s' : St} (i : SInv s) (k : Kept s s') : SInv s' := by
  have hw : ∀ fd, watcherAt s' fd = watcherAt s fd := by intro fd; simp [watcherAt, k.watchers]
  refine ⟨by rw [k.nfds, k.watchers]; exact i.nfds, by rw [k.wq]; exact i.nodup, ?_, ?_, ?_, ?_⟩
  · intro fd id h; rw [hw] at h
    have := i.reg fd id h
    exact ⟨Nat.lt_of_lt_of_le this.1 k.len, by rw [(k.core id this.1).1]; exact this.2⟩
  · intro id
    by_cases h : id < s.ws.length
    · rw [(k.core id h).2.1]; exact i.mask4 id
    · rw [(k.fresh id (by omega)).1]; exact ⟨rfl, rfl⟩
  · intro fd id h hne; rw [hw] at h
    have hl := (i.reg fd id h).1
    rw [k.wq]; apply i.told fd id h
    rw [← (k.core id hl).2.1, ← (k.core id hl).2.2]; exact hne
  · intro fd id h; rw [hw] at h
    rw [(k.core id (i.reg fd id h).1).2.1]; exact i.regReq fd id h

end UvModel.IoWatch

namespace UvModel.IoWatch

theorem le_nextPow2 (n : Nat) : n ≤ nextPow2 n := by
  unfold nextPow2
  have h : ∀ a b : Nat, a ≤ a ||| b := fun a b => Nat.left_le_or
  have := h (n-1) ((n-1) >>> 1)
  have := h ((n-1) ||| ((n-1) >>> 1)) (((n-1) ||| ((n-1) >>> 1)) >>> 2)
  simp only []
  generalize hv1 : (n - 1 ||| (n - 1) >>> 1) = v1 at *
  generalize hv2 : (v1 ||| v1 >>> 2) = v2 at *
  have := h v2 (v2 >>> 4)
  generalize hv3 : (v2 ||| v2 >>> 4) = v3 at *
  have := h v3 (v3 >>> 8)
  generalize hv4 : (v3 ||| v3 >>> 8) = v4 at *
  have := h v4 (v4 >>> 16)
  omega

theorem maybeResize_len (s : St) (len : Nat) : len ≤ (maybeResize s len).watchers.length := by
  unfold maybeResize; split
  · assumption
  · simp; have := le_nextPow2 (len + 2); omega

theorem maybeResize_at (s : St) (len fd : Nat) : watcherAt (maybeResize s len) fd = watcherAt s fd := by
  unfold maybeResize watcherAt; split
  · rfl
  · simp only []; exact getD_append_replicate _ _ _

theorem maybeResize_count (s : St) (len : Nat) :
    (maybeResize s len).watchers.countP Option.isSome = s.watchers.countP Option.isSome := by
  unfold maybeResize; split
  · rfl
  · simp [List.countP_append, List.countP_replicate]

theorem maybeResize_other (s : St) (len : Nat) :
    (maybeResize s len).ws = s.ws ∧ (maybeResize s len).wq = s.wq ∧ (maybeResize s len).nfds = s.nfds := by
  unfold maybeResize; split <;> simp

end UvModel.IoWatch
namespace UvModel.IoWatch

theorem ioStart_spec (s : St) (id : Nat) (m : Mask) (hid : id < s.ws.length) :
    (∀ j, getW (ioStart s id m) j =
      if j = id then { getW s id with pevents := (getW s id).pevents.or m, clean := false } else getW s j) ∧
    (ioStart s id m).ws.length = s.ws.length ∧
    ((ioStart s id m).wq = if (getW s id).events = (getW s id).pevents.or m then s.wq
        else if s.wq.contains id then s.wq else s.wq ++ [id]) ∧
    (∀ fd', watcherAt (ioStart s id m) fd' =
      if (getW s id).events ≠ (getW s id).pevents.or m ∧ watcherAt s (getW s id).fd = none ∧ fd' = (getW s id).fd
      then some id else watcherAt s fd') ∧
    ((ioStart s id m).nfds - ((ioStart s id m).watchers.countP Option.isSome : Nat) =
      s.nfds - (s.watchers.countP Option.isSome : Nat)) := by
  generalize hw : getW s id = w
  generalize hs1 : setW s id { w with pevents := w.pevents.or m, clean := false } = s1
  have g1 : ∀ j, getW s1 j = if j = id then { w with pevents := w.pevents.or m, clean := false } else getW s j := by
    intro j; rw [← hs1, getW_setW]; simp [hid]
  have l1 : s1.ws.length = s.ws.length := by rw [← hs1]; simp
  have o1 : s1.wq = s.wq ∧ s1.nfds = s.nfds ∧ s1.watchers = s.watchers := by rw [← hs1]; simp [setW]
  generalize hs2 : maybeResize s1 (w.fd + 1) = s2
  have hlen := maybeResize_len s1 (w.fd + 1)
  have hat := maybeResize_at s1 (w.fd + 1)
  have hcnt := maybeResize_count s1 (w.fd + 1)
  have hoth := maybeResize_other s1 (w.fd + 1)
  rw [hs2] at hlen hat hcnt hoth
  have g2 : ∀ j, getW s2 j = getW s1 j := by intro j; simp [getW, hoth.1]
  have hat' : ∀ fd, watcherAt s2 fd = watcherAt s fd := by intro fd; rw [hat]; simp [watcherAt, o1.2.2]
  generalize hs3 : (if s2.wq.contains id then s2 else { s2 with wq := s2.wq ++ [id] }) = s3
  have e : ioStart s id m =
      if w.events = w.pevents.or m then s2
      else
        if watcherAt s3 w.fd = none then
          { s3 with watchers := s3.watchers.set w.fd (some id), nfds := s3.nfds + 1 }
        else s3 := by
    unfold ioStart; simp only [hw, hs1, hs2, hs3]
  rw [e]
  by_cases hev : w.events = w.pevents.or m
  · rw [if_pos hev]
    refine ⟨fun j => by rw [g2, g1], by rw [hoth.1, l1], by rw [hoth.2.1, o1.1, if_pos hev], fun fd' => ?_, ?_⟩
    · simp [hat', hev]
    · rw [hoth.2.2, hcnt, o1.2.1, o1.2.2]
  · rw [if_neg hev]
    have p3 : s3.ws = s2.ws ∧ s3.watchers = s2.watchers ∧ s3.nfds = s2.nfds ∧
        s3.wq = if s.wq.contains id then s.wq else s.wq ++ [id] := by
      rw [← hs3]; split <;> simp_all
    have g3 : ∀ j, getW s3 j = getW s2 j := by intro j; simp [getW, p3.1]
    have at3 : ∀ fd, watcherAt s3 fd = watcherAt s fd := by intro fd; rw [← hat']; simp [watcherAt, p3.2.1]
    by_cases hreg : watcherAt s w.fd = none
    · have : watcherAt s3 w.fd = none := by rw [at3]; exact hreg
      rw [if_pos this]
      refine ⟨fun j => ?_, ?_, ?_, fun fd' => ?_, ?_⟩
      · show getW s3 j = _; rw [g3, g2, g1]
      · show s3.ws.length = _; rw [p3.1, hoth.1, l1]
      · show s3.wq = _; rw [if_neg hev]; exact p3.2.2.2
      · simp only [watcherAt, getD_set_eq]
        have hl : w.fd < s3.watchers.length := by rw [p3.2.1]; omega
        by_cases hf : fd' = w.fd
        · subst hf
          rw [if_pos ⟨rfl, hl⟩]; symm; apply if_pos; exact ⟨hev, hreg, rfl⟩
        · have : ¬ (w.fd = fd' ∧ w.fd < s3.watchers.length) := by intro h; exact hf h.1.symm
          rw [if_neg this]
          have := at3 fd'; simp only [watcherAt] at this; rw [this]
          simp [hf]
      · simp only []
        have hl : w.fd < s3.watchers.length := by rw [p3.2.1]; omega
        have hn : s3.watchers.getD w.fd none = none := this
        rw [countP_set_some _ _ _ hl hn, p3.2.2.1, p3.2.1, hoth.2.2, hcnt, o1.2.1, o1.2.2]
        omega
    · have : ¬ watcherAt s3 w.fd = none := by rw [at3]; exact hreg
      rw [if_neg this]
      refine ⟨fun j => by rw [g3, g2, g1], by rw [p3.1, hoth.1, l1], by rw [if_neg hev]; exact p3.2.2.2, fun fd' => ?_, ?_⟩
      · rw [at3]; simp [hreg]
      · rw [p3.2.2.1, p3.2.1, hoth.2.2, hcnt, o1.2.1, o1.2.2]

end UvModel.IoWatch
namespace UvModel.IoWatch

theorem ioStop_spec (s : St) (id : Nat) (m : Mask) :
    (∀ j, getW (ioStop s id m) j =
      if j = id ∧ id < s.ws.length ∧ (getW s id).fd < s.watchers.length then
        (if (getW s id).pevents.diff m = Mask.none then
          { getW s id with pevents := (getW s id).pevents.diff m, events := Mask.none }
         else { getW s id with pevents := (getW s id).pevents.diff m })
      else getW s j) ∧
    (ioStop s id m).ws.length = s.ws.length ∧
    ((ioStop s id m).wq = if (getW s id).fd ≥ s.watchers.length then s.wq
        else if (getW s id).pevents.diff m = Mask.none then s.wq.erase id
        else if s.wq.contains id then s.wq else s.wq ++ [id]) ∧
    (∀ fd', watcherAt (ioStop s id m) fd' =
      if (getW s id).fd < s.watchers.length ∧ (getW s id).pevents.diff m = Mask.none ∧
         watcherAt s (getW s id).fd = some id ∧ fd' = (getW s id).fd
      then none else watcherAt s fd') ∧
    ((ioStop s id m).nfds - ((ioStop s id m).watchers.countP Option.isSome : Nat) =
      s.nfds - (s.watchers.countP Option.isSome : Nat)) := by
  generalize hw : getW s id = w
  unfold ioStop; simp only [hw]
  by_cases hlen : w.fd ≥ s.watchers.length
  · rw [if_pos hlen]
    have : ¬ w.fd < s.watchers.length := by omega
    refine ⟨fun j => by simp [this], rfl, by rw [if_pos hlen], fun fd' => by simp [this], rfl⟩
  · rw [if_neg hlen]
    have hlt : w.fd < s.watchers.length := by omega
    by_cases hpe : w.pevents.diff m = Mask.none
    · rw [if_pos hpe]
      generalize hs1 : setW s id { w with pevents := w.pevents.diff m, events := Mask.none } = s1
      have o1 : s1.wq = s.wq ∧ s1.nfds = s.nfds ∧ s1.watchers = s.watchers ∧ s1.ws.length = s.ws.length := by
        rw [← hs1]; simp [setW]
      have g1 : ∀ j, getW s1 j = if j = id ∧ id < s.ws.length then
          { w with pevents := w.pevents.diff m, events := Mask.none } else getW s j := by
        intro j; rw [← hs1, getW_setW]
      have hat : ∀ fd, watcherAt { s1 with wq := s1.wq.erase id } fd = watcherAt s fd := by
        intro fd; simp [watcherAt, o1.2.2.1]
      by_cases hreg : watcherAt s w.fd = some id
      · have : watcherAt { s1 with wq := s1.wq.erase id } w.fd = some id := by rw [hat]; exact hreg
        rw [if_pos this]
        refine ⟨fun j => ?_, ?_, ?_, fun fd' => ?_, ?_⟩
        · show getW s1 j = _; rw [g1]; simp [hlt, hpe]
        · exact o1.2.2.2
        · show s1.wq.erase id = _; rw [if_neg hlen, if_pos hpe, o1.1]
        · simp only [watcherAt, getD_set_eq, o1.2.2.1]
          by_cases hf : fd' = w.fd
          · subst hf; rw [if_pos ⟨rfl, hlt⟩]; symm; apply if_pos; exact ⟨hlt, hpe, hreg, rfl⟩
          · have h1 : ¬ (w.fd = fd' ∧ w.fd < s.watchers.length) := by intro h; exact hf h.1.symm
            rw [if_neg h1]; symm; apply if_neg; intro h; exact hf h.2.2.2
        · simp only [o1.2.2.1, o1.2.1]
          have := countP_set_none s.watchers w.fd id hreg
          omega
      · have : ¬ watcherAt { s1 with wq := s1.wq.erase id } w.fd = some id := by rw [hat]; exact hreg
        rw [if_neg this]
        refine ⟨fun j => ?_, o1.2.2.2, ?_, fun fd' => ?_, ?_⟩
        · show getW s1 j = _; rw [g1]; simp [hlt, hpe]
        · show s1.wq.erase id = _; rw [if_neg hlen, if_pos hpe, o1.1]
        · rw [hat]; symm; apply if_neg; intro h; exact hreg h.2.2.1
        · simp only [o1.2.2.1, o1.2.1]
    · rw [if_neg hpe]
      generalize hs1 : setW s id { w with pevents := w.pevents.diff m } = s1
      have o1 : s1.wq = s.wq ∧ s1.nfds = s.nfds ∧ s1.watchers = s.watchers ∧ s1.ws.length = s.ws.length := by
        rw [← hs1]; simp [setW]
      have g1 : ∀ j, getW s1 j = if j = id ∧ id < s.ws.length then
          { w with pevents := w.pevents.diff m } else getW s j := by
        intro j; rw [← hs1, getW_setW]
      have hne : ¬ (w.fd < s.watchers.length ∧ w.pevents.diff m = Mask.none ∧ watcherAt s w.fd = some id ∧ True) :=
        fun h => hpe h.2.1
      by_cases hc : s1.wq.contains id
      · rw [if_pos hc]
        refine ⟨fun j => ?_, o1.2.2.2, ?_, fun fd' => ?_, ?_⟩
        · rw [g1]; simp [hlt, hpe]
        · rw [if_neg hlen, if_neg hpe, o1.1, if_pos (by rw [← o1.1]; exact hc)]
        · simp only [watcherAt, o1.2.2.1]; symm; apply if_neg; intro h; exact hpe h.2.1
        · rw [o1.2.2.1, o1.2.1]
      · rw [if_neg hc]
        refine ⟨fun j => ?_, o1.2.2.2, ?_, fun fd' => ?_, ?_⟩
        · show getW s1 j = _; rw [g1]; simp [hlt, hpe]
        · show s1.wq ++ [id] = _; rw [if_neg hlen, if_neg hpe, o1.1, if_neg (by rw [← o1.1]; exact hc)]
        · show s1.watchers.getD fd' none = _; rw [o1.2.2.1]; symm; apply if_neg; intro h; exact hpe h.2.1
        · show s1.nfds - _ = _; rw [o1.2.2.1, o1.2.1]

end UvModel.IoWatch
namespace UvModel.IoWatch

theorem Mask.or_ne_none (a m : Mask) (h : m ≠ Mask.none) : a.or m ≠ Mask.none := by
  intro h'; apply h
  cases a; cases m; simp [Mask.or, Mask.none] at h' ⊢
  simp_all

theorem SInv.start {s : St} (i : SInv s) (id : Nat) (m : Mask) (hid : id < s.ws.length)
    (he : m.e = false) (hh : m.h = false) (hm : m ≠ Mask.none) : SInv (ioStart s id m) := by
  obtain ⟨hg, hl, hq, ha, hn⟩ := ioStart_spec s id m hid
  refine ⟨?_, ?_, ?_, ?_, ?_, ?_⟩
  · have := i.nfds; omega
  · rw [hq]; split
    · exact i.nodup
    · split
      · exact i.nodup
      · rename_i hc
        rw [List.nodup_append]; refine ⟨i.nodup, by simp, ?_⟩
        intro a hmem b hb; simp at hb; subst hb; intro h; subst h; simp at hc; exact hc hmem
  · intro fd id' h; rw [ha] at h; rw [hl, hg]
    split at h
    · rename_i hc; simp at h; subst h; simp [hid, hc.2.2]
    · have := i.reg fd id' h
      refine ⟨this.1, ?_⟩
      split
      · rename_i e; subst e; exact this.2
      · exact this.2
  · intro j; rw [hg]; split
    · have := i.mask4 id; simp [Mask.or, this, he, hh]
    · exact i.mask4 j
  · intro fd id' h hne; rw [ha] at h; rw [hg] at hne; rw [hq]
    by_cases hj : id' = id
    · subst hj; simp at hne
      rw [if_neg (fun e => hne e)]
      split
      · rename_i hc; simpa using hc
      · simp
    · rw [if_neg hj] at hne
      have hold : watcherAt s fd = some id' := by
        split at h
        · simp at h; exact absurd h.symm hj
        · exact h
      have := i.told fd id' hold hne
      split
      · exact this
      · split
        · exact this
        · simp [this]
  · intro fd id' h; rw [ha] at h; rw [hg]
    by_cases hj : id' = id
    · subst hj; simp; exact Mask.or_ne_none _ _ hm
    · rw [if_neg hj]
      have hold : watcherAt s fd = some id' := by
        split at h
        · simp at h; exact absurd h.symm hj
        · exact h
      exact i.regReq fd id' hold

theorem Mask.diff_eh (a m : Mask) (h : a.e = false ∧ a.h = false) : (a.diff m).e = false ∧ (a.diff m).h = false := by
  simp [Mask.diff, h]

theorem SInv.stop {s : St} (i : SInv s) (id : Nat) (m : Mask) : SInv (ioStop s id m) := by
  obtain ⟨hg, hl, hq, ha, hn⟩ := ioStop_spec s id m
  refine ⟨?_, ?_, ?_, ?_, ?_, ?_⟩
  · have := i.nfds; omega
  · rw [hq]; split
    · exact i.nodup
    · split
      · exact i.nodup.erase _
      · split
        · exact i.nodup
        · rename_i hc
          rw [List.nodup_append]; refine ⟨i.nodup, by simp, ?_⟩
          intro a hmem b hb; simp at hb; subst hb; intro h; subst h; simp at hc; exact hc hmem
  · intro fd id' h; rw [ha] at h; rw [hl, hg]
    split at h
    · simp at h
    · have := i.reg fd id' h
      refine ⟨this.1, ?_⟩
      split
      · rename_i e; rw [e.1] at this; split <;> exact this.2
      · exact this.2
  · intro j; rw [hg]; split
    · split <;> exact Mask.diff_eh _ _ (i.mask4 id)
    · exact i.mask4 j
  · intro fd id' h hne; rw [ha] at h; rw [hg] at hne; rw [hq]
    have hold : watcherAt s fd = some id' := by
      split at h
      · simp at h
      · exact h
    have hlt := watcherAt_lt hold
    by_cases hj : id' = id
    · subst hj
      have hfd := (i.reg fd id' hold).2
      have hlt' : (getW s id').fd < s.watchers.length := by rw [hfd]; exact hlt
      rw [if_neg (by omega)]
      by_cases hpe : (getW s id').pevents.diff m = Mask.none
      · -- fully stopped: it was unregistered by this very call
        exfalso
        rw [if_pos ⟨hlt', hpe, by rw [hfd]; exact hold, hfd.symm⟩] at h
        simp at h
      · rw [if_neg hpe]; split
        · rename_i hc; simpa using hc
        · simp
    · have hne' : (getW s id').events ≠ (getW s id').pevents := by
        rw [if_neg (fun h => hj h.1)] at hne; exact hne
      have := i.told fd id' hold hne'
      split
      · exact this
      · split
        · exact (List.mem_erase_of_ne hj).mpr this
        · split
          · exact this
          · simp [this]
  · intro fd id' h; rw [ha] at h; rw [hg]
    have hnot : ¬ ((getW s id).fd < s.watchers.length ∧ (getW s id).pevents.diff m = Mask.none ∧
        watcherAt s (getW s id).fd = some id ∧ fd = (getW s id).fd) := by
      intro hc; rw [if_pos hc] at h; simp at h
    rw [if_neg hnot] at h
    split
    · rename_i e
      split
      · rename_i hpe
        exfalso; apply hnot
        have hr := i.reg fd id' h
        rw [e.1] at hr h
        exact ⟨e.2.2, hpe, by rw [hr.2]; exact h, hr.2.symm⟩
      · rename_i hpe; exact hpe
    · exact i.regReq fd id' h

theorem SInv.applied {s s' : St} (i : SInv s) (a : Applied s s') : SInv s' := by
  have hw : ∀ fd, watcherAt s' fd = watcherAt s fd := by intro fd; simp [watcherAt, a.watchers]
  refine ⟨by rw [a.nfds, a.watchers]; exact i.nfds, by rw [a.wq]; simp, ?_, ?_, ?_, ?_⟩
  · intro fd id h; rw [hw] at h; rw [a.len, a.fd]; exact i.reg fd id h
  · intro id; rw [a.pev]; exact i.mask4 id
  · intro fd id h hne; rw [hw] at h; exfalso; apply hne
    rw [a.ev, a.pev]
    split
    · rfl
    · rename_i hc
      by_cases he : (getW s id).events = (getW s id).pevents
      · exact he
      · exact absurd ⟨i.told fd id h he, (i.reg fd id h).1⟩ hc
  · intro fd id h; rw [hw] at h; rw [a.pev]; exact i.regReq fd id h

end UvModel.IoWatch

namespace UvModel.IoWatch

theorem SInv.step {s t : St} (i : SInv s) (h : Step s t) : SInv t := by
  cases h with
  | kept k => exact i.kept k
  | start id m hid he hh hm => exact i.start id m hid he hh hm
  | stop id m => exact i.stop id m
  | applied a => exact i.applied a

theorem SInv.reach {s t : St} (i : SInv s) (h : Reach s t) : SInv t := by
  induction h with
  | refl => exact i
  | tail _ st ih => exact ih.step st

end UvModel.IoWatch

namespace UvModel.IoWatch

/-- the four registry fields are untouched -/
def Same4 (s t : St) : Prop := t.ws = s.ws ∧ t.watchers = s.watchers ∧ t.nfds = s.nfds ∧ t.wq = s.wq

theorem Same4.refl (s : St) : Same4 s s := ⟨rfl, rfl, rfl, rfl⟩
theorem Same4.trans {a b c : St} (h1 : Same4 a b) (h2 : Same4 b c) : Same4 a c :=
  ⟨h2.1.trans h1.1, h2.2.1.trans h1.2.1, h2.2.2.1.trans h1.2.2.1, h2.2.2.2.trans h1.2.2.2⟩
theorem Same4.kept {s t : St} (h : Same4 s t) : Kept s t := Kept.of_eq h.1 h.2.1 h.2.2.1 h.2.2.2
theorem Same4.reach {s t : St} (h : Same4 s t) : Reach s t := .kept h.kept

theorem same_emit (s : St) (e : Ev) : Same4 s (emit s e) := ⟨rfl, rfl, rfl, rfl⟩
theorem same_abort (s : St) : Same4 s (abort s) := ⟨rfl, rfl, rfl, rfl⟩
theorem same_ctl (s : St) (op : CtlOp) (fd : Nat) (m : Mask) (o : Option Nat) : Same4 s (ctl s op fd m o).1 :=
  ⟨rfl, rfl, rfl, rfl⟩
theorem same_invalidate (s : St) (fd : Nat) : Same4 s (invalidate s fd) := by
  unfold invalidate; split <;> exact ⟨rfl, rfl, rfl, rfl⟩
theorem same_flushOnce (s : St) : Same4 s (flushOnce s) := by
  unfold flushOnce; simp only []; split <;> exact ⟨rfl, rfl, rfl, rfl⟩
theorem same_flushAll (s : St) : Same4 s (flushAll s) := (same_flushOnce s).trans (same_flushOnce _)
theorem same_prep (s : St) (c : CtlOp × Nat × Mask × Nat) : Same4 s (prep s c) := by
  have a : Same4 s { s with sq := s.sq ++ [c] } := ⟨rfl, rfl, rfl, rfl⟩
  unfold prep; simp only []
  split
  · split
    · exact (a.trans (same_flushOnce _)).trans (same_flushOnce _)
    · exact a.trans (same_flushOnce _)
  · exact a

theorem Reach.len {s t : St} (h : Reach s t) : s.ws.length ≤ t.ws.length := by
  induction h with
  | refl => exact Nat.le_refl _
  | tail _ st ih =>
    cases st with
    | kept k => exact Nat.le_trans ih k.len
    | start id m hid => rw [(ioStart_spec _ id m hid).2.1]; exact ih
    | stop id m => rw [(ioStop_spec _ id m).2.1]; exact ih
    | applied a => rw [a.len]; exact ih

theorem reach_setFlags (s : St) (id : Nat) (w : W) (hf : w.fd = (getW s id).fd)
    (hp : w.pevents = (getW s id).pevents) (he : w.events = (getW s id).events) : Reach s (setW s id w) :=
  .kept (Kept.setW s id w hf hp he)

theorem reach_pollStop (s : St) (id : Nat) : Reach s (pollStop s id) := by
  unfold pollStop
  refine Reach.trans ?_ (reach_setFlags _ _ _ rfl rfl rfl)
  refine Reach.trans ?_ (same_invalidate _ _).reach
  refine Reach.trans ?_ (reach_setFlags _ _ _ rfl rfl rfl)
  exact Reach.step (.stop id Mask.all4)

theorem reach_ioClose (s : St) (id : Nat) : Reach s (ioClose s id) := by
  unfold ioClose
  refine Reach.trans ?_ (reach_setFlags _ _ _ rfl rfl rfl)
  refine Reach.trans ?_ (same_invalidate _ _).reach
  refine Reach.trans (Reach.step (.stop id Mask.all4)) ?_
  exact Same4.reach ⟨rfl, rfl, rfl, rfl⟩

theorem reach_push (s : St) (w : W) (hp : w.pevents = Mask.none) (he : w.events = Mask.none) :
    Reach s { s with ws := s.ws ++ [w] } := .kept (Kept.push s w hp he)

theorem reach_pollInit (s : St) (fd : Nat) : Reach s (pollInit s fd).1 := by
  unfold pollInit
  split
  · exact .refl _
  · simp only []
    split
    · exact (same_ctl _ _ _ _ _).reach
    · split
      · exact ((same_ctl _ _ _ _ _).trans ((same_ctl _ _ _ _ _).trans (same_abort _))).reach
      · exact Reach.trans ((same_ctl _ _ _ _ _).trans (same_ctl _ _ _ _ _)).reach (reach_push _ _ rfl rfl)

theorem uvToPoll_ne (u : UvEv) (h : u ≠ UvEv.none) : uvToPoll u ≠ Mask.none := by
  intro h'; apply h; cases u; simp [uvToPoll, Mask.none, UvEv.none] at h' ⊢; simp_all

theorem reach_pollStart (s : St) (id : Nat) (u : UvEv) (hid : id < s.ws.length) : Reach s (pollStart s id u).1 := by
  unfold pollStart; simp only []
  split
  · exact .refl _
  · split
    · exact reach_pollStop s id
    · rename_i hu
      have h1 := reach_pollStop s id
      refine Reach.trans ?_ (reach_setFlags _ _ _ rfl rfl rfl)
      exact Reach.trans h1 (Reach.step (.start id (uvToPoll u) (Nat.lt_of_lt_of_le hid h1.len) rfl rfl (uvToPoll_ne u hu)))

theorem reach_pollClose (s : St) (id : Nat) : Reach s (pollClose s id) := by
  unfold pollClose
  have h1 := reach_pollStop s id
  have h2 : Reach (pollStop s id) (setW (pollStop s id) id { getW (pollStop s id) id with closing := true }) :=
    reach_setFlags _ _ _ rfl rfl rfl
  exact Reach.trans (Reach.trans h1 h2) (Same4.reach ⟨rfl, rfl, rfl, rfl⟩)

theorem valid4_spec (m : Mask) (h : valid4 m = true) : m.e = false ∧ m.h = false ∧ m ≠ Mask.none := by
  simp [valid4] at h; exact ⟨h.1.2, h.2, h.1.1⟩

theorem liveId_lt (s : St) (id : Nat) (p : Bool) (h : liveId s id p = true) : id < s.ws.length := by
  simp [liveId] at h; exact h.1.1

theorem reach_doOp (s : St) (o : Op) : Reach s (doOp s o) := by
  cases o <;> simp only [doOp]
  case openfd fd k => split <;> exact Same4.reach ⟨rfl, rfl, rfl, rfl⟩
  case closefd fd => split <;> exact Same4.reach ⟨rfl, rfl, rfl, rfl⟩
  case dupfd fd => split <;> exact Same4.reach ⟨rfl, rfl, rfl, rfl⟩
  case closedup d => split <;> exact Same4.reach ⟨rfl, rfl, rfl, rfl⟩
  case peer a b => exact .refl _
  case pinit fd =>
    split
    · exact (same_emit _ _).reach
    · have := reach_pollInit s fd
      split
      · rename_i h; rw [h] at this; exact Reach.trans this (same_emit _ _).reach
      · rename_i h; rw [h] at this; split
        · exact this
        · exact Reach.trans this (same_emit _ _).reach
  case pstart id u =>
    split
    · rename_i h; simp at h
      exact Reach.trans (reach_pollStart s id u (liveId_lt _ _ _ h.1)) (same_emit _ _).reach
    · exact (same_emit _ _).reach
  case pstop id => split; exact Reach.trans (reach_pollStop s id) (same_emit _ _).reach; exact (same_emit _ _).reach
  case pclose id => split; exact Reach.trans (reach_pollClose s id) (same_emit _ _).reach; exact (same_emit _ _).reach
  case ioinit fd =>
    split
    · exact (same_emit _ _).reach
    · exact Reach.trans (reach_push s _ rfl rfl) (same_emit _ _).reach
  case iostart id m =>
    split
    · rename_i h; simp at h
      have hv := valid4_spec m h.1.1.2
      exact Reach.trans (Reach.step (.start id m (liveId_lt _ _ _ h.1.1.1) hv.1 hv.2.1 hv.2.2)) (same_emit _ _).reach
    · exact (same_emit _ _).reach
  case iostop id m => split; exact Reach.trans (Reach.step (.stop id m)) (same_emit _ _).reach; exact (same_emit _ _).reach
  case ioclose id => split; exact Reach.trans (reach_ioClose s id) (same_emit _ _).reach; exact (same_emit _ _).reach
  case iofeed id =>
    split
    · refine Reach.trans ?_ (same_emit _ _).reach
      unfold ioFeed; split <;> exact Same4.reach ⟨rfl, rfl, rfl, rfl⟩
    · exact (same_emit _ _).reach

theorem reach_execOp (s : St) (o : Op) : Reach s (execOp s o) := by
  unfold execOp; split
  · exact .refl _
  · exact Reach.trans (Reach.trans (same_emit _ _).reach (reach_doOp _ o)) (same_emit _ _).reach

theorem reach_execOps (s : St) (ops : List Op) : Reach s (execOps s ops) := by
  unfold execOps
  induction ops generalizing s with
  | nil => exact .refl _
  | cons o r ih => exact Reach.trans (reach_execOp s o) (ih _)

theorem reach_deliver (sc : Script) (s : St) (id : Nat) (ev : Mask) : Reach s (deliver sc s id ev) := by
  unfold deliver; simp only []
  have h0 := reach_setFlags s id { getW s id with cbs := (getW s id).cbs + 1 } rfl rfl rfl
  split
  · split
    · refine Reach.trans ?_ (reach_execOps _ _)
      refine Reach.trans ?_ (same_emit _ _).reach
      refine Reach.trans ?_ (reach_setFlags _ _ _ rfl rfl rfl)
      exact Reach.trans h0 (Reach.step (.stop id Mask.all4))
    · exact Reach.trans (Reach.trans h0 (same_emit _ _).reach) (reach_execOps _ _)
  · exact Reach.trans (Reach.trans h0 (same_emit _ _).reach) (reach_execOps _ _)

theorem reach_dispatchOne (sc : Script) (s : St) (i : Nat) : Reach s (dispatchOne sc s i).1 := by
  unfold dispatchOne
  split
  · exact .refl _
  · split
    · exact (same_abort _).reach
    · split
      · exact (same_ctl _ _ _ _ _).reach
      · simp only []; split
        · exact reach_deliver _ _ _ _
        · exact .refl _

theorem reach_dispatchFrom (sc : Script) (s : St) (i n : Nat) : Reach s (dispatchFrom sc s i n).1 := by
  induction n generalizing s i with
  | zero => exact .refl _
  | succ n ih =>
    unfold dispatchFrom; split
    · exact .refl _
    · exact Reach.trans (reach_dispatchOne sc s i) (ih _ _)

end UvModel.IoWatch
namespace UvModel.IoWatch

theorem applyOne_same (s : St) (id : Nat) :
    Same4 (setW s id { getW s id with events := (getW s id).pevents }) (applyOne s id) := by
  unfold applyOne; simp only []
  split
  · exact same_prep _ _
  · repeat' split
    all_goals first
      | exact same_ctl _ _ _ _ _
      | exact (same_ctl _ _ _ _ _).trans (same_abort _)
      | exact (same_ctl _ _ _ _ _).trans (same_ctl _ _ _ _ _)
      | exact ((same_ctl _ _ _ _ _).trans (same_ctl _ _ _ _ _)).trans (same_abort _)

theorem foldl_applyOne (l : List Nat) (t : St) :
    (l.foldl applyOne t).watchers = t.watchers ∧ (l.foldl applyOne t).nfds = t.nfds ∧
    (l.foldl applyOne t).wq = t.wq ∧ (l.foldl applyOne t).ws.length = t.ws.length ∧
    ∀ id, (getW (l.foldl applyOne t) id).fd = (getW t id).fd ∧
      (getW (l.foldl applyOne t) id).pevents = (getW t id).pevents ∧
      (getW (l.foldl applyOne t) id).events =
        if id ∈ l ∧ id < t.ws.length then (getW t id).pevents else (getW t id).events := by
  induction l generalizing t with
  | nil => simp
  | cons a r ih =>
    simp only [List.foldl_cons]
    have hs := applyOne_same t a
    have hg : ∀ j, getW (applyOne t a) j =
        if j = a ∧ a < t.ws.length then { getW t a with events := (getW t a).pevents } else getW t j := by
      intro j
      have : getW (applyOne t a) j = getW (setW t a { getW t a with events := (getW t a).pevents }) j := by
        simp [getW, hs.1]
      rw [this, getW_setW]
    have hl : (applyOne t a).ws.length = t.ws.length := by rw [hs.1]; simp
    obtain ⟨h1, h2, h3, h4, h5⟩ := ih (applyOne t a)
    refine ⟨by rw [h1, hs.2.1]; rfl, by rw [h2, hs.2.2.1]; rfl, by rw [h3, hs.2.2.2]; rfl, by rw [h4, hl], fun id => ?_⟩
    obtain ⟨f1, f2, f3⟩ := h5 id
    rw [f1, f2, f3, hg id, hl]
    by_cases hc : id = a ∧ a < t.ws.length
    · rw [if_pos hc]; obtain ⟨rfl, hlt⟩ := hc
      simp [hlt]
    · rw [if_neg hc]
      refine ⟨rfl, rfl, ?_⟩
      by_cases hr : id ∈ r ∧ id < t.ws.length
      · rw [if_pos hr, if_pos ⟨List.mem_cons_of_mem _ hr.1, hr.2⟩]
      · rw [if_neg hr]; symm; apply if_neg; intro h
        rcases List.mem_cons.mp h.1 with e | e
        · exact hc ⟨e, e ▸ h.2⟩
        · exact hr ⟨e, h.2⟩

theorem applied_applyQueue (s : St) : Applied s (applyQueue s) := by
  unfold applyQueue
  obtain ⟨h1, h2, h3, h4, h5⟩ := foldl_applyOne s.wq { s with wq := [] }
  exact ⟨h1, h2, h3, h4, fun id => (h5 id).1, fun id => (h5 id).2.1, fun id => (h5 id).2.2⟩

theorem reach_applyQueue (s : St) : Reach s (applyQueue s) := .step (.applied (applied_applyQueue s))

theorem reach_pollLoop (sc : Script) (s : St) (t0 : Bool) (count : Nat) (bs : List Batch) :
    Reach s (pollLoop sc s t0 count bs) := by
  induction bs generalizing s t0 count with
  | nil =>
    unfold pollLoop; split
    · exact .refl _
    · exact ((same_flushAll s).trans ((same_emit _ _).trans (same_emit _ _))).reach
  | cons b rest ih =>
    unfold pollLoop; split
    · exact .refl _
    · simp only []
      split
      · exact (same_flushAll s).reach
      · have h1 : Reach s (emit (emit (flushAll s) (.block t0 (interestOf (flushAll s)))) (.batch b)) :=
          ((same_flushAll s).trans ((same_emit _ _).trans (same_emit _ _))).reach
        generalize emit (emit (flushAll s) (.block t0 (interestOf (flushAll s)))) (.batch b) = s0 at h1 ⊢
        split
        · exact h1
        · have h2 : Reach s0 { s0 with batch := b, inv := true } := Same4.reach ⟨rfl, rfl, rfl, rfl⟩
          have h3 := Reach.trans (Reach.trans h1 h2) (reach_dispatchFrom sc { s0 with batch := b, inv := true } 0 b.length)
          generalize dispatchFrom sc { s0 with batch := b, inv := true } 0 b.length = r at h3 ⊢
          have h4 : Reach s { r.1 with inv := false, batch := [] } :=
            Reach.trans h3 (Same4.reach ⟨rfl, rfl, rfl, rfl⟩)
          split
          · exact h4
          · split
            · split
              · exact Reach.trans h4 (ih _ _ _)
              · exact h4
            · split
              · exact h4
              · exact Reach.trans h4 (ih _ _ _)

theorem reach_ioPoll (sc : Script) (s : St) (t0 : Bool) (bs : List Batch) : Reach s (ioPoll sc s t0 bs) := by
  unfold ioPoll; simp only []
  split
  · exact reach_applyQueue s
  · exact Reach.trans (Reach.trans (reach_applyQueue s) (reach_pollLoop _ _ _ _ _)) (same_flushAll _).reach

theorem reach_runPend (sc : Script) (s : St) (n : Nat) : Reach s (runPend sc s n) := by
  induction n generalizing s with
  | zero => exact .refl _
  | succ n ih =>
    unfold runPend; split
    · exact .refl _
    · rename_i id rest _
      exact Reach.trans (Reach.trans (Same4.reach (t := { s with pendingRun := rest }) ⟨rfl, rfl, rfl, rfl⟩)
        (reach_deliver _ _ _ _)) (ih _)

theorem reach_runPending (sc : Script) (s : St) : Reach s (runPending sc s) := by
  unfold runPending
  exact Reach.trans (Same4.reach (t := { s with pendingRun := s.pending, pending := [] }) ⟨rfl, rfl, rfl, rfl⟩)
    (reach_runPend _ _ _)

theorem reach_pend8 (sc : Script) (n : Nat) (s : St) : Reach s (pend8 sc n s) := by
  induction n generalizing s with
  | zero => exact .refl _
  | succ n ih =>
    unfold pend8; split
    · exact .refl _
    · exact Reach.trans (reach_runPending sc s) (ih _)

theorem same_foldl_emit (l : List Nat) (s : St) : Same4 s (l.foldl (fun s id => emit s (.cbClose id)) s) := by
  induction l generalizing s with
  | nil => exact Same4.refl _
  | cons a r ih => exact (same_emit s _).trans (ih _)

theorem reach_runClosing (s : St) : Reach s (runClosing s) := by
  unfold runClosing
  have a : Same4 s { s with closingQ := [] } := ⟨rfl, rfl, rfl, rfl⟩
  exact (a.trans (same_foldl_emit _ _)).reach

theorem reach_run (sc : Script) (s : St) (bs : List Batch) : Reach s (run sc s bs) := by
  unfold run; split
  · exact .refl _
  · simp only []
    refine Reach.trans ?_ (same_emit _ _).reach
    refine Reach.trans ?_ (reach_runClosing _)
    refine Reach.trans ?_ (reach_pend8 _ _ _)
    refine Reach.trans ?_ (reach_ioPoll _ _ _ _)
    exact reach_runPending sc s

end UvModel.IoWatch

namespace UvModel.IoWatch

/-! ### whole programs -/

inductive Cmd
  | op (o : Op)
  | run (bs : List Batch)

def execCmd (sc : Script) (s : St) : Cmd → St
  | .op o => execOp s o
  | .run bs => run sc s bs

def exec (sc : Script) (s : St) (p : List Cmd) : St := p.foldl (execCmd sc) s

/-- state after `uv_loop_init`: `nw` watcher slots, `internal` descriptors watched by libuv itself -/
def init (ring : Bool) (internal nw : Nat) : St :=
  { ring := ring, internal := internal, watchers := List.replicate nw none }

theorem reach_exec (sc : Script) (s : St) (p : List Cmd) : Reach s (exec sc s p) := by
  unfold exec
  induction p generalizing s with
  | nil => exact .refl _
  | cons c r ih =>
    refine Reach.trans ?_ (ih _)
    cases c with
    | op o => exact reach_execOp s o
    | run bs => exact reach_run sc s bs

theorem sinv_init (ring : Bool) (internal nw : Nat) : SInv (init ring internal nw) := by
  refine ⟨by simp [init, List.countP_replicate], by simp [init], ?_, ?_, ?_, ?_⟩
  · intro fd id h; simp [init, watcherAt, List.getD_eq_getElem?_getD, List.getElem?_replicate] at h
    split at h <;> simp at h
  · intro id; simp [init, getW]; exact ⟨rfl, rfl⟩
  · intro fd id h; simp [init, watcherAt, List.getD_eq_getElem?_getD, List.getElem?_replicate] at h
    split at h <;> simp at h
  · intro fd id h; simp [init, watcherAt, List.getD_eq_getElem?_getD, List.getElem?_replicate] at h
    split at h <;> simp at h

/-- no watcher `id` is registered under any descriptor -/
def Unreg (s : St) (id : Nat) : Prop := ∀ fd, watcherAt s fd ≠ some id

/-- kernel masks are current: nothing queued, every registered watcher has `events = pevents` -/
def Told (s : St) : Prop :=
  s.wq = [] ∧ ∀ fd id, watcherAt s fd = some id → (getW s id).events = (getW s id).pevents

end UvModel.IoWatch

/-! ### kernel interest map: algebra of `epoll_ctl`, the kernel-side invariant `KCore` and its preservation -/

namespace UvModel.IoWatch

/-- mask of the first entry with key (o, fd) -/
def entMask (l : List Ent) (o fd : Nat) : Option Mask :=
  match l with
  | [] => none
  | e :: r => if e.ofd = o ∧ e.fd = fd then some e.mask else entMask r o fd

/-- the kernel's interest *map*: mask registered for (description, descriptor number) -/
def Kernel.maskAt (k : Kernel) (o fd : Nat) : Option Mask := entMask k.ents o fd

theorem entMask_none_iff (l : List Ent) (o fd : Nat) :
    entMask l o fd = none ↔ (l.any fun e => e.ofd == o && e.fd == fd) = false := by
  induction l with
  | nil => simp [entMask]
  | cons e r ih =>
    simp only [entMask, List.any_cons]
    by_cases h : e.ofd = o ∧ e.fd = fd
    · simp [h]
    · rw [if_neg h, ih]
      have : (e.ofd == o && e.fd == fd) = false := by
        simp; intro h1; exact fun h2 => h ⟨h1, h2⟩
      simp [this]

theorem entMask_append (l : List Ent) (x : Ent) (o fd : Nat) :
    entMask (l ++ [x]) o fd =
      (entMask l o fd).or (if x.ofd = o ∧ x.fd = fd then some x.mask else none) := by
  induction l with
  | nil => simp [entMask]
  | cons e r ih =>
    simp only [List.cons_append, entMask]
    by_cases h : e.ofd = o ∧ e.fd = fd
    · simp [h]
    · rw [if_neg h, if_neg h, ih]

theorem entMask_map (l : List Ent) (o0 fd0 : Nat) (m : Mask) (ow : Option Nat) (o fd : Nat) :
    entMask (l.map fun e => if (e.ofd == o0 && e.fd == fd0) = true then { e with mask := m, owner := ow } else e) o fd =
      if o = o0 ∧ fd = fd0 then (entMask l o fd).map (fun _ => m) else entMask l o fd := by
  induction l with
  | nil => simp [entMask]
  | cons e r ih =>
    simp only [List.map_cons, entMask]
    by_cases h0 : e.ofd = o0 ∧ e.fd = fd0
    · have : (e.ofd == o0 && e.fd == fd0) = true := by simp [h0]
      simp only [this, ↓reduceIte]
      by_cases h : e.ofd = o ∧ e.fd = fd
      · have hk : o = o0 ∧ fd = fd0 := ⟨by rw [← h.1, h0.1], by rw [← h.2, h0.2]⟩
        simp [h, hk]
      · rw [if_neg h, if_neg h, ih]
    · have : ¬ (e.ofd == o0 && e.fd == fd0) = true := by
        simp; intro h1; exact fun h2 => h0 ⟨h1, h2⟩
      simp only [this, Bool.false_eq_true, ↓reduceIte]
      by_cases h : e.ofd = o ∧ e.fd = fd
      · have hk : ¬ (o = o0 ∧ fd = fd0) := fun hc => h0 ⟨by rw [h.1, hc.1], by rw [h.2, hc.2]⟩
        simp [h, hk]
      · rw [if_neg h, if_neg h, ih]

theorem entMask_del (l : List Ent) (o0 fd0 o fd : Nat) :
    entMask (l.filter fun e => !(e.ofd == o0 && e.fd == fd0)) o fd =
      if o = o0 ∧ fd = fd0 then none else entMask l o fd := by
  induction l with
  | nil => simp [entMask]
  | cons e r ih =>
    simp only [List.filter_cons]
    by_cases h0 : e.ofd = o0 ∧ e.fd = fd0
    · have : (!(e.ofd == o0 && e.fd == fd0)) = false := by simp [h0]
      simp only [this, Bool.false_eq_true, ↓reduceIte]
      rw [ih]
      by_cases hk : o = o0 ∧ fd = fd0
      · simp [hk]
      · have hne : ¬ (e.ofd = o ∧ e.fd = fd) :=
          fun hc => hk ⟨by rw [← hc.1, h0.1], by rw [← hc.2, h0.2]⟩
        simp [hk, entMask, hne]
    · have : (!(e.ofd == o0 && e.fd == fd0)) = true := by
        simp; by_cases h1 : e.ofd = o0
        · right; exact fun h2 => h0 ⟨h1, h2⟩
        · left; exact h1
      simp only [this, ↓reduceIte, entMask]
      by_cases h : e.ofd = o ∧ e.fd = fd
      · have hk : ¬ (o = o0 ∧ fd = fd0) := fun hc => h0 ⟨by rw [h.1, hc.1], by rw [h.2, hc.2]⟩
        simp [h, hk]
      · rw [if_neg h, if_neg h, ih]

theorem entMask_gc (l : List Ent) (o0 o fd : Nat) :
    entMask (l.filter fun e => e.ofd != o0) o fd = if o = o0 then none else entMask l o fd := by
  induction l with
  | nil => simp [entMask]
  | cons e r ih =>
    simp only [List.filter_cons]
    by_cases h0 : e.ofd = o0
    · have : (e.ofd != o0) = false := by simp [h0]
      simp only [this, Bool.false_eq_true, ↓reduceIte]
      rw [ih]
      by_cases hk : o = o0
      · simp [hk]
      · have hne : ¬ (e.ofd = o ∧ e.fd = fd) := fun hc => hk (by rw [← hc.1, h0])
        simp [hk, entMask, hne]
    · have : (e.ofd != o0) = true := by simp [h0]
      simp only [this, ↓reduceIte, entMask]
      by_cases h : e.ofd = o ∧ e.fd = fd
      · have hk : ¬ o = o0 := fun hc => h0 (by rw [h.1, hc])
        simp [h, hk]
      · rw [if_neg h, if_neg h, ih]

theorem hasEnt_false_iff (k : Kernel) (o fd : Nat) : k.hasEnt o fd = false ↔ k.maskAt o fd = none := by
  unfold Kernel.hasEnt Kernel.maskAt; exact (entMask_none_iff _ _ _).symm

theorem hasEnt_true_iff (k : Kernel) (o fd : Nat) : k.hasEnt o fd = true ↔ k.maskAt o fd ≠ none := by
  have := hasEnt_false_iff k o fd
  cases hh : k.hasEnt o fd
  · simp [this.mp hh]
  · simp; intro hc; rw [this.mpr hc] at hh; cases hh

theorem ctl_ofdAt (k : Kernel) (op : CtlOp) (fd : Nat) (m : Mask) (ow : Option Nat) (fd' : Nat) :
    (k.ctl op fd m ow).1.ofdAt fd' = k.ofdAt fd' := by
  unfold Kernel.ctl; split
  · rfl
  · cases op <;> simp only [] <;> split <;> rfl

theorem ctl_closed (k : Kernel) (op : CtlOp) (fd : Nat) (m : Mask) (ow : Option Nat) (h : k.ofdAt fd = none) :
    k.ctl op fd m ow = (k, -9) := by
  unfold Kernel.ctl; simp [h]

theorem ctl_add_new (k : Kernel) (fd o : Nat) (m : Mask) (ow : Option Nat) (h : k.ofdAt fd = some o)
    (hn : k.maskAt o fd = none) :
    (k.ctl .add fd m ow).2 = 0 ∧ ∀ o' fd', (k.ctl .add fd m ow).1.maskAt o' fd' =
      if o' = o ∧ fd' = fd then some m else k.maskAt o' fd' := by
  have hh := (hasEnt_false_iff k o fd).mpr hn
  unfold Kernel.ctl; simp only [h, hh]
  refine ⟨by simp, fun o' fd' => ?_⟩
  show entMask (k.ents ++ [⟨o, fd, m, ow⟩]) o' fd' = _
  rw [entMask_append]
  by_cases hk : o' = o ∧ fd' = fd
  · obtain ⟨rfl, rfl⟩ := hk
    have : entMask k.ents o' fd' = none := hn
    rw [this]; simp
  · rw [if_neg hk, if_neg (fun hc => hk ⟨hc.1.symm, hc.2.symm⟩)]
    show (entMask k.ents o' fd').or none = entMask k.ents o' fd'
    cases entMask k.ents o' fd' <;> rfl

theorem ctl_add_exists (k : Kernel) (fd o : Nat) (m : Mask) (ow : Option Nat) (h : k.ofdAt fd = some o)
    (hn : k.maskAt o fd ≠ none) : k.ctl .add fd m ow = (k, -17) := by
  have hh := (hasEnt_true_iff k o fd).mpr hn
  unfold Kernel.ctl; simp [h, hh]

theorem ctl_mod_ok (k : Kernel) (fd o : Nat) (m : Mask) (ow : Option Nat) (h : k.ofdAt fd = some o)
    (hn : k.maskAt o fd ≠ none) :
    (k.ctl .mod fd m ow).2 = 0 ∧ ∀ o' fd', (k.ctl .mod fd m ow).1.maskAt o' fd' =
      if o' = o ∧ fd' = fd then some m else k.maskAt o' fd' := by
  have hh := (hasEnt_true_iff k o fd).mpr hn
  unfold Kernel.ctl; simp only [h, hh, if_true]
  refine ⟨by first | trivial | rfl, fun o' fd' => ?_⟩
  simp only [Kernel.maskAt, entMask_map]
  by_cases hk : o' = o ∧ fd' = fd
  · rw [if_pos hk, if_pos hk]
    obtain ⟨rfl, rfl⟩ := hk
    cases hm : entMask k.ents o' fd' with
    | none => exact absurd hm hn
    | some x => rfl
  · rw [if_neg hk, if_neg hk]

theorem ctl_mod_missing (k : Kernel) (fd o : Nat) (m : Mask) (ow : Option Nat) (h : k.ofdAt fd = some o)
    (hn : k.maskAt o fd = none) : k.ctl .mod fd m ow = (k, -2) := by
  have hh := (hasEnt_false_iff k o fd).mpr hn
  unfold Kernel.ctl; simp [h, hh]

theorem ctl_del_maskAt (k : Kernel) (fd o : Nat) (m : Mask) (ow : Option Nat) (h : k.ofdAt fd = some o) :
    ∀ o' fd', (k.ctl .del fd m ow).1.maskAt o' fd' =
      if o' = o ∧ fd' = fd then none else k.maskAt o' fd' := by
  intro o' fd'
  unfold Kernel.ctl; simp only [h]
  by_cases hh : k.hasEnt o fd = true
  · simp only [hh, if_true, Kernel.maskAt, entMask_del]
  · simp only [hh]
    have hn := (hasEnt_false_iff k o fd).mp (by simpa using hh)
    show k.maskAt o' fd' = _
    by_cases hk : o' = o ∧ fd' = fd
    · rw [if_pos hk]; obtain ⟨rfl, rfl⟩ := hk; exact hn
    · rw [if_neg hk]

theorem gc_spec (k : Kernel) (o : Nat) :
    (∀ fd, (k.gc o).ofdAt fd = k.ofdAt fd) ∧
    ∀ o' fd', (k.gc o).maskAt o' fd' = if k.refd o = false ∧ o' = o then none else k.maskAt o' fd' := by
  unfold Kernel.gc
  by_cases hr : k.refd o = true
  · simp [hr]
  · simp only [hr]
    refine ⟨fun _ => rfl, fun o' fd' => ?_⟩
    show entMask (k.ents.filter fun e => e.ofd != o) o' fd' = _
    rw [entMask_gc]
    by_cases ho : o' = o
    · simp [ho, hr]
    · simp [ho, Kernel.maskAt]

end UvModel.IoWatch

namespace UvModel.IoWatch

/-- kernel-side invariant (with the registry facts it needs) -/
structure KCore (s : St) : Prop where
  sq : s.sq = []
  /-- the user discipline is in force -/
  multi : s.multi = false
  /-- a watcher whose `events` is non-zero has its (description, fd) entry, with exactly that mask -/
  armed : ∀ id, id < s.ws.length → (getW s id).events ≠ Mask.none →
    ∃ o, s.k.ofdAt (getW s id).fd = some o ∧ s.k.maskAt o (getW s id).fd = some (getW s id).events
  /-- every kernel entry sits on a descriptor that still refers to the same description and belongs to
  the live (not closed) handle of that descriptor, which has been started since its last uv_poll_stop -/
  owned : ∀ o fd, s.k.maskAt o fd ≠ none → s.k.ofdAt fd = some o ∧
    ∃ id, id < s.ws.length ∧ (getW s id).fd = fd ∧ (getW s id).closing = false ∧
      ¬((getW s id).clean = true ∧ (getW s id).pevents = Mask.none)
  /-- one live handle per descriptor -/
  uniq : ∀ i j, i < s.ws.length → j < s.ws.length → (getW s i).fd = (getW s j).fd →
    (getW s i).closing = false → (getW s j).closing = false → i = j
  quiet : ∀ id, (getW s id).pevents = Mask.none → (getW s id).events = Mask.none
  live : ∀ id, id < s.ws.length → (getW s id).pevents ≠ Mask.none →
    (getW s id).closing = false ∧ (getW s id).clean = false ∧ (s.k.ofdAt (getW s id).fd).isSome = true ∧
    watcherAt s (getW s id).fd = some id
  queued : ∀ id, id ∈ s.wq → id < s.ws.length ∧ (getW s id).pevents ≠ Mask.none

/-- KCore only looks at these fields -/
theorem KCore.frame {s t : St} (c : KCore s) (h1 : t.ws = s.ws) (h2 : t.watchers = s.watchers) (h3 : t.wq = s.wq)
    (h4 : t.k = s.k) (h5 : t.sq = s.sq) (h6 : t.multi = s.multi) : KCore t := by
  have hg : ∀ id, getW t id = getW s id := by intro id; simp [getW, h1]
  have hw : ∀ fd, watcherAt t fd = watcherAt s fd := by intro fd; simp [watcherAt, h2]
  refine ⟨by rw [h5]; exact c.sq, by rw [h6]; exact c.multi, ?_, ?_, ?_, ?_, ?_, ?_⟩
  · intro id hl; rw [hg, h4]; exact c.armed id (by rw [← h1]; exact hl)
  · intro o fd; rw [h4]; intro h
    obtain ⟨a, id, b⟩ := c.owned o fd h
    exact ⟨a, id, by rw [h1, hg]; exact b⟩
  · intro i j hi hj; rw [hg, hg]; exact c.uniq i j (by rw [← h1]; exact hi) (by rw [← h1]; exact hj)
  · intro id; rw [hg]; exact c.quiet id
  · intro id hl; rw [hg, h4, hw]; exact c.live id (by rw [← h1]; exact hl)
  · intro id; rw [h3, h1, hg]; exact c.queued id

/-- the kernel seen through `ofdAt`/`maskAt` only -/
def KEq (k k' : Kernel) : Prop := (∀ fd, k'.ofdAt fd = k.ofdAt fd) ∧ ∀ o fd, k'.maskAt o fd = k.maskAt o fd

theorem KCore.congr {s t : St} (c : KCore s) (h1 : t.ws = s.ws) (h2 : t.watchers = s.watchers) (h3 : t.wq = s.wq)
    (h4 : KEq s.k t.k) (h5 : t.sq = s.sq) (h6 : t.multi = s.multi) : KCore t := by
  have hg : ∀ id, getW t id = getW s id := by intro id; simp [getW, h1]
  have hw : ∀ fd, watcherAt t fd = watcherAt s fd := by intro fd; simp [watcherAt, h2]
  refine ⟨by rw [h5]; exact c.sq, by rw [h6]; exact c.multi, ?_, ?_, ?_, ?_, ?_, ?_⟩
  · intro id hl; rw [hg, h4.1]; simp only [h4.2]; exact c.armed id (by rw [← h1]; exact hl)
  · intro o fd; rw [h4.2, h4.1]; intro h
    obtain ⟨a, id, b⟩ := c.owned o fd h
    exact ⟨a, id, by rw [h1, hg]; exact b⟩
  · intro i j hi hj; rw [hg, hg]; exact c.uniq i j (by rw [← h1]; exact hi) (by rw [← h1]; exact hj)
  · intro id; rw [hg]; exact c.quiet id
  · intro id hl; rw [hg, h4.1, hw]; exact c.live id (by rw [← h1]; exact hl)
  · intro id; rw [h3, h1, hg]; exact c.queued id

/-- rewriting one watcher record without touching fd/pevents/events/closing/clean -/
theorem KCore.setFlags {s : St} (c : KCore s) (id : Nat) (w : W) (hf : w.fd = (getW s id).fd)
    (hp : w.pevents = (getW s id).pevents) (he : w.events = (getW s id).events)
    (hc : w.closing = (getW s id).closing) (hcl : w.clean = (getW s id).clean) : KCore (setW s id w) := by
  have hg : ∀ j, (getW (setW s id w) j).fd = (getW s j).fd ∧ (getW (setW s id w) j).pevents = (getW s j).pevents ∧
      (getW (setW s id w) j).events = (getW s j).events ∧ (getW (setW s id w) j).closing = (getW s j).closing ∧
      (getW (setW s id w) j).clean = (getW s j).clean := by
    intro j; rw [getW_setW]; split
    · rename_i h; rw [h.1]; exact ⟨hf, hp, he, hc, hcl⟩
    · exact ⟨rfl, rfl, rfl, rfl, rfl⟩
  refine ⟨c.sq, c.multi, ?_, ?_, ?_, ?_, ?_, ?_⟩
  · intro j hl; rw [(hg j).1, (hg j).2.2.1]; exact c.armed j (by simpa using hl)
  · intro o fd h
    obtain ⟨a, j, b1, b2, b3, b4⟩ := c.owned o fd h
    exact ⟨a, j, by simpa using b1, by rw [(hg j).1]; exact b2, by rw [(hg j).2.2.2.1]; exact b3,
      by rw [(hg j).2.2.2.2, (hg j).2.1]; exact b4⟩
  · intro i j hi hj; rw [(hg i).1, (hg j).1, (hg i).2.2.2.1, (hg j).2.2.2.1]
    exact c.uniq i j (by simpa using hi) (by simpa using hj)
  · intro j; rw [(hg j).2.1, (hg j).2.2.1]; exact c.quiet j
  · intro j hl; rw [(hg j).2.1, (hg j).2.2.2.1, (hg j).2.2.2.2, (hg j).1]
    exact c.live j (by simpa using hl)
  · intro j hj; rw [(hg j).2.1]; have := c.queued j hj; exact ⟨by simpa using this.1, this.2⟩

theorem ioStart_k (s : St) (id : Nat) (m : Mask) :
    (ioStart s id m).k = s.k ∧ (ioStart s id m).sq = s.sq ∧ (ioStart s id m).multi = s.multi := by
  unfold ioStart maybeResize setW; simp only []
  repeat' split
  all_goals exact ⟨rfl, rfl, rfl⟩

theorem ioStop_k (s : St) (id : Nat) (m : Mask) :
    (ioStop s id m).k = s.k ∧ (ioStop s id m).sq = s.sq ∧ (ioStop s id m).multi = s.multi := by
  unfold ioStop setW; simp only []
  repeat' split
  all_goals exact ⟨rfl, rfl, rfl⟩

theorem Mask.diff_none (m : Mask) : Mask.none.diff m = Mask.none := by
  simp [Mask.diff, Mask.none]

theorem KCore.start {s : St} (c : KCore s) (id : Nat) (m : Mask) (hid : id < s.ws.length)
    (hm : m ≠ Mask.none) (hcl : (getW s id).closing = false)
    (hopen : (s.k.ofdAt (getW s id).fd).isSome = true)
    (hw : watcherAt s (getW s id).fd = none ∨ watcherAt s (getW s id).fd = some id) :
    KCore (ioStart s id m) := by
  obtain ⟨hg, hl, hq, ha, _⟩ := ioStart_spec s id m hid
  obtain ⟨hk, hsq, hmu⟩ := ioStart_k s id m
  have hpe := Mask.or_ne_none (getW s id).pevents m hm
  have gfd : ∀ j, (getW (ioStart s id m) j).fd = (getW s j).fd := by
    intro j; rw [hg]; split
    · rename_i e; rw [e]
    · rfl
  have gev : ∀ j, (getW (ioStart s id m) j).events = (getW s j).events := by
    intro j; rw [hg]; split
    · rename_i e; rw [e]
    · rfl
  have gcl : ∀ j, (getW (ioStart s id m) j).closing = (getW s j).closing := by
    intro j; rw [hg]; split
    · rename_i e; rw [e]
    · rfl
  refine ⟨by rw [hsq]; exact c.sq, by rw [hmu]; exact c.multi, ?_, ?_, ?_, ?_, ?_, ?_⟩
  · intro j hj; rw [gfd, gev, hk]; exact c.armed j (by rw [← hl]; exact hj)
  · intro o fd h; rw [hk] at h ⊢
    obtain ⟨a, j, b1, b2, b3, b4⟩ := c.owned o fd h
    refine ⟨a, j, by rw [hl]; exact b1, by rw [gfd]; exact b2, by rw [gcl]; exact b3, ?_⟩
    rw [hg]; split
    · simp
    · exact b4
  · intro i j hi hj; rw [gfd, gfd, gcl, gcl]; exact c.uniq i j (by rw [← hl]; exact hi) (by rw [← hl]; exact hj)
  · intro j; rw [hg]; split
    · intro h; exact absurd h hpe
    · exact c.quiet j
  · intro j hj hp; rw [hl] at hj
    rw [hg] at hp ⊢
    by_cases e : j = id
    · subst e; simp only [if_true] at hp ⊢
      refine ⟨hcl, by first | trivial | rfl, by rw [hk]; exact hopen, ?_⟩
      rw [ha]
      by_cases hc : (getW s j).events ≠ (getW s j).pevents.or m ∧ watcherAt s (getW s j).fd = none ∧ (getW s j).fd = (getW s j).fd
      · rw [if_pos hc]
      · rw [if_neg hc]
        rcases hw with hw | hw
        · -- early return with an unregistered watcher is impossible: events = pevents|m ≠ 0 means it was started
          exfalso
          have hev : (getW s j).events = (getW s j).pevents.or m := by
            by_cases h' : (getW s j).events = (getW s j).pevents.or m
            · exact h'
            · exact absurd ⟨h', hw, rfl⟩ hc
          have hne : (getW s j).pevents ≠ Mask.none := by
            intro h0; have := c.quiet j h0; rw [this] at hev; exact hpe hev.symm
          have := (c.live j hj hne).2.2.2
          rw [hw] at this; cases this
        · exact hw
    · rw [if_neg e] at hp ⊢
      obtain ⟨l1, l2, l3, l4⟩ := c.live j hj hp
      refine ⟨l1, l2, by rw [hk]; exact l3, ?_⟩
      rw [ha, if_neg]; exact l4
      intro hc; rw [hc.2.2] at l4; rw [l4] at hc; cases hc.2.1
  · intro j hj; rw [hq] at hj; rw [hl, hg]
    have old : j ∈ s.wq → j < s.ws.length ∧ (if j = id then
        { getW s id with pevents := (getW s id).pevents.or m, clean := false } else getW s j).pevents ≠ Mask.none := by
      intro h; have := c.queued j h
      refine ⟨this.1, ?_⟩
      split
      · exact hpe
      · exact this.2
    split at hj
    · exact old hj
    · split at hj
      · exact old hj
      · rcases List.mem_append.mp hj with h | h
        · exact old h
        · simp at h; subst h; simp [hid, hpe]

end UvModel.IoWatch

namespace UvModel.IoWatch

theorem KCore.stop {s : St} (c : KCore s) (i : SInv s) (id : Nat) (m : Mask) : KCore (ioStop s id m) := by
  obtain ⟨hg, hl, hq, ha, _⟩ := ioStop_spec s id m
  obtain ⟨hk, hsq, hmu⟩ := ioStop_k s id m
  have gfd : ∀ j, (getW (ioStop s id m) j).fd = (getW s j).fd := by
    intro j; rw [hg]; split
    · rename_i e; rw [e.1]; split <;> rfl
    · rfl
  have gcl : ∀ j, (getW (ioStop s id m) j).closing = (getW s j).closing ∧
      (getW (ioStop s id m) j).clean = (getW s j).clean := by
    intro j; rw [hg]; split
    · rename_i e; rw [e.1]; split <;> exact ⟨rfl, rfl⟩
    · exact ⟨rfl, rfl⟩
  -- the new pevents is none only if ... ; events either kept or cleared
  have gev : ∀ j, (getW (ioStop s id m) j).events = (getW s j).events ∨
      ((getW (ioStop s id m) j).events = Mask.none ∧ (getW (ioStop s id m) j).pevents = Mask.none) := by
    intro j; rw [hg]; split
    · rename_i e; rw [e.1]; split
      · rename_i hpe; right; exact ⟨rfl, hpe⟩
      · left; rfl
    · left; rfl
  have gpe : ∀ j, (getW (ioStop s id m) j).pevents ≠ Mask.none →
      (getW s j).pevents ≠ Mask.none ∧ (getW (ioStop s id m) j).events = (getW s j).events := by
    intro j; rw [hg]; split
    · rename_i e; rw [e.1]; split
      · rename_i hpe; intro h; exact absurd hpe h
      · intro h; refine ⟨?_, rfl⟩
        intro h0; apply h; show (getW s id).pevents.diff m = Mask.none; rw [h0]; exact Mask.diff_none m
    · intro h; exact ⟨h, rfl⟩
  have wat : ∀ j fd, j ≠ id → watcherAt s fd = some j → watcherAt (ioStop s id m) fd = some j := by
    intro j fd hj h; rw [ha, if_neg]; exact h
    intro hc; rw [hc.2.2.2] at h; rw [h] at hc; have := hc.2.2.1; simp at this; exact hj this
  refine ⟨by rw [hsq]; exact c.sq, by rw [hmu]; exact c.multi, ?_, ?_, ?_, ?_, ?_, ?_⟩
  · intro j hj hne; rw [hl] at hj
    rcases gev j with h | h
    · rw [gfd, h, hk]; rw [h] at hne; exact c.armed j hj hne
    · exact absurd h.1 hne
  · intro o fd h; rw [hk] at h ⊢
    obtain ⟨a, j, b1, b2, b3, b4⟩ := c.owned o fd h
    refine ⟨a, j, by rw [hl]; exact b1, by rw [gfd]; exact b2, by rw [(gcl j).1]; exact b3, ?_⟩
    rw [(gcl j).2]
    intro hc; apply b4; refine ⟨hc.1, ?_⟩
    by_cases hp : (getW s j).pevents = Mask.none
    · exact hp
    · have := (c.live j b1 hp).2.1; rw [this] at hc; cases hc.1
  · intro a b ha' hb; rw [gfd, gfd, (gcl a).1, (gcl b).1]
    exact c.uniq a b (by rw [← hl]; exact ha') (by rw [← hl]; exact hb)
  · intro j; rw [hg]; split
    · split
      · intro _; rfl
      · rename_i hne; intro h; exact absurd h hne
    · exact c.quiet j
  · intro j hj hp; rw [hl] at hj
    obtain ⟨hp0, _⟩ := gpe j hp
    obtain ⟨l1, l2, l3, l4⟩ := c.live j hj hp0
    refine ⟨by rw [(gcl j).1]; exact l1, by rw [(gcl j).2]; exact l2, by rw [gfd, hk]; exact l3, ?_⟩
    rw [gfd]
    by_cases e : j = id
    · subst e
      rw [ha, if_neg]; exact l4
      intro hc
      apply hp; rw [hg, if_pos ⟨rfl, hj, hc.1⟩, if_pos hc.2.1]
      exact hc.2.1
    · exact wat j _ e l4
  · intro j hj; rw [hq] at hj; rw [hl]
    have old : j ∈ s.wq → j ≠ id → j < s.ws.length ∧ (getW (ioStop s id m) j).pevents ≠ Mask.none := by
      intro h hne; have := c.queued j h
      refine ⟨this.1, ?_⟩
      rw [hg, if_neg (fun hc => hne hc.1)]; exact this.2
    split at hj
    · -- untouched
      rename_i hlen
      have := c.queued j hj
      refine ⟨this.1, ?_⟩
      rw [hg, if_neg]; exact this.2
      intro hc; omega
    · split at hj
      · have hne : j ≠ id := by
          intro e; subst e; exact (List.Nodup.mem_erase_iff i.nodup).mp hj |>.1 rfl
        exact old (List.mem_of_mem_erase hj) hne
      · rename_i hlen hpe
        have self : id ∈ s.wq ∨ True → id < s.ws.length ∧ (getW (ioStop s id m) id).pevents ≠ Mask.none := by
          intro _
          have hlt : id < s.ws.length := by
            by_cases h' : id < s.ws.length
            · exact h'
            · exfalso; apply hpe; rw [getW_oob s id (by omega)]; exact Mask.diff_none m
          refine ⟨hlt, ?_⟩
          rw [hg, if_pos ⟨rfl, hlt, by omega⟩, if_neg hpe]; exact hpe
        split at hj
        · by_cases e : j = id
          · subst e; exact self (Or.inr trivial)
          · exact old hj e
        · rcases List.mem_append.mp hj with h | h
          · by_cases e : j = id
            · subst e; exact self (Or.inr trivial)
            · exact old h e
          · simp at h; subst h; exact self (Or.inr trivial)

/-- EPOLL_CTL_DEL on a descriptor none of whose handles is armed -/
theorem KCore.ctlDel {s : St} (c : KCore s) (fd : Nat) (m : Mask) (ow : Option Nat)
    (hun : ∀ id, id < s.ws.length → (getW s id).fd = fd → (getW s id).events = Mask.none) :
    KCore (ctl s .del fd m ow).1 ∧
    ∀ o, (ctl s .del fd m ow).1.k.maskAt o fd = none := by
  have hws : (ctl s .del fd m ow).1.ws = s.ws := rfl
  have hg : ∀ id, getW (ctl s .del fd m ow).1 id = getW s id := fun _ => rfl
  have hw : ∀ f, watcherAt (ctl s .del fd m ow).1 f = watcherAt s f := fun _ => rfl
  have hk : (ctl s .del fd m ow).1.k = (s.k.ctl .del fd m ow).1 := rfl
  have hof : ∀ f, (ctl s .del fd m ow).1.k.ofdAt f = s.k.ofdAt f := by intro f; rw [hk]; exact ctl_ofdAt _ _ _ _ _ _
  have hm : ∀ o f, (ctl s .del fd m ow).1.k.maskAt o f = s.k.maskAt o f ∨
      ((ctl s .del fd m ow).1.k.maskAt o f = none ∧ f = fd) := by
    intro o f; rw [hk]
    cases ho : s.k.ofdAt fd with
    | none => rw [ctl_closed _ _ _ _ _ ho]; left; rfl
    | some o0 =>
      rw [ctl_del_maskAt _ _ _ _ _ ho]
      by_cases hc : o = o0 ∧ f = fd
      · right; rw [if_pos hc]; exact ⟨rfl, hc.2⟩
      · left; rw [if_neg hc]
  constructor
  · refine ⟨c.sq, c.multi, ?_, ?_, c.uniq, c.quiet, ?_, c.queued⟩
    · intro id hl hne
      obtain ⟨o, h1, h2⟩ := c.armed id hl hne
      refine ⟨o, by rw [hg, hof]; exact h1, ?_⟩
      rw [hg]
      rcases hm o (getW s id).fd with h | h
      · rw [h]; exact h2
      · exact absurd (hun id hl h.2) hne
    · intro o f h
      rcases hm o f with h' | h'
      · rw [h'] at h; rw [hof]; exact c.owned o f h
      · exact absurd h'.1 h
    · intro id hl hp
      have := c.live id hl hp
      exact ⟨this.1, this.2.1, by rw [hg, hof]; exact this.2.2.1, this.2.2.2⟩
  · intro o; rw [hk]
    cases ho : s.k.ofdAt fd with
    | none =>
      rw [ctl_closed _ _ _ _ _ ho]
      cases hmm : s.k.maskAt o fd with
      | none => rfl
      | some x => have := (c.owned o fd (by rw [hmm]; simp)).1; rw [ho] at this; cases this
    | some o0 =>
      rw [ctl_del_maskAt _ _ _ _ _ ho]
      by_cases hc : o = o0 ∧ fd = fd
      · rw [if_pos hc]
      · rw [if_neg hc]
        cases hmm : s.k.maskAt o fd with
        | none => rfl
        | some x =>
          have := (c.owned o fd (by rw [hmm]; simp)).1; rw [ho] at this
          simp at this; exact absurd ⟨this.symm, rfl⟩ hc

theorem KCore.invalidate {s : St} (c : KCore s) (fd : Nat)
    (hun : ∀ id, id < s.ws.length → (getW s id).fd = fd → (getW s id).events = Mask.none) :
    KCore (invalidate s fd) ∧ ∀ o, (invalidate s fd).k.maskAt o fd = none := by
  unfold IoWatch.invalidate
  split
  · exact (c.frame (t := { s with batch := s.batch.map fun e => if e.1 = some fd then (none, e.2) else e })
      rfl rfl rfl rfl rfl rfl).ctlDel fd _ _ hun
  · exact c.ctlDel fd _ _ hun

/-- marking a stopped handle whose descriptor has no kernel entry as closed and/or clean -/
theorem KCore.retire {s : St} (c : KCore s) (id : Nat) (w : W) (hf : w.fd = (getW s id).fd)
    (hp : w.pevents = Mask.none) (he : w.events = Mask.none) (hp0 : (getW s id).pevents = Mask.none)
    (hcl : w.closing = true ∨ w.closing = (getW s id).closing)
    (hno : ∀ o, s.k.maskAt o (getW s id).fd = none) : KCore (setW s id w) := by
  have hg : ∀ j, getW (setW s id w) j = if j = id ∧ id < s.ws.length then w else getW s j := fun j => getW_setW s id j w
  have gfd : ∀ j, (getW (setW s id w) j).fd = (getW s j).fd := by
    intro j; rw [hg]; split
    · rename_i e; rw [e.1]; exact hf
    · rfl
  have gpe : ∀ j, (getW (setW s id w) j).pevents = (getW s j).pevents := by
    intro j; rw [hg]; split
    · rename_i e; rw [e.1, hp, hp0]
    · rfl
  have gev : ∀ j, (getW (setW s id w) j).events = (getW s j).events := by
    intro j; rw [hg]; split
    · rename_i e; rw [e.1, he, c.quiet id hp0]
    · rfl
  have gcl : ∀ j, (getW (setW s id w) j).closing = false → (getW s j).closing = false := by
    intro j; rw [hg]; split
    · rename_i e; rw [e.1]; intro h
      rcases hcl with h' | h'
      · rw [h'] at h; cases h
      · rw [← h']; exact h
    · exact fun h => h
  refine ⟨c.sq, c.multi, ?_, ?_, ?_, ?_, ?_, ?_⟩
  · intro j hl hne; rw [gfd, gev]; rw [gev] at hne; exact c.armed j (by simpa using hl) hne
  · intro o fd h
    obtain ⟨a, j, b1, b2, b3, b4⟩ := c.owned o fd h
    have hj : j ≠ id := by
      intro e; subst e; rw [b2] at hno; exact h (hno o)
    refine ⟨a, j, by simpa using b1, ?_⟩
    rw [hg, if_neg (fun hc => hj hc.1)]; exact ⟨b2, b3, b4⟩
  · intro a b ha hb; rw [gfd, gfd]; intro hfd h1 h2
    exact c.uniq a b (by simpa using ha) (by simpa using hb) hfd (gcl a h1) (gcl b h2)
  · intro j; rw [gpe, gev]; exact c.quiet j
  · intro j hl hpj; rw [gpe] at hpj
    have hj : j ≠ id := by intro e; subst e; exact hpj hp0
    rw [hg, if_neg (fun hc => hj hc.1)]
    exact c.live j (by simpa using hl) hpj
  · intro j hj; rw [gpe]; have := c.queued j hj; exact ⟨by simpa using this.1, this.2⟩

end UvModel.IoWatch

namespace UvModel.IoWatch

theorem KCore.push {s : St} (c : KCore s) (w : W) (hp : w.pevents = Mask.none) (he : w.events = Mask.none)
    (hfree : ∀ j, j < s.ws.length → (getW s j).fd = w.fd → (getW s j).closing = true) :
    KCore { s with ws := s.ws ++ [w] } := by
  have hold : ∀ j, j < s.ws.length → getW { s with ws := s.ws ++ [w] } j = getW s j := by
    intro j hj; simp [getW, List.getD_eq_getElem?_getD, List.getElem?_append, hj]
  have hnew : getW { s with ws := s.ws ++ [w] } s.ws.length = w := by
    simp [getW, List.getD_eq_getElem?_getD, List.getElem?_append]
  have hlen : ({ s with ws := s.ws ++ [w] } : St).ws.length = s.ws.length + 1 := by simp
  have hcase : ∀ j, j < s.ws.length + 1 → j < s.ws.length ∨ j = s.ws.length := by intro j h; omega
  have hany : ∀ j, getW { s with ws := s.ws ++ [w] } j = getW s j ∨
      ((getW { s with ws := s.ws ++ [w] } j).pevents = Mask.none ∧ (getW { s with ws := s.ws ++ [w] } j).events = Mask.none) := by
    intro j
    by_cases h1 : j < s.ws.length
    · left; exact hold j h1
    · right
      by_cases h2 : j = s.ws.length
      · rw [h2, hnew]; exact ⟨hp, he⟩
      · rw [getW_oob _ j (by rw [hlen]; omega)]; exact ⟨rfl, rfl⟩
  refine ⟨c.sq, c.multi, ?_, ?_, ?_, ?_, ?_, ?_⟩
  · intro j hj hne; rw [hlen] at hj
    rcases hcase j hj with h | h
    · rw [hold j h] at hne ⊢; exact c.armed j h hne
    · rw [h, hnew] at hne; exact absurd he hne
  · intro o fd h
    obtain ⟨a, j, b1, b⟩ := c.owned o fd h
    exact ⟨a, j, by rw [hlen]; omega, by rw [hold j b1]; exact b⟩
  · intro a b ha hb; rw [hlen] at ha hb
    rcases hcase a ha with h1 | h1 <;> rcases hcase b hb with h2 | h2
    · rw [hold a h1, hold b h2]; exact c.uniq a b h1 h2
    · rw [hold a h1, h2, hnew]; intro hfd hc _; have := hfree a h1 hfd; rw [this] at hc; cases hc
    · rw [h1, hnew, hold b h2]; intro hfd _ hc; have := hfree b h2 hfd.symm; rw [this] at hc; cases hc
    · intro _ _ _; rw [h1, h2]
  · intro j; rcases hany j with h | h
    · rw [h]; exact c.quiet j
    · intro _; exact h.2
  · intro j hj hpj; rw [hlen] at hj
    rcases hcase j hj with h | h
    · rw [hold j h] at hpj ⊢; exact c.live j h hpj
    · rw [h, hnew] at hpj; exact absurd hp hpj
  · intro j hj; have := c.queued j hj
    exact ⟨by rw [hlen]; omega, by rw [hold j this.1]; exact this.2⟩


end UvModel.IoWatch

namespace UvModel.IoWatch

/-- what one iteration of the watcher-queue loop does to the kernel in direct mode (linux.c:1412-1434):
the entry of (description at fd, fd) now carries `pevents`; nothing else changes; no `abort()` -/
theorem applyOne_direct {t : St} (c : KCore t) (hr : t.ring = false) (id : Nat) (hid : id < t.ws.length)
    (hp : (getW t id).pevents ≠ Mask.none) :
    ∃ o, t.k.ofdAt (getW t id).fd = some o ∧
      (∀ f, (applyOne t id).k.ofdAt f = t.k.ofdAt f) ∧
      (∀ o' f', (applyOne t id).k.maskAt o' f' =
        if o' = o ∧ f' = (getW t id).fd then some (getW t id).pevents else t.k.maskAt o' f') ∧
      (applyOne t id).aborted = t.aborted := by
  obtain ⟨_, _, hopen, _⟩ := c.live id hid hp
  cases ho : t.k.ofdAt (getW t id).fd with
  | none => rw [ho] at hopen; simp at hopen
  | some o =>
    refine ⟨o, rfl, ?_⟩
    generalize hw : getW t id = w at *
    have hk1 : (setW t id { w with events := w.pevents }).k = t.k := rfl
    have hr1 : (setW t id { w with events := w.pevents }).ring = false := hr
    unfold applyOne; simp only [hw, hr1, Bool.false_eq_true, ↓reduceIte]
    by_cases hev : w.events = Mask.none
    · simp only [hev, ↓reduceIte]
      cases hm : t.k.maskAt o w.fd with
      | none =>
        have := ctl_add_new t.k w.fd o w.pevents (some id) ho hm
        have r0 : (ctl (setW t id { w with events := w.pevents }) .add w.fd w.pevents (some id)).2 = 0 := this.1
        simp only [r0, ↓reduceIte]
        refine ⟨fun f => ctl_ofdAt _ _ _ _ _ _, fun o' f' => this.2 o' f', rfl⟩
      | some x =>
        have hne : t.k.maskAt o w.fd ≠ none := by rw [hm]; simp
        have e1 := ctl_add_exists t.k w.fd o w.pevents (some id) ho hne
        have r1 : (ctl (setW t id { w with events := w.pevents }) .add w.fd w.pevents (some id)).2 = -17 := by
          show (t.k.ctl .add w.fd w.pevents (some id)).2 = -17; rw [e1]
        have k1 : (ctl (setW t id { w with events := w.pevents }) .add w.fd w.pevents (some id)).1.k = t.k := by
          show (t.k.ctl .add w.fd w.pevents (some id)).1 = t.k; rw [e1]
        have := ctl_mod_ok t.k w.fd o w.pevents (some id) ho hne
        have r2 : (ctl (ctl (setW t id { w with events := w.pevents }) .add w.fd w.pevents (some id)).1
            .mod w.fd w.pevents (some id)).2 = 0 := by
          show (((ctl (setW t id { w with events := w.pevents }) .add w.fd w.pevents (some id)).1.k).ctl .mod w.fd w.pevents (some id)).2 = 0
          rw [k1]; exact this.1
        simp only [r1, r2]
        simp
        refine ⟨fun f => ?_, fun o' f' => ?_, rfl⟩
        · show (((ctl (setW t id { w with events := w.pevents }) .add w.fd w.pevents (some id)).1.k).ctl .mod w.fd w.pevents (some id)).1.ofdAt f = _
          rw [k1]; exact ctl_ofdAt _ _ _ _ _ _
        · show (((ctl (setW t id { w with events := w.pevents }) .add w.fd w.pevents (some id)).1.k).ctl .mod w.fd w.pevents (some id)).1.maskAt o' f' = _
          rw [k1]; exact this.2 o' f'
    · simp only [hev, ↓reduceIte]
      obtain ⟨o2, a1, a2⟩ := c.armed id hid (by rw [hw]; exact hev)
      rw [hw] at a1 a2
      rw [ho] at a1; simp at a1; subst a1
      have hne : t.k.maskAt o w.fd ≠ none := by rw [a2]; simp
      have := ctl_mod_ok t.k w.fd o w.pevents (some id) ho hne
      have r0 : (ctl (setW t id { w with events := w.pevents }) .mod w.fd w.pevents (some id)).2 = 0 := this.1
      simp only [r0, ↓reduceIte]
      refine ⟨fun f => ctl_ofdAt _ _ _ _ _ _, fun o' f' => this.2 o' f', rfl⟩

end UvModel.IoWatch

namespace UvModel.IoWatch

theorem applyOne_direct_sq (t : St) (hr : t.ring = false) (id : Nat) :
    (applyOne t id).sq = t.sq ∧ (applyOne t id).ring = false ∧ (applyOne t id).multi = t.multi := by
  have hr1 : ∀ w, (setW t id w).ring = false := fun _ => hr
  unfold applyOne; simp only [hr1, Bool.false_eq_true, ↓reduceIte]
  repeat' split
  all_goals exact ⟨rfl, hr, rfl⟩

theorem KCore.applyOne {t : St} (c : KCore t) (hr : t.ring = false) (id : Nat) (hid : id < t.ws.length)
    (hp : (getW t id).pevents ≠ Mask.none) : KCore (applyOne t id) := by
  obtain ⟨o, ho, hof, hmk, _⟩ := applyOne_direct c hr id hid hp
  have hs := applyOne_same t id
  obtain ⟨hsq, _, hmu⟩ := applyOne_direct_sq t hr id
  have hg : ∀ j, getW (IoWatch.applyOne t id) j =
      if j = id then { getW t id with events := (getW t id).pevents } else getW t j := by
    intro j
    have : getW (IoWatch.applyOne t id) j = getW (setW t id { getW t id with events := (getW t id).pevents }) j := by
      simp [getW, hs.1]
    rw [this, getW_setW]; simp [hid]
  have hlen : (IoWatch.applyOne t id).ws.length = t.ws.length := by rw [hs.1]; simp
  have hwat : ∀ f, watcherAt (IoWatch.applyOne t id) f = watcherAt t f := by
    intro f; simp only [watcherAt, hs.2.1]; rfl
  have lvid := c.live id hid hp
  have gfd : ∀ j, (getW (IoWatch.applyOne t id) j).fd = (getW t j).fd := by
    intro j; rw [hg]; split
    · rename_i e; rw [e]
    · rfl
  have gpe : ∀ j, (getW (IoWatch.applyOne t id) j).pevents = (getW t j).pevents := by
    intro j; rw [hg]; split
    · rename_i e; rw [e]
    · rfl
  have gcl : ∀ j, (getW (IoWatch.applyOne t id) j).closing = (getW t j).closing ∧
      (getW (IoWatch.applyOne t id) j).clean = (getW t j).clean := by
    intro j; rw [hg]; split
    · rename_i e; rw [e]; exact ⟨rfl, rfl⟩
    · exact ⟨rfl, rfl⟩
  refine ⟨by rw [hsq]; exact c.sq, by rw [hmu]; exact c.multi, ?_, ?_, ?_, ?_, ?_, ?_⟩
  · intro j hj hne; rw [hlen] at hj
    by_cases e : j = id
    · subst e
      refine ⟨o, by rw [gfd, hof]; exact ho, ?_⟩
      rw [gfd, hmk, if_pos ⟨rfl, rfl⟩, hg, if_pos rfl]
    · rw [hg, if_neg e] at hne
      obtain ⟨oj, a1, a2⟩ := c.armed j hj hne
      refine ⟨oj, by rw [gfd, hof]; exact a1, ?_⟩
      rw [gfd, hmk, if_neg, hg, if_neg e]; exact a2
      intro hc
      have hpj : (getW t j).pevents ≠ Mask.none := fun h0 => hne (c.quiet j h0)
      have lj := (c.live j hj hpj).2.2.2
      rw [hc.2, lvid.2.2.2] at lj; simp at lj; exact e lj.symm
  · intro o' f' h; rw [hmk] at h
    by_cases hc : o' = o ∧ f' = (getW t id).fd
    · obtain ⟨rfl, rfl⟩ := hc
      refine ⟨by rw [hof]; exact ho, id, by rw [hlen]; exact hid, gfd id, by rw [(gcl id).1]; exact lvid.1, ?_⟩
      rw [(gcl id).2, lvid.2.1]; simp
    · rw [if_neg hc] at h
      obtain ⟨a, j, b1, b2, b3, b4⟩ := c.owned o' f' h
      exact ⟨by rw [hof]; exact a, j, by rw [hlen]; exact b1, by rw [gfd]; exact b2,
        by rw [(gcl j).1]; exact b3, by rw [(gcl j).2, gpe]; exact b4⟩
  · intro a b ha hb; rw [gfd, gfd, (gcl a).1, (gcl b).1]
    exact c.uniq a b (by rw [← hlen]; exact ha) (by rw [← hlen]; exact hb)
  · intro j; rw [hg]; split
    · intro h; exact h
    · exact c.quiet j
  · intro j hj hpj; rw [hlen] at hj; rw [gpe] at hpj
    have l := c.live j hj hpj
    exact ⟨by rw [(gcl j).1]; exact l.1, by rw [(gcl j).2]; exact l.2.1, by rw [gfd, hof]; exact l.2.2.1,
      by rw [gfd, hwat]; exact l.2.2.2⟩
  · intro j hj; rw [hs.2.2.2] at hj; rw [hlen, gpe]
    exact c.queued j hj

theorem KCore.foldApply (l : List Nat) {t : St} (c : KCore t) (hr : t.ring = false)
    (hl : ∀ id ∈ l, id < t.ws.length ∧ (getW t id).pevents ≠ Mask.none) :
    KCore (l.foldl IoWatch.applyOne t) := by
  induction l generalizing t with
  | nil => exact c
  | cons a r ih =>
    simp only [List.foldl_cons]
    have ha := hl a (by simp)
    have hs := applyOne_same t a
    have hg : ∀ j, (getW (IoWatch.applyOne t a) j).pevents = (getW t j).pevents := by
      intro j
      have : getW (IoWatch.applyOne t a) j = getW (setW t a { getW t a with events := (getW t a).pevents }) j := by
        simp [getW, hs.1]
      rw [this, getW_setW]; split
      · rename_i e; rw [e.1]
      · rfl
    have hlen : (IoWatch.applyOne t a).ws.length = t.ws.length := by rw [hs.1]; simp
    refine ih (c.applyOne hr a ha.1 ha.2) (applyOne_direct_sq t hr a).2.1 ?_
    intro id hid; rw [hlen, hg]; exact hl id (List.mem_cons_of_mem _ hid)

theorem flushOnce_nil (x : St) (h : x.sq = []) : flushOnce x = x := by
  cases x; simp only at h; subst h; rfl

/-- direct mode: the kernel invariant survives `uv__io_poll`'s queue application (and the no-op flush) -/
theorem KCore.applyQueue {s : St} (c : KCore s) (hr : s.ring = false) : KCore (flushAll (applyQueue s)) := by
  have c0 : KCore { s with wq := [] } :=
    ⟨c.sq, c.multi, c.armed, c.owned, c.uniq, c.quiet, c.live, by intro id h; simp at h⟩
  have c1 : KCore (IoWatch.applyQueue s) := by
    unfold IoWatch.applyQueue
    exact KCore.foldApply s.wq c0 hr (fun id h => c.queued id h)
  have hsq := c1.sq
  have e : flushAll (IoWatch.applyQueue s) = IoWatch.applyQueue s := by
    unfold flushAll; rw [flushOnce_nil _ hsq, flushOnce_nil _ hsq]
  rw [e]; exact c1

end UvModel.IoWatch

namespace UvModel.IoWatch

theorem kcore_init (ring : Bool) (internal nw : Nat) : KCore (init ring internal nw) := by
  refine ⟨rfl, rfl, ?_, ?_, ?_, ?_, ?_, ?_⟩
  · intro id h; simp [init] at h
  · intro o fd h; simp [init, Kernel.maskAt, entMask] at h
  · intro i j h; simp [init] at h
  · intro id _; simp [init, getW]; rfl
  · intro id h; simp [init] at h
  · intro id h; simp [init] at h

end UvModel.IoWatch

