import UvModel.IoWatch
/-! helper lemmas for C14 -/
namespace UvModel.IoWatch

theorem Mask.sub_refl (a : Mask) : a.sub a := by
  cases a; simp [Mask.sub, Mask.and]

end UvModel.IoWatch
