import UvModel.Lemmas.FsPollLemmas
import UvModel.Lemmas.FsEventLemmas
/-! C17 helper lemmas: fs_poll (FsPollLemmas) and fs_event (FsEventLemmas). -/
