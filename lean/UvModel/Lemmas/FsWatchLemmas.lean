import UvModel.Lemmas.FsPollLemmas
/-! C17 helper lemmas: fs_poll (FsPollLemmas) and fs_event (FsEventLemmas). -/
