import UvModel.Lemmas.AsyncLemmas
/-! helper invariants for C09: no lost wake-up, callback count, visibility -/
namespace UvModel.Async

/-! ## no lost wake-up -/
def atWriteL (l : List Sender) : Prop := ∃ (t : Nat) (x : Sender), l[t]? = some x ∧ x.pc = .write
def atWrite (s : State) : Prop := atWriteL s.snd

def willScan (s : State) (h : Nat) : Prop :=
  match s.lpc with
  | .idle => False
  | .drain => h ∈ s.handles
  | .scan h' => h = h' ∨ h ∈ s.queue
  | .inCb _ => h ∈ s.queue
  | .closeStore _ r => r ≠ .idle ∧ h ∈ s.queue
  | .closeSpin _ r => r ≠ .idle ∧ h ∈ s.queue

def NoLost (s : State) : Prop :=
  ∀ h, (s.hs h).pending ≠ 0 → (s.hs h).closing = false → s.efd > 0 ∨ atWrite s ∨ willScan s h

theorem atWriteL_set_of_not {l : List Sender} {t : Nat} {x x' : Sender} (h0 : l[t]? = some x) (hx : x.pc ≠ .write)
    (h : atWriteL l) : atWriteL (l.set t x') := by
  obtain ⟨u, y, hu, hy⟩ := h
  refine ⟨u, y, ?_, hy⟩
  rw [List.getElem?_set]
  split
  · next heq => subst heq; rw [h0] at hu; cases hu; exact absurd hy hx
  · exact hu

theorem atWriteL_set_write {l : List Sender} {t : Nat} {x x' : Sender} (h0 : l[t]? = some x) (hx : x'.pc = .write) :
    atWriteL (l.set t x') := by
  refine ⟨t, x', ?_, hx⟩
  have : t < l.length := by
    rcases Nat.lt_or_ge t l.length with h | h
    · exact h
    · rw [List.getElem?_eq_none h] at h0; cases h0
  simp [this]

theorem noLost_step {s s' : State} {a : Act} (hL : InvL s) (hS : InvS s) (hI : NoLost s) (hs : step? s a = some s') :
    NoLost s' := by
  cases a with
  | begin t h =>
    simp only [step?] at hs
    repeat' split at hs
    all_goals first | (simp at hs; done) | skip
    next x hx hc =>
      simp only [Option.some.injEq] at hs; subst hs
      intro h' hp hcl
      have hw := atWriteL_set_of_not (x' := { pc := .load, h := h, seq := (s.hs h).pub + 1, sent := false }) hx (by simp [hc.1])
      have := hI h'
      simp [setSnd, setH, upd, atWrite, willScan] at *
      grind
  | snd t =>
    simp only [step?, sndStep] at hs
    repeat' split at hs
    all_goals first | (simp at hs; done) | skip
    all_goals (
      simp only [Option.some.injEq] at hs; subst hs
      intro h' hp hcl
      have := hI h'
      simp [setSnd, setH, upd, atWrite, willScan] at *
      first | done | grind [atWriteL_set_of_not, atWriteL_set_write])
  | loop =>
    simp only [step?, loopStep] at hs
    cases hl : s.lpc with
    | idle =>
      simp only [hl] at hs; split at hs
      · simp only [Option.some.injEq] at hs; subst hs
        intro h' hp hcl; left; simpa using ‹s.efd > 0›
      · simp at hs
    | drain =>
      simp only [hl] at hs
      have hq := hL.qEmpty (by simp [hl, qMustBeEmpty])
      rcases hh : s.handles with _ | ⟨h0, hs0⟩ <;>
      (simp only [Option.some.injEq] at hs; subst hs
       intro h' hp hcl
       have h1 := hS.pendLt h'
       have h2 := hL.linked h'
       have h3 := hL.unlSto h'
       have h4 := hL.sto h'
       simp [nextScan, hh, hq, willScan, atWrite] at *
       first | done | grind)
    | scan h =>
      simp only [hl] at hs
      rcases hq : s.queue with _ | ⟨q0, qs⟩ <;> split at hs <;>
      (simp only [Option.some.injEq] at hs; subst hs
       intro h' hp hcl
       have := hI h'
       simp [nextScan, hq, hl, setH, upd, willScan, atWrite] at *
       first | done | grind)
    | inCb h =>
      simp only [hl] at hs
      rcases hq : s.queue with _ | ⟨q0, qs⟩ <;>
      (simp only [Option.some.injEq] at hs; subst hs
       intro h' hp hcl
       have := hI h'
       simp [nextScan, hq, hl, willScan, atWrite] at *
       first | done | grind)
    | closeStore h r =>
      simp only [hl] at hs
      simp only [Option.some.injEq] at hs; subst hs
      intro h' hp hcl
      have := hI h'
      have h5 := hL.cloPc h r (Or.inl hl)
      simp [hl, setH, upd, willScan, atWrite] at *
      first | done | grind
    | closeSpin h r =>
      simp only [hl] at hs; split at hs
      · cases r <;>
        (simp only [Option.some.injEq] at hs; subst hs
         intro h' hp hcl
         have := hI h'
         have h5 := hL.cloPc h _ (Or.inr hl)
         simp [hl, setH, upd, willScan, atWrite, LRet.toPc] at *
         first | done | grind)
      · simp at hs
  | close h =>
    simp only [step?] at hs
    cases hl : s.lpc <;> simp only [hl, LPc.ret?] at hs <;> (try (simp at hs; done)) <;> split at hs <;> (try (simp at hs; done)) <;>
      (simp only [Option.some.injEq] at hs; subst hs
       intro h' hp hcl
       have := hI h'
       simp [hl, setH, upd, willScan, atWrite] at *
       first | done | grind)
  | fork =>
    simp only [step?] at hs
    split at hs
    · simp only [Option.some.injEq] at hs; subst hs
      intro h' hp hcl
      have h1 := hS.pendLt h'; have h2 := hL.linked h'; have h3 := hL.unlSto h'; have h4 := hL.sto h'
      have hq := hL.qEmpty
      simp [qMustBeEmpty] at *
      first | done | grind
    · simp at hs
  | eintr w => cases step?_eintr hs; exact hI
  | closeCbs =>
    simp only [step?] at hs
    split at hs
    · simp only [Option.some.injEq] at hs; subst hs
      intro h' hp hcl
      have := hI h'
      simp [willScan, atWrite] at *
      first | done | grind
    · simp at hs


/-! ## callbacks never outnumber effective sends -/
def CbLe (s : State) : Prop :=
  ∀ h, (s.hs h).cbs + (if (s.hs h).pending ≠ 0 ∧ (s.hs h).stored = false then 1 else 0) ≤ (s.hs h).x01

theorem cbLe_step {s s' : State} {a : Act} (hL : InvL s) (hI : CbLe s) (hs : step? s a = some s') : CbLe s' := by
  cases a with
  | begin t h =>
    simp only [step?] at hs
    repeat' split at hs
    all_goals first | (simp at hs; done) | skip
    all_goals (simp only [Option.some.injEq] at hs; subst hs; intro h'; have := hI h'; simp [setSnd, setH, upd] at *; first | done | grind)
  | snd t =>
    simp only [step?, sndStep] at hs
    repeat' split at hs
    all_goals first | (simp at hs; done) | skip
    all_goals (simp only [Option.some.injEq] at hs; subst hs; intro h'; have := hI h'; simp [setSnd, setH, upd] at *; first | done | grind)
  | loop =>
    simp only [step?, loopStep] at hs
    cases hl : s.lpc <;> simp only [hl] at hs <;> (try split at hs) <;> (try (simp at hs; done)) <;>
      (simp only [Option.some.injEq] at hs; subst hs; intro h'; have := hI h'
       have h1 := hL.scanIn h'; have h2 := hL.unl h'; have h3 := hL.sto h'
       simp [nextScan, setH, upd, hl] at * <;> (try split) <;> (try simp) <;> first | done | grind)
  | close h =>
    simp only [step?] at hs
    repeat' split at hs
    all_goals first | (simp at hs; done) | skip
    all_goals (simp only [Option.some.injEq] at hs; subst hs; intro h'; have := hI h'; simp [setH, upd] at *; first | done | grind)
  | fork =>
    simp only [step?] at hs
    split at hs
    · simp only [Option.some.injEq] at hs; subst hs
      intro h'; have := hI h'; simp at *; first | done | grind
    · simp at hs
  | eintr w => cases step?_eintr hs; exact hI
  | closeCbs =>
    simp only [step?] at hs
    repeat' split at hs
    all_goals first | (simp at hs; done) | skip
    all_goals (simp only [Option.some.injEq] at hs; subst hs; intro h'; have := hI h'; simp at *; first | done | grind)

/-! ## a returned (or published) send is seen by a callback or still pending -/
def published (x : Sender) : Prop := x.pc = .write ∨ x.pc = .dec ∨ (x.pc = .idle ∧ x.sent = true)

def SeenOrPending (s : State) : Prop :=
  ∀ (t : Nat) (x : Sender), s.snd[t]? = some x → published x → (s.hs x.h).closing = false →
    x.seq ≤ (s.hs x.h).seen ∨ (s.hs x.h).pending ≠ 0

theorem seenOrPending_step {s s' : State} {a : Act} (hS : InvS s) (hI : SeenOrPending s) (hs : step? s a = some s') :
    SeenOrPending s' := by
  have hI0 := hI
  simp only [SeenOrPending, published] at hI0
  cases a with
  | begin t h =>
    simp only [step?] at hs
    repeat' split at hs
    all_goals first | (simp at hs; done) | skip
    all_goals (simp only [Option.some.injEq] at hs; subst hs; intro t' x' hx' hp hc; have := hI t' x'
               simp [setSnd, setH, upd, List.getElem?_set, published] at *; first | done | grind)
  | snd t =>
    simp only [step?, sndStep] at hs
    repeat' split at hs
    all_goals first | (simp at hs; done) | skip
    all_goals (simp only [Option.some.injEq] at hs; subst hs; intro t' x' hx' hp hc; have := hI t' x'
               simp [setSnd, setH, upd, List.getElem?_set, published] at *; first | done | grind)
  | loop =>
    simp only [step?, loopStep] at hs
    cases hl : s.lpc <;> simp only [hl] at hs <;> (try split at hs) <;> (try (simp at hs; done)) <;>
      (simp only [Option.some.injEq] at hs; subst hs; intro t' x' hx' hp hc; have := hI t' x'; have h1 := hS.seqLe t' x'
       simp [nextScan, setH, upd, published] at * <;> (try split at hx') <;> (try simp at *) <;> first | done | grind)
  | close h =>
    simp only [step?] at hs
    repeat' split at hs
    all_goals first | (simp at hs; done) | skip
    all_goals (simp only [Option.some.injEq] at hs; subst hs; intro t' x' hx' hp hc; have := hI t' x'
               simp [setH, upd, published] at *; first | done | grind)
  | fork =>
    simp only [step?] at hs
    split at hs
    · simp only [Option.some.injEq] at hs; subst hs
      intro t' x' hx' hp hc
      simp [List.getElem?_map] at hx'
      obtain ⟨y, _, rfl⟩ := hx'
      simp [published] at hp
    · simp at hs
  | eintr w => cases step?_eintr hs; exact hI
  | closeCbs =>
    simp only [step?] at hs
    repeat' split at hs
    all_goals first | (simp at hs; done) | skip
    all_goals (simp only [Option.some.injEq] at hs; subst hs; intro t' x' hx' hp hc; have := hI t' x'
               simp [published] at *; first | done | grind)


@[simp] theorem nextScan_snd (s : State) : (nextScan s).snd = s.snd := by unfold nextScan; split <;> rfl
@[simp] theorem nextScan_hs (s : State) : (nextScan s).hs = s.hs := by unfold nextScan; split <;> rfl
@[simp] theorem nextScan_efd (s : State) : (nextScan s).efd = s.efd := by unfold nextScan; split <;> rfl
@[simp] theorem nextScan_nh (s : State) : (nextScan s).nh = s.nh := by unfold nextScan; split <;> rfl

/-! ## the busy counter counts the senders inside the critical section; nobody wakes the loop for a closed handle -/
def critB (h : Nat) (x : Sender) : Bool := x.h == h && (x.pc == .xchg || x.pc == .write || x.pc == .dec)

structure InvB (s : State) : Prop where
  busyEq : ∀ h, (s.hs h).unlinked = false → (s.hs h).busy = (s.snd.countP (critB h) : Int)
  noWrite : ∀ (t : Nat) (x : Sender), s.snd[t]? = some x → x.pc = .write → (s.hs x.h).unlinked = false

theorem countP_set_int (l : List Sender) (t : Nat) (x x' : Sender) (p : Sender → Bool) (h0 : l[t]? = some x) :
    ((l.set t x').countP p : Int) = (l.countP p : Int) - (if p x then 1 else 0) + (if p x' then 1 else 0) := by
  have ht : t < l.length := by
    rcases Nat.lt_or_ge t l.length with h | h
    · exact h
    · rw [List.getElem?_eq_none h] at h0; cases h0
  have hx : l[t] = x := by
    rw [List.getElem?_eq_getElem ht] at h0; exact Option.some.inj h0
  rw [List.countP_set ht, hx]
  by_cases hp : p x
  · have : 0 < l.countP p := List.countP_pos_iff.mpr ⟨x, hx ▸ List.getElem_mem ht, hp⟩
    simp [hp]; split <;> omega
  · simp [hp]; split <;> simp

theorem not_crit_of_countP_zero {l : List Sender} {h t : Nat} {x : Sender} (hz : l.countP (critB h) = 0)
    (h0 : l[t]? = some x) : critB h x = false := by
  have := List.countP_eq_zero.mp hz x (List.mem_of_getElem? h0)
  simpa using this

theorem invB_step {s s' : State} {a : Act} (hL : InvL s) (hS : InvS s) (hI : InvB s) (hs : step? s a = some s') : InvB s' := by
  have hb := hI.busyEq
  have hw := hI.noWrite
  cases a with
  | begin t h =>
    simp only [step?] at hs
    repeat' split at hs
    all_goals first | (simp at hs; done) | skip
    next x hx hc =>
      simp only [Option.some.injEq] at hs; subst hs
      constructor
      · intro h'
        have := countP_set_int s.snd t x { pc := .load, h := h, seq := (s.hs h).pub + 1, sent := false } (critB h') hx
        have := hb h'
        simp [setSnd, setH, upd, critB, hc.1] at *
        first | done | grind
      · intro t' x' hx' hp
        have := hw t' x'
        simp [setSnd, setH, upd, List.getElem?_set] at *
        first | done | grind
  | snd t =>
    simp only [step?, sndStep] at hs
    split at hs
    · simp at hs
    next x hx =>
      repeat' split at hs
      all_goals first | (simp at hs; done) | skip
      all_goals (
        simp only [Option.some.injEq] at hs; subst hs
        constructor
        · intro h'
          have := hb h'
          have := hb x.h
          simp only [setSnd, setH]
          rw [countP_set_int s.snd t x _ (critB h') hx]
          simp [upd, critB, *] at *
          first | done | grind
        · intro t' x' hx' hp
          have := hw t' x'
          have h1 := hL.unlSto x.h
          have h2 := hL.stoPend x.h
          simp [setSnd, setH, upd, List.getElem?_set] at *
          first | done | grind)
  | loop =>
    simp only [step?, loopStep] at hs
    cases hl : s.lpc with
    | closeSpin h r =>
      simp only [hl] at hs; split at hs
      next hz =>
        simp only [Option.some.injEq] at hs; subst hs
        constructor
        · intro h'; have := hb h'; simp [setH, upd] at *; first | done | grind
        · intro t' x' hx' hp
          have h1 := hw t' x' hx' hp
          by_cases hh : x'.h = h
          · have h2 := hb h (hL.cloPc h r (Or.inr hl)).2
            rw [hz] at h2
            have h3 : s.snd.countP (critB h) = 0 := by omega
            have h4 := not_crit_of_countP_zero h3 hx'
            simp [critB, hh, hp] at h4
          · simp [setH, upd, hh]; exact h1
      · simp at hs
    | _ =>
      simp only [hl] at hs <;> (try split at hs) <;> (try (simp at hs; done)) <;>
      (simp only [Option.some.injEq] at hs; subst hs
       constructor
       · intro h'; have := hb h'
         simp [setH, upd] at * <;> first | done | grind
       · intro t' x' hx' hp
         simp at hx'
         have := hw t' x' hx' hp
         simp [setH, upd] at * <;> first | done | grind)
  | close h =>
    simp only [step?] at hs
    repeat' split at hs
    all_goals first | (simp at hs; done) | skip
    all_goals (simp only [Option.some.injEq] at hs; subst hs
               constructor
               · intro h'; have := hb h'; simp [setH, upd] at *; first | done | grind
               · intro t' x' hx' hp; have := hw t' x' hx' hp; simp [setH, upd] at *; first | done | grind)
  | fork =>
    simp only [step?] at hs
    split at hs
    next hl =>
      simp only [Option.some.injEq] at hs; subst hs
      have hz : ∀ h', (s.snd.map fun x => ({ x with pc := .idle, sent := false } : Sender)).countP (critB h') = 0 := by
        intro h'; rw [List.countP_eq_zero]; intro a ha
        simp only [List.mem_map] at ha; obtain ⟨y, _, rfl⟩ := ha; simp [critB]
      constructor
      · intro h' hu
        simp only [hz]
        by_cases hin : h' ∈ s.handles
        · simp [hin]
        · simp only [hin, if_false] at hu ⊢
          have hq := hL.qEmpty (by simp [hl, qMustBeEmpty])
          have hge : ¬ h' < s.nh := by
            intro hlt; have := hL.linked h' hlt hu; simp [hq, hin] at this
          have h0 : s.snd.countP (critB h') = 0 := by
            rw [List.countP_eq_zero]; intro a ha
            obtain ⟨t, ht⟩ := List.getElem?_of_mem ha
            have := hS.sndLt t a ht
            simp only [critB, Bool.and_eq_true, beq_iff_eq, Bool.or_eq_true, not_and]
            intro he hc; subst he
            exact hge (this (by rcases hc with (hc | hc) | hc <;> simp [hc]))
          rw [hb h' hu, h0]
      · intro t' x' hx' hp
        simp [List.getElem?_map] at hx'
        obtain ⟨y, _, rfl⟩ := hx'
        simp at hp
    · simp at hs
  | eintr w => cases step?_eintr hs; exact hI
  | closeCbs =>
    simp only [step?] at hs
    repeat' split at hs
    all_goals first | (simp at hs; done) | skip
    all_goals (simp only [Option.some.injEq] at hs; subst hs
               constructor
               · intro h'; have := hb h'; simp at *; first | done | grind
               · intro t' x' hx' hp; have := hw t' x' hx' hp; simp at *; first | done | grind)


end UvModel.Async
