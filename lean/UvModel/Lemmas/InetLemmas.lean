import UvModel.Inet
/-! helper lemmas for C18 (address half) -/
namespace UvModel.Inet

/-! ### C strings -/

theorem cstr_getD_lt (s : List Nat) (i : Nat) (h : i < (cstr s).length) :
    s.getD i 0 ≠ 0 ∧ (cstr s).drop i = s.getD i 0 :: (cstr s).drop (i + 1) := by
  induction s generalizing i with
  | nil => simp [cstr] at h
  | cons a t ih =>
    by_cases ha : a = 0
    · simp [cstr, ha] at h
    · cases i with
      | zero => simp [cstr, ha]
      | succ j =>
        have : j < (cstr t).length := by simpa [cstr, ha] using h
        have := ih j this
        simpa [cstr, ha] using this

theorem cstr_getD_len (s : List Nat) : s.getD (cstr s).length 0 = 0 := by
  induction s with
  | nil => simp [cstr]
  | cons a t ih =>
    by_cases ha : a = 0
    · simp [cstr, ha]
    · simpa [cstr, ha] using ih

theorem cstr_append_nul (t r : List Nat) (h : ∀ c ∈ t, c ≠ 0) : cstr (t ++ 0 :: r) = t := by
  induction t with
  | nil => simp [cstr]
  | cons a t ih =>
    have ha : a ≠ 0 := h a (by simp)
    have := ih (fun c hc => h c (by simp [hc]))
    simpa [cstr, ha] using this

theorem cstr_id (t : List Nat) (h : ∀ c ∈ t, c ≠ 0) : cstr t = t := by
  induction t with
  | nil => simp [cstr]
  | cons a t ih =>
    have ha : a ≠ 0 := h a (by simp)
    have := ih (fun c hc => h c (by simp [hc]))
    simpa [cstr, ha] using this

/-! ### strscpy -/

theorem strscpyLoop_len (s : List Nat) (n i : Nat) (d : List Nat) :
    (strscpyLoop s n i d).2.length = d.length := by
  fun_induction strscpyLoop s n i d <;> simp_all

theorem strscpyLoop_frame (s : List Nat) (n i : Nat) (d : List Nat) (h : i ≤ n) :
    (strscpyLoop s n i d).2.drop n = d.drop n := by
  fun_induction strscpyLoop s n i d
  · simp; rw [List.drop_set_of_lt]; omega
  · rename_i ih; rw [ih (by omega)]; rw [List.drop_set_of_lt]; omega
  · simp
  · simp; rw [List.drop_set_of_lt]; omega

/-- closed form of the copy loop started at index `i` -/
theorem strscpyLoop_spec (s : List Nat) (n i : Nat) (d : List Nat)
    (hi : i ≤ (cstr s).length) (hin : i ≤ n) (hn : n ≤ d.length) (hmax : n ≤ SSIZE_MAX + 1) :
    strscpyLoop s n i d =
      if n = 0 then (0, d)
      else if (cstr s).length < n then
        (((cstr s).length : Int), d.take i ++ (cstr s).drop i ++ 0 :: d.drop ((cstr s).length + 1))
      else (UV_E2BIG, (d.take i ++ (cstr s).drop i).take (n - 1) ++ 0 :: d.drop n) := by
  fun_induction strscpyLoop s n i d
  · rename_i i d h1 hc
    have hiL : i = (cstr s).length := by
      by_cases hne : i = (cstr s).length
      · exact hne
      · exact absurd hc (cstr_getD_lt s i (by omega)).1
    have h0 : n ≠ 0 := by omega
    have h2 : (cstr s).length < n := by omega
    have h3 : ¬ i > SSIZE_MAX := by omega
    simp only [h0, h2, h3, if_false, if_true]
    subst hiL
    rw [hc, List.set_eq_take_append_cons_drop]
    simp [show (cstr s).length < d.length by omega]
  · rename_i i d h1 hc ih
    have hiL : i < (cstr s).length := by
      by_cases hne : i < (cstr s).length
      · exact hne
      · have : i = (cstr s).length := by omega
        exact absurd (by rw [this]; exact cstr_getD_len s) hc
    rw [ih (by omega) (by omega) (by simpa using hn)]
    have hdrop := (cstr_getD_lt s i hiL).2
    have ht : (d.set i (s.getD i 0)).take (i + 1) = d.take i ++ [s.getD i 0] := by
      rw [List.set_eq_take_append_cons_drop, if_pos (by omega), List.take_append]
      simp [Nat.min_eq_left (show i ≤ d.length by omega), List.take_take]
    have hd1 : (d.set i (s.getD i 0)).drop ((cstr s).length + 1) = d.drop ((cstr s).length + 1) :=
      List.drop_set_of_lt (by omega)
    have hd2 : (d.set i (s.getD i 0)).drop n = d.drop n := List.drop_set_of_lt (by omega)
    rw [ht, hd1, hd2, hdrop]
    simp [show n ≠ 0 by omega]
  · simp_all
  · rename_i i d h1 h2
    have : i = n := by omega
    subst this
    have h0 : i ≠ 0 := h2
    have h3 : ¬ (cstr s).length < i := by omega
    simp only [h0, h3, if_false]
    rw [List.set_eq_take_append_cons_drop, if_pos (by omega), List.take_append, List.take_take]
    simp [Nat.min_eq_left (show i - 1 ≤ i by omega), Nat.min_eq_left (show i ≤ d.length by omega), show i - 1 + 1 = i by omega,
          show i - 1 - i = 0 by omega]

theorem strscpy_spec (d s : List Nat) (n : Nat) (hn : n ≤ d.length) (hmax : n ≤ SSIZE_MAX + 1) :
    strscpy d s n =
      if n = 0 then (0, d)
      else if (cstr s).length < n then
        (((cstr s).length : Int), cstr s ++ 0 :: d.drop ((cstr s).length + 1))
      else (UV_E2BIG, (cstr s).take (n - 1) ++ 0 :: d.drop n) := by
  unfold strscpy
  rw [strscpyLoop_spec s n 0 d (by omega) (by omega) hn hmax]
  simp

theorem fmtU8_len (n : Nat) : 1 ≤ (fmtU8 n).length ∧ (fmtU8 n).length ≤ 3 := by
  unfold fmtU8; (repeat' split) <;> simp

theorem fmtU8_digits (n : Nat) (h : n < 1000) : ∀ c ∈ fmtU8 n, 48 ≤ c ∧ c ≤ 57 := by
  unfold fmtU8; (repeat' split) <;> simp <;> omega

theorem fmtU8_ne_zero (n : Nat) : ∀ c ∈ fmtU8 n, c ≠ 0 := by
  unfold fmtU8; (repeat' split) <;> simp <;> omega

theorem fmt4_len (src : List Nat) : 7 ≤ (fmt4 src).length ∧ (fmt4 src).length ≤ 15 := by
  have h0 := fmtU8_len (src.getD 0 0)
  have h1 := fmtU8_len (src.getD 1 0)
  have h2 := fmtU8_len (src.getD 2 0)
  have h3 := fmtU8_len (src.getD 3 0)
  simp only [fmt4, List.length_append, List.length_cons]
  omega

theorem fmt4_ne_zero (src : List Nat) : ∀ c ∈ fmt4 src, c ≠ 0 := by
  intro c hc
  simp only [fmt4, List.mem_append, List.mem_cons] at hc
  rcases hc with ((h | h | h) | h | h) | h | h
  all_goals first | exact fmtU8_ne_zero _ c h | omega

/-- closed form of `inet_ntop4` -/
theorem ntop4_spec (src d : List Nat) (size : Nat) (hn : size ≤ d.length) (hmax : size ≤ SSIZE_MAX + 1) :
    ntop4 src d size =
      if size ≤ (fmt4 src).length then (UV_ENOSPC, d)
      else (0, fmt4 src ++ 0 :: d.drop ((fmt4 src).length + 1)) := by
  have hl := fmt4_len src
  unfold ntop4
  simp only []
  have ht : (fmt4 src).take 15 = fmt4 src := List.take_of_length_le hl.2
  rw [ht]
  by_cases h : size ≤ (fmt4 src).length
  · have : (fmt4 src).length ≤ 0 ∨ (fmt4 src).length ≥ size := Or.inr h
    simp [h]
  · have : ¬ ((fmt4 src).length ≤ 0 ∨ (fmt4 src).length ≥ size) := by omega
    rw [if_neg this, if_neg h, strscpy_spec d _ size hn hmax, cstr_id _ (fmt4_ne_zero src)]
    simp [show size ≠ 0 by omega, show (fmt4 src).length < size by omega]

/-! ### dotted quad -/

theorem isOctet_iff (t : List Nat) (n : Nat) : IsOctet t n ↔ n ≤ 255 ∧ t = fmtU8 n := by
  constructor
  · rintro ⟨hne, hlen, hdig, hlead, hval, hn⟩
    refine ⟨hn, ?_⟩
    match t, hne, hlen with
    | [a], _, _ =>
      have := hdig a (by simp)
      simp [decVal] at hval
      unfold fmtU8; subst hval
      rw [if_pos (by omega)]; simp; omega
    | [a, b], _, _ =>
      have ha := hdig a (by simp)
      have hb := hdig b (by simp)
      have hl : a ≠ 48 := by simpa using hlead (by simp)
      simp [decVal] at hval
      unfold fmtU8; subst hval
      rw [if_neg (by omega), if_pos (by omega)]; simp; omega
    | [a, b, c], _, _ =>
      have ha := hdig a (by simp)
      have hb := hdig b (by simp)
      have hc := hdig c (by simp)
      have hl : a ≠ 48 := by simpa using hlead (by simp)
      simp [decVal] at hval
      unfold fmtU8; subst hval
      rw [if_neg (by omega), if_neg (by omega)]; simp; omega
    | _ :: _ :: _ :: _ :: _, _, h => simp at h
  · rintro ⟨hn, rfl⟩
    unfold fmtU8 IsOctet
    (repeat' split) <;> simp [decVal] <;> omega

theorem fmtU8_digit (ch : Nat) (h : 48 ≤ ch ∧ ch ≤ 57) : fmtU8 (ch - 48) = [ch] := by
  unfold fmtU8; rw [if_pos (by omega)]; simp; omega

theorem fmtU8_snoc (cur ch : Nat) (h : 48 ≤ ch ∧ ch ≤ 57) (h0 : cur ≠ 0) (h255 : cur * 10 + (ch - 48) ≤ 255) :
    fmtU8 (cur * 10 + (ch - 48)) = fmtU8 cur ++ [ch] := by
  unfold fmtU8
  by_cases h1 : cur < 10
  · rw [if_neg (by omega), if_pos (by omega), if_pos h1]; simp; omega
  · rw [if_neg (by omega), if_neg (by omega), if_neg h1, if_pos (by omega)]; simp; omega

/-- the text consumed so far: completed octets each followed by '.' -/
def pre4 (done : List Nat) : List Nat := done.flatMap fun n => fmtU8 n ++ [46]

theorem pre4_snoc (done : List Nat) (c : Nat) : pre4 (done ++ [c]) = pre4 done ++ fmtU8 c ++ [46] := by
  simp [pre4]

theorem pton4Loop_sound (s : List Nat) : ∀ (saw : Bool) (k : Nat) (done : List Nat) (cur : Nat) (v : List Nat),
    pton4Loop s saw k done cur = some v →
    (∀ x ∈ done, x ≤ 255) → cur ≤ 255 → (saw = true → k = done.length + 1) →
    (saw = false → k = done.length ∧ cur = 0 ∧ k ≤ 3) → k ≤ 4 →
    ∃ a b c d, a ≤ 255 ∧ b ≤ 255 ∧ c ≤ 255 ∧ d ≤ 255 ∧ v = [a, b, c, d] ∧
      pre4 done ++ (if saw then fmtU8 cur else []) ++ s = fmt4 [a, b, c, d] := by
  induction s with
  | nil =>
    intro saw k done cur v h hdone hcur hs1 hs0 hk
    simp only [pton4Loop] at h
    split at h
    · simp at h
    · cases saw with
      | false => have := hs0 rfl; omega
      | true =>
        have hk4 := hs1 rfl
        have : done.length = 3 := by omega
        match done, this with
        | [a, b, c], _ =>
          refine ⟨a, b, c, cur, hdone a (by simp), hdone b (by simp), hdone c (by simp), hcur, by simpa using h.symm, ?_⟩
          simp [pre4, fmt4]
  | cons ch rest ih =>
    intro saw k done cur v h hdone hcur hs1 hs0 hk
    rw [pton4Loop] at h
    split at h
    · rename_i hd
      split at h; · simp at h
      rename_i hz
      split at h; · simp at h
      rename_i hnw
      split at h
      · rename_i hsaw
        split at h; · simp at h
        obtain ⟨hk0, hc0, hk3⟩ := hs0 hsaw
        subst hc0
        obtain ⟨a, b, c, d, ha, hb, hc, hd', hv, ht⟩ :=
          ih true (k + 1) done (0 * 10 + (ch - 48)) v h hdone (by omega) (by intro; omega) (by simp) (by omega)
        refine ⟨a, b, c, d, ha, hb, hc, hd', hv, ?_⟩
        rw [← ht]; simp [hsaw, fmtU8_digit ch hd]
      · rename_i hsaw
        have hsaw : saw = true := by simpa using hsaw
        have hc0 : cur ≠ 0 := by intro h0; exact hz ⟨hsaw, h0⟩
        obtain ⟨a, b, c, d, ha, hb, hc, hd', hv, ht⟩ :=
          ih true k done (cur * 10 + (ch - 48)) v h hdone (by omega) (by intro; exact hs1 hsaw) (by simp) hk
        refine ⟨a, b, c, d, ha, hb, hc, hd', hv, ?_⟩
        rw [← ht]; simp [hsaw, fmtU8_snoc cur ch hd hc0 (by omega)]
    · split at h
      · rename_i hdot
        obtain ⟨rfl, hsaw⟩ := hdot
        split at h; · simp at h
        rename_i hk4
        have hkk := hs1 hsaw
        obtain ⟨a, b, c, d, ha, hb, hc, hd', hv, ht⟩ :=
          ih false k (done ++ [cur]) 0 v h
            (by intro x hx; simp at hx; rcases hx with hx | hx; exact hdone x hx; omega)
            (by omega) (by simp) (by intro; simp; omega) hk
        refine ⟨a, b, c, d, ha, hb, hc, hd', hv, ?_⟩
        rw [← ht]; simp [hsaw, pre4_snoc]
      · simp at h

theorem pton4Loop_digit (ch : Nat) (rest : List Nat) (saw : Bool) (k : Nat) (done : List Nat) (cur : Nat)
    (hd : 48 ≤ ch ∧ ch ≤ 57) (hz : ¬ (saw = true ∧ cur = 0)) (hnw : cur * 10 + (ch - 48) ≤ 255)
    (hk : saw = false → k < 4) :
    pton4Loop (ch :: rest) saw k done cur =
      pton4Loop rest true (if saw then k else k + 1) done (cur * 10 + (ch - 48)) := by
  rw [pton4Loop, if_pos hd, if_neg hz, if_neg (by omega)]
  cases saw with
  | false => have := hk rfl; simp; omega
  | true => simp

/-- reading one canonical octet from a "no digit seen yet" state -/
theorem pton4Loop_octet (n : Nat) (rest : List Nat) (k : Nat) (done : List Nat) (hn : n ≤ 255) (hk : k < 4) :
    pton4Loop (fmtU8 n ++ rest) false k done 0 = pton4Loop rest true (k + 1) done n := by
  unfold fmtU8
  (repeat' split)
  · rw [List.singleton_append, pton4Loop_digit _ _ _ _ _ _ (by omega) (by simp) (by omega) (by intro; omega)]
    simp
  · rw [List.cons_append, List.cons_append, List.nil_append,
      pton4Loop_digit _ _ _ _ _ _ (by omega) (by simp) (by omega) (by intro; omega),
      pton4Loop_digit _ _ _ _ _ _ (by omega) (by simp; omega) (by omega) (by simp)]
    simp only [Bool.false_eq_true, ↓reduceIte]; congr 1; omega
  · rw [List.cons_append, List.cons_append, List.cons_append, List.nil_append,
      pton4Loop_digit _ _ _ _ _ _ (by omega) (by simp) (by omega) (by intro; omega),
      pton4Loop_digit _ _ _ _ _ _ (by omega) (by simp; omega) (by omega) (by simp),
      pton4Loop_digit _ _ _ _ _ _ (by omega) (by simp; omega) (by omega) (by simp)]
    simp only [Bool.false_eq_true, ↓reduceIte]; congr 1; omega

theorem pton4Loop_dot (rest : List Nat) (k : Nat) (done : List Nat) (cur : Nat) (hk : k ≠ 4) :
    pton4Loop (46 :: rest) true k done cur = pton4Loop rest false k (done ++ [cur]) 0 := by
  rw [pton4Loop]; simp [hk]

theorem pton4_fmt4 (a b c d : Nat) (ha : a ≤ 255) (hb : b ≤ 255) (hc : c ≤ 255) (hd : d ≤ 255) :
    pton4 (fmt4 [a, b, c, d]) = some [a, b, c, d] := by
  simp only [pton4, fmt4, List.getD_cons_zero, List.getD_cons_succ, List.append_assoc]
  rw [pton4Loop_octet a _ 0 _ ha (by omega), List.cons_append, pton4Loop_dot _ _ _ _ (by omega),
      pton4Loop_octet b _ 1 _ hb (by omega), List.cons_append, pton4Loop_dot _ _ _ _ (by omega),
      pton4Loop_octet c _ 2 _ hc (by omega), pton4Loop_dot _ _ _ _ (by omega)]
  have := pton4Loop_octet d [] 3 ([] ++ [a] ++ [b] ++ [c]) hd (by omega)
  rw [List.append_nil] at this
  rw [this]; simp [pton4Loop]

theorem pton4_iff_fmt4 (s v : List Nat) :
    pton4 s = some v ↔ ∃ a b c d, a ≤ 255 ∧ b ≤ 255 ∧ c ≤ 255 ∧ d ≤ 255 ∧ v = [a, b, c, d] ∧ s = fmt4 [a, b, c, d] := by
  constructor
  · intro h
    obtain ⟨a, b, c, d, ha, hb, hc, hd, hv, ht⟩ :=
      pton4Loop_sound s false 0 [] 0 v h (by simp) (by omega) (by simp) (by simp) (by omega)
    exact ⟨a, b, c, d, ha, hb, hc, hd, hv, by simpa [pre4] using ht⟩
  · rintro ⟨a, b, c, d, ha, hb, hc, hd, rfl, rfl⟩
    exact pton4_fmt4 a b c d ha hb hc hd

theorem dottedQuad_iff (s v : List Nat) :
    DottedQuad s v ↔ ∃ a b c d, a ≤ 255 ∧ b ≤ 255 ∧ c ≤ 255 ∧ d ≤ 255 ∧ v = [a, b, c, d] ∧ s = fmt4 [a, b, c, d] := by
  constructor
  · rintro ⟨t1, t2, t3, t4, a, b, c, d, h1, h2, h3, h4, hs, hv⟩
    rw [isOctet_iff] at h1 h2 h3 h4
    refine ⟨a, b, c, d, h1.1, h2.1, h3.1, h4.1, hv, ?_⟩
    rw [hs, h1.2, h2.2, h3.2, h4.2]; simp [fmt4]
  · rintro ⟨a, b, c, d, ha, hb, hc, hd, hv, hs⟩
    refine ⟨fmtU8 a, fmtU8 b, fmtU8 c, fmtU8 d, a, b, c, d, (isOctet_iff _ _).2 ⟨ha, rfl⟩, (isOctet_iff _ _).2 ⟨hb, rfl⟩,
      (isOctet_iff _ _).2 ⟨hc, rfl⟩, (isOctet_iff _ _).2 ⟨hd, rfl⟩, ?_, hv⟩
    rw [hs]; simp [fmt4]

/-! ### ntop6: bounds and character set -/

/-- characters `inet_ntop6` may print -/
def OkChar6 (c : Nat) : Prop := (48 ≤ c ∧ c ≤ 57) ∨ (97 ≤ c ∧ c ≤ 102) ∨ c = 58 ∨ c = 46

theorem fmtX16_len (w : Nat) : 1 ≤ (fmtX16 w).length ∧ (fmtX16 w).length ≤ 4 := by
  unfold fmtX16; (repeat' split) <;> simp

theorem hexDigit_ok (d : Nat) (h : d < 16) : (48 ≤ hexDigit d ∧ hexDigit d ≤ 57) ∨ (97 ≤ hexDigit d ∧ hexDigit d ≤ 102) := by
  unfold hexDigit; split <;> omega

theorem fmtX16_ok (w : Nat) (h : w < 65536) : ∀ c ∈ fmtX16 w, OkChar6 c := by
  intro c hc
  have key : ∃ d, d < 16 ∧ c = hexDigit d := by
    unfold fmtX16 at hc
    (repeat' split at hc) <;> simp at hc
    · exact ⟨w, by omega, hc⟩
    · rcases hc with rfl | rfl
      · exact ⟨w / 16, by omega, rfl⟩
      · exact ⟨w % 16, by omega, rfl⟩
    · rcases hc with rfl | rfl | rfl
      · exact ⟨w / 256, by omega, rfl⟩
      · exact ⟨w / 16 % 16, by omega, rfl⟩
      · exact ⟨w % 16, by omega, rfl⟩
    · rcases hc with rfl | rfl | rfl | rfl
      · exact ⟨w / 4096, by omega, rfl⟩
      · exact ⟨w / 256 % 16, by omega, rfl⟩
      · exact ⟨w / 16 % 16, by omega, rfl⟩
      · exact ⟨w % 16, by omega, rfl⟩
  obtain ⟨d, hd, rfl⟩ := key
  rcases hexDigit_ok d hd with h | h
  · exact Or.inl h
  · exact Or.inr (Or.inl h)

theorem fmt4_ok (a : List Nat) (h : ∀ j, a.getD j 0 < 256) : ∀ c ∈ fmt4 a, OkChar6 c := by
  intro c hc
  simp only [fmt4, List.mem_append, List.mem_cons] at hc
  have h0 := fmtU8_digits _ (Nat.lt_trans (h 0) (by omega))
  have h1 := fmtU8_digits _ (Nat.lt_trans (h 1) (by omega))
  have h2 := fmtU8_digits _ (Nat.lt_trans (h 2) (by omega))
  have h3 := fmtU8_digits _ (Nat.lt_trans (h 3) (by omega))
  rcases hc with ((hh | hh | hh) | hh | hh) | hh | hh
  · exact Or.inl (h0 c hh)
  · exact Or.inr (Or.inr (Or.inr hh))
  · exact Or.inl (h1 c hh)
  · exact Or.inr (Or.inr (Or.inr hh))
  · exact Or.inl (h2 c hh)
  · exact Or.inr (Or.inr (Or.inr hh))
  · exact Or.inl (h3 c hh)

/-- the embedded `inet_ntop4` call always has room: it appends the dotted quad -/
theorem embedV4_spec (src tp : List Nat) (h : tp.length ≤ 30) :
    embedV4 src tp = .ok (tp ++ fmt4 (src.drop 12)) := by
  have hl := fmt4_len (src.drop 12)
  have hr : ntop4 (src.drop 12) (List.replicate (46 - tp.length) 0) (46 - tp.length) =
      (0, fmt4 (src.drop 12) ++ 0 :: (List.replicate (46 - tp.length) 0).drop ((fmt4 (src.drop 12)).length + 1)) := by
    rw [ntop4_spec _ _ _ (by simp) (by simp [SSIZE_MAX]; omega), if_neg (by omega)]
  unfold embedV4
  simp only [hr]
  simp [cstr_append_nul _ _ (fmt4_ne_zero _)]

/-- bound on `tp - tmp` before iteration `i` -/
def bnd (best : Run) (i : Nat) : Int :=
  if best.base = 0 ∧ 0 < best.len then
    (if i = 0 then 0 else if (i : Int) ≤ best.len then 1 else 1 + 5 * ((i : Int) - best.len))
  else 5 * (i : Int)

theorem bnd_run (best : Run) (i : Nat) (L : Int)
    (hrun : best.base ≠ -1 ∧ (i : Int) ≥ best.base ∧ (i : Int) < best.base + best.len) (hL : L ≤ bnd best i) :
    (if (i : Int) = best.base then L + 1 else L) ≤ bnd best (i + 1) := by
  unfold bnd at *
  omega

theorem bnd_hex (best : Run) (i : Nat) (L : Int) (_h0 : 0 ≤ L)
    (hrun : ¬ (best.base ≠ -1 ∧ (i : Int) ≥ best.base ∧ (i : Int) < best.base + best.len)) (hL : L ≤ bnd best i) :
    (if i ≠ 0 then L + 1 else L) + 4 ≤ bnd best (i + 1) := by
  unfold bnd at *
  omega

theorem bnd_v4 (best : Run) (L : Int)
    (_hrun : ¬ (best.base ≠ -1 ∧ ((6 : Nat) : Int) ≥ best.base ∧ ((6 : Nat) : Int) < best.base + best.len))
    (hb : best.base = 0) (hl : 5 ≤ best.len) (hL : L ≤ bnd best 6) : L ≤ 6 := by
  unfold bnd at *
  omega

theorem bnd_end (best : Run) (L : Int) (hL : L ≤ bnd best 8) : L ≤ 40 := by
  unfold bnd at *
  omega

theorem colon_len (i : Nat) (tp : List Nat) :
    ((colon i tp).length : Int) = if i ≠ 0 then (tp.length : Int) + 1 else tp.length := by
  unfold colon; split <;> simp

theorem colon_ok (i : Nat) (tp : List Nat) (hc : ∀ c ∈ tp, OkChar6 c) : ∀ c ∈ colon i tp, OkChar6 c := by
  intro c h
  unfold colon at h
  split at h
  · simp at h; rcases h with h | h
    · exact hc c h
    · exact Or.inr (Or.inr (Or.inl h))
  · exact hc c h

theorem fmt6Loop_ok (src ws : List Nat) (best : Run) (i : Nat) (tp : List Nat)
    (hws : ∀ j, ws.getD j 0 < 65536) (hsrc : ∀ j, src.getD j 0 < 256)
    (hb : (tp.length : Int) ≤ bnd best i) (hi : i ≤ 8) (hc : ∀ c ∈ tp, OkChar6 c) :
    ∃ out, fmt6Loop src ws best i tp = .ok out ∧ out.length ≤ 40 ∧ ∀ c ∈ out, OkChar6 c := by
  fun_induction fmt6Loop src ws best i tp
  · rename_i i tp h8 hrun ih
    apply ih
    · have := bnd_run best i tp.length hrun hb
      split <;> simp_all
    · omega
    · intro c hc'
      split at hc'
      · simp at hc'; rcases hc' with h | h
        · exact hc c h
        · exact Or.inr (Or.inr (Or.inl h))
      · exact hc c hc'
  · rename_i i tp h8 hrun hv4
    obtain ⟨rfl, hb0, hlen⟩ := hv4
    have h6 := bnd_v4 best tp.length hrun hb0 (by omega) hb
    have hcl := colon_len 6 tp
    rw [embedV4_spec _ _ (by simp at hcl; omega)]
    have hl := fmt4_len (src.drop 12)
    refine ⟨_, rfl, by simp at hcl ⊢; omega, ?_⟩
    intro c hc'
    simp only [List.mem_append] at hc'
    rcases hc' with h | h
    · exact colon_ok _ _ hc c h
    · exact fmt4_ok _ (by intro j; simpa [List.getD_eq_getElem?_getD, List.getElem?_drop] using hsrc (12 + j)) c h
  · rename_i i tp h8 hrun hv4 ih
    have hx := fmtX16_len (ws.getD i 0)
    have hcl := colon_len i tp
    apply ih
    · have := bnd_hex best i tp.length (by omega) hrun hb
      simp only [List.length_append]
      push_cast
      omega
    · omega
    · intro c hc'
      simp only [List.mem_append] at hc'
      rcases hc' with h | h
      · exact colon_ok _ _ hc c h
      · exact fmtX16_ok _ (hws i) c h
  · rename_i i tp h8
    have : i = 8 := by omega
    subst this
    exact ⟨tp, rfl, by have := bnd_end best tp.length hb; omega, hc⟩

theorem words_getD (src : List Nat) (j : Nat) :
    (words src).getD j 0 = if j < 8 then src.getD (2 * j) 0 * 256 + src.getD (2 * j + 1) 0 else 0 := by
  unfold words
  split
  · rename_i h
    simp [List.getD_eq_getElem?_getD, List.getElem?_map, List.getElem?_range h]
  · rename_i h
    have : (List.range 8)[j]? = none := by simp; omega
    simp [List.getD_eq_getElem?_getD, List.getElem?_map, this]

theorem words_lt (src : List Nat) (hsrc : ∀ j, src.getD j 0 < 256) (j : Nat) : (words src).getD j 0 < 65536 := by
  rw [words_getD]
  have h1 := hsrc (2 * j)
  have h2 := hsrc (2 * j + 1)
  split <;> omega

theorem okChar6_ne_zero (c : Nat) (h : OkChar6 c) : c ≠ 0 := by
  unfold OkChar6 at h; omega

/-- `inet_ntop6` always produces a text; it fits `tmp[46]` with its NUL and uses only `0-9a-f:.` -/
theorem ntop6Text_ok (src : List Nat) (hsrc : ∀ j, src.getD j 0 < 256) :
    ∃ t, ntop6Text src = .ok t ∧ t.length ≤ 41 ∧ ∀ c ∈ t, OkChar6 c := by
  obtain ⟨out, ho, hl, hc⟩ := fmt6Loop_ok src (words src) (bestRun (words src)) 0 []
    (words_lt src hsrc) hsrc (by unfold bnd; simp) (by omega) (by simp)
  unfold ntop6Text
  simp only [ho]
  split
  · refine ⟨_, rfl, by simp; omega, ?_⟩
    intro c h
    simp at h
    rcases h with h | h
    · exact hc c h
    · exact Or.inr (Or.inr (Or.inl h))
  · exact ⟨_, rfl, by omega, hc⟩

/-- closed form of `inet_ntop6` -/
theorem ntop6_spec (src d t : List Nat) (size : Nat) (ht : ntop6Text src = .ok t) (hz : ∀ c ∈ t, c ≠ 0)
    (hn : size ≤ d.length) (hmax : size ≤ SSIZE_MAX + 1) :
    ntop6 src d size =
      if size ≤ t.length then (UV_ENOSPC, d) else (0, t ++ 0 :: d.drop (t.length + 1)) := by
  unfold ntop6
  simp only [ht]
  by_cases h : size ≤ t.length
  · rw [if_pos (by simp; omega), if_pos h]
  · rw [if_neg (by simp; omega), if_neg h, strscpy_spec d _ size hn hmax]
    have : cstr (t ++ [0]) = t := cstr_append_nul t [] hz
    rw [this]
    simp [show size ≠ 0 by omega, show t.length < size by omega]

/-! ### pton6: soundness w.r.t. the grammar -/

/-- group texts: 1..4 hex digits each -/
def AllH16 (gs : List (List Nat)) : Prop := ∀ g ∈ gs, IsH16 g (hexFold g)
/-- the digits of the group being read -/
def CurOk (cur : List Nat) : Prop := cur.length ≤ 4 ∧ ∀ c ∈ cur, (hexVal c).isSome
/-- consumed text of completed groups: each followed by ':' -/
def preG (gs : List (List Nat)) : List Nat := gs.flatMap fun g => g ++ [58]
def bytesG (gs : List (List Nat)) : List Nat := gs.flatMap fun g => wbytes (hexFold g)

theorem preG_snoc (gs : List (List Nat)) (g : List Nat) : preG (gs ++ [g]) = preG gs ++ g ++ [58] := by
  simp [preG]
theorem bytesG_snoc (gs : List (List Nat)) (g : List Nat) : bytesG (gs ++ [g]) = bytesG gs ++ wbytes (hexFold g) := by
  simp [bytesG]
theorem allH16_snoc (gs : List (List Nat)) (g : List Nat) (h : AllH16 gs) (hg : IsH16 g (hexFold g)) :
    AllH16 (gs ++ [g]) := by
  intro x hx; simp at hx; rcases hx with hx | rfl
  · exact h x hx
  · exact hg

theorem hexFold_snoc (cur : List Nat) (ch : Nat) : hexFold (cur ++ [ch]) = hexFold cur * 16 + (hexVal ch).getD 0 := by
  simp [hexFold, List.foldl_append]

theorem curOk_isH16 (cur : List Nat) (h : CurOk cur) (hne : cur ≠ []) : IsH16 cur (hexFold cur) :=
  ⟨hne, h.1, h.2, rfl⟩

theorem groupSeq_pre (gs : List (List Nat)) (s bs : List Nat) (h : AllH16 gs) (hs : GroupSeq s bs) :
    GroupSeq (preG gs ++ s) (bytesG gs ++ bs) := by
  induction gs with
  | nil => simpa [preG, bytesG] using hs
  | cons g gs ih =>
    have hg := h g (by simp)
    have := GroupSeq.cons hg (ih (fun x hx => h x (by simp [hx])))
    simpa [preG, bytesG] using this

theorem hexSeq_pre (gs : List (List Nat)) (g : List Nat) (h : AllH16 gs) (hg : IsH16 g (hexFold g)) :
    HexSeq (preG gs ++ g) (bytesG gs ++ wbytes (hexFold g)) := by
  induction gs with
  | nil => simpa [preG, bytesG] using HexSeq.one hg
  | cons g' gs ih =>
    have hg' := h g' (by simp)
    have := HexSeq.cons hg' (ih (fun x hx => h x (by simp [hx])))
    simpa [preG, bytesG] using this

theorem wbytes_len (w : Nat) : (wbytes w).length = 2 := rfl

/-- after "::" (colonp set): the rest of the text is an optional group sequence -/
theorem pton6Loop_some (lb : List Nat) (src : List Nat) :
    ∀ (rs : List (List Nat)) (cur curtok : List Nat) (seen val : Nat) (tp v : List Nat),
    curtok = cur ++ src → seen = cur.length → val = hexFold cur → tp = lb ++ bytesG rs →
    AllH16 rs → CurOk cur → tp.length ≤ 16 → (cur = [] → rs ≠ [] → src ≠ []) →
    pton6Loop src curtok seen val tp (some lb.length) = some v →
    ∃ r rb, (r = [] ∧ rb = [] ∨ GroupSeq r rb) ∧ preG rs ++ cur ++ src = r ∧ lb.length + rb.length < 16 ∧
      v = shiftLoop lb.length rb.length rb.length 1 (lb ++ rb ++ List.replicate (16 - (lb.length + rb.length)) 0) := by
  induction src with
  | nil =>
    intro rs cur curtok seen val tp v hct hseen hval htp hrs hcur htl hne h
    subst hct hseen hval htp
    simp only [pton6Loop, pton6Finish] at h
    by_cases hc0 : cur = []
    · subst hc0
      have hrs0 : rs = [] := by
        by_cases hr : rs = []
        · exact hr
        · exact absurd rfl (hne rfl hr)
      subst hrs0
      simp [pton6Tail, bytesG] at h
      refine ⟨[], [], Or.inl ⟨rfl, rfl⟩, by simp [preG], by simp [bytesG] at htl ⊢; omega, ?_⟩
      simp [← h.2]
    · have hs0 : cur.length ≠ 0 := by intro h0; exact hc0 (List.eq_nil_of_length_eq_zero h0)
      rw [if_pos hs0] at h
      split at h; · simp at h
      rename_i hlen
      simp only [pton6Tail] at h
      split at h; · simp at h
      rename_i hne16
      refine ⟨preG rs ++ cur, bytesG rs ++ wbytes (hexFold cur), Or.inr ?_, by simp, ?_, ?_⟩
      · exact groupSeq_pre rs _ _ hrs (GroupSeq.one (curOk_isH16 cur hcur hc0))
      · simp [wbytes_len] at hne16 hlen ⊢; omega
      · simp at h
        rw [← h]
        simp [wbytes_len, List.append_assoc]
  | cons ch rest ih =>
    intro rs cur curtok seen val tp v hct hseen hval htp hrs hcur htl hne h
    subst hct hseen hval htp
    rw [pton6Loop] at h
    split at h
    · -- hex digit
      rename_i d hd
      split at h; · simp at h
      rename_i h4
      obtain ⟨r, rb, hr, htxt, hlen, hv⟩ := ih rs (cur ++ [ch]) (cur ++ ch :: rest) (cur.length + 1)
        (hexFold cur * 16 + d) (lb ++ bytesG rs) v (by simp) (by simp)
        (by rw [hexFold_snoc, hd]; rfl) rfl hrs
        ⟨by simp; omega, by intro c hc; simp at hc; rcases hc with hc | rfl; exact hcur.2 c hc; simp [hd]⟩
        htl (by simp) (by simpa using h)
      exact ⟨r, rb, hr, by simpa using htxt, hlen, hv⟩
    · rename_i hd
      split at h
      · -- ':'
        rename_i h58
        subst h58
        split at h
        · simp at h
        · rename_i hs0
          split at h; · simp at h
          rename_i hrest
          split at h; · simp at h
          rename_i hroom
          have hc0 : cur ≠ [] := by intro h0; simp [h0] at hs0
          obtain ⟨r, rb, hr, htxt, hlen, hv⟩ := ih (rs ++ [cur]) [] rest 0 0
            (lb ++ bytesG rs ++ wbytes (hexFold cur)) v (by simp) rfl (by simp [hexFold])
            (by rw [bytesG_snoc, List.append_assoc]) (allH16_snoc rs cur hrs (curOk_isH16 cur hcur hc0))
            ⟨by simp, by simp⟩ (by simp [wbytes_len] at hroom ⊢; omega) (fun _ _ => hrest) h
          exact ⟨r, rb, hr, by simpa [preG_snoc] using htxt, hlen, hv⟩
      · split at h
        · -- '.'
          rename_i hdot
          obtain ⟨rfl, hroom⟩ := hdot
          split at h
          · rename_i v4 hv4
            obtain ⟨a, b, c, d, ha, hb, hc, hd', hv4e, hs4⟩ := (pton4_iff_fmt4 _ _).1 hv4
            have hq : DottedQuad (cur ++ 46 :: rest) v4 := (dottedQuad_iff _ _).2 ⟨a, b, c, d, ha, hb, hc, hd', hv4e, hs4⟩
            have hl4 : v4.length = 4 := by rw [hv4e]; rfl
            simp only [pton6Finish, pton6Tail] at h
            simp at h
            refine ⟨preG rs ++ (cur ++ 46 :: rest), bytesG rs ++ v4, Or.inr (groupSeq_pre rs _ _ hrs (GroupSeq.quad hq)),
              by simp, by simp [hl4] at h hroom ⊢; omega, ?_⟩
            rw [← h.2]
            simp [hl4, List.append_assoc]
          · simp at h
        · simp at h

/-- `Ipv6Text` with the "::" expansion still written as the C shift loop (see `shiftLoop_eq`) -/
def Ipv6TextS (s v : List Nat) : Prop :=
  (GroupSeq s v ∧ v.length = 16) ∨
  ∃ l lb r rb, (l = [] ∧ lb = [] ∨ HexSeq l lb) ∧ (r = [] ∧ rb = [] ∨ GroupSeq r rb) ∧
    lb.length + rb.length < 16 ∧ s = l ++ 58 :: 58 :: r ∧
    v = shiftLoop lb.length rb.length rb.length 1 (lb ++ rb ++ List.replicate (16 - (lb.length + rb.length)) 0)

theorem mem_of_mem_dropLast' {l : List (List Nat)} {x : List Nat} (h : x ∈ l.dropLast) : x ∈ l := by
  rw [List.dropLast_eq_take] at h
  exact List.mem_of_mem_take h

theorem bytesG_nil_of_len (gs : List (List Nat)) (h : AllH16 gs) (h0 : (bytesG gs).length = 0) : gs = [] := by
  cases gs with
  | nil => rfl
  | cons g gs => simp [bytesG, wbytes_len] at h0

/-- before any "::" (colonp = NULL) -/
theorem pton6Loop_none (src : List Nat) :
    ∀ (gs : List (List Nat)) (cur curtok : List Nat) (seen val : Nat) (tp v : List Nat),
    curtok = cur ++ src → seen = cur.length → val = hexFold cur → tp = bytesG gs →
    AllH16 gs → CurOk cur → tp.length ≤ 16 → (cur = [] → gs ≠ [] → src ≠ []) →
    (cur = [] → gs = [] → src.head? ≠ some 58) →
    pton6Loop src curtok seen val tp none = some v →
    Ipv6TextS (preG gs ++ cur ++ src) v := by
  induction src with
  | nil =>
    intro gs cur curtok seen val tp v hct hseen hval htp hgs hcur htl hne hhd h
    subst hct hseen hval htp
    simp only [pton6Loop, pton6Finish] at h
    by_cases hc0 : cur = []
    · subst hc0
      simp [pton6Tail] at h
      have : gs = [] := by
        by_cases hg : gs = []
        · exact hg
        · exact absurd rfl (hne rfl hg)
      subst this
      simp [bytesG] at h
    · have hs0 : cur.length ≠ 0 := by intro h0; exact hc0 (List.eq_nil_of_length_eq_zero h0)
      rw [if_pos hs0] at h
      split at h; · simp at h
      simp only [pton6Tail] at h
      split at h; · simp at h
      rename_i h16
      simp at h
      left
      refine ⟨?_, by rw [← h]; simpa using h16⟩
      rw [← h]
      simpa using groupSeq_pre gs _ _ hgs (GroupSeq.one (curOk_isH16 cur hcur hc0))
  | cons ch rest ih =>
    intro gs cur curtok seen val tp v hct hseen hval htp hgs hcur htl hne hhd h
    subst hct hseen hval htp
    rw [pton6Loop] at h
    split at h
    · rename_i d hd
      split at h; · simp at h
      rename_i h4
      have := ih gs (cur ++ [ch]) (cur ++ ch :: rest) (cur.length + 1)
        (hexFold cur * 16 + d) (bytesG gs) v (by simp) (by simp)
        (by rw [hexFold_snoc, hd]; rfl) rfl hgs
        ⟨by simp; omega, by intro c hc; simp at hc; rcases hc with hc | rfl; exact hcur.2 c hc; simp [hd]⟩
        htl (by simp) (by simp) (by simpa using h)
      simpa using this
    · rename_i hd
      split at h
      · rename_i h58
        subst h58
        split at h
        · -- "::"
          rename_i hs0
          have hc0 : cur = [] := List.eq_nil_of_length_eq_zero hs0
          subst hc0
          simp at h
          obtain ⟨r, rb, hr, htxt, hlen, hv⟩ := pton6Loop_some (bytesG gs) rest [] [] rest 0 (hexFold []) (bytesG gs) v
            (by simp) rfl rfl (by simp [bytesG]) (by intro x hx; simp at hx) ⟨by simp, by simp⟩ htl (by simp) h
          have hg : gs ≠ [] := by
            intro hg; exact hhd rfl hg (by simp)
          right
          have hsplit := List.dropLast_concat_getLast hg
          refine ⟨preG gs.dropLast ++ gs.getLast hg, bytesG gs, r, rb, Or.inr ?_, hr, hlen, ?_, hv⟩
          · have := hexSeq_pre gs.dropLast (gs.getLast hg) (fun x hx => hgs x (mem_of_mem_dropLast' hx))
              (hgs _ (List.getLast_mem hg))
            rw [← bytesG_snoc, hsplit] at this
            exact this
          · rw [← htxt]
            conv => lhs; rw [← hsplit, preG_snoc]
            simp [preG]
        · rename_i hs0
          split at h; · simp at h
          rename_i hrest
          split at h; · simp at h
          rename_i hroom
          have hc0 : cur ≠ [] := by intro h0; simp [h0] at hs0
          have := ih (gs ++ [cur]) [] rest 0 0
            (bytesG gs ++ wbytes (hexFold cur)) v (by simp) rfl (by simp [hexFold])
            (by rw [bytesG_snoc]) (allH16_snoc gs cur hgs (curOk_isH16 cur hcur hc0))
            ⟨by simp, by simp⟩ (by simp [wbytes_len] at hroom ⊢; omega) (fun _ _ => hrest) (by simp) h
          simpa [preG_snoc] using this
      · split at h
        · rename_i hdot
          obtain ⟨rfl, hroom⟩ := hdot
          split at h
          · rename_i v4 hv4
            obtain ⟨a, b, c, d, ha, hb, hc, hd', hv4e, hs4⟩ := (pton4_iff_fmt4 _ _).1 hv4
            have hq : DottedQuad (cur ++ 46 :: rest) v4 := (dottedQuad_iff _ _).2 ⟨a, b, c, d, ha, hb, hc, hd', hv4e, hs4⟩
            simp only [pton6Finish, pton6Tail] at h
            simp at h
            left
            rw [← h.2]
            exact ⟨by simpa using groupSeq_pre gs _ _ hgs (GroupSeq.quad hq), by simpa using h.1⟩
          · simp at h
        · simp at h

theorem pton6_soundS (src v : List Nat) (h : pton6 src = some v) : Ipv6TextS src v := by
  unfold pton6 at h
  split at h
  · rename_i rest
    split at h
    · rename_i rest'
      rw [pton6Loop] at h
      simp [hexVal] at h
      obtain ⟨r, rb, hr, htxt, hlen, hv⟩ := pton6Loop_some [] rest' [] [] rest' 0 (hexFold []) [] v
        (by simp) rfl rfl (by simp [bytesG]) (by intro x hx; simp at hx) ⟨by simp, by simp⟩ (by simp) (by simp)
        (by simpa [hexFold] using h)
      right
      refine ⟨[], [], r, rb, Or.inl ⟨rfl, rfl⟩, hr, by simpa using hlen, ?_, by simpa using hv⟩
      rw [← htxt]; simp [preG]
    · simp at h
  · rename_i hne
    have := pton6Loop_none src [] [] src 0 0 [] v (by simp) rfl (by simp [hexFold]) (by simp [bytesG])
      (by intro x hx; simp at hx) ⟨by simp, by simp⟩ (by simp) (by simp)
      (by
        intro _ _ hh
        cases src with
        | nil => simp at hh
        | cons a t => simp at hh; subst hh; exact hne t rfl) h
    simpa [preG] using this

theorem dottedQuad_len (t v : List Nat) (h : DottedQuad t v) : t.length ≤ 15 ∧ v.length = 4 := by
  obtain ⟨a, b, c, d, _, _, _, _, rfl, rfl⟩ := (dottedQuad_iff t v).1 h
  exact ⟨(fmt4_len _).2, rfl⟩

theorem hexSeq_len (s bs : List Nat) (h : HexSeq s bs) : 2 * s.length + 2 ≤ 5 * bs.length := by
  induction h with
  | one h => have := h.2.1; simp [wbytes_len]; omega
  | cons h _ ih => have := h.2.1; simp [wbytes_len] at ih ⊢; omega

theorem groupSeq_len (s bs : List Nat) (h : GroupSeq s bs) : 2 * s.length + 2 ≤ 5 * bs.length + 12 := by
  induction h with
  | one h => have := h.2.1; simp [wbytes_len]; omega
  | quad h => have := dottedQuad_len _ _ h; omega
  | cons h _ ih => have := h.2.1; simp [wbytes_len] at ih ⊢; omega

theorem ipv6TextS_len (s v : List Nat) (h : Ipv6TextS s v) : s.length ≤ 45 := by
  rcases h with ⟨hg, hl⟩ | ⟨l, lb, r, rb, hl, hr, hlen, rfl, _⟩
  · have := groupSeq_len s v hg; omega
  · have h1 : 2 * l.length ≤ 5 * lb.length := by
      rcases hl with ⟨rfl, rfl⟩ | hl
      · simp
      · have := hexSeq_len _ _ hl; omega
    have h2 : 2 * r.length ≤ 5 * rb.length + 10 := by
      rcases hr with ⟨rfl, rfl⟩ | hr
      · simp
      · have := groupSeq_len _ _ hr; omega
    simp; omega

/-- no accepted IPv6 text is longer than 45 characters (INET6_ADDRSTRLEN - 1) -/
theorem pton6_len (s v : List Nat) (h : pton6 s = some v) : s.length ≤ 45 :=
  ipv6TextS_len s v (pton6_soundS s v h)

theorem takeWhile_append_pct (a z : List Nat) (h : 37 ∉ a) : (a ++ 37 :: z).takeWhile (· ≠ 37) = a := by
  induction a with
  | nil => simp
  | cons x t ih =>
    have hx : x ≠ 37 := by intro h'; exact h (by simp [h'])
    have ht : 37 ∉ t := by intro h'; exact h (by simp [h'])
    have := ih ht
    simp only [List.cons_append, List.takeWhile_cons]
    simp [hx]
    simpa using this

theorem uvInetPton6_nopct (a : List Nat) (h : 37 ∉ a) : uvInetPton AF_INET6 a = ofOpt (pton6 a) := by
  simp [uvInetPton, AF_INET, AF_INET6, h]

theorem uvInetPton6_zone (a z : List Nat) (h : 37 ∉ a) :
    uvInetPton AF_INET6 (a ++ 37 :: z) = ofOpt (pton6 a) := by
  unfold uvInetPton
  rw [if_neg (by decide : ¬ AF_INET6 = AF_INET), if_pos rfl, if_pos (by simp)]
  simp only []
  rw [takeWhile_append_pct a z h]
  by_cases hl : a.length > 45
  · rw [if_pos hl]
    cases hp : pton6 a with
    | none => rfl
    | some v => have := pton6_len a v hp; omega
  · rw [if_neg hl]

theorem uvIp6Addr_zone (a z : List Nat) (h : 37 ∉ a) :
    uvIp6Addr (a ++ 37 :: z) = uvInetPton AF_INET6 a := by
  rw [uvInetPton6_nopct a h]
  unfold uvIp6Addr
  rw [if_pos (by simp)]
  simp only []
  rw [takeWhile_append_pct a z h]
  by_cases hl : a.length ≥ 46
  · rw [if_pos hl]
    cases hp : pton6 a with
    | none => rfl
    | some v => have := pton6_len a v hp; omega
  · rw [if_neg hl, uvInetPton6_nopct a h]

/-! ### the by-hand memmove of inet_pton6 -/

theorem set_at (A B : List Nat) (x y : Nat) (k : Nat) (hk : k = A.length) : (A ++ x :: B).set k y = A ++ y :: B := by
  subst hk
  induction A with
  | nil => simp
  | cons a A ih => simp [ih]

theorem getD_at (A B : List Nat) (x : Nat) (k : Nat) (hk : k = A.length) : (A ++ x :: B).getD k 0 = x := by
  subst hk
  induction A with
  | nil => simp
  | cons a A ih => simp

theorem shiftLoop_take (lb rb : List Nat) (hlen : lb.length + rb.length < 16) :
    ∀ m, m ≤ rb.length →
    shiftLoop lb.length rb.length m (rb.length - m + 1)
      (lb ++ rb.take m ++ List.replicate (16 - (lb.length + rb.length)) 0 ++ rb.drop m) =
    lb ++ List.replicate (16 - (lb.length + rb.length)) 0 ++ rb := by
  intro m
  induction m with
  | zero => intro _; simp [shiftLoop]
  | succ m ih =>
    intro hm
    have hx : m < rb.length := by omega
    obtain ⟨z, hz⟩ : ∃ z, 16 - (lb.length + rb.length) = z + 1 := ⟨16 - (lb.length + rb.length) - 1, by omega⟩
    have htake : rb.take (m + 1) = rb.take m ++ [rb[m]] := by
      rw [List.take_succ_eq_append_getElem hx]
    have hdrop : rb.drop m = rb[m] :: rb.drop (m + 1) := by
      rw [List.drop_eq_getElem_cons hx]
    have hZ1 : List.replicate (z + 1) 0 = List.replicate z 0 ++ [0] := by
      rw [List.replicate_succ']
    have hZ2 : List.replicate (z + 1) 0 = 0 :: List.replicate z 0 := by
      rw [List.replicate_succ]
    rw [shiftLoop]
    have e1 : lb ++ rb.take (m + 1) ++ List.replicate (16 - (lb.length + rb.length)) 0 ++ rb.drop (m + 1)
        = (lb ++ rb.take m) ++ rb[m] :: (List.replicate z 0 ++ 0 :: rb.drop (m + 1)) := by
      rw [hz, htake, hZ1]; simp only [List.append_assoc, List.cons_append, List.nil_append]
    have e1' : (lb ++ rb.take m) ++ rb[m] :: (List.replicate z 0 ++ 0 :: rb.drop (m + 1))
        = (lb ++ rb.take m ++ rb[m] :: List.replicate z 0) ++ 0 :: rb.drop (m + 1) := by simp
    have i1 : lb.length + rb.length - (rb.length - (m + 1) + 1) = (lb ++ rb.take m).length := by
      simp [List.length_take]; omega
    have i2 : 16 - (rb.length - (m + 1) + 1) = (lb ++ rb.take m ++ rb[m] :: List.replicate z 0).length := by
      simp [List.length_take]; omega
    rw [e1, getD_at _ _ _ _ i1, e1', set_at _ _ _ _ _ i2]
    have e2 : lb ++ rb.take m ++ rb[m] :: List.replicate z 0 ++ rb[m] :: rb.drop (m + 1)
        = (lb ++ rb.take m) ++ rb[m] :: (List.replicate z 0 ++ rb[m] :: rb.drop (m + 1)) := by simp only [List.append_assoc, List.cons_append]
    rw [e2, set_at _ _ _ _ _ i1]
    have := ih (by omega)
    rw [hz, hZ2, hdrop] at this
    have e3 : rb.length - (m + 1) + 1 + 1 = rb.length - m + 1 := by omega
    rw [e3]
    rw [hz, hZ2]
    simpa using this

/-- the shift loop moves the bytes written after "::" to the end and zero-fills the gap -/
theorem shiftLoop_eq (lb rb : List Nat) (hlen : lb.length + rb.length < 16) :
    shiftLoop lb.length rb.length rb.length 1 (lb ++ rb ++ List.replicate (16 - (lb.length + rb.length)) 0) =
    lb ++ List.replicate (16 - (lb.length + rb.length)) 0 ++ rb := by
  have := shiftLoop_take lb rb hlen rb.length (Nat.le_refl _)
  simpa using this

theorem ipv6TextS_iff (s v : List Nat) : Ipv6TextS s v → Ipv6Text s v := by
  rintro (⟨hg, hl⟩ | ⟨l, lb, r, rb, hl, hr, hlen, rfl, rfl⟩)
  · exact Ipv6Text.full hg hl
  · rw [shiftLoop_eq lb rb hlen]
    exact Ipv6Text.compressed hl hr hlen

theorem pton6_sound (s v : List Nat) (h : pton6 s = some v) : Ipv6Text s v :=
  ipv6TextS_iff s v (pton6_soundS s v h)

theorem cstr_ne_zero (s : List Nat) : ∀ c ∈ cstr s, c ≠ 0 := by
  induction s with
  | nil => simp [cstr]
  | cons a t ih =>
    by_cases ha : a = 0
    · simp [cstr, ha]
    · intro c hc
      simp [cstr, ha] at hc
      rcases hc with rfl | hc
      · exact ha
      · exact ih c (by simpa [cstr] using hc)

/-! ### pton6: completeness w.r.t. the grammar -/

theorem hexVal_colon : hexVal 58 = none := by decide
theorem hexVal_dot : hexVal 46 = none := by decide

/-- reading hex digits -/
theorem pton6Loop_digits (t : List Nat) : ∀ (rest ct : List Nat) (seen val : Nat) (tp : List Nat) (cp : Option Nat),
    (∀ c ∈ t, (hexVal c).isSome) → seen + t.length ≤ 4 →
    pton6Loop (t ++ rest) ct seen val tp cp =
      pton6Loop rest ct (seen + t.length) (t.foldl (fun a c => a * 16 + (hexVal c).getD 0) val) tp cp := by
  induction t with
  | nil => intros; simp
  | cons c t ih =>
    intro rest ct seen val tp cp hh hl
    have hc := hh c (by simp)
    obtain ⟨d, hd⟩ := Option.isSome_iff_exists.1 hc
    rw [List.cons_append, pton6Loop]
    simp only [hd]
    rw [if_neg (by simp at hl; omega), ih rest ct (seen + 1) _ tp cp (fun x hx => hh x (by simp [hx])) (by simp at hl; omega)]
    simp [hd]; congr 1; omega

theorem pton6Loop_group (t : List Nat) (w : Nat) (h : IsH16 t w) (rest ct tp : List Nat) (cp : Option Nat) :
    pton6Loop (t ++ rest) ct 0 0 tp cp = pton6Loop rest ct t.length w tp cp := by
  obtain ⟨_, hl, hh, hw⟩ := h
  rw [pton6Loop_digits t rest ct 0 0 tp cp hh (by omega)]
  simp [← hw, hexFold]

/-- ':' after a group, more text follows -/
theorem pton6Loop_colon (rest ct : List Nat) (seen val : Nat) (tp : List Nat) (cp : Option Nat)
    (hs : seen ≠ 0) (hr : rest ≠ []) (hroom : tp.length + 2 ≤ 16) :
    pton6Loop (58 :: rest) ct seen val tp cp = pton6Loop rest rest 0 0 (tp ++ wbytes val) cp := by
  rw [pton6Loop]
  simp only [hexVal_colon]
  rw [if_pos trivial, if_neg hs, if_neg hr, if_neg (by omega)]

/-- the second ':' of "::" -/
theorem pton6Loop_dcolon (rest ct : List Nat) (val : Nat) (tp : List Nat) :
    pton6Loop (58 :: rest) ct 0 val tp none = pton6Loop rest rest 0 val tp (some tp.length) := by
  rw [pton6Loop]
  simp [hexVal_colon]

theorem isH16_ne_nil {t : List Nat} {w : Nat} (h : IsH16 t w) : t ≠ [] := h.1

theorem groupSeq_ne_nil {s bs : List Nat} (h : GroupSeq s bs) : s ≠ [] := by
  cases h with
  | one h => exact h.1
  | quad h =>
    obtain ⟨a, b, c, d, _, _, _, _, _, rfl⟩ := (dottedQuad_iff _ _).1 h
    intro h0; have := (fmt4_len [a, b, c, d]).1; rw [h0] at this; simp at this
  | cons h _ => simp

theorem fmtU8_hex (n : Nat) (h : n ≤ 255) : ∀ c ∈ fmtU8 n, (hexVal c).isSome := by
  intro c hc
  have := fmtU8_digits n (by omega) c hc
  simp [hexVal, this]

/-- a trailing dotted quad, read from the start of its token -/
theorem pton6Loop_quad (q v tp : List Nat) (cp : Option Nat) (h : DottedQuad q v) (hroom : tp.length + 4 ≤ 16) :
    pton6Loop q q 0 0 tp cp = pton6Tail (tp ++ v) cp := by
  have hp : pton4 q = some v := (pton4_iff_fmt4 q v).2 ((dottedQuad_iff q v).1 h)
  obtain ⟨a, b, c, d, ha, hb, hc, hd, hv, hq⟩ := (dottedQuad_iff q v).1 h
  have hl := fmtU8_len a
  have e : q = fmtU8 a ++ 46 :: (fmtU8 b ++ 46 :: (fmtU8 c ++ 46 :: fmtU8 d)) := by
    rw [hq]; simp [fmt4]
  conv => lhs; arg 1; rw [e]
  rw [pton6Loop_digits (fmtU8 a) _ q 0 0 tp cp (fmtU8_hex a ha) (by omega), pton6Loop]
  simp only [hexVal_dot]
  rw [if_neg (by decide), if_pos ⟨trivial, hroom⟩]
  simp only [hp, pton6Finish]
  simp

/-- a group sequence read from the start of a token runs to the end of input -/
theorem pton6Loop_groupSeq (s bs : List Nat) (h : GroupSeq s bs) :
    ∀ (tp : List Nat) (cp : Option Nat), tp.length + bs.length ≤ 16 →
    pton6Loop s s 0 0 tp cp = pton6Tail (tp ++ bs) cp := by
  induction h with
  | one h =>
    rename_i t w
    intro tp cp hroom
    have := pton6Loop_group t w h [] t tp cp
    rw [List.append_nil] at this
    rw [this]
    simp only [pton6Loop, pton6Finish]
    have h0 : t.length ≠ 0 := by intro h0; exact h.1 (List.eq_nil_of_length_eq_zero h0)
    rw [if_pos h0, if_neg (by simp [wbytes_len] at hroom; omega)]
  | quad h =>
    rename_i t v
    intro tp cp hroom
    exact pton6Loop_quad t v tp cp h (by have := (dottedQuad_len _ _ h).2; omega)
  | cons h hs ih =>
    rename_i t w s' bs'
    intro tp cp hroom
    have h0 : t.length ≠ 0 := by intro h0; exact h.1 (List.eq_nil_of_length_eq_zero h0)
    simp [wbytes_len] at hroom
    rw [pton6Loop_group t w h (58 :: s') _ tp cp,
      pton6Loop_colon s' _ t.length w tp cp h0 (groupSeq_ne_nil hs) (by omega),
      ih (tp ++ wbytes w) cp (by simp [wbytes_len]; omega)]
    simp

/-- a hex sequence followed by "::" -/
theorem pton6Loop_hexSeq (l lb : List Nat) (h : HexSeq l lb) :
    ∀ (r tp : List Nat), tp.length + lb.length ≤ 16 →
    pton6Loop (l ++ 58 :: 58 :: r) (l ++ 58 :: 58 :: r) 0 0 tp none =
      pton6Loop r r 0 0 (tp ++ lb) (some (tp ++ lb).length) := by
  induction h with
  | one h =>
    rename_i t w
    intro r tp hroom
    have h0 : t.length ≠ 0 := by intro h0; exact h.1 (List.eq_nil_of_length_eq_zero h0)
    simp [wbytes_len] at hroom
    rw [pton6Loop_group t w h _ _ tp none,
      pton6Loop_colon _ _ t.length w tp none h0 (by simp) (by omega), pton6Loop_dcolon]
  | cons h hs ih =>
    rename_i t w s' bs'
    intro r tp hroom
    have h0 : t.length ≠ 0 := by intro h0; exact h.1 (List.eq_nil_of_length_eq_zero h0)
    simp [wbytes_len] at hroom
    have e : t ++ 58 :: s' ++ 58 :: 58 :: r = t ++ 58 :: (s' ++ 58 :: 58 :: r) := by simp
    rw [e, pton6Loop_group t w h _ _ tp none,
      pton6Loop_colon _ _ t.length w tp none h0 (by simp) (by omega),
      ih r (tp ++ wbytes w) (by simp [wbytes_len]; omega)]
    simp

theorem isH16_head {t : List Nat} {w : Nat} (h : IsH16 t w) : ∃ c r, t = c :: r ∧ c ≠ 58 := by
  obtain ⟨hne, _, hh, _⟩ := h
  cases t with
  | nil => exact absurd rfl hne
  | cons c r =>
    refine ⟨c, r, rfl, ?_⟩
    intro hc; have := hh c (by simp); rw [hc] at this; simp [hexVal_colon] at this

theorem hexSeq_head {s bs : List Nat} (h : HexSeq s bs) : ∃ c r, s = c :: r ∧ c ≠ 58 := by
  cases h with
  | one h => exact isH16_head h
  | cons h _ =>
    obtain ⟨c, r, rfl, hc⟩ := isH16_head h
    exact ⟨c, _, rfl, hc⟩

theorem groupSeq_head {s bs : List Nat} (h : GroupSeq s bs) : ∃ c r, s = c :: r ∧ c ≠ 58 := by
  cases h with
  | one h => exact isH16_head h
  | quad h =>
    obtain ⟨a, b, c, d, ha, _, _, _, _, rfl⟩ := (dottedQuad_iff _ _).1 h
    have hd := fmtU8_digits a (by omega)
    have hl := fmtU8_len a
    cases hf : fmtU8 a with
    | nil => rw [hf] at hl; simp at hl
    | cons x r =>
      refine ⟨x, r ++ 46 :: (fmtU8 b ++ 46 :: (fmtU8 c ++ 46 :: fmtU8 d)), by simp [fmt4, hf], ?_⟩
      have := hd x (by simp [hf]); omega
  | cons h _ =>
    obtain ⟨c, r, rfl, hc⟩ := isH16_head h
    exact ⟨c, _, rfl, hc⟩

theorem pton6_of_head (c : Nat) (r : List Nat) (hc : c ≠ 58) :
    pton6 (c :: r) = pton6Loop (c :: r) (c :: r) 0 0 [] none := by
  unfold pton6
  split
  · rename_i rest heq
    simp at heq; exact absurd heq.1 hc
  · rfl

/-- the part after "::" -/
theorem pton6Loop_rpart (lb r rb : List Nat) (hr : r = [] ∧ rb = [] ∨ GroupSeq r rb)
    (hlen : lb.length + rb.length < 16) :
    pton6Loop r r 0 0 lb (some lb.length) =
      some (lb ++ List.replicate (16 - (lb.length + rb.length)) 0 ++ rb) := by
  rcases hr with ⟨rfl, rfl⟩ | hr
  · simp only [pton6Loop, pton6Finish, pton6Tail]
    simp at hlen
    simp [shiftLoop, Nat.ne_of_lt hlen]
  · rw [pton6Loop_groupSeq r rb hr lb _ (by omega)]
    simp only [pton6Tail]
    rw [if_neg (by simp; omega)]
    simp only [List.length_append, Nat.add_sub_cancel_left]
    rw [shiftLoop_eq lb rb hlen]

/-- completeness: every RFC 4291 text of the grammar is accepted, with the grammar's value -/
theorem pton6_complete (s v : List Nat) (h : Ipv6Text s v) : pton6 s = some v := by
  cases h with
  | full hg hl =>
    obtain ⟨c, r, rfl, hc⟩ := groupSeq_head hg
    rw [pton6_of_head c r hc, pton6Loop_groupSeq _ _ hg [] none (by simp; omega)]
    simp [pton6Tail, hl]
  | compressed hl hr hlen =>
    rename_i l lb r rb
    rcases hl with ⟨rfl, rfl⟩ | hl
    · have : pton6 ([] ++ 58 :: 58 :: r) = pton6Loop (58 :: r) (58 :: r) 0 0 [] none := by
        simp [pton6]
      rw [this, pton6Loop_dcolon]
      have := pton6Loop_rpart [] r rb hr hlen
      simpa using this
    · obtain ⟨c, t, rfl, hc⟩ := hexSeq_head hl
      rw [List.cons_append, pton6_of_head c _ hc, ← List.cons_append, pton6Loop_hexSeq _ _ hl r [] (by simp; omega)]
      have := pton6Loop_rpart lb r rb hr hlen
      simpa using this

theorem pton6_iff (s v : List Nat) : pton6 s = some v ↔ Ipv6Text s v :=
  ⟨pton6_sound s v, pton6_complete s v⟩

theorem wbytes_lt (w : Nat) : ∀ b ∈ wbytes w, b < 256 := by
  intro b hb; simp [wbytes] at hb; rcases hb with rfl | rfl <;> omega

theorem hexSeq_bytes (s bs : List Nat) (h : HexSeq s bs) : ∀ b ∈ bs, b < 256 := by
  induction h with
  | one h => exact wbytes_lt _
  | cons h _ ih =>
    intro b hb; simp only [List.mem_append] at hb
    rcases hb with hb | hb
    · exact wbytes_lt _ b hb
    · exact ih b hb

theorem groupSeq_bytes (s bs : List Nat) (h : GroupSeq s bs) : ∀ b ∈ bs, b < 256 := by
  induction h with
  | one h => exact wbytes_lt _
  | quad h =>
    obtain ⟨a, b, c, d, ha, hb, hc, hd, rfl, _⟩ := (dottedQuad_iff _ _).1 h
    intro x hx; simp at hx; rcases hx with rfl | rfl | rfl | rfl <;> omega
  | cons h _ ih =>
    intro b hb; simp only [List.mem_append] at hb
    rcases hb with hb | hb
    · exact wbytes_lt _ b hb
    · exact ih b hb

/-- the value of any IPv6 text is 16 bytes -/
theorem ipv6Text_value (s v : List Nat) (h : Ipv6Text s v) : v.length = 16 ∧ ∀ b ∈ v, b < 256 := by
  cases h with
  | full hg hl => exact ⟨hl, groupSeq_bytes _ _ hg⟩
  | compressed hl hr hlen =>
    rename_i l lb r rb
    refine ⟨by simp; omega, ?_⟩
    intro b hb
    simp only [List.mem_append, List.mem_replicate] at hb
    rcases hb with (hb | hb) | hb
    · rcases hl with ⟨_, rfl⟩ | hl
      · simp at hb
      · exact hexSeq_bytes _ _ hl b hb
    · omega
    · rcases hr with ⟨_, rfl⟩ | hr
      · simp at hb
      · exact groupSeq_bytes _ _ hr b hb

/-! ### towards the ntop6 → pton6 round trip -/

theorem hexVal_hexDigit (d : Nat) (h : d < 16) : hexVal (hexDigit d) = some d := by
  unfold hexDigit hexVal
  by_cases h10 : d < 10
  · rw [if_pos h10, if_pos (by omega)]; congr 1; omega
  · rw [if_neg h10, if_neg (by omega), if_pos (by omega)]; congr 1; omega

theorem fmtX16_isH16 (w : Nat) (h : w < 65536) : IsH16 (fmtX16 w) w := by
  have hl := fmtX16_len w
  refine ⟨by intro h0; rw [h0] at hl; simp at hl, hl.2, ?_, ?_⟩
  · intro c hc
    unfold fmtX16 at hc
    (repeat' split at hc) <;> simp at hc
    · rw [hc, hexVal_hexDigit _ (by omega)]; rfl
    · rcases hc with rfl | rfl <;> rw [hexVal_hexDigit _ (by omega)] <;> rfl
    · rcases hc with rfl | rfl | rfl <;> rw [hexVal_hexDigit _ (by omega)] <;> rfl
    · rcases hc with rfl | rfl | rfl | rfl <;> rw [hexVal_hexDigit _ (by omega)] <;> rfl
  · have m0 : w % 16 < 16 := by omega
    by_cases h1 : w < 16
    · simp [fmtX16, h1, hexFold, hexVal_hexDigit _ h1]
    by_cases h2 : w < 256
    · have a1 : w / 16 < 16 := by omega
      simp [fmtX16, h1, h2, hexFold, hexVal_hexDigit _ a1, hexVal_hexDigit _ m0]; omega
    by_cases h3 : w < 4096
    · have a1 : w / 256 < 16 := by omega
      have a2 : w / 16 % 16 < 16 := by omega
      simp [fmtX16, h1, h2, h3, hexFold, hexVal_hexDigit _ a1, hexVal_hexDigit _ a2, hexVal_hexDigit _ m0]; omega
    · have a1 : w / 4096 < 16 := by omega
      have a2 : w / 256 % 16 < 16 := by omega
      have a3 : w / 16 % 16 < 16 := by omega
      simp [fmtX16, h1, h2, h3, hexFold, hexVal_hexDigit _ a1, hexVal_hexDigit _ a2, hexVal_hexDigit _ a3,
        hexVal_hexDigit _ m0]; omega

/-- hex groups separated by ':' -/
def joinX : List Nat → List Nat
  | [] => []
  | [w] => fmtX16 w
  | w :: w' :: rest => fmtX16 w ++ 58 :: joinX (w' :: rest)

theorem joinX_snoc (l : List Nat) (w : Nat) (h : l ≠ []) : joinX (l ++ [w]) = joinX l ++ 58 :: fmtX16 w := by
  induction l with
  | nil => exact absurd rfl h
  | cons a t ih =>
    cases t with
    | nil => simp [joinX]
    | cons b t' =>
      have := ih (by simp)
      simp only [List.cons_append] at this ⊢
      simp [joinX, this]

theorem hexSeq_joinX (l : List Nat) (h : l ≠ []) (hw : ∀ w ∈ l, w < 65536) :
    HexSeq (joinX l) (l.flatMap wbytes) := by
  induction l with
  | nil => exact absurd rfl h
  | cons a t ih =>
    cases t with
    | nil => simpa [joinX] using HexSeq.one (fmtX16_isH16 a (hw a (by simp)))
    | cons b t' =>
      have := HexSeq.cons (fmtX16_isH16 a (hw a (by simp))) (ih (by simp) (fun w hw' => hw w (by simp [hw'])))
      simpa [joinX] using this

theorem hexSeq_groupSeq {s bs : List Nat} (h : HexSeq s bs) : GroupSeq s bs := by
  induction h with
  | one h => exact GroupSeq.one h
  | cons h _ ih => exact GroupSeq.cons h ih

/-- the format loop when no zero run is compressed -/
theorem fmt6Loop_norun (src ws : List Nat) (best : Run) (i : Nat) (tp : List Nat)
    (hb : best.base = -1) (hlen : ws.length = 8) (hi : i ≤ 8) (htp : tp = joinX (ws.take i)) :
    fmt6Loop src ws best i tp = .ok (joinX ws) := by
  fun_induction fmt6Loop src ws best i tp
  · rename_i hrun _; exact absurd hb hrun.1
  · rename_i hv4; omega
  · rename_i i tp h8 hrun hv4 ih
    apply ih (by omega)
    have hget : ws.getD i 0 = ws[i] := by simp [List.getD_eq_getElem?_getD, List.getElem?_eq_getElem (show i < ws.length by omega)]
    rw [List.take_succ_eq_append_getElem (by omega), hget, htp]
    by_cases h0 : i = 0
    · subst h0; simp [colon, joinX]
    · rw [joinX_snoc _ _ (by intro h'; have := congrArg List.length h'; simp [List.length_take, hlen] at this; omega)]
      simp [colon, h0]
  · rename_i i tp h8
    have : i = 8 := by omega
    subst this
    rw [htp, List.take_of_length_le (by omega)]

theorem words_length (src : List Nat) : (words src).length = 8 := by simp [words]

theorem words_bytes (src : List Nat) (hl : src.length = 16) (hb : ∀ b ∈ src, b < 256) :
    (words src).flatMap wbytes = src := by
  match src, hl with
  | [b0, b1, b2, b3, b4, b5, b6, b7, b8, b9, b10, b11, b12, b13, b14, b15], _ =>
    have h0 := hb b0 (by simp); have h1 := hb b1 (by simp); have h2 := hb b2 (by simp); have h3 := hb b3 (by simp)
    have h4 := hb b4 (by simp); have h5 := hb b5 (by simp); have h6 := hb b6 (by simp); have h7 := hb b7 (by simp)
    have h8 := hb b8 (by simp); have h9 := hb b9 (by simp); have h10 := hb b10 (by simp); have h11 := hb b11 (by simp)
    have h12 := hb b12 (by simp); have h13 := hb b13 (by simp); have h14 := hb b14 (by simp); have h15 := hb b15 (by simp)
    simp [words, List.range, List.range.loop, wbytes]
    omega

theorem getD_lt_of_all (src : List Nat) (hb : ∀ b ∈ src, b < 256) (j : Nat) : src.getD j 0 < 256 := by
  rw [List.getD_eq_getElem?_getD]
  cases h : src[j]? with
  | none => simp
  | some x => simpa using hb x (List.mem_of_getElem? h)

/-- round trip for the addresses printed without "::" (no run of two or more zero words) -/
theorem ntop6_pton6_norun (src : List Nat) (hl : src.length = 16) (hb : ∀ b ∈ src, b < 256)
    (hrun : (bestRun (words src)).base = -1) :
    ∃ t, ntop6Text src = .ok t ∧ pton6 t = some src := by
  have hwl := words_length src
  have hws : ∀ w ∈ words src, w < 65536 := by
    intro w hw
    obtain ⟨j, hj, rfl⟩ := List.getElem_of_mem hw
    have := words_lt src (getD_lt_of_all src hb) j
    simpa [List.getD_eq_getElem?_getD, List.getElem?_eq_getElem hj] using this
  refine ⟨joinX (words src), ?_, ?_⟩
  · unfold ntop6Text
    simp only [fmt6Loop_norun src (words src) _ 0 [] hrun hwl (by omega) (by simp [joinX])]
    rw [if_neg (by rw [hrun]; simp)]
  · apply pton6_complete
    have hne : words src ≠ [] := by intro h; rw [h] at hwl; simp at hwl
    have := hexSeq_groupSeq (hexSeq_joinX (words src) hne hws)
    rw [words_bytes src hl hb] at this
    exact Ipv6Text.full this hl

/-! ### the best-zero-run scan -/

/-- `r` is no run, or a run of `≥ m` zero words inside `[0, n)` -/
def ZRun (ws : List Nat) (r : Run) (m : Int) (n : Nat) : Prop :=
  r.base = -1 ∨ (0 ≤ r.base ∧ m ≤ r.len ∧ r.base + r.len ≤ n ∧
    ∀ j : Nat, r.base ≤ j → (j : Int) < r.base + r.len → ws.getD j 0 = 0)

def ScanInv (ws : List Nat) (n : Nat) (st : Run × Run) : Prop :=
  ZRun ws st.1 1 n ∧ ZRun ws st.2 1 n ∧ (st.2.base ≠ -1 → st.2.base + st.2.len = n)

theorem scanStep_inv (ws : List Nat) (n : Nat) (st : Run × Run) (h : ScanInv ws n st) :
    ScanInv ws (n + 1) (scanStep ws st n) := by
  obtain ⟨hb, hc, hce⟩ := h
  unfold scanStep
  by_cases hz : ws.getD n 0 = 0
  · rw [if_pos hz]
    by_cases hcb : st.2.base = -1
    · rw [if_pos hcb]
      refine ⟨?_, ?_, ?_⟩
      · rcases hb with hb | ⟨h1, h2, h3, h4⟩
        · exact Or.inl hb
        · exact Or.inr ⟨h1, h2, by push_cast; omega, h4⟩
      · refine Or.inr ⟨by simp, by simp, by simp, ?_⟩
        intro j hj1 hj2
        have : j = n := by simp at hj1 hj2; omega
        rw [this]; exact hz
      · intro _; simp
    · rw [if_neg hcb]
      have hce' := hce hcb
      rcases hc with hc | ⟨h1, h2, h3, h4⟩
      · exact absurd hc hcb
      refine ⟨?_, ?_, ?_⟩
      · rcases hb with hb | ⟨g1, g2, g3, g4⟩
        · exact Or.inl hb
        · exact Or.inr ⟨g1, g2, by push_cast; omega, g4⟩
      · refine Or.inr ⟨h1, by simp; omega, by simp; push_cast; omega, ?_⟩
        intro j hj1 hj2
        simp at hj1 hj2
        by_cases hjn : j = n
        · rw [hjn]; exact hz
        · exact h4 j hj1 (by omega)
      · intro _; simp; push_cast; omega
  · rw [if_neg hz]
    by_cases hcb : st.2.base = -1
    · rw [if_neg (by simpa using hcb)]
      refine ⟨?_, Or.inl hcb, fun h => absurd hcb h⟩
      rcases hb with hb | ⟨g1, g2, g3, g4⟩
      · exact Or.inl hb
      · exact Or.inr ⟨g1, g2, by push_cast; omega, g4⟩
    · rw [if_pos hcb]
      refine ⟨?_, Or.inl rfl, fun h => absurd rfl h⟩
      have hcz : ZRun ws st.2 1 (n + 1) := by
        rcases hc with hc | ⟨h1, h2, h3, h4⟩
        · exact Or.inl hc
        · exact Or.inr ⟨h1, h2, by push_cast; omega, h4⟩
      have hbz : ZRun ws st.1 1 (n + 1) := by
        rcases hb with hb | ⟨g1, g2, g3, g4⟩
        · exact Or.inl hb
        · exact Or.inr ⟨g1, g2, by push_cast; omega, g4⟩
      split
      · exact hcz
      · exact hbz

theorem dropShort_spec (ws : List Nat) (b : Run) (hm : ZRun ws b 1 8) :
    ZRun ws (if b.base ≠ -1 ∧ b.len < 2 then ⟨-1, b.len⟩ else b) 2 8 := by
  split
  · exact Or.inl rfl
  · rename_i hne
    rcases hm with hm | ⟨g1, g2, g3, g4⟩
    · exact Or.inl hm
    · exact Or.inr ⟨g1, by omega, g3, g4⟩

theorem finishScan_spec (ws : List Nat) (st : Run × Run) (hb : ZRun ws st.1 1 8) (hc : ZRun ws st.2 1 8) :
    ZRun ws (finishScan st) 2 8 := by
  have hm : ZRun ws (if st.2.base ≠ -1 then (if st.1.base = -1 ∨ st.2.len > st.1.len then st.2 else st.1) else st.1) 1 8 := by
    split
    · split
      · exact hc
      · exact hb
    · exact hb
  exact dropShort_spec ws _ hm

theorem bestRun_spec (ws : List Nat) : ZRun ws (bestRun ws) 2 8 := by
  have h0 : ScanInv ws 0 (⟨-1, 0⟩, ⟨-1, 0⟩) := ⟨Or.inl rfl, Or.inl rfl, fun h => absurd rfl h⟩
  have h1 := scanStep_inv ws 0 _ h0
  have h2 := scanStep_inv ws 1 _ h1
  have h3 := scanStep_inv ws 2 _ h2
  have h4 := scanStep_inv ws 3 _ h3
  have h5 := scanStep_inv ws 4 _ h4
  have h6 := scanStep_inv ws 5 _ h5
  have h7 := scanStep_inv ws 6 _ h6
  have h8 := scanStep_inv ws 7 _ h7
  have hr : (List.range 8).foldl (scanStep ws) (⟨-1, 0⟩, ⟨-1, 0⟩) = _ :=
    show [0, 1, 2, 3, 4, 5, 6, 7].foldl (scanStep ws) (⟨-1, 0⟩, ⟨-1, 0⟩) = _ from rfl
  unfold bestRun
  rw [hr]
  simp only [List.foldl]
  exact finishScan_spec ws _ h8.1 h8.2.1

/-- where the format loop stands before iteration `i` when the run `[b, b+n)` is compressed -/
def Phase (ws : List Nat) (b n i : Nat) (tp : List Nat) : Prop :=
  (i ≤ b ∧ tp = joinX (ws.take i)) ∨
  (b < i ∧ i ≤ b + n ∧ tp = joinX (ws.take b) ++ [58]) ∨
  (b + n < i ∧ tp = joinX (ws.take b) ++ 58 :: 58 :: joinX ((ws.take i).drop (b + n)))

theorem getD_eq_getElem' (ws : List Nat) (i : Nat) (h : i < ws.length) : ws.getD i 0 = ws[i] := by
  simp [List.getD_eq_getElem?_getD, List.getElem?_eq_getElem h]

theorem take_ne_nil (ws : List Nat) (i : Nat) (hlen : ws.length = 8) (hi : 0 < i) : ws.take i ≠ [] := by
  intro h'; have := congrArg List.length h'; simp [List.length_take, hlen] at this; omega

/-- the format loop with a compressed run and no embedded IPv4 -/
theorem fmt6Loop_run (src ws : List Nat) (best : Run) (b n : Nat) (i : Nat) (tp : List Nat)
    (hb : best.base = b) (hn : best.len = n) (hn2 : 2 ≤ n) (hbn : b + n ≤ 8) (hlen : ws.length = 8)
    (hnv : ¬ (b = 0 ∧ (n = 6 ∨ (n = 5 ∧ ws.getD 5 0 = 0xffff))))
    (hi : i ≤ 8) (hp : Phase ws b n i tp) :
    fmt6Loop src ws best i tp =
      .ok (if b + n = 8 then joinX (ws.take b) ++ [58]
           else joinX (ws.take b) ++ 58 :: 58 :: joinX (ws.drop (b + n))) := by
  fun_induction fmt6Loop src ws best i tp
  · -- inside the run
    rename_i i tp h8 hrun ih
    obtain ⟨_, h1, h2⟩ := hrun
    rw [hb] at h1; rw [hb, hn] at h2
    apply ih (by omega)
    by_cases hib : i = b
    · subst hib
      rw [hb, dif_pos rfl]
      rcases hp with ⟨_, rfl⟩ | ⟨h, _⟩ | ⟨h, _⟩
      · exact Or.inr (Or.inl ⟨by omega, by omega, rfl⟩)
      · omega
      · omega
    · rw [hb, dif_neg (by omega)]
      rcases hp with ⟨h, _⟩ | ⟨_, _, rfl⟩ | ⟨h, _⟩
      · omega
      · exact Or.inr (Or.inl ⟨by omega, by omega, rfl⟩)
      · omega
  · -- embedded IPv4: excluded
    rename_i i tp h8 hrun hv4
    obtain ⟨rfl, hb0, hc⟩ := hv4
    rw [hb0] at hb
    have hb' : b = 0 := by omega
    rw [hn] at hrun hc
    exfalso; apply hnv
    refine ⟨hb', ?_⟩
    rcases hc with h | ⟨h, _⟩ | ⟨h, h'⟩
    · left; omega
    · exfalso; apply hrun; rw [hb0]; refine ⟨by simp, by simp, by omega⟩
    · right; exact ⟨by omega, h'⟩
  · -- a hex group
    rename_i i tp h8 hrun hv4 ih
    rw [hb, hn] at hrun
    have hout : i < b ∨ b + n ≤ i := by
      by_cases h : i < b
      · exact Or.inl h
      · right
        false_or_by_contra
        apply hrun
        refine ⟨by omega, by omega, by omega⟩
    have hget := getD_eq_getElem' ws i (by omega)
    have htk : ws.take (i + 1) = ws.take i ++ [ws[i]] := List.take_succ_eq_append_getElem (by omega)
    apply ih (by omega)
    rcases hout with hlt | hge
    · rcases hp with ⟨_, rfl⟩ | ⟨h, _⟩ | ⟨h, _⟩
      · left
        refine ⟨by omega, ?_⟩
        rw [htk, hget]
        by_cases h0 : i = 0
        · subst h0; simp [colon, joinX]
        · rw [joinX_snoc _ _ (take_ne_nil ws i hlen (by omega))]
          simp [colon, h0]
      · omega
      · omega
    · have h0 : i ≠ 0 := by omega
      rcases hp with ⟨h, _⟩ | ⟨_, h, rfl⟩ | ⟨h, rfl⟩
      · omega
      · right; right
        have hi' : i = b + n := by omega
        refine ⟨by omega, ?_⟩
        rw [htk, hget, List.drop_append_of_le_length (by simp [List.length_take, hlen]; omega)]
        have : (ws.take i).drop (b + n) = [] := by
          apply List.drop_of_length_le; simp [List.length_take, hlen]; omega
        rw [this]
        simp [colon, h0, joinX]
      · right; right
        refine ⟨by omega, ?_⟩
        rw [htk, hget, List.drop_append_of_le_length (by simp [List.length_take, hlen]; omega)]
        rw [joinX_snoc _ _ (by
          intro h'; have := congrArg List.length h'; simp [List.length_take, hlen] at this; omega)]
        simp [colon, h0]
  · rename_i i tp h8
    have : i = 8 := by omega
    subst this
    rcases hp with ⟨h, _⟩ | ⟨_, h, rfl⟩ | ⟨h, rfl⟩
    · omega
    · rw [if_pos (by omega)]
    · rw [if_neg (by omega), List.take_of_length_le (show ws.length ≤ 8 by omega)]

theorem flatMap_wbytes_len (l : List Nat) : (l.flatMap wbytes).length = 2 * l.length := by
  induction l with
  | nil => simp
  | cons a t ih => simp [List.flatMap_cons, wbytes_len, ih]; omega

theorem flatMap_wbytes_zero (n : Nat) : (List.replicate n 0).flatMap wbytes = List.replicate (2 * n) 0 := by
  induction n with
  | zero => simp
  | succ n ih =>
    rw [List.replicate_succ, List.flatMap_cons, ih, show 2 * (n + 1) = (2 * n) + 1 + 1 by omega,
      List.replicate_succ, List.replicate_succ]
    simp [wbytes]

theorem run_zero_decomp (ws : List Nat) (b n : Nat) (hbn : b + n ≤ ws.length)
    (hz : ∀ j, b ≤ j → j < b + n → ws.getD j 0 = 0) :
    ws = ws.take b ++ List.replicate n 0 ++ ws.drop (b + n) := by
  have h1 : (ws.drop b).take n = List.replicate n 0 := by
    apply List.ext_getElem
    · simp; omega
    · intro i h1 h2
      simp at h1 h2 ⊢
      have := hz (b + i) (by omega) (by omega)
      rwa [getD_eq_getElem' ws (b + i) (by omega)] at this
  conv => lhs; rw [← List.take_append_drop b ws, ← List.take_append_drop n (ws.drop b), h1, List.drop_drop]
  simp [List.append_assoc]

theorem words_all_lt (src : List Nat) (hb : ∀ b ∈ src, b < 256) : ∀ w ∈ words src, w < 65536 := by
  intro w hw
  obtain ⟨j, hj, rfl⟩ := List.getElem_of_mem hw
  have := words_lt src (getD_lt_of_all src hb) j
  simpa [List.getD_eq_getElem?_getD, List.getElem?_eq_getElem hj] using this

/-- round trip when a zero run is compressed and no IPv4 form is used -/
theorem ntop6_pton6_run (src : List Nat) (hl : src.length = 16) (hby : ∀ x ∈ src, x < 256) (b n : Nat)
    (hb : (bestRun (words src)).base = b) (hn : (bestRun (words src)).len = n) (hn2 : 2 ≤ n) (hbn : b + n ≤ 8)
    (hz : ∀ j, b ≤ j → j < b + n → (words src).getD j 0 = 0)
    (hnv : ¬ (b = 0 ∧ (n = 6 ∨ (n = 5 ∧ (words src).getD 5 0 = 0xffff)))) :
    ∃ t, ntop6Text src = .ok t ∧ pton6 t = some src := by
  have hwl := words_length src
  have hws := words_all_lt src hby
  refine ⟨joinX ((words src).take b) ++ 58 :: 58 :: joinX ((words src).drop (b + n)), ?_, ?_⟩
  · unfold ntop6Text
    simp only [fmt6Loop_run src (words src) _ b n 0 [] hb hn hn2 hbn hwl hnv (by omega)
      (Or.inl ⟨by omega, by simp [joinX]⟩)]
    rw [hb, hn]
    by_cases h8 : b + n = 8
    · rw [if_pos h8, if_pos ⟨by omega, by omega⟩]
      have : (words src).drop (b + n) = [] := List.drop_of_length_le (by omega)
      simp [this, joinX]
    · rw [if_neg h8, if_neg (by omega)]
  · apply pton6_complete
    have hval : ((words src).take b).flatMap wbytes ++
        List.replicate (16 - ((((words src).take b).flatMap wbytes).length + (((words src).drop (b + n)).flatMap wbytes).length)) 0 ++
        ((words src).drop (b + n)).flatMap wbytes = src := by
      have hd := run_zero_decomp (words src) b n (by omega) hz
      have : 16 - ((((words src).take b).flatMap wbytes).length + (((words src).drop (b + n)).flatMap wbytes).length) = 2 * n := by
        rw [flatMap_wbytes_len, flatMap_wbytes_len]; simp [List.length_take, List.length_drop, hwl]; omega
      rw [this, ← flatMap_wbytes_zero, ← List.flatMap_append, ← List.flatMap_append, ← hd]
      exact words_bytes src hl hby
    have hI := @Ipv6Text.compressed (joinX ((words src).take b)) (((words src).take b).flatMap wbytes)
      (joinX ((words src).drop (b + n))) (((words src).drop (b + n)).flatMap wbytes) ?_ ?_ ?_
    · rw [hval] at hI; exact hI
    · by_cases h0 : b = 0
      · left; simp [h0, joinX]
      · right
        exact hexSeq_joinX _ (take_ne_nil (words src) b hwl (by omega)) (fun w hw => hws w (List.mem_of_mem_take hw))
    · by_cases h8 : b + n = 8
      · left
        have : (words src).drop (b + n) = [] := List.drop_of_length_le (by omega)
        simp [this, joinX]
      · right
        apply hexSeq_groupSeq
        apply hexSeq_joinX
        · intro h'; have := congrArg List.length h'; simp [hwl] at this; omega
        · exact fun w hw => hws w (List.mem_of_mem_drop hw)
    · rw [flatMap_wbytes_len, flatMap_wbytes_len]; simp [List.length_take, List.length_drop, hwl]; omega

theorem fmt6Loop_v4_6 (src ws : List Nat) (best : Run) (hb : best.base = 0) (hn : best.len = 6) :
    fmt6Loop src ws best 0 [] = .ok (58 :: 58 :: fmt4 (src.drop 12)) := by
  obtain ⟨bb, bl⟩ := best
  simp at hb hn; subst hb hn
  simp [fmt6Loop, colon, embedV4_spec]

theorem fmt6Loop_v4_5 (src ws : List Nat) (best : Run) (hb : best.base = 0) (hn : best.len = 5)
    (h5 : ws.getD 5 0 = 0xffff) :
    fmt6Loop src ws best 0 [] = .ok (58 :: 58 :: (fmtX16 0xffff ++ 58 :: fmt4 (src.drop 12))) := by
  obtain ⟨bb, bl⟩ := best
  simp at hb hn; subst hb hn
  simp at h5
  simp [fmt6Loop, colon, h5, fmtX16, hexDigit]
  rw [embedV4_spec _ _ (by simp)]
  simp

theorem words_zero_bytes (src : List Nat) (j : Nat) (hj : j < 8) (h : (words src).getD j 0 = 0) :
    src.getD (2 * j) 0 = 0 ∧ src.getD (2 * j + 1) 0 = 0 := by
  rw [words_getD, if_pos hj] at h
  omega

theorem list16 (src : List Nat) (hl : src.length = 16) :
    ∃ b0 b1 b2 b3 b4 b5 b6 b7 b8 b9 b10 b11 b12 b13 b14 b15,
      src = [b0, b1, b2, b3, b4, b5, b6, b7, b8, b9, b10, b11, b12, b13, b14, b15] := by
  match src, hl with
  | [b0, b1, b2, b3, b4, b5, b6, b7, b8, b9, b10, b11, b12, b13, b14, b15], _ =>
    exact ⟨b0, b1, b2, b3, b4, b5, b6, b7, b8, b9, b10, b11, b12, b13, b14, b15, rfl⟩

/-- round trip, IPv4-compatible form `::a.b.c.d` -/
theorem ntop6_pton6_v4compat (src : List Nat) (hl : src.length = 16) (hby : ∀ x ∈ src, x < 256)
    (hb : (bestRun (words src)).base = 0) (hn : (bestRun (words src)).len = 6)
    (hz : ∀ j, j < 6 → (words src).getD j 0 = 0) :
    ∃ t, ntop6Text src = .ok t ∧ pton6 t = some src := by
  refine ⟨58 :: 58 :: fmt4 (src.drop 12), ?_, ?_⟩
  · unfold ntop6Text
    simp only [fmt6Loop_v4_6 src (words src) _ hb hn]
    rw [hb, hn, if_neg (by omega)]
  · apply pton6_complete
    obtain ⟨b0, b1, b2, b3, b4, b5, b6, b7, b8, b9, b10, b11, b12, b13, b14, b15, rfl⟩ := list16 src hl
    · have z0 := words_zero_bytes _ 0 (by omega) (hz 0 (by omega))
      have z1 := words_zero_bytes _ 1 (by omega) (hz 1 (by omega))
      have z2 := words_zero_bytes _ 2 (by omega) (hz 2 (by omega))
      have z3 := words_zero_bytes _ 3 (by omega) (hz 3 (by omega))
      have z4 := words_zero_bytes _ 4 (by omega) (hz 4 (by omega))
      have z5 := words_zero_bytes _ 5 (by omega) (hz 5 (by omega))
      simp at z0 z1 z2 z3 z4 z5
      obtain ⟨rfl, rfl⟩ := z0; obtain ⟨rfl, rfl⟩ := z1; obtain ⟨rfl, rfl⟩ := z2
      obtain ⟨rfl, rfl⟩ := z3; obtain ⟨rfl, rfl⟩ := z4; obtain ⟨rfl, rfl⟩ := z5
      have q : DottedQuad (fmt4 [b12, b13, b14, b15]) [b12, b13, b14, b15] :=
        (dottedQuad_iff _ _).2 ⟨b12, b13, b14, b15, by have := hby b12 (by simp); omega,
          by have := hby b13 (by simp); omega, by have := hby b14 (by simp); omega,
          by have := hby b15 (by simp); omega, rfl, rfl⟩
      have := @Ipv6Text.compressed [] [] _ _ (Or.inl ⟨rfl, rfl⟩) (Or.inr (GroupSeq.quad q)) (by simp)
      simpa using this

/-- round trip, IPv4-mapped form `::ffff:a.b.c.d` -/
theorem ntop6_pton6_v4mapped (src : List Nat) (hl : src.length = 16) (hby : ∀ x ∈ src, x < 256)
    (hb : (bestRun (words src)).base = 0) (hn : (bestRun (words src)).len = 5)
    (hz : ∀ j, j < 5 → (words src).getD j 0 = 0) (h5 : (words src).getD 5 0 = 0xffff) :
    ∃ t, ntop6Text src = .ok t ∧ pton6 t = some src := by
  refine ⟨58 :: 58 :: (fmtX16 0xffff ++ 58 :: fmt4 (src.drop 12)), ?_, ?_⟩
  · unfold ntop6Text
    simp only [fmt6Loop_v4_5 src (words src) _ hb hn h5]
    rw [hb, hn, if_neg (by omega)]
  · apply pton6_complete
    obtain ⟨b0, b1, b2, b3, b4, b5, b6, b7, b8, b9, b10, b11, b12, b13, b14, b15, rfl⟩ := list16 src hl
    · have z0 := words_zero_bytes _ 0 (by omega) (hz 0 (by omega))
      have z1 := words_zero_bytes _ 1 (by omega) (hz 1 (by omega))
      have z2 := words_zero_bytes _ 2 (by omega) (hz 2 (by omega))
      have z3 := words_zero_bytes _ 3 (by omega) (hz 3 (by omega))
      have z4 := words_zero_bytes _ 4 (by omega) (hz 4 (by omega))
      simp at z0 z1 z2 z3 z4
      obtain ⟨rfl, rfl⟩ := z0; obtain ⟨rfl, rfl⟩ := z1; obtain ⟨rfl, rfl⟩ := z2
      obtain ⟨rfl, rfl⟩ := z3; obtain ⟨rfl, rfl⟩ := z4
      have h10 := hby b10 (by simp)
      have h11 := hby b11 (by simp)
      rw [words_getD, if_pos (by omega)] at h5
      simp at h5
      have e10 : b10 = 255 := by omega
      have e11 : b11 = 255 := by omega
      subst e10 e11
      have q : DottedQuad (fmt4 [b12, b13, b14, b15]) [b12, b13, b14, b15] :=
        (dottedQuad_iff _ _).2 ⟨b12, b13, b14, b15, by have := hby b12 (by simp); omega,
          by have := hby b13 (by simp); omega, by have := hby b14 (by simp); omega,
          by have := hby b15 (by simp); omega, rfl, rfl⟩
      have := @Ipv6Text.compressed [] [] _ _ (Or.inl ⟨rfl, rfl⟩)
        (Or.inr (GroupSeq.cons (fmtX16_isH16 0xffff (by omega)) (GroupSeq.quad q))) (by simp [wbytes_len])
      simpa [wbytes] using this

/-- `inet_pton6 (inet_ntop6 a) = a` for every 16-byte address -/
theorem ntop6_pton6_all (src : List Nat) (hl : src.length = 16) (hby : ∀ x ∈ src, x < 256) :
    ∃ t, ntop6Text src = .ok t ∧ pton6 t = some src := by
  rcases bestRun_spec (words src) with hno | ⟨h0, h2, h3, hz⟩
  · exact ntop6_pton6_norun src hl hby hno
  · obtain ⟨b, hb⟩ := Int.eq_ofNat_of_zero_le h0
    obtain ⟨n, hn⟩ := Int.eq_ofNat_of_zero_le (show 0 ≤ (bestRun (words src)).len by omega)
    have hz' : ∀ j, b ≤ j → j < b + n → (words src).getD j 0 = 0 := by
      intro j h1 h2'; exact hz j (by omega) (by omega)
    by_cases hv : b = 0 ∧ (n = 6 ∨ (n = 5 ∧ (words src).getD 5 0 = 0xffff))
    · obtain ⟨rfl, h6 | ⟨h5, hf⟩⟩ := hv
      · subst h6
        exact ntop6_pton6_v4compat src hl hby (by simpa using hb) (by simpa using hn)
          (fun j hj => hz' j (by omega) (by omega))
      · subst h5
        exact ntop6_pton6_v4mapped src hl hby (by simpa using hb) (by simpa using hn)
          (fun j hj => hz' j (by omega) (by omega)) hf
    · exact ntop6_pton6_run src hl hby b n hb hn (by omega) (by omega) hz' hv

end UvModel.Inet
