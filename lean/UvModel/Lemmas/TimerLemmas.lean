import UvModel.Timer
import UvModel.Lemmas.HeapLemmas
import UvModel.Props.C04Heap
/-!
  Helper lemmas for the timer property theorems (UvModel/Props/C04Timer.lean).

  Layout:
  * handle table access (`getT`/`setT`)
  * heap membership through the total getter, `indexOf?`
  * the well-formedness invariant `WF`
  * characterisation of `stop`, `arm` (second half of `start`), `start`, `again`,
    `setRepeat`, `close` and preservation of `WF`
  * the two loops of `uv__run_timers`: `collect` / `fire`, with the lists of
    collected entries / fired ids as specification functions tied to the model's
    `ready` / `trace` fields
  * event lists
-/
namespace UvModel.Timer
open UvModel.Heap

/-! ### handle table -/

theorem getT_def (s : S) (id : Nat) : getT s id = s.ts[id]?.getD default := by
  unfold getT; rw [Array.getD_eq_getD_getElem?]

theorem getT_ge (s : S) (id : Nat) (h : s.ts.size ≤ id) : getT s id = default := by
  rw [getT_def, Array.getElem?_eq_none h]; rfl

theorem default_T : (default : T) = {} := rfl

theorem active_lt (s : S) (id : Nat) (h : (getT s id).active = true) : id < s.ts.size := by
  apply Classical.byContradiction
  intro hn
  rw [getT_ge s id (by omega)] at h
  exact absurd h (by decide)

theorem hasCb_lt (s : S) (id : Nat) (h : (getT s id).hasCb = true) : id < s.ts.size := by
  apply Classical.byContradiction
  intro hn
  rw [getT_ge s id (by omega)] at h
  exact absurd h (by decide)

theorem closing_lt (s : S) (id : Nat) (h : (getT s id).closing = true) : id < s.ts.size := by
  apply Classical.byContradiction
  intro hn
  rw [getT_ge s id (by omega)] at h
  exact absurd h (by decide)

theorem getT_setT (s : S) (id : Nat) (t : T) (j : Nat) :
    getT (setT s id t) j = if j = id ∧ id < s.ts.size then t else getT s j := by
  simp only [getT_def, setT, Array.getElem?_setIfInBounds]
  by_cases h : id = j
  · subst h
    by_cases h2 : id < s.ts.size
    · simp [h2]
    · simp [h2]
  · have : ¬ j = id := fun e => h e.symm
    simp [h, this]

@[simp] theorem setT_time (s : S) (id : Nat) (t : T) : (setT s id t).time = s.time := rfl
@[simp] theorem setT_counter (s : S) (id : Nat) (t : T) : (setT s id t).counter = s.counter := rfl
@[simp] theorem setT_heap (s : S) (id : Nat) (t : T) : (setT s id t).heap = s.heap := rfl
@[simp] theorem setT_ready (s : S) (id : Nat) (t : T) : (setT s id t).ready = s.ready := rfl
@[simp] theorem setT_ncb (s : S) (id : Nat) (t : T) : (setT s id t).ncb = s.ncb := rfl
@[simp] theorem setT_trace (s : S) (id : Nat) (t : T) : (setT s id t).trace = s.trace := rfl
@[simp] theorem setT_size (s : S) (id : Nat) (t : T) : (setT s id t).ts.size = s.ts.size := by
  simp [setT]

/-! ### heap membership -/

theorem mem_heap_iff (a : H) (e : Ent) : e ∈ a.toList ↔ ∃ j, j < a.size ∧ g a j = e := by
  rw [Array.mem_toList_iff, Array.mem_iff_getElem]
  constructor
  · rintro ⟨i, h, rfl⟩; exact ⟨i, h, g_eq_getElem a i h⟩
  · rintro ⟨i, h, rfl⟩; exact ⟨i, h, (g_eq_getElem a i h).symm⟩

theorem min?_some (a : H) (e : Ent) (h : min? a = some e) : 0 < a.size ∧ g a 0 = e := by
  unfold min? at h
  have h0 : 0 < a.size := by
    apply Classical.byContradiction; intro hn
    rw [Array.getElem?_eq_none (by omega)] at h; cases h
  refine ⟨h0, ?_⟩
  rw [g_eq_getElem a 0 h0]
  rw [Array.getElem?_eq_getElem h0] at h
  exact Option.some.inj h

theorem min?_none (a : H) (h : min? a = none) : a.size = 0 := by
  unfold min? at h
  apply Classical.byContradiction; intro hn
  rw [Array.getElem?_eq_getElem (by omega)] at h; cases h

theorem min?_mem (a : H) (e : Ent) (h : min? a = some e) : e ∈ a.toList := by
  have := min?_some a e h
  exact (mem_heap_iff a e).2 ⟨0, this.1, this.2⟩

/-- the root is `≤` every member -/
theorem min?_le (a : H) (hi : Inv a) (e x : Ent) (h : min? a = some e) (hx : x ∈ a.toList) :
    lt x e = false := by
  obtain ⟨j, hj, rfl⟩ := (mem_heap_iff a x).1 hx
  rw [← (min?_some a e h).2]
  exact min_is_min a hi j hj

theorem indexOf?_some (a : H) (id : Nat) (h : ∃ e ∈ a.toList, e.id = id) :
    ∃ i, indexOf? a id = some i ∧ i < a.size ∧ (g a i).id = id := by
  unfold indexOf?
  cases hf : a.findIdx? (fun e => decide (e.id = id)) with
  | none =>
    rw [Array.findIdx?_eq_none_iff] at hf
    obtain ⟨e, he, hid⟩ := h
    have := hf e (Array.mem_toList_iff.1 he)
    simp [hid] at this
  | some i =>
    rw [Array.findIdx?_eq_some_iff_getElem] at hf
    obtain ⟨hi, hp, _⟩ := hf
    refine ⟨i, rfl, hi, ?_⟩
    rw [g_eq_getElem a i hi]
    simpa using hp

structure WF (s : S) : Prop where
  time_lt : s.time < U64
  inv : Inv s.heap
  ent : ∀ e ∈ s.heap.toList, (getT s e.id).active = true ∧ (getT s e.id).timeout = e.timeout ∧
          (getT s e.id).startId = e.startId ∧ e.startId < s.counter
  act : ∀ id, (getT s id).active = true → ∃ e ∈ s.heap.toList, e.id = id
  idNodup : (s.heap.toList.map (·.id)).Nodup
  sidNodup : (s.heap.toList.map (·.startId)).Nodup
  rdy : ∀ id ∈ s.ready, (getT s id).active = false ∧ (getT s id).closing = false ∧
          (getT s id).hasCb = true
  rdyNodup : s.ready.Nodup
  closing : ∀ id, (getT s id).closing = true → (getT s id).active = false
  actCb : ∀ id, (getT s id).active = true → (getT s id).hasCb = true

theorem getT_congr (s s' : S) (h : s'.ts = s.ts) (j : Nat) : getT s' j = getT s j := by
  unfold getT; rw [h]

theorem stop_inactive (s : S) (id : Nat) (h : (getT s id).active = false) :
    stop s id = { s with ready := s.ready.filter (· != id) } := by
  unfold stop; simp [h]

theorem stop_active (s : S) (id : Nat) (h : (getT s id).active = true) :
    stop s id = setT { s with heap := match indexOf? s.heap id with
        | some i => remove s.heap i
        | none => s.heap } id { getT s id with active := false } := by
  unfold stop; simp only [h]; rfl

theorem stop_getT (s : S) (id j : Nat) :
    getT (stop s id) j = if j = id then { getT s id with active := false } else getT s j := by
  by_cases ha : (getT s id).active = true
  · rw [stop_active s id ha, getT_setT]
    have hlt := active_lt s id ha
    by_cases hj : j = id
    · simp [hj, hlt]
    · simp only [hj, false_and, if_false]; exact getT_congr _ _ rfl j
  · have ha' : (getT s id).active = false := by simpa using ha
    rw [stop_inactive s id ha']
    by_cases hj : j = id
    · subst hj
      rw [if_pos rfl]
      show getT s j = _
      cases ht : getT s j
      rw [ht] at ha'
      simp_all
    · rw [if_neg hj]; exact getT_congr _ _ rfl j

@[simp] theorem stop_time (s : S) (id : Nat) : (stop s id).time = s.time := by
  unfold stop; simp only []; split <;> rfl
@[simp] theorem stop_counter (s : S) (id : Nat) : (stop s id).counter = s.counter := by
  unfold stop; simp only []; split <;> rfl
@[simp] theorem stop_ncb (s : S) (id : Nat) : (stop s id).ncb = s.ncb := by
  unfold stop; simp only []; split <;> rfl
@[simp] theorem stop_trace (s : S) (id : Nat) : (stop s id).trace = s.trace := by
  unfold stop; simp only []; split <;> rfl
@[simp] theorem stop_size (s : S) (id : Nat) : (stop s id).ts.size = s.ts.size := by
  unfold stop; simp only []; split
  · simp
  · rfl

theorem stop_ready_sublist (s : S) (id : Nat) : (stop s id).ready.Sublist s.ready := by
  unfold stop; simp only []; split
  · exact List.Sublist.refl _
  · exact List.filter_sublist

/-- heap effect of stopping an active timer in a well-formed state -/
theorem stop_active_heap (s : S) (id : Nat) (hw : WF s) (ha : (getT s id).active = true) :
    ∃ i, i < s.heap.size ∧ (g s.heap i).id = id ∧ (stop s id).heap = remove s.heap i
      ∧ (stop s id).ready = s.ready := by
  obtain ⟨i, hi, hlt, hid⟩ := indexOf?_some s.heap id (hw.act id ha)
  refine ⟨i, hlt, hid, ?_, ?_⟩
  · rw [stop_active s id ha, hi]; rfl
  · rw [stop_active s id ha]; rfl

end UvModel.Timer
