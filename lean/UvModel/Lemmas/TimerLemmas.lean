import UvModel.Timer
import UvModel.Lemmas.HeapLemmas
import UvModel.Props.C04Heap
/-!
  Helper lemmas for the timer property theorems (UvModel/Props/C04Timer.lean).

  Layout:
  * handle table access (`getT`/`setT`)
  * heap membership through the total getter, `indexOf?`
  * the well-formedness invariant `WF`
  * characterisation of `stop`, `arm` (second half of `start`), `start`, `again`,
    `setRepeat`, `close` and preservation of `WF`
  * the two loops of `uv__run_timers`: `collect` / `fire`, with the lists of
    collected entries / fired ids as specification functions tied to the model's
    `ready` / `trace` fields
  * event lists
-/
namespace UvModel.Timer
open UvModel.Heap

/-! ### handle table -/

theorem getT_def (s : S) (id : Nat) : getT s id = s.ts[id]?.getD default := by
  unfold getT; rw [Array.getD_eq_getD_getElem?]

theorem getT_ge (s : S) (id : Nat) (h : s.ts.size ≤ id) : getT s id = default := by
  rw [getT_def, Array.getElem?_eq_none h]; rfl

theorem default_T : (default : T) = {} := rfl

theorem active_lt (s : S) (id : Nat) (h : (getT s id).active = true) : id < s.ts.size := by
  apply Classical.byContradiction
  intro hn
  rw [getT_ge s id (by omega)] at h
  exact absurd h (by decide)

theorem hasCb_lt (s : S) (id : Nat) (h : (getT s id).hasCb = true) : id < s.ts.size := by
  apply Classical.byContradiction
  intro hn
  rw [getT_ge s id (by omega)] at h
  exact absurd h (by decide)

theorem closing_lt (s : S) (id : Nat) (h : (getT s id).closing = true) : id < s.ts.size := by
  apply Classical.byContradiction
  intro hn
  rw [getT_ge s id (by omega)] at h
  exact absurd h (by decide)

theorem getT_setT (s : S) (id : Nat) (t : T) (j : Nat) :
    getT (setT s id t) j = if j = id ∧ id < s.ts.size then t else getT s j := by
  simp only [getT_def, setT, Array.getElem?_setIfInBounds]
  by_cases h : id = j
  · subst h
    by_cases h2 : id < s.ts.size
    · simp [h2]
    · simp [h2]
  · have : ¬ j = id := fun e => h e.symm
    simp [h, this]

@[simp] theorem setT_time (s : S) (id : Nat) (t : T) : (setT s id t).time = s.time := rfl
@[simp] theorem setT_counter (s : S) (id : Nat) (t : T) : (setT s id t).counter = s.counter := rfl
@[simp] theorem setT_heap (s : S) (id : Nat) (t : T) : (setT s id t).heap = s.heap := rfl
@[simp] theorem setT_ready (s : S) (id : Nat) (t : T) : (setT s id t).ready = s.ready := rfl
@[simp] theorem setT_ncb (s : S) (id : Nat) (t : T) : (setT s id t).ncb = s.ncb := rfl
@[simp] theorem setT_trace (s : S) (id : Nat) (t : T) : (setT s id t).trace = s.trace := rfl
@[simp] theorem setT_size (s : S) (id : Nat) (t : T) : (setT s id t).ts.size = s.ts.size := by
  simp [setT]

/-! ### heap membership -/

theorem mem_heap_iff (a : H) (e : Ent) : e ∈ a.toList ↔ ∃ j, j < a.size ∧ g a j = e := by
  rw [Array.mem_toList_iff, Array.mem_iff_getElem]
  constructor
  · rintro ⟨i, h, rfl⟩; exact ⟨i, h, g_eq_getElem a i h⟩
  · rintro ⟨i, h, rfl⟩; exact ⟨i, h, (g_eq_getElem a i h).symm⟩

theorem min?_some (a : H) (e : Ent) (h : min? a = some e) : 0 < a.size ∧ g a 0 = e := by
  unfold min? at h
  have h0 : 0 < a.size := by
    apply Classical.byContradiction; intro hn
    rw [Array.getElem?_eq_none (by omega)] at h; cases h
  refine ⟨h0, ?_⟩
  rw [g_eq_getElem a 0 h0]
  rw [Array.getElem?_eq_getElem h0] at h
  exact Option.some.inj h

theorem min?_none (a : H) (h : min? a = none) : a.size = 0 := by
  unfold min? at h
  apply Classical.byContradiction; intro hn
  rw [Array.getElem?_eq_getElem (by omega)] at h; cases h

theorem min?_mem (a : H) (e : Ent) (h : min? a = some e) : e ∈ a.toList := by
  have := min?_some a e h
  exact (mem_heap_iff a e).2 ⟨0, this.1, this.2⟩

/-- the root is `≤` every member -/
theorem min?_le (a : H) (hi : Inv a) (e x : Ent) (h : min? a = some e) (hx : x ∈ a.toList) :
    lt x e = false := by
  obtain ⟨j, hj, rfl⟩ := (mem_heap_iff a x).1 hx
  rw [← (min?_some a e h).2]
  exact min_is_min a hi j hj

theorem indexOf?_some (a : H) (id : Nat) (h : ∃ e ∈ a.toList, e.id = id) :
    ∃ i, indexOf? a id = some i ∧ i < a.size ∧ (g a i).id = id := by
  unfold indexOf?
  cases hf : a.findIdx? (fun e => decide (e.id = id)) with
  | none =>
    rw [Array.findIdx?_eq_none_iff] at hf
    obtain ⟨e, he, hid⟩ := h
    have := hf e (Array.mem_toList_iff.1 he)
    simp [hid] at this
  | some i =>
    rw [Array.findIdx?_eq_some_iff_getElem] at hf
    obtain ⟨hi, hp, _⟩ := hf
    refine ⟨i, rfl, hi, ?_⟩
    rw [g_eq_getElem a i hi]
    simpa using hp

structure WF (s : S) : Prop where
  time_lt : s.time < U64
  inv : Inv s.heap
  ent : ∀ e ∈ s.heap.toList, (getT s e.id).active = true ∧ (getT s e.id).timeout = e.timeout ∧
          (getT s e.id).startId = e.startId ∧ e.startId < s.counter
  act : ∀ id, (getT s id).active = true → ∃ e ∈ s.heap.toList, e.id = id
  idNodup : (s.heap.toList.map (·.id)).Nodup
  sidNodup : (s.heap.toList.map (·.startId)).Nodup
  rdy : ∀ id ∈ s.ready, (getT s id).active = false ∧ (getT s id).closing = false ∧
          (getT s id).hasCb = true
  rdyNodup : s.ready.Nodup
  closing : ∀ id, (getT s id).closing = true → (getT s id).active = false
  actCb : ∀ id, (getT s id).active = true → (getT s id).hasCb = true

theorem getT_congr (s s' : S) (h : s'.ts = s.ts) (j : Nat) : getT s' j = getT s j := by
  unfold getT; rw [h]

theorem stop_inactive (s : S) (id : Nat) (h : (getT s id).active = false) :
    stop s id = { s with ready := s.ready.filter (· != id) } := by
  unfold stop; simp [h]

theorem stop_active (s : S) (id : Nat) (h : (getT s id).active = true) :
    stop s id = setT { s with heap := match indexOf? s.heap id with
        | some i => remove s.heap i
        | none => s.heap } id { getT s id with active := false } := by
  unfold stop; simp only [h]; rfl

theorem stop_getT (s : S) (id j : Nat) :
    getT (stop s id) j = if j = id then { getT s id with active := false } else getT s j := by
  by_cases ha : (getT s id).active = true
  · rw [stop_active s id ha, getT_setT]
    have hlt := active_lt s id ha
    by_cases hj : j = id
    · simp [hj, hlt]
    · simp only [hj, false_and, if_false]; exact getT_congr _ _ rfl j
  · have ha' : (getT s id).active = false := by simpa using ha
    rw [stop_inactive s id ha']
    by_cases hj : j = id
    · subst hj
      rw [if_pos rfl]
      show getT s j = _
      cases ht : getT s j
      rw [ht] at ha'
      simp_all
    · rw [if_neg hj]; exact getT_congr _ _ rfl j

@[simp] theorem stop_time (s : S) (id : Nat) : (stop s id).time = s.time := by
  unfold stop; simp only []; split <;> rfl
@[simp] theorem stop_counter (s : S) (id : Nat) : (stop s id).counter = s.counter := by
  unfold stop; simp only []; split <;> rfl
@[simp] theorem stop_ncb (s : S) (id : Nat) : (stop s id).ncb = s.ncb := by
  unfold stop; simp only []; split <;> rfl
@[simp] theorem stop_trace (s : S) (id : Nat) : (stop s id).trace = s.trace := by
  unfold stop; simp only []; split <;> rfl
@[simp] theorem stop_size (s : S) (id : Nat) : (stop s id).ts.size = s.ts.size := by
  unfold stop; simp only []; split
  · simp
  · rfl

theorem stop_ready_sublist (s : S) (id : Nat) : (stop s id).ready.Sublist s.ready := by
  unfold stop; simp only []; split
  · exact List.Sublist.refl _
  · exact List.filter_sublist

/-- heap effect of stopping an active timer in a well-formed state -/
theorem stop_active_heap (s : S) (id : Nat) (hw : WF s) (ha : (getT s id).active = true) :
    ∃ i, i < s.heap.size ∧ (g s.heap i).id = id ∧ (stop s id).heap = remove s.heap i
      ∧ (stop s id).ready = s.ready := by
  obtain ⟨i, hi, hlt, hid⟩ := indexOf?_some s.heap id (hw.act id ha)
  refine ⟨i, hlt, hid, ?_, ?_⟩
  · rw [stop_active s id ha, hi]; rfl
  · rw [stop_active s id ha]; rfl

/-! ### `WF` under changes of the bookkeeping fields -/

theorem WF.ready_sub {s : S} (hw : WF s) (r : List Nat) (h : r.Sublist s.ready) :
    WF { s with ready := r } :=
  ⟨hw.time_lt, hw.inv, hw.ent, hw.act, hw.idNodup, hw.sidNodup,
   fun j hj => hw.rdy j (h.subset hj), h.nodup hw.rdyNodup, hw.closing, hw.actCb⟩

theorem WF.ncb_trace {s : S} (hw : WF s) (n : Nat) (tr : List (Nat × Nat)) :
    WF { s with ncb := n, trace := tr } :=
  ⟨hw.time_lt, hw.inv, hw.ent, hw.act, hw.idNodup, hw.sidNodup, hw.rdy, hw.rdyNodup,
   hw.closing, hw.actCb⟩

/-! ### `stop` -/

theorem stop_inactive_after (s : S) (id : Nat) : (getT (stop s id) id).active = false := by
  rw [stop_getT, if_pos rfl]

theorem stop_wf (s : S) (id : Nat) (hw : WF s) : WF (stop s id) := by
  by_cases ha : (getT s id).active = true
  · obtain ⟨i, hlt, hid, hh, hr⟩ := stop_active_heap s id hw ha
    have P := remove_perm s.heap i hlt
    rw [← hh] at P
    have hnd := (P.map (·.id)).nodup_iff.1 hw.idNodup
    rw [List.map_cons, List.nodup_cons, hid] at hnd
    have hsd := (P.map (·.startId)).nodup_iff.1 hw.sidNodup
    rw [List.map_cons, List.nodup_cons] at hsd
    have hmem : ∀ x, x ∈ (stop s id).heap.toList → x ∈ s.heap.toList :=
      fun x hx => P.mem_iff.2 (List.mem_cons_of_mem _ hx)
    have hne : ∀ x ∈ (stop s id).heap.toList, x.id ≠ id := by
      intro x hx e; exact hnd.1 (List.mem_map.2 ⟨x, hx, e⟩)
    refine ⟨?_, ?_, ?_, ?_, hnd.2, hsd.2, ?_, ?_, ?_, ?_⟩
    · simpa using hw.time_lt
    · rw [hh]; exact remove_inv _ _ hw.inv
    · intro x hx
      rw [stop_getT, if_neg (hne x hx), stop_counter]
      exact hw.ent x (hmem x hx)
    · intro j hj
      rw [stop_getT] at hj
      by_cases e : j = id
      · rw [if_pos e] at hj; simp at hj
      · rw [if_neg e] at hj
        obtain ⟨x, hx, hxid⟩ := hw.act j hj
        rcases List.mem_cons.1 (P.mem_iff.1 hx) with h | h
        · exfalso; apply e; rw [← hxid, h, hid]
        · exact ⟨x, h, hxid⟩
    · intro j hj; rw [hr] at hj
      rw [stop_getT]
      have := hw.rdy j hj
      by_cases e : j = id
      · subst e; simp [this]
      · rw [if_neg e]; exact this
    · rw [hr]; exact hw.rdyNodup
    · intro j hj; rw [stop_getT] at hj ⊢
      by_cases e : j = id
      · simp [e]
      · rw [if_neg e] at hj ⊢; exact hw.closing j hj
    · intro j hj; rw [stop_getT] at hj ⊢
      by_cases e : j = id
      · simp [e] at hj
      · rw [if_neg e] at hj ⊢; exact hw.actCb j hj
  · have ha' : (getT s id).active = false := by simpa using ha
    rw [stop_inactive s id ha']
    exact hw.ready_sub _ List.filter_sublist

theorem stop_not_ready (s : S) (id : Nat) (hw : WF s) : id ∉ (stop s id).ready := by
  by_cases ha : (getT s id).active = true
  · obtain ⟨i, _, _, _, hr⟩ := stop_active_heap s id hw ha
    rw [hr]; intro h
    have := (hw.rdy id h).1
    rw [ha] at this; cases this
  · have ha' : (getT s id).active = false := by simpa using ha
    rw [stop_inactive s id ha']
    simp

theorem stop_not_heap (s : S) (id : Nat) (hw : WF s) : ∀ e ∈ (stop s id).heap.toList, e.id ≠ id := by
  intro e he h
  have := ((stop_wf s id hw).ent e he).1
  rw [h, stop_inactive_after] at this
  cases this

/-! ### `arm`: the part of `uv_timer_start` after the embedded `uv_timer_stop` -/

def arm (s : S) (id to rp : Nat) : S :=
  let c := clampC s.time to
  let t : T := { getT s id with hasCb := true, timeout := c, rep := rp, startId := s.counter, active := true }
  { setT s id t with counter := s.counter + 1, heap := insert s.heap ⟨c, s.counter, id⟩ }

theorem start_eq (s : S) (id to rp : Nat) :
    start s id to rp = if (getT s id).closing = true then (s, -22) else (arm (stop s id) id to rp, 0) := by
  unfold start arm
  simp only []
  split <;> simp

theorem arm_getT (s : S) (id to rp j : Nat) :
    getT (arm s id to rp) j = if j = id ∧ id < s.ts.size then
      { getT s id with hasCb := true, timeout := clampC s.time to, rep := rp, startId := s.counter, active := true }
      else getT s j := by
  unfold arm
  simp only []
  rw [← getT_setT]
  exact getT_congr _ _ rfl j

theorem arm_wf (s : S) (id to rp : Nat) (hw : WF s) (hlt : id < s.ts.size)
    (hi : (getT s id).active = false) (hr : id ∉ s.ready) (hc : (getT s id).closing = false) :
    WF (arm s id to rp) := by
  have hheap : (arm s id to rp).heap = insert s.heap ⟨clampC s.time to, s.counter, id⟩ := rfl
  have hcnt : (arm s id to rp).counter = s.counter + 1 := rfl
  have hrd : (arm s id to rp).ready = s.ready := rfl
  have P := insert_perm s.heap ⟨clampC s.time to, s.counter, id⟩
  rw [← hheap] at P
  have hold : ∀ e ∈ s.heap.toList, e.id ≠ id := by
    intro e he h
    have := (hw.ent e he).1
    rw [h, hi] at this; cases this
  refine ⟨hw.time_lt, ?_, ?_, ?_, ?_, ?_, ?_, ?_, ?_, ?_⟩
  · rw [hheap]; exact insert_inv _ _ hw.inv
  · intro e he
    rw [arm_getT, hcnt]
    rcases List.mem_cons.1 (P.mem_iff.1 he) with h | h
    · subst h; simp [hlt]
    · have := hw.ent e h
      simp only [hold e h, false_and, if_false]
      exact ⟨this.1, this.2.1, this.2.2.1, by omega⟩
  · intro j hj
    rw [arm_getT] at hj
    by_cases e : j = id
    · exact ⟨_, P.mem_iff.2 (List.mem_cons_self), e.symm⟩
    · simp only [e, false_and, if_false] at hj
      obtain ⟨x, hx, hxid⟩ := hw.act j hj
      exact ⟨x, P.mem_iff.2 (List.mem_cons_of_mem _ hx), hxid⟩
  · refine (P.map (·.id)).nodup_iff.2 ?_
    rw [List.map_cons, List.nodup_cons]
    refine ⟨?_, hw.idNodup⟩
    intro h
    obtain ⟨x, hx, hxid⟩ := List.mem_map.1 h
    exact hold x hx hxid
  · refine (P.map (·.startId)).nodup_iff.2 ?_
    rw [List.map_cons, List.nodup_cons]
    refine ⟨?_, hw.sidNodup⟩
    intro h
    obtain ⟨x, hx, hxid⟩ := List.mem_map.1 h
    have := (hw.ent x hx).2.2.2
    simp only at hxid
    omega
  · intro j hj
    rw [hrd] at hj
    have e : j ≠ id := fun e => hr (e ▸ hj)
    rw [arm_getT]
    simp only [e, false_and, if_false]
    exact hw.rdy j hj
  · exact hw.rdyNodup
  · intro j hj
    rw [arm_getT] at hj ⊢
    by_cases e : j = id
    · subst e; simp [hlt, hc] at hj
    · simp only [e, false_and, if_false] at hj ⊢; exact hw.closing j hj
  · intro j hj
    rw [arm_getT] at hj ⊢
    by_cases e : j = id
    · subst e; simp [hlt]
    · simp only [e, false_and, if_false] at hj ⊢; exact hw.actCb j hj

@[simp] theorem arm_time (s : S) (id to rp : Nat) : (arm s id to rp).time = s.time := rfl
@[simp] theorem arm_ready (s : S) (id to rp : Nat) : (arm s id to rp).ready = s.ready := rfl
@[simp] theorem arm_ncb (s : S) (id to rp : Nat) : (arm s id to rp).ncb = s.ncb := rfl
@[simp] theorem arm_trace (s : S) (id to rp : Nat) : (arm s id to rp).trace = s.trace := rfl
@[simp] theorem arm_size (s : S) (id to rp : Nat) : (arm s id to rp).ts.size = s.ts.size := by
  unfold arm; simp [setT]

/-! ### `start` -/

theorem start_wf (s : S) (id to rp : Nat) (hw : WF s) (hlt : id < s.ts.size) :
    WF (start s id to rp).1 := by
  rw [start_eq]
  split
  · exact hw
  · rename_i hc
    refine arm_wf _ _ _ _ (stop_wf s id hw) (by simpa using hlt) (stop_inactive_after s id)
      (stop_not_ready s id hw) ?_
    rw [stop_getT, if_pos rfl]
    simpa using hc

/-! ### `again` -/

theorem again_eq (s : S) (id : Nat) :
    again s id = if (getT s id).hasCb = false then (s, -22)
      else if (getT s id).rep ≠ 0 then
        ((start (stop s id) id (getT s id).rep (getT s id).rep).1, 0) else (s, 0) := by
  unfold again
  simp only []
  by_cases h : (getT s id).hasCb = true
  · by_cases h2 : (getT s id).rep = 0 <;> simp [h, h2]
  · simp [h]

theorem again_wf (s : S) (id : Nat) (hw : WF s) : WF (again s id).1 := by
  rw [again_eq]
  split
  · exact hw
  · rename_i hcb
    split
    · exact start_wf _ _ _ _ (stop_wf s id hw) (by simpa using hasCb_lt s id (by simpa using hcb))
    · exact hw

/-! ### `setRepeat` -/

theorem setRepeat_getT (s : S) (id rp j : Nat) :
    getT (setRepeat s id rp) j = if j = id ∧ id < s.ts.size then { getT s id with rep := rp } else getT s j := by
  unfold setRepeat; exact getT_setT _ _ _ _

@[simp] theorem setRepeat_active (s : S) (id rp j : Nat) :
    (getT (setRepeat s id rp) j).active = (getT s j).active := by
  rw [setRepeat_getT]; split
  · rename_i h; rw [h.1]
  · rfl
@[simp] theorem setRepeat_closing (s : S) (id rp j : Nat) :
    (getT (setRepeat s id rp) j).closing = (getT s j).closing := by
  rw [setRepeat_getT]; split
  · rename_i h; rw [h.1]
  · rfl
@[simp] theorem setRepeat_hasCb (s : S) (id rp j : Nat) :
    (getT (setRepeat s id rp) j).hasCb = (getT s j).hasCb := by
  rw [setRepeat_getT]; split
  · rename_i h; rw [h.1]
  · rfl
@[simp] theorem setRepeat_timeout (s : S) (id rp j : Nat) :
    (getT (setRepeat s id rp) j).timeout = (getT s j).timeout := by
  rw [setRepeat_getT]; split
  · rename_i h; rw [h.1]
  · rfl
@[simp] theorem setRepeat_startId (s : S) (id rp j : Nat) :
    (getT (setRepeat s id rp) j).startId = (getT s j).startId := by
  rw [setRepeat_getT]; split
  · rename_i h; rw [h.1]
  · rfl

theorem setRepeat_wf (s : S) (id rp : Nat) (hw : WF s) : WF (setRepeat s id rp) := by
  have hh : (setRepeat s id rp).heap = s.heap := rfl
  have hr : (setRepeat s id rp).ready = s.ready := rfl
  have hc : (setRepeat s id rp).counter = s.counter := rfl
  refine ⟨hw.time_lt, hw.inv, ?_, ?_, hw.idNodup, hw.sidNodup, ?_, hw.rdyNodup, ?_, ?_⟩
  · intro e he; rw [hh] at he; simpa [hc] using hw.ent e he
  · intro j hj; rw [hh]; exact hw.act j (by simpa using hj)
  · intro j hj; rw [hr] at hj; simpa using hw.rdy j hj
  · intro j hj; simpa using hw.closing j (by simpa using hj)
  · intro j hj; simpa using hw.actCb j (by simpa using hj)

/-! ### `close` -/

theorem WF.setT_inactive {s : S} (hw : WF s) (id : Nat) (t : T) (hi : (getT s id).active = false)
    (hr : id ∉ s.ready) (ht : t.active = false) : WF (setT s id t) := by
  have hne : ∀ j, (getT s j).active = true → getT (setT s id t) j = getT s j := by
    intro j hj
    rw [getT_setT]
    have : j ≠ id := by intro e; rw [e, hi] at hj; cases hj
    simp [this]
  have hact : ∀ j, (getT (setT s id t) j).active = true → (getT s j).active = true ∧ j ≠ id := by
    intro j hj
    rw [getT_setT] at hj
    by_cases e : j = id ∧ id < s.ts.size
    · rw [if_pos e, ht] at hj; cases hj
    · rw [if_neg e] at hj
      refine ⟨hj, ?_⟩
      intro e'; rw [e', hi] at hj; cases hj
  refine ⟨hw.time_lt, hw.inv, ?_, ?_, hw.idNodup, hw.sidNodup, ?_, hw.rdyNodup, ?_, ?_⟩
  · intro e he
    have := hw.ent e he
    rw [hne e.id this.1]; exact this
  · intro j hj; exact hw.act j (hact j hj).1
  · intro j hj
    have e : j ≠ id := fun e => hr (e ▸ hj)
    rw [getT_setT]; simp only [e, false_and, if_false]; exact hw.rdy j hj
  · intro j hj
    rw [getT_setT] at hj ⊢
    by_cases e : j = id ∧ id < s.ts.size
    · rw [if_pos e]; exact ht
    · rw [if_neg e] at hj ⊢; exact hw.closing j hj
  · intro j hj
    have := hact j hj
    rw [hne j this.1]; exact hw.actCb j this.1

theorem close_wf (s : S) (id : Nat) (hw : WF s) : WF (close s id) := by
  unfold close
  exact (stop_wf s id hw).setT_inactive id _ (stop_inactive_after s id) (stop_not_ready s id hw)
    (stop_inactive_after s id)

/-! ### `applyOp` -/

def Op.id : Op → Nat
  | .start id _ _ => id
  | .stop id => id
  | .again id => id
  | .setRepeat id _ => id
  | .close id => id

theorem applyOp_wf (s : S) (o : Op) (hw : WF s) (hlt : o.id < s.ts.size) : WF (applyOp s o) := by
  cases o with
  | start id to rp => exact start_wf s id to rp hw hlt
  | stop id => exact stop_wf s id hw
  | again id => exact again_wf s id hw
  | setRepeat id rp => exact setRepeat_wf s id rp hw
  | close id => exact close_wf s id hw

/-! ### what no timer operation touches: clock, callback count, trace, table size;
    and the ready queue never grows -/

structure Same (s s' : S) : Prop where
  time : s'.time = s.time
  ncb : s'.ncb = s.ncb
  trace : s'.trace = s.trace
  size : s'.ts.size = s.ts.size
  ready : s'.ready.Sublist s.ready

theorem Same.refl (s : S) : Same s s := ⟨rfl, rfl, rfl, rfl, List.Sublist.refl _⟩
theorem Same.trans {a b c : S} (h1 : Same a b) (h2 : Same b c) : Same a c :=
  ⟨h2.time.trans h1.time, h2.ncb.trans h1.ncb, h2.trace.trans h1.trace, h2.size.trans h1.size,
   h2.ready.trans h1.ready⟩

theorem stop_same (s : S) (id : Nat) : Same s (stop s id) :=
  ⟨stop_time s id, stop_ncb s id, stop_trace s id, stop_size s id, stop_ready_sublist s id⟩

theorem arm_same (s : S) (id to rp : Nat) : Same s (arm s id to rp) :=
  ⟨rfl, rfl, rfl, arm_size s id to rp, List.Sublist.refl _⟩

theorem start_same (s : S) (id to rp : Nat) : Same s (start s id to rp).1 := by
  rw [start_eq]; split
  · exact Same.refl s
  · exact (stop_same s id).trans (arm_same _ id to rp)

theorem again_same (s : S) (id : Nat) : Same s (again s id).1 := by
  rw [again_eq]; split
  · exact Same.refl s
  · split
    · exact (stop_same s id).trans (start_same _ _ _ _)
    · exact Same.refl s

theorem setRepeat_same (s : S) (id rp : Nat) : Same s (setRepeat s id rp) :=
  ⟨rfl, rfl, rfl, by simp [setRepeat], List.Sublist.refl _⟩

theorem close_same (s : S) (id : Nat) : Same s (close s id) := by
  unfold close
  exact (stop_same s id).trans ⟨rfl, rfl, rfl, by simp, List.Sublist.refl _⟩

theorem applyOp_same (s : S) (o : Op) : Same s (applyOp s o) := by
  cases o with
  | start id to rp => exact start_same s id to rp
  | stop id => exact stop_same s id
  | again id => exact again_same s id
  | setRepeat id rp => exact setRepeat_same s id rp
  | close id => exact close_same s id

theorem ops_same (ops : List Op) (s : S) : Same s (ops.foldl applyOp s) := by
  induction ops generalizing s with
  | nil => exact Same.refl s
  | cons o r ih => exact (applyOp_same s o).trans (ih _)

theorem ops_wf (ops : List Op) (s : S) (hw : WF s) (hok : ∀ o ∈ ops, o.id < s.ts.size) :
    WF (ops.foldl applyOp s) := by
  induction ops generalizing s with
  | nil => exact hw
  | cons o r ih =>
    refine ih _ (applyOp_wf s o hw (hok o List.mem_cons_self)) ?_
    intro o' ho'
    rw [(applyOp_same s o).size]
    exact hok o' (List.mem_cons_of_mem _ ho')

theorem nodup_map_inj {α β : Type} (f : α → β) (l : List α) (h : (l.map f).Nodup) :
    ∀ x ∈ l, ∀ y ∈ l, f x = f y → x = y := by
  induction l with
  | nil => intro x hx; cases hx
  | cons a l ih =>
    rw [List.map_cons, List.nodup_cons] at h
    intro x hx y hy hxy
    rcases List.mem_cons.1 hx with rfl | hx' <;> rcases List.mem_cons.1 hy with rfl | hy'
    · rfl
    · exact absurd (hxy ▸ List.mem_map.2 ⟨y, hy', rfl⟩) h.1
    · exact absurd (hxy ▸ List.mem_map.2 ⟨x, hx', rfl⟩) h.1
    · exact ih h.2 x hx' y hy' hxy

/-- distinct heap entries compare strictly (start ids are pairwise distinct) -/
theorem WF.lt_of_le {s : S} (hw : WF s) (x y : Ent) (hx : x ∈ s.heap.toList) (hy : y ∈ s.heap.toList)
    (hne : x ≠ y) (hle : lt y x = false) : lt x y = true := by
  have hs : x.startId ≠ y.startId := fun e => hne (nodup_map_inj _ _ hw.sidNodup x hx y hy e)
  rw [lt_eq_false_iff] at hle
  rw [lt_eq_true_iff]
  omega

/-! ### first loop of `uv__run_timers` -/

/-- one round of the first loop: `uv_timer_stop(handle); uv__queue_insert_tail(&ready_queue, …)` -/
def collectStep (s : S) (e : Ent) : S :=
  { stop s e.id with ready := (stop s e.id).ready ++ [e.id] }

/-- the heap entries taken out by `collect`, in the order they were taken -/
def collected (s : S) : Nat → List Ent
  | 0 => []
  | fuel + 1 =>
    match min? s.heap with
    | none => []
    | some e => if e.timeout > s.time then [] else e :: collected (collectStep s e) fuel

theorem collect_none (s : S) (f : Nat) (h : min? s.heap = none) : collect s (f + 1) = s := by
  simp [collect, h]
theorem collect_notdue (s : S) (f : Nat) (e : Ent) (h : min? s.heap = some e) (hd : e.timeout > s.time) :
    collect s (f + 1) = s := by
  simp [collect, h, hd]
theorem collect_due (s : S) (f : Nat) (e : Ent) (h : min? s.heap = some e) (hd : ¬ e.timeout > s.time) :
    collect s (f + 1) = collect (collectStep s e) f := by
  simp only [collect, h, hd, if_false]; rfl
theorem collected_none (s : S) (f : Nat) (h : min? s.heap = none) : collected s (f + 1) = [] := by
  simp [collected, h]
theorem collected_notdue (s : S) (f : Nat) (e : Ent) (h : min? s.heap = some e) (hd : e.timeout > s.time) :
    collected s (f + 1) = [] := by
  simp [collected, h, hd]
theorem collected_due (s : S) (f : Nat) (e : Ent) (h : min? s.heap = some e) (hd : ¬ e.timeout > s.time) :
    collected s (f + 1) = e :: collected (collectStep s e) f := by
  simp only [collected, h, hd, if_false]

/-- induction principle following the control flow of `collect` from a well-formed state -/
theorem collect_cases (s : S) (f : Nat) :
    (min? s.heap = none ∧ collect s (f + 1) = s ∧ collected s (f + 1) = []) ∨
    (∃ e, min? s.heap = some e ∧ e.timeout > s.time ∧ collect s (f + 1) = s ∧ collected s (f + 1) = []) ∨
    (∃ e, min? s.heap = some e ∧ e.timeout ≤ s.time ∧ collect s (f + 1) = collect (collectStep s e) f
        ∧ collected s (f + 1) = e :: collected (collectStep s e) f) := by
  cases hm : min? s.heap with
  | none => exact Or.inl ⟨rfl, collect_none s f hm, collected_none s f hm⟩
  | some e =>
    by_cases hd : e.timeout > s.time
    · exact Or.inr (Or.inl ⟨e, rfl, hd, collect_notdue s f e hm hd, collected_notdue s f e hm hd⟩)
    · exact Or.inr (Or.inr ⟨e, rfl, by omega, collect_due s f e hm hd, collected_due s f e hm hd⟩)

@[simp] theorem collectStep_time (s : S) (e : Ent) : (collectStep s e).time = s.time := stop_time s e.id
@[simp] theorem collectStep_counter (s : S) (e : Ent) : (collectStep s e).counter = s.counter :=
  stop_counter s e.id
@[simp] theorem collectStep_ncb (s : S) (e : Ent) : (collectStep s e).ncb = s.ncb := stop_ncb s e.id
@[simp] theorem collectStep_trace (s : S) (e : Ent) : (collectStep s e).trace = s.trace := stop_trace s e.id
@[simp] theorem collectStep_size (s : S) (e : Ent) : (collectStep s e).ts.size = s.ts.size := stop_size s e.id
theorem collectStep_getT (s : S) (e : Ent) (j : Nat) : getT (collectStep s e) j = getT (stop s e.id) j := rfl

/-- effect of one round on a well-formed state whose root is `e` -/
theorem collectStep_spec (s : S) (e : Ent) (hw : WF s) (hm : min? s.heap = some e) :
    WF (collectStep s e) ∧ s.heap.toList.Perm (e :: (collectStep s e).heap.toList)
      ∧ (collectStep s e).ready = s.ready ++ [e.id]
      ∧ (collectStep s e).heap.size + 1 = s.heap.size := by
  have hmem := min?_mem s.heap e hm
  have hent := hw.ent e hmem
  obtain ⟨i, hlt, hid, hh, hr⟩ := stop_active_heap s e.id hw hent.1
  have hgi : g s.heap i = e :=
    nodup_map_inj _ _ hw.idNodup _ ((mem_heap_iff _ _).2 ⟨i, hlt, rfl⟩) e hmem hid
  have hw1 := stop_wf s e.id hw
  have hnr := stop_not_ready s e.id hw
  refine ⟨?_, ?_, ?_, ?_⟩
  · refine ⟨hw1.time_lt, hw1.inv, hw1.ent, hw1.act, hw1.idNodup, hw1.sidNodup, ?_, ?_, hw1.closing,
      hw1.actCb⟩
    · intro j hj
      rcases List.mem_append.1 hj with h | h
      · exact hw1.rdy j h
      · rw [List.mem_singleton.1 h, collectStep_getT, stop_getT, if_pos rfl]
        refine ⟨rfl, ?_, hw.actCb _ hent.1⟩
        cases hc : (getT s e.id).closing with
        | false => rfl
        | true => have := hw.closing _ hc; rw [hent.1] at this; cases this
    · show ((stop s e.id).ready ++ [e.id]).Nodup
      rw [List.nodup_append]
      refine ⟨hw1.rdyNodup, by simp, ?_⟩
      intro a ha b hb hab
      rw [List.mem_singleton.1 hb] at hab
      exact hnr (hab ▸ ha)
  · have P := remove_perm s.heap i hlt
    rw [hgi, ← hh] at P
    exact P
  · show (stop s e.id).ready ++ [e.id] = _
    rw [hr]
  · show (stop s e.id).heap.size + 1 = _
    rw [hh, remove_size _ _ hlt]; omega

theorem collect_wf (s : S) (f : Nat) (hw : WF s) : WF (collect s f) := by
  induction f generalizing s with
  | zero => exact hw
  | succ f ih =>
    rcases collect_cases s f with ⟨_, h, _⟩ | ⟨e, _, _, h, _⟩ | ⟨e, hm, _, h, _⟩
    · rw [h]; exact hw
    · rw [h]; exact hw
    · rw [h]; exact ih _ (collectStep_spec s e hw hm).1

/-- `collect` touches neither the clock, the counter, the callback count nor the trace -/
theorem collect_fields (s : S) (f : Nat) :
    (collect s f).time = s.time ∧ (collect s f).counter = s.counter ∧ (collect s f).ncb = s.ncb
      ∧ (collect s f).trace = s.trace ∧ (collect s f).ts.size = s.ts.size := by
  induction f generalizing s with
  | zero => exact ⟨rfl, rfl, rfl, rfl, rfl⟩
  | succ f ih =>
    rcases collect_cases s f with ⟨_, h, _⟩ | ⟨e, _, _, h, _⟩ | ⟨e, hm, _, h, _⟩
    · rw [h]; exact ⟨rfl, rfl, rfl, rfl, rfl⟩
    · rw [h]; exact ⟨rfl, rfl, rfl, rfl, rfl⟩
    · rw [h]; simpa using ih (collectStep s e)

/-- the ready queue after `collect` is the old one followed by the collected ids, in order -/
theorem collect_ready (s : S) (f : Nat) (hw : WF s) :
    (collect s f).ready = s.ready ++ (collected s f).map (·.id) := by
  induction f generalizing s with
  | zero => simp [collect, collected]
  | succ f ih =>
    rcases collect_cases s f with ⟨_, h, h'⟩ | ⟨e, _, _, h, h'⟩ | ⟨e, hm, _, h, h'⟩
    · rw [h, h']; simp
    · rw [h, h']; simp
    · have sp := collectStep_spec s e hw hm
      rw [h, h', ih _ sp.1, sp.2.2.1]; simp

/-- the collected entries plus the remaining heap are the old heap (as multisets) -/
theorem collect_perm (s : S) (f : Nat) (hw : WF s) :
    s.heap.toList.Perm (collected s f ++ (collect s f).heap.toList) := by
  induction f generalizing s with
  | zero => simp [collect, collected]
  | succ f ih =>
    rcases collect_cases s f with ⟨_, h, h'⟩ | ⟨e, _, _, h, h'⟩ | ⟨e, hm, _, h, h'⟩
    · rw [h, h']; simp
    · rw [h, h']; simp
    · have sp := collectStep_spec s e hw hm
      rw [h, h']
      exact sp.2.1.trans (List.Perm.cons e (ih _ sp.1))

/-- every collected entry was due -/
theorem collected_due_le (s : S) (f : Nat) : ∀ e ∈ collected s f, e.timeout ≤ s.time := by
  induction f generalizing s with
  | zero => intro e he; simp [collected] at he
  | succ f ih =>
    rcases collect_cases s f with ⟨_, _, h'⟩ | ⟨e, _, _, _, h'⟩ | ⟨e, hm, hd, _, h'⟩
    · rw [h']; intro e he; cases he
    · rw [h']; intro e he; cases he
    · rw [h']; intro x hx
      rcases List.mem_cons.1 hx with rfl | hx
      · exact hd
      · simpa using ih (collectStep s e) x hx

/-- the collected entries come out strictly increasing in `(timeout, startId)` -/
theorem collected_sorted (s : S) (f : Nat) (hw : WF s) :
    (collected s f).Pairwise (fun a b => lt a b = true) := by
  induction f generalizing s with
  | zero => simp [collected]
  | succ f ih =>
    rcases collect_cases s f with ⟨_, _, h'⟩ | ⟨e, _, _, _, h'⟩ | ⟨e, hm, hd, _, h'⟩
    · rw [h']; exact List.Pairwise.nil
    · rw [h']; exact List.Pairwise.nil
    · have sp := collectStep_spec s e hw hm
      rw [h', List.pairwise_cons]
      refine ⟨?_, ih _ sp.1⟩
      intro x hx
      have hx1 : x ∈ (collectStep s e).heap.toList :=
        (collect_perm _ f sp.1).mem_iff.2 (List.mem_append_left _ hx)
      have hx0 : x ∈ s.heap.toList := sp.2.1.mem_iff.2 (List.mem_cons_of_mem _ hx1)
      have hnd := (sp.2.1.map (·.id)).nodup_iff.1 hw.idNodup
      rw [List.map_cons, List.nodup_cons] at hnd
      have hne : e ≠ x := by
        intro h; subst h
        exact hnd.1 (List.mem_map.2 ⟨_, hx1, rfl⟩)
      exact hw.lt_of_le e x (min?_mem _ _ hm) hx0 hne (min?_le _ hw.inv e x hm hx0)

/-- with enough fuel nothing due is left behind -/
theorem collect_none_due (s : S) (f : Nat) (hw : WF s) (hf : s.heap.size < f) :
    ∀ e ∈ (collect s f).heap.toList, e.timeout > s.time := by
  induction f generalizing s with
  | zero => omega
  | succ f ih =>
    rcases collect_cases s f with ⟨hm, h, _⟩ | ⟨e, hm, hd, h, _⟩ | ⟨e, hm, _, h, _⟩
    · rw [h]; intro x hx
      have := min?_none _ hm
      obtain ⟨j, hj, _⟩ := (mem_heap_iff _ _).1 hx
      omega
    · rw [h]; intro x hx
      have := min?_le _ hw.inv e x hm hx
      rw [lt_eq_false_iff] at this
      omega
    · have sp := collectStep_spec s e hw hm
      rw [h]
      simpa using ih _ sp.1 (by have := sp.2.2.2; omega)

/-- fuel beyond `heap.size + 1` changes nothing -/
theorem collect_fuel (s : S) (f f' : Nat) (hw : WF s) (hf : s.heap.size < f) (hf' : s.heap.size < f') :
    collect s f = collect s f' ∧ collected s f = collected s f' := by
  induction f generalizing s f' with
  | zero => omega
  | succ f ih =>
    cases f' with
    | zero => omega
    | succ f' =>
      rcases collect_cases s f with ⟨hm, h, h'⟩ | ⟨e, hm, hd, h, h'⟩ | ⟨e, hm, hd, h, h'⟩
      · rw [h, h', collect_none s f' hm, collected_none s f' hm]; exact ⟨rfl, rfl⟩
      · rw [h, h', collect_notdue s f' e hm hd, collected_notdue s f' e hm hd]; exact ⟨rfl, rfl⟩
      · have sp := collectStep_spec s e hw hm
        rw [h, h', collect_due s f' e hm (by omega), collected_due s f' e hm (by omega)]
        have := ih (collectStep s e) f' sp.1 (by have := sp.2.2.2; omega) (by have := sp.2.2.2; omega)
        rw [this.1, this.2]; exact ⟨rfl, rfl⟩

/-! ### second loop of `uv__run_timers` -/

/-- every operation of every callback of the script names an existing handle -/
def ScriptOk (n : Nat) (sc : Script) : Prop := ∀ k, ∀ o ∈ sc k, o.id < n

/-- state in which the callback of `id` starts: popped from the ready queue, `uv_timer_again` done,
    invocation recorded -/
def preCb (s : S) (id : Nat) (rest : List Nat) : S :=
  let s1 := (again { s with ready := rest } id).1
  { s1 with ncb := s1.ncb + 1, trace := (id, s1.time) :: s1.trace }

/-- one round of the second loop, including the scripted callback -/
def fireStep (sc : Script) (s : S) (id : Nat) (rest : List Nat) : S :=
  (sc (again { s with ready := rest } id).1.ncb).foldl applyOp (preCb s id rest)

/-- ids whose callback `fire` invokes, in invocation order -/
def fired (sc : Script) (s : S) : Nat → List Nat
  | 0 => []
  | fuel + 1 =>
    match s.ready with
    | [] => []
    | id :: rest => id :: fired sc (fireStep sc s id rest) fuel

theorem fire_nil (sc : Script) (s : S) (f : Nat) (h : s.ready = []) : fire sc s (f + 1) = s := by
  simp [fire, h]
theorem fire_cons (sc : Script) (s : S) (f : Nat) (id : Nat) (rest : List Nat) (h : s.ready = id :: rest) :
    fire sc s (f + 1) = fire sc (fireStep sc s id rest) f := by
  simp only [fire, h]; rfl
theorem fired_nil (sc : Script) (s : S) (f : Nat) (h : s.ready = []) : fired sc s (f + 1) = [] := by
  simp [fired, h]
theorem fired_cons (sc : Script) (s : S) (f : Nat) (id : Nat) (rest : List Nat) (h : s.ready = id :: rest) :
    fired sc s (f + 1) = id :: fired sc (fireStep sc s id rest) f := by
  simp only [fired, h]

theorem preCb_same_but (s : S) (id : Nat) (rest : List Nat) :
    (preCb s id rest).time = s.time ∧ (preCb s id rest).ncb = s.ncb + 1
      ∧ (preCb s id rest).trace = (id, s.time) :: s.trace ∧ (preCb s id rest).ts.size = s.ts.size
      ∧ (preCb s id rest).ready.Sublist rest := by
  have h := again_same { s with ready := rest } id
  unfold preCb
  refine ⟨h.time, ?_, ?_, h.size, h.ready⟩
  · show _ + 1 = _; rw [h.ncb]
  · show (id, _) :: _ = _; rw [h.time, h.trace]

theorem fireStep_fields (sc : Script) (s : S) (id : Nat) (rest : List Nat) :
    (fireStep sc s id rest).time = s.time ∧ (fireStep sc s id rest).ncb = s.ncb + 1
      ∧ (fireStep sc s id rest).trace = (id, s.time) :: s.trace
      ∧ (fireStep sc s id rest).ts.size = s.ts.size
      ∧ (fireStep sc s id rest).ready.Sublist rest := by
  have h := preCb_same_but s id rest
  have h2 := ops_same (sc (again { s with ready := rest } id).1.ncb) (preCb s id rest)
  unfold fireStep
  exact ⟨h2.time.trans h.1, h2.ncb.trans h.2.1, h2.trace.trans h.2.2.1, h2.size.trans h.2.2.2.1,
    h2.ready.trans h.2.2.2.2⟩

theorem preCb_wf (s : S) (id : Nat) (rest : List Nat) (hw : WF s) (hr : s.ready = id :: rest) :
    WF (preCb s id rest) := by
  unfold preCb
  exact (again_wf _ id (hw.ready_sub rest (hr ▸ List.sublist_cons_self id rest))).ncb_trace _ _

theorem fireStep_wf (sc : Script) (s : S) (id : Nat) (rest : List Nat) (hw : WF s)
    (hr : s.ready = id :: rest) (hsc : ScriptOk s.ts.size sc) : WF (fireStep sc s id rest) := by
  unfold fireStep
  refine ops_wf _ _ (preCb_wf s id rest hw hr) ?_
  intro o ho
  rw [(preCb_same_but s id rest).2.2.2.1]
  exact hsc _ o ho

theorem fire_wf (sc : Script) (s : S) (f : Nat) (hw : WF s) (hsc : ScriptOk s.ts.size sc) :
    WF (fire sc s f) := by
  induction f generalizing s with
  | zero => exact hw
  | succ f ih =>
    cases hr : s.ready with
    | nil => rw [fire_nil sc s f hr]; exact hw
    | cons id rest =>
      rw [fire_cons sc s f id rest hr]
      refine ih _ (fireStep_wf sc s id rest hw hr hsc) ?_
      rw [(fireStep_fields sc s id rest).2.2.2.1]; exact hsc

theorem fire_fields (sc : Script) (s : S) (f : Nat) :
    (fire sc s f).time = s.time ∧ (fire sc s f).ts.size = s.ts.size
      ∧ (fire sc s f).ncb = s.ncb + (fired sc s f).length := by
  induction f generalizing s with
  | zero => exact ⟨rfl, rfl, rfl⟩
  | succ f ih =>
    cases hr : s.ready with
    | nil => rw [fire_nil sc s f hr, fired_nil sc s f hr]; exact ⟨rfl, rfl, rfl⟩
    | cons id rest =>
      rw [fire_cons sc s f id rest hr, fired_cons sc s f id rest hr]
      have h := fireStep_fields sc s id rest
      have := ih (fireStep sc s id rest)
      refine ⟨this.1.trans h.1, this.2.1.trans h.2.2.2.1, ?_⟩
      rw [this.2.2, h.2.1, List.length_cons]; omega

/-- the trace grows by exactly the fired ids, each stamped with the (unchanged) loop time -/
theorem fire_trace (sc : Script) (s : S) (f : Nat) :
    (fire sc s f).trace = ((fired sc s f).map (fun id => (id, s.time))).reverse ++ s.trace := by
  induction f generalizing s with
  | zero => simp [fire, fired]
  | succ f ih =>
    cases hr : s.ready with
    | nil => rw [fire_nil sc s f hr, fired_nil sc s f hr]; simp
    | cons id rest =>
      rw [fire_cons sc s f id rest hr, fired_cons sc s f id rest hr, ih]
      have h := fireStep_fields sc s id rest
      rw [h.1, h.2.2.1]
      simp

/-- callbacks never add to the ready queue: what is fired is a subsequence of the ready queue -/
theorem fired_sublist (sc : Script) (s : S) (f : Nat) : (fired sc s f).Sublist s.ready := by
  induction f generalizing s with
  | zero => simp [fired]
  | succ f ih =>
    cases hr : s.ready with
    | nil => rw [fired_nil sc s f hr]; exact List.Sublist.refl _
    | cons id rest =>
      rw [fired_cons sc s f id rest hr]
      exact ((ih _).trans (fireStep_fields sc s id rest).2.2.2.2).cons_cons id

theorem fire_fuel (sc : Script) (s : S) (f f' : Nat) (hf : s.ready.length < f) (hf' : s.ready.length < f') :
    fire sc s f = fire sc s f' ∧ fired sc s f = fired sc s f' := by
  induction f generalizing s f' with
  | zero => omega
  | succ f ih =>
    cases f' with
    | zero => omega
    | succ f' =>
      cases hr : s.ready with
      | nil =>
        rw [fire_nil sc s f hr, fired_nil sc s f hr, fire_nil sc s f' hr, fired_nil sc s f' hr]
        exact ⟨rfl, rfl⟩
      | cons id rest =>
        rw [fire_cons sc s f id rest hr, fired_cons sc s f id rest hr, fire_cons sc s f' id rest hr,
          fired_cons sc s f' id rest hr]
        have hl := (fireStep_fields sc s id rest).2.2.2.2.length_le
        rw [hr, List.length_cons] at hf hf'
        have := ih (fireStep sc s id rest) f' (by omega) (by omega)
        rw [this.1, this.2]; exact ⟨rfl, rfl⟩

theorem fire_ready_empty (sc : Script) (s : S) (f : Nat) (hf : s.ready.length < f) :
    (fire sc s f).ready = [] := by
  induction f generalizing s with
  | zero => omega
  | succ f ih =>
    cases hr : s.ready with
    | nil => rw [fire_nil sc s f hr]; exact hr
    | cons id rest =>
      rw [fire_cons sc s f id rest hr]
      have hl := (fireStep_fields sc s id rest).2.2.2.2.length_le
      rw [hr, List.length_cons] at hf
      exact ih _ (by omega)

/-! ### a whole pass -/

/-- entries collected by one `uv__run_timers` pass -/
def runCollected (s : S) : List Ent := collected s (s.heap.size + 1)
/-- ids whose callbacks one `uv__run_timers` pass invokes, in order -/
def runFired (sc : Script) (s : S) : List Nat :=
  fired sc (collect s (s.heap.size + 1)) ((collect s (s.heap.size + 1)).ready.length + 1)

theorem runTimers_eq (sc : Script) (s : S) :
    runTimers sc s = fire sc (collect s (s.heap.size + 1)) ((collect s (s.heap.size + 1)).ready.length + 1) := rfl

theorem runTimers_wf (sc : Script) (s : S) (hw : WF s) (hsc : ScriptOk s.ts.size sc) :
    WF (runTimers sc s) := by
  rw [runTimers_eq]
  refine fire_wf sc _ _ (collect_wf s _ hw) ?_
  rw [(collect_fields s _).2.2.2.2]; exact hsc

theorem runTimers_ready (sc : Script) (s : S) : (runTimers sc s).ready = [] := by
  rw [runTimers_eq]; exact fire_ready_empty sc _ _ (by omega)

theorem runTimers_fields (sc : Script) (s : S) :
    (runTimers sc s).time = s.time ∧ (runTimers sc s).ts.size = s.ts.size := by
  rw [runTimers_eq]
  have h := fire_fields sc (collect s (s.heap.size + 1)) ((collect s (s.heap.size + 1)).ready.length + 1)
  have h2 := collect_fields s (s.heap.size + 1)
  exact ⟨h.1.trans h2.1, h.2.1.trans h2.2.2.2.2⟩

theorem runTimers_trace (sc : Script) (s : S) :
    (runTimers sc s).trace = ((runFired sc s).map (fun id => (id, s.time))).reverse ++ s.trace := by
  rw [runTimers_eq, fire_trace]
  have h2 := collect_fields s (s.heap.size + 1)
  rw [h2.1, h2.2.2.2.1]; rfl

theorem runFired_sublist (sc : Script) (s : S) (hw : WF s) (hr : s.ready = []) :
    (runFired sc s).Sublist ((runCollected s).map (·.id)) := by
  have h := fired_sublist sc (collect s (s.heap.size + 1)) ((collect s (s.heap.size + 1)).ready.length + 1)
  have e : (collect s (s.heap.size + 1)).ready = (runCollected s).map (·.id) := by
    rw [collect_ready s _ hw, hr, List.nil_append]; rfl
  rw [← e]; exact h

/-! ### handles that nobody re-arms stay inactive -/

theorem stop_getT_ne (s : S) (i j : Nat) (h : j ≠ i) : getT (stop s i) j = getT s j := by
  rw [stop_getT, if_neg h]

theorem start_getT_ne (s : S) (i to rp j : Nat) (h : j ≠ i) : getT (start s i to rp).1 j = getT s j := by
  rw [start_eq]; split
  · rfl
  · show getT (arm _ _ _ _) j = _
    rw [arm_getT]; simp only [h, false_and, if_false]; exact stop_getT_ne s i j h

theorem again_getT_ne (s : S) (i j : Nat) (h : j ≠ i) : getT (again s i).1 j = getT s j := by
  rw [again_eq]; split
  · rfl
  · split
    · show getT (start _ _ _ _).1 j = _
      rw [start_getT_ne _ _ _ _ _ h, stop_getT_ne s i j h]
    · rfl

theorem close_getT (s : S) (i j : Nat) :
    getT (close s i) j = if j = i ∧ i < s.ts.size then { getT (stop s i) i with closing := true }
      else getT (stop s i) j := by
  unfold close; rw [getT_setT, stop_size]

/-- does the operation (re)arm handle `id`? -/
def Op.rearms (id : Nat) : Op → Bool
  | .start i _ _ => i == id
  | .again i => i == id
  | _ => false

theorem applyOp_stays_inactive (s : S) (o : Op) (id : Nat) (h : (getT s id).active = false)
    (hn : o.rearms id = false) : (getT (applyOp s o) id).active = false := by
  cases o with
  | start i to rp =>
    have : id ≠ i := by intro e; simp [Op.rearms, e] at hn
    show (getT (start s i to rp).1 id).active = false
    rw [start_getT_ne _ _ _ _ _ this]; exact h
  | stop i =>
    show (getT (stop s i) id).active = false
    rw [stop_getT]; split
    · rfl
    · exact h
  | again i =>
    have : id ≠ i := by intro e; simp [Op.rearms, e] at hn
    show (getT (again s i).1 id).active = false
    rw [again_getT_ne _ _ _ this]; exact h
  | setRepeat i rp =>
    show (getT (setRepeat s i rp) id).active = false
    simpa using h
  | close i =>
    show (getT (close s i) id).active = false
    rw [close_getT]; split
    · exact stop_inactive_after s i
    · rw [stop_getT]; split
      · rfl
      · exact h

theorem ops_stays_inactive (ops : List Op) (s : S) (id : Nat) (h : (getT s id).active = false)
    (hn : ∀ o ∈ ops, o.rearms id = false) : (getT (ops.foldl applyOp s) id).active = false := by
  induction ops generalizing s with
  | nil => exact h
  | cons o r ih =>
    exact ih _ (applyOp_stays_inactive s o id h (hn o List.mem_cons_self))
      (fun o' ho' => hn o' (List.mem_cons_of_mem _ ho'))

theorem collect_active_mono (s : S) (f : Nat) (j : Nat) (h : (getT (collect s f) j).active = true) :
    (getT s j).active = true := by
  induction f generalizing s with
  | zero => exact h
  | succ f ih =>
    rcases collect_cases s f with ⟨_, h', _⟩ | ⟨e, _, _, h', _⟩ | ⟨e, hm, _, h', _⟩
    · rw [h'] at h; exact h
    · rw [h'] at h; exact h
    · rw [h'] at h
      have := ih _ h
      rw [collectStep_getT, stop_getT] at this
      split at this
      · cases this
      · exact this

theorem collected_active (s : S) (f : Nat) (hw : WF s) :
    ∀ e ∈ collected s f, e ∈ s.heap.toList ∧ (getT s e.id).active = true := by
  intro e he
  have hm : e ∈ s.heap.toList := (collect_perm s f hw).mem_iff.2 (List.mem_append_left _ he)
  exact ⟨hm, (hw.ent e hm).1⟩

theorem fire_stays_inactive (sc : Script) (s : S) (f : Nat) (id : Nat) (hi : (getT s id).active = false)
    (hr : id ∉ s.ready) (hsc : ∀ k, ∀ o ∈ sc k, o.rearms id = false) :
    (getT (fire sc s f) id).active = false := by
  induction f generalizing s with
  | zero => exact hi
  | succ f ih =>
    cases hrd : s.ready with
    | nil => rw [fire_nil sc s f hrd]; exact hi
    | cons i rest =>
      rw [fire_cons sc s f i rest hrd]
      rw [hrd] at hr
      have hne : id ≠ i := fun e => hr (e ▸ List.mem_cons_self)
      refine ih _ ?_ ?_
      · unfold fireStep
        refine ops_stays_inactive _ _ id ?_ (hsc _)
        show (getT (again { s with ready := rest } i).1 id).active = false
        rw [again_getT_ne _ _ _ hne]; exact hi
      · intro h
        exact hr (List.mem_cons_of_mem _ ((fireStep_fields sc s i rest).2.2.2.2.subset h))

/-! ### re-arming inside the pass -/

theorem arm_heap_mem (s : S) (id to rp : Nat) :
    (⟨clampC s.time to, s.counter, id⟩ : Ent) ∈ (arm s id to rp).heap.toList :=
  (insert_perm s.heap ⟨clampC s.time to, s.counter, id⟩).mem_iff.2 List.mem_cons_self

theorem again_rearm_eq (s : S) (id : Nat) (hcb : (getT s id).hasCb = true) (hrep : (getT s id).rep ≠ 0)
    (hc : (getT s id).closing = false) :
    (again s id).1 = arm (stop (stop s id) id) id (getT s id).rep (getT s id).rep := by
  rw [again_eq, if_neg (by simp [hcb]), if_pos hrep, start_eq, if_neg]
  rw [stop_getT, if_pos rfl]; simp [hc]

theorem again_norep_eq (s : S) (id : Nat) (hrep : (getT s id).rep = 0) : (again s id).1 = s := by
  rw [again_eq]; split
  · rfl
  · rw [if_neg (by simp [hrep])]

/-! ### event lists: operations from outside callbacks, clock updates, timer passes -/

inductive Ev where
  | op (o : Op)
  | time (t : Nat)
  | run (sc : Script)

def step (s : S) : Ev → S
  | .op o => applyOp s o
  | .time t => updateTime s t
  | .run sc => runTimers sc s

def exec (s : S) (evs : List Ev) : S := evs.foldl step s

/-- every handle id mentioned by the event exists (`n` handles) -/
def Ev.ok (n : Nat) : Ev → Prop
  | .op o => o.id < n
  | .time _ => True
  | .run sc => ScriptOk n sc

/-- `n` initialised, never started timer handles -/
def init (n : Nat) : S := { ts := Array.replicate n {} }

theorem init_getT (n id : Nat) : getT (init n) id = {} := by
  rw [getT_def]
  show (Array.replicate n ({} : T))[id]?.getD default = _
  rw [Array.getElem?_replicate]
  split <;> rfl

theorem init_wf (n : Nat) : WF (init n) := by
  refine ⟨Nat.two_pow_pos 64, ?_, ?_, ?_, ?_, ?_, ?_, ?_, ?_, ?_⟩
  · intro i _ hi; exact absurd hi (by simp [init])
  · intro e he; simp [init] at he
  · intro id h; rw [init_getT] at h; cases h
  · simp [init]
  · simp [init]
  · intro id h; simp [init] at h
  · simp [init]
  · intro id h; rw [init_getT] at h; cases h
  · intro id h; rw [init_getT] at h; cases h

theorem updateTime_wf (s : S) (t : Nat) (hw : WF s) : WF (updateTime s t) :=
  ⟨Nat.mod_lt _ (by decide), hw.inv, hw.ent, hw.act, hw.idNodup, hw.sidNodup, hw.rdy, hw.rdyNodup,
   hw.closing, hw.actCb⟩

theorem step_wf (s : S) (ev : Ev) (hw : WF s) (hr : s.ready = []) (hok : ev.ok s.ts.size) :
    WF (step s ev) ∧ (step s ev).ready = [] ∧ (step s ev).ts.size = s.ts.size := by
  cases ev with
  | op o =>
    refine ⟨applyOp_wf s o hw hok, ?_, (applyOp_same s o).size⟩
    have := (applyOp_same s o).ready
    rw [hr] at this
    exact List.sublist_nil.1 this
  | time t => exact ⟨updateTime_wf s t hw, hr, rfl⟩
  | run sc => exact ⟨runTimers_wf sc s hw hok, runTimers_ready sc s, (runTimers_fields sc s).2⟩

theorem exec_wf (s : S) (evs : List Ev) (hw : WF s) (hr : s.ready = [])
    (hok : ∀ ev ∈ evs, ev.ok s.ts.size) :
    WF (exec s evs) ∧ (exec s evs).ready = [] ∧ (exec s evs).ts.size = s.ts.size := by
  induction evs generalizing s with
  | nil => exact ⟨hw, hr, rfl⟩
  | cons ev r ih =>
    have h1 := step_wf s ev hw hr (hok ev List.mem_cons_self)
    have := ih (step s ev) h1.1 h1.2.1 (fun e he => h1.2.2 ▸ hok e (List.mem_cons_of_mem _ he))
    exact ⟨this.1, this.2.1, this.2.2.trans h1.2.2⟩

/-! ### who can be fired by a pass -/

theorem runCollected_mem (s : S) (hw : WF s) (hr : s.ready = []) :
    ∀ id ∈ (collect s (s.heap.size + 1)).ready, ∃ e ∈ s.heap.toList, e.id = id ∧ e.timeout ≤ s.time
      ∧ (getT s id).active = true ∧ (getT s id).timeout = e.timeout := by
  intro id hid
  rw [collect_ready s _ hw, hr, List.nil_append] at hid
  obtain ⟨e, he, rfl⟩ := List.mem_map.1 hid
  have h1 := collected_active s _ hw e he
  exact ⟨e, h1.1, rfl, collected_due_le s _ e he, h1.2, (hw.ent e h1.1).2.1⟩

theorem runFired_mem (sc : Script) (s : S) (hw : WF s) (hr : s.ready = []) :
    ∀ id ∈ runFired sc s, ∃ e ∈ s.heap.toList, e.id = id ∧ e.timeout ≤ s.time
      ∧ (getT s id).active = true ∧ (getT s id).timeout = e.timeout := by
  intro id hid
  exact runCollected_mem s hw hr id ((fired_sublist sc _ _).subset hid)

theorem runTimers_stays_inactive (sc : Script) (s : S) (id : Nat) (hw : WF s) (hr : s.ready = [])
    (hi : (getT s id).active = false) (hsc : ∀ k, ∀ o ∈ sc k, o.rearms id = false) :
    (getT (runTimers sc s) id).active = false := by
  rw [runTimers_eq]
  refine fire_stays_inactive sc _ _ id ?_ ?_ hsc
  · cases h : (getT (collect s (s.heap.size + 1)) id).active with
    | false => rfl
    | true => have := collect_active_mono s _ id h; rw [hi] at this; cases this
  · intro h
    obtain ⟨e, _, _, _, ha, _⟩ := runCollected_mem s hw hr id h
    rw [hi] at ha; cases ha

/-! ### `closing` is never reset -/

theorem stop_closing (s : S) (i j : Nat) : (getT (stop s i) j).closing = (getT s j).closing := by
  rw [stop_getT]; split
  · rename_i h; rw [h]
  · rfl

theorem arm_closing (s : S) (i to rp j : Nat) : (getT (arm s i to rp) j).closing = (getT s j).closing := by
  rw [arm_getT]; split
  · rename_i h; rw [h.1]
  · rfl

theorem start_closing (s : S) (i to rp j : Nat) :
    (getT (start s i to rp).1 j).closing = (getT s j).closing := by
  rw [start_eq]; split
  · rfl
  · show (getT (arm _ _ _ _) j).closing = _
    rw [arm_closing, stop_closing]

theorem again_closing (s : S) (i j : Nat) : (getT (again s i).1 j).closing = (getT s j).closing := by
  rw [again_eq]; split
  · rfl
  · split
    · show (getT (start _ _ _ _).1 j).closing = _
      rw [start_closing, stop_closing]
    · rfl

theorem applyOp_closing_mono (s : S) (o : Op) (j : Nat) (h : (getT s j).closing = true) :
    (getT (applyOp s o) j).closing = true := by
  cases o with
  | start i to rp => show (getT (start s i to rp).1 j).closing = true; rw [start_closing]; exact h
  | stop i => show (getT (stop s i) j).closing = true; rw [stop_closing]; exact h
  | again i => show (getT (again s i).1 j).closing = true; rw [again_closing]; exact h
  | setRepeat i rp => show (getT (setRepeat s i rp) j).closing = true; simpa using h
  | close i =>
    show (getT (close s i) j).closing = true
    rw [close_getT]; split
    · rfl
    · rw [stop_closing]; exact h

theorem ops_closing_mono (ops : List Op) (s : S) (j : Nat) (h : (getT s j).closing = true) :
    (getT (ops.foldl applyOp s) j).closing = true := by
  induction ops generalizing s with
  | nil => exact h
  | cons o r ih => exact ih _ (applyOp_closing_mono s o j h)

theorem collect_closing (s : S) (f : Nat) (j : Nat) :
    (getT (collect s f) j).closing = (getT s j).closing := by
  induction f generalizing s with
  | zero => rfl
  | succ f ih =>
    rcases collect_cases s f with ⟨_, h', _⟩ | ⟨e, _, _, h', _⟩ | ⟨e, hm, _, h', _⟩
    · rw [h']
    · rw [h']
    · rw [h', ih, collectStep_getT, stop_closing]

theorem fire_closing_mono (sc : Script) (s : S) (f : Nat) (j : Nat) (h : (getT s j).closing = true) :
    (getT (fire sc s f) j).closing = true := by
  induction f generalizing s with
  | zero => exact h
  | succ f ih =>
    cases hrd : s.ready with
    | nil => rw [fire_nil sc s f hrd]; exact h
    | cons i rest =>
      rw [fire_cons sc s f i rest hrd]
      refine ih _ ?_
      unfold fireStep
      refine ops_closing_mono _ _ j ?_
      show (getT (again { s with ready := rest } i).1 j).closing = true
      rw [again_closing]; exact h

theorem step_closing_mono (s : S) (ev : Ev) (j : Nat) (h : (getT s j).closing = true) :
    (getT (step s ev) j).closing = true := by
  cases ev with
  | op o => exact applyOp_closing_mono s o j h
  | time t => exact h
  | run sc =>
    show (getT (runTimers sc s) j).closing = true
    rw [runTimers_eq]
    exact fire_closing_mono sc _ _ j (by rw [collect_closing]; exact h)

/-! ### what `start` leaves in the handle -/

theorem start_handle (s : S) (id to rp : Nat) (hlt : id < s.ts.size) (hc : (getT s id).closing = false) :
    (getT (start s id to rp).1 id).active = true ∧
    (getT (start s id to rp).1 id).timeout = clampC s.time to ∧
    (getT (start s id to rp).1 id).rep = rp ∧
    (start s id to rp).2 = 0 := by
  rw [start_eq, if_neg (by simp [hc])]
  show (getT (arm _ _ _ _) id).active = true ∧ (getT (arm _ _ _ _) id).timeout = _ ∧
    (getT (arm _ _ _ _) id).rep = _ ∧ _
  rw [arm_getT, if_pos ⟨rfl, by simpa using hlt⟩]
  simp

/-! ### clock readings -/

/-- the `uv__update_time` readings of the event list are non-decreasing from `lo` and fit 64 bits
    (assumption on CLOCK_MONOTONIC) -/
def TimesOk (lo : Nat) : List Ev → Prop
  | [] => True
  | ev :: r => match ev with
    | .time t => lo ≤ t ∧ t < U64 ∧ TimesOk t r
    | _ => TimesOk lo r

theorem step_time_of_not_time (s : S) (ev : Ev) (h : ∀ t, ev ≠ .time t) : (step s ev).time = s.time := by
  cases ev with
  | op o => exact (applyOp_same s o).time
  | time t => exact absurd rfl (h t)
  | run sc => exact (runTimers_fields sc s).1

theorem timesOk_exec (s : S) (evs : List Ev) (h : TimesOk s.time evs) : s.time ≤ (exec s evs).time := by
  induction evs generalizing s with
  | nil => exact Nat.le_refl _
  | cons ev r ih =>
    show s.time ≤ (exec (step s ev) r).time
    cases ev with
    | op o =>
      have e : (step s (.op o)).time = s.time := (applyOp_same s o).time
      have := ih (step s (.op o)) (by rw [e]; exact h)
      omega
    | run sc =>
      have e : (step s (.run sc)).time = s.time := (runTimers_fields sc s).1
      have := ih (step s (.run sc)) (by rw [e]; exact h)
      omega
    | time t =>
      obtain ⟨h1, h2, h3⟩ := h
      have e : (step s (.time t)).time = t := Nat.mod_eq_of_lt h2
      have := ih (step s (.time t)) (by rw [e]; exact h3)
      omega

theorem timesOk_split (s : S) (a b : List Ev) (h : TimesOk s.time (a ++ b)) :
    TimesOk (exec s a).time b := by
  induction a generalizing s with
  | nil => exact h
  | cons ev r ih =>
    show TimesOk (exec (step s ev) r).time b
    cases ev with
    | op o =>
      have e : (step s (.op o)).time = s.time := (applyOp_same s o).time
      exact ih _ (by rw [e]; exact h)
    | run sc =>
      have e : (step s (.run sc)).time = s.time := (runTimers_fields sc s).1
      exact ih _ (by rw [e]; exact h)
    | time t =>
      obtain ⟨h1, h2, h3⟩ := h
      have e : (step s (.time t)).time = t := Nat.mod_eq_of_lt h2
      exact ih _ (by rw [e]; exact h3)

/-! ### the due time of a handle is only written by `start`/`again` on that handle -/

theorem stop_timeout (s : S) (i j : Nat) : (getT (stop s i) j).timeout = (getT s j).timeout := by
  rw [stop_getT]; split
  · rename_i h; rw [h]
  · rfl

theorem applyOp_timeout_stable (s : S) (o : Op) (id : Nat) (hn : o.rearms id = false) :
    (getT (applyOp s o) id).timeout = (getT s id).timeout := by
  cases o with
  | start i to rp =>
    have : id ≠ i := by intro e; simp [Op.rearms, e] at hn
    show (getT (start s i to rp).1 id).timeout = _
    rw [start_getT_ne _ _ _ _ _ this]
  | stop i => exact stop_timeout s i id
  | again i =>
    have : id ≠ i := by intro e; simp [Op.rearms, e] at hn
    show (getT (again s i).1 id).timeout = _
    rw [again_getT_ne _ _ _ this]
  | setRepeat i rp => exact setRepeat_timeout s i rp id
  | close i =>
    show (getT (close s i) id).timeout = _
    rw [close_getT]; split
    · rename_i h; rw [h.1]; exact stop_timeout s i i
    · exact stop_timeout s i id

theorem ops_timeout_stable (ops : List Op) (s : S) (id : Nat) (hn : ∀ o ∈ ops, o.rearms id = false) :
    (getT (ops.foldl applyOp s) id).timeout = (getT s id).timeout := by
  induction ops generalizing s with
  | nil => rfl
  | cons o r ih =>
    exact (ih _ (fun o' ho' => hn o' (List.mem_cons_of_mem _ ho'))).trans
      (applyOp_timeout_stable s o id (hn o List.mem_cons_self))

theorem collect_timeout (s : S) (f : Nat) (j : Nat) :
    (getT (collect s f) j).timeout = (getT s j).timeout := by
  induction f generalizing s with
  | zero => rfl
  | succ f ih =>
    rcases collect_cases s f with ⟨_, h', _⟩ | ⟨e, _, _, h', _⟩ | ⟨e, hm, _, h', _⟩
    · rw [h']
    · rw [h']
    · rw [h', ih, collectStep_getT, stop_timeout]

theorem fire_timeout_stable (sc : Script) (s : S) (f : Nat) (id : Nat) (hnf : id ∉ fired sc s f)
    (hsc : ∀ k, ∀ o ∈ sc k, o.rearms id = false) :
    (getT (fire sc s f) id).timeout = (getT s id).timeout := by
  induction f generalizing s with
  | zero => rfl
  | succ f ih =>
    cases hrd : s.ready with
    | nil => rw [fire_nil sc s f hrd]
    | cons i rest =>
      rw [fired_cons sc s f i rest hrd, List.mem_cons, not_or] at hnf
      rw [fire_cons sc s f i rest hrd, ih _ hnf.2]
      unfold fireStep
      rw [ops_timeout_stable _ _ id (hsc _)]
      show (getT (again { s with ready := rest } i).1 id).timeout = _
      rw [again_getT_ne _ _ _ hnf.1]; rfl

theorem runTimers_timeout_stable (sc : Script) (s : S) (id : Nat) (hnf : id ∉ runFired sc s)
    (hsc : ∀ k, ∀ o ∈ sc k, o.rearms id = false) :
    (getT (runTimers sc s) id).timeout = (getT s id).timeout := by
  rw [runTimers_eq, fire_timeout_stable sc _ _ id hnf hsc, collect_timeout]

/-- does the event (re)arm handle `id` (from outside or from some callback)? -/
def Ev.rearms (id : Nat) : Ev → Prop
  | .op o => o.rearms id = true
  | .time _ => False
  | .run sc => ∃ k, ∃ o ∈ sc k, o.rearms id = true

theorem Ev.not_rearms_run {id : Nat} {sc : Script} (h : ¬ (Ev.run sc).rearms id) :
    ∀ k, ∀ o ∈ sc k, o.rearms id = false := by
  intro k o ho
  cases h' : o.rearms id with
  | false => rfl
  | true => exact absurd ⟨k, o, ho, h'⟩ h

/-- ids invoked along an event list, in invocation order -/
def execFired (s : S) : List Ev → List Nat
  | [] => []
  | ev :: r => (match ev with
      | .run sc => runFired sc s
      | _ => []) ++ execFired (step s ev) r

/-- the handle ids of the trace are exactly `execFired` (newest first) -/
theorem exec_trace_ids (s : S) (evs : List Ev) :
    (exec s evs).trace.map (·.1) = (execFired s evs).reverse ++ s.trace.map (·.1) := by
  induction evs generalizing s with
  | nil => simp [exec, execFired]
  | cons ev r ih =>
    show (exec (step s ev) r).trace.map (·.1) = _
    rw [ih]
    cases ev with
    | op o =>
      have : (step s (.op o)).trace = s.trace := (applyOp_same s o).trace
      simp [execFired, this]
    | time t =>
      have : (step s (.time t)).trace = s.trace := rfl
      simp [execFired, this]
    | run sc =>
      have : (step s (.run sc)).trace = _ := runTimers_trace sc s
      simp [execFired, this, Function.comp_def]

theorem exec_timeout_stable (s : S) (id : Nat) (evs : List Ev) (hn : ∀ ev ∈ evs, ¬ ev.rearms id)
    (hnf : id ∉ execFired s evs) : (getT (exec s evs) id).timeout = (getT s id).timeout := by
  induction evs generalizing s with
  | nil => rfl
  | cons ev r ih =>
    show (getT (exec (step s ev) r) id).timeout = _
    simp only [execFired, List.mem_append, not_or] at hnf
    rw [ih _ (fun e he => hn e (List.mem_cons_of_mem _ he)) hnf.2]
    have hn1 := hn ev List.mem_cons_self
    cases ev with
    | op o => exact applyOp_timeout_stable s o id (by simpa [Ev.rearms] using hn1)
    | time t => rfl
    | run sc => exact runTimers_timeout_stable sc s id hnf.1 (Ev.not_rearms_run hn1)

/-! ### scenario for the non-vacuity examples of the property file

  three timers: #0 due 10, #1 due 10 repeat 5, #2 due 12; clock at 15.
  The first callback of the pass (timer #0's) stops #1 — which is already
  collected — and restarts #0 itself with timeout 0. -/

def exEvs : List Ev :=
  [.op (.start 0 10 0), .op (.start 1 10 5), .op (.start 2 12 0), .time 15]
def exS : S := exec (init 3) exEvs
def exSc : Script := fun k => if k = 0 then [.stop 1, .start 0 0 0] else []
def noSc : Script := fun _ => []

theorem exSc_ok : ScriptOk 3 exSc := by
  intro k o ho
  unfold exSc at ho
  split at ho
  · simp at ho; rcases ho with rfl | rfl <;> decide
  · cases ho

theorem exEvs_ok : ∀ ev ∈ exEvs ++ [Ev.run exSc], ev.ok 3 := by
  intro ev hev
  simp [exEvs] at hev
  rcases hev with rfl | rfl | rfl | rfl | rfl
  · show 0 < 3; decide
  · show 1 < 3; decide
  · show 2 < 3; decide
  · trivial
  · exact exSc_ok

end UvModel.Timer
