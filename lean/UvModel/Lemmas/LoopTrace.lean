import UvModel.LoopRun
import UvModel.Lemmas.LoopRing
/-!
  No API operation emits a trace event or runs a callback: `tr (applyOp s o).1 = tr s`
  (trace and callback counter).  Events are produced only by `emit` (callbacks, polls, `stepOp`).
-/
namespace UvModel.Loop
open UvModel.HandleKernels

def tr (s : State) : List Event × Nat := (s.trace, s.ncbTotal)

@[simp] theorem tr_modH (s : State) (id : Nat) (g : Handle → Handle) : tr (modH s id g) = tr s := rfl
@[simp] theorem tr_withKernel (s : State) (id : Nat) (k : HK → HK) : tr (withKernel s id k) = tr s := rfl
@[simp] theorem tr_hStart (s : State) (id : Nat) : tr (hStart s id) = tr s := rfl
@[simp] theorem tr_hStop (s : State) (id : Nat) : tr (hStop s id) = tr s := rfl
@[simp] theorem tr_setIo (s : State) (w : W) (io : IoW) : tr (setIo s w io) = tr s := by cases w <;> rfl
@[simp] theorem tr_ioStart (s : State) (w : W) (ev : Nat) : tr (ioStart s w ev) = tr s := by
  unfold ioStart; simp only
  have := tr_setIo s w { getIo s w with pevents := (getIo s w).pevents ||| ev }
  split
  · exact this
  · split
    · exact this
    · simp only [tr, Prod.mk.injEq] at this ⊢; exact this
@[simp] theorem tr_ioStop (s : State) (w : W) (ev : Nat) : tr (ioStop s w ev) = tr s := by
  unfold ioStop; simp only
  split; · rfl
  split
  · have := tr_setIo s w { getIo s w with pevents := 0, events := 0 }
    simp only [tr, Prod.mk.injEq] at this ⊢; exact this
  · have := tr_setIo s w { getIo s w with pevents := clearBits (getIo s w).pevents ev }
    split
    · exact this
    · simp only [tr, Prod.mk.injEq] at this ⊢; exact this
@[simp] theorem tr_invalidate (s : State) (id : Nat) : tr (invalidate s id) = tr s := rfl
@[simp] theorem tr_ioClose (s : State) (id : Nat) : tr (ioClose s id) = tr s := by
  unfold ioClose; simp only
  have := tr_ioStop s (.h id) POLLALL
  split <;> (simp only [tr, invalidate, Prod.mk.injEq] at this ⊢; exact this)
@[simp] theorem tr_ioFeed (s : State) (id : Nat) : tr (ioFeed s id) = tr s := by
  unfold ioFeed; split <;> rfl
@[simp] theorem tr_updateTime (s : State) : tr (updateTime s) = tr s := rfl
@[simp] theorem tr_asyncSend (s : State) (id : Nat) : tr (asyncSend s id) = tr s := by
  unfold asyncSend; split; · rfl
  split <;> rfl
@[simp] theorem tr_udpSendmsg (s : State) (id : Nat) : tr (udpSendmsg s id) = tr s := by
  unfold udpSendmsg; split; · rfl
  split; · rfl
  simp
@[simp] theorem tr_pipeConnectBad (s : State) (id : Nat) : tr (pipeConnectBad s id) = tr s := by
  unfold pipeConnectBad; simp only; rw [tr_ioFeed]; rfl
@[simp] theorem tr_makeClosePending (s : State) (id : Nat) : tr (makeClosePending s id) = tr s := rfl
@[simp] theorem tr_initInotify (s : State) : tr (initInotify s) = tr s := by
  unfold initInotify; split; · rfl
  simp; rfl
@[simp] theorem tr_workSubmit (s : State) (api : Api) : tr (workSubmit s api) = tr s := by
  unfold workSubmit; simp only; split
  · split
    · rfl
    · rw [tr_asyncSend]; rfl
  · rfl
@[simp] theorem tr_ringInit (s : State) : tr (ringInit s) = tr s := by
  unfold ringInit; split <;> rfl
@[simp] theorem tr_submit (s : State) (api : Api) : tr (submit s api) = tr s := by
  unfold submit; simp only; split
  · split
    · unfold ringSubmit; simp only; exact tr_ringInit s
    · rw [tr_workSubmit, tr_ringInit]
  · rw [tr_workSubmit]
@[simp] theorem tr_workCancel (s : State) (r : Nat) : tr (workCancel s r).1 = tr s := by
  unfold workCancel; split
  · simp; rfl
  · split
    · simp; rfl
    · rfl
@[simp] theorem tr_setWList (s : State) (k : WKind) (l : List Nat) : tr (setWList s k l) = tr s := by cases k <;> rfl
@[simp] theorem tr_timerStop (s : State) (id : Nat) : tr (timerStop s id) = tr s := rfl
@[simp] theorem tr_timerStart (s : State) (id a b : Nat) : tr (timerStart s id a b).1 = tr s := by
  unfold timerStart; split; · rfl
  simp only; split <;> rfl
@[simp] theorem tr_timerAgain (s : State) (id : Nat) : tr (timerAgain s id).1 = tr s := by
  unfold timerAgain; simp only
  split; · rfl
  split
  · rw [tr_timerStart, tr_timerStop]
  · rfl
@[simp] theorem tr_watcherStart (s : State) (k : WKind) (id : Nat) : tr (watcherStart s k id) = tr s := by
  unfold watcherStart; split; · rfl
  rw [tr_hStart, tr_setWList]
@[simp] theorem tr_watcherStop (s : State) (k : WKind) (id : Nat) : tr (watcherStop s k id) = tr s := by
  unfold watcherStop; split; · rfl
  simp only; rw [tr_hStop]
  have := tr_setWList s k ((wList s k).filter (· != id))
  simp only [tr, Prod.mk.injEq] at this ⊢; exact this
@[simp] theorem tr_pollStop (s : State) (id : Nat) : tr (pollStop s id) = tr s := by
  show tr (invalidate (hStop (ioStop s (.h id) POLLALL) id) id) = tr s
  simp
@[simp] theorem tr_pollStart (s : State) (id mask : Nat) : tr (pollStart s id mask) = tr s := by
  unfold pollStart; simp only; split <;> simp
@[simp] theorem tr_asyncClose (s : State) (id : Nat) : tr (asyncClose s id) = tr s := rfl
@[simp] theorem tr_streamListen (s : State) (id : Nat) : tr (streamListen s id) = tr s := by
  show tr (hStart (ioStart (modH s id _) (.h id) POLLIN) id) = tr s
  simp
@[simp] theorem tr_streamClose (s : State) (id : Nat) : tr (streamClose s id) = tr s := by
  show tr (modH (hStop (ioClose s id) id) id _) = tr s
  simp
@[simp] theorem tr_udpClose (s : State) (id : Nat) : tr (udpClose s id) = tr s := by
  show tr (modH (hStop (ioClose s id) id) id _) = tr s
  simp
@[simp] theorem tr_udpRecvStart (s : State) (id : Nat) : tr (udpRecvStart s id).1 = tr s := by
  unfold udpRecvStart; split; · rfl
  show tr (hStart (ioStart (modH s id _) (.h id) POLLIN) id) = tr s
  simp
@[simp] theorem tr_udpRecvStop (s : State) (id : Nat) : tr (udpRecvStop s id) = tr s := by
  unfold udpRecvStop; simp only; split <;> simp
@[simp] theorem tr_udpSendEnqueue (s : State) (id : Nat) : tr (udpSendEnqueue s id) = tr s := rfl
@[simp] theorem tr_udpSendKick (s : State) (id : Nat) (a b : Bool) : tr (udpSendKick s id a b) = tr s := by
  unfold udpSendKick
  split
  · simp only
    split
    · simp
    · split <;> simp
  · simp
@[simp] theorem tr_udpSend (s : State) (id : Nat) : tr (udpSend s id) = tr s := by
  unfold udpSend; split; · rfl
  simp
@[simp] theorem tr_fsEventStop (s : State) (id : Nat) : tr (fsEventStop s id) = tr s := by
  unfold fsEventStop; split <;> rfl
@[simp] theorem tr_closeKind (s : State) (k : Kind) (id : Nat) : tr (closeKind s k id) = tr s := by
  cases k <;> simp [closeKind, signalStop]
  · rfl
@[simp] theorem tr_closeH (s : State) (k : Kind) (id : Nat) : tr (closeH s k id) = tr s := by
  show tr (makeClosePending (closeKind (withKernel s id setClosing) k id) id) = tr s
  simp
@[simp] theorem tr_initH (s : State) (k : Kind) : tr (initH s k) = tr s := by
  cases k <;> rfl

/-- no API call emits an event or runs a callback -/
theorem tr_applyOp (s : State) (o : Op) : tr (applyOp s o).1 = tr s := by
  unfold applyOp
  split
  · rfl
  · cases o <;> simp only <;> (repeat' split) <;> first | rfl | simp [ok, illegal, signalStart, signalStop] | (simp [ok]; rfl)

end UvModel.Loop
