import UvModel.ProcFd
/-! helper lemmas for C12: fd-table algebra, lowest-free search, frame/spec lemmas of the two passes -/
namespace UvModel.ProcFd

@[simp] theorem get_set (t : Tab) (fd : Nat) (e : Option Ent) (k : Nat) :
    (t.set fd e).get k = if k = fd then e else t.get k := rfl

theorem wf_set {t : Tab} (h : t.WF) (fd : Nat) (e : Option Ent) : (t.set fd e).WF := by
  intro k hk
  have hk' : max t.bound (fd + 1) ≤ k := hk
  have h1 : k ≠ fd := by omega
  simp [h1]; exact h k (by omega)

theorem lfa_ge (g : Nat → Option Ent) : ∀ fuel n, n ≤ lowestFreeAux g n fuel := by
  intro fuel
  induction fuel with
  | zero => intro n; simp [lowestFreeAux]
  | succ f ih =>
    intro n; simp only [lowestFreeAux]; split
    · omega
    · have := ih (n + 1); omega

theorem lfa_free (g : Nat → Option Ent) :
    ∀ fuel n, lowestFreeAux g n fuel < n + fuel → g (lowestFreeAux g n fuel) = none := by
  intro fuel
  induction fuel with
  | zero => intro n h; simp [lowestFreeAux] at h
  | succ f ih =>
    intro n h; simp only [lowestFreeAux] at h ⊢; split
    · next hn => exact Option.isNone_iff_eq_none.mp hn
    · next hn => simp only [hn] at h; exact ih (n + 1) (by simp at h; omega)

theorem lfa_min (g : Nat → Option Ent) :
    ∀ fuel n k, n ≤ k → k < lowestFreeAux g n fuel → g k ≠ none := by
  intro fuel
  induction fuel with
  | zero => intro n k h1 h2; simp [lowestFreeAux] at h2; omega
  | succ f ih =>
    intro n k h1 h2; simp only [lowestFreeAux] at h2; split at h2
    · omega
    · next hn =>
      by_cases hk : k = n
      · subst hk; intro h0; simp [h0] at hn
      · exact ih (n + 1) k (by omega) h2

theorem lfa_le (g : Nat → Option Ent) : ∀ fuel n, lowestFreeAux g n fuel ≤ n + fuel := by
  intro fuel
  induction fuel with
  | zero => intro n; simp [lowestFreeAux]
  | succ f ih =>
    intro n; simp only [lowestFreeAux]; split
    · omega
    · have := ih (n + 1); omega

theorem lf_ge (t : Tab) (n : Nat) : n ≤ t.lowestFree n := lfa_ge _ _ _

theorem lf_free {t : Tab} (h : t.WF) (n : Nat) : t.get (t.lowestFree n) = none := by
  unfold Tab.lowestFree
  by_cases hlt : lowestFreeAux t.get n (t.bound - n) < n + (t.bound - n)
  · exact lfa_free _ _ _ hlt
  · have := lfa_le t.get (t.bound - n) n
    exact h _ (by omega)

theorem lf_min (t : Tab) (n k : Nat) (h1 : n ≤ k) (h2 : k < t.lowestFree n) : t.get k ≠ none :=
  lfa_min _ _ _ _ h1 h2

/-- the kernel picks exactly `k` when everything in `[n,k)` is open and `k` is closed -/
theorem lf_eq {t : Tab} (h : t.WF) (n k : Nat) (hnk : n ≤ k)
    (hopen : ∀ i, n ≤ i → i < k → t.get i ≠ none) (hk : t.get k = none) : t.lowestFree n = k := by
  have hf := lf_free h n
  have hg := lf_ge t n
  by_cases h1 : t.lowestFree n < k
  · exact absurd hf (hopen _ hg h1)
  · by_cases h2 : k < t.lowestFree n
    · exact absurd hk (lf_min t n k hnk h2)
    · omega

/-- every open descriptor is close-on-exec (what C15 guarantees of the parent at fork time) -/
def AllCx (t : Tab) : Prop := ∀ k e, t.get k = some e → e.cloexec = true

/-- `t'` extends `t`: nothing below `cnt` changed, no open descriptor was changed or closed -/
def Ext (cnt : Nat) (t t' : Tab) : Prop :=
  (∀ k, k < cnt → t'.get k = t.get k) ∧ (∀ k e, t.get k = some e → t'.get k = some e)

theorem Ext.refl (cnt : Nat) (t : Tab) : Ext cnt t t := ⟨fun _ _ => rfl, fun _ _ h => h⟩
theorem Ext.trans {cnt : Nat} {a b c : Tab} (h1 : Ext cnt a b) (h2 : Ext cnt b c) : Ext cnt a c :=
  ⟨fun k hk => (h2.1 k hk).trans (h1.1 k hk), fun k e h => h2.2 k e (h1.2 k e h)⟩

theorem dupfd_props {t : Tab} (hw : t.WF) (hc : AllCx t) (u cnt : Nat) :
    (dupfd t u cnt true).1.WF ∧ AllCx (dupfd t u cnt true).1 ∧ Ext cnt t (dupfd t u cnt true).1 := by
  unfold dupfd
  cases hu : t.get u with
  | none => exact ⟨hw, hc, Ext.refl _ _⟩
  | some e =>
    have hfree := lf_free hw cnt
    have hge := lf_ge t cnt
    refine ⟨wf_set hw _ _, ?_, ?_, ?_⟩
    · intro k e' hk
      simp only [get_set] at hk
      split at hk
      · cases hk; rfl
      · exact hc k e' hk
    · intro k hk
      have : k ≠ t.lowestFree cnt := by omega
      simp [this]
    · intro k e' hk
      have : k ≠ t.lowestFree cnt := by intro h; rw [h, hfree] at hk; cases hk
      simp [this, hk]

theorem dupfd_some {t : Tab} {u cnt n : Nat} {cx : Bool} (h : (dupfd t u cnt cx).2 = some n) :
    cnt ≤ n ∧ ∃ e, t.get u = some e ∧ (dupfd t u cnt cx).1.get n = some ⟨e.file, cx⟩ := by
  unfold dupfd at h ⊢
  cases hu : t.get u with
  | none => simp [hu] at h
  | some e =>
    simp only [hu] at h ⊢
    cases h
    exact ⟨lf_ge t cnt, e, rfl, by simp⟩

theorem dupfd_none {t : Tab} {u cnt : Nat} {cx : Bool} (h : (dupfd t u cnt cx).2 = none) :
    t.get u = none := by
  unfold dupfd at h
  cases hu : t.get u with
  | none => rfl
  | some e => simp [hu] at h

/-! ### first pass -/

theorem pass1_spec (cnt : Nat) : ∀ (p : List Int) (t : Tab) (fd : Nat), fd + p.length ≤ cnt → t.WF → AllCx t →
    (pass1 cnt t fd p).1.WF ∧ AllCx (pass1 cnt t fd p).1 ∧ Ext cnt t (pass1 cnt t fd p).1 ∧
    ((∀ (j : Nat) (u : Int), p[j]? = some u → 0 ≤ u → t.get u.toNat ≠ none) → (pass1 cnt t fd p).2 ≠ none) ∧
    (∀ p', (pass1 cnt t fd p).2 = some p' → p'.length = p.length ∧
      ∀ j u u', p[j]? = some u → p'[j]? = some u' →
        (u < 0 → u' = u) ∧
        (0 ≤ u → ((fd + j : Nat) : Int) ≤ u' ∧
          ∀ e, t.get u.toNat = some e → ∃ c, (pass1 cnt t fd p).1.get u'.toNat = some ⟨e.file, c⟩)) := by
  intro p
  induction p with
  | nil =>
    intro t fd _ hw hc
    simp only [pass1]
    refine ⟨hw, hc, Ext.refl _ _, by simp, ?_⟩
    intro p' hp'; cases hp'; simp
  | cons u rest ih =>
    intro t fd hfc hw hc
    have hfc' : fd + 1 + rest.length ≤ cnt := by simp at hfc; omega
    by_cases hcond : u < 0 ∨ u ≥ fd
    · obtain ⟨iw, ic, ie, iok, ispec⟩ := ih t (fd + 1) hfc' hw hc
      simp only [pass1, hcond, if_true]
      rcases hr : pass1 cnt t (fd + 1) rest with ⟨t', _ | r⟩
      · rw [hr] at iw ic ie iok
        refine ⟨iw, ic, ie, ?_, by simp⟩
        intro hsrc
        exact absurd rfl (iok (fun j u' hj => hsrc (j + 1) u' (by simpa using hj)))
      · rw [hr] at iw ic ie ispec
        refine ⟨iw, ic, ie, by simp, ?_⟩
        intro p' hp'
        simp only [Option.some.injEq] at hp'
        subst hp'
        obtain ⟨hlen, hrel⟩ := ispec r rfl
        refine ⟨by simp [hlen], ?_⟩
        intro j a a' ha ha'
        cases j with
        | zero =>
          simp at ha ha'; subst ha; subst ha'
          refine ⟨fun _ => rfl, fun h0 => ⟨by omega, ?_⟩⟩
          intro e he
          exact ⟨e.cloexec, ie.2 _ e he⟩
        | succ j =>
          simp at ha ha'
          obtain ⟨h1, h2⟩ := hrel j a a' ha ha'
          refine ⟨h1, fun h0 => ?_⟩
          obtain ⟨h3, h4⟩ := h2 h0
          exact ⟨by omega, h4⟩
    · simp only [pass1, hcond, if_false]
      have hu0 : 0 ≤ u := by omega
      obtain ⟨dw, dc, de⟩ := dupfd_props hw hc u.toNat cnt
      rcases hd : dupfd t u.toNat cnt true with ⟨t1, _ | n⟩
      · rw [hd] at dw dc de
        refine ⟨dw, dc, de, ?_, by simp⟩
        intro hsrc
        have hnone : t.get u.toNat = none := dupfd_none (by rw [hd])
        exact absurd hnone (hsrc 0 u (by simp) hu0)
      · rw [hd] at dw dc de
        have hds := dupfd_some (t := t) (u := u.toNat) (cnt := cnt) (n := n) (cx := true) (by rw [hd])
        rw [hd] at hds
        obtain ⟨hn, e0, he0, ht1n⟩ := hds
        simp only at ht1n
        obtain ⟨iw, ic, ie, iok, ispec⟩ := ih t1 (fd + 1) hfc' dw dc
        simp only []
        rcases hr : pass1 cnt t1 (fd + 1) rest with ⟨t', _ | r⟩
        · rw [hr] at iw ic ie iok
          refine ⟨iw, ic, de.trans ie, ?_, by simp⟩
          intro hsrc
          refine absurd rfl (iok (fun j u' hj h0 => ?_))
          have := hsrc (j + 1) u' (by simpa using hj) h0
          intro hcon
          cases hx : t.get u'.toNat with
          | none => exact this hx
          | some e => rw [de.2 _ e hx] at hcon; cases hcon
        · rw [hr] at iw ic ie ispec
          refine ⟨iw, ic, de.trans ie, by simp, ?_⟩
          intro p' hp'
          simp only [Option.some.injEq] at hp'
          subst hp'
          obtain ⟨hlen, hrel⟩ := ispec r rfl
          refine ⟨by simp [hlen], ?_⟩
          intro j a a' ha ha'
          cases j with
          | zero =>
            simp at ha ha'; subst ha; subst ha'
            refine ⟨fun h => by omega, fun _ => ⟨by omega, ?_⟩⟩
            intro e he
            rw [he0] at he; cases he
            exact ⟨true, by simpa using ie.2 _ _ ht1n⟩
          | succ j =>
            simp at ha ha'
            obtain ⟨h1, h2⟩ := hrel j a a' ha ha'
            refine ⟨h1, fun h0 => ?_⟩
            obtain ⟨h3, h4⟩ := h2 h0
            exact ⟨by omega, fun e he => h4 e (de.2 _ e he)⟩

/-! ### second pass -/

/-- slots 0..2 below `fd` are open (this is why `open("/dev/null")` returns exactly the slot) -/
def LowOpen (t : Tab) (fd : Nat) : Prop := ∀ i, i < fd → i < 3 → t.get i ≠ none

/-- what the second loop makes of slot `i` given the (post first pass) source `u` -/
def Slot2 (t tf : Tab) (i : Nat) (u : Int) : Prop :=
  if 0 ≤ u then ∀ e, t.get u.toNat = some e → tf.get i = some ⟨e.file, false⟩
  else if i < 3 then tf.get i = some ⟨.devNull (i != 0), false⟩
  else tf.get i = t.get i

theorem step2_spec {cnt fd : Nat} {t : Tab} {u : Int} (hfd : fd < cnt) (hw : t.WF)
    (hlo : LowOpen t fd) (_hu : 0 ≤ u → (fd : Int) ≤ u) :
    (step2 cnt t fd u).1.WF ∧ (∀ k, k ≠ fd → (step2 cnt t fd u).1.get k = t.get k) ∧
    ((0 ≤ u → t.get u.toNat ≠ none) → (step2 cnt t fd u).2 = true) ∧
    ((step2 cnt t fd u).2 = true →
      Slot2 t (step2 cnt t fd u).1 fd u ∧ LowOpen (step2 cnt t fd u).1 (fd + 1)) := by
  by_cases hneg : u < 0
  · have hnn : ¬ (0 ≤ u) := by omega
    by_cases h3 : fd ≥ 3
    · simp only [step2, hneg, h3, if_true]
      refine ⟨hw, (by intros; trivial), (by intros; trivial), fun _ => ⟨?_, ?_⟩⟩
      · have : ¬ fd < 3 := by omega
        simp [Slot2, hnn, this]
      · intro i h1 h2; exact hlo i (by omega) h2
    · have hlf : (close t fd).lowestFree 0 = fd := by
        apply lf_eq (wf_set hw _ _) 0 fd (Nat.zero_le _)
        · intro i _ hi
          have : i ≠ fd := by omega
          simp only [get_set, this, if_false]
          exact hlo i hi (by omega)
        · simp
      have hnc : ¬ fd ≥ cnt := by omega
      simp only [step2, hneg, h3, if_true, if_false, openNull, hlf, hnc]
      refine ⟨wf_set (wf_set hw _ _) _ _, ?_, (by intros; trivial), fun _ => ⟨?_, ?_⟩⟩
      · intro k hk; simp [close, hk]
      · have : fd < 3 := by omega
        simp [Slot2, hnn, this]
      · intro i h1 h2
        by_cases hi : i = fd
        · simp [hi]
        · simp only [close, get_set, hi, if_false]; exact hlo i (by omega) h2
  · have h0 : 0 ≤ u := by omega
    by_cases heq : fd = u.toNat
    · simp only [step2, hneg, if_false, ← heq, if_true, setCloexec]
      cases hg : t.get fd with
      | none =>
        refine ⟨hw, (by intros; trivial), ?_, by simp⟩
        intro h; exact absurd rfl (h h0)
      | some e =>
        refine ⟨wf_set hw _ _, ?_, (by intros; trivial), fun _ => ⟨?_, ?_⟩⟩
        · intro k hk; simp [hk]
        · simp only [Slot2, h0, if_true, ← heq]
          intro e' he'; rw [hg] at he'; cases he'; simp
        · intro i h1 h2
          by_cases hi : i = fd
          · simp [hi]
          · simp only [get_set, hi, if_false]; exact hlo i (by omega) h2
    · simp only [step2, hneg, if_false, heq, dup2]
      cases hg : t.get u.toNat with
      | none =>
        refine ⟨hw, (by intros; trivial), ?_, by simp⟩
        intro h; exact absurd rfl (h h0)
      | some e =>
        have hne : ¬ u.toNat = fd := fun h => heq h.symm
        simp only [hne, if_false]
        refine ⟨wf_set hw _ _, ?_, (by intros; trivial), fun _ => ⟨?_, ?_⟩⟩
        · intro k hk; simp [hk]
        · simp only [Slot2, h0, if_true]
          intro e' he'; rw [hg] at he'; cases he'; simp
        · intro i h1 h2
          by_cases hi : i = fd
          · simp [hi]
          · simp only [get_set, hi, if_false]; exact hlo i (by omega) h2

theorem pass2_spec (cnt : Nat) : ∀ (p : List Int) (t : Tab) (fd : Nat), fd + p.length ≤ cnt → t.WF →
    LowOpen t fd → (∀ (j : Nat) (u : Int), p[j]? = some u → 0 ≤ u → ((fd + j : Nat) : Int) ≤ u) →
    (pass2 cnt t fd p).1.WF ∧
    (∀ k, (k < fd ∨ fd + p.length ≤ k) → (pass2 cnt t fd p).1.get k = t.get k) ∧
    ((∀ (j : Nat) (u : Int), p[j]? = some u → 0 ≤ u → t.get u.toNat ≠ none) → (pass2 cnt t fd p).2 = true) ∧
    ((pass2 cnt t fd p).2 = true →
      ∀ (j : Nat) (u : Int), p[j]? = some u → Slot2 t (pass2 cnt t fd p).1 (fd + j) u) := by
  intro p
  induction p with
  | nil => intro t fd _ hw _ _; simp [pass2, hw]
  | cons u rest ih =>
    intro t fd hfc hw hlo hsrc
    have hfd : fd < cnt := by simp at hfc; omega
    have hu : 0 ≤ u → (fd : Int) ≤ u := fun h => by simpa using hsrc 0 u (by simp) h
    obtain ⟨sw, sframe, sok, sspec⟩ := step2_spec (cnt := cnt) hfd hw hlo hu
    simp only [pass2]
    rcases hs : step2 cnt t fd u with ⟨t1, _ | _⟩
    · rw [hs] at sw sframe sok
      refine ⟨sw, ?_, ?_, by simp⟩
      · intro k hk; exact sframe k (by simp at hk; omega)
      · intro h; exact absurd (sok (h 0 u (by simp))) (by simp)
    · rw [hs] at sw sframe sspec
      obtain ⟨sslot, slo⟩ := sspec rfl
      have hsrc' : ∀ (j : Nat) (a : Int), rest[j]? = some a → 0 ≤ a → ((fd + 1 + j : Nat) : Int) ≤ a := by
        intro j a ha h0
        have := hsrc (j + 1) a (by simpa using ha) h0
        omega
      obtain ⟨iw, iframe, iok, ispec⟩ := ih t1 (fd + 1) (by simp at hfc; omega) sw slo hsrc'
      simp only []
      refine ⟨iw, ?_, ?_, ?_⟩
      · intro k hk
        simp at hk
        rw [iframe k (by omega)]
        exact sframe k (by omega)
      · intro h
        apply iok
        intro j a ha h0
        have h1 := hsrc' j a ha h0
        rw [sframe a.toNat (by omega)]
        exact h (j + 1) a (by simpa using ha) h0
      · intro hok j a ha
        have ispec' := ispec hok
        cases j with
        | zero =>
          simp at ha; subst ha
          have hfr : (pass2 cnt t1 (fd + 1) rest).1.get fd = t1.get fd := iframe fd (by omega)
          simp only [Slot2, Nat.add_zero] at sslot ⊢
          rw [hfr]; exact sslot
        | succ j =>
          simp at ha
          have h2 := ispec' j a ha
          have hidx : fd + (j + 1) = fd + 1 + j := by omega
          rw [hidx]
          simp only [Slot2] at h2 ⊢
          by_cases h0 : 0 ≤ a
          · simp only [h0, if_true] at h2 ⊢
            have h1 := hsrc' j a ha h0
            rw [sframe a.toNat (by omega)] at h2
            exact h2
          · simp only [h0, if_false] at h2 ⊢
            rw [sframe (fd + 1 + j) (by omega)] at h2
            exact h2

/-! ### whole `uv__process_child_init` descriptor part -/

theorem moveErr_spec {t : Tab} (hw : t.WF) (hc : AllCx t) (cnt efd : Nat) (ef : Ent)
    (herr : t.get efd = some ef) :
    ∃ t1 e1, moveErr t cnt efd = (t1, some e1) ∧ t1.WF ∧ AllCx t1 ∧ Ext cnt t t1 ∧ cnt ≤ e1 ∧
      t1.get e1 = some ⟨ef.file, true⟩ := by
  unfold moveErr
  by_cases h : efd < cnt
  · simp only [h, if_true]
    obtain ⟨dw, dc, de⟩ := dupfd_props hw hc efd cnt
    rcases hd : dupfd t efd cnt true with ⟨t1, _ | n⟩
    · have := dupfd_none (t := t) (u := efd) (cnt := cnt) (cx := true) (by rw [hd])
      rw [herr] at this; cases this
    · have hs := dupfd_some (t := t) (u := efd) (cnt := cnt) (n := n) (cx := true) (by rw [hd])
      rw [hd] at dw dc de hs
      obtain ⟨hn, e, he, hg⟩ := hs
      rw [herr] at he; cases he
      exact ⟨t1, n, rfl, dw, dc, de, hn, hg⟩
  · simp only [h, if_false]
    refine ⟨t, efd, rfl, hw, hc, Ext.refl _ _, by omega, ?_⟩
    have := hc efd ef herr
    rw [herr]; cases ef; simp_all

theorem childInit_core {t : Tab} (hw : t.WF) (hc : AllCx t) (pipes : List Int) (efd : Nat) (ef : Ent)
    (herr : t.get efd = some ef) :
    (childInit t pipes efd).tab.get (childInit t pipes efd).efd = some ⟨ef.file, true⟩ ∧
    ((∀ (i : Nat) (u : Int), pipes[i]? = some u → 0 ≤ u → t.get u.toNat ≠ none) →
      (childInit t pipes efd).isOk = true ∧
      ∀ fd, (execClose (childInit t pipes efd).tab).get fd = expected t pipes fd) := by
  obtain ⟨t1, e1, hm, w1, c1, x1, he1, hg1⟩ := moveErr_spec hw hc pipes.length efd ef herr
  obtain ⟨w2, c2, x2, ok2, spec2⟩ := pass1_spec pipes.length pipes t1 0 (by omega) w1 c1
  unfold childInit
  simp only [hm]
  rcases h1 : pass1 pipes.length t1 0 pipes with ⟨t2, _ | p'⟩
  · rw [h1] at x2 ok2
    refine ⟨x2.2 _ _ hg1, ?_⟩
    intro hsrc
    refine absurd rfl (ok2 (fun j u hj h0 => ?_))
    cases hx : t.get u.toNat with
    | none => exact absurd hx (hsrc j u hj h0)
    | some e => rw [x1.2 _ e hx]; simp
  · rw [h1] at w2 c2 x2 spec2
    obtain ⟨hlen, hrel⟩ := spec2 p' rfl
    have hsrc2 : ∀ (j : Nat) (u : Int), p'[j]? = some u → 0 ≤ u → ((0 + j : Nat) : Int) ≤ u := by
      intro j u' hj h0
      have hjlt : j < pipes.length := by
        rw [← hlen]; exact (List.getElem?_eq_some_iff.mp hj).1
      obtain ⟨h1', h2'⟩ := hrel j pipes[j] u' (List.getElem?_eq_getElem hjlt) hj
      by_cases hn : pipes[j] < 0
      · have := h1' hn; omega
      · exact (h2' (by omega)).1
    obtain ⟨w3, frame3, ok3, spec3⟩ :=
      pass2_spec pipes.length p' t2 0 (by omega) w2 (fun i hi _ => absurd hi (by omega)) hsrc2
    simp only []
    have hefd : (pass2 pipes.length t2 0 p').1.get e1 = some ⟨ef.file, true⟩ := by
      rw [frame3 e1 (Or.inr (by omega))]; exact x2.2 _ _ hg1
    rcases h2 : pass2 pipes.length t2 0 p' with ⟨t3, _ | _⟩
    · rw [h2] at hefd ok3
      refine ⟨hefd, ?_⟩
      intro hsrc
      refine absurd (ok3 (fun j u' hj h0 => ?_)) (by simp)
      have hjlt : j < pipes.length := by
        rw [← hlen]; exact (List.getElem?_eq_some_iff.mp hj).1
      obtain ⟨h1', h2'⟩ := hrel j pipes[j] u' (List.getElem?_eq_getElem hjlt) hj
      by_cases hn : pipes[j] < 0
      · have := h1' hn; omega
      · have hs := hsrc j pipes[j] (List.getElem?_eq_getElem hjlt) (by omega)
        cases hx : t.get pipes[j].toNat with
        | none => exact absurd hx hs
        | some e =>
          obtain ⟨c, hc'⟩ := (h2' (by omega)).2 e (x1.2 _ e hx)
          rw [hc']; simp
    · rw [h2] at hefd frame3 spec3
      refine ⟨hefd, fun hsrc => ⟨rfl, ?_⟩⟩
      intro fd
      simp only [Res.tab, execClose, expected]
      by_cases hfd : fd < pipes.length
      · have hfd' : fd < p'.length := by omega
        have hs3 := spec3 rfl fd p'[fd] (List.getElem?_eq_getElem hfd')
        obtain ⟨h1', h2'⟩ := hrel fd pipes[fd] p'[fd] (List.getElem?_eq_getElem hfd) (List.getElem?_eq_getElem hfd')
        rw [List.getElem?_eq_getElem hfd]
        simp only [Nat.zero_add] at hs3
        by_cases hn : pipes[fd] < 0
        · have hp := h1' hn
          have hnn : ¬ (0 ≤ pipes[fd]) := by omega
          have hnn' : ¬ (0 ≤ p'[fd]) := by omega
          simp only [Slot2, hnn', if_false] at hs3
          simp only [hnn, if_false]
          by_cases h3 : fd < 3
          · simp only [h3, if_true] at hs3 ⊢; rw [hs3]; simp
          · simp only [h3, if_false] at hs3 ⊢
            rw [hs3, x2.1 fd hfd, x1.1 fd hfd]
            cases hx : t.get fd with
            | none => rfl
            | some e => simp [hc fd e hx]
        · have h0 : 0 ≤ pipes[fd] := by omega
          obtain ⟨hge, hfile⟩ := h2' h0
          have h0' : 0 ≤ p'[fd] := by omega
          simp only [Slot2, h0', if_true] at hs3
          simp only [h0, if_true]
          cases hx : t.get pipes[fd].toNat with
          | none => exact absurd hx (hsrc fd pipes[fd] (List.getElem?_eq_getElem hfd) h0)
          | some e =>
            obtain ⟨c, hc'⟩ := hfile e (x1.2 _ e hx)
            rw [hs3 _ hc']; simp
      · have hnone : pipes[fd]? = none := List.getElem?_eq_none (by omega)
        rw [hnone]
        simp only []
        rw [frame3 fd (Or.inr (by omega))]
        cases hx : t2.get fd with
        | none => rfl
        | some e => simp [c2 fd e hx]

/-! ### uv__wait_children over histories -/

def isReaped : WaitRes → Bool
  | .reaped _ => true
  | _ => false

/-- entries for child `id` in a pending list -/
def pcnt (p : List (Nat × Nat)) (id : Nat) : Nat := (p.filter (fun x => x.1 == id)).length

theorem pollAll_fst (res : Nat → WaitRes) (l : List Nat) :
    (pollAll res l).1 = l.filter (fun c => !isReaped (res c)) := by
  induction l with
  | nil => rfl
  | cons c rest ih =>
    simp only [pollAll, List.filter_cons]
    cases h : res c <;> simp [isReaped, ih]

theorem pollAll_mem (res : Nat → WaitRes) (l : List Nat) (c st : Nat) :
    (c, st) ∈ (pollAll res l).2 ↔ c ∈ l ∧ res c = .reaped st := by
  induction l with
  | nil => simp [pollAll]
  | cons a rest ih =>
    simp only [pollAll]
    cases h : res a with
    | running =>
      simp only [ih, List.mem_cons]
      constructor
      · intro ⟨h1, h2⟩; exact ⟨Or.inr h1, h2⟩
      · intro ⟨h1, h2⟩
        rcases h1 with h1 | h1
        · subst h1; rw [h] at h2; cases h2
        · exact ⟨h1, h2⟩
    | echild =>
      simp only [ih, List.mem_cons]
      constructor
      · intro ⟨h1, h2⟩; exact ⟨Or.inr h1, h2⟩
      · intro ⟨h1, h2⟩
        rcases h1 with h1 | h1
        · subst h1; rw [h] at h2; cases h2
        · exact ⟨h1, h2⟩
    | reaped s0 =>
      simp only [List.mem_cons, ih, Prod.mk.injEq]
      constructor
      · intro h1
        rcases h1 with ⟨h1, h2⟩ | ⟨h1, h2⟩
        · subst h1; subst h2; exact ⟨Or.inl rfl, h⟩
        · exact ⟨Or.inr h1, h2⟩
      · intro ⟨h1, h2⟩
        rcases h1 with h1 | h1
        · subst h1; rw [h] at h2; cases h2; exact Or.inl ⟨rfl, rfl⟩
        · exact Or.inr ⟨h1, h2⟩

theorem pcnt_cons (a st id : Nat) (p : List (Nat × Nat)) :
    pcnt ((a, st) :: p) id = (if a = id then 1 else 0) + pcnt p id := by
  by_cases h : a = id
  · simp [pcnt, h]; omega
  · simp [pcnt, h]

theorem pcnt_notin (res : Nat → WaitRes) (l : List Nat) (id : Nat) (h : id ∉ l) :
    pcnt (pollAll res l).2 id = 0 := by
  induction l with
  | nil => rfl
  | cons a rest ih =>
    have ha : a ≠ id := fun e => h (by simp [e])
    have hr : id ∉ rest := fun e => h (by simp [e])
    have h0 := ih hr
    simp only [pollAll]
    cases hres : res a with
    | running => exact h0
    | echild => exact h0
    | reaped st => simp only []; rw [pcnt_cons, h0]; simp [ha]

theorem pcnt_nodup (res : Nat → WaitRes) (l : List Nat) (id : Nat) (hn : l.Nodup) (h : id ∈ l) :
    pcnt (pollAll res l).2 id = if isReaped (res id) then 1 else 0 := by
  induction l with
  | nil => cases h
  | cons a rest ih =>
    have hn' := List.nodup_cons.mp hn
    by_cases ha : a = id
    · subst ha
      have h0 := pcnt_notin res rest a hn'.1
      simp only [pollAll]
      cases hres : res a with
      | running => simp only [isReaped]; exact h0
      | echild => simp only [isReaped]; exact h0
      | reaped st => simp only [isReaped]; rw [pcnt_cons, h0]; simp
    · have hr : id ∈ rest := by
        rcases List.mem_cons.mp h with h | h
        · exact absurd h.symm ha
        · exact h
      have h0 := ih hn'.2 hr
      simp only [pollAll]
      cases hres : res a with
      | running => exact h0
      | echild => exact h0
      | reaped st => simp only []; rw [pcnt_cons, h0]; simp [ha]

theorem waitCount_append (a b : List Log) (id : Nat) :
    waitCount (a ++ b) id = waitCount a id + waitCount b id := by
  simp [waitCount, List.filter_append]
theorem cbCount_append (a b : List Log) (id : Nat) :
    cbCount (a ++ b) id = cbCount a id + cbCount b id := by
  simp [cbCount, List.filter_append]

theorem waitCount_waited (p : List (Nat × Nat)) (id : Nat) :
    waitCount (p.map fun x => Log.waited x.1 x.2) id = pcnt p id := by
  induction p with
  | nil => rfl
  | cons a rest ih =>
    simp only [waitCount, pcnt, List.map_cons, List.filter_cons, Log.isWaited] at ih ⊢
    by_cases h : a.1 == id <;> simp [h, ih]
theorem cbCount_waited (p : List (Nat × Nat)) (id : Nat) :
    cbCount (p.map fun x => Log.waited x.1 x.2) id = 0 := by
  induction p with
  | nil => rfl
  | cons a rest ih =>
    simp only [cbCount, List.map_cons, List.filter_cons, Log.isCb] at ih ⊢
    simpa using ih
theorem waitCount_cb (p : List (Nat × Nat)) (id : Nat) :
    waitCount ((report p).map Log.cb) id = 0 := by
  induction p with
  | nil => rfl
  | cons a rest ih =>
    simp only [waitCount, report, List.map_cons, List.filter_cons, Log.isWaited] at ih ⊢
    simpa using ih
theorem cbCount_cb (p : List (Nat × Nat)) (id : Nat) :
    cbCount ((report p).map Log.cb) id = pcnt p id := by
  unfold cbCount pcnt report
  rw [List.map_map, List.filter_map, List.length_map]
  rfl

/-- invariant of every reachable loop/kernel state -/
structure Inv (s : PS) : Prop where
  nodup : s.tracked.Nodup
  lt : ∀ id, id ∈ s.tracked → id < s.nspawned
  alive : ∀ id, id ∈ s.tracked → s.kern id ≠ .gone
  cnt0 : ∀ id, id ∈ s.tracked → waitCount s.log id = 0
  fresh : ∀ id, s.nspawned ≤ id → waitCount s.log id = 0
  cbw : ∀ id, cbCount s.log id = waitCount s.log id
  once : ∀ id, waitCount s.log id ≤ 1
  truth : ∀ id st, Log.waited id st ∈ s.log → (id, st) ∈ s.exits
  dec : ∀ e, Log.cb e ∈ s.log → ∃ st, Log.waited e.id st ∈ s.log ∧
          e.exitStatus = (decode st).1 ∧ e.termSignal = (decode st).2
  zomb : ∀ id st, s.kern id = .zombie st → (id, st) ∈ s.exits
  okT : ∀ id, id ∈ s.tracked → id ∈ s.okIds
  okW : ∀ id st, Log.waited id st ∈ s.log → id ∈ s.okIds
  okLt : ∀ id, id ∈ s.okIds → id < s.nspawned

theorem inv_init : Inv {} := by
  constructor <;> simp [waitCount, cbCount]

theorem kernWait_reaped {s : PS} {id st : Nat} : kernWait s id = .reaped st ↔ s.kern id = .zombie st := by
  unfold kernWait
  cases h : s.kern id <;> simp

theorem inv_sigchld {s : PS} (h : Inv s) : Inv (stepP s .sigchld) := by
  have hfst := pollAll_fst (kernWait s) s.tracked
  have hmem := pollAll_mem (kernWait s) s.tracked
  have hpend : ∀ i, (pollAll (kernWait s) s.tracked).2.any (·.1 == i) = true ↔
      ∃ st, i ∈ s.tracked ∧ s.kern i = .zombie st := by
    intro i
    simp only [List.any_eq_true]
    constructor
    · rintro ⟨⟨c, st⟩, hx, hc⟩
      have : c = i := by simpa using hc
      subst this
      exact ⟨st, ((hmem c st).mp hx).1, kernWait_reaped.mp ((hmem c st).mp hx).2⟩
    · rintro ⟨st, h1, h2⟩
      exact ⟨(i, st), (hmem i st).mpr ⟨h1, kernWait_reaped.mpr h2⟩, by simp⟩
  have hmemT : ∀ id, id ∈ (pollAll (kernWait s) s.tracked).1 ↔ id ∈ s.tracked ∧ isReaped (kernWait s id) = false := by
    intro id; rw [hfst]; simp
  have hwc : ∀ id, waitCount (stepP s .sigchld).log id = waitCount s.log id + pcnt (pollAll (kernWait s) s.tracked).2 id := by
    intro id
    simp only [stepP, waitCount_append, waitCount_waited, waitCount_cb]; omega
  have hcc : ∀ id, cbCount (stepP s .sigchld).log id = cbCount s.log id + pcnt (pollAll (kernWait s) s.tracked).2 id := by
    intro id
    simp only [stepP, cbCount_append, cbCount_waited, cbCount_cb]; omega
  have hlog : ∀ x, x ∈ (stepP s .sigchld).log ↔ x ∈ s.log ∨
      (∃ c st, (c, st) ∈ (pollAll (kernWait s) s.tracked).2 ∧ x = Log.waited c st) ∨
      (∃ c st, (c, st) ∈ (pollAll (kernWait s) s.tracked).2 ∧ x = Log.cb ⟨c, (decode st).1, (decode st).2⟩) := by
    intro x
    simp only [stepP, List.mem_append, List.mem_map, report, Prod.exists, or_assoc]
    constructor
    · rintro (h1 | ⟨a, b, h1, h2⟩ | ⟨e, ⟨a, b, h1, h2⟩, h3⟩)
      · exact Or.inl h1
      · exact Or.inr (Or.inl ⟨a, b, h1, h2.symm⟩)
      · exact Or.inr (Or.inr ⟨a, b, h1, by rw [← h3, ← h2]⟩)
    · rintro (h1 | ⟨a, b, h1, h2⟩ | ⟨a, b, h1, h2⟩)
      · exact Or.inl h1
      · exact Or.inr (Or.inl ⟨a, b, h1, h2.symm⟩)
      · exact Or.inr (Or.inr ⟨_, ⟨a, b, h1, rfl⟩, h2.symm⟩)
  constructor
  · show (pollAll (kernWait s) s.tracked).1.Nodup
    rw [hfst]; exact List.Pairwise.filter _ h.nodup
  · intro id hid; exact h.lt id ((hmemT id).mp hid).1
  · intro id hid
    obtain ⟨h1, h2⟩ := (hmemT id).mp hid
    show (if (pollAll (kernWait s) s.tracked).2.any (·.1 == id) then KState.gone else s.kern id) ≠ .gone
    have : ¬ (pollAll (kernWait s) s.tracked).2.any (·.1 == id) = true := by
      rw [hpend]; rintro ⟨st, _, hz⟩
      rw [kernWait_reaped.mpr hz] at h2; simp [isReaped] at h2
    simp only [this]; exact h.alive id h1
  · intro id hid
    obtain ⟨h1, h2⟩ := (hmemT id).mp hid
    rw [hwc, h.cnt0 id h1, pcnt_nodup _ _ _ h.nodup h1, h2]; rfl
  · intro id hid
    have hn : id ∉ s.tracked := fun hm => by have := h.lt id hm; simp [stepP] at hid; omega
    rw [hwc, pcnt_notin _ _ _ hn, h.fresh id (by simpa [stepP] using hid)]
  · intro id; rw [hwc, hcc, h.cbw]
  · intro id
    rw [hwc]
    by_cases hm : id ∈ s.tracked
    · rw [h.cnt0 id hm, pcnt_nodup _ _ _ h.nodup hm]; split <;> omega
    · rw [pcnt_notin _ _ _ hm]; have := h.once id; omega
  · intro id st hx
    show (id, st) ∈ s.exits
    rcases (hlog _).mp hx with h1 | ⟨c, st', h1, h2⟩ | ⟨c, st', h1, h2⟩
    · exact h.truth id st h1
    · cases h2; exact h.zomb _ _ (kernWait_reaped.mp ((hmem _ _).mp h1).2)
    · cases h2
  · intro e hx
    rcases (hlog _).mp hx with h1 | ⟨c, st', h1, h2⟩ | ⟨c, st', h1, h2⟩
    · obtain ⟨st, h2, h3⟩ := h.dec e h1
      exact ⟨st, (hlog _).mpr (Or.inl h2), h3⟩
    · cases h2
    · cases h2
      exact ⟨st', (hlog _).mpr (Or.inr (Or.inl ⟨c, st', h1, rfl⟩)), rfl, rfl⟩
  · intro id st hz
    show (id, st) ∈ s.exits
    have hz' : (if (pollAll (kernWait s) s.tracked).2.any (·.1 == id) then KState.gone else s.kern id) = .zombie st := hz
    split at hz'
    · cases hz'
    · exact h.zomb id st hz'
  · intro id hid; exact h.okT id ((hmemT id).mp hid).1
  · intro id st hx
    show id ∈ s.okIds
    rcases (hlog _).mp hx with h1 | ⟨c, st', h1, h2⟩ | ⟨c, st', h1, h2⟩
    · exact h.okW id st h1
    · cases h2; exact h.okT _ ((hmem _ _).mp h1).1
    · cases h2
  · exact h.okLt

theorem inv_step {s : PS} (h : Inv s) (op : Op) : Inv (stepP s op) := by
  cases op with
  | sigchld => exact inv_sigchld h
  | spawnOk =>
    have hnew : s.nspawned ∉ s.tracked := fun hm => by have := h.lt _ hm; omega
    constructor
    · show (s.tracked ++ [s.nspawned]).Nodup
      rw [List.nodup_append]
      refine ⟨h.nodup, by simp, ?_⟩
      intro a ha b hb; simp at hb; subst hb; intro e; subst e; exact hnew ha
    · intro id hid
      simp only [stepP, List.mem_append, List.mem_singleton] at hid ⊢
      rcases hid with hid | hid
      · have := h.lt id hid; omega
      · omega
    · intro id hid
      simp only [stepP, List.mem_append, List.mem_singleton] at hid ⊢
      by_cases he : id = s.nspawned
      · simp [he]
      · simp only [he, if_false]; exact h.alive id (by simpa [he] using hid)
    · intro id hid
      simp only [stepP, List.mem_append, List.mem_singleton] at hid ⊢
      rcases hid with hid | hid
      · exact h.cnt0 id hid
      · exact h.fresh id (by omega)
    · intro id hid; exact h.fresh id (by simp [stepP] at hid; omega)
    · exact h.cbw
    · exact h.once
    · exact h.truth
    · exact h.dec
    · intro id st hz
      simp only [stepP] at hz ⊢
      split at hz
      · cases hz
      · exact h.zomb id st hz
    · intro id hid
      simp only [stepP, List.mem_append, List.mem_singleton] at hid ⊢
      rcases hid with hid | hid
      · exact Or.inl (h.okT id hid)
      · exact Or.inr hid
    · intro id st hx; simp only [stepP, List.mem_append]; exact Or.inl (h.okW id st hx)
    · intro id hid
      simp only [stepP, List.mem_append, List.mem_singleton] at hid ⊢
      rcases hid with hid | hid
      · have := h.okLt id hid; omega
      · omega
  | spawnFail =>
    constructor
    · exact h.nodup
    · intro id hid; have := h.lt id hid; simp only [stepP]; omega
    · exact h.alive
    · exact h.cnt0
    · intro id hid; exact h.fresh id (by simp [stepP] at hid; omega)
    · exact h.cbw
    · exact h.once
    · exact h.truth
    · exact h.dec
    · exact h.zomb
    · exact h.okT
    · exact h.okW
    · intro id hid; have := h.okLt id hid; simp only [stepP]; omega
  | childExit c st0 =>
    by_cases hr : s.kern c = .running
    · constructor
      · simpa [stepP, hr] using h.nodup
      · simpa [stepP, hr] using h.lt
      · intro id hid
        simp only [stepP, hr, if_true] at hid ⊢
        by_cases he : id = c
        · simp [he]
        · simp only [he, if_false]; exact h.alive id hid
      · simpa [stepP, hr] using h.cnt0
      · simpa [stepP, hr] using h.fresh
      · simpa [stepP, hr] using h.cbw
      · simpa [stepP, hr] using h.once
      · intro id st hx
        simp only [stepP, hr, if_true, List.mem_append] at hx ⊢
        exact Or.inl (h.truth id st hx)
      · simpa [stepP, hr] using h.dec
      · intro id st hz
        simp only [stepP, hr, if_true, List.mem_append, List.mem_singleton] at hz ⊢
        by_cases he : id = c
        · simp only [he, if_true] at hz; cases hz; exact Or.inr (by rw [he])
        · simp only [he, if_false] at hz; exact Or.inl (h.zomb id st hz)
      · simpa [stepP, hr] using h.okT
      · simpa [stepP, hr] using h.okW
      · simpa [stepP, hr] using h.okLt
    · simpa [stepP, hr] using h
  | closeHandle c =>
    have hsub : ∀ id, id ∈ s.tracked.filter (· ≠ c) → id ∈ s.tracked := fun id hid => (List.mem_filter.mp hid).1
    constructor
    · exact List.Pairwise.filter _ h.nodup
    · intro id hid; exact h.lt id (hsub id hid)
    · intro id hid; exact h.alive id (hsub id hid)
    · intro id hid; exact h.cnt0 id (hsub id hid)
    · exact h.fresh
    · exact h.cbw
    · exact h.once
    · exact h.truth
    · exact h.dec
    · exact h.zomb
    · intro id hid; exact h.okT id (hsub id hid)
    · exact h.okW
    · exact h.okLt

theorem inv_run {s : PS} (h : Inv s) (ops : List Op) : Inv (runP s ops) := by
  induction ops generalizing s with
  | nil => exact h
  | cons op rest ih => exact ih (inv_step h op)

end UvModel.ProcFd
