import UvModel.Heap
/-!
  Helper lemmas for the heap property theorems (UvModel/Props/C04Heap.lean).

  All order facts are stated through the total getter `g`; `lt x y = false`
  reads "y ≤ x" (the model's `timer_less_than` is a strict total preorder on
  `(timeout, startId)`).
-/
namespace UvModel.Heap

/-! ### order facts about `lt` -/

theorem lt_eq_true_iff (x y : Ent) :
    lt x y = true ↔ (x.timeout < y.timeout ∨ (x.timeout = y.timeout ∧ x.startId < y.startId)) := by
  unfold lt
  split
  · simp; omega
  · split
    · simp; omega
    · simp; omega

theorem lt_eq_false_iff (x y : Ent) :
    lt x y = false ↔ (y.timeout < x.timeout ∨ (y.timeout = x.timeout ∧ y.startId ≤ x.startId)) := by
  unfold lt
  split
  · simp; omega
  · split
    · simp; omega
    · simp; omega

theorem lt_irrefl (x : Ent) : lt x x = false := by
  rw [lt_eq_false_iff]; omega

/-- `lt x y` implies `x ≤ y` -/
theorem lt_asymm {x y : Ent} (h : lt x y = true) : lt y x = false := by
  rw [lt_eq_true_iff] at h; rw [lt_eq_false_iff]; omega

/-- transitivity of `≤`: `y ≤ x → z ≤ y → z ≤ x` -/
theorem le_trans {x y z : Ent} (h1 : lt x y = false) (h2 : lt y z = false) : lt x z = false := by
  rw [lt_eq_false_iff] at *; omega

/-! ### the total getter through the array primitives -/

theorem g_swap (a : H) (i j k : Nat) (hi : i < a.size) (hj : j < a.size) :
    g (swap a i j) k = if k = j then g a i else if k = i then g a j else g a k := by
  unfold swap g
  rw [dif_pos ⟨hi, hj⟩]
  simp only [Array.getD_eq_getD_getElem?, Array.getElem?_swap]
  by_cases h1 : j = k
  · subst h1; simp [hi]
  · by_cases h2 : i = k
    · subst h2; simp [h1, hj, Ne.symm h1]
    · simp [h1, h2, Ne.symm h1, Ne.symm h2]

theorem g_push_lt (a : H) (x : Ent) (k : Nat) (hk : k < a.size) : g (a.push x) k = g a k := by
  unfold g
  simp only [Array.getD_eq_getD_getElem?, Array.getElem?_push]
  rw [if_neg (by omega)]

theorem g_setpop (a : H) (i : Nat) (v : Ent) (k : Nat) (hk : k < a.size - 1) :
    g ((a.setIfInBounds i v).pop) k = if k = i then v else g a k := by
  unfold g
  simp only [Array.getD_eq_getD_getElem?, Array.getElem?_pop, Array.size_setIfInBounds,
    Array.getElem?_setIfInBounds]
  rw [if_pos hk]
  by_cases h : i = k
  · subst h; rw [if_pos rfl, if_pos (by omega), if_pos rfl]; rfl
  · rw [if_neg h, if_neg (Ne.symm h)]

/-! ### sizes -/

@[simp] theorem siftUp_size (a : H) (i : Nat) : (siftUp a i).size = a.size := by
  fun_induction siftUp a i with
  | case1 a => rfl
  | case2 a i h p hlt ih => simpa using ih
  | case3 a i h p hlt => rfl

@[simp] theorem siftDown_size (a : H) (i : Nat) : (siftDown a i).1.size = a.size := by
  fun_induction siftDown a i with
  | case1 a i h => rfl
  | case2 a i h ih => simpa using ih

theorem siftDown_pos_lt (a : H) (i : Nat) (hi : i < a.size) : (siftDown a i).2 < a.size := by
  fun_induction siftDown a i with
  | case1 a i h => exact hi
  | case2 a i h ih =>
    have := smallest_cases a i
    simpa using ih (by simp only [swap_size]; omega)

/-! ### permutations -/

theorem swap_perm (a : H) (i j : Nat) : (swap a i j).toList.Perm a.toList := by
  unfold swap
  split
  · rename_i h
    exact Array.perm_iff_toList_perm.mp (Array.swap_perm h.1 h.2)
  · exact List.Perm.refl _

theorem siftUp_perm (a : H) (i : Nat) : (siftUp a i).toList.Perm a.toList := by
  fun_induction siftUp a i with
  | case1 a => exact List.Perm.refl _
  | case2 a i h p hlt ih => exact ih.trans (swap_perm a i p)
  | case3 a i h p hlt => exact List.Perm.refl _

theorem siftDown_perm (a : H) (i : Nat) : (siftDown a i).1.toList.Perm a.toList := by
  fun_induction siftDown a i with
  | case1 a i h => exact List.Perm.refl _
  | case2 a i h ih => exact ih.trans (swap_perm a i (smallest a i))

/-! ### the sift-up invariant -/

/-- Heap order holds everywhere except possibly between `i` and its parent, and the
    children of `i` are ≥ the parent of `i`. -/
def UpInv (a : H) (i : Nat) : Prop :=
  (∀ k, 0 < k → k < a.size → k ≠ i → lt (g a k) (g a ((k - 1) / 2)) = false) ∧
  (∀ c, 0 < c → c < a.size → (c - 1) / 2 = i → 0 < i →
      lt (g a c) (g a ((i - 1) / 2)) = false)

theorem siftUp_inv (a : H) (i : Nat) (hi : i < a.size) (h : UpInv a i) : Inv (siftUp a i) := by
  fun_induction siftUp a i with
  | case1 a =>
    intro k hk0 hk
    exact h.1 k hk0 hk (by omega)
  | case2 a i hi0 p hlt ih =>
    have hp : p < a.size := by omega
    apply ih (by simpa using hp)
    obtain ⟨h1, h2⟩ := h
    refine ⟨?_, ?_⟩
    · intro k hk0 hk hkp
      rw [swap_size] at hk
      rw [g_swap a i p _ hi hp, g_swap a i p _ hi hp]
      rw [if_neg hkp]
      by_cases hki : k = i
      · -- the swapped pair itself
        subst hki
        rw [if_pos rfl, if_pos rfl]
        exact lt_asymm hlt
      · rw [if_neg hki]
        by_cases hpp : (k - 1) / 2 = p
        · -- the sibling of `i`
          rw [if_pos hpp]
          have := h1 k hk0 hk hki
          rw [hpp] at this
          exact le_trans this (lt_asymm hlt)
        · rw [if_neg hpp]
          by_cases hpi : (k - 1) / 2 = i
          · rw [if_pos hpi]
            exact h2 k hk0 hk hpi (by omega)
          · rw [if_neg hpi]
            exact h1 k hk0 hk hki
    · intro c hc0 hc hcp hp0
      rw [swap_size] at hc
      rw [g_swap a i p _ hi hp, g_swap a i p _ hi hp]
      have hpp : lt (g a p) (g a ((p - 1) / 2)) = false := h1 p hp0 hp (by omega)
      rw [if_neg (show ¬ (p - 1) / 2 = p by omega), if_neg (show ¬ (p - 1) / 2 = i by omega)]
      rw [if_neg (show ¬ c = p by omega)]
      by_cases hci : c = i
      · rw [if_pos hci]; exact hpp
      · rw [if_neg hci]
        have := h1 c hc0 hc hci
        rw [hcp] at this
        exact le_trans this hpp
  | case3 a i hi0 p hlt =>
    intro k hk0 hk
    by_cases hki : k = i
    · subst hki
      simpa using hlt
    · exact h.1 k hk0 hk hki

/-! ### `smallest` -/

theorem smallest_le_self (a : H) (i : Nat) : lt (g a i) (g a (smallest a i)) = false := by
  unfold smallest
  simp only []
  by_cases h1 : 2 * i + 1 < a.size ∧ lt (g a (2 * i + 1)) (g a i) = true
  · rw [if_pos h1]
    by_cases h2 : 2 * i + 2 < a.size ∧ lt (g a (2 * i + 2)) (g a (2 * i + 1)) = true
    · rw [if_pos h2]; exact le_trans (lt_asymm h1.2) (lt_asymm h2.2)
    · rw [if_neg h2]; exact lt_asymm h1.2
  · rw [if_neg h1]
    by_cases h2 : 2 * i + 2 < a.size ∧ lt (g a (2 * i + 2)) (g a i) = true
    · rw [if_pos h2]; exact lt_asymm h2.2
    · rw [if_neg h2]; exact lt_irrefl _

theorem smallest_le_child (a : H) (i c : Nat) (hc0 : 0 < c) (hc : c < a.size)
    (hpc : (c - 1) / 2 = i) : lt (g a c) (g a (smallest a i)) = false := by
  have hc' : c = 2 * i + 1 ∨ c = 2 * i + 2 := by omega
  unfold smallest
  simp only []
  by_cases h1 : 2 * i + 1 < a.size ∧ lt (g a (2 * i + 1)) (g a i) = true
  · rw [if_pos h1]
    by_cases h2 : 2 * i + 2 < a.size ∧ lt (g a (2 * i + 2)) (g a (2 * i + 1)) = true
    · rw [if_pos h2]
      rcases hc' with rfl | rfl
      · exact lt_asymm h2.2
      · exact lt_irrefl _
    · rw [if_neg h2]
      rcases hc' with rfl | rfl
      · exact lt_irrefl _
      · have : lt (g a (2 * i + 2)) (g a (2 * i + 1)) ≠ true := fun e => h2 ⟨hc, e⟩
        simpa using this
  · rw [if_neg h1]
    by_cases h2 : 2 * i + 2 < a.size ∧ lt (g a (2 * i + 2)) (g a i) = true
    · rw [if_pos h2]
      rcases hc' with rfl | rfl
      · have : lt (g a (2 * i + 1)) (g a i) ≠ true := fun e => h1 ⟨hc, e⟩
        have : lt (g a (2 * i + 1)) (g a i) = false := by simpa using this
        exact le_trans this (lt_asymm h2.2)
      · exact lt_irrefl _
    · rw [if_neg h2]
      rcases hc' with rfl | rfl
      · have : lt (g a (2 * i + 1)) (g a i) ≠ true := fun e => h1 ⟨hc, e⟩
        simpa using this
      · have : lt (g a (2 * i + 2)) (g a i) ≠ true := fun e => h2 ⟨hc, e⟩
        simpa using this

/-! ### the sift-down invariant -/

/-- Heap order holds everywhere except possibly between `i` and its parent and between
    `i` and its children, and the children of `i` are ≥ the parent of `i`. -/
def DownInv (a : H) (i : Nat) : Prop :=
  (∀ k, 0 < k → k < a.size → k ≠ i → (k - 1) / 2 ≠ i →
      lt (g a k) (g a ((k - 1) / 2)) = false) ∧
  (∀ c, 0 < c → c < a.size → (c - 1) / 2 = i → 0 < i →
      lt (g a c) (g a ((i - 1) / 2)) = false)

/-- `siftDown` establishes exactly the precondition of `siftUp` at its final position. -/
theorem siftDown_upInv (a : H) (i : Nat) (hi : i < a.size) (h : DownInv a i) :
    UpInv (siftDown a i).1 (siftDown a i).2 := by
  fun_induction siftDown a i with
  | case1 a i hs =>
    obtain ⟨h1, h2⟩ := h
    refine ⟨?_, h2⟩
    intro k hk0 hk hki
    by_cases hpk : (k - 1) / 2 = i
    · have := smallest_le_child a i k hk0 hk hpk
      rw [hs] at this
      rw [hpk]; exact this
    · exact h1 k hk0 hk hki hpk
  | case2 a i hs ih =>
    have hcases := smallest_cases a i
    have hself := smallest_le_self a i
    have hchild := smallest_le_child a i
    generalize smallest a i = s at *
    have hs1 : s < a.size := by omega
    have hps : (s - 1) / 2 = i := by omega
    have hs0 : 0 < s := by omega
    apply ih (by simpa using hs1)
    obtain ⟨h1, h2⟩ := h
    refine ⟨?_, ?_⟩
    · intro k hk0 hk hks hpks
      rw [swap_size] at hk
      rw [g_swap a i s _ hi hs1, g_swap a i s _ hi hs1]
      rw [if_neg hks, if_neg hpks]
      by_cases hki : k = i
      · subst hki
        rw [if_pos rfl, if_neg (show ¬ (k - 1) / 2 = k by omega)]
        exact h2 s hs0 hs1 hps hk0
      · rw [if_neg hki]
        by_cases hpk : (k - 1) / 2 = i
        · rw [if_pos hpk]
          exact hchild k hk0 hk hpk
        · rw [if_neg hpk]
          exact h1 k hk0 hk hki hpk
    · intro c hc0 hc hpc _
      rw [swap_size] at hc
      rw [g_swap a i s _ hi hs1, g_swap a i s _ hi hs1]
      rw [if_neg (show ¬ (s - 1) / 2 = s by omega), if_pos hps]
      rw [if_neg (show ¬ c = s by omega), if_neg (show ¬ c = i by omega)]
      have := h1 c hc0 hc (by omega) (by omega)
      rw [hpc] at this
      exact this

/-! ### `remove`: unfolding and the detach step -/

theorem g_eq_getElem (a : H) (i : Nat) (hi : i < a.size) : g a i = a[i] := by
  unfold g; simp [hi]

theorem remove_of_last (a : H) (i : Nat) (hi : i < a.size) (hl : i = a.size - 1) :
    remove a i = a.pop := by
  unfold remove
  rw [if_neg (by omega), if_neg (by omega)]
  simp only []
  rw [if_pos hl]

theorem remove_of_lt (a : H) (i : Nat) (hi : i < a.size - 1) :
    remove a i =
      siftUp (siftDown ((a.setIfInBounds i (g a (a.size - 1))).pop) i).1
             (siftDown ((a.setIfInBounds i (g a (a.size - 1))).pop) i).2 := by
  unfold remove
  rw [if_neg (by omega), if_neg (by omega)]
  simp only []
  rw [if_neg (by omega)]

/-- a non-empty array is its last element plus the rest -/
theorem toList_perm_pop (b : H) (h : 0 < b.size) :
    b.toList.Perm (g b (b.size - 1) :: b.pop.toList) := by
  have hne : b.toList ≠ [] := by
    intro e; rw [← Array.length_toList, e] at h; exact Nat.lt_irrefl _ h
  have hcat := List.dropLast_concat_getLast hne
  have hlast : b.toList.getLast hne = g b (b.size - 1) := by
    rw [List.getLast_eq_getElem, g_eq_getElem b (b.size - 1) (by omega)]
    simp
  rw [hlast] at hcat
  rw [Array.toList_pop]
  exact (List.Perm.of_eq hcat.symm).trans (List.perm_append_singleton _ _)

/-- the detach step of `heap_remove`: overwrite `i` with the last element and drop the last
    slot = swap `i` with the last slot, then drop it -/
theorem setpop_eq_swap_pop (a : H) (i : Nat) (hi : i < a.size - 1) :
    (a.setIfInBounds i (g a (a.size - 1))).pop = (swap a i (a.size - 1)).pop := by
  have hl : a.size - 1 < a.size := by omega
  have hi' : i < a.size := by omega
  apply Array.ext_getElem?
  intro k
  unfold swap
  rw [dif_pos ⟨hi', hl⟩]
  simp only [Array.getElem?_pop, Array.size_setIfInBounds, Array.size_swap,
    Array.getElem?_setIfInBounds, Array.getElem?_swap, g_eq_getElem a _ hl]
  by_cases hk : k < a.size - 1
  · rw [if_pos hk, if_pos hk, if_neg (show ¬ a.size - 1 = k by omega), if_pos hi']
  · rw [if_neg hk, if_neg hk]

theorem detach_perm (a : H) (i : Nat) (hi : i < a.size - 1) :
    a.toList.Perm (g a i :: ((a.setIfInBounds i (g a (a.size - 1))).pop).toList) := by
  have hl : a.size - 1 < a.size := by omega
  have hi' : i < a.size := by omega
  rw [setpop_eq_swap_pop a i hi]
  have h1 := toList_perm_pop (swap a i (a.size - 1)) (by simpa using (show 0 < a.size by omega))
  rw [swap_size, g_swap a i (a.size - 1) _ hi' hl, if_pos rfl] at h1
  exact (swap_perm a i (a.size - 1)).symm.trans h1

theorem detach_downInv (a : H) (i : Nat) (hi : i < a.size - 1) (h : Inv a) :
    DownInv ((a.setIfInBounds i (g a (a.size - 1))).pop) i := by
  refine ⟨?_, ?_⟩
  · intro k hk0 hk hki hpk
    simp only [Array.size_pop, Array.size_setIfInBounds] at hk
    rw [g_setpop a i _ k hk, g_setpop a i _ _ (by omega), if_neg hki, if_neg hpk]
    exact h k hk0 (by omega)
  · intro c hc0 hc hpc hi0
    simp only [Array.size_pop, Array.size_setIfInBounds] at hc
    rw [g_setpop a i _ c hc, g_setpop a i _ _ (by omega),
      if_neg (show ¬ c = i by omega), if_neg (show ¬ (i - 1) / 2 = i by omega)]
    have h1 := h c hc0 (by omega)
    rw [hpc] at h1
    exact le_trans h1 (h i hi0 (by omega))

/-- `push` establishes the sift-up precondition at the new slot -/
theorem push_upInv (a : H) (x : Ent) (h : Inv a) : UpInv (a.push x) a.size := by
  refine ⟨?_, ?_⟩
  · intro k hk0 hk hks
    rw [Array.size_push] at hk
    rw [g_push_lt a x k (by omega), g_push_lt a x _ (by omega)]
    exact h k hk0 (by omega)
  · intro c hc0 hc hpc hs0
    rw [Array.size_push] at hc
    omega

end UvModel.Heap
