import UvModel.Utf8
/-! helper lemmas for the text half of C18: bit operations of idna.c in arithmetic form -/
namespace UvModel.Utf8

theorem and_c0 : ∀ x, x < 256 → ((0xC0 &&& x = 0x80) ↔ (x / 64 = 2)) := by
  set_option maxRecDepth 100000 in decide

/-- the continuation test of idna.c:117 in arithmetic form -/
abbrev ContOk (b c d : Nat) : Prop := b / 64 = 2 ∧ c / 64 = 2 ∧ d / 64 = 2

theorem cont_check (b c d : Nat) (hb : b < 256) (hc : c < 256) (hd : d < 256) :
    (0x80 ≠ (0xC0 &&& b) ∨ 0x80 ≠ (0xC0 &&& c) ∨ 0x80 ≠ (0xC0 &&& d)) ↔ ¬ ContOk b c d := by
  have e : ∀ x, x < 256 → ((0x80 ≠ (0xC0 &&& x)) ↔ ¬ (x / 64 = 2)) := by
    intro x hx; rw [ne_comm, Ne, and_c0 x hx]
  rw [e b hb, e c hc, e d hd]
  unfold ContOk
  omega

theorem and63 (x : Nat) : x &&& 63 = x % 64 := Nat.and_two_pow_sub_one_eq_mod x 6
theorem and7 (x : Nat) : x &&& 7 = x % 8 := Nat.and_two_pow_sub_one_eq_mod x 3
theorem and15 (x : Nat) : x &&& 15 = x % 16 := Nat.and_two_pow_sub_one_eq_mod x 4
theorem and31 (x : Nat) : x &&& 31 = x % 32 := Nat.and_two_pow_sub_one_eq_mod x 5

theorem compose (a b c d : Nat) (hb : b < 64) (hc : c < 64) (hd : d < 64) :
    (a <<< 18) ||| (b <<< 12) ||| (c <<< 6) ||| d = a * 262144 + b * 4096 + c * 64 + d := by
  rw [Nat.or_assoc, Nat.or_assoc]
  have e1 : c <<< 6 ||| d = c * 64 + d := by
    rw [← Nat.shiftLeft_add_eq_or_of_lt (by omega), Nat.shiftLeft_eq]
  have e2 : b <<< 12 ||| (c * 64 + d) = b * 4096 + (c * 64 + d) := by
    rw [← Nat.shiftLeft_add_eq_or_of_lt (by omega), Nat.shiftLeft_eq]
  have e3 : a <<< 18 ||| (b * 4096 + (c * 64 + d)) = a * 262144 + (b * 4096 + (c * 64 + d)) := by
    rw [← Nat.shiftLeft_add_eq_or_of_lt (by omega), Nat.shiftLeft_eq]
  rw [e1, e2, e3]; omega

theorem or80 (x : Nat) (h : x < 128) : 0x80 ||| x = 128 + x := by
  have := Nat.shiftLeft_add_eq_or_of_lt (i := 7) (b := x) (by omega) 1
  simpa using this.symm

/-- arithmetic form of `finish` -/
def finishA (min a b c d used : Nat) : R :=
  if ContOk b c d then
    let v := a * 262144 + (b % 64) * 4096 + (c % 64) * 64 + d % 64
    if v < min ∨ v > 0x10FFFF ∨ (0xD800 ≤ v ∧ v ≤ 0xDFFF) then (none, used) else (some v, used)
  else (none, used)

theorem finish_eq (min a b c d used : Nat) (hb : b < 256) (hc : c < 256) (hd : d < 256) :
    finish min a b c d used = finishA min a b c d used := by
  unfold finish finishA
  by_cases hx : ContOk b c d
  · rw [if_neg ((not_congr (cont_check b c d hb hc hd)).mpr (fun h => h hx)), if_pos hx]
    simp only [and63]
    rw [compose a _ _ _ (Nat.mod_lt _ (by omega)) (Nat.mod_lt _ (by omega)) (Nat.mod_lt _ (by omega))]
    generalize a * 262144 + b % 64 * 4096 + c % 64 * 64 + d % 64 = v
    by_cases h1 : v < min
    · simp [h1]
    · by_cases h2 : v > 0x10FFFF
      · simp [h1, h2]
      · by_cases h3 : v ≥ 0xD800 ∧ v ≤ 0xDFFF
        · simp [h1, h2, h3]
        · simp [h1, h2, h3]
  · rw [if_pos ((cont_check b c d hb hc hd).mpr hx), if_neg hx]

theorem bytes_cons {a : Nat} {l : List Nat} (h : Bytes (a :: l)) : a < 256 ∧ Bytes l :=
  ⟨h a (by simp), fun b hb => h b (by simp [hb])⟩

/-- `decode1` with the bit operations replaced by arithmetic (bytes < 256) -/
def decode1A : List Nat → R
  | [] => (none, 0)
  | a :: rest =>
    if a < 128 then (some a, 1)
    else if a > 0xF7 then (none, 1)
    else if a > 0xEF then
      match rest with
      | b :: c :: d :: _ => finishA 0x10000 (a % 8) b c d 4
      | _ => (none, 1)
    else if a > 0xDF then
      match rest with
      | c :: d :: _ => finishA 0x800 0 (128 + a % 16) c d 3
      | _ => (none, 1)
    else if a > 0xBF then
      match rest with
      | d :: _ => finishA 0x80 0 128 (128 + a % 32) d 2
      | _ => (none, 1)
    else (none, 1)

theorem decode1_eq_A (l : List Nat) (hl : Bytes l) : decode1 l = decode1A l := by
  match l, hl with
  | [], _ => rfl
  | [a], hl =>
    simp [decode1, decode1A, decode1Slow, case0]
  | [a, b], hl =>
    have ha := hl a (by simp); have hb := hl b (by simp)
    simp only [decode1, decode1A, decode1Slow, case1, case0, and31]
    rw [or80 _ (by omega), finish_eq _ _ _ _ _ _ (by omega) (by omega) hb]
    repeat' split
    all_goals first | rfl | omega | (exfalso; omega) | simp_all
  | [a, b, c], hl =>
    have ha := hl a (by simp); have hb := hl b (by simp); have hc := hl c (by simp)
    simp only [decode1, decode1A, decode1Slow, case2, case1, case0, and31, and15]
    rw [or80 _ (by omega), or80 _ (by omega), finish_eq _ _ _ _ _ _ (by omega) (by omega) hb,
      finish_eq _ _ _ _ _ _ (by omega) hb hc]
    repeat' split
    all_goals first | rfl | omega | (exfalso; omega) | simp_all
  | a :: b :: c :: d :: r, hl =>
    have ha := hl a (by simp); have hb := hl b (by simp); have hc := hl c (by simp)
    have hd := hl d (by simp)
    simp only [decode1, decode1A, decode1Slow, case2, case1, case0, and31, and15, and7]
    rw [or80 _ (by omega), or80 _ (by omega), finish_eq _ _ _ _ _ _ (by omega) (by omega) hb,
      finish_eq _ _ _ _ _ _ (by omega) hb hc, finish_eq _ _ _ _ _ _ hb hc hd]
    repeat' split
    all_goals first | rfl | omega | (exfalso; omega) | simp_all
end UvModel.Utf8

/-! ### `decode1A` against the specification (Table 3-7) -/
namespace UvModel.Utf8
set_option linter.unusedSimpArgs false

theorem lo2_cases (a : Nat) : (a = 0xE0 ∧ lo2 a = 0xA0) ∨ (a = 0xF0 ∧ lo2 a = 0x90) ∨
    (a ≠ 0xE0 ∧ a ≠ 0xF0 ∧ lo2 a = 0x80) := by
  unfold lo2; repeat' split
  all_goals omega
theorem hi2_cases (a : Nat) : (a = 0xED ∧ hi2 a = 0x9F) ∨ (a = 0xF4 ∧ hi2 a = 0x8F) ∨
    (a ≠ 0xED ∧ a ≠ 0xF4 ∧ hi2 a = 0xBF) := by
  unfold hi2; repeat' split
  all_goals omega

theorem q64 (b : Nat) (h : b < 256) : b / 64 = 0 ∨ b / 64 = 1 ∨ b / 64 = 2 ∨ b / 64 = 3 := by omega

/-- unfold both decoders, split the hypothesis `h : _ = some _`, substitute, split the goal, `omega` -/
macro "crunch" h:ident : tactic => `(tactic|
  (simp only [spec, decode1A, finishA, isCont] at $h:ident ⊢
   repeat' split at $h:ident
   all_goals (try omega)
   all_goals (simp only [Option.some.injEq, Prod.mk.injEq, reduceCtorEq] at $h:ident)
   all_goals (obtain ⟨rfl, rfl⟩ := $h:ident)
   all_goals (repeat' split)
   all_goals first | omega | (simp only [Prod.mk.injEq, Option.some.injEq, and_true, true_and] <;> omega) | (exfalso; omega)))

theorem A_of_spec_1 (a v n : Nat) (ha : a < 256) (h : spec [a] = some (v, n)) :
    decode1A [a] = (some v, n) := by
  have := lo2_cases a; have := hi2_cases a
  crunch h

theorem A_of_spec_2 (a b v n : Nat) (ha : a < 256) (hb : b < 256) (h : spec [a, b] = some (v, n)) :
    decode1A [a, b] = (some v, n) := by
  have := lo2_cases a; have := hi2_cases a; have := q64 b hb
  crunch h

set_option maxHeartbeats 2000000 in
theorem A_of_spec_3 (a b c v n : Nat) (ha : a < 256) (hb : b < 256) (hc : c < 256)
    (h : spec [a, b, c] = some (v, n)) : decode1A [a, b, c] = (some v, n) := by
  have := lo2_cases a; have := hi2_cases a; have := q64 b hb; have := q64 c hc
  crunch h

set_option maxHeartbeats 4000000 in
theorem A_of_spec_4 (a b c d v n : Nat) (r : List Nat) (ha : a < 256) (hb : b < 256) (hc : c < 256)
    (hd : d < 256) (h : spec (a :: b :: c :: d :: r) = some (v, n)) :
    decode1A (a :: b :: c :: d :: r) = (some v, n) := by
  have := lo2_cases a; have := hi2_cases a; have := q64 b hb; have := q64 c hc; have := q64 d hd
  crunch h

theorem spec_of_A_1 (a v n : Nat) (ha : a < 256) (h : decode1A [a] = (some v, n)) :
    spec [a] = some (v, n) := by
  have := lo2_cases a; have := hi2_cases a
  crunch h

theorem spec_of_A_2 (a b v n : Nat) (ha : a < 256) (hb : b < 256)
    (h : decode1A [a, b] = (some v, n)) : spec [a, b] = some (v, n) := by
  have := lo2_cases a; have := hi2_cases a; have := q64 b hb
  crunch h

set_option maxHeartbeats 4000000 in
theorem spec_of_A_3 (a b c v n : Nat) (ha : a < 256) (hb : b < 256) (hc : c < 256)
    (h : decode1A [a, b, c] = (some v, n)) : spec [a, b, c] = some (v, n) := by
  have := lo2_cases a; have := hi2_cases a; have := q64 b hb; have := q64 c hc
  crunch h

set_option maxHeartbeats 8000000 in
theorem spec_of_A_4 (a b c d v n : Nat) (r : List Nat) (ha : a < 256) (hb : b < 256) (hc : c < 256)
    (hd : d < 256) (h : decode1A (a :: b :: c :: d :: r) = (some v, n)) :
    spec (a :: b :: c :: d :: r) = some (v, n) := by
  have := lo2_cases a; have := hi2_cases a
  have := q64 b hb; have := q64 c hc; have := q64 d hd
  crunch h

end UvModel.Utf8
