import UvModel.Utf8
import UvModel.Puny
import UvModel.Wtf8
/-! helper lemmas for the text half of C18: bit operations of idna.c in arithmetic form -/
namespace UvModel.Utf8

theorem and_c0 : ∀ x, x < 256 → ((0xC0 &&& x = 0x80) ↔ (x / 64 = 2)) := by
  set_option maxRecDepth 100000 in decide

/-- the continuation test of idna.c:117 in arithmetic form -/
abbrev ContOk (b c d : Nat) : Prop := b / 64 = 2 ∧ c / 64 = 2 ∧ d / 64 = 2

theorem cont_check (b c d : Nat) (hb : b < 256) (hc : c < 256) (hd : d < 256) :
    (0x80 ≠ (0xC0 &&& b) ∨ 0x80 ≠ (0xC0 &&& c) ∨ 0x80 ≠ (0xC0 &&& d)) ↔ ¬ ContOk b c d := by
  have e : ∀ x, x < 256 → ((0x80 ≠ (0xC0 &&& x)) ↔ ¬ (x / 64 = 2)) := by
    intro x hx; rw [ne_comm, Ne, and_c0 x hx]
  rw [e b hb, e c hc, e d hd]
  unfold ContOk
  omega

theorem and63 (x : Nat) : x &&& 63 = x % 64 := Nat.and_two_pow_sub_one_eq_mod x 6
theorem and7 (x : Nat) : x &&& 7 = x % 8 := Nat.and_two_pow_sub_one_eq_mod x 3
theorem and15 (x : Nat) : x &&& 15 = x % 16 := Nat.and_two_pow_sub_one_eq_mod x 4
theorem and31 (x : Nat) : x &&& 31 = x % 32 := Nat.and_two_pow_sub_one_eq_mod x 5

theorem compose (a b c d : Nat) (hb : b < 64) (hc : c < 64) (hd : d < 64) :
    (a <<< 18) ||| (b <<< 12) ||| (c <<< 6) ||| d = a * 262144 + b * 4096 + c * 64 + d := by
  rw [Nat.or_assoc, Nat.or_assoc]
  have e1 : c <<< 6 ||| d = c * 64 + d := by
    rw [← Nat.shiftLeft_add_eq_or_of_lt (by omega), Nat.shiftLeft_eq]
  have e2 : b <<< 12 ||| (c * 64 + d) = b * 4096 + (c * 64 + d) := by
    rw [← Nat.shiftLeft_add_eq_or_of_lt (by omega), Nat.shiftLeft_eq]
  have e3 : a <<< 18 ||| (b * 4096 + (c * 64 + d)) = a * 262144 + (b * 4096 + (c * 64 + d)) := by
    rw [← Nat.shiftLeft_add_eq_or_of_lt (by omega), Nat.shiftLeft_eq]
  rw [e1, e2, e3]; omega

theorem or80 (x : Nat) (h : x < 128) : 0x80 ||| x = 128 + x := by
  have := Nat.shiftLeft_add_eq_or_of_lt (i := 7) (b := x) (by omega) 1
  simpa using this.symm

/-- arithmetic form of `finish` -/
def finishA (min a b c d used : Nat) : R :=
  if ContOk b c d then
    let v := a * 262144 + (b % 64) * 4096 + (c % 64) * 64 + d % 64
    if v < min ∨ v > 0x10FFFF ∨ (0xD800 ≤ v ∧ v ≤ 0xDFFF) then (none, used) else (some v, used)
  else (none, used)

theorem finish_eq (min a b c d used : Nat) (hb : b < 256) (hc : c < 256) (hd : d < 256) :
    finish min a b c d used = finishA min a b c d used := by
  unfold finish finishA
  by_cases hx : ContOk b c d
  · rw [if_neg ((not_congr (cont_check b c d hb hc hd)).mpr (fun h => h hx)), if_pos hx]
    simp only [and63]
    rw [compose a _ _ _ (Nat.mod_lt _ (by omega)) (Nat.mod_lt _ (by omega)) (Nat.mod_lt _ (by omega))]
    generalize a * 262144 + b % 64 * 4096 + c % 64 * 64 + d % 64 = v
    by_cases h1 : v < min
    · simp [h1]
    · by_cases h2 : v > 0x10FFFF
      · simp [h1, h2]
      · by_cases h3 : v ≥ 0xD800 ∧ v ≤ 0xDFFF
        · simp [h1, h2, h3]
        · simp [h1, h2, h3]
  · rw [if_pos ((cont_check b c d hb hc hd).mpr hx), if_neg hx]

theorem bytes_cons {a : Nat} {l : List Nat} (h : Bytes (a :: l)) : a < 256 ∧ Bytes l :=
  ⟨h a (by simp), fun b hb => h b (by simp [hb])⟩

/-- `decode1` with the bit operations replaced by arithmetic (bytes < 256) -/
def decode1A : List Nat → R
  | [] => (none, 0)
  | a :: rest =>
    if a < 128 then (some a, 1)
    else if a > 0xF7 then (none, 1)
    else if a > 0xEF then
      match rest with
      | b :: c :: d :: _ => finishA 0x10000 (a % 8) b c d 4
      | _ => (none, 1)
    else if a > 0xDF then
      match rest with
      | c :: d :: _ => finishA 0x800 0 (128 + a % 16) c d 3
      | _ => (none, 1)
    else if a > 0xBF then
      match rest with
      | d :: _ => finishA 0x80 0 128 (128 + a % 32) d 2
      | _ => (none, 1)
    else (none, 1)

theorem decode1_eq_A (l : List Nat) (hl : Bytes l) : decode1 l = decode1A l := by
  match l, hl with
  | [], _ => rfl
  | [a], hl =>
    simp [decode1, decode1A, decode1Slow, case0]
  | [a, b], hl =>
    have ha := hl a (by simp); have hb := hl b (by simp)
    simp only [decode1, decode1A, decode1Slow, case1, case0, and31]
    rw [or80 _ (by omega), finish_eq _ _ _ _ _ _ (by omega) (by omega) hb]
    repeat' split
    all_goals first | rfl | omega | (exfalso; omega) | simp_all
  | [a, b, c], hl =>
    have ha := hl a (by simp); have hb := hl b (by simp); have hc := hl c (by simp)
    simp only [decode1, decode1A, decode1Slow, case2, case1, case0, and31, and15]
    rw [or80 _ (by omega), or80 _ (by omega), finish_eq _ _ _ _ _ _ (by omega) (by omega) hb,
      finish_eq _ _ _ _ _ _ (by omega) hb hc]
    repeat' split
    all_goals first | rfl | omega | (exfalso; omega) | simp_all
  | a :: b :: c :: d :: r, hl =>
    have ha := hl a (by simp); have hb := hl b (by simp); have hc := hl c (by simp)
    have hd := hl d (by simp)
    simp only [decode1, decode1A, decode1Slow, case2, case1, case0, and31, and15, and7]
    rw [or80 _ (by omega), or80 _ (by omega), finish_eq _ _ _ _ _ _ (by omega) (by omega) hb,
      finish_eq _ _ _ _ _ _ (by omega) hb hc, finish_eq _ _ _ _ _ _ hb hc hd]
    repeat' split
    all_goals first | rfl | omega | (exfalso; omega) | simp_all
end UvModel.Utf8

/-! ### `decode1A` against the specification (Table 3-7) -/
namespace UvModel.Utf8
set_option linter.unusedSimpArgs false

theorem lo2_cases (a : Nat) : (a = 0xE0 ∧ lo2 a = 0xA0) ∨ (a = 0xF0 ∧ lo2 a = 0x90) ∨
    (a ≠ 0xE0 ∧ a ≠ 0xF0 ∧ lo2 a = 0x80) := by
  unfold lo2; repeat' split
  all_goals omega
theorem hi2_cases (a : Nat) : (a = 0xED ∧ hi2 a = 0x9F) ∨ (a = 0xF4 ∧ hi2 a = 0x8F) ∨
    (a ≠ 0xED ∧ a ≠ 0xF4 ∧ hi2 a = 0xBF) := by
  unfold hi2; repeat' split
  all_goals omega

theorem q64 (b : Nat) (h : b < 256) : b / 64 = 0 ∨ b / 64 = 1 ∨ b / 64 = 2 ∨ b / 64 = 3 := by omega

/-- unfold both decoders, split the hypothesis `h : _ = some _`, substitute, split the goal, `omega` -/
macro "crunch" h:ident : tactic => `(tactic|
  (simp only [spec, decode1A, finishA, isCont] at $h:ident ⊢
   repeat' split at $h:ident
   all_goals (try omega)
   all_goals (simp only [Option.some.injEq, Prod.mk.injEq, reduceCtorEq] at $h:ident)
   all_goals (obtain ⟨rfl, rfl⟩ := $h:ident)
   all_goals (repeat' split)
   all_goals first | omega | (simp only [Prod.mk.injEq, Option.some.injEq, and_true, true_and] <;> omega) | (exfalso; omega)))

theorem A_of_spec_1 (a v n : Nat) (ha : a < 256) (h : spec [a] = some (v, n)) :
    decode1A [a] = (some v, n) := by
  have := lo2_cases a; have := hi2_cases a
  crunch h

theorem A_of_spec_2 (a b v n : Nat) (ha : a < 256) (hb : b < 256) (h : spec [a, b] = some (v, n)) :
    decode1A [a, b] = (some v, n) := by
  have := lo2_cases a; have := hi2_cases a; have := q64 b hb
  crunch h

set_option maxHeartbeats 2000000 in
theorem A_of_spec_3 (a b c v n : Nat) (ha : a < 256) (hb : b < 256) (hc : c < 256)
    (h : spec [a, b, c] = some (v, n)) : decode1A [a, b, c] = (some v, n) := by
  have := lo2_cases a; have := hi2_cases a; have := q64 b hb; have := q64 c hc
  crunch h

set_option maxHeartbeats 4000000 in
theorem A_of_spec_4 (a b c d v n : Nat) (r : List Nat) (ha : a < 256) (hb : b < 256) (hc : c < 256)
    (hd : d < 256) (h : spec (a :: b :: c :: d :: r) = some (v, n)) :
    decode1A (a :: b :: c :: d :: r) = (some v, n) := by
  have := lo2_cases a; have := hi2_cases a; have := q64 b hb; have := q64 c hc; have := q64 d hd
  crunch h

theorem spec_of_A_1 (a v n : Nat) (ha : a < 256) (h : decode1A [a] = (some v, n)) :
    spec [a] = some (v, n) := by
  have := lo2_cases a; have := hi2_cases a
  crunch h

theorem spec_of_A_2 (a b v n : Nat) (ha : a < 256) (hb : b < 256)
    (h : decode1A [a, b] = (some v, n)) : spec [a, b] = some (v, n) := by
  have := lo2_cases a; have := hi2_cases a; have := q64 b hb
  crunch h

set_option maxHeartbeats 4000000 in
theorem spec_of_A_3 (a b c v n : Nat) (ha : a < 256) (hb : b < 256) (hc : c < 256)
    (h : decode1A [a, b, c] = (some v, n)) : spec [a, b, c] = some (v, n) := by
  have := lo2_cases a; have := hi2_cases a; have := q64 b hb; have := q64 c hc
  crunch h

set_option maxHeartbeats 8000000 in
theorem spec_of_A_4 (a b c d v n : Nat) (r : List Nat) (ha : a < 256) (hb : b < 256) (hc : c < 256)
    (hd : d < 256) (h : decode1A (a :: b :: c :: d :: r) = (some v, n)) :
    spec (a :: b :: c :: d :: r) = some (v, n) := by
  have := lo2_cases a; have := hi2_cases a
  have := q64 b hb; have := q64 c hc; have := q64 d hd
  crunch h

end UvModel.Utf8

/-! ### Punycode / ToASCII: destination bounds, error codes, rejection of ill-formed input -/
namespace UvModel.Puny
open UvModel.Utf8

/-- the destination is within bounds -/
def Buf.ok (b : Buf) : Prop := b.out.length ≤ b.cap

/-- `b'` is `b` after some more guarded stores: same capacity, old contents kept as a prefix,
    still within bounds -/
def Ext (b b' : Buf) : Prop := b'.cap = b.cap ∧ b.out <+: b'.out ∧ (b.ok → b'.ok)

theorem Ext.refl (b : Buf) : Ext b b := ⟨rfl, List.prefix_refl _, id⟩
theorem Ext.trans {a b c : Buf} (h1 : Ext a b) (h2 : Ext b c) : Ext a c :=
  ⟨h2.1.trans h1.1, h1.2.1.trans h2.2.1, fun h => h2.2.2 (h1.2.2 h)⟩

theorem ext_put (b : Buf) (c : Nat) : Ext b (b.put c) := by
  unfold Buf.put
  split
  · refine ⟨rfl, List.prefix_append _ _, fun _ => ?_⟩
    simp only [Buf.ok, List.length_append, List.length_singleton]; omega
  · exact Ext.refl b

theorem writeAscii_ext (cps : List UInt32) (x h : UInt32) (b : Buf) : Ext b (writeAscii cps x h b) := by
  induction cps generalizing x b with
  | nil => exact Ext.refl b
  | cons c cs ih =>
    unfold writeAscii
    split
    · exact ih x b
    · simp only []
      split
      · exact ext_put b _
      · exact (ext_put b _).trans (ih _ _)

theorem digits_ext (bias k q : Nat) (b : Buf) : Ext b (digits bias k q b) := by
  fun_induction digits bias k q b with
  | case1 k q b h => exact ext_put b _
  | case2 k q b h x y ih => exact (ext_put b _).trans ih

theorem inner_ext (n : UInt32) (cps : List UInt32) (s : St) : Ext s.buf (inner n cps s).1.buf := by
  induction cps generalizing s with
  | nil => exact Ext.refl _
  | cons c cs ih =>
    unfold inner
    simp only []
    generalize (if c < n then s.delta + 1 else s.delta) = d1
    by_cases h1 : c < n ∧ d1 = 0
    · rw [if_pos h1]; exact Ext.refl _
    · rw [if_neg h1]
      by_cases h2 : c ≠ n
      · rw [if_pos h2]; exact ih _
      · rw [if_neg h2]; exact (digits_ext _ _ _ _).trans (ih _)

theorem outer_ext (fuel : Nat) (cps : List UInt32) (n : UInt32) (s : St) :
    Ext s.buf (outer fuel cps n s).2 := by
  induction fuel generalizing n s with
  | zero => exact Ext.refl _
  | succ f ih =>
    unfold outer
    split
    · simp only []
      split
      · exact Ext.refl _
      · have hi := inner_ext (minGE n cps 0xFFFFFFFF) cps { s with delta := s.delta + (minGE n cps 0xFFFFFFFF - n) * (s.h + 1) }
        split
        · exact hi
        · exact hi.trans (ih _ _)
    · exact Ext.refl _

theorem label_ext (bytes : List Nat) (b : Buf) : Ext b (label bytes b).2 := by
  unfold label
  split
  · exact Ext.refl b
  · simp only []
    have h4 : Ext b ((((b.put 120).put 110).put 45).put 45) :=
      (((ext_put b _).trans (ext_put _ _)).trans (ext_put _ _)).trans (ext_put _ _)
    split <;> split <;> try split
    all_goals first
      | exact h4.trans (writeAscii_ext _ _ _ _)
      | exact writeAscii_ext _ _ _ _
      | exact (h4.trans (writeAscii_ext _ _ _ _)).trans ((ext_put _ _).trans (outer_ext _ _ _ _))
      | exact (h4.trans (writeAscii_ext _ _ _ _)).trans (outer_ext _ _ _ _)
      | exact (writeAscii_ext _ _ _ _).trans ((ext_put _ _).trans (outer_ext _ _ _ _))
      | exact (writeAscii_ext _ _ _ _).trans (outer_ext _ _ _ _)

theorem last_ext (acc : List Nat) (b : Buf) :
    Ext b (if acc ≠ [] then label acc b else ((0 : Int), b)).2 := by
  split
  · exact label_ext acc b
  · exact Ext.refl b

theorem scan_ext (acc rest : List Nat) (b : Buf) : Ext b (scan acc rest b).2 := by
  fun_induction scan acc rest b with
  | case1 acc b r h => exact last_ext acc b
  | case2 acc b r h1 h2 => exact last_ext acc b
  | case3 acc b r h1 h2 b' =>
    have hr := last_ext acc b
    refine ⟨hr.1, hr.2.1.trans (List.prefix_append _ _), fun _ => ?_⟩
    show (r.2.out ++ [0]).length ≤ r.2.cap
    simp only [List.length_append, List.length_singleton]; omega
  | case4 acc b a r n hx => exact Ext.refl b
  | case5 acc b a r c n hx hd ih => exact ih
  | case6 acc b a r c n hx hd res h => exact label_ext acc b
  | case7 acc b a r c n hx hd res h ih => exact ((label_ext acc b).trans (ext_put _ _)).trans ih

/-- the error codes `uv__idna_toascii_label` can return -/
theorem label_rc (bytes : List Nat) (b : Buf) :
    0 ≤ (label bytes b).1 ∨ (label bytes b).1 = UV_EINVAL ∨ (label bytes b).1 = UV_E2BIG ∨
      (label bytes b).1 = FUEL_OUT := by
  have ho : ∀ fuel cps n s, (outer fuel cps n s).1 = 0 ∨ (outer fuel cps n s).1 = UV_E2BIG ∨
      (outer fuel cps n s).1 = FUEL_OUT := by
    intro fuel
    induction fuel with
    | zero => intro cps n s; right; right; rfl
    | succ f ih =>
      intro cps n s
      unfold outer
      split
      · simp only []
        split
        · right; left; rfl
        · split
          · right; left; rfl
          · exact ih _ _ _
      · left; rfl
  unfold label
  split
  · right; left; rfl
  · simp only []
    split
    · left; exact Int.natCast_nonneg _
    · rcases ho _ _ _ _ with h | h | h
      · left; rw [h]; exact Int.le_refl 0
      · right; right; left; exact h
      · right; right; right; exact h


theorem bytes_drop {l : List Nat} (h : Bytes l) (k : Nat) : Bytes (l.drop k) :=
  fun b hb => h b (List.mem_of_mem_drop hb)

theorem scan_rejects (acc rest : List Nat) (b : Buf) (hb : Bytes rest) (h : specAll rest = none)
    (iff : ∀ l, Bytes l → ∀ v n, decode1 l = (some v, n) → spec l = some (v, n)) :
    (scan acc rest b).1 < 0 := by
  fun_induction scan acc rest b with
  | case1 acc b r h1 => simp [specAll] at h
  | case2 acc b r h1 h2 => simp [specAll] at h
  | case3 acc b r h1 h2 b' => simp [specAll] at h
  | case4 acc b a r n hx => show UV_EINVAL < 0; decide
  | case5 acc b a r c n hx hd ih =>
    have hs := iff _ hb c n hx
    rw [specAll, hs] at h
    simp only [Option.map_eq_none_iff] at h
    exact ih (bytes_drop (bytes_cons hb).2 _) h
  | case6 acc b a r c n hx hd res h1 => exact h1
  | case7 acc b a r c n hx hd res h1 ih =>
    have hs := iff _ hb c n hx
    rw [specAll, hs] at h
    simp only [Option.map_eq_none_iff] at h
    exact ih (bytes_drop (bytes_cons hb).2 _) h

theorem scan_success (acc rest : List Nat) (b : Buf) (h : 0 ≤ (scan acc rest b).1) :
    ∃ pre, (scan acc rest b).2.out = pre ++ [0] ∧ (scan acc rest b).1 = ((pre.length + 1 : Nat) : Int) := by
  fun_induction scan acc rest b with
  | case1 acc b r h1 => omega
  | case2 acc b r h1 h2 => exact absurd (show (0 : Int) ≤ UV_EINVAL from h) (by decide)
  | case3 acc b r h1 h2 b' => exact ⟨r.2.out, rfl, by simp [b']⟩
  | case4 acc b a r n hx => exact absurd (show (0 : Int) ≤ UV_EINVAL from h) (by decide)
  | case5 acc b a r c n hx hd ih => exact ih h
  | case6 acc b a r c n hx hd res h1 => omega
  | case7 acc b a r c n hx hd res h1 ih => exact ih h


theorem scan_rc (acc rest : List Nat) (b : Buf) :
    0 ≤ (scan acc rest b).1 ∨ (scan acc rest b).1 = UV_EINVAL ∨ (scan acc rest b).1 = UV_E2BIG ∨
      (scan acc rest b).1 = FUEL_OUT := by
  fun_induction scan acc rest b with
  | case1 acc b r h1 =>
    have : r = if acc ≠ [] then label acc b else ((0 : Int), b) := rfl
    by_cases ha : acc ≠ []
    · rw [if_pos ha] at this; rw [this]; exact label_rc acc b
    · rw [if_neg ha] at this; rw [this] at h1; exact absurd (show (0 : Int) < 0 from h1) (by decide)
  | case2 acc b r h1 h2 => right; left; rfl
  | case3 acc b r h1 h2 b' => left; exact Int.natCast_nonneg _
  | case4 acc b a r n hx => right; left; rfl
  | case5 acc b a r c n hx hd ih => exact ih
  | case6 acc b a r c n hx hd res h1 => exact label_rc acc b
  | case7 acc b a r c n hx hd res h1 ih => exact ih

end UvModel.Puny

/-! ### WTF-8 / UTF-16 converters: arithmetic form, `decode1 ∘ encode`, the conversion loops -/
namespace UvModel.Wtf8
set_option linter.unusedSimpArgs false
open UvModel.Utf8 (and_c0 and63 or80)

theorem orC0 (x : Nat) (h : x < 64) : 0xC0 ||| x = 192 + x := by
  have := Nat.shiftLeft_add_eq_or_of_lt (i := 6) (b := x) (by omega) 3
  simpa using this.symm
theorem orE0 (x : Nat) (h : x < 32) : 0xE0 ||| x = 224 + x := by
  have := Nat.shiftLeft_add_eq_or_of_lt (i := 5) (b := x) (by omega) 7
  simpa using this.symm
theorem orF0 (x : Nat) (h : x < 16) : 0xF0 ||| x = 240 + x := by
  have := Nat.shiftLeft_add_eq_or_of_lt (i := 4) (b := x) (by omega) 15
  simpa using this.symm
theorem shr (x k : Nat) : x >>> k = x / 2 ^ k := Nat.shiftRight_eq_div_pow x k
theorem shl6_or (hi lo : Nat) (h : lo < 64) : (hi <<< 6) ||| lo = hi * 64 + lo := by
  rw [← Nat.shiftLeft_add_eq_or_of_lt (by omega), Nat.shiftLeft_eq]
theorem and7FF (x : Nat) : 0x7FF &&& x = x % 2048 := by
  rw [Nat.and_comm]; exact Nat.and_two_pow_sub_one_eq_mod x 11
theorem andFFFF (x : Nat) : 0xFFFF &&& x = x % 65536 := by
  rw [Nat.and_comm]; exact Nat.and_two_pow_sub_one_eq_mod x 16
theorem and1FFFFF (x : Nat) : x &&& 0x1FFFFF = x % 2097152 := Nat.and_two_pow_sub_one_eq_mod x 21
theorem and3FF (x : Nat) : x &&& 0x3FF = x % 1024 := Nat.and_two_pow_sub_one_eq_mod x 10
theorem contC0 (x : Nat) (h : x < 256) : (x &&& 0xC0 ≠ 0x80) ↔ ¬ (x / 64 = 2) := by
  rw [Nat.and_comm, Ne, and_c0 x h]

/-- arithmetic form of `encode` -/
theorem encode_eq (cp : Nat) (h : cp < 0x110000) : encode cp =
    if cp < 0x80 then [cp]
    else if cp < 0x800 then [192 + cp / 64, 128 + cp % 64]
    else if cp < 0x10000 then [224 + cp / 4096, 128 + cp / 64 % 64, 128 + cp % 64]
    else [240 + cp / 262144, 128 + cp / 4096 % 64, 128 + cp / 64 % 64, 128 + cp % 64] := by
  unfold encode
  simp only [and63, shr]
  split
  · rfl
  · split
    · rw [orC0 _ (by omega), or80 _ (by omega)]
    · split
      · rw [orE0 _ (by omega), or80 _ (by omega), or80 _ (by omega)]
      · rw [orF0 _ (by omega), or80 _ (by omega), or80 _ (by omega), or80 _ (by omega)]

/-- arithmetic form of `decode1` -/
def decode1A (l : List Nat) : Option Nat × Nat :=
  let b1 := l.headD 0
  if b1 ≤ 0x7F then (some b1, 0)
  else if b1 < 0xC2 then (none, 0)
  else
    let b2 := (l.drop 1).headD 0
    if ¬ (b2 / 64 = 2) then (none, 1)
    else if b1 ≤ 0xDF then (some ((b1 * 64 + b2 % 64) % 2048), 1)
    else
      let b3 := (l.drop 2).headD 0
      if ¬ (b3 / 64 = 2) then (none, 2)
      else if b1 ≤ 0xEF then (some (((b1 * 64 + b2 % 64) * 64 + b3 % 64) % 65536), 2)
      else
        let b4 := (l.drop 3).headD 0
        if ¬ (b4 / 64 = 2) then (none, 3)
        else if b1 ≤ 0xF4 ∧ (((b1 * 64 + b2 % 64) * 64 + b3 % 64) * 64 + b4 % 64) % 2097152 ≤ 0x10FFFF then
          (some ((((b1 * 64 + b2 % 64) * 64 + b3 % 64) * 64 + b4 % 64) % 2097152), 3)
        else (none, 3)

theorem headD_lt (l : List Nat) (k : Nat) (h : ∀ b ∈ l, b < 256) : (l.drop k).headD 0 < 256 := by
  cases hd : l.drop k with
  | nil => simp
  | cons x r =>
    have : x ∈ l := List.mem_of_mem_drop (by rw [hd]; simp)
    simpa using h x this

theorem decode1_eq_A (l : List Nat) (h : ∀ b ∈ l, b < 256) : decode1 l = decode1A l := by
  unfold decode1 decode1A
  simp only [and63, and7FF, andFFFF, and1FFFFF]
  have h2 := headD_lt l 1 h; have h3 := headD_lt l 2 h; have h4 := headD_lt l 3 h
  have e : ∀ hi x, (hi <<< 6) ||| (x % 64) = hi * 64 + x % 64 :=
    fun hi x => shl6_or _ _ (Nat.mod_lt _ (by omega))
  simp only [contC0 _ h2, contC0 _ h3, contC0 _ h4, e]

theorem encode_bytes (cp : Nat) (h : cp < 0x110000) : ∀ b ∈ encode cp, b < 256 := by
  rw [encode_eq cp h]
  repeat' split
  all_goals (intro b hb; simp only [List.mem_cons, List.not_mem_nil, or_false] at hb; omega)

/-- decoding what `encode` produced gives the code point back, whatever follows -/
theorem decode1_encode (cp : Nat) (h : cp < 0x110000) (tail : List Nat) (ht : ∀ b ∈ tail, b < 256) :
    decode1 (encode cp ++ tail) = (some cp, (encode cp).length - 1) := by
  rw [decode1_eq_A _ (by
    intro b hb; rcases List.mem_append.mp hb with h1 | h1
    · exact encode_bytes cp h b h1
    · exact ht b h1)]
  rw [encode_eq cp h]
  have e1 : cp / 64 / 64 = cp / 4096 := by rw [Nat.div_div_eq_div_mul]
  have e2 : cp / 4096 / 64 = cp / 262144 := by rw [Nat.div_div_eq_div_mul]
  by_cases h1 : cp < 0x80
  · simp only [if_pos h1, decode1A, List.cons_append, List.nil_append, List.headD_cons]
    rw [if_pos (by omega)]; rfl
  · by_cases h2 : cp < 0x800
    · simp only [if_neg h1, if_pos h2, decode1A, List.cons_append, List.nil_append, List.headD_cons,
        List.drop_succ_cons, List.drop_zero, List.length_cons, List.length_nil]
      repeat' split
      all_goals first | omega | (simp only [Prod.mk.injEq, Option.some.injEq, and_true, true_and] <;> omega) | (exfalso; omega)
    · by_cases h3 : cp < 0x10000
      · simp only [if_neg h1, if_neg h2, if_pos h3, decode1A, List.cons_append, List.nil_append,
          List.headD_cons, List.drop_succ_cons, List.drop_zero, List.length_cons, List.length_nil]
        repeat' split
        all_goals first | omega | (simp only [Prod.mk.injEq, Option.some.injEq, and_true, true_and] <;> omega) | (exfalso; omega)
      · simp only [if_neg h1, if_neg h2, if_neg h3, decode1A, List.cons_append, List.nil_append,
          List.headD_cons, List.drop_succ_cons, List.drop_zero, List.length_cons, List.length_nil]
        repeat' split
        all_goals first | omega | (simp only [Prod.mk.injEq, Option.some.injEq, and_true, true_and] <;> omega) | (exfalso; omega)

/-- `uv_wtf8_length_as_utf16` counts exactly the units `uv_wtf8_to_utf16` stores, and fails (-1)
    exactly when the converter would (for every byte string, valid or not) -/
theorem lengthAsUtf16_eq (l : List Nat) (acc : Nat) :
    lengthAsUtf16 l acc = (toUtf16 l).map (fun us => acc + us.length) := by
  fun_induction lengthAsUtf16 l acc with
  | case1 l acc n hd => rw [toUtf16, hd]; rfl
  | case2 l acc cp adv hd acc' hnz ih =>
    rw [toUtf16, hd]
    simp only [dif_pos hnz, ih, Option.map_map]
    congr 1; funext us
    simp only [Function.comp, List.length_append, acc']
    split <;> simp <;> omega
  | case3 l acc cp adv hd acc' hz =>
    rw [toUtf16, hd]
    simp only [dif_neg hz, Option.map_some, acc']
    split <;> simp

/-- WTF-8 encoding of a UTF-16 unit list as a pure function: surrogate pairs are combined, every
    other unit (unpaired surrogates included) is encoded on its own -/
def encU : List Nat → List Nat
  | [] => []
  | [u] => encode u
  | u :: next :: rest =>
    if isHi u ∧ isLo next then encode (pairValue u next) ++ encU rest
    else encode u ++ encU (next :: rest)

/-- units are non-zero 16-bit values -/
def Units (u : List Nat) : Prop := ∀ x ∈ u, 0 < x ∧ x < 65536

theorem units_cons {x : Nat} {l : List Nat} (h : Units (x :: l)) : (0 < x ∧ x < 65536) ∧ Units l :=
  ⟨h x (by simp), fun y hy => h y (by simp [hy])⟩

theorem pairValue_bounds (u n : Nat) (h : isHi u ∧ isLo n) :
    0x10000 ≤ pairValue u n ∧ pairValue u n < 0x110000 ∧
    (pairValue u n - 0x10000) / 1024 + 0xD800 = u ∧ (pairValue u n - 0x10000) % 1024 + 0xDC00 = n := by
  unfold pairValue isHi isLo at *
  rw [Nat.shiftLeft_eq]
  omega

theorem encode_len (cp : Nat) : 1 ≤ (encode cp).length ∧ (0x10000 ≤ cp → (encode cp).length = 4) := by
  unfold encode
  by_cases h1 : cp < 0x80
  · simp only [if_pos h1, List.length_cons, List.length_nil]; exact ⟨by omega, fun h => by omega⟩
  · by_cases h2 : cp < 0x800
    · simp only [if_neg h1, if_pos h2, List.length_cons, List.length_nil]; exact ⟨by omega, fun h => by omega⟩
    · by_cases h3 : cp < 0x10000
      · simp only [if_neg h1, if_neg h2, if_pos h3, List.length_cons, List.length_nil]
        exact ⟨by omega, fun h => by omega⟩
      · simp only [if_neg h1, if_neg h2, if_neg h3, List.length_cons, List.length_nil]
        simp

theorem lengthAsWtf8_eq (z : Bool) (u : List Nat) (hu : Units u) :
    lengthAsWtf8 z u = (encU u).length := by
  fun_induction lengthAsWtf8 z u with
  | case1 => rfl
  | case2 u hz => exact absurd hz.2 (by have := (units_cons hu).1; omega)
  | case3 u hz => rfl
  | case4 u next rest hz => exact absurd hz.2 (by have := (units_cons hu).1; omega)
  | case5 u next rest hz hp ih =>
    rw [encU, if_pos hp, List.length_append, (encode_len _).2 (pairValue_bounds u next hp).1,
      ih (units_cons (units_cons hu).2).2]
  | case6 u next rest hz hp ih =>
    rw [encU, if_neg hp, List.length_append, ih (units_cons hu).2]

/-- one step of `encU`, in the shape the conversion loop uses -/
theorem encU_cons (u : Nat) (rest : List Nat) :
    encU (u :: rest) =
      (match rest with
        | next :: r => if isHi u ∧ isLo next then encode (pairValue u next) ++ encU r
                       else encode u ++ encU (next :: r)
        | [] => encode u) := by
  cases rest with
  | nil => rfl
  | cons next r => rw [encU]

theorem toWtf8Loop_fits (z : Bool) (cap : Nat) (src out : List Nat) (tlen : Nat) (hu : Units src)
    (hcap : out.length + (encU src).length ≤ cap) :
    ∃ t, toWtf8Loop z cap src out tlen =
      (out ++ encU src, t, [], z && ((out ++ encU src).length == cap)) := by
  fun_induction toWtf8Loop z cap src out tlen with
  | case1 out tlen =>
    refine ⟨tlen, ?_⟩
    simp only [encU, List.append_nil, Prod.mk.injEq, true_and]
    cases z <;> simp [bne]
  | case2 u rest out tlen hfull =>
    have := (encode_len u).1
    rw [encU_cons] at hcap
    cases rest with
    | nil => simp only [] at hcap; omega
    | cons next r =>
      simp only [] at hcap
      split at hcap
      · have := (encode_len (pairValue u next)).1; simp only [List.length_append] at hcap; omega
      · simp only [List.length_append] at hcap; omega
  | case3 u rest out tlen hfull hz => exact absurd hz.2 (by have := (units_cons hu).1; omega)
  | case4 u rest out tlen hfull hz pair cp bs room hbig =>
    exfalso
    rw [encU_cons] at hcap
    cases rest with
    | nil =>
      simp only [] at hcap
      have : bs = encode u := by simp [bs, cp, pair]
      rw [this] at hbig; omega
    | cons next r =>
      simp only [] at hcap
      by_cases hp : isHi u ∧ isLo next
      · rw [if_pos hp, List.length_append] at hcap
        have : bs = encode (pairValue u next) := by simp [bs, cp, pair, hp]
        rw [this] at hbig; omega
      · rw [if_neg hp, List.length_append] at hcap
        have : bs = encode u := by simp [bs, cp, pair, hp]
        rw [this] at hbig; omega
  | case5 u rest out tlen hfull hz pair cp bs room hbig out' hpair ih =>
    cases rest with
    | nil => simp [pair] at hpair
    | cons next r =>
      have hp : isHi u ∧ isLo next := by simpa [pair] using hpair
      have hbs : bs = encode (pairValue u next) := by simp [bs, cp, pair, hp]
      have he : encU (u :: next :: r) = bs ++ encU r := by rw [encU, if_pos hp, hbs]
      rw [he] at hcap ⊢
      have := ih (units_cons (units_cons hu).2).2 (by
        simp only [out', List.length_append] at hcap ⊢; simp only [List.drop_succ_cons, List.drop_zero]; omega)
      simp only [List.drop_succ_cons, List.drop_zero, out', List.append_assoc] at this ⊢
      exact this
  | case6 u rest out tlen hfull hz pair cp bs room hbig out' hpair ih =>
    have hbs : bs = encode u := by simp [bs, cp, hpair]
    have he : encU (u :: rest) = bs ++ encU rest := by
      rw [encU_cons, hbs]
      cases rest with
      | nil => simp [encU]
      | cons next r =>
        have hp : ¬ (isHi u ∧ isLo next) := by simpa [pair] using hpair
        simp only [if_neg hp]
    rw [he] at hcap ⊢
    have := ih (units_cons hu).2 (by simp only [out', List.length_append] at hcap ⊢; omega)
    simp only [out', List.append_assoc] at this ⊢
    exact this

/-- allocation mode of `uv_utf16_to_wtf8`: success, exactly `encU src` plus the terminator,
    reported length = `uv_utf16_length_as_wtf8` -/
theorem toWtf8_alloc (z : Bool) (src : List Nat) (hu : Units src) :
    toWtf8 z src none = ⟨0, encU src ++ [0], (encU src).length⟩ := by
  unfold toWtf8
  simp only [lengthAsWtf8_eq z src hu]
  obtain ⟨t, ht⟩ := toWtf8Loop_fits z (encU src).length src [] 0 hu (by simp)
  rw [ht]
  simp only [List.nil_append, List.headD_nil, ne_eq, not_true_eq_false, if_false, and_self, and_true]
  cases z <;> simp

theorem encU_bytes (u : List Nat) (hu : Units u) : ∀ b ∈ encU u, b < 256 := by
  fun_induction encU u with
  | case1 => simp
  | case2 u => exact encode_bytes u (by have := (units_cons hu).1; omega)
  | case3 u next rest hp ih =>
    intro b hb
    rcases List.mem_append.mp hb with h | h
    · exact encode_bytes _ (pairValue_bounds u next hp).2.1 b h
    · exact ih (units_cons (units_cons hu).2).2 b h
  | case4 u next rest hp ih =>
    intro b hb
    rcases List.mem_append.mp hb with h | h
    · exact encode_bytes u (by have := (units_cons hu).1; omega) b h
    · exact ih (units_cons hu).2 b h

/-- the last byte of an encoded non-zero code point is not 0, so the `do … while` loops go on -/
theorem encode_last_ne (cp : Nat) (h0 : 0 < cp) (h : cp < 0x110000) (tail : List Nat) :
    ((encode cp ++ tail).drop ((encode cp).length - 1)).headD 0 ≠ 0 := by
  rw [encode_eq cp h]
  repeat' split
  all_goals (simp <;> omega)

theorem toUtf16_encode (cp : Nat) (h0 : 0 < cp) (h : cp < 0x110000) (tail : List Nat)
    (ht : ∀ b ∈ tail, b < 256) :
    toUtf16 (encode cp ++ tail) = (toUtf16 tail).map
      ((if cp > 0xFFFF then [((cp - 0x10000) >>> 10) + 0xD800, ((cp - 0x10000) &&& 0x3FF) + 0xDC00]
        else [cp]) ++ ·) := by
  rw [toUtf16, decode1_encode cp h tail ht]
  simp only [dif_pos (encode_last_ne cp h0 h tail)]
  have hl := (encode_len cp).1
  rw [show (encode cp).length - 1 + 1 = (encode cp).length by omega, List.drop_left']
  rfl

theorem toUtf16_nil : toUtf16 [] = some [0] := by
  rw [toUtf16]; simp [decode1]

/-- decoding the WTF-8 form of a unit list gives the list back (plus the terminator) -/
theorem toUtf16_encU (u : List Nat) (hu : Units u) : toUtf16 (encU u) = some (u ++ [0]) := by
  fun_induction encU u with
  | case1 => exact toUtf16_nil
  | case2 u =>
    have hb := (units_cons hu).1
    have := toUtf16_encode u hb.1 (by omega) [] (by simp)
    rw [List.append_nil] at this
    rw [this, toUtf16_nil, if_neg (by omega)]; rfl
  | case3 u next rest hp ih =>
    have pb := pairValue_bounds u next hp
    rw [toUtf16_encode _ (by omega) pb.2.1 _ (encU_bytes rest (units_cons (units_cons hu).2).2),
      ih (units_cons (units_cons hu).2).2, if_pos (by omega)]
    simp only [shr, and3FF, Option.map_some]
    rw [show (2 : Nat) ^ 10 = 1024 from rfl, pb.2.2.1, pb.2.2.2]; rfl
  | case4 u next rest hp ih =>
    have hb := (units_cons hu).1
    rw [toUtf16_encode u hb.1 (by omega) _ (encU_bytes _ (units_cons hu).2), ih (units_cons hu).2,
      if_neg (by omega)]; rfl

/-- caller-supplied target that is large enough: same result as the allocating mode -/
theorem toWtf8_provided (z : Bool) (src : List Nat) (hu : Units src) (n : Nat)
    (hn : (encU src).length ≤ n) :
    toWtf8 z src (some n) = ⟨0, encU src ++ [0], (encU src).length⟩ := by
  unfold toWtf8
  obtain ⟨t, ht⟩ := toWtf8Loop_fits z n src [] 0 hu (by simpa using hn)
  simp only [ht]
  simp only [List.nil_append, List.headD_nil, ne_eq, and_true]
  by_cases he : (encU src).length = n
  · cases z <;> simp [he]
  · cases z <;> simp [he]
end UvModel.Wtf8

/-! ### ASCII labels, the `xn--` prefix, whole-string decoding -/
namespace UvModel.Puny
open UvModel.Utf8

theorem decodeAll_ascii (l : List Nat) (h : ∀ x ∈ l, x < 128) : decodeAll l = some l := by
  induction l with
  | nil => rw [decodeAll]
  | cons a r ih =>
    have ha : a < 128 := h a (by simp)
    rw [decodeAll]
    simp only [decode1, if_pos ha, Nat.sub_self, List.drop_zero]
    rw [ih (fun x hx => h x (by simp [hx]))]; rfl

theorem u32_lt128 (a : Nat) (h : a < 128) : a.toUInt32 < 128 := by
  rw [UInt32.lt_iff_toNat_lt]
  simp only [Nat.toUInt32, UInt32.toNat_ofNat']
  show a % 4294967296 < 128
  omega

/-- the label is all ASCII (as code points) -/
def AsciiCps (cps : List UInt32) : Prop := ∀ c ∈ cps, c < 128

theorem countLoop_ascii (cps : List UInt32) (hc : AsciiCps cps) (h todo : UInt32) :
    countLoop cps h todo = (h + UInt32.ofNat cps.length, todo) := by
  induction cps generalizing h with
  | nil => simp [countLoop]
  | cons c cs ih =>
    rw [countLoop, if_pos (hc c (by simp)), ih (fun x hx => hc x (by simp [hx]))]
    congr 1
    apply UInt32.toNat_inj.mp
    simp only [UInt32.toNat_add, UInt32.toNat_ofNat', List.length_cons, UInt32.toNat_one]
    omega

/-- `n` guarded stores -/
def putAll (b : Buf) (l : List Nat) : Buf := l.foldl Buf.put b

theorem writeAscii_ascii (cs : List UInt32) (hc : AsciiCps cs) (x h : UInt32) (b : Buf)
    (hh : h.toNat = x.toNat + cs.length) (hlt : x.toNat + cs.length < 4294967296) :
    writeAscii cs x h b = putAll b (cs.map UInt32.toNat) := by
  induction cs generalizing x b with
  | nil => rfl
  | cons c cs ih =>
    have hc1 : ¬ c > 127 := by
      have := hc c (by simp)
      rw [UInt32.lt_iff_toNat_lt] at this
      rw [gt_iff_lt, UInt32.lt_iff_toNat_lt]
      have e1 : (128 : UInt32).toNat = 128 := rfl
      have e2 : (127 : UInt32).toNat = 127 := rfl
      omega
    rw [writeAscii, if_neg hc1]
    simp only [List.length_cons] at hh hlt
    have hx1 : (x + 1).toNat = x.toNat + 1 := by
      rw [UInt32.toNat_add, UInt32.toNat_one]; omega
    simp only []
    by_cases he : x + 1 = h
    · rw [if_pos he]
      have : cs = [] := by
        have := congrArg UInt32.toNat he
        rw [hx1, hh] at this
        exact List.eq_nil_of_length_eq_zero (by omega)
      subst this; rfl
    · rw [if_neg he, ih (fun y hy => hc y (by simp [hy])) (x + 1) (b.put c.toNat) (by omega) (by omega)]
      rfl

theorem map_toNat_toUInt32 (l : List Nat) (h : ∀ x ∈ l, x < 128) :
    (l.map Nat.toUInt32).map UInt32.toNat = l := by
  induction l with
  | nil => rfl
  | cons a r ih =>
    have ha := h a (by simp)
    simp only [List.map_cons, ih (fun x hx => h x (by simp [hx]))]
    congr 1
    simp only [Nat.toUInt32, UInt32.toNat_ofNat']
    show a % 4294967296 = a
    omega

/-- an all-ASCII label is copied unchanged (through the guarded stores), no "xn--", result = length -/
theorem label_ascii (bytes : List Nat) (b : Buf) (h : ∀ x ∈ bytes, x < 128)
    (hlen : bytes.length < 4294967296) :
    label bytes b = ((bytes.length : Int), putAll b bytes) := by
  have hc : AsciiCps (bytes.map Nat.toUInt32) := by
    intro c hcm
    obtain ⟨a, ha, rfl⟩ := List.mem_map.mp hcm
    exact u32_lt128 a (h a ha)
  unfold label
  rw [decodeAll_ascii bytes h]
  simp only [countLoop_ascii _ hc, List.length_map]
  have h0 : (0 : UInt32) + UInt32.ofNat bytes.length = UInt32.ofNat bytes.length := by
    apply UInt32.toNat_inj.mp; simp
  have hn : (UInt32.ofNat bytes.length).toNat = bytes.length := by
    rw [UInt32.toNat_ofNat']; show bytes.length % 4294967296 = _; omega
  rw [h0, if_pos trivial, if_neg (by decide), hn,
    writeAscii_ascii _ hc 0 _ b (by rw [hn]; simp) (by simpa using hlen), map_toNat_toUInt32 bytes h]

theorem putAll_fits (l : List Nat) (b : Buf) (h : b.out.length + l.length ≤ b.cap) :
    (putAll b l).out = b.out ++ l ∧ (putAll b l).cap = b.cap := by
  induction l generalizing b with
  | nil => simp [putAll]
  | cons a r ih =>
    simp only [List.length_cons] at h
    have hp : b.put a = { b with out := b.out ++ [a] } := by
      unfold Buf.put; rw [if_pos (by omega)]
    have := ih (b.put a) (by rw [hp]; simp; omega)
    simp only [putAll, List.foldl_cons] at this ⊢
    rw [this.1, this.2, hp]; simp
end UvModel.Puny

namespace UvModel.Utf8
set_option linter.unusedSimpArgs false

theorem spec_le (l : List Nat) (hl : Bytes l) (v n : Nat) (h : spec l = some (v, n)) : v ≤ 0x10FFFF := by
  match l, hl with
  | [], _ => simp [spec] at h
  | a :: rest, hl =>
    have ha := hl a (by simp)
    have := lo2_cases a; have := hi2_cases a
    simp only [spec, isCont] at h
    repeat' split at h
    all_goals (simp only [Option.some.injEq, Prod.mk.injEq, reduceCtorEq] at h)
    all_goals (obtain ⟨rfl, rfl⟩ := h)
    all_goals omega

/-- `uv__utf8_decode1` against Table 3-7, both directions -/
theorem decode1_iff_spec (l : List Nat) (hl : Bytes l) (v n : Nat) :
    decode1 l = (some v, n) ↔ spec l = some (v, n) := by
  rw [decode1_eq_A l hl]
  match l, hl with
  | [], _ => simp [spec, decode1A]
  | [a], hl =>
    exact ⟨spec_of_A_1 a v n (hl a (by simp)), A_of_spec_1 a v n (hl a (by simp))⟩
  | [a, b], hl =>
    exact ⟨spec_of_A_2 a b v n (hl a (by simp)) (hl b (by simp)),
           A_of_spec_2 a b v n (hl a (by simp)) (hl b (by simp))⟩
  | [a, b, c], hl =>
    exact ⟨spec_of_A_3 a b c v n (hl a (by simp)) (hl b (by simp)) (hl c (by simp)),
           A_of_spec_3 a b c v n (hl a (by simp)) (hl b (by simp)) (hl c (by simp))⟩
  | a :: b :: c :: d :: r, hl =>
    exact ⟨spec_of_A_4 a b c d v n r (hl a (by simp)) (hl b (by simp)) (hl c (by simp)) (hl d (by simp)),
           A_of_spec_4 a b c d v n r (hl a (by simp)) (hl b (by simp)) (hl c (by simp)) (hl d (by simp))⟩

/-- the loops of idna.c decode a whole string exactly as the specification decoder does -/
theorem decodeAll_eq_specAll (l : List Nat) (hl : Bytes l) : decodeAll l = specAll l := by
  fun_induction decodeAll l with
  | case1 => rw [specAll]
  | case2 a rest v n hd ih =>
    rw [specAll, (decode1_iff_spec _ hl v n).mp hd]
    simp only [ih (Puny.bytes_drop (bytes_cons hl).2 _)]
  | case3 a rest n hd =>
    cases hs : spec (a :: rest) with
    | none => rw [specAll, hs]
    | some p =>
      have := (decode1_iff_spec _ hl p.1 p.2).mpr hs
      rw [hd] at this; cases this

theorem specAll_le (l : List Nat) (hl : Bytes l) (vs : List Nat) (h : specAll l = some vs) :
    ∀ v ∈ vs, v ≤ 0x10FFFF := by
  fun_induction specAll l generalizing vs with
  | case1 => simp at h; subst h; simp
  | case2 a rest v n hs ih =>
    simp only [Option.map_eq_some_iff] at h
    obtain ⟨vs', h1, rfl⟩ := h
    intro x hx
    rcases List.mem_cons.mp hx with rfl | hx
    · exact spec_le _ hl _ n hs
    · exact ih (Puny.bytes_drop (bytes_cons hl).2 _) vs' h1 x hx
  | case3 a rest hs => simp at h
end UvModel.Utf8

namespace UvModel.Puny
open UvModel.Utf8

theorem countLoop_todo (cps : List UInt32) (h todo : UInt32)
    (hlt : todo.toNat + cps.length < 4294967296) :
    (countLoop cps h todo).2.toNat = todo.toNat + cps.countP (fun c => decide (¬ c < 128)) := by
  induction cps generalizing h todo with
  | nil => simp [countLoop]
  | cons c cs ih =>
    simp only [List.length_cons] at hlt
    rw [countLoop]
    by_cases hc : c < 128
    · rw [if_pos hc, ih _ _ (by omega), List.countP_cons_of_neg (by simpa using hc)]
    · have h1 : (todo + 1).toNat = todo.toNat + 1 := by
        rw [UInt32.toNat_add, UInt32.toNat_one]; omega
      rw [if_neg hc, ih _ _ (by omega), List.countP_cons_of_pos (by simpa using hc), h1]; omega

/-- `toascii_prefix_iff_nonascii`, the "if" half: a label that is well-formed UTF-8 and contains a
    non-ASCII code point gets the four bytes "xn--" stored first (as far as the destination has
    room), whatever happens afterwards. -/
theorem label_prefix (bytes : List Nat) (b : Buf) (hb : Bytes bytes) (vs : List Nat)
    (hs : specAll bytes = some vs) (hn : ∃ v ∈ vs, 128 ≤ v) (hlen : vs.length < 4294967296) :
    ((((b.put 120).put 110).put 45).put 45).out <+: (label bytes b).2.out := by
  have hle := specAll_le bytes hb vs hs
  unfold label
  rw [decodeAll_eq_specAll bytes hb, hs]
  simp only []
  generalize hcl : countLoop (vs.map Nat.toUInt32) 0 0 = p
  obtain ⟨h, todo⟩ := p
  have htodo : todo > 0 := by
    have := countLoop_todo (vs.map Nat.toUInt32) 0 0 (by simpa using hlen)
    rw [hcl] at this
    obtain ⟨v, hv, hv128⟩ := hn
    have hpos : 0 < (vs.map Nat.toUInt32).countP (fun c => decide (¬ c < 128)) := by
      apply List.countP_pos_iff.mpr
      refine ⟨v.toUInt32, List.mem_map.mpr ⟨v, hv, rfl⟩, ?_⟩
      have := hle v hv
      simp only [decide_eq_true_eq, UInt32.lt_iff_toNat_lt, Nat.toUInt32, UInt32.toNat_ofNat']
      show ¬ v % 4294967296 < 128
      omega
    rw [gt_iff_lt, UInt32.lt_iff_toNat_lt]
    simp only [] at this
    show (0 : UInt32).toNat < todo.toNat
    have h00 : (0 : UInt32).toNat = 0 := rfl
    rw [this]; omega
  simp only [if_pos htodo]
  have hw := writeAscii_ext (vs.map Nat.toUInt32) 0 h ((((b.put 120).put 110).put 45).put 45)
  split
  · exact hw.2.1
  · split
    · exact (hw.trans ((ext_put _ _).trans (outer_ext _ _ _ _))).2.1
    · exact (hw.trans (outer_ext _ _ _ _)).2.1
end UvModel.Puny

/-! ### ToASCII and the destination size: two-run simulation (small vs large destination) -/
namespace UvModel.Puny
open UvModel.Utf8

/-- the small destination holds exactly what fits of what the large one holds -/
def Sim (b b' : Buf) : Prop := b.out = b'.out.take b.cap ∧ b.cap ≤ b'.cap

theorem sim_put {b b' : Buf} (h : Sim b b') (c : Nat) : Sim (b.put c) (b'.put c) := by
  obtain ⟨h1, h2⟩ := h
  have hl : b.out.length = min b.cap b'.out.length := by rw [h1, List.length_take]
  unfold Buf.put
  by_cases hb' : b'.out.length < b'.cap
  · rw [if_pos hb']
    by_cases hb : b.out.length < b.cap
    · rw [if_pos hb]
      have hlt : b'.out.length < b.cap := by omega
      have e : b.out = b'.out := by rw [h1, List.take_of_length_le (by omega)]
      refine ⟨?_, h2⟩
      show b.out ++ [c] = (b'.out ++ [c]).take b.cap
      rw [List.take_of_length_le (by simp; omega), e]
    · rw [if_neg hb]
      refine ⟨?_, h2⟩
      show b.out = (b'.out ++ [c]).take b.cap
      rw [List.take_append_of_le_length (by omega)]; exact h1
  · rw [if_neg hb']
    have : ¬ b.out.length < b.cap := by omega
    rw [if_neg this]; exact ⟨h1, h2⟩

theorem writeAscii_sim (cps : List UInt32) (x h : UInt32) {b b' : Buf} (hs : Sim b b') :
    Sim (writeAscii cps x h b) (writeAscii cps x h b') := by
  induction cps generalizing x b b' with
  | nil => exact hs
  | cons c cs ih =>
    unfold writeAscii
    split
    · exact ih x hs
    · simp only []
      split
      · exact sim_put hs _
      · exact ih _ (sim_put hs _)

theorem digits_sim (bias k q : Nat) {b b' : Buf} (hs : Sim b b') :
    Sim (digits bias k q b) (digits bias k q b') := by
  fun_induction digits bias k q b generalizing b' with
  | case1 k q b h => rw [digits, if_pos h]; exact sim_put hs _
  | case2 k q b h x y =>
    rename_i ih
    rw [digits.eq_def bias k q b', if_neg h]; exact ih (sim_put hs _)

/-- same loop state, destinations related by `Sim` -/
def StSim (s s' : St) : Prop :=
  s.h = s'.h ∧ s.todo = s'.todo ∧ s.bias = s'.bias ∧ s.delta = s'.delta ∧ s.first = s'.first ∧
    Sim s.buf s'.buf

theorem inner_sim (n : UInt32) (cps : List UInt32) {s s' : St} (hs : StSim s s') :
    StSim (inner n cps s).1 (inner n cps s').1 ∧ (inner n cps s).2 = (inner n cps s').2 := by
  induction cps generalizing s s' with
  | nil => exact ⟨hs, rfl⟩
  | cons c cs ih =>
    obtain ⟨h1, h2, h3, h4, h5, h6⟩ := hs
    rw [inner, inner]
    simp only [← h1, ← h2, ← h3, ← h4, ← h5]
    generalize (if c < n then s.delta + 1 else s.delta) = d1
    by_cases c1 : c < n ∧ d1 = 0
    · rw [if_pos c1, if_pos c1]; exact ⟨⟨rfl, rfl, rfl, rfl, rfl, h6⟩, rfl⟩
    · rw [if_neg c1, if_neg c1]
      by_cases c2 : c ≠ n
      · rw [if_pos c2, if_pos c2]; exact ih ⟨rfl, rfl, rfl, rfl, rfl, h6⟩
      · rw [if_neg c2, if_neg c2]
        exact ih ⟨rfl, rfl, rfl, rfl, rfl, digits_sim _ _ _ h6⟩

theorem outer_sim (fuel : Nat) (cps : List UInt32) (n : UInt32) {s s' : St} (hs : StSim s s') :
    (outer fuel cps n s).1 = (outer fuel cps n s').1 ∧ Sim (outer fuel cps n s).2 (outer fuel cps n s').2 := by
  induction fuel generalizing n s s' with
  | zero => exact ⟨rfl, hs.2.2.2.2.2⟩
  | succ f ih =>
    obtain ⟨sh, st, sb, sd, sf, sbuf⟩ := s
    obtain ⟨sh', st', sb', sd', sf', sbuf'⟩ := s'
    simp only [StSim] at hs
    obtain ⟨rfl, rfl, rfl, rfl, rfl, h6⟩ := hs
    rw [outer, outer]
    simp only []
    by_cases c1 : st > 0
    · simp only [if_pos c1]
      by_cases c2 : minGE n cps 0xFFFFFFFF - n > (~~~ sd) / (sh + 1)
      · simp only [if_pos c2]; exact ⟨by first | rfl | trivial, h6⟩
      · simp only [if_neg c2]
        have hi := inner_sim (minGE n cps 0xFFFFFFFF) cps
          (s := ⟨sh, st, sb, sd + (minGE n cps 0xFFFFFFFF - n) * (sh + 1), sf, sbuf⟩)
          (s' := ⟨sh, st, sb, sd + (minGE n cps 0xFFFFFFFF - n) * (sh + 1), sf, sbuf'⟩)
          ⟨rfl, rfl, rfl, rfl, rfl, h6⟩
        generalize inner (minGE n cps 0xFFFFFFFF) cps ⟨sh, st, sb, sd + (minGE n cps 0xFFFFFFFF - n) * (sh + 1), sf, sbuf⟩ = r at hi ⊢
        generalize inner (minGE n cps 0xFFFFFFFF) cps ⟨sh, st, sb, sd + (minGE n cps 0xFFFFFFFF - n) * (sh + 1), sf, sbuf'⟩ = r' at hi ⊢
        obtain ⟨t, ovf⟩ := r
        obtain ⟨t', ovf'⟩ := r'
        obtain ⟨⟨g1, g2, g3, g4, g5, g6⟩, g7⟩ := hi
        simp only [] at g1 g2 g3 g4 g5 g6 g7 ⊢
        subst g7
        by_cases c3 : ovf = true
        · simp only [if_pos c3]; exact ⟨by first | rfl | trivial, g6⟩
        · simp only [if_neg c3]
          exact ih _ ⟨g1, g2, g3, by simp only [g4], g5, g6⟩
    · simp only [if_neg c1]; exact ⟨by first | rfl | trivial, h6⟩

theorem label_sim (bytes : List Nat) {b b' : Buf} (hs : Sim b b') :
    (label bytes b).1 = (label bytes b').1 ∧ Sim (label bytes b).2 (label bytes b').2 := by
  unfold label
  split
  · exact ⟨rfl, hs⟩
  · rename_i vs _
    simp only []
    generalize countLoop (vs.map Nat.toUInt32) 0 0 = p
    obtain ⟨h, todo⟩ := p
    simp only []
    have h4 : Sim ((((b.put 120).put 110).put 45).put 45) ((((b'.put 120).put 110).put 45).put 45) :=
      sim_put (sim_put (sim_put (sim_put hs _) _) _) _
    have hw : Sim (writeAscii (vs.map Nat.toUInt32) 0 h (if todo > 0 then (((b.put 120).put 110).put 45).put 45 else b))
        (writeAscii (vs.map Nat.toUInt32) 0 h (if todo > 0 then (((b'.put 120).put 110).put 45).put 45 else b')) := by
      apply writeAscii_sim
      split
      · exact h4
      · exact hs
    by_cases c1 : todo = 0
    · simp only [if_pos c1]; exact ⟨by first | rfl | trivial, hw⟩
    · simp only [if_neg c1]
      by_cases c2 : h > 0
      · simp only [if_pos c2]; exact outer_sim _ _ _ ⟨rfl, rfl, rfl, rfl, rfl, sim_put hw _⟩
      · simp only [if_neg c2]; exact outer_sim _ _ _ ⟨rfl, rfl, rfl, rfl, rfl, hw⟩

theorem put_cap (b : Buf) (c : Nat) : (b.put c).cap = b.cap := (ext_put b c).1

theorem last_sim (acc : List Nat) {b b' : Buf} (hs : Sim b b') :
    (if acc ≠ [] then label acc b else ((0 : Int), b)).1 = (if acc ≠ [] then label acc b' else ((0 : Int), b')).1 ∧
    Sim (if acc ≠ [] then label acc b else ((0 : Int), b)).2 (if acc ≠ [] then label acc b' else ((0 : Int), b')).2 ∧
    (if acc ≠ [] then label acc b else ((0 : Int), b)).2.cap = b.cap := by
  by_cases h : acc ≠ []
  · simp only [if_pos h]; exact ⟨(label_sim acc hs).1, (label_sim acc hs).2, (label_ext acc b).1⟩
  · simp only [if_neg h]; exact ⟨by first | rfl | trivial, hs, by first | rfl | trivial⟩

/-- the run into the small destination, described by the run into the large one -/
def ScanRel (small large : Int × Buf) (cap : Nat) : Prop :=
  (large.1 < 0 → small.1 < 0) ∧
  (0 ≤ large.1 →
    (large.1 ≤ (cap : Int) → small.1 = large.1 ∧ small.2.out = large.2.out) ∧
    ((cap : Int) < large.1 → small.1 = UV_EINVAL))

theorem scan_sim (acc rest : List Nat) {b b' : Buf} (hs : Sim b b') :
    ScanRel (scan acc rest b) (scan acc rest b') b.cap := by
  fun_induction scan acc rest b' generalizing b with
  | case1 acc b' r' =>
    rename_i h1
    have hr : (if acc ≠ [] then label acc b' else ((0 : Int), b')) = r' := by
      by_cases h : acc ≠ [] <;> simp [r', h]
    obtain ⟨e1, e2, e3⟩ := last_sim acc hs
    rw [hr] at e1 e2
    rw [scan]
    simp only []
    have : (if acc ≠ [] then label acc b else ((0 : Int), b)).1 < 0 := by rw [e1]; exact h1
    rw [if_pos this]
    exact ⟨fun _ => this, fun h => absurd h1 (by omega)⟩
  | case2 acc b' r' h1 =>
    rename_i h2
    have hr : (if acc ≠ [] then label acc b' else ((0 : Int), b')) = r' := by
      by_cases h : acc ≠ [] <;> simp [r', h]
    obtain ⟨e1, e2, e3⟩ := last_sim acc hs
    rw [hr] at e1 e2
    rw [scan]
    simp only []
    have n1 : ¬ (if acc ≠ [] then label acc b else ((0 : Int), b)).1 < 0 := by rw [e1]; exact h1
    have hl : (if acc ≠ [] then label acc b else ((0 : Int), b)).2.out.length =
        min (if acc ≠ [] then label acc b else ((0 : Int), b)).2.cap r'.2.out.length := by
      rw [e2.1, List.length_take]
    have hc := e2.2
    have n2 : (if acc ≠ [] then label acc b else ((0 : Int), b)).2.out.length ≥
        (if acc ≠ [] then label acc b else ((0 : Int), b)).2.cap := by
      have : r'.2.out.length ≥ r'.2.cap := h2
      omega
    rw [if_neg n1, if_pos n2]
    exact ⟨fun _ => by show UV_EINVAL < 0; decide, fun h => absurd (show (0 : Int) ≤ UV_EINVAL from h) (by decide)⟩
  | case3 acc b' r' h1 h2 =>
    rename_i bb
    have hr : (if acc ≠ [] then label acc b' else ((0 : Int), b')) = r' := by
      by_cases h : acc ≠ [] <;> simp [r', h]
    obtain ⟨e1, e2, e3⟩ := last_sim acc hs
    rw [hr] at e1 e2
    rw [scan]
    simp only []
    have n1 : ¬ (if acc ≠ [] then label acc b else ((0 : Int), b)).1 < 0 := by rw [e1]; exact h1
    have hl : (if acc ≠ [] then label acc b else ((0 : Int), b)).2.out.length =
        min (if acc ≠ [] then label acc b else ((0 : Int), b)).2.cap r'.2.out.length := by
      rw [e2.1, List.length_take]
    rw [if_neg n1]
    refine ⟨fun h => ?_, fun _ => ⟨fun hle => ?_, fun hgt => ?_⟩⟩
    · exfalso
      have : (0 : Int) ≤ ((bb.out.length : Nat) : Int) := Int.natCast_nonneg _
      exact absurd h (by simp only []; omega)
    · have hlen : r'.2.out.length + 1 ≤ b.cap := by
        have : ((bb.out.length : Nat) : Int) ≤ b.cap := hle
        simp only [bb, List.length_append, List.length_singleton] at this
        omega
      have eo : (if acc ≠ [] then label acc b else ((0 : Int), b)).2.out = r'.2.out := by
        rw [e2.1, List.take_of_length_le (by omega)]
      have n2 : ¬ (if acc ≠ [] then label acc b else ((0 : Int), b)).2.out.length ≥
          (if acc ≠ [] then label acc b else ((0 : Int), b)).2.cap := by rw [eo]; omega
      rw [if_neg n2]
      simp only [eo, bb]
      exact ⟨trivial, trivial⟩
    · have hlen : b.cap < r'.2.out.length + 1 := by
        have : (b.cap : Int) < ((bb.out.length : Nat) : Int) := hgt
        simp only [bb, List.length_append, List.length_singleton] at this
        omega
      have n2 : (if acc ≠ [] then label acc b else ((0 : Int), b)).2.out.length ≥
          (if acc ≠ [] then label acc b else ((0 : Int), b)).2.cap := by omega
      rw [if_pos n2]
  | case4 acc b' a r n hx =>
    rw [scan, hx]
    exact ⟨fun _ => by show UV_EINVAL < 0; decide, fun h => absurd (show (0 : Int) ≤ UV_EINVAL from h) (by decide)⟩
  | case5 acc b' a r c n hx hd ih =>
    rw [scan, hx]
    simp only [if_pos hd]
    exact ih hs
  | case6 acc b' a r c n hx hd res' =>
    rename_i h1
    rw [scan, hx]
    simp only [if_neg hd]
    have e := (label_sim acc hs).1
    have : (label acc b).1 < 0 := by rw [e]; exact h1
    rw [if_pos this]
    exact ⟨fun _ => this, fun h => absurd h1 (by omega)⟩
  | case7 acc b' a r c n hx hd res' =>
    rename_i h1 ih
    rw [scan, hx]
    simp only [if_neg hd]
    have e := label_sim acc hs
    have : ¬ (label acc b).1 < 0 := by rw [e.1]; exact h1
    rw [if_neg this]
    have := ih (b := (label acc b).2.put 46) (sim_put e.2 46)
    rw [put_cap, (label_ext acc b).1] at this
    exact this

/-- `uv__idna_toascii` and the destination size: if the conversion succeeds with `n` bytes for one
    size, every size `≥ n` gives the same bytes and `n`, every smaller size gives UV_EINVAL -/
theorem toascii_fits (s : List Nat) (cap cap' : Nat) (h : 0 ≤ (toascii s cap').1) :
    ((toascii s cap').1 ≤ (cap : Int) → (toascii s cap).1 = (toascii s cap').1 ∧
        (toascii s cap).2.out = (toascii s cap').2.out) ∧
    ((cap : Int) < (toascii s cap').1 → (toascii s cap).1 = UV_EINVAL) := by
  unfold toascii at h ⊢
  by_cases hs : s = []
  · rw [if_pos hs] at h; exact absurd (show (0 : Int) ≤ UV_EINVAL from h) (by decide)
  · rw [if_neg hs] at h
    simp only [if_neg hs]
    by_cases hc : cap ≤ cap'
    · have := scan_sim [] s (b := { cap := cap }) (b' := { cap := cap' }) ⟨by simp, hc⟩
      exact this.2 h
    · have := scan_sim [] s (b := { cap := cap' }) (b' := { cap := cap }) ⟨by simp, by simp only []; omega⟩
      obtain ⟨hneg, hpos⟩ := this
      by_cases hl : (scan [] s { cap := cap }).1 < 0
      · have := hneg hl; omega
      · obtain ⟨p1, p2⟩ := hpos (by omega)
        by_cases hle : (scan [] s { cap := cap }).1 ≤ ((cap' : Nat) : Int)
        · obtain ⟨q1, q2⟩ := p1 hle
          refine ⟨fun _ => ⟨q1.symm, q2.symm⟩, fun hgt => ?_⟩
          rw [q1] at hgt; omega
        · have := p2 (by simp only []; omega)
          rw [this] at h
          exact absurd (show (0 : Int) ≤ UV_EINVAL from h) (by decide)
end UvModel.Puny

/-! ### the outer Punycode loop terminates within the model's fuel -/
namespace UvModel.Puny
open UvModel.Utf8

/-- code points `≥ n` still to be encoded -/
def cntGE (n : UInt32) (cps : List UInt32) : Nat := cps.countP (fun c => decide (n.toNat ≤ c.toNat))
/-- occurrences of `m` -/
def cntEQ (m : UInt32) (cps : List UInt32) : Nat := cps.countP (fun c => decide (c.toNat = m.toNat))

theorem minGE_spec (n : UInt32) (cps : List UInt32) (m0 : UInt32) :
    (minGE n cps m0).toNat ≤ m0.toNat ∧
    (∀ c ∈ cps, n.toNat ≤ c.toNat → (minGE n cps m0).toNat ≤ c.toNat) ∧
    (minGE n cps m0 = m0 ∨ (minGE n cps m0 ∈ cps ∧ n.toNat ≤ (minGE n cps m0).toNat)) := by
  induction cps generalizing m0 with
  | nil => exact ⟨Nat.le_refl _, fun c hc => absurd hc (by simp), Or.inl rfl⟩
  | cons c cs ih =>
    rw [minGE]
    by_cases hc : c ≥ n ∧ c < m0
    · rw [if_pos hc]
      obtain ⟨i1, i2, i3⟩ := ih c
      have h1 := UInt32.le_iff_toNat_le.mp hc.1
      have h2 := UInt32.lt_iff_toNat_lt.mp hc.2
      refine ⟨by omega, fun x hx hn => ?_, ?_⟩
      · rcases List.mem_cons.mp hx with rfl | hx
        · exact i1
        · exact i2 x hx hn
      · rcases i3 with e | ⟨e1, e2⟩
        · right; rw [e]; exact ⟨by simp, h1⟩
        · right; exact ⟨List.mem_cons_of_mem _ e1, e2⟩
    · rw [if_neg hc]
      obtain ⟨i1, i2, i3⟩ := ih m0
      refine ⟨i1, fun x hx hn => ?_, ?_⟩
      · rcases List.mem_cons.mp hx with rfl | hx
        · have : ¬ x < m0 := fun h => hc ⟨UInt32.le_iff_toNat_le.mpr hn, h⟩
          have : ¬ x.toNat < m0.toNat := fun h => this (UInt32.lt_iff_toNat_lt.mpr h)
          omega
        · exact i2 x hx hn
      · rcases i3 with e | ⟨e1, e2⟩
        · left; exact e
        · right; exact ⟨List.mem_cons_of_mem _ e1, e2⟩

theorem inner_todo (m : UInt32) (cps : List UInt32) (s : St) (h : cntEQ m cps ≤ s.todo.toNat)
    (hov : (inner m cps s).2 = false) :
    (inner m cps s).1.todo.toNat = s.todo.toNat - cntEQ m cps := by
  induction cps generalizing s with
  | nil => simp [inner, cntEQ]
  | cons c cs ih =>
    rw [inner] at hov ⊢
    simp only [] at hov ⊢
    generalize (if c < m then s.delta + 1 else s.delta) = d1 at hov ⊢
    by_cases c1 : c < m ∧ d1 = 0
    · rw [if_pos c1] at hov; cases hov
    · rw [if_neg c1] at hov ⊢
      by_cases c2 : c ≠ m
      · rw [if_pos c2] at hov ⊢
        have hne : ¬ c.toNat = m.toNat := fun e => c2 (UInt32.toNat_inj.mp e)
        have e : cntEQ m (c :: cs) = cntEQ m cs := by
          simp only [cntEQ, List.countP_cons, decide_eq_true_eq, if_neg hne, Nat.add_zero]
        rw [e] at h ⊢
        exact ih _ h hov
      · rw [if_neg c2] at hov ⊢
        have heq : c.toNat = m.toNat := by
          have : c = m := Classical.not_not.mp c2
          rw [this]
        have e : cntEQ m (c :: cs) = cntEQ m cs + 1 := by
          simp only [cntEQ, List.countP_cons, decide_eq_true_eq, if_pos heq]
        rw [e] at h ⊢
        have h1 : (1 : UInt32) ≤ s.todo := UInt32.le_iff_toNat_le.mpr (by
          have : (1 : UInt32).toNat = 1 := rfl
          omega)
        have hs : (s.todo - 1).toNat = s.todo.toNat - 1 := by
          rw [UInt32.toNat_sub_of_le _ _ h1]; rfl
        have := ih _ (by simp only []; omega) hov
        rw [this]; simp only []; omega

theorem cnt_split (n m : UInt32) (cps : List UInt32) (hnm : n.toNat ≤ m.toNat)
    (hmin : ∀ c ∈ cps, n.toNat ≤ c.toNat → m.toNat ≤ c.toNat) (hm : m.toNat + 1 < 4294967296) :
    cntGE n cps = cntEQ m cps + cntGE (m + 1) cps := by
  have hm1 : (m + 1).toNat = m.toNat + 1 := by
    rw [UInt32.toNat_add, UInt32.toNat_one]; omega
  induction cps with
  | nil => rfl
  | cons c cs ih =>
    have := ih (fun x hx => hmin x (List.mem_cons_of_mem _ hx))
    have hc := hmin c (by simp)
    simp only [cntGE, cntEQ, List.countP_cons, decide_eq_true_eq, hm1] at this ⊢
    rw [this]
    repeat' split
    all_goals omega

theorem outer_no_fuel (fuel : Nat) (cps : List UInt32) (n : UInt32) (s : St)
    (hc : ∀ c ∈ cps, c.toNat + 1 < 4294967295) (ht : s.todo.toNat = cntGE n cps)
    (hf : cntGE n cps < fuel) : (outer fuel cps n s).1 ≠ FUEL_OUT := by
  induction fuel generalizing n s with
  | zero => omega
  | succ f ih =>
    rw [outer]
    by_cases c1 : s.todo > 0
    · rw [if_pos c1]
      simp only []
      have hpos : 0 < cntGE n cps := by
        have := UInt32.lt_iff_toNat_lt.mp c1
        have h0 : (0 : UInt32).toNat = 0 := rfl
        omega
      obtain ⟨x, hx, hxn⟩ := List.countP_pos_iff.mp hpos
      simp only [decide_eq_true_eq] at hxn
      obtain ⟨m1, m2, m3⟩ := minGE_spec n cps 0xFFFFFFFF
      generalize minGE n cps 0xFFFFFFFF = m at m1 m2 m3 ⊢
      have hmx := m2 x hx hxn
      have hxlt := hc x hx
      have hmem : m ∈ cps ∧ n.toNat ≤ m.toNat := by
        rcases m3 with e | e
        · rw [e] at hmx
          have : (0xFFFFFFFF : UInt32).toNat = 4294967295 := rfl
          omega
        · exact e
      by_cases c2 : m - n > (~~~ s.delta) / (s.h + 1)
      · rw [if_pos c2]; show UV_E2BIG ≠ FUEL_OUT; decide
      · rw [if_neg c2]
        have hsplit := cnt_split n m cps hmem.2 m2 (by have := hc m hmem.1; omega)
        have heq1 : 1 ≤ cntEQ m cps := by
          apply List.countP_pos_iff.mpr
          exact ⟨m, hmem.1, by simp⟩
        by_cases c3 : (inner m cps { s with delta := s.delta + (m - n) * (s.h + 1) }).2 = true
        · simp only [c3, if_true]; show UV_E2BIG ≠ FUEL_OUT; decide
        · have c3' : (inner m cps { s with delta := s.delta + (m - n) * (s.h + 1) }).2 = false := by
            simpa using c3
          simp only [c3', Bool.false_eq_true, if_false]
          have htodo := inner_todo m cps { s with delta := s.delta + (m - n) * (s.h + 1) }
            (by simp only []; omega) c3'
          apply ih
          · simp only []; rw [htodo]; simp only []; omega
          · omega
    · rw [if_neg c1]; show (0 : Int) ≠ FUEL_OUT; decide

theorem specAll_length (l : List Nat) (vs : List Nat) (h : specAll l = some vs) : vs.length ≤ l.length := by
  fun_induction specAll l generalizing vs with
  | case1 => simp at h; subst h; simp
  | case2 a rest v n hs ih =>
    simp only [Option.map_eq_some_iff] at h
    obtain ⟨vs', h1, rfl⟩ := h
    have := ih vs' h1
    simp only [List.length_cons, List.length_drop] at this ⊢
    omega
  | case3 a rest hs => simp at h

theorem label_no_fuel (bytes : List Nat) (b : Buf) (hb : Bytes bytes) (hlen : bytes.length < 4294967296) :
    (label bytes b).1 ≠ FUEL_OUT := by
  unfold label
  rw [decodeAll_eq_specAll bytes hb]
  cases hs : specAll bytes with
  | none => show UV_EINVAL ≠ FUEL_OUT; decide
  | some vs =>
    simp only []
    have hle := specAll_le bytes hb vs hs
    have hvl := specAll_length bytes vs hs
    have hct := countLoop_todo (vs.map Nat.toUInt32) 0 0 (by
      have h00 : (0 : UInt32).toNat = 0 := rfl
      simp only [List.length_map]; omega)
    generalize countLoop (vs.map Nat.toUInt32) 0 0 = p at hct ⊢
    obtain ⟨h, todo⟩ := p
    simp only [] at hct ⊢
    by_cases c1 : todo = 0
    · simp only [if_pos c1]
      intro hcon
      have : (0 : Int) ≤ (h.toNat : Int) := Int.natCast_nonneg _
      rw [hcon] at this
      exact absurd this (by decide)
    · simp only [if_neg c1]
      apply outer_no_fuel
      · intro c hc
        obtain ⟨v, hv, rfl⟩ := List.mem_map.mp hc
        have := hle v hv
        simp only [Nat.toUInt32, UInt32.toNat_ofNat']
        show v % 4294967296 + 1 < 4294967295
        omega
      · simp only []
        rw [hct]
        have h00 : (0 : UInt32).toNat = 0 := rfl
        rw [h00, Nat.zero_add, cntGE]
        apply List.countP_congr
        intro c _
        have h128 : (128 : UInt32).toNat = 128 := rfl
        simp only [decide_eq_true_eq, UInt32.lt_iff_toNat_lt, h128]
        omega
      · have := List.countP_le_length (p := fun c : UInt32 => decide ((128 : UInt32).toNat ≤ c.toNat))
          (l := vs.map Nat.toUInt32)
        simp only [cntGE]; omega

theorem bytes_append {a b : List Nat} (ha : Bytes a) (hb : Bytes b) : Bytes (a ++ b) := by
  intro x hx
  rcases List.mem_append.mp hx with h | h
  · exact ha x h
  · exact hb x h

theorem scan_no_fuel (acc rest : List Nat) (b : Buf) (ha : Bytes acc) (hr : Bytes rest)
    (hlen : acc.length + rest.length < 4294967296) : (scan acc rest b).1 ≠ FUEL_OUT := by
  fun_induction scan acc rest b with
  | case1 acc b r h1 =>
    have : r = if acc ≠ [] then label acc b else ((0 : Int), b) := rfl
    by_cases hne : acc ≠ []
    · rw [this, if_pos hne]; exact label_no_fuel acc b ha (by simp at hlen; omega)
    · rw [if_neg hne] at this; rw [this]; show (0 : Int) ≠ FUEL_OUT; decide
  | case2 acc b r h1 h2 => show UV_EINVAL ≠ FUEL_OUT; decide
  | case3 acc b r h1 h2 b' =>
    intro hcon
    have : (0 : Int) ≤ ((b'.out.length : Nat) : Int) := Int.natCast_nonneg _
    have hh : ((b'.out.length : Nat) : Int) = FUEL_OUT := hcon
    rw [hh] at this
    exact absurd this (by decide)
  | case4 acc b a r n hx => show UV_EINVAL ≠ FUEL_OUT; decide
  | case5 acc b a r c n hx hd ih =>
    apply ih
    · exact bytes_append ha (fun x hx => hr x (List.mem_of_mem_take hx))
    · exact bytes_drop (bytes_cons hr).2 _
    · simp only [List.length_append, List.length_take, List.length_drop, List.length_cons] at hlen ⊢
      omega
  | case6 acc b a r c n hx hd res h1 =>
    exact label_no_fuel acc b ha (by omega)
  | case7 acc b a r c n hx hd res h1 ih =>
    apply ih
    · intro x hx; simp at hx
    · exact bytes_drop (bytes_cons hr).2 _
    · simp only [List.length_nil, List.length_drop, List.length_cons] at hlen ⊢
      omega

/-- the model's fuel for the outer Punycode loop always suffices -/
theorem toascii_no_fuel (s : List Nat) (cap : Nat) (hb : Bytes s) (hlen : s.length < 4294967296) :
    (toascii s cap).1 ≠ FUEL_OUT := by
  unfold toascii
  split
  · show UV_EINVAL ≠ FUEL_OUT; decide
  · exact scan_no_fuel [] s _ (by intro x hx; simp at hx) hb (by simpa using hlen)
end UvModel.Puny
