import UvModel.Lemmas.LoopReqs
/-!
  `RInv none` (request accounting, see `LoopReqs.lean`) is preserved by every callback, completion
  site, loop phase, `uv_run` and whole programs — for every `Script`.
-/
namespace UvModel.Loop.Reqs
open UvModel.HandleKernels

@[simp] theorem RInv_emit {e : Option Nat} (s : State) (ev : Event) : RInv e (emit s ev) ↔ RInv e s := RInv.iff_of_rq (by simp)
@[simp] theorem RInv_emitObs {e : Option Nat} (s : State) : RInv e (emitObs s) ↔ RInv e s := RInv.iff_of_rq (by simp)
@[simp] theorem RInv_updateTime {e : Option Nat} (s : State) : RInv e (updateTime s) ↔ RInv e s := RInv.iff_of_rq (by simp)
@[simp] theorem RInv_ioStop {e : Option Nat} (s : State) (w : W) (ev : Nat) : RInv e (ioStop s w ev) ↔ RInv e s := RInv.iff_of_rq (by simp)
@[simp] theorem RInv_hStop {e : Option Nat} (s : State) (id : Nat) : RInv e (hStop s id) ↔ RInv e s := RInv.iff_of_rq (by simp)
@[simp] theorem RInv_withKernel {e : Option Nat} (s : State) (id : Nat) (k : HK → HK) : RInv e (withKernel s id k) ↔ RInv e s := RInv.iff_of_rq (by simp)
@[simp] theorem RInv_setWList {e : Option Nat} (s : State) (k : WKind) (l : List Nat) : RInv e (setWList s k l) ↔ RInv e s := RInv.iff_of_rq (by simp)
@[simp] theorem RInv_flushWatchers {e : Option Nat} (s : State) : RInv e (flushWatchers s) ↔ RInv e s := RInv.iff_of_rq (by simp)
@[simp] theorem RInv_timerStop {e : Option Nat} (s : State) (id : Nat) : RInv e (timerStop s id) ↔ RInv e s := RInv.iff_of_rq (by simp)
@[simp] theorem RInv_timerAgain {e : Option Nat} (s : State) (id : Nat) : RInv e (timerAgain s id).1 ↔ RInv e s := RInv.iff_of_rq (by simp)

theorem runCb_rinv {e : Option Nat} (sc : Script) (ph : Phase) (k : CbKind) (key : CbKey) (id : Nat) (a b : Int) (occ : Nat)
    (s : State) (hi : RInv e s) : RInv e (runCb sc ph k key id a b occ s) := by
  unfold runCb
  simp only [RInv_emit, RInv_emitObs]
  apply foldl_stepOp_rinv
  simp only [RInv_emit, RInv_emitObs]
  exact RInv.of_rq (s := s) rfl hi

theorem runHandleCb_rinv {e : Option Nat} (sc : Script) (ph : Phase) (k : CbKind) (id : Nat) (a b : Int) (s : State)
    (hi : RInv e s) : RInv e (runHandleCb sc ph k id a b s) := by
  unfold runHandleCb
  split
  · exact hi
  · apply runCb_rinv
    exact RInv.of_rq (rq_modH _ _ _ (fun _ => rfl)) hi

/-! ### completion sites -/
theorem udpRunCompletedLoop_rinv (sc : Script) (ph : Phase) (id : Nat) (fuel : Nat) (s : State) (hi : RInv none s) :
    RInv none (udpRunCompletedLoop sc ph id fuel s) := by
  induction fuel generalizing s with
  | zero => exact hi
  | succ n ih =>
    unfold udpRunCompletedLoop
    split
    · exact hi
    · rename_i h hf
      split
      · exact hi
      · rename_i r st rest hw
        apply ih
        apply runCb_rinv
        refine RInv.complete r hi rfl rfl rfl ?_
        intro x
        have := cnt_modH (fun h => { h with wcq := rest, sqc := h.sqc - 1 }) (fun _ => rfl) hf none x
        simp only [hcK, hcW, hcC, hw, cp_cons, reduceCtorEq, if_false] at this
        show cnt none x (modH s id fun h => { h with wcq := rest, sqc := h.sqc - 1 }) + _ ≤ _
        by_cases hx : x = r
        · subst hx; simp only [if_true] at this ⊢; omega
        · have : ¬ (r = x) := by omega
          simp only [hx, this, if_false] at *; omega

theorem udpRunCompleted_rinv (sc : Script) (ph : Phase) (id : Nat) (s : State) (hi : RInv none s) :
    RInv none (udpRunCompleted sc ph id s) := by
  unfold udpRunCompleted
  split
  · exact hi
  · rename_i h _
    simp only
    have h1 : RInv none (udpRunCompletedLoop sc ph id (h.wcq.length + 1) (modH s id fun h => { h with processing := true })) :=
      udpRunCompletedLoop_rinv _ _ _ _ _ (RInv.of_rq (rq_modH _ _ _ (fun _ => rfl)) hi)
    split
    · exact h1
    · refine RInv.of_rq (rq_modH _ _ _ (fun _ => rfl)) ?_
      split
      · split
        · simpa using h1
        · simpa using h1
      · exact h1

theorem udpIo_rinv (sc : Script) (ph : Phase) (id ev : Nat) (s : State) (hi : RInv none s) :
    RInv none (udpIo sc ph id ev s) := by
  unfold udpIo
  split
  · exact hi
  · split
    · apply udpRunCompleted_rinv; exact (udpSendmsg_rle s id).inv hi
    · exact hi

theorem udpFinishClose_rinv (sc : Script) (ph : Phase) (id : Nat) (s : State) (hi : RInv none s) :
    RInv none (udpFinishClose sc ph id s) := by
  unfold udpFinishClose
  apply udpRunCompleted_rinv
  refine (modH_rle s id (fun h => { h with wcq := h.wcq ++ h.wq.map (fun r => (r, (-125 : Int))), wq := [] })
    (fun _ => rfl) ?_).inv hi
  intro e x h
  simp only [hcK, hcW, hcC, cp_append, cp_map_pair, List.count_nil]
  split <;> omega

theorem streamIo_rinv (sc : Script) (ph : Phase) (id : Nat) (s : State) (hi : RInv none s) :
    RInv none (streamIo sc ph id s) := by
  unfold streamIo
  split
  · exact hi
  · rename_i h hf
    split
    · exact hi
    · rename_i r hr
      apply runCb_rinv
      simp only [RInv_ioStop]
      refine RInv.complete r hi rfl rfl rfl ?_
      intro x
      have := cnt_modH (fun h => { h with connReq := none }) (fun _ => rfl) hf none x
      simp only [hcK, hcW, hcC, hr, reduceCtorEq, if_false, Option.some.injEq] at this
      show cnt none x (modH s id fun h => { h with connReq := none }) + _ ≤ _
      by_cases hx : x = r
      · subst hx; simp only [if_true] at this ⊢; omega
      · have : ¬ (r = x) := by omega
        simp only [hx, this, if_false] at *; omega

theorem RInv_clear_conn {s : State} {id : Nat} (hi : RInv (some id) s) :
    RInv none (modH s id (fun h => { h with connReq := none })) := by
  obtain ⟨i1, i2, i3, i4⟩ := hi
  refine ⟨i1, ?_, i3, i4⟩
  intro x
  have := i2 x
  have h2 := hcnt_clear_conn s.handles id x
  show wcnt x s + hcnt none x (updH s.handles id _) ≤ idc x s
  simp only [cnt] at this
  omega

theorem streamDestroy_rinv (sc : Script) (id : Nat) (s : State) (hi : RInv none s) :
    RInv none (streamDestroy sc id s) := by
  unfold streamDestroy
  split
  · exact hi
  · rename_i h hf
    split
    · exact hi
    · rename_i r hr
      apply RInv_clear_conn
      apply runCb_rinv
      refine RInv.complete r hi rfl rfl rfl ?_
      intro x
      have := hcnt_skip hf x
      simp only [hcC, hr, Option.some.injEq] at this
      show wcnt x s + hcnt (some id) x s.handles + _ ≤ wcnt x s + hcnt none x s.handles
      by_cases hx : x = r
      · subst hx; simp only [if_true] at this ⊢; omega
      · have : ¬ (r = x) := by omega
        simp only [hx, this, if_false] at *; omega

theorem pendingIo_rinv (sc : Script) (ph : Phase) (id : Nat) (s : State) (hi : RInv none s) :
    RInv none (pendingIo sc ph id s) := by
  unfold pendingIo
  split
  · exact hi
  · split
    · exact udpIo_rinv _ _ _ _ _ hi
    · exact streamIo_rinv _ _ _ _ hi

theorem runPendingLoop_rinv (sc : Script) (ph : Phase) (fuel : Nat) (s : State) (hi : RInv none s) :
    RInv none (runPendingLoop sc ph fuel s) := by
  induction fuel generalizing s with
  | zero => exact hi
  | succ n ih =>
    unfold runPendingLoop
    split
    · exact hi
    · apply ih
      apply pendingIo_rinv
      exact RInv.of_rq (s := s) rfl hi

theorem runPending_rinv (sc : Script) (ph : Phase) (s : State) (hi : RInv none s) : RInv none (runPending sc ph s) := by
  unfold runPending
  exact runPendingLoop_rinv _ _ _ _ (RInv.of_rq (s := s) rfl hi)

theorem runWatchersLoop_rinv (sc : Script) (k : WKind) (fuel : Nat) (s : State) (hi : RInv none s) :
    RInv none (runWatchersLoop sc k fuel s) := by
  induction fuel generalizing s with
  | zero => exact hi
  | succ n ih =>
    unfold runWatchersLoop
    split
    · exact hi
    · apply ih
      apply runHandleCb_rinv
      simp only [RInv_setWList]
      exact RInv.of_rq (s := s) rfl hi

theorem runWatchers_rinv (sc : Script) (k : WKind) (s : State) (hi : RInv none s) : RInv none (runWatchers sc k s) := by
  unfold runWatchers
  apply runWatchersLoop_rinv
  simp only [RInv_setWList]
  exact RInv.of_rq (s := s) rfl hi

theorem workDoneLoop_rinv (sc : Script) (fuel : Nat) (s : State) (hi : RInv none s) : RInv none (workDoneLoop sc fuel s) := by
  induction fuel generalizing s with
  | zero => exact hi
  | succ n ih =>
    unfold workDoneLoop
    split
    · exact hi
    · rename_i r c rest hd
      apply ih
      apply runCb_rinv
      refine RInv.complete r hi rfl rfl rfl ?_
      intro x
      simp only [cnt, wcnt, hd, cp_cons]
      by_cases hx : x = r
      · subst hx; simp only [if_true]; omega
      · have : ¬ (r = x) := by omega
        simp only [hx, this, if_false]; omega

theorem workDone_rinv (sc : Script) (s : State) (hi : RInv none s) : RInv none (workDone sc s) := by
  unfold workDone
  apply workDoneLoop_rinv
  refine RLe.inv (s := s) ⟨rfl, rfl, rfl, ?_⟩ hi
  intro e x
  simp only [cnt, wcnt, cp, List.countP_nil]
  omega

theorem ringDone_rinv (sc : Script) (cq : List Nat) (s : State) (hi : RInv none s) : RInv none (ringDone sc cq s) := by
  unfold ringDone
  exact workDoneLoop_rinv _ _ _ ((ringTake_rle s cq).inv hi)

theorem asyncIoLoop_rinv (sc : Script) (fuel : Nat) (s : State) (hi : RInv none s) : RInv none (asyncIoLoop sc fuel s) := by
  induction fuel generalizing s with
  | zero => exact hi
  | succ n ih =>
    unfold asyncIoLoop
    split
    · exact hi
    · simp only
      split
      · apply ih; exact RInv.of_rq (s := s) rfl hi
      · split
        · apply ih; exact RInv.of_rq (s := s) rfl hi
        · apply ih
          rename_i id rest _ _ _ _ _
          have h0 : RInv none (modH { s with asyncLocal := rest, asyncs := s.asyncs ++ [id] } id fun h => { h with pending := false }) :=
            RInv.of_rq (s := s) (rq_modH _ _ _ (fun _ => rfl)) hi
          split
          · exact workDone_rinv _ _ h0
          · exact runHandleCb_rinv _ _ _ _ _ _ _ h0

theorem asyncIo_rinv (sc : Script) (s : State) (hi : RInv none s) : RInv none (asyncIo sc s) := by
  unfold asyncIo
  exact asyncIoLoop_rinv _ _ _ (RInv.of_rq (s := s) rfl hi)

theorem pollIo_rinv (sc : Script) (id ev : Nat) (s : State) (hi : RInv none s) : RInv none (pollIo sc id ev s) := by
  unfold pollIo
  split
  · apply runHandleCb_rinv; simpa using hi
  · apply runHandleCb_rinv; exact hi

theorem dispatchLoop_rinv (sc : Script) (fuel : Nat) (s : State) (n : Nat) (sg : Bool) (hi : RInv none s) :
    RInv none (dispatchLoop sc fuel s n sg).1 := by
  induction fuel generalizing s n sg with
  | zero => exact hi
  | succ m ih =>
    unfold dispatchLoop
    split
    · exact hi
    · have h0 : ∀ b, RInv none { s with batch := b } := fun b => RInv.of_rq (s := s) rfl hi
      simp only
      split
      · apply ih; exact h0 _
      · split
        · apply ih; exact h0 _
        · apply ih; exact h0 _
      · split
        · apply ih; exact h0 _
        · apply ih; exact h0 _
      · split
        · apply ih; exact h0 _
        · apply ih; apply asyncIo_rinv; exact h0 _
      · split
        · apply ih; exact h0 _
        · split
          · apply ih; exact h0 _
          · apply ih
            split
            · apply pollIo_rinv; exact h0 _
            · apply udpIo_rinv; exact h0 _
            · exact h0 _
      · split
        · apply ih; apply ringDone_rinv; exact h0 _
        · apply ih; exact h0 _

theorem pollLoop_rinv (sc : Script) (fuel : Nat) (s : State) (c : PollCtl) (hi : RInv none s) :
    RInv none (pollLoop sc fuel s c) := by
  induction fuel generalizing s c with
  | zero => exact hi
  | succ m ih =>
    unfold pollLoop
    split
    · exact RInv.of_rq (s := s) rfl hi
    · rename_i r rest _
      have h1 : ∀ e, RInv none (emit { completeWorks { s with oracle := rest } r.done with clock := r.clock } e) := by
        intro e
        rw [RInv_emit]
        have : RInv none (completeWorks { s with oracle := rest } r.done) :=
          (completeWorks_rle _ _).inv (RInv.of_rq (s := s) rfl hi)
        exact RInv.of_rq (s := completeWorks { s with oracle := rest } r.done) rfl this
      have h2 : ∀ e, RInv none (updateTime (emit { completeWorks { s with oracle := rest } r.done with clock := r.clock } e)) := by
        intro e; rw [RInv_updateTime]; exact h1 e
      simp only
      split
      · exact RInv.of_rq (s := emit _ _) rfl (h1 _)
      · split
        · split
          · split
            · exact h2 _
            · exact ih _ _ (h2 _)
          · split
            · exact h2 _
            · split
              · exact h2 _
              · exact ih _ _ (h2 _)
        · generalize hd : dispatchLoop sc (r.batch.length + 1) _ 0 false = d
          have h3 : RInv none d.1 := by
            rw [← hd]
            apply dispatchLoop_rinv
            exact RInv.of_rq (s := updateTime _) rfl (h2 _)
          have h5 : RInv none { d.1 with batch := [] } := RInv.of_rq (s := d.1) rfl h3
          repeat' split
          all_goals first | exact h5 | exact ih _ _ h5

theorem ioPoll_rinv (sc : Script) (s : State) (t : Int) (hi : RInv none s) : RInv none (ioPoll sc s t) := by
  unfold ioPoll
  apply pollLoop_rinv
  simpa using hi

theorem finishClose_rinv (sc : Script) (id : Nat) (s : State) (hi : RInv none s) : RInv none (finishClose sc id s) := by
  unfold finishClose
  split
  · exact hi
  · rename_i h _
    simp only
    have h1 : RInv none (withKernel s id setClosed) := by simpa using hi
    have h2 : RInv none (if h.kind == .udp then udpFinishClose sc .closing id (withKernel s id setClosed)
        else if h.kind == .pipe || h.kind == .tcp then streamDestroy sc id (withKernel s id setClosed) else withKernel s id setClosed) := by
      split
      · exact udpFinishClose_rinv _ _ _ _ h1
      · split
        · exact streamDestroy_rinv _ _ _ h1
        · exact h1
    generalize (if h.kind == .udp then udpFinishClose sc .closing id (withKernel s id setClosed)
        else if h.kind == .pipe || h.kind == .tcp then streamDestroy sc id (withKernel s id setClosed) else withKernel s id setClosed) = s2 at h2
    have h3 : RInv none (withKernel s2 id handleUnref) := by simpa using h2
    split
    · exact h3
    · apply runCb_rinv
      refine RLe.inv (s := withKernel s2 id handleUnref) ⟨rfl, rfl, rfl, ?_⟩ h3
      intro e x
      have := hcnt_filter_le (withKernel s2 id handleUnref).handles (·.id != id) e x
      simp only [cnt, wcnt]
      omega

theorem runClosingLoop_rinv (sc : Script) (fuel : Nat) (s : State) (hi : RInv none s) : RInv none (runClosingLoop sc fuel s) := by
  induction fuel generalizing s with
  | zero => exact hi
  | succ n ih =>
    unfold runClosingLoop
    split
    · exact hi
    · apply ih; apply finishClose_rinv; exact RInv.of_rq (s := s) rfl hi

theorem runClosing_rinv (sc : Script) (s : State) (hi : RInv none s) : RInv none (runClosing sc s) := by
  unfold runClosing
  apply runClosingLoop_rinv; exact RInv.of_rq (s := s) rfl hi

theorem collectTimers_rinv (fuel : Nat) (s : State) (hi : RInv none s) : RInv none (collectTimers fuel s) := by
  induction fuel generalizing s with
  | zero => exact hi
  | succ n ih =>
    unfold collectTimers
    split
    · exact hi
    · split
      · exact hi
      · apply ih
        rename_i e _ _
        exact RInv.of_rq (s := timerStop s e.id) rfl (by simpa using hi)

theorem fireTimers_rinv (sc : Script) (ph : Phase) (fuel : Nat) (s : State) (hi : RInv none s) :
    RInv none (fireTimers sc ph fuel s) := by
  induction fuel generalizing s with
  | zero => exact hi
  | succ n ih =>
    unfold fireTimers
    split
    · exact hi
    · apply ih
      apply runHandleCb_rinv
      rename_i id rest _
      rw [RInv_timerAgain]
      exact RInv.of_rq (s := s) rfl hi

theorem runTimers_rinv (sc : Script) (ph : Phase) (s : State) (hi : RInv none s) : RInv none (runTimers sc ph s) := by
  unfold runTimers
  exact fireTimers_rinv _ _ _ _ (collectTimers_rinv _ _ hi)

theorem pendingRounds_rinv (sc : Script) (n : Nat) (s : State) (hi : RInv none s) : RInv none (pendingRounds sc n s) := by
  induction n generalizing s with
  | zero => exact hi
  | succ m ih =>
    unfold pendingRounds
    split
    · exact hi
    · exact ih _ (runPending_rinv _ _ _ hi)

theorem iteration_rinv (sc : Script) (mode : Mode) (s : State) (hi : RInv none s) : RInv none (iteration sc mode s) := by
  unfold iteration
  simp only
  apply runTimers_rinv
  rw [RInv_updateTime]
  apply runClosing_rinv
  apply runWatchers_rinv
  apply pendingRounds_rinv
  apply ioPoll_rinv
  have : RInv none (runWatchers sc .prepare (runWatchers sc .idle (runPending sc .pending (emit s .iterBegin)))) := by
    apply runWatchers_rinv
    apply runWatchers_rinv
    apply runPending_rinv
    simpa using hi
  exact RInv.of_rq (s := runWatchers sc .prepare _) rfl this

theorem runLoop_rinv (sc : Script) (mode : Mode) (fuel : Nat) (s : State) (r : Bool) (hi : RInv none s) :
    ∀ s' r', runLoop sc mode fuel s r = some (s', r') → RInv none s' := by
  induction fuel generalizing s r with
  | zero => intro s' r' h; simp [runLoop] at h
  | succ n ih =>
    intro s' r' h
    unfold runLoop at h
    split at h
    · cases h; exact hi
    · simp only at h
      split at h
      · cases h; exact iteration_rinv _ _ _ hi
      · exact ih _ _ (iteration_rinv _ _ _ hi) _ _ h

theorem uvRun_rinv (sc : Script) (mode : Mode) (fuel : Nat) (s : State) (hi : RInv none s) :
    ∀ s' r, uvRun sc mode fuel s = some (s', r) → RInv none s' := by
  intro s' r h
  unfold uvRun at h
  simp only at h
  have h0 : RInv none (if !alive s then updateTime s else s) := by
    split
    · simpa using hi
    · exact hi
  generalize (if !alive s then updateTime s else s) = s0 at h h0
  have h1 : RInv none (if initialTimers mode (alive s) s0.stop then runTimers sc .timers0 (updateTime s0) else s0) := by
    split
    · apply runTimers_rinv; simpa using h0
    · exact h0
  generalize (if initialTimers mode (alive s) s0.stop then runTimers sc .timers0 (updateTime s0) else s0) = s1 at h h1
  cases hr : runLoop sc mode fuel s1 (alive s) with
  | none => simp [hr] at h
  | some p =>
    simp only [hr, Option.some.injEq, Prod.mk.injEq] at h
    have := runLoop_rinv sc mode fuel s1 (alive s) h1 p.1 p.2 (by simp [hr])
    rw [← h.1]
    exact RInv.of_rq (s := p.1) rfl this

theorem stepMain_rinv (sc : Script) (fuel : Nat) (s : State) (m : MainOp) (hi : RInv none s) :
    RInv none (stepMain sc fuel s m) := by
  cases m with
  | op o =>
    simp only [stepMain]
    split
    · exact hi
    · exact stepOp_rinv _ _ hi
  | run md =>
    simp only [stepMain]
    split
    · exact hi
    · split
      · have : RInv none (emit s (.runBegin md)) := by simpa using hi
        exact RInv.of_rq (s := emit s (.runBegin md)) rfl this
      · rename_i s' r heq
        simp only [RInv_emit, RInv_emitObs]
        exact uvRun_rinv _ _ _ _ (by simpa using hi) _ _ heq
  | loopClose =>
    simp only [stepMain]
    split
    · exact hi
    · have : rq (loopClose s).1 = rq s := by
        unfold loopClose; split <;> rfl
      have h1 : RInv none (loopClose s).1 := RInv.of_rq this hi
      split
      · simpa using h1
      · simpa using h1

theorem runMain_rinv (sc : Script) (fuel : Nat) (prog : List MainOp) (s : State) (hi : RInv none s) :
    RInv none (runMain sc fuel s prog) := by
  unfold runMain
  induction prog generalizing s with
  | nil => exact hi
  | cons m t ih => exact ih _ (stepMain_rinv _ _ _ _ hi)

theorem initLoop_rinv (clock0 : Nat) (metrics : Bool) (oracle : List PollRes) : RInv none (initLoop clock0 metrics oracle) := by
  unfold initLoop
  simp only
  have h0 : RInv none ({ clock := clock0, metrics := metrics, oracle := oracle } : State) :=
    ⟨rfl, fun _ => Nat.le_refl _, fun _ => Nat.zero_le _, fun _ _ => rfl⟩
  have hA : ∀ (s : State) io, RInv none s → RInv none (ioStart { s with wSignal := io } .signal POLLIN) :=
    fun s io h => RInv.of_rq (s := s) (by rw [rq_ioStart]; rfl) h
  have hB : ∀ (s : State) io, RInv none s → RInv none (ioStart { s with wAsync := io } .async POLLIN) :=
    fun s io h => RInv.of_rq (s := s) (by rw [rq_ioStart]; rfl) h
  exact (RInv_withKernel _ _ _).mpr ((RInv_withKernel _ _ _).mpr ((initH_rle _ _).inv (hB _ _
    ((RInv_withKernel _ _ _).mpr ((RInv_withKernel _ _ _).mpr ((addHandle_rle _ _).inv (hA _ _
      ((RInv_updateTime _).mpr h0))))))))

end UvModel.Loop.Reqs
