import UvModel.Accept
/-! helper lemmas for C07 (sending side): invariants of the uv_write2 queue / uv__write attempts -/
namespace UvModel.Accept

def idCount (s : SSt) (r : Nat) : Nat := s.log.countP fun e => e.1 == r

theorem carried_le_succeeded (s : SSt) (r : Nat) : carried s r ≤ succeeded s r := by
  unfold carried succeeded
  apply List.countP_mono_left
  intro e _ h
  simp only [Bool.and_eq_true] at h ⊢
  exact ⟨h.1.1, h.2⟩

theorem succeeded_le_idCount (s : SSt) (r : Nat) : succeeded s r ≤ idCount s r := by
  unfold succeeded idCount
  apply List.countP_mono_left
  intro e _ h
  simp only [Bool.and_eq_true] at h
  exact h.1

structure SInv (s : SSt) : Prop where
  sorted : (s.queue.map (·.id)).Pairwise (· < ·)
  lt : ∀ q ∈ s.queue, q.id < s.nextId
  fresh : ∀ q ∈ s.queue, q.handle.isSome = true → succeeded s q.id = 0
  once : ∀ r, carried s r ≤ 1
  unused : ∀ r, s.nextId ≤ r → idCount s r = 0

theorem sinv_init : SInv {} := by
  constructor <;> simp [carried, idCount]

theorem sinv_enq (s : SSt) (b : Nat) (h : Option Nat) (hs : SInv s) : SInv (enq s b h) := by
  obtain ⟨h1, h2, h3, h4, h5⟩ := hs
  constructor
  · simp only [enq, List.map_append, List.map_cons, List.map_nil]
    rw [List.pairwise_append]
    refine ⟨h1, by simp, ?_⟩
    intro a ha b hb
    simp at hb; subst hb
    simp at ha
    obtain ⟨q, hq, rfl⟩ := ha
    exact h2 q hq
  · intro q hq
    simp only [enq, List.mem_append, List.mem_singleton] at hq
    rcases hq with hq | rfl
    · have := h2 q hq; simp [enq]; omega
    · simp [enq]
  · intro q hq hh
    simp only [enq, List.mem_append, List.mem_singleton] at hq
    rcases hq with hq | rfl
    · exact h3 q hq hh
    · have := h5 s.nextId (Nat.le_refl _)
      have := succeeded_le_idCount s s.nextId
      show succeeded s s.nextId = 0
      omega
  · exact h4
  · intro r hr
    simp only [enq] at hr
    exact h5 r (by omega)

theorem carried_log (s t : SSt) (e : Nat × Option Nat × Int) (h : t.log = s.log ++ [e]) (x : Nat) :
    carried t x = carried s x + (if (e.1 == x && e.2.1.isSome && decide (0 ≤ e.2.2)) = true then 1 else 0) := by
  simp only [carried, h, List.countP_append, List.countP_singleton]

theorem succeeded_log (s t : SSt) (e : Nat × Option Nat × Int) (h : t.log = s.log ++ [e]) (x : Nat) :
    succeeded t x = succeeded s x + (if (e.1 == x && decide (0 ≤ e.2.2)) = true then 1 else 0) := by
  simp only [succeeded, h, List.countP_append, List.countP_singleton]

theorem idCount_log (s t : SSt) (e : Nat × Option Nat × Int) (h : t.log = s.log ++ [e]) (x : Nat) :
    idCount t x = idCount s x + (if (e.1 == x) = true then 1 else 0) := by
  simp only [idCount, h, List.countP_append, List.countP_singleton]

theorem sinv_after (s t : SSt) (req : WReq) (rest : List WReq) (r : Int) (hq : s.queue = req :: rest)
    (hs : SInv s) (hlog : t.log = s.log ++ [(req.id, req.handle, r)]) (hn : t.nextId = s.nextId)
    (hqueue : t.queue = rest ∨ (0 ≤ r ∧ ∃ left, t.queue = { req with handle := none, remaining := left } :: rest) ∨
              (r < 0 ∧ t.queue = req :: rest)) : SInv t := by
  obtain ⟨h1, h2, h3, h4, h5⟩ := hs
  rw [hq] at h1 h2 h3
  simp only [List.map_cons, List.pairwise_cons] at h1
  have hrest_ne : ∀ q ∈ rest, q.id ≠ req.id := by
    intro q hq' he
    have := h1.1 q.id (List.mem_map_of_mem hq')
    omega
  have hlt_req : req.id < s.nextId := h2 req (by simp)
  -- facts shared by all outcomes
  have honce : ∀ x, carried t x ≤ 1 := by
    intro x
    rw [carried_log s t _ hlog x]
    by_cases hx : req.id = x
    · subst hx
      by_cases hc : (req.handle.isSome && decide (0 ≤ r)) = true
      · simp only [Bool.and_eq_true] at hc
        have h0 := h3 req (by simp) hc.1
        have := carried_le_succeeded s req.id
        simp [hc.1, hc.2]; omega
      · have : ((req.id == req.id) && req.handle.isSome && decide (0 ≤ r)) = false := by
          simp only [beq_self_eq_true, Bool.true_and]; simpa using hc
        simp only [this]; simpa using h4 req.id
    · have : ((req.id == x) && req.handle.isSome && decide (0 ≤ r)) = false := by simp [hx]
      simp only [this]; simpa using h4 x
  have hunused : ∀ x, t.nextId ≤ x → idCount t x = 0 := by
    intro x hx
    rw [idCount_log s t _ hlog x, h5 x (by omega)]
    have : (req.id == x) = false := by simp; omega
    simp [this]
  have hfresh_rest : ∀ q ∈ rest, q.handle.isSome = true → succeeded t q.id = 0 := by
    intro q hq' hh
    rw [succeeded_log s t _ hlog q.id, h3 q (by simp [hq']) hh]
    have : (req.id == q.id) = false := by simp; exact fun he => hrest_ne q hq' he.symm
    simp [this]
  have hlt_rest : ∀ q ∈ rest, q.id < t.nextId := by
    intro q hq'; rw [hn]; exact h2 q (by simp [hq'])
  rcases hqueue with hq' | ⟨_, left, hq'⟩ | ⟨hneg, hq'⟩
  · exact ⟨by rw [hq']; exact h1.2, by rw [hq']; exact hlt_rest, by rw [hq']; exact hfresh_rest, honce, hunused⟩
  · refine ⟨?_, ?_, ?_, honce, hunused⟩
    · rw [hq']; simp only [List.map_cons, List.pairwise_cons]; exact h1
    · rw [hq']; intro q hm; simp at hm; rcases hm with rfl | hm
      · simpa [hn] using hlt_req
      · exact hlt_rest q hm
    · rw [hq']; intro q hm hh; simp at hm; rcases hm with rfl | hm
      · simp at hh
      · exact hfresh_rest q hm hh
  · refine ⟨?_, ?_, ?_, honce, hunused⟩
    · rw [hq']; simp only [List.map_cons, List.pairwise_cons]; exact h1
    · rw [hq']; intro q hm; simp at hm; rcases hm with rfl | hm
      · simpa [hn] using hlt_req
      · exact hlt_rest q hm
    · rw [hq']; intro q hm hh; simp at hm; rcases hm with rfl | hm
      · rw [succeeded_log s t _ hlog q.id, h3 q (by simp) hh]
        have : decide (0 ≤ r) = false := by simp; omega
        simp [this]
      · exact hfresh_rest q hm hh

theorem sinv_attempt (s : SSt) (r : Int) (hs : SInv s) : SInv (attempt s r) := by
  unfold attempt
  cases hq : s.queue with
  | nil => simpa using hs
  | cons req rest =>
    simp only []
    split
    · rename_i hr
      split
      · exact sinv_after s _ req rest r hq hs rfl rfl (Or.inl rfl)
      · exact sinv_after s _ req rest r hq hs rfl rfl (Or.inr (Or.inl ⟨hr, _, rfl⟩))
    · rename_i hr
      split
      · exact sinv_after s _ req rest r hq hs rfl rfl (Or.inr (Or.inr ⟨by omega, hq ▸ rfl⟩))
      · exact sinv_after s _ req rest r hq hs rfl rfl (Or.inl rfl)

theorem sinv_run (ops : List SOp) : ∀ s, SInv s → SInv (srun s ops) := by
  induction ops with
  | nil => intro s h; exact h
  | cons op rest ih =>
    intro s h
    apply ih
    cases op with
    | enq b hd => exact sinv_enq s b hd h
    | attempt r => exact sinv_attempt s r h

/-- the request was submitted with a handle -/
def hadHandle (s : SSt) (r : Nat) : Bool := s.orig.any fun e => e.1 == r && e.2.isSome

structure SInv2 (s : SSt) : Prop where
  exact : ∀ r, hadHandle s r = true → (succeeded s r = 0 → carried s r = 0) ∧ (1 ≤ succeeded s r → carried s r = 1)
  sent : ∀ q ∈ s.queue, q.handle = none → hadHandle s q.id = true → 1 ≤ succeeded s q.id
  keys : ∀ e ∈ s.orig, e.1 < s.nextId
  fin : ∀ r, (r, (0 : Int)) ∈ s.done → 1 ≤ succeeded s r

theorem sinv2_init : SInv2 {} := by
  constructor <;> simp [hadHandle]

theorem hadHandle_fresh (s : SSt) (h : ∀ e ∈ s.orig, e.1 < s.nextId) (r : Nat) (hr : s.nextId ≤ r) :
    hadHandle s r = false := by
  simp only [hadHandle, List.any_eq_false]
  intro e he
  have := h e he
  have : (e.1 == r) = false := by simp; omega
  simp [this]

theorem sinv2_enq (s : SSt) (b : Nat) (h : Option Nat) (hs : SInv s) (h2 : SInv2 s) : SInv2 (enq s b h) := by
  obtain ⟨k1, k2, k3, k4⟩ := h2
  have hh : ∀ r, hadHandle (enq s b h) r = (hadHandle s r || (s.nextId == r && h.isSome)) := by
    intro r; simp [hadHandle, enq, List.any_append]
  have hc : ∀ r, carried (enq s b h) r = carried s r := fun r => rfl
  have hsu : ∀ r, succeeded (enq s b h) r = succeeded s r := fun r => rfl
  constructor
  · intro r hr
    rw [hc, hsu]
    rw [hh] at hr
    by_cases h0 : hadHandle s r = true
    · exact k1 r h0
    · simp [h0] at hr
      have hr' : s.nextId = r := hr.1
      have hu := hs.unused r (by omega)
      have h1 := succeeded_le_idCount s r
      have h2 := carried_le_succeeded s r
      constructor <;> intro <;> omega
  · intro q hq hn hq2
    rw [hsu]
    simp only [enq, List.mem_append, List.mem_singleton] at hq
    rcases hq with hq | rfl
    · rw [hh] at hq2
      have hlt := hs.lt q hq
      have : (s.nextId == q.id) = false := by simp; omega
      simp [this] at hq2
      exact k2 q hq hn hq2
    · simp only at hn hq2
      rw [hh, hadHandle_fresh s k3 s.nextId (Nat.le_refl _), hn] at hq2
      simp at hq2
  · intro e he
    simp only [enq, List.mem_append, List.mem_singleton] at he
    rcases he with he | rfl
    · have := k3 e he; simp [enq]; omega
    · simp [enq]
  · intro r hr; rw [hsu]; exact k4 r hr

theorem sinv2_after (s t : SSt) (req : WReq) (rest : List WReq) (r : Int) (hq : s.queue = req :: rest)
    (hs : SInv s) (h2 : SInv2 s) (hlog : t.log = s.log ++ [(req.id, req.handle, r)]) (hn : t.nextId = s.nextId)
    (horig : t.orig = s.orig)
    (hdone : t.done = s.done ∨ ∃ st : Int, t.done = s.done ++ [(req.id, st)] ∧ (st = 0 → 0 ≤ r))
    (hqueue : t.queue = rest ∨ (0 ≤ r ∧ ∃ left, t.queue = { req with handle := none, remaining := left } :: rest) ∨
              (r < 0 ∧ t.queue = req :: rest)) : SInv2 t := by
  obtain ⟨k1, k2, k3, k4⟩ := h2
  have hsorted := hs.sorted
  rw [hq] at hsorted
  simp only [List.map_cons, List.pairwise_cons] at hsorted
  have hrest_ne : ∀ q ∈ rest, q.id ≠ req.id := by
    intro q hq' he
    have := hsorted.1 q.id (List.mem_map_of_mem hq')
    omega
  have hh : ∀ x, hadHandle t x = hadHandle s x := by intro x; simp [hadHandle, horig]
  have hsu_ne : ∀ x, x ≠ req.id → succeeded t x = succeeded s x := by
    intro x hx
    rw [succeeded_log s t _ hlog x]
    have : (req.id == x) = false := by simp; exact fun h => hx h.symm
    simp [this]
  have hca_ne : ∀ x, x ≠ req.id → carried t x = carried s x := by
    intro x hx
    rw [carried_log s t _ hlog x]
    have : (req.id == x) = false := by simp; exact fun h => hx h.symm
    simp [this]
  have hmono : ∀ x, succeeded s x ≤ succeeded t x := by
    intro x; rw [succeeded_log s t _ hlog x]; omega
  have hreq_in : req ∈ s.queue := by rw [hq]; simp
  have hexact : ∀ x, hadHandle t x = true →
      (succeeded t x = 0 → carried t x = 0) ∧ (1 ≤ succeeded t x → carried t x = 1) := by
    intro x hx
    rw [hh] at hx
    by_cases hxe : x = req.id
    · subst hxe
      rw [succeeded_log s t _ hlog req.id, carried_log s t _ hlog req.id]
      have hk := k1 req.id hx
      by_cases hr : 0 ≤ r
      · cases hhd : req.handle with
        | some hd =>
          have h0 := hs.fresh req hreq_in (by simp [hhd])
          have hc0 := hk.1 h0
          simp [hr, h0, hc0]
        | none =>
          have h1 := k2 req hreq_in hhd hx
          have hc1 := hk.2 h1
          simp [hr, hc1]
      · have : decide (0 ≤ r) = false := by simp; omega
        simp only [this, Bool.and_false]; simpa using hk
    · rw [hsu_ne x hxe, hca_ne x hxe]; exact k1 x hx
  have hsent_rest : ∀ q ∈ rest, q.handle = none → hadHandle t q.id = true → 1 ≤ succeeded t q.id := by
    intro q hq' hn' hq2
    rw [hh] at hq2
    have := k2 q (by rw [hq]; simp [hq']) hn' hq2
    have := hmono q.id
    omega
  have hkeys : ∀ e ∈ t.orig, e.1 < t.nextId := by rw [horig, hn]; exact k3
  have hfin : ∀ x, (x, (0 : Int)) ∈ t.done → 1 ≤ succeeded t x := by
    intro x hx
    rcases hdone with hd | ⟨st, hd, hst⟩
    · rw [hd] at hx; have := k4 x hx; have := hmono x; omega
    · rw [hd] at hx
      simp only [List.mem_append, List.mem_singleton, Prod.mk.injEq] at hx
      rcases hx with hx | ⟨rfl, hst0⟩
      · have := k4 x hx; have := hmono x; omega
      · rw [succeeded_log s t _ hlog req.id]
        have := hst hst0.symm
        simp [this]
  refine ⟨hexact, ?_, hkeys, hfin⟩
  rcases hqueue with hq' | ⟨hr, left, hq'⟩ | ⟨hneg, hq'⟩
  · rw [hq']; exact hsent_rest
  · rw [hq']; intro q hm hn' hq2
    simp at hm
    rcases hm with rfl | hm
    · simp only
      rw [succeeded_log s t _ hlog req.id]; simp [hr]
    · exact hsent_rest q hm hn' hq2
  · rw [hq']; intro q hm hn' hq2
    simp at hm
    rcases hm with rfl | hm
    · rw [hh] at hq2
      have := k2 q hreq_in hn' hq2
      have := hmono q.id
      omega
    · exact hsent_rest q hm hn' hq2

theorem sinv2_attempt (s : SSt) (r : Int) (hs : SInv s) (h2 : SInv2 s) : SInv2 (attempt s r) := by
  unfold attempt
  cases hq : s.queue with
  | nil => simpa using h2
  | cons req rest =>
    simp only []
    split
    · rename_i hr
      split
      · exact sinv2_after s _ req rest r hq hs h2 rfl rfl rfl (Or.inr ⟨0, rfl, fun _ => hr⟩) (Or.inl rfl)
      · exact sinv2_after s _ req rest r hq hs h2 rfl rfl rfl (Or.inl rfl) (Or.inr (Or.inl ⟨hr, _, rfl⟩))
    · rename_i hr
      split
      · exact sinv2_after s _ req rest r hq hs h2 rfl rfl rfl (Or.inl rfl) (Or.inr (Or.inr ⟨by omega, hq ▸ rfl⟩))
      · exact sinv2_after s _ req rest r hq hs h2 rfl rfl rfl
          (Or.inr ⟨r, rfl, fun h0 => by omega⟩) (Or.inl rfl)

theorem sinv12_run (ops : List SOp) : ∀ s, SInv s → SInv2 s → SInv (srun s ops) ∧ SInv2 (srun s ops) := by
  induction ops with
  | nil => intro s h h2; exact ⟨h, h2⟩
  | cons op rest ih =>
    intro s h h2
    cases op with
    | enq b hd => exact ih _ (sinv_enq s b hd h) (sinv2_enq s b hd h h2)
    | attempt r => exact ih _ (sinv_attempt s r h) (sinv2_attempt s r h h2)

end UvModel.Accept
