import UvModel.Getter
/-! helper lemmas for C19: reading back a write list, the copy primitives, and the two halves of the
`*size` protocol (`ProtoBig`: what happens when the value fits / does not fit; `ProtoSmall`: ENOBUFS
with a usable size) established for every getter of `Sized`. -/
namespace UvModel.Getter

/-- every store lands below offset `n` -/
def Bounded (ws : Writes) (n : Nat) : Prop := ∀ p ∈ ws, p.1 < n

theorem Bounded.mono {ws : Writes} {n m : Nat} (h : Bounded ws n) (hnm : n ≤ m) : Bounded ws m :=
  fun p hp => Nat.lt_of_lt_of_le (h p hp) hnm

theorem bounded_nil (n : Nat) : Bounded [] n := by intro p hp; cases hp

theorem bounded_append {a b : Writes} {n : Nat} : Bounded (a ++ b) n ↔ Bounded a n ∧ Bounded b n := by
  simp only [Bounded, List.mem_append]
  constructor
  · intro h; exact ⟨fun p hp => h p (Or.inl hp), fun p hp => h p (Or.inr hp)⟩
  · rintro ⟨h1, h2⟩ p (hp | hp); exact h1 p hp; exact h2 p hp

theorem bounded_ite {c : Prop} [Decidable c] {a b : Writes} {n : Nat} (ha : Bounded a n) (hb : Bounded b n) :
    Bounded (if c then a else b) n := by split <;> assumption

theorem bounded_single {o : Nat} {b : Byte} {n : Nat} : Bounded [(o, b)] n ↔ o < n := by
  simp [Bounded]

theorem mem_memcpyW {off : Nat} {src : List Byte} {p : Nat × Byte} (h : p ∈ memcpyW off src) :
    off ≤ p.1 ∧ p.1 < off + src.length := by
  induction src generalizing off with
  | nil => cases h
  | cons b bs ih =>
    simp only [memcpyW, List.mem_cons] at h
    rcases h with h | h
    · subst h; simp
    · have := ih h; simp only [List.length_cons]; omega

theorem bounded_memcpyW (off : Nat) (src : List Byte) : Bounded (memcpyW off src) (off + src.length) :=
  fun _ hp => (mem_memcpyW hp).2

theorem get_append (a b : Writes) (i : Nat) : get (a ++ b) i = (get b i).or (get a i) := by
  induction a with
  | nil => simp [get]
  | cons p a ih =>
    obtain ⟨o, x⟩ := p
    simp only [List.cons_append, get, ih]
    cases get b i <;> simp

theorem get_single (o : Nat) (b : Byte) (i : Nat) : get [(o, b)] i = if o = i then some b else none := by
  simp [get]

theorem get_memcpyW (off : Nat) (src : List Byte) (i : Nat) :
    get (memcpyW off src) i = if off ≤ i then src[i - off]? else none := by
  induction src generalizing off with
  | nil => simp [memcpyW, get]
  | cons b bs ih =>
    simp only [memcpyW, get, ih]
    by_cases h1 : off + 1 ≤ i
    · have h2 : off ≤ i := by omega
      have h3 : i - off = (i - (off + 1)) + 1 := by omega
      have h4 : ¬ off = i := by omega
      simp only [h1, h2, if_true, h3, List.getElem?_cons_succ, h4, if_false]
      cases bs[i - (off + 1)]? <;> rfl
    · by_cases h2 : off = i
      · subst h2; simp [h1]
      · have : ¬ off ≤ i := by omega
        simp [h1, h2, this]

theorem get_memcpyW0 (src : List Byte) (i : Nat) : get (memcpyW 0 src) i = src[i]? := by
  simp [get_memcpyW]

/-! ### copy primitives leave the string in the buffer -/

theorem holds_withNul (v : List Byte) : HoldsString (memcpyW 0 (v ++ [0])) v := by
  constructor
  · intro i hi; rw [get_memcpyW0, List.getElem?_append_left hi]
  · rw [get_memcpyW0]; simp

theorem holds_thenStore (v : List Byte) : HoldsString (memcpyW 0 v ++ [(v.length, 0)]) v := by
  constructor
  · intro i hi
    have : ¬ v.length = i := by omega
    simp [get_append, get_single, get_memcpyW0, this]
  · simp [get_append, get_single]

theorem holds_copy (c : Copy) (v : List Byte) : HoldsString (c.writes v) v := by
  cases c
  · exact holds_withNul v
  · exact holds_thenStore v

theorem bounded_copy (c : Copy) (v : List Byte) : Bounded (c.writes v) (v.length + 1) := by
  cases c
  · have := bounded_memcpyW 0 (v ++ [0]); simpa [Copy.writes] using this
  · simp only [Copy.writes, bounded_append, bounded_single]
    exact ⟨(bounded_memcpyW 0 v).mono (by omega), by omega⟩

/-- `memcpy` of a prefix, then a terminator right behind it (readlink / snprintf / strncpy shape) -/
theorem holds_take (v : List Byte) (n : Nat) :
    HoldsString (memcpyW 0 (v.take n) ++ [(min v.length n, 0)]) (v.take n) := by
  have hl : (v.take n).length = min v.length n := by simp [Nat.min_comm]
  constructor
  · intro i hi
    have : ¬ min v.length n = i := by omega
    simp [get_append, get_single, get_memcpyW0, this]
  · rw [hl]; simp [get_append, get_single]

theorem bounded_take (v : List Byte) (n : Nat) :
    Bounded (memcpyW 0 (v.take n) ++ [(min v.length n, 0)]) (n + 1) := by
  simp only [bounded_append, bounded_single]
  refine ⟨(bounded_memcpyW 0 _).mono ?_, ?_⟩
  · simp; omega
  · omega

/-! ### comparison forms -/

/-- all three comparisons used in the tree mean "no room for the terminator" -/
theorem tooSmall_iff (c : Cmp) (len size : Nat) : c.tooSmall len size = true ↔ size ≤ len := by
  cases c <;> simp [Cmp.tooSmall] <;> omega

/-! ### strscpy -/

theorem strscpyLoop_nulfree (v : List Byte) (hv : NulFree v) (i n : Nat) :
    strscpyLoop (v ++ [0]) i n =
      if i + v.length < n then (memcpyW i (v ++ [0]), true) else (memcpyW i (v.take (n - i)), false) := by
  induction v generalizing i with
  | nil =>
    by_cases h : i < n <;> simp [strscpyLoop, memcpyW, h]
  | cons c cs ih =>
    have hc : c ≠ 0 := hv c (by simp)
    have hcs : NulFree cs := fun x hx => hv x (by simp [hx])
    simp only [List.cons_append, strscpyLoop, hc, if_false, ih hcs, List.length_cons]
    by_cases h : i < n
    · have e : n - i = (n - (i + 1)) + 1 := by omega
      by_cases h2 : i + 1 + cs.length < n
      · have h3 : i + (cs.length + 1) < n := by omega
        simp [h, h2, h3, memcpyW]
      · have h3 : ¬ i + (cs.length + 1) < n := by omega
        simp [h, h2, h3, memcpyW, e]
    · have h3 : ¬ i + (cs.length + 1) < n := by omega
      have e : n - i = 0 := by omega
      simp [h, h3, e, memcpyW]

theorem strscpyW_nulfree (v : List Byte) (hv : NulFree v) (n : Nat) :
    strscpyW v n =
      if v.length < n then memcpyW 0 (v ++ [0])
      else if n = 0 then [] else memcpyW 0 (v.take n) ++ [(n - 1, 0)] := by
  unfold strscpyW
  rw [strscpyLoop_nulfree v hv]
  by_cases h : v.length < n
  · simp [h]
  · by_cases h0 : n = 0
    · subst h0; simp [memcpyW]
    · simp [h, h0]

/-- uv__strscpy leaves the longest prefix that fits with its terminator -/
theorem holds_strscpy (v : List Byte) (hv : NulFree v) (n : Nat) (hn : 0 < n) :
    HoldsString (strscpyW v n) (v.take (n - 1)) ∧ Bounded (strscpyW v n) n := by
  rw [strscpyW_nulfree v hv]
  by_cases h : v.length < n
  · have e : v.take (n - 1) = v := List.take_of_length_le (by omega)
    simp only [h, if_true, e]
    exact ⟨holds_withNul v, by have := bounded_memcpyW 0 (v ++ [0]); exact this.mono (by simp; omega)⟩
  · have h0 : ¬ n = 0 := by omega
    simp only [h, if_false, h0]
    have hl : (v.take (n - 1)).length = n - 1 := by simp; omega
    refine ⟨⟨?_, ?_⟩, ?_⟩
    · intro i hi
      have : ¬ n - 1 = i := by omega
      have h1 : i < n := by omega
      have h2 : i < n - 1 := by omega
      simp [get_append, get_single, get_memcpyW0, this, h1, h2]
    · rw [hl]; simp [get_append, get_single]
    · simp only [bounded_append, bounded_single]
      exact ⟨(bounded_memcpyW 0 _).mono (by simp; omega), by omega⟩

theorem holds_snprintf (v : List Byte) (n : Nat) (hn : 0 < n) :
    HoldsString (snprintfW v n) (v.take (n - 1)) ∧ Bounded (snprintfW v n) n := by
  have h0 : ¬ n = 0 := by omega
  simp only [snprintfW, h0, if_false]
  exact ⟨holds_take v (n - 1), (bounded_take v (n - 1)).mono (by omega)⟩

theorem strscpyLoop_bounded (s : List Byte) (i n : Nat) : Bounded (strscpyLoop s i n).1 n := by
  induction s generalizing i with
  | nil => exact bounded_nil n
  | cons c cs ih =>
    simp only [strscpyLoop]
    by_cases h : i < n
    · by_cases hc : c = 0
      · simp [h, hc, Bounded]
      · simp only [h, hc, if_true, if_false]
        intro p hp
        simp only [List.mem_cons] at hp
        rcases hp with hp | hp
        · subst hp; exact h
        · exact ih (i + 1) p hp
    · simp only [h, if_false]; exact bounded_nil n

/-- uv__strscpy never stores at or beyond `n`, whatever the source holds (no NulFree needed) -/
theorem strscpyW_bounded (v : List Byte) (n : Nat) : Bounded (strscpyW v n) n := by
  unfold strscpyW
  have hb := strscpyLoop_bounded (v ++ [0]) 0 n
  generalize strscpyLoop (v ++ [0]) 0 n = r at hb
  obtain ⟨w, d⟩ := r
  cases d
  · by_cases h0 : n = 0
    · subst h0; simpa using hb
    · simp only [h0, if_false, Bool.false_eq_true]
      rw [bounded_append, bounded_single]
      exact ⟨hb, by omega⟩
  · simpa using hb

theorem snprintfW_bounded (v : List Byte) (n : Nat) : Bounded (snprintfW v n) n := by
  by_cases h0 : n = 0
  · simp [snprintfW, h0]; exact bounded_nil 0
  · exact (holds_snprintf v n (by omega)).2

/-! ### `%d` has no terminator inside -/

theorem digit_ne_zero (n : Nat) : (48 + n % 10).toUInt8 ≠ 0 := by
  intro h
  have := congrArg UInt8.toNat h
  simp at this
  omega

theorem decDigits_nulfree (fuel n : Nat) (acc : List Byte) (ha : NulFree acc) : NulFree (decDigits fuel n acc) := by
  induction fuel generalizing n acc with
  | zero => exact ha
  | succ f ih =>
    have hacc' : NulFree ((48 + n % 10).toUInt8 :: acc) := by
      intro x hx
      simp only [List.mem_cons] at hx
      rcases hx with hx | hx
      · subst hx; exact digit_ne_zero n
      · exact ha x hx
    simp only [decDigits]
    by_cases h : n / 10 = 0
    · simp only [h, if_true]; exact hacc'
    · simp only [h, if_false]; exact ih _ _ hacc'

theorem decInt_nulfree (i : Int) : NulFree (decInt i) := by
  unfold decInt
  have hnil : NulFree ([] : List Byte) := by intro x hx; cases hx
  by_cases h : i < 0
  · simp only [h, if_true]
    intro x hx
    simp only [List.mem_cons] at hx
    rcases hx with hx | hx
    · subst hx; decide
    · exact decDigits_nulfree _ _ _ hnil x hx
  · simp only [h, if_false]; exact decDigits_nulfree _ _ _ hnil

theorem unknownMsg_nulfree (code : Int) : NulFree (unknownMsg code) := by
  intro x hx
  simp only [unknownMsg, List.mem_append] at hx
  rcases hx with hx | hx
  · have : NulFree (bytesOf "Unknown system error ") := by decide
    exact this x hx
  · exact decInt_nulfree code x hx

/-! ### the error table (arbitrary table) -/

theorem lookup_code {t : List ErrEntry} {code : Int} {e : ErrEntry} (h : lookup t code = some e) :
    e ∈ t ∧ e.code = code := by
  unfold lookup at h
  exact ⟨List.mem_of_find?_eq_some h, by simpa using List.find?_some h⟩

/-- with pairwise distinct case labels the switch selects exactly the entry -/
theorem lookup_mem {t : List ErrEntry} (hd : (t.map (·.code)).Nodup) {e : ErrEntry} (he : e ∈ t) :
    lookup t e.code = some e := by
  induction t with
  | nil => cases he
  | cons a t ih =>
    simp only [List.map_cons, List.nodup_cons] at hd
    simp only [lookup, List.find?_cons]
    by_cases hae : a.code = e.code
    · simp only [hae, decide_true]
      simp only [List.mem_cons] at he
      rcases he with he | he
      · rw [he]
      · exact absurd (hae ▸ List.mem_map_of_mem (f := (·.code)) he) hd.1
    · simp only [hae, decide_false]
      simp only [List.mem_cons] at he
      rcases he with he | he
      · exact absurd (he ▸ rfl) hae
      · exact ih hd.2 he

/-! ### the `*size` protocol -/

structure ProtoBig (run : Nat → Result) (v exp : List Byte) : Prop where
  fail : ∀ size, size ≤ v.length → (run size).rc ≠ 0 ∧ (run size).writes = []
  ok : ∀ size, v.length < size →
    (run size).rc = 0 ∧ (run size).size = exp.length ∧ HoldsString (run size).writes exp ∧
    Bounded (run size).writes (v.length + 1)

structure ProtoSmall (run : Nat → Result) (v : List Byte) : Prop where
  einval : (run 0).rc = EINVAL
  small : ∀ size, 0 < size → size ≤ v.length → (run size).rc = ENOBUFS ∧ v.length < (run size).size

theorem checkCopy_big (cmp : Cmp) (c : Copy) (v : List Byte) : ProtoBig (checkCopy cmp c v) v v := by
  constructor
  · intro size h
    unfold checkCopy
    by_cases h0 : size = 0
    · simp [h0, EINVAL]
    · have := (tooSmall_iff cmp v.length size).2 h
      simp [h0, this, ENOBUFS]
  · intro size h
    have h0 : ¬ size = 0 := by omega
    have : ¬ cmp.tooSmall v.length size = true := by rw [tooSmall_iff]; omega
    simp only [checkCopy, h0, this, if_false]
    exact ⟨rfl, rfl, holds_copy c v, bounded_copy c v⟩

theorem checkCopy_small (cmp : Cmp) (c : Copy) (v : List Byte) : ProtoSmall (checkCopy cmp c v) v := by
  constructor
  · simp [checkCopy]
  · intro size h0 h
    have h0' : ¬ size = 0 := by omega
    have := (tooSmall_iff cmp v.length size).2 h
    simp [checkCopy, h0', this]

theorem stripSlash_length_le (v : List Byte) : (stripSlash v).length ≤ v.length := by
  unfold stripSlash; split <;> simp

theorem tmpdir_big (v : List Byte) : ProtoBig (osTmpdir v) v (stripSlash v) := by
  constructor
  · intro size h
    unfold osTmpdir
    by_cases h0 : size = 0
    · simp [h0, EINVAL]
    · have : v.length ≥ size := h
      simp [h0, this, ENOBUFS]
  · intro size h
    have h0 : ¬ size = 0 := by omega
    have h1 : ¬ v.length ≥ size := by omega
    simp only [osTmpdir, h0, h1, if_false, stripSlash]
    by_cases hs : v.length > 1 ∧ v[v.length - 1]? = some slash
    · simp only [hs, and_self, if_true]
      have e : (v ++ [0]).take (v.length - 1 + 1) = v := by
        have : v.length - 1 + 1 = v.length := by omega
        rw [this]; simp
      have hl : (v.take (v.length - 1)).length = v.length - 1 := by simp
      rw [e]
      refine ⟨by simp, by simp, ⟨?_, ?_⟩, ?_⟩
      · intro i hi
        have h2 : ¬ v.length - 1 = i := by omega
        have h3 : i < v.length - 1 := by omega
        simp [get_append, get_single, get_memcpyW0, h2, h3]
      · rw [hl]; simp [get_append, get_single]
      · simp only [bounded_append, bounded_single]
        exact ⟨(bounded_memcpyW 0 v).mono (by omega), by omega⟩
    · simp only [hs, if_false]
      have e : (v ++ [0]).take (v.length + 1) = v ++ [0] := List.take_of_length_le (by simp)
      rw [e]
      refine ⟨by simp, by simp, ⟨?_, ?_⟩, ?_⟩
      · intro i hi
        have h2 : ¬ v.length = i := by omega
        simp [get_append, get_single, get_memcpyW0, h2, List.getElem?_append_left hi]
      · simp [get_append, get_single]
      · simp only [bounded_append, bounded_single]
        exact ⟨by have := bounded_memcpyW 0 (v ++ [0]); simpa using this, by omega⟩

theorem tmpdir_small (v : List Byte) : ProtoSmall (osTmpdir v) v := by
  constructor
  · simp [osTmpdir]
  · intro size h0 h
    have h0' : ¬ size = 0 := by omega
    have : v.length ≥ size := h
    simp [osTmpdir, h0', this]

theorem cwd_big (v : List Byte) : ProtoBig (cwd v) v (stripSlash v) := by
  constructor
  · intro size h
    unfold cwd cwdR
    by_cases h0 : size = 0
    · simp [h0, EINVAL]
    · have h1 : ¬ v.length + 1 ≤ size := by omega
      by_cases h2 : v.length + 1 ≤ scratchCap <;> simp [h0, h1, h2, ENOBUFS, ERANGE]
  · intro size h
    have h0 : ¬ size = 0 := by omega
    have h1 : v.length + 1 ≤ size := by omega
    simp only [cwd, cwdR, h0, h1, if_true, if_false, stripSlash, List.nil_append]
    by_cases hs : v.length > 1 ∧ v[v.length - 1]? = some slash
    · simp only [hs, and_self, decide_true, if_true]
      have hl : (v.take (v.length - 1)).length = v.length - 1 := by simp
      refine ⟨by simp, by simp, ⟨?_, ?_⟩, ?_⟩
      · intro i hi
        have h2 : ¬ v.length - 1 = i := by omega
        have h3 : i < v.length - 1 := by omega
        have h4 : i < v.length := by omega
        simp [get_append, get_single, get_memcpyW0, h2, h3, List.getElem?_append_left h4]
      · rw [hl]; simp [get_append, get_single]
      · simp only [bounded_append, bounded_single]
        exact ⟨by have := bounded_memcpyW 0 (v ++ [0]); simpa using this, by omega⟩
    · simp only [hs, decide_false, if_false]
      exact ⟨by simp, by simp, holds_withNul v, by have := bounded_memcpyW 0 (v ++ [0]); simpa using this⟩

theorem cwd_small (v : List Byte) (hc : CwdCanonical v) : ProtoSmall (cwd v) v := by
  obtain ⟨hstrip, hcap⟩ := hc
  constructor
  · simp [cwd, cwdR]
  · intro size h0 h
    have h0' : ¬ size = 0 := by omega
    have h1 : ¬ v.length + 1 ≤ size := by omega
    have hs : ¬ (v.length > 1 ∧ v[v.length - 1]? = some slash) := by
      intro hs
      have : (stripSlash v).length = v.length - 1 := by simp [stripSlash, hs]
      rw [hstrip] at this; omega
    simp [cwd, cwdR, h0', h1, hcap, hs]

theorem homedirPw_eq (v : List Byte) (size : Nat) :
    osHomedir none v size = checkCopy .lenGeSize .withNul v size := by
  unfold osHomedir osGetenv checkCopy
  by_cases h0 : size = 0
  · simp [h0, EINVAL, ENOENT]
  · by_cases h1 : v.length ≥ size <;> simp [h0, h1, Cmp.tooSmall, Copy.writes, ENOENT]

theorem getenv_eq (v : List Byte) (size : Nat) :
    osGetenv (some v) size = checkCopy .lenGeSize .withNul v size := by
  unfold osGetenv checkCopy
  by_cases h0 : size = 0 <;> simp [h0]

theorem takeWhile_nulfree (v : List Byte) (hv : NulFree v) : v.takeWhile (· ≠ 0) = v := by
  induction v with
  | nil => rfl
  | cons c cs ih =>
    have hc : c ≠ 0 := hv c (by simp)
    have hcs : NulFree cs := fun x hx => hv x (by simp [hx])
    have := ih hcs
    simp only [List.takeWhile_cons, hc, ne_eq, not_false_eq_true, decide_true, if_true, this]

/-- a bound path socket: what `pipeGetname` computes is the check-then-copy shape with `addrlen + 1 > *size` -/
theorem pipePath_eq (v : List Byte) (hne : v ≠ []) (hlen : v.length ≤ 108) (hv : NulFree v) (old0 : Byte) (size : Nat) :
    pipeGetname v old0 size = checkCopy .lenSlopGt .thenStore v size := by
  have htake : v.take sunPathLen = v := List.take_of_length_le hlen
  obtain ⟨c, cs, rfl⟩ := List.exists_cons_of_ne_nil hne
  have hc : c ≠ 0 := hv c (by simp)
  have htw : (c :: cs).takeWhile (· ≠ 0) = c :: cs := by
    exact takeWhile_nulfree _ hv
  unfold pipeGetname pipeCopy checkCopy
  by_cases h0 : size = 0
  · simp [h0]
  · simp only [h0, if_false, htake, htw]
    simp [hc, Cmp.tooSmall, Copy.writes]

theorem sized_big (g : Sized) (v : List Byte) (h : g.osOk v) : ProtoBig (g.run v) v (g.expected v) := by
  cases g
  · exact cwd_big v
  · show ProtoBig (fun n => osGetenv (some v) n) v v
    simp only [getenv_eq]; exact checkCopy_big _ _ v
  · show ProtoBig (fun n => osHomedir none v n) v v
    simp only [homedirPw_eq]; exact checkCopy_big _ _ v
  · exact tmpdir_big v
  · have e : v.take 64 = v := List.take_of_length_le h
    show ProtoBig (fun n => checkCopy .lenGeSize .withNul (v.take 64) n) v v
    rw [e]; exact checkCopy_big _ _ v
  · exact checkCopy_big _ _ v
  · exact checkCopy_big _ _ v
  · have e : v.take 16 = v := List.take_of_length_le (by have : v.length ≤ 15 := h; omega)
    show ProtoBig (fun n => checkCopy .sizeLeLen .thenStore (v.take 16) n) v v
    rw [e]; exact checkCopy_big _ _ v
  · obtain ⟨hne, hlen, hv⟩ := h
    show ProtoBig (fun n => pipeGetname v 0 n) v v
    simp only [pipePath_eq v hne hlen hv]; exact checkCopy_big _ _ v

theorem sized_small (g : Sized) (v : List Byte) (h : g.osOk v) (hc : g = .cwd → CwdCanonical v) :
    ProtoSmall (g.run v) v := by
  cases g
  · exact cwd_small v (hc rfl)
  · show ProtoSmall (fun n => osGetenv (some v) n) v
    simp only [getenv_eq]; exact checkCopy_small _ _ v
  · show ProtoSmall (fun n => osHomedir none v n) v
    simp only [homedirPw_eq]; exact checkCopy_small _ _ v
  · exact tmpdir_small v
  · have e : v.take 64 = v := List.take_of_length_le h
    show ProtoSmall (fun n => checkCopy .lenGeSize .withNul (v.take 64) n) v
    rw [e]; exact checkCopy_small _ _ v
  · exact checkCopy_small _ _ v
  · exact checkCopy_small _ _ v
  · have e : v.take 16 = v := List.take_of_length_le (by have : v.length ≤ 15 := h; omega)
    show ProtoSmall (fun n => checkCopy .sizeLeLen .thenStore (v.take 16) n) v
    rw [e]; exact checkCopy_small _ _ v
  · obtain ⟨hne, hlen, hv⟩ := h
    show ProtoSmall (fun n => pipeGetname v 0 n) v
    simp only [pipePath_eq v hne hlen hv]; exact checkCopy_small _ _ v

/-! ### truncating getters -/

/-- result shape of a truncating getter: success, the longest prefix that leaves room for the terminator -/
def Truncated (r : Result) (v : List Byte) (size : Nat) : Prop :=
  r.rc = 0 ∧ HoldsString r.writes (v.take (size - 1)) ∧ Bounded r.writes size

theorem exepath_truncated (v : List Byte) (size : Nat) (h : 0 < size) :
    Truncated (exepath v size) v size ∧ (exepath v size).size = min v.length (size - 1) := by
  have h0 : ¬ size = 0 := by omega
  unfold exepath Truncated
  by_cases hn : size - 1 > 0
  · simp only [h0, hn, if_true, if_false]
    exact ⟨⟨trivial, holds_take v (size - 1), (bounded_take v (size - 1)).mono (by omega)⟩, trivial⟩
  · have e : size = 1 := by omega
    subst e
    refine ⟨⟨by simp, ⟨?_, ?_⟩, ?_⟩, by simp⟩
    · intro i hi; simp at hi
    · simp [get]
    · simp [Bounded]

theorem threadGetname_truncated (v : List Byte) (hv : v.length ≤ 15) (size : Nat) (h : 0 < size) :
    Truncated (threadGetname v size) v size := by
  have h0 : ¬ size = 0 := by omega
  have e : v.take 15 = v := List.take_of_length_le hv
  simp only [threadGetname, Truncated, h0, if_false, e, strncpyW]
  refine ⟨trivial, ⟨?_, ?_⟩, ?_⟩
  · intro i hi
    have hl : (v.take (size - 1)).length = min (size - 1) v.length := by simp
    have h1 : ¬ size - 1 = i := by omega
    have h2 : i < (v.take (size - 1)).length := hi
    simp [get_append, get_single, get_memcpyW0, h1, List.getElem?_append_left h2]
  · have hl : (v.take (size - 1)).length = min (size - 1) v.length := by simp
    rw [get_append, get_single, get_memcpyW0, hl]
    by_cases hc : size - 1 ≤ v.length
    · have : min (size - 1) v.length = size - 1 := by omega
      simp [this]
    · have h3 : min (size - 1) v.length = v.length := by omega
      have h4 : ¬ size - 1 = v.length := by omega
      have h5 : (v.take (size - 1)).length ≤ v.length := by omega
      rw [h3]
      simp only [h4, if_false, Option.none_or]
      rw [List.getElem?_append_right h5, hl, h3]
      simp [List.getElem?_replicate]; omega
  · rw [bounded_append, bounded_single]
    refine ⟨(bounded_memcpyW 0 _).mono ?_, by omega⟩
    simp; omega

/-- every store of uv_thread_getname is below `size`, for any name -/
theorem threadGetname_bounded (v : List Byte) (size : Nat) : Bounded (threadGetname v size).writes size := by
  unfold threadGetname
  by_cases h0 : size = 0
  · simp only [h0, if_true]; exact bounded_nil 0
  · simp only [h0, if_false, strncpyW]
    rw [bounded_append, bounded_single]
    refine ⟨(bounded_memcpyW 0 _).mono ?_, by omega⟩
    simp; omega

theorem exepath_bounded (v : List Byte) (size : Nat) : Bounded (exepath v size).writes size := by
  by_cases h0 : size = 0
  · simp only [exepath, h0, if_true]; exact bounded_nil 0
  · exact (exepath_truncated v size (by omega)).1.2.2

/-! ### process title -/

theorem proctitle_ok (v : List Byte) (size : Nat) (h : v.length < size) :
    (getProcessTitle v size).rc = 0 ∧ HoldsString (getProcessTitle v size).writes v ∧
    Bounded (getProcessTitle v size).writes (v.length + 1) := by
  have h0 : ¬ size = 0 := by omega
  have h1 : ¬ size ≤ v.length := by omega
  simp only [getProcessTitle, h0, h1, if_false]
  refine ⟨trivial, ?_, ?_⟩
  · have hs := holds_withNul v
    constructor
    · intro i hi
      have : ¬ v.length = i := by omega
      have hl : ¬ v.length = 0 := by omega
      simp [get_append, get_single, this, hl, hs.1 i hi]
    · simp [get_append, get_single]
  · rw [bounded_append, bounded_single]
    refine ⟨?_, by omega⟩
    exact bounded_ite (by have := bounded_memcpyW 0 (v ++ [0]); simpa using this) (bounded_nil _)

theorem proctitle_small (v : List Byte) (size : Nat) (h0 : 0 < size) (h : size ≤ v.length) :
    getProcessTitle v size = ⟨ENOBUFS, [], size⟩ := by
  have h0' : ¬ size = 0 := by omega
  simp [getProcessTitle, h0', h]

/-! ### pipe names -/

theorem pipeCopy_bounded (path : List Byte) (abstract : Bool) (addrlen : Nat) (old0 : Byte) (size : Nat)
    (h0 : 0 < size) (h : abstract = true → addrlen ≠ 0 → path.getD 0 0 = 0) :
    Bounded (pipeCopy path abstract addrlen old0 size).writes size := by
  unfold pipeCopy
  cases abstract
  · simp only [Bool.false_eq_true, if_false]
    by_cases h1 : addrlen + 1 > size
    · simp only [h1, if_true]; exact bounded_nil _
    · simp only [h1, if_false]
      have hm : Bounded (memcpyW 0 (path.take addrlen)) size := (bounded_memcpyW 0 _).mono (by simp; omega)
      exact bounded_ite (by rw [bounded_append, bounded_single]; exact ⟨hm, by omega⟩) hm
  · simp only [if_true]
    by_cases h1 : addrlen + 0 > size
    · simp only [h1, if_true]; exact bounded_nil _
    · simp only [h1, if_false]
      have hm : Bounded (memcpyW 0 (path.take addrlen)) size := (bounded_memcpyW 0 _).mono (by simp; omega)
      by_cases hl : addrlen = 0
      · subst hl
        exact bounded_ite (by rw [bounded_append, bounded_single]; exact ⟨hm, h0⟩) hm
      · have := h rfl hl
        simp only [hl, if_false, this, ne_eq, not_true_eq_false]
        exact hm

theorem pipe_bounded (raw : List Byte) (old0 : Byte) (size : Nat) :
    Bounded (pipeGetname raw old0 size).writes size := by
  unfold pipeGetname
  by_cases h0 : size = 0
  · simp only [h0, if_true]; exact bounded_nil 0
  · simp only [h0, if_false]
    apply pipeCopy_bounded _ _ _ _ _ (by omega)
    intro ha _
    simpa using ha

/-- abstract name `0 :: rest` (≤ 108 bytes): exact length, no terminator -/
theorem pipe_abstract (rest : List Byte) (hlen : rest.length + 1 ≤ 108) (old0 : Byte) (size : Nat) (h0 : 0 < size) :
    pipeGetname (0 :: rest) old0 size =
      if size < rest.length + 1 then ⟨ENOBUFS, [], rest.length + 1⟩
      else ⟨0, memcpyW 0 (0 :: rest), rest.length + 1⟩ := by
  have h0' : ¬ size = 0 := by omega
  have htake : (0 :: rest).take sunPathLen = 0 :: rest := List.take_of_length_le (by simp [sunPathLen]; omega)
  unfold pipeGetname pipeCopy
  simp only [h0', if_false, htake]
  by_cases h1 : size < rest.length + 1
  · simp [h1]
  · simp [h1]

theorem holdsBytes_memcpy (s : List Byte) : HoldsBytes (memcpyW 0 s) s := by
  constructor
  · intro i _; exact get_memcpyW0 s i
  · rw [get_memcpyW0]; simp

/-- unbound socket: getsockname stores no path byte; libuv reports the empty name -/
theorem pipe_unbound (old0 : Byte) (size : Nat) (h0 : 0 < size) :
    pipeGetname [] old0 size = ⟨0, if old0 ≠ 0 then [(0, 0)] else [], 0⟩ := by
  have h0' : ¬ size = 0 := by omega
  simp [pipeGetname, pipeCopy, h0', memcpyW]

/-- uv_cwd with an arbitrary residue of the failed first getcwd: same answer; stores stay inside the buffer
as long as libc's did -/
theorem cwdR_answer (v : List Byte) (size : Nat) (residue : Writes) :
    (cwdR v size residue).rc = (cwd v size).rc ∧ (cwdR v size residue).size = (cwd v size).size := by
  unfold cwd cwdR
  by_cases h0 : size = 0
  · simp [h0]
  · by_cases h1 : v.length + 1 ≤ size
    · simp only [h0, h1, if_true, if_false]
      split <;> simp
    · by_cases h2 : v.length + 1 ≤ scratchCap <;> simp [h0, h1, h2]

theorem holds_after (a b : Writes) (s : List Byte) (h : HoldsString b s) : HoldsString (a ++ b) s := by
  constructor
  · intro i hi
    rw [get_append, h.1 i hi, List.getElem?_eq_getElem hi]; rfl
  · rw [get_append, h.2]; rfl

/-- with a residue `r` of glibc's getcwd: the writes are `r` followed by those of the plain run when the call succeeds -/
theorem cwdR_writes (v : List Byte) (size : Nat) (residue : Writes) (hpos : 0 < size) :
    (cwdR v size residue).writes = residue ++ (cwd v size).writes := by
  unfold cwd cwdR
  by_cases h0 : size = 0
  · omega
  · by_cases h1 : v.length + 1 ≤ size
    · simp only [h0, h1, if_true, if_false]
      split <;> simp [List.append_assoc]
    · by_cases h2 : v.length + 1 ≤ scratchCap <;> simp [h0, h1, h2]

theorem cwdR_bounded (v : List Byte) (size : Nat) (residue : Writes) (h : Bounded residue size) :
    Bounded (cwdR v size residue).writes size := by
  by_cases h0 : size = 0
  · simp only [cwdR, h0, if_true]; exact bounded_nil _
  rw [cwdR_writes v size residue (by omega), bounded_append]
  refine ⟨h, ?_⟩
  by_cases hs : size ≤ v.length
  · rw [((cwd_big v).fail size hs).2]; exact bounded_nil _
  · exact ((cwd_big v).ok size (by omega)).2.2.2.mono (by omega)

end UvModel.Getter
