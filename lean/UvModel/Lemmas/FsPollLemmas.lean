import UvModel.FsPoll
/-! Structural invariant of the fs_poll model (UvModel.FsPoll) and its preservation by every API call. -/
namespace UvModel.FsPoll

@[simp] theorem upd_same {α} (f : Nat → α) (i : Nat) (v : α) : upd f i v i = v := by simp [upd]
@[grind =] theorem upd_apply {α} (f : Nat → α) (i j : Nat) (v : α) : upd f i v j = if j = i then v else f j := rfl

/-- the structural invariant of every reachable state -/
structure Inv (s : S) : Prop where
  noErr : s.err = false
  chainWf : ∀ h c, c ∈ (s.hs h).chain → c < s.nctx ∧ (s.ctxs c).handle = h ∧ (s.ctxs c).freed = false
  inChain : ∀ c, c < s.nctx → (s.ctxs c).freed = false → c ∈ (s.hs (s.ctxs c).handle).chain
  nodup : ∀ h, (s.hs h).chain.Nodup
  activeHead : ∀ h, (s.hs h).active = true →
    (s.hs h).closing = false ∧ ∃ c tl, (s.hs h).chain = c :: tl ∧ (s.ctxs c).timerClosing = false
  timerLive : ∀ c, c < s.nctx → (s.ctxs c).timerActive = true → liveB s c = true
  phaseFreed : ∀ c, c < s.nctx → (s.ctxs c).freed = true →
    (s.ctxs c).statInFlight = false ∧ (s.ctxs c).timerActive = false ∧ (s.ctxs c).timerClosing = false
  phaseOne : ∀ c, c < s.nctx → (s.ctxs c).freed = false →
    ((s.ctxs c).statInFlight = true ∨ (s.ctxs c).timerActive = true ∨ (s.ctxs c).timerClosing = true)
  phaseExcl : ∀ c, c < s.nctx →
    ¬((s.ctxs c).statInFlight = true ∧ (s.ctxs c).timerActive = true) ∧
    ¬((s.ctxs c).statInFlight = true ∧ (s.ctxs c).timerClosing = true) ∧
    ¬((s.ctxs c).timerActive = true ∧ (s.ctxs c).timerClosing = true)
  closeP : ∀ h, (s.hs h).closePending = true → (s.hs h).chain = [] ∧ (s.hs h).closing = true
  closedP : ∀ h, (s.hs h).closed = true → (s.hs h).closePending = true
  closeQ : ∀ h, (s.hs h).closing = true → (s.hs h).chain = [] → (s.hs h).closePending = true

theorem inv_emit {s : S} (hi : Inv s) (o : Obs) : Inv (s.emit o) :=
  ⟨hi.noErr, hi.chainWf, hi.inChain, hi.nodup, hi.activeHead, hi.timerLive, hi.phaseFreed, hi.phaseOne,
   hi.phaseExcl, hi.closeP, hi.closedP, hi.closeQ⟩

theorem inv_init : Inv ({} : S) := by
  constructor <;> simp [liveB]

theorem inv_apiStart {s : S} (hi : Inv s) (h cb p iv : Nat) : Inv (apiStart s h cb p iv) := by
  unfold apiStart
  by_cases hc : (s.hs h).closing = true
  · simp only [hc, if_true]; exact inv_emit hi _
  by_cases ha : (s.hs h).active = true
  · simp only [hc, ha, if_true]; exact inv_emit hi _
  simp only [hc, ha]
  apply inv_emit; apply inv_emit
  obtain ⟨h1,h2,h3,h4,h5,h6,h7,h8,h9,h10,h11,h12⟩ := hi
  constructor <;> simp only [liveB] at * <;> grind

theorem inv_stopCore {s : S} (hi : Inv s) (h : Nat) : Inv (stopCore s h) := by
  unfold stopCore
  by_cases ha : (s.hs h).active = true
  · obtain ⟨hcl, c, tl, hch, htc⟩ := hi.activeHead h ha
    have hw := hi.chainWf h c (by simp [hch])
    simp only [ha, hch, hw.2.2, Bool.not_true, Bool.false_eq_true, if_false]
    obtain ⟨h1,h2,h3,h4,h5,h6,h7,h8,h9,h10,h11,h12⟩ := hi
    by_cases hta : (s.ctxs c).timerActive = true
    · simp only [hta, if_true]
      constructor <;> simp only [liveB, S.setH, S.setCtx, S.emit] at * <;> grind
    · simp only [hta]
      constructor <;> simp only [liveB, S.setH, S.setCtx, S.emit] at * <;> grind
  · simp only [ha, Bool.not_false, if_true]; simpa using hi

theorem inv_apiStop {s : S} (hi : Inv s) (h : Nat) : Inv (apiStop s h) := by
  unfold apiStop
  split
  · exact inv_emit hi _
  · exact inv_emit (inv_stopCore hi h) _

theorem inv_apiClose {s : S} (hi : Inv s) (h : Nat) : Inv (apiClose s h) := by
  unfold apiClose
  by_cases hc : (s.hs h).closing = true
  · simp only [hc, if_true]; exact inv_emit hi _
  simp only [hc]
  apply inv_emit
  unfold stopCore
  by_cases ha : (s.hs h).active = true
  · obtain ⟨hcl, c, tl, hch, htc⟩ := hi.activeHead h ha
    have hw := hi.chainWf h c (by simp [hch])
    obtain ⟨h1,h2,h3,h4,h5,h6,h7,h8,h9,h10,h11,h12⟩ := hi
    by_cases hta : (s.ctxs c).timerActive = true
    · simp only [S.setH, S.setCtx, S.emit, S.fail, upd_same, ha, hch, hw.2.2, hta, Bool.not_true, Bool.false_eq_true, if_false, if_true, List.isEmpty_cons]
      constructor <;> simp only [liveB] at * <;> grind
    · simp only [S.setH, S.setCtx, S.emit, S.fail, upd_same, ha, hch, hw.2.2, hta, Bool.not_true, Bool.false_eq_true, if_false, List.isEmpty_cons]
      constructor <;> simp only [liveB] at * <;> grind
  · obtain ⟨h1,h2,h3,h4,h5,h6,h7,h8,h9,h10,h11,h12⟩ := hi
    simp only [S.setH, upd_same, ha, Bool.not_false, if_true]
    by_cases he : (s.hs h).chain.isEmpty = true
    · simp only [he, if_true]
      constructor <;> simp only [liveB, S.setH] at * <;> grind
    · simp only [he]
      constructor <;> simp only [liveB, S.setH] at * <;> grind

theorem inv_applyOp {s : S} (hi : Inv s) (o : Op) : Inv (applyOp s o) := by
  unfold applyOp
  cases o with
  | start h cb p iv => exact inv_apiStart (inv_emit hi _) h cb p iv
  | stop h => exact inv_apiStop (inv_emit hi _) h
  | close h => exact inv_apiClose (inv_emit hi _) h

theorem inv_foldOps {s : S} (hi : Inv s) (ops : List Op) : Inv (ops.foldl applyOp s) := by
  induction ops generalizing s with
  | nil => exact hi
  | cons o t ih => exact ih (inv_applyOp hi o)

theorem inv_ncb {s : S} (hi : Inv s) (k : Nat) : Inv { s with ncb := k } :=
  ⟨hi.noErr, hi.chainWf, hi.inChain, hi.nodup, hi.activeHead, hi.timerLive, hi.phaseFreed, hi.phaseOne,
   hi.phaseExcl, hi.closeP, hi.closedP, hi.closeQ⟩

theorem inv_runCb {s : S} (sc : Script) (hi : Inv s) : Inv (runCb sc s) :=
  inv_foldOps (inv_ncb hi _) _

/-- what API calls never change in an existing context -/
def sameData (C C' : Ctx) : Prop :=
  C'.handle = C.handle ∧ C'.path = C.path ∧ C'.cb = C.cb ∧ C'.interval = C.interval ∧
  C'.startTime = C.startTime ∧ C'.busy = C.busy ∧ C'.statbuf = C.statbuf ∧
  C'.statInFlight = C.statInFlight ∧ C'.freed = C.freed ∧ C'.due = C.due

theorem sameData_refl (C : Ctx) : sameData C C := by simp [sameData]
theorem sameData_trans {A B C : Ctx} (h1 : sameData A B) (h2 : sameData B C) : sameData A C := by
  simp only [sameData] at *; grind

theorem frame_stopCore {s : S} (h c : Nat) :
    (stopCore s h).nctx = s.nctx ∧ sameData (s.ctxs c) ((stopCore s h).ctxs c) := by
  unfold stopCore
  simp only [sameData, S.setH, S.setCtx, S.emit, S.fail]
  split
  · simp
  · split
    · simp
    · split <;> split <;> simp [upd_apply] <;> grind

theorem frame_emit {s : S} (o : Obs) (c : Nat) :
    (s.emit o).nctx = s.nctx ∧ (s.emit o).ctxs c = s.ctxs c := ⟨rfl, rfl⟩

theorem frame_apiStart {s : S} (h cb p iv : Nat) {c : Nat} (hc : c < s.nctx) :
    s.nctx ≤ (apiStart s h cb p iv).nctx ∧ sameData (s.ctxs c) ((apiStart s h cb p iv).ctxs c) := by
  have : c ≠ s.nctx := Nat.ne_of_lt hc
  unfold apiStart
  by_cases h1 : (s.hs h).closing = true
  · simp [h1, S.emit, sameData]
  · by_cases h2 : (s.hs h).active = true
    · simp [h1, h2, S.emit, sameData]
    · simp [h1, h2, S.emit, sameData, upd_apply, this]

theorem frame_apiStop {s : S} (h : Nat) (c : Nat) :
    s.nctx ≤ (apiStop s h).nctx ∧ sameData (s.ctxs c) ((apiStop s h).ctxs c) := by
  unfold apiStop
  by_cases h1 : (s.hs h).closed = true
  · simp [h1, S.emit, sameData]
  · have := frame_stopCore (s := s) h c
    simp only [h1, S.emit, Bool.false_eq_true, if_false]
    exact ⟨Nat.le_of_eq this.1.symm, this.2⟩

theorem frame_apiClose {s : S} (h : Nat) (c : Nat) :
    s.nctx ≤ (apiClose s h).nctx ∧ sameData (s.ctxs c) ((apiClose s h).ctxs c) := by
  unfold apiClose
  by_cases h1 : (s.hs h).closing = true
  · simp [h1, S.emit, sameData]
  · have := frame_stopCore (s := s.setH h { (s.hs h) with closing := true }) h c
    simp only [S.setH] at this
    simp only [h1, S.emit, S.setH, Bool.false_eq_true, if_false]
    by_cases h2 : ((stopCore { s with hs := upd s.hs h { (s.hs h) with closing := true } } h).hs h).chain.isEmpty = true
    · simp only [h2, if_true]; exact ⟨Nat.le_of_eq this.1.symm, this.2⟩
    · simp only [h2]; exact ⟨Nat.le_of_eq this.1.symm, this.2⟩

theorem frame_applyOp {s : S} (o : Op) {c : Nat} (hc : c < s.nctx) :
    s.nctx ≤ (applyOp s o).nctx ∧ sameData (s.ctxs c) ((applyOp s o).ctxs c) := by
  unfold applyOp
  cases o with
  | start h cb p iv => exact frame_apiStart (s := s.emit _) h cb p iv hc
  | stop h => exact frame_apiStop (s := s.emit _) h c
  | close h => exact frame_apiClose (s := s.emit _) h c

theorem frame_foldOps {s : S} (ops : List Op) {c : Nat} (hc : c < s.nctx) :
    s.nctx ≤ (ops.foldl applyOp s).nctx ∧ sameData (s.ctxs c) ((ops.foldl applyOp s).ctxs c) := by
  induction ops generalizing s with
  | nil => exact ⟨Nat.le_refl _, sameData_refl _⟩
  | cons o t ih =>
    have h1 := frame_applyOp (s := s) o hc
    have h2 := ih (s := applyOp s o) (Nat.lt_of_lt_of_le hc h1.1)
    exact ⟨Nat.le_trans h1.1 h2.1, sameData_trans h1.2 h2.2⟩

theorem frame_runCb (sc : Script) {s : S} {c : Nat} (hc : c < s.nctx) :
    s.nctx ≤ (runCb sc s).nctx ∧ sameData (s.ctxs c) ((runCb sc s).ctxs c) :=
  frame_foldOps (s := { s with ncb := s.ncb + 1 }) _ hc

/-- rewriting only the data fields of a context keeps the invariant -/
theorem inv_setData {s : S} (hi : Inv s) (c : Nat) (C' : Ctx)
    (h1 : C'.handle = (s.ctxs c).handle) (h2 : C'.timerActive = (s.ctxs c).timerActive)
    (h3 : C'.timerClosing = (s.ctxs c).timerClosing) (h4 : C'.statInFlight = (s.ctxs c).statInFlight)
    (h5 : C'.freed = (s.ctxs c).freed) : Inv (s.setCtx c C') := by
  obtain ⟨i1,i2,i3,i4,i5,i6,i7,i8,i9,i10,i11,i12⟩ := hi
  constructor <;> simp only [liveB, S.setCtx] at * <;> grind

theorem noteResult_flags (C : Ctx) (f : Bool) (r : Res) :
    (noteResult C f r).handle = C.handle ∧ (noteResult C f r).timerActive = C.timerActive ∧
    (noteResult C f r).timerClosing = C.timerClosing ∧ (noteResult C f r).statInFlight = C.statInFlight ∧
    (noteResult C f r).freed = C.freed := by
  cases r <;> simp [noteResult] <;> split <;> simp

theorem inv_finishPoll {s : S} (hi : Inv s) {c : Nat} (hc : c < s.nctx)
    (hst : (s.ctxs c).statInFlight = true) : Inv (finishPoll s c) := by
  unfold finishPoll
  have hx := hi.phaseExcl c hc
  have htc : (s.ctxs c).timerClosing = false := by grind
  obtain ⟨i1,i2,i3,i4,i5,i6,i7,i8,i9,i10,i11,i12⟩ := hi
  simp only [htc, Bool.false_eq_true, if_false]
  by_cases hl : liveB s c = true
  · simp only [hl, Bool.not_true, Bool.false_eq_true, if_false]
    constructor <;> simp only [liveB, S.setCtx, S.emit] at * <;> grind
  · simp only [hl, Bool.not_false, if_true]
    constructor <;> simp only [liveB, S.setCtx, S.emit] at * <;> grind

/-- an in-flight context's handle has not had its close_cb -/
theorem handle_open {s : S} (hi : Inv s) {c : Nat} (hc : c < s.nctx) (hf : (s.ctxs c).freed = false) :
    (s.hs (s.ctxs c).handle).closed = false := by
  have := hi.inChain c hc hf
  have h2 := hi.closeP (s.ctxs c).handle
  have h3 := hi.closedP (s.ctxs c).handle
  grind

theorem inv_statDone (sc : Script) {s : S} (hi : Inv s) (c : Nat) (r : Res) : Inv (statDone sc s c r) := by
  unfold statDone
  by_cases hen : (decide (c < s.nctx) && (s.ctxs c).statInFlight) = true
  · simp only [hen, Bool.not_true, Bool.false_eq_true, if_false]
    have hc : c < s.nctx := by simp at hen; exact hen.1
    have hst : (s.ctxs c).statInFlight = true := by simp at hen; exact hen.2
    have hf : (s.ctxs c).freed = false := by
      have := hi.phaseFreed c hc; grind
    have ho := handle_open hi hc hf
    simp only [hf, ho, Bool.or_false, Bool.false_eq_true, if_false]
    generalize hfired : (liveB s c && fires (s.ctxs c).busy (s.ctxs c).statbuf r) = fired
    have hi1 : Inv (s.emit (.res c r (liveB s c))) := inv_emit hi _
    -- state after the optional callback
    have key : ∀ s2 : S, Inv s2 → c < s2.nctx → (s2.ctxs c).statInFlight = true →
        Inv (finishPoll (if liveB s c = true then s2.setCtx c (noteResult (s2.ctxs c) fired r) else s2) c) := by
      intro s2 hi2 hc2 hst2
      split
      · have hn := noteResult_flags (s2.ctxs c) fired r
        apply inv_finishPoll (inv_setData hi2 c _ hn.1 hn.2.1 hn.2.2.1 hn.2.2.2.1 hn.2.2.2.2) hc2
        simp [S.setCtx, hn.2.2.2.1, hst2]
      · exact inv_finishPoll hi2 hc2 hst2
    cases fired with
    | false => exact key _ hi1 hc hst
    | true =>
      simp only [if_true]
      have hi2 := inv_runCb sc (inv_emit hi1 (.cb c (s.ctxs c).handle (s.ctxs c).cb r.status (s.ctxs c).statbuf r.curr))
      have fr := frame_runCb sc (s := (s.emit (.res c r (liveB s c))).emit
        (.cb c (s.ctxs c).handle (s.ctxs c).cb r.status (s.ctxs c).statbuf r.curr)) (c := c) hc
      apply key _ hi2 (Nat.lt_of_lt_of_le hc fr.1)
      have := fr.2.2.2.2.2.2.2.2.1
      simp only [S.emit] at this ⊢
      rw [this]; exact hst
  · simp only [hen, Bool.not_false, if_true]; exact inv_emit hi _

theorem inv_timerFire {s : S} (hi : Inv s) (c : Nat) : Inv (timerFire s c) := by
  unfold timerFire
  by_cases hen : (decide (c < s.nctx) && (s.ctxs c).timerActive && decide ((s.ctxs c).due ≤ s.now)) = true
  · simp only [hen, Bool.not_true, Bool.false_eq_true, if_false]
    have hc : c < s.nctx := by simp at hen; exact hen.1.1
    have hta : (s.ctxs c).timerActive = true := by simp at hen; exact hen.1.2
    have hl := hi.timerLive c hc hta
    have hf : (s.ctxs c).freed = false := by have := hi.phaseFreed c hc; grind
    have ho := handle_open hi hc hf
    have hx := hi.phaseExcl c hc
    have hsf : (s.ctxs c).statInFlight = false := by grind
    have hhd : ((s.hs (s.ctxs c).handle).chain.head? == some c) = true := by
      simp only [liveB, Bool.and_eq_true] at hl; exact hl.2
    simp only [hf, ho, hsf, hhd, Bool.or_false, Bool.not_true, Bool.false_eq_true, if_false]
    obtain ⟨i1,i2,i3,i4,i5,i6,i7,i8,i9,i10,i11,i12⟩ := hi
    constructor <;> simp only [liveB, S.setCtx, S.emit] at * <;> grind
  · simp only [hen, Bool.not_false, if_true]; exact inv_emit hi _

theorem inv_closeCb {s : S} (hi : Inv s) (h : Nat) : Inv (closeCb s h) := by
  unfold closeCb
  by_cases hen : ((s.hs h).closePending && !(s.hs h).closed) = true
  · simp only [hen, Bool.not_true, Bool.false_eq_true, if_false]
    obtain ⟨i1,i2,i3,i4,i5,i6,i7,i8,i9,i10,i11,i12⟩ := hi
    constructor <;> simp only [liveB, S.setH] at * <;> grind
  · simp only [hen, Bool.not_false, if_true]; exact inv_emit hi _

theorem inv_timerClosed {s : S} (hi : Inv s) (c : Nat) : Inv (timerClosed s c) := by
  unfold timerClosed
  by_cases hen : (decide (c < s.nctx) && (s.ctxs c).timerClosing && !(s.ctxs c).freed) = true
  · simp only [hen, Bool.not_true, Bool.false_eq_true, if_false]
    have hc : c < s.nctx := by simp at hen; exact hen.1.1
    have htc : (s.ctxs c).timerClosing = true := by simp at hen; exact hen.1.2
    have hf : (s.ctxs c).freed = false := by simp at hen; exact hen.2
    have ho := handle_open hi hc hf
    have hin := hi.inChain c hc hf
    have hnd := hi.nodup (s.ctxs c).handle
    simp only [ho, Bool.false_eq_true, if_false]
    cases hch : (s.hs (s.ctxs c).handle).chain with
    | nil => rw [hch] at hin; cases hin
    | cons hd tl =>
      rw [hch] at hin hnd
      have hcp : (s.hs (s.ctxs c).handle).closePending = false := by
        have := hi.closeP (s.ctxs c).handle; grind
      obtain ⟨i1,i2,i3,i4,i5,i6,i7,i8,i9,i10,i11,i12⟩ := hi
      by_cases hhd : hd = c
      · subst hhd
        simp only [if_true]
        by_cases hcl : (tl.isEmpty && (s.hs (s.ctxs hd).handle).closing) = true
        · simp only [hcl, if_true, hcp, Bool.false_eq_true, if_false]
          constructor <;> simp only [liveB, S.setH, S.setCtx] at * <;> grind
        · simp only [hcl]
          constructor <;> simp only [liveB, S.setH, S.setCtx] at * <;> grind
      · have hmem : c ∈ tl := by grind
        simp only [hhd, if_false, hmem, if_true]
        constructor <;> simp only [liveB, S.setH, S.setCtx] at * <;>
          grind [List.Nodup.mem_erase_iff, List.Nodup.erase, List.mem_of_mem_erase]
  · simp only [hen, Bool.not_false, if_true]; exact inv_emit hi _

theorem inv_step (sc : Script) {s : S} (hi : Inv s) (i : In) : Inv (step sc s i) := by
  cases i with
  | op o => exact inv_applyOp hi o
  | statDone c r => exact inv_statDone sc hi c r
  | timerFire c => exact inv_timerFire hi c
  | timerClosed c => exact inv_timerClosed hi c
  | closeCb h => exact inv_closeCb hi h
  | advance n =>
    exact ⟨hi.noErr, hi.chainWf, hi.inChain, hi.nodup, hi.activeHead, hi.timerLive, hi.phaseFreed, hi.phaseOne,
      hi.phaseExcl, hi.closeP, hi.closedP, hi.closeQ⟩

theorem inv_run (sc : Script) {s : S} (hi : Inv s) (ins : List In) : Inv (run sc s ins) := by
  induction ins generalizing s with
  | nil => exact hi
  | cons i t ih => exact ih (inv_step sc hi i)

/-! ### bookkeeping of poll_cb versus the specification `specCbs` -/

theorem statbufEq_iff (a b : Stat) : statbufEq a b = true ↔ a = b := by
  cases a; cases b; simp [statbufEq]; grind

theorem status_err_neg (e : Nat) : (Res.err e).status < 0 := by
  show -((e : Int) + 1) < 0
  omega

theorem status_err_inj (e f : Nat) : (Res.err e).status = (Res.err f).status ↔ e = f := by
  show -((e : Int) + 1) = -((f : Int) + 1) ↔ e = f
  omega

theorem fires_eq_reported (hist : List Res) (r : Res) :
    fires (busyOf hist) (lastOk hist) r = reported hist r := by
  cases r with
  | err e =>
    have hn := status_err_neg e
    cases hist with
    | nil => simp only [fires, busyOf, reported]; simp; omega
    | cons p t =>
      cases p with
      | ok st => simp only [fires, busyOf, reported, differ]; simp; omega
      | err f =>
        have := status_err_inj f e
        simp only [fires, busyOf, reported, differ]
        rw [Bool.eq_iff_iff]; simp only [bne_iff_ne, ne_eq]; exact not_congr this
  | ok st =>
    cases hist with
    | nil => simp [fires, busyOf, reported]
    | cons p t =>
      cases p with
      | ok st' => simp [fires, busyOf, reported, differ, lastOk]
      | err f =>
        have hn := status_err_neg f
        simp only [fires, busyOf, reported, differ]; simp
        exact ⟨by omega, Or.inl (decide_eq_true hn)⟩

theorem noteResult_spec (C : Ctx) (hist : List Res) (r : Res)
    (hb : C.busy = busyOf hist) (hs : C.statbuf = lastOk hist) :
    (noteResult C (reported hist r) r).busy = busyOf (r :: hist) ∧
    (noteResult C (reported hist r) r).statbuf = lastOk (r :: hist) := by
  cases r with
  | ok st => simp [noteResult, busyOf, lastOk]
  | err e =>
    have := fires_eq_reported hist (.err e)
    simp only [noteResult, busyOf, lastOk]
    by_cases hr : reported hist (.err e) = true
    · simp [hr, hs]
    · simp only [hr, Bool.false_eq_true, if_false]
      refine ⟨?_, hs⟩
      rw [← this] at hr
      simp [fires, ← hb] at hr
      exact hr

/-- per-context bookkeeping invariant behind `poll_chain` -/
def PCat (s : S) (c : Nat) : Prop :=
  (c < s.nctx → cbsOf c s.trace = specCbs (histOf c s.trace) ∧
      (s.ctxs c).busy = busyOf (histOf c s.trace) ∧ (s.ctxs c).statbuf = lastOk (histOf c s.trace)) ∧
  (s.nctx ≤ c → cbsOf c s.trace = [] ∧ histOf c s.trace = [])

theorem log_stopCore (s : S) (h c : Nat) :
    histOf c (stopCore s h).trace = histOf c s.trace ∧ cbsOf c (stopCore s h).trace = cbsOf c s.trace ∧
    armsOf c (stopCore s h).trace = armsOf c s.trace ∧
    statsOf c (stopCore s h).trace = statsOf c s.trace := by
  unfold stopCore
  by_cases h1 : (s.hs h).active = true
  · simp only [h1, Bool.not_true, Bool.false_eq_true, if_false]
    cases (s.hs h).chain with
    | nil => simp [S.fail]
    | cons hd tl =>
      by_cases h2 : (s.ctxs hd).freed = true <;> by_cases h3 : (s.ctxs hd).timerActive = true <;>
        simp [h2, h3, S.fail, S.setH, S.setCtx, S.emit, histOf, cbsOf, armsOf, statsOf]
  · simp [h1]

def sameLog (c : Nat) (s s' : S) : Prop :=
  histOf c s'.trace = histOf c s.trace ∧ cbsOf c s'.trace = cbsOf c s.trace

theorem log_apiStart (s : S) (h cb p iv c : Nat) : sameLog c s (apiStart s h cb p iv) := by
  unfold apiStart sameLog
  by_cases h1 : (s.hs h).closing = true
  · simp [h1, S.emit, histOf, cbsOf, armsOf]
  · by_cases h2 : (s.hs h).active = true <;> simp [h1, h2, S.emit, histOf, cbsOf, armsOf]

theorem log_apiStop (s : S) (h c : Nat) : sameLog c s (apiStop s h) := by
  unfold apiStop sameLog
  by_cases h1 : (s.hs h).closed = true
  · simp [h1, S.emit, histOf, cbsOf, armsOf]
  · have := log_stopCore s h c
    simp [h1, S.emit, histOf, cbsOf, armsOf, this]

theorem log_apiClose (s : S) (h c : Nat) : sameLog c s (apiClose s h) := by
  unfold apiClose sameLog
  by_cases h1 : (s.hs h).closing = true
  · simp [h1, S.emit, histOf, cbsOf, armsOf]
  · have := log_stopCore (s.setH h { (s.hs h) with closing := true }) h c
    simp only [h1, Bool.false_eq_true, if_false]
    generalize stopCore (s.setH h { (s.hs h) with closing := true }) h = s2 at this ⊢
    simp only [S.setH] at this
    by_cases h2 : (s2.hs h).chain.isEmpty = true
    · simp [h2, S.emit, S.setH, histOf, cbsOf, armsOf, this]
    · simp [h2, S.emit, histOf, cbsOf, armsOf, this]

theorem log_applyOp (s : S) (o : Op) (c : Nat) : sameLog c s (applyOp s o) := by
  unfold applyOp
  have he : sameLog c s (s.emit (.api o)) := by simp [sameLog, S.emit, histOf, cbsOf, armsOf]
  have tr : ∀ s2, sameLog c (s.emit (.api o)) s2 → sameLog c s s2 := by
    intro s2 h2; unfold sameLog at *; exact ⟨h2.1.trans he.1, h2.2.trans he.2⟩
  cases o with
  | start h cb p iv => exact tr _ (log_apiStart _ h cb p iv c)
  | stop h => exact tr _ (log_apiStop _ h c)
  | close h => exact tr _ (log_apiClose _ h c)

theorem log_foldOps (s : S) (ops : List Op) (c : Nat) : sameLog c s (ops.foldl applyOp s) := by
  induction ops generalizing s with
  | nil => simp [sameLog]
  | cons o t ih =>
    have h1 := log_applyOp s o c
    have h2 := ih (applyOp s o)
    unfold sameLog at *
    exact ⟨h2.1.trans h1.1, h2.2.trans h1.2⟩

theorem log_runCb (sc : Script) (s : S) (c : Nat) : sameLog c s (runCb sc s) :=
  log_foldOps { s with ncb := s.ncb + 1 } _ c

theorem pcat_transfer {s s' : S} {c : Nat} (hn : s.nctx ≤ s'.nctx) (hl : sameLog c s s')
    (hold : c < s.nctx → (s'.ctxs c).busy = (s.ctxs c).busy ∧ (s'.ctxs c).statbuf = (s.ctxs c).statbuf)
    (hnew : s.nctx ≤ c → c < s'.nctx → (s'.ctxs c).busy = 0 ∧ (s'.ctxs c).statbuf = Stat.zero)
    (hp : PCat s c) : PCat s' c := by
  unfold PCat sameLog at *
  obtain ⟨l1, l2⟩ := hl
  rw [l1, l2]
  constructor
  · intro hc'
    by_cases hc : c < s.nctx
    · have := hp.1 hc; have ho := hold hc
      exact ⟨this.1, ho.1.trans this.2.1, ho.2.trans this.2.2⟩
    · have hge : s.nctx ≤ c := Nat.le_of_not_lt hc
      have := hp.2 hge; have hw := hnew hge hc'
      rw [this.1, this.2]
      exact ⟨by simp [specCbs], by simp [hw.1, busyOf], by simp [hw.2, lastOk]⟩
  · intro hc'
    exact hp.2 (Nat.le_trans hn hc')

theorem nctx_apiStop (s : S) (h : Nat) : (apiStop s h).nctx = s.nctx := by
  unfold apiStop
  by_cases h1 : (s.hs h).closed = true
  · simp [h1, S.emit]
  · simp [h1, S.emit, (frame_stopCore (s := s) h 0).1]

theorem nctx_apiClose (s : S) (h : Nat) : (apiClose s h).nctx = s.nctx := by
  unfold apiClose
  by_cases h1 : (s.hs h).closing = true
  · simp [h1, S.emit]
  · have := (frame_stopCore (s := s.setH h { (s.hs h) with closing := true }) h 0).1
    simp only [h1, Bool.false_eq_true, if_false]
    generalize stopCore (s.setH h { (s.hs h) with closing := true }) h = s2 at this ⊢
    simp only [S.setH] at this
    by_cases h2 : (s2.hs h).chain.isEmpty = true
    · simp [h2, S.emit, S.setH, this]
    · simp [h2, S.emit, this]

theorem fresh_applyOp (s : S) (o : Op) (c : Nat) (h1 : s.nctx ≤ c) (h2 : c < (applyOp s o).nctx) :
    ((applyOp s o).ctxs c).busy = 0 ∧ ((applyOp s o).ctxs c).statbuf = Stat.zero := by
  cases o with
  | start h cb p iv =>
    simp only [applyOp, apiStart, S.emit] at *
    by_cases g1 : (s.hs h).closing = true
    · simp [g1] at h2; omega
    · by_cases g2 : (s.hs h).active = true
      · simp [g1, g2] at h2; omega
      · simp [g1, g2] at h2 ⊢
        have : c = s.nctx := by omega
        subst this; simp [Stat.zero]
  | stop h =>
    exfalso
    have h3 := nctx_apiStop (s.emit (.api (.stop h))) h
    simp only [applyOp] at h2
    rw [h3] at h2; simp only [S.emit] at h2; omega
  | close h =>
    exfalso
    have h3 := nctx_apiClose (s.emit (.api (.close h))) h
    simp only [applyOp] at h2
    rw [h3] at h2; simp only [S.emit] at h2; omega

theorem pcat_applyOp {s : S} (o : Op) {c : Nat} (hp : PCat s c) : PCat (applyOp s o) c := by
  by_cases hc : c < s.nctx
  · have fr := frame_applyOp (s := s) o hc
    exact pcat_transfer fr.1 (log_applyOp s o c) (fun _ => ⟨fr.2.2.2.2.2.2.1, fr.2.2.2.2.2.2.2.1⟩)
      (fun h _ => absurd hc (Nat.not_lt_of_le h)) hp
  · have hge : s.nctx ≤ c := Nat.le_of_not_lt hc
    have hn : s.nctx ≤ (applyOp s o).nctx := by
      cases o with
      | start h cb p iv =>
        simp only [applyOp, apiStart, S.emit]
        by_cases g1 : (s.hs h).closing = true
        · simp [g1]
        · by_cases g2 : (s.hs h).active = true <;> simp [g1, g2]
      | stop h =>
        simp only [applyOp]
        exact (frame_apiStop (s := s.emit (.api (.stop h))) h c).1
      | close h =>
        simp only [applyOp]
        exact (frame_apiClose (s := s.emit (.api (.close h))) h c).1
    exact pcat_transfer hn (log_applyOp s o c) (fun h => absurd h hc) (fun _ h2 => fresh_applyOp s o c hge h2) hp

theorem pcat_foldOps {s : S} (ops : List Op) {c : Nat} (hp : PCat s c) : PCat (ops.foldl applyOp s) c := by
  induction ops generalizing s with
  | nil => exact hp
  | cons o t ih => exact ih (pcat_applyOp o hp)

theorem pcat_runCb (sc : Script) {s : S} {c : Nat} (hp : PCat s c) : PCat (runCb sc s) c :=
  pcat_foldOps (s := { s with ncb := s.ncb + 1 }) _ hp

theorem frame_finishPoll (s : S) (c c' : Nat) :
    (finishPoll s c).nctx = s.nctx ∧ sameLog c' s (finishPoll s c) ∧
    ((finishPoll s c).ctxs c').busy = (s.ctxs c').busy ∧
    ((finishPoll s c).ctxs c').statbuf = (s.ctxs c').statbuf := by
  unfold finishPoll sameLog
  by_cases h1 : (s.ctxs c).timerClosing = true <;> by_cases h2 : liveB s c = true <;>
    by_cases h3 : c' = c <;>
    simp [h1, h2, h3, S.fail, S.setCtx, S.emit, histOf, cbsOf, upd_apply]

/-- poll_cb on an enabled event in a state satisfying the invariant, with the guards resolved -/
theorem statDone_enabled (sc : Script) {s : S} (hi : Inv s) {c : Nat} (hc : c < s.nctx)
    (hst : (s.ctxs c).statInFlight = true) (r : Res) :
    statDone sc s c r =
      finishPoll
        (if liveB s c = true then
          (if (liveB s c && fires (s.ctxs c).busy (s.ctxs c).statbuf r) = true then
              runCb sc ((s.emit (.res c r (liveB s c))).emit
                (.cb c (s.ctxs c).handle (s.ctxs c).cb r.status (s.ctxs c).statbuf r.curr))
            else s.emit (.res c r (liveB s c))).setCtx c
            (noteResult ((if (liveB s c && fires (s.ctxs c).busy (s.ctxs c).statbuf r) = true then
              runCb sc ((s.emit (.res c r (liveB s c))).emit
                (.cb c (s.ctxs c).handle (s.ctxs c).cb r.status (s.ctxs c).statbuf r.curr))
            else s.emit (.res c r (liveB s c))).ctxs c)
              (liveB s c && fires (s.ctxs c).busy (s.ctxs c).statbuf r) r)
         else
          (if (liveB s c && fires (s.ctxs c).busy (s.ctxs c).statbuf r) = true then
              runCb sc ((s.emit (.res c r (liveB s c))).emit
                (.cb c (s.ctxs c).handle (s.ctxs c).cb r.status (s.ctxs c).statbuf r.curr))
            else s.emit (.res c r (liveB s c)))) c := by
  have hf : (s.ctxs c).freed = false := by have := hi.phaseFreed c hc; grind
  have ho := handle_open hi hc hf
  unfold statDone
  simp [hc, hst, hf, ho]

theorem pcat_emit_other {s : S} {c c' : Nat} (hne : c ≠ c') (hp : PCat s c') (r : Res) (l : Bool) :
    PCat (s.emit (.res c r l)) c' :=
  pcat_transfer (s := s) (s' := s.emit (.res c r l)) (Nat.le_refl _)
    (by simp [sameLog, S.emit, histOf, cbsOf, hne]) (fun _ => ⟨rfl, rfl⟩)
    (fun h1 h2 => absurd h2 (Nat.not_lt_of_le h1)) hp

theorem pcat_emitcb_other {s : S} {c c' : Nat} (hne : c ≠ c') (hp : PCat s c') (h f : Nat) (st : Int) (a b : Stat) :
    PCat (s.emit (.cb c h f st a b)) c' :=
  pcat_transfer (s := s) (s' := s.emit (.cb c h f st a b)) (Nat.le_refl _)
    (by simp [sameLog, S.emit, histOf, cbsOf, hne]) (fun _ => ⟨rfl, rfl⟩)
    (fun h1 h2 => absurd h2 (Nat.not_lt_of_le h1)) hp

theorem pcat_setCtx_other {s : S} {c c' : Nat} (hne : c ≠ c') (_hc : c < s.nctx) (hp : PCat s c') (C : Ctx) :
    PCat (s.setCtx c C) c' := by
  have hne' : c' ≠ c := fun h => hne h.symm
  exact pcat_transfer (s := s) (s' := s.setCtx c C) (Nat.le_refl _) (by simp [sameLog, S.setCtx])
    (by intro _; simp [S.setCtx, upd_apply, hne']) (fun h1 h2 => absurd h2 (Nat.not_lt_of_le h1)) hp

theorem pcat_finishPoll {s : S} (c : Nat) {c' : Nat} (hp : PCat s c') : PCat (finishPoll s c) c' := by
  have fr := frame_finishPoll s c c'
  exact pcat_transfer (Nat.le_of_eq fr.1.symm) fr.2.1 (fun _ => fr.2.2)
    (fun h1 h2 => absurd (fr.1 ▸ h2) (Nat.not_lt_of_le h1)) hp

theorem pcat_statDone (sc : Script) {s : S} (hi : Inv s) (c : Nat) (r : Res) {c' : Nat}
    (hp : PCat s c') : PCat (statDone sc s c r) c' := by
  by_cases hen : (decide (c < s.nctx) && (s.ctxs c).statInFlight) = true
  · have hc : c < s.nctx := by simp at hen; exact hen.1
    have hst : (s.ctxs c).statInFlight = true := by simp at hen; exact hen.2
    rw [statDone_enabled sc hi hc hst r]
    apply pcat_finishPoll
    generalize hlive : liveB s c = live
    generalize hfired : (live && fires (s.ctxs c).busy (s.ctxs c).statbuf r) = fired
    by_cases hcc : c = c'
    · subst hcc
      have ⟨hcbs, hbusy, hsb⟩ := hp.1 hc
      cases live with
      | false =>
        simp at hfired; subst hfired
        simp only [Bool.false_eq_true, if_false]
        exact pcat_transfer (s := s) (s' := s.emit (.res c r false)) (Nat.le_refl _)
          (by simp [sameLog, S.emit, histOf, cbsOf]) (fun _ => ⟨rfl, rfl⟩)
          (fun h1 h2 => absurd h2 (Nat.not_lt_of_le h1)) hp
      | true =>
        simp only [if_true]
        have hfr : fired = reported (histOf c s.trace) r := by
          rw [← hfired, hbusy, hsb, fires_eq_reported]; simp
        have hnr := noteResult_spec (s.ctxs c) (histOf c s.trace) r hbusy hsb
        cases hfd : fired with
        | false =>
          simp only [Bool.false_eq_true, if_false]
          rw [hfd] at hfr
          refine ⟨fun _ => ?_, fun h => absurd hc (Nat.not_lt_of_le h)⟩
          simp only [S.setCtx, S.emit, upd_same, histOf, cbsOf, Bool.true_and, beq_self_eq_true, if_true]
          rw [← hfr] at hnr
          refine ⟨?_, hnr.1, hnr.2⟩
          simp [specCbs, ← hfr, hcbs]
        | true =>
          simp only [if_true]
          rw [hfd] at hfr
          have fr := frame_runCb sc (s := (s.emit (.res c r true)).emit
            (.cb c (s.ctxs c).handle (s.ctxs c).cb r.status (s.ctxs c).statbuf r.curr)) (c := c) hc
          have lg := log_runCb sc ((s.emit (.res c r true)).emit
            (.cb c (s.ctxs c).handle (s.ctxs c).cb r.status (s.ctxs c).statbuf r.curr)) c
          generalize runCb sc ((s.emit (.res c r true)).emit
            (.cb c (s.ctxs c).handle (s.ctxs c).cb r.status (s.ctxs c).statbuf r.curr)) = s2 at fr lg ⊢
          simp only [S.emit] at fr lg
          have hb2 : (s2.ctxs c).busy = busyOf (histOf c s.trace) := fr.2.2.2.2.2.2.1.trans hbusy
          have hs2 : (s2.ctxs c).statbuf = lastOk (histOf c s.trace) := fr.2.2.2.2.2.2.2.1.trans hsb
          have hnr2 := noteResult_spec (s2.ctxs c) (histOf c s.trace) r hb2 hs2
          rw [← hfr] at hnr2
          refine ⟨fun _ => ?_, fun h => absurd (Nat.lt_of_lt_of_le hc fr.1) (Nat.not_lt_of_le h)⟩
          simp only [S.setCtx, upd_same, sameLog, histOf, cbsOf, Bool.true_and, beq_self_eq_true, if_true] at lg ⊢
          rw [lg.1, lg.2]
          refine ⟨?_, hnr2.1, hnr2.2⟩
          simp [specCbs, ← hfr, hcbs, hsb]
    · have hp1 : PCat (s.emit (.res c r live)) c' := pcat_emit_other hcc hp r live
      have hp2 : PCat (if fired = true then runCb sc ((s.emit (.res c r live)).emit
          (.cb c (s.ctxs c).handle (s.ctxs c).cb r.status (s.ctxs c).statbuf r.curr))
          else s.emit (.res c r live)) c' := by
        split
        · exact pcat_runCb sc (pcat_emitcb_other hcc hp1 _ _ _ _ _)
        · exact hp1
      have hn2 : c < (if fired = true then runCb sc ((s.emit (.res c r live)).emit
          (.cb c (s.ctxs c).handle (s.ctxs c).cb r.status (s.ctxs c).statbuf r.curr))
          else s.emit (.res c r live)).nctx := by
        split
        · exact Nat.lt_of_lt_of_le hc (frame_runCb sc (s := (s.emit (.res c r live)).emit _) (c := c) hc).1
        · exact hc
      split
      · exact pcat_setCtx_other hcc hn2 hp2 _
      · exact hp2
  · unfold statDone
    simp only [hen, Bool.not_false, if_true]
    exact pcat_transfer (s := s) (s' := s.emit .badEvent) (Nat.le_refl _)
      (by simp [sameLog, S.emit, histOf, cbsOf]) (fun _ => ⟨rfl, rfl⟩)
      (fun h1 h2 => absurd h2 (Nat.not_lt_of_le h1)) hp

theorem frame_timerFire (s : S) (c c' : Nat) :
    (timerFire s c).nctx = s.nctx ∧ sameLog c' s (timerFire s c) ∧
    ((timerFire s c).ctxs c').busy = (s.ctxs c').busy ∧
    ((timerFire s c).ctxs c').statbuf = (s.ctxs c').statbuf := by
  unfold timerFire sameLog
  by_cases h1 : (decide (c < s.nctx) && (s.ctxs c).timerActive && decide ((s.ctxs c).due ≤ s.now)) = true
  · simp only [h1, Bool.not_true, Bool.false_eq_true, if_false]
    by_cases h2 : ((s.ctxs c).freed || (s.hs (s.ctxs c).handle).closed || (s.ctxs c).statInFlight ||
        !((s.hs (s.ctxs c).handle).chain.head? == some c)) = true <;> by_cases h3 : c' = c <;>
      simp [h2, h3, S.fail, S.setCtx, S.emit, histOf, cbsOf, upd_apply]
  · simp [h1, S.emit, histOf, cbsOf]

theorem frame_closeCb (s : S) (h c' : Nat) :
    (closeCb s h).nctx = s.nctx ∧ sameLog c' s (closeCb s h) ∧ (closeCb s h).ctxs = s.ctxs := by
  unfold closeCb sameLog
  by_cases h1 : ((s.hs h).closePending && !(s.hs h).closed) = true
  · simp [h1, S.setH]
  · simp [h1, S.emit, histOf, cbsOf]

theorem frame_timerClosed (s : S) (c c' : Nat) :
    (timerClosed s c).nctx = s.nctx ∧ sameLog c' s (timerClosed s c) ∧
    ((timerClosed s c).ctxs c').busy = (s.ctxs c').busy ∧
    ((timerClosed s c).ctxs c').statbuf = (s.ctxs c').statbuf := by
  unfold timerClosed sameLog
  by_cases h1 : (decide (c < s.nctx) && (s.ctxs c).timerClosing && !(s.ctxs c).freed) = true
  · simp only [h1, Bool.not_true, Bool.false_eq_true, if_false]
    have e0 : (if (s.hs (s.ctxs c).handle).closed = true then s.fail else s).nctx = s.nctx ∧
        (if (s.hs (s.ctxs c).handle).closed = true then s.fail else s).trace = s.trace ∧
        (if (s.hs (s.ctxs c).handle).closed = true then s.fail else s).ctxs = s.ctxs := by
      split <;> simp [S.fail]
    generalize (if (s.hs (s.ctxs c).handle).closed = true then s.fail else s) = s0 at e0 ⊢
    obtain ⟨e1, e2, e3⟩ := e0
    cases (s.hs (s.ctxs c).handle).chain with
    | nil => by_cases h3 : c' = c <;> simp [S.fail, S.setCtx, e1, e2, e3, h3, upd_apply]
    | cons hd tl =>
      by_cases g1 : hd = c <;> by_cases g2 : (tl.isEmpty && (s.hs (s.ctxs c).handle).closing) = true <;>
        by_cases g3 : (s.hs (s.ctxs c).handle).closePending = true <;> by_cases g4 : c ∈ tl <;>
        by_cases h3 : c' = c <;>
        simp [S.fail, S.setCtx, S.setH, e1, e2, e3, g1, g2, g3, g4, h3, upd_apply]
  · simp [h1, S.emit, histOf, cbsOf]
theorem pcat_step (sc : Script) {s : S} (hi : Inv s) (i : In) {c' : Nat} (hp : PCat s c') :
    PCat (step sc s i) c' := by
  cases i with
  | op o => exact pcat_applyOp o hp
  | statDone c r => exact pcat_statDone sc hi c r hp
  | timerFire c =>
    have fr := frame_timerFire s c c'
    exact pcat_transfer (s' := timerFire s c) (Nat.le_of_eq fr.1.symm) fr.2.1 (fun _ => fr.2.2)
      (fun h1 h2 => absurd (fr.1 ▸ h2) (Nat.not_lt_of_le h1)) hp
  | timerClosed c =>
    have fr := frame_timerClosed s c c'
    exact pcat_transfer (s' := timerClosed s c) (Nat.le_of_eq fr.1.symm) fr.2.1 (fun _ => fr.2.2)
      (fun h1 h2 => absurd (fr.1 ▸ h2) (Nat.not_lt_of_le h1)) hp
  | closeCb h =>
    have fr := frame_closeCb s h c'
    exact pcat_transfer (s' := closeCb s h) (Nat.le_of_eq fr.1.symm) fr.2.1
      (fun _ => by rw [fr.2.2]; exact ⟨rfl, rfl⟩)
      (fun h1 h2 => absurd (fr.1 ▸ h2) (Nat.not_lt_of_le h1)) hp
  | advance n =>
    exact pcat_transfer (s' := { s with now := s.now + n }) (Nat.le_refl _) ⟨rfl, rfl⟩ (fun _ => ⟨rfl, rfl⟩)
      (fun h1 h2 => absurd h2 (Nat.not_lt_of_le h1)) hp

theorem pcat_init (c : Nat) : PCat ({} : S) c := by simp [PCat, histOf, cbsOf]

theorem pcat_run (sc : Script) {s : S} (hi : Inv s) (ins : List In) {c' : Nat} (hp : PCat s c') :
    PCat (run sc s ins) c' := by
  induction ins generalizing s with
  | nil => exact hp
  | cons i t ih => exact ih (inv_step sc hi i) (pcat_step sc hi i hp)

/-! ### a context that is not live stays silent -/

/-- what a dead context may never add to the log -/
def deadLog (c : Nat) (s s' : S) : Prop :=
  cbsOf c s'.trace = cbsOf c s.trace ∧ statsOf c s'.trace = statsOf c s.trace ∧
  armsOf c s'.trace = armsOf c s.trace

theorem deadLog_refl (c : Nat) (s : S) : deadLog c s s := ⟨rfl, rfl, rfl⟩
theorem deadLog_trans {c : Nat} {a b d : S} (h1 : deadLog c a b) (h2 : deadLog c b d) : deadLog c a d :=
  ⟨h2.1.trans h1.1, h2.2.1.trans h1.2.1, h2.2.2.trans h1.2.2⟩

theorem dead_stopCore {s : S} (h : Nat) {c : Nat} (hd : liveB s c = false) :
    liveB (stopCore s h) c = false := by
  unfold stopCore
  by_cases h1 : (s.hs h).active = true
  · simp only [h1, Bool.not_true, Bool.false_eq_true, if_false]
    cases hch : (s.hs h).chain with
    | nil => simpa [S.fail, liveB] using hd
    | cons hd' tl =>
      by_cases h2 : (s.ctxs hd').freed = true <;> by_cases h3 : (s.ctxs hd').timerActive = true <;>
        simp only [h2, h3, S.fail, S.setH, S.setCtx, S.emit, liveB, if_true, if_false, Bool.false_eq_true] at hd ⊢ <;>
        grind
  · simpa [h1] using hd

theorem dead_apiStart {s : S} (h cb p iv : Nat) {c : Nat} (hc : c < s.nctx) (hd : liveB s c = false) :
    liveB (apiStart s h cb p iv) c = false ∧ deadLog c s (apiStart s h cb p iv) := by
  have hne : c ≠ s.nctx := Nat.ne_of_lt hc
  unfold apiStart deadLog
  by_cases g1 : (s.hs h).closing = true
  · simp only [g1, if_true, S.emit]
    exact ⟨by simpa [liveB] using hd, by simp [cbsOf], by simp [statsOf], by simp [armsOf]⟩
  · by_cases g2 : (s.hs h).active = true
    · simp only [g1, g2, if_true, Bool.false_eq_true, if_false, S.emit]
      exact ⟨by simpa [liveB] using hd, by simp [cbsOf], by simp [statsOf], by simp [armsOf]⟩
    · simp only [g1, g2, Bool.false_eq_true, if_false, S.emit]
      refine ⟨?_, by simp [cbsOf], by simp [statsOf, Ne.symm hne], by simp [armsOf]⟩
      simp only [liveB] at hd ⊢
      grind

theorem dead_apiStop {s : S} (h : Nat) {c : Nat} (hd : liveB s c = false) :
    liveB (apiStop s h) c = false ∧ deadLog c s (apiStop s h) := by
  unfold apiStop deadLog
  by_cases g1 : (s.hs h).closed = true
  · simp only [g1, if_true, S.emit]
    exact ⟨by simpa [liveB] using hd, by simp [cbsOf], by simp [statsOf], by simp [armsOf]⟩
  · have lg := log_stopCore s h c
    have dd := dead_stopCore h hd
    simp only [g1, Bool.false_eq_true, if_false, S.emit]
    exact ⟨by simpa [liveB] using dd, by simp [cbsOf, lg], by simp [statsOf, lg], by simp [armsOf, lg]⟩

theorem dead_apiClose {s : S} (h : Nat) {c : Nat} (hd : liveB s c = false) :
    liveB (apiClose s h) c = false ∧ deadLog c s (apiClose s h) := by
  unfold apiClose deadLog
  by_cases g1 : (s.hs h).closing = true
  · simp only [g1, if_true, S.emit]
    exact ⟨by simpa [liveB] using hd, by simp [cbsOf], by simp [statsOf], by simp [armsOf]⟩
  · have hd1 : liveB (s.setH h { (s.hs h) with closing := true }) c = false := by
      simp only [liveB, S.setH] at hd ⊢; grind
    have lg := log_stopCore (s.setH h { (s.hs h) with closing := true }) h c
    have dd := dead_stopCore h hd1
    simp only [g1, Bool.false_eq_true, if_false]
    generalize stopCore (s.setH h { (s.hs h) with closing := true }) h = s2 at lg dd ⊢
    simp only [S.setH] at lg
    by_cases g2 : (s2.hs h).chain.isEmpty = true
    · simp only [g2, if_true, S.emit, S.setH]
      refine ⟨?_, by simp [cbsOf, lg], by simp [statsOf, lg], by simp [armsOf, lg]⟩
      simp only [liveB] at dd ⊢; grind
    · simp only [g2, Bool.false_eq_true, if_false, S.emit]
      exact ⟨by simpa [liveB] using dd, by simp [cbsOf, lg], by simp [statsOf, lg], by simp [armsOf, lg]⟩

theorem dead_applyOp {s : S} (o : Op) {c : Nat} (hc : c < s.nctx) (hd : liveB s c = false) :
    liveB (applyOp s o) c = false ∧ deadLog c s (applyOp s o) := by
  have he : deadLog c s (s.emit (.api o)) := by simp [deadLog, S.emit, cbsOf, statsOf, armsOf]
  have hd' : liveB (s.emit (.api o)) c = false := by simpa [liveB, S.emit] using hd
  unfold applyOp
  cases o with
  | start h cb p iv =>
    have := dead_apiStart (s := s.emit (.api (.start h cb p iv))) h cb p iv hc hd'
    exact ⟨this.1, deadLog_trans he this.2⟩
  | stop h =>
    have := dead_apiStop (s := s.emit (.api (.stop h))) h hd'
    exact ⟨this.1, deadLog_trans he this.2⟩
  | close h =>
    have := dead_apiClose (s := s.emit (.api (.close h))) h hd'
    exact ⟨this.1, deadLog_trans he this.2⟩

theorem dead_foldOps {s : S} (ops : List Op) {c : Nat} (hc : c < s.nctx) (hd : liveB s c = false) :
    liveB (ops.foldl applyOp s) c = false ∧ deadLog c s (ops.foldl applyOp s) := by
  induction ops generalizing s with
  | nil => exact ⟨hd, deadLog_refl c s⟩
  | cons o t ih =>
    have h1 := dead_applyOp o hc hd
    have h2 := ih (Nat.lt_of_lt_of_le hc (frame_applyOp o hc).1) h1.1
    exact ⟨h2.1, deadLog_trans h1.2 h2.2⟩

theorem dead_runCb (sc : Script) {s : S} {c : Nat} (hc : c < s.nctx) (hd : liveB s c = false) :
    liveB (runCb sc s) c = false ∧ deadLog c s (runCb sc s) :=
  dead_foldOps (s := { s with ncb := s.ncb + 1 }) _ hc hd
theorem dead_finishPoll {s : S} (e : Nat) {c : Nat} (hd : liveB s c = false) :
    liveB (finishPoll s e) c = false ∧ deadLog c s (finishPoll s e) := by
  unfold finishPoll deadLog
  by_cases h1 : (s.ctxs e).timerClosing = true <;> by_cases h2 : liveB s e = true <;> by_cases h3 : e = c
  all_goals (try subst h3)
  all_goals (try (rw [hd] at h2; cases h2))
  all_goals
    simp only [h1, h2, S.fail, S.setCtx, S.emit, if_true, if_false, Bool.not_true, Bool.not_false, Bool.false_eq_true]
    refine ⟨?_, by simp [cbsOf], by simp [statsOf], by simp [armsOf, *]⟩
    simp only [liveB] at hd ⊢
    grind

theorem dead_statDone (sc : Script) {s : S} (hi : Inv s) (e : Nat) (r : Res) {c : Nat} (hc : c < s.nctx)
    (hd : liveB s c = false) :
    liveB (statDone sc s e r) c = false ∧ deadLog c s (statDone sc s e r) := by
  by_cases hen : (decide (e < s.nctx) && (s.ctxs e).statInFlight) = true
  · have he : e < s.nctx := by simp at hen; exact hen.1
    have hst : (s.ctxs e).statInFlight = true := by simp at hen; exact hen.2
    rw [statDone_enabled sc hi he hst r]
    by_cases hec : e = c
    · subst hec
      simp only [hd, Bool.false_and, Bool.false_eq_true, if_false]
      have h1 : liveB (s.emit (.res e r false)) e = false := by simpa [liveB, S.emit] using hd
      have h2 : deadLog e s (s.emit (.res e r false)) := by simp [deadLog, S.emit, cbsOf, statsOf, armsOf]
      have h3 := dead_finishPoll (s := s.emit (.res e r false)) e h1
      exact ⟨h3.1, deadLog_trans h2 h3.2⟩
    · generalize hlive : liveB s e = live
      generalize hfired : (live && fires (s.ctxs e).busy (s.ctxs e).statbuf r) = fired
      have h1 : liveB (s.emit (.res e r live)) c = false := by simpa [liveB, S.emit] using hd
      have l1 : deadLog c s (s.emit (.res e r live)) := by simp [deadLog, S.emit, cbsOf, statsOf, armsOf]
      have key : ∀ s2 : S, liveB s2 c = false → deadLog c s s2 →
          liveB (finishPoll (if live = true then s2.setCtx e (noteResult (s2.ctxs e) fired r) else s2) e) c = false ∧
          deadLog c s (finishPoll (if live = true then s2.setCtx e (noteResult (s2.ctxs e) fired r) else s2) e) := by
        intro s2 hd2 l2
        have hne : c ≠ e := fun h => hec h.symm
        have h3 : liveB (if live = true then s2.setCtx e (noteResult (s2.ctxs e) fired r) else s2) c = false := by
          split
          · simpa [liveB, S.setCtx, upd_apply, hne] using hd2
          · exact hd2
        have l3 : deadLog c s2 (if live = true then s2.setCtx e (noteResult (s2.ctxs e) fired r) else s2) := by
          split
          · simp [deadLog, S.setCtx]
          · exact deadLog_refl _ _
        have h4 := dead_finishPoll e h3
        exact ⟨h4.1, deadLog_trans l2 (deadLog_trans l3 h4.2)⟩
      cases fired with
      | false => simpa using key _ h1 l1
      | true =>
        simp only [if_true]
        have h2 : liveB ((s.emit (.res e r live)).emit
            (.cb e (s.ctxs e).handle (s.ctxs e).cb r.status (s.ctxs e).statbuf r.curr)) c = false := by
          simpa [liveB, S.emit] using hd
        have l2 : deadLog c s ((s.emit (.res e r live)).emit
            (.cb e (s.ctxs e).handle (s.ctxs e).cb r.status (s.ctxs e).statbuf r.curr)) := by
          simp [deadLog, S.emit, cbsOf, statsOf, armsOf, hec]
        have h3 := dead_runCb sc (s := (s.emit (.res e r live)).emit
            (.cb e (s.ctxs e).handle (s.ctxs e).cb r.status (s.ctxs e).statbuf r.curr)) (c := c) hc h2
        exact key _ h3.1 (deadLog_trans l2 h3.2)
  · unfold statDone
    simp only [hen, Bool.not_false, if_true]
    exact ⟨by simpa [liveB, S.emit] using hd, by simp [deadLog, S.emit, cbsOf, statsOf, armsOf]⟩

theorem dead_timerFire {s : S} (hi : Inv s) (e : Nat) {c : Nat} (hc : c < s.nctx) (hd : liveB s c = false) :
    liveB (timerFire s e) c = false ∧ deadLog c s (timerFire s e) := by
  unfold timerFire
  by_cases hen : (decide (e < s.nctx) && (s.ctxs e).timerActive && decide ((s.ctxs e).due ≤ s.now)) = true
  · have hta : (s.ctxs e).timerActive = true := by simp at hen; exact hen.1.2
    have hec : e ≠ c := by
      intro h; subst h
      have := hi.timerLive e hc hta
      rw [hd] at this; cases this
    have hne : c ≠ e := fun h => hec h.symm
    simp only [hen, Bool.not_true, Bool.false_eq_true, if_false]
    refine ⟨?_, ?_⟩
    · split <;> simpa [liveB, S.fail, S.setCtx, S.emit, upd_apply, hne] using hd
    · split <;> simp [deadLog, S.fail, S.setCtx, S.emit, cbsOf, statsOf, armsOf, hec]
  · simp only [hen, Bool.not_false, if_true]
    exact ⟨by simpa [liveB, S.emit] using hd, by simp [deadLog, S.emit, cbsOf, statsOf, armsOf]⟩

theorem dead_closeCb {s : S} (h : Nat) {c : Nat} (hd : liveB s c = false) :
    liveB (closeCb s h) c = false ∧ deadLog c s (closeCb s h) := by
  unfold closeCb
  by_cases h1 : ((s.hs h).closePending && !(s.hs h).closed) = true
  · simp only [h1, Bool.not_true, Bool.false_eq_true, if_false]
    refine ⟨?_, by simp [deadLog, S.setH]⟩
    simp only [liveB, S.setH] at hd ⊢; grind
  · simp only [h1, Bool.not_false, if_true]
    exact ⟨by simpa [liveB, S.emit] using hd, by simp [deadLog, S.emit, cbsOf, statsOf, armsOf]⟩

theorem trace_timerClosed (s : S) (c : Nat) :
    (timerClosed s c).trace = s.trace ∨ (timerClosed s c).trace = .badEvent :: s.trace := by
  unfold timerClosed
  by_cases h1 : (decide (c < s.nctx) && (s.ctxs c).timerClosing && !(s.ctxs c).freed) = true
  · left
    simp only [h1, Bool.not_true, Bool.false_eq_true, if_false]
    have e0 : (if (s.hs (s.ctxs c).handle).closed = true then s.fail else s).trace = s.trace := by
      split <;> simp [S.fail]
    generalize (if (s.hs (s.ctxs c).handle).closed = true then s.fail else s) = s0 at e0 ⊢
    cases (s.hs (s.ctxs c).handle).chain with
    | nil => simp [S.fail, S.setCtx, e0]
    | cons hd tl =>
      by_cases g1 : hd = c <;> by_cases g2 : (tl.isEmpty && (s.hs (s.ctxs c).handle).closing) = true <;>
        by_cases g3 : (s.hs (s.ctxs c).handle).closePending = true <;> by_cases g4 : c ∈ tl <;>
        simp [S.fail, S.setCtx, S.setH, e0, g1, g2, g3, g4]
  · right; simp [h1, S.emit]

theorem dead_timerClosed {s : S} (hi : Inv s) (e : Nat) {c : Nat} (hd : liveB s c = false) :
    liveB (timerClosed s e) c = false ∧ deadLog c s (timerClosed s e) := by
  have fr := frame_timerClosed s e c
  refine ⟨?_, ?_⟩
  · unfold timerClosed
    by_cases hen : (decide (e < s.nctx) && (s.ctxs e).timerClosing && !(s.ctxs e).freed) = true
    · simp only [hen, Bool.not_true, Bool.false_eq_true, if_false]
      have he : e < s.nctx := by simp at hen; exact hen.1.1
      have htc : (s.ctxs e).timerClosing = true := by simp at hen; exact hen.1.2
      have hf : (s.ctxs e).freed = false := by simp at hen; exact hen.2
      have ho := handle_open hi he hf
      have hah := hi.activeHead (s.ctxs e).handle
      simp only [ho, Bool.false_eq_true, if_false]
      cases hch : (s.hs (s.ctxs e).handle).chain with
      | nil => simp only [liveB, S.fail, S.setCtx] at hd ⊢; grind
      | cons hd' tl =>
        by_cases g1 : hd' = e <;> by_cases g2 : (tl.isEmpty && (s.hs (s.ctxs e).handle).closing) = true <;>
          by_cases g3 : (s.hs (s.ctxs e).handle).closePending = true <;> by_cases g4 : e ∈ tl <;>
          simp only [g1, g2, g3, g4, if_true, if_false, Bool.false_eq_true, liveB, S.fail, S.setCtx, S.setH] at hd ⊢ <;>
          grind
    · simp only [hen, Bool.not_false, if_true]; simpa [liveB, S.emit] using hd
  · rcases trace_timerClosed s e with h | h <;> simp [deadLog, h, cbsOf, statsOf, armsOf]

theorem dead_step (sc : Script) {s : S} (hi : Inv s) (i : In) {c : Nat} (hc : c < s.nctx)
    (hd : liveB s c = false) : liveB (step sc s i) c = false ∧ deadLog c s (step sc s i) := by
  cases i with
  | op o => exact dead_applyOp o hc hd
  | statDone e r => exact dead_statDone sc hi e r hc hd
  | timerFire e => exact dead_timerFire hi e hc hd
  | timerClosed e => exact dead_timerClosed hi e hd
  | closeCb h => exact dead_closeCb h hd
  | advance n => exact ⟨by simpa [liveB, step] using hd, by simp [deadLog, step]⟩

theorem nctx_step (sc : Script) (s : S) (i : In) : s.nctx ≤ (step sc s i).nctx := by
  cases i with
  | op o =>
    cases o with
    | start h cb p iv =>
      simp only [step, applyOp, apiStart, S.emit]
      by_cases g1 : (s.hs h).closing = true
      · simp [g1]
      · by_cases g2 : (s.hs h).active = true <;> simp [g1, g2]
    | stop h => simp only [step, applyOp]; rw [nctx_apiStop]; exact Nat.le_refl _
    | close h => simp only [step, applyOp]; rw [nctx_apiClose]; exact Nat.le_refl _
  | statDone e r =>
    simp only [step]
    unfold statDone
    by_cases hen : (decide (e < s.nctx) && (s.ctxs e).statInFlight) = true
    · have he : e < s.nctx := by simp at hen; exact hen.1
      simp only [hen, Bool.not_true, Bool.false_eq_true, if_false]
      rw [(frame_finishPoll _ e 0).1]
      have e0 : (if ((s.ctxs e).freed || (s.hs (s.ctxs e).handle).closed) = true then s.fail else s).nctx = s.nctx := by
        split <;> rfl
      generalize (if ((s.ctxs e).freed || (s.hs (s.ctxs e).handle).closed) = true then s.fail else s) = s0 at e0 ⊢
      have key : ∀ s2 : S, s.nctx ≤ s2.nctx → ∀ (b : Bool) (f : S → Ctx),
          s.nctx ≤ (if b = true then s2.setCtx e (f s2) else s2).nctx := by
        intro s2 h2 b f; split <;> simpa [S.setCtx] using h2
      refine key _ ?_ (liveB s0 e) (fun s2 => noteResult (s2.ctxs e) _ r)
      split
      · have hX : ((s0.emit (.res e r (liveB s0 e))).emit
            (.cb e (s.ctxs e).handle (s.ctxs e).cb r.status (s.ctxs e).statbuf r.curr)).nctx = s.nctx := e0
        have := (frame_runCb sc (s := (s0.emit (.res e r (liveB s0 e))).emit
          (.cb e (s.ctxs e).handle (s.ctxs e).cb r.status (s.ctxs e).statbuf r.curr)) (c := e) (by rw [hX]; exact he)).1
        exact Nat.le_trans (Nat.le_of_eq hX.symm) this
      · exact Nat.le_of_eq e0.symm
    · simp [hen, S.emit]
  | timerFire e => simp only [step]; rw [(frame_timerFire s e 0).1]; exact Nat.le_refl _
  | timerClosed e => simp only [step]; rw [(frame_timerClosed s e 0).1]; exact Nat.le_refl _
  | closeCb h => simp only [step]; rw [(frame_closeCb s h 0).1]; exact Nat.le_refl _
  | advance n => exact Nat.le_refl _

theorem dead_run (sc : Script) {s : S} (hi : Inv s) (ins : List In) {c : Nat} (hc : c < s.nctx)
    (hd : liveB s c = false) : liveB (run sc s ins) c = false ∧ deadLog c s (run sc s ins) := by
  induction ins generalizing s with
  | nil => exact ⟨hd, deadLog_refl c s⟩
  | cons i t ih =>
    have h1 := dead_step sc hi i hc hd
    have h2 := ih (inv_step sc hi i) (Nat.lt_of_lt_of_le hc (nctx_step sc s i)) h1.1
    exact ⟨h2.1, deadLog_trans h1.2 h2.2⟩

/-! ### reachability, chain lemma on the specification, retirement of dead contexts -/

/-- states reachable from the initial state by any inputs under any callback script -/
def Reachable (sc : Script) (s : S) : Prop := ∃ ins, s = run sc {} ins

theorem reachable_inv {sc : Script} {s : S} (h : Reachable sc s) : Inv s := by
  obtain ⟨ins, rfl⟩ := h; exact inv_run sc inv_init ins

theorem lastOk_of_newestOkCb (rs : List Res) (cb : CbRec) (h : newestOkCb (specCbs rs) = some cb) :
    cb.curr = lastOk rs := by
  induction rs with
  | nil => simp [specCbs, newestOkCb] at h
  | cons r older ih =>
    cases r with
    | err e =>
      have hs : (Res.err e).status ≠ 0 := by have := status_err_neg e; omega
      simp only [specCbs, lastOk] at h ⊢
      by_cases hr : reported older (.err e) = true
      · simp [hr, newestOkCb, hs] at h; exact ih h
      · simp [hr] at h; exact ih h
    | ok st =>
      simp only [specCbs, lastOk] at h ⊢
      by_cases hr : reported older (.ok st) = true
      · simp [hr, newestOkCb, Res.status, Res.curr] at h; rw [← h]
      · simp [hr] at h
        cases older with
        | nil => simp [specCbs, newestOkCb] at h
        | cons p t =>
          have := ih h
          cases p with
          | ok st' =>
            simp [reported, differ] at hr
            rw [this, lastOk]; exact (statbufEq_iff _ _).1 hr
          | err f => simp [reported, differ] at hr

theorem dead_pending {s : S} (hi : Inv s) {c : Nat} (hc : c < s.nctx) (hd : liveB s c = false)
    (hf : (s.ctxs c).freed = false) :
    (s.ctxs c).timerActive = false ∧ ((s.ctxs c).statInFlight = true ∨ (s.ctxs c).timerClosing = true) := by
  have h1 := hi.timerLive c hc
  have h2 := hi.phaseOne c hc hf
  grind

theorem retire_stat (sc : Script) {s : S} (hi : Inv s) {c : Nat} (hc : c < s.nctx) (hd : liveB s c = false)
    (hst : (s.ctxs c).statInFlight = true) (r : Res) :
    ((statDone sc s c r).ctxs c).timerClosing = true ∧ ((statDone sc s c r).ctxs c).freed = false ∧
    ((statDone sc s c r).ctxs c).statInFlight = false ∧
    (statDone sc s c r).trace = .closeTimer c :: .res c r false :: s.trace := by
  have hf : (s.ctxs c).freed = false := by have := hi.phaseFreed c hc; grind
  have hx := hi.phaseExcl c hc
  have htc : (s.ctxs c).timerClosing = false := by grind
  rw [statDone_enabled sc hi hc hst r]
  have hl : liveB { s with trace := Obs.res c r false :: s.trace } c = false := by simpa [liveB] using hd
  simp [hd, finishPoll, hl, S.emit, S.setCtx, htc, hf]

theorem retire_close {s : S} (hi : Inv s) {c : Nat} (hc : c < s.nctx)
    (htc : (s.ctxs c).timerClosing = true) :
    ((timerClosed s c).ctxs c).freed = true ∧ (timerClosed s c).nctx = s.nctx := by
  have hf : (s.ctxs c).freed = false := by have := hi.phaseFreed c hc; grind
  refine ⟨?_, (frame_timerClosed s c c).1⟩
  unfold timerClosed
  simp [hc, htc, hf, S.setCtx]

end UvModel.FsPoll
