import UvModel.FsPoll
/-! Structural invariant of the fs_poll model (UvModel.FsPoll) and its preservation by every API call. -/
namespace UvModel.FsPoll

@[simp] theorem upd_same {α} (f : Nat → α) (i : Nat) (v : α) : upd f i v i = v := by simp [upd]
@[grind =] theorem upd_apply {α} (f : Nat → α) (i j : Nat) (v : α) : upd f i v j = if j = i then v else f j := rfl

/-- the structural invariant of every reachable state -/
structure Inv (s : S) : Prop where
  noErr : s.err = false
  chainWf : ∀ h c, c ∈ (s.hs h).chain → c < s.nctx ∧ (s.ctxs c).handle = h ∧ (s.ctxs c).freed = false
  inChain : ∀ c, c < s.nctx → (s.ctxs c).freed = false → c ∈ (s.hs (s.ctxs c).handle).chain
  nodup : ∀ h, (s.hs h).chain.Nodup
  activeHead : ∀ h, (s.hs h).active = true →
    (s.hs h).closing = false ∧ ∃ c tl, (s.hs h).chain = c :: tl ∧ (s.ctxs c).timerClosing = false
  timerLive : ∀ c, c < s.nctx → (s.ctxs c).timerActive = true → liveB s c = true
  phaseFreed : ∀ c, c < s.nctx → (s.ctxs c).freed = true →
    (s.ctxs c).statInFlight = false ∧ (s.ctxs c).timerActive = false ∧ (s.ctxs c).timerClosing = false
  phaseOne : ∀ c, c < s.nctx → (s.ctxs c).freed = false →
    ((s.ctxs c).statInFlight = true ∨ (s.ctxs c).timerActive = true ∨ (s.ctxs c).timerClosing = true)
  phaseExcl : ∀ c, c < s.nctx →
    ¬((s.ctxs c).statInFlight = true ∧ (s.ctxs c).timerActive = true) ∧
    ¬((s.ctxs c).statInFlight = true ∧ (s.ctxs c).timerClosing = true) ∧
    ¬((s.ctxs c).timerActive = true ∧ (s.ctxs c).timerClosing = true)
  closeP : ∀ h, (s.hs h).closePending = true → (s.hs h).chain = [] ∧ (s.hs h).closing = true
  closedP : ∀ h, (s.hs h).closed = true → (s.hs h).closePending = true
  closeQ : ∀ h, (s.hs h).closing = true → (s.hs h).chain = [] → (s.hs h).closePending = true

theorem inv_emit {s : S} (hi : Inv s) (o : Obs) : Inv (s.emit o) :=
  ⟨hi.noErr, hi.chainWf, hi.inChain, hi.nodup, hi.activeHead, hi.timerLive, hi.phaseFreed, hi.phaseOne,
   hi.phaseExcl, hi.closeP, hi.closedP, hi.closeQ⟩

theorem inv_init : Inv ({} : S) := by
  constructor <;> simp [liveB]

theorem inv_apiStart {s : S} (hi : Inv s) (h cb p iv : Nat) : Inv (apiStart s h cb p iv) := by
  unfold apiStart
  by_cases hc : (s.hs h).closing = true
  · simp only [hc, if_true]; exact inv_emit hi _
  by_cases ha : (s.hs h).active = true
  · simp only [hc, ha, if_true]; exact inv_emit hi _
  simp only [hc, ha]
  apply inv_emit; apply inv_emit
  obtain ⟨h1,h2,h3,h4,h5,h6,h7,h8,h9,h10,h11,h12⟩ := hi
  constructor <;> simp only [liveB] at * <;> grind

theorem inv_stopCore {s : S} (hi : Inv s) (h : Nat) : Inv (stopCore s h) := by
  unfold stopCore
  by_cases ha : (s.hs h).active = true
  · obtain ⟨hcl, c, tl, hch, htc⟩ := hi.activeHead h ha
    have hw := hi.chainWf h c (by simp [hch])
    simp only [ha, hch, hw.2.2, Bool.not_true, Bool.false_eq_true, if_false]
    obtain ⟨h1,h2,h3,h4,h5,h6,h7,h8,h9,h10,h11,h12⟩ := hi
    by_cases hta : (s.ctxs c).timerActive = true
    · simp only [hta, if_true]
      constructor <;> simp only [liveB, S.setH, S.setCtx, S.emit] at * <;> grind
    · simp only [hta]
      constructor <;> simp only [liveB, S.setH, S.setCtx, S.emit] at * <;> grind
  · simp only [ha, Bool.not_false, if_true]; simpa using hi

theorem inv_apiStop {s : S} (hi : Inv s) (h : Nat) : Inv (apiStop s h) := by
  unfold apiStop
  split
  · exact inv_emit hi _
  · exact inv_emit (inv_stopCore hi h) _

theorem inv_apiClose {s : S} (hi : Inv s) (h : Nat) : Inv (apiClose s h) := by
  unfold apiClose
  by_cases hc : (s.hs h).closing = true
  · simp only [hc, if_true]; exact inv_emit hi _
  simp only [hc]
  apply inv_emit
  unfold stopCore
  by_cases ha : (s.hs h).active = true
  · obtain ⟨hcl, c, tl, hch, htc⟩ := hi.activeHead h ha
    have hw := hi.chainWf h c (by simp [hch])
    obtain ⟨h1,h2,h3,h4,h5,h6,h7,h8,h9,h10,h11,h12⟩ := hi
    by_cases hta : (s.ctxs c).timerActive = true
    · simp only [S.setH, S.setCtx, S.emit, S.fail, upd_same, ha, hch, hw.2.2, hta, Bool.not_true, Bool.false_eq_true, if_false, if_true, List.isEmpty_cons]
      constructor <;> simp only [liveB] at * <;> grind
    · simp only [S.setH, S.setCtx, S.emit, S.fail, upd_same, ha, hch, hw.2.2, hta, Bool.not_true, Bool.false_eq_true, if_false, List.isEmpty_cons]
      constructor <;> simp only [liveB] at * <;> grind
  · obtain ⟨h1,h2,h3,h4,h5,h6,h7,h8,h9,h10,h11,h12⟩ := hi
    simp only [S.setH, upd_same, ha, Bool.not_false, if_true]
    by_cases he : (s.hs h).chain.isEmpty = true
    · simp only [he, if_true]
      constructor <;> simp only [liveB, S.setH] at * <;> grind
    · simp only [he]
      constructor <;> simp only [liveB, S.setH] at * <;> grind

theorem inv_applyOp {s : S} (hi : Inv s) (o : Op) : Inv (applyOp s o) := by
  unfold applyOp
  cases o with
  | start h cb p iv => exact inv_apiStart (inv_emit hi _) h cb p iv
  | stop h => exact inv_apiStop (inv_emit hi _) h
  | close h => exact inv_apiClose (inv_emit hi _) h

theorem inv_foldOps {s : S} (hi : Inv s) (ops : List Op) : Inv (ops.foldl applyOp s) := by
  induction ops generalizing s with
  | nil => exact hi
  | cons o t ih => exact ih (inv_applyOp hi o)

theorem inv_ncb {s : S} (hi : Inv s) (k : Nat) : Inv { s with ncb := k } :=
  ⟨hi.noErr, hi.chainWf, hi.inChain, hi.nodup, hi.activeHead, hi.timerLive, hi.phaseFreed, hi.phaseOne,
   hi.phaseExcl, hi.closeP, hi.closedP, hi.closeQ⟩

theorem inv_runCb {s : S} (sc : Script) (hi : Inv s) : Inv (runCb sc s) :=
  inv_foldOps (inv_ncb hi _) _

/-- what API calls never change in an existing context -/
def sameData (C C' : Ctx) : Prop :=
  C'.handle = C.handle ∧ C'.path = C.path ∧ C'.cb = C.cb ∧ C'.interval = C.interval ∧
  C'.startTime = C.startTime ∧ C'.busy = C.busy ∧ C'.statbuf = C.statbuf ∧
  C'.statInFlight = C.statInFlight ∧ C'.freed = C.freed ∧ C'.due = C.due

theorem sameData_refl (C : Ctx) : sameData C C := by simp [sameData]
theorem sameData_trans {A B C : Ctx} (h1 : sameData A B) (h2 : sameData B C) : sameData A C := by
  simp only [sameData] at *; grind

theorem frame_stopCore {s : S} (h c : Nat) :
    (stopCore s h).nctx = s.nctx ∧ sameData (s.ctxs c) ((stopCore s h).ctxs c) := by
  unfold stopCore
  simp only [sameData, S.setH, S.setCtx, S.emit, S.fail]
  split
  · simp
  · split
    · simp
    · split <;> split <;> simp [upd_apply] <;> grind

theorem frame_emit {s : S} (o : Obs) (c : Nat) :
    (s.emit o).nctx = s.nctx ∧ (s.emit o).ctxs c = s.ctxs c := ⟨rfl, rfl⟩

theorem frame_apiStart {s : S} (h cb p iv : Nat) {c : Nat} (hc : c < s.nctx) :
    s.nctx ≤ (apiStart s h cb p iv).nctx ∧ sameData (s.ctxs c) ((apiStart s h cb p iv).ctxs c) := by
  have : c ≠ s.nctx := Nat.ne_of_lt hc
  unfold apiStart
  by_cases h1 : (s.hs h).closing = true
  · simp [h1, S.emit, sameData]
  · by_cases h2 : (s.hs h).active = true
    · simp [h1, h2, S.emit, sameData]
    · simp [h1, h2, S.emit, sameData, upd_apply, this]

theorem frame_apiStop {s : S} (h : Nat) (c : Nat) :
    s.nctx ≤ (apiStop s h).nctx ∧ sameData (s.ctxs c) ((apiStop s h).ctxs c) := by
  unfold apiStop
  by_cases h1 : (s.hs h).closed = true
  · simp [h1, S.emit, sameData]
  · have := frame_stopCore (s := s) h c
    simp only [h1, S.emit, Bool.false_eq_true, if_false]
    exact ⟨Nat.le_of_eq this.1.symm, this.2⟩

theorem frame_apiClose {s : S} (h : Nat) (c : Nat) :
    s.nctx ≤ (apiClose s h).nctx ∧ sameData (s.ctxs c) ((apiClose s h).ctxs c) := by
  unfold apiClose
  by_cases h1 : (s.hs h).closing = true
  · simp [h1, S.emit, sameData]
  · have := frame_stopCore (s := s.setH h { (s.hs h) with closing := true }) h c
    simp only [S.setH] at this
    simp only [h1, S.emit, S.setH, Bool.false_eq_true, if_false]
    by_cases h2 : ((stopCore { s with hs := upd s.hs h { (s.hs h) with closing := true } } h).hs h).chain.isEmpty = true
    · simp only [h2, if_true]; exact ⟨Nat.le_of_eq this.1.symm, this.2⟩
    · simp only [h2]; exact ⟨Nat.le_of_eq this.1.symm, this.2⟩

theorem frame_applyOp {s : S} (o : Op) {c : Nat} (hc : c < s.nctx) :
    s.nctx ≤ (applyOp s o).nctx ∧ sameData (s.ctxs c) ((applyOp s o).ctxs c) := by
  unfold applyOp
  cases o with
  | start h cb p iv => exact frame_apiStart (s := s.emit _) h cb p iv hc
  | stop h => exact frame_apiStop (s := s.emit _) h c
  | close h => exact frame_apiClose (s := s.emit _) h c

theorem frame_foldOps {s : S} (ops : List Op) {c : Nat} (hc : c < s.nctx) :
    s.nctx ≤ (ops.foldl applyOp s).nctx ∧ sameData (s.ctxs c) ((ops.foldl applyOp s).ctxs c) := by
  induction ops generalizing s with
  | nil => exact ⟨Nat.le_refl _, sameData_refl _⟩
  | cons o t ih =>
    have h1 := frame_applyOp (s := s) o hc
    have h2 := ih (s := applyOp s o) (Nat.lt_of_lt_of_le hc h1.1)
    exact ⟨Nat.le_trans h1.1 h2.1, sameData_trans h1.2 h2.2⟩

theorem frame_runCb (sc : Script) {s : S} {c : Nat} (hc : c < s.nctx) :
    s.nctx ≤ (runCb sc s).nctx ∧ sameData (s.ctxs c) ((runCb sc s).ctxs c) :=
  frame_foldOps (s := { s with ncb := s.ncb + 1 }) _ hc

/-- rewriting only the data fields of a context keeps the invariant -/
theorem inv_setData {s : S} (hi : Inv s) (c : Nat) (C' : Ctx)
    (h1 : C'.handle = (s.ctxs c).handle) (h2 : C'.timerActive = (s.ctxs c).timerActive)
    (h3 : C'.timerClosing = (s.ctxs c).timerClosing) (h4 : C'.statInFlight = (s.ctxs c).statInFlight)
    (h5 : C'.freed = (s.ctxs c).freed) : Inv (s.setCtx c C') := by
  obtain ⟨i1,i2,i3,i4,i5,i6,i7,i8,i9,i10,i11,i12⟩ := hi
  constructor <;> simp only [liveB, S.setCtx] at * <;> grind

theorem noteResult_flags (C : Ctx) (f : Bool) (r : Res) :
    (noteResult C f r).handle = C.handle ∧ (noteResult C f r).timerActive = C.timerActive ∧
    (noteResult C f r).timerClosing = C.timerClosing ∧ (noteResult C f r).statInFlight = C.statInFlight ∧
    (noteResult C f r).freed = C.freed := by
  cases r <;> simp [noteResult] <;> split <;> simp

theorem inv_finishPoll {s : S} (hi : Inv s) {c : Nat} (hc : c < s.nctx)
    (hst : (s.ctxs c).statInFlight = true) : Inv (finishPoll s c) := by
  unfold finishPoll
  have hx := hi.phaseExcl c hc
  have htc : (s.ctxs c).timerClosing = false := by grind
  obtain ⟨i1,i2,i3,i4,i5,i6,i7,i8,i9,i10,i11,i12⟩ := hi
  simp only [htc, Bool.false_eq_true, if_false]
  by_cases hl : liveB s c = true
  · simp only [hl, Bool.not_true, Bool.false_eq_true, if_false]
    constructor <;> simp only [liveB, S.setCtx, S.emit] at * <;> grind
  · simp only [hl, Bool.not_false, if_true]
    constructor <;> simp only [liveB, S.setCtx, S.emit] at * <;> grind

/-- an in-flight context's handle has not had its close_cb -/
theorem handle_open {s : S} (hi : Inv s) {c : Nat} (hc : c < s.nctx) (hf : (s.ctxs c).freed = false) :
    (s.hs (s.ctxs c).handle).closed = false := by
  have := hi.inChain c hc hf
  have h2 := hi.closeP (s.ctxs c).handle
  have h3 := hi.closedP (s.ctxs c).handle
  grind

theorem inv_statDone (sc : Script) {s : S} (hi : Inv s) (c : Nat) (r : Res) : Inv (statDone sc s c r) := by
  unfold statDone
  by_cases hen : (decide (c < s.nctx) && (s.ctxs c).statInFlight) = true
  · simp only [hen, Bool.not_true, Bool.false_eq_true, if_false]
    have hc : c < s.nctx := by simp at hen; exact hen.1
    have hst : (s.ctxs c).statInFlight = true := by simp at hen; exact hen.2
    have hf : (s.ctxs c).freed = false := by
      have := hi.phaseFreed c hc; grind
    have ho := handle_open hi hc hf
    simp only [hf, ho, Bool.or_false, Bool.false_eq_true, if_false]
    generalize hfired : (liveB s c && fires (s.ctxs c).busy (s.ctxs c).statbuf r) = fired
    have hi1 : Inv (s.emit (.res c r (liveB s c))) := inv_emit hi _
    -- state after the optional callback
    have key : ∀ s2 : S, Inv s2 → c < s2.nctx → (s2.ctxs c).statInFlight = true →
        Inv (finishPoll (if liveB s c = true then s2.setCtx c (noteResult (s2.ctxs c) fired r) else s2) c) := by
      intro s2 hi2 hc2 hst2
      split
      · have hn := noteResult_flags (s2.ctxs c) fired r
        apply inv_finishPoll (inv_setData hi2 c _ hn.1 hn.2.1 hn.2.2.1 hn.2.2.2.1 hn.2.2.2.2) hc2
        simp [S.setCtx, hn.2.2.2.1, hst2]
      · exact inv_finishPoll hi2 hc2 hst2
    cases fired with
    | false => exact key _ hi1 hc hst
    | true =>
      simp only [if_true]
      have hi2 := inv_runCb sc (inv_emit hi1 (.cb c (s.ctxs c).handle (s.ctxs c).cb r.status (s.ctxs c).statbuf r.curr))
      have fr := frame_runCb sc (s := (s.emit (.res c r (liveB s c))).emit
        (.cb c (s.ctxs c).handle (s.ctxs c).cb r.status (s.ctxs c).statbuf r.curr)) (c := c) hc
      apply key _ hi2 (Nat.lt_of_lt_of_le hc fr.1)
      have := fr.2.2.2.2.2.2.2.2.1
      simp only [S.emit] at this ⊢
      rw [this]; exact hst
  · simp only [hen, Bool.not_false, if_true]; exact inv_emit hi _

theorem inv_timerFire {s : S} (hi : Inv s) (c : Nat) : Inv (timerFire s c) := by
  unfold timerFire
  by_cases hen : (decide (c < s.nctx) && (s.ctxs c).timerActive && decide ((s.ctxs c).due ≤ s.now)) = true
  · simp only [hen, Bool.not_true, Bool.false_eq_true, if_false]
    have hc : c < s.nctx := by simp at hen; exact hen.1.1
    have hta : (s.ctxs c).timerActive = true := by simp at hen; exact hen.1.2
    have hl := hi.timerLive c hc hta
    have hf : (s.ctxs c).freed = false := by have := hi.phaseFreed c hc; grind
    have ho := handle_open hi hc hf
    have hx := hi.phaseExcl c hc
    have hsf : (s.ctxs c).statInFlight = false := by grind
    have hhd : ((s.hs (s.ctxs c).handle).chain.head? == some c) = true := by
      simp only [liveB, Bool.and_eq_true] at hl; exact hl.2
    simp only [hf, ho, hsf, hhd, Bool.or_false, Bool.not_true, Bool.false_eq_true, if_false]
    obtain ⟨i1,i2,i3,i4,i5,i6,i7,i8,i9,i10,i11,i12⟩ := hi
    constructor <;> simp only [liveB, S.setCtx, S.emit] at * <;> grind
  · simp only [hen, Bool.not_false, if_true]; exact inv_emit hi _

theorem inv_closeCb {s : S} (hi : Inv s) (h : Nat) : Inv (closeCb s h) := by
  unfold closeCb
  by_cases hen : ((s.hs h).closePending && !(s.hs h).closed) = true
  · simp only [hen, Bool.not_true, Bool.false_eq_true, if_false]
    obtain ⟨i1,i2,i3,i4,i5,i6,i7,i8,i9,i10,i11,i12⟩ := hi
    constructor <;> simp only [liveB, S.setH] at * <;> grind
  · simp only [hen, Bool.not_false, if_true]; exact inv_emit hi _

theorem inv_timerClosed {s : S} (hi : Inv s) (c : Nat) : Inv (timerClosed s c) := by
  unfold timerClosed
  by_cases hen : (decide (c < s.nctx) && (s.ctxs c).timerClosing && !(s.ctxs c).freed) = true
  · simp only [hen, Bool.not_true, Bool.false_eq_true, if_false]
    have hc : c < s.nctx := by simp at hen; exact hen.1.1
    have htc : (s.ctxs c).timerClosing = true := by simp at hen; exact hen.1.2
    have hf : (s.ctxs c).freed = false := by simp at hen; exact hen.2
    have ho := handle_open hi hc hf
    have hin := hi.inChain c hc hf
    have hnd := hi.nodup (s.ctxs c).handle
    simp only [ho, Bool.false_eq_true, if_false]
    cases hch : (s.hs (s.ctxs c).handle).chain with
    | nil => rw [hch] at hin; cases hin
    | cons hd tl =>
      rw [hch] at hin hnd
      have hcp : (s.hs (s.ctxs c).handle).closePending = false := by
        have := hi.closeP (s.ctxs c).handle; grind
      obtain ⟨i1,i2,i3,i4,i5,i6,i7,i8,i9,i10,i11,i12⟩ := hi
      by_cases hhd : hd = c
      · subst hhd
        simp only [if_true]
        by_cases hcl : (tl.isEmpty && (s.hs (s.ctxs hd).handle).closing) = true
        · simp only [hcl, if_true, hcp, Bool.false_eq_true, if_false]
          constructor <;> simp only [liveB, S.setH, S.setCtx] at * <;> grind
        · simp only [hcl]
          constructor <;> simp only [liveB, S.setH, S.setCtx] at * <;> grind
      · have hmem : c ∈ tl := by grind
        simp only [hhd, if_false, hmem, if_true]
        constructor <;> simp only [liveB, S.setH, S.setCtx] at * <;>
          grind [List.Nodup.mem_erase_iff, List.Nodup.erase, List.mem_of_mem_erase]
  · simp only [hen, Bool.not_false, if_true]; exact inv_emit hi _

theorem inv_step (sc : Script) {s : S} (hi : Inv s) (i : In) : Inv (step sc s i) := by
  cases i with
  | op o => exact inv_applyOp hi o
  | statDone c r => exact inv_statDone sc hi c r
  | timerFire c => exact inv_timerFire hi c
  | timerClosed c => exact inv_timerClosed hi c
  | closeCb h => exact inv_closeCb hi h
  | advance n =>
    exact ⟨hi.noErr, hi.chainWf, hi.inChain, hi.nodup, hi.activeHead, hi.timerLive, hi.phaseFreed, hi.phaseOne,
      hi.phaseExcl, hi.closeP, hi.closedP, hi.closeQ⟩

theorem inv_run (sc : Script) {s : S} (hi : Inv s) (ins : List In) : Inv (run sc s ins) := by
  induction ins generalizing s with
  | nil => exact hi
  | cons i t ih => exact ih (inv_step sc hi i)

end UvModel.FsPoll
