import UvModel.LoopRun
import UvModel.Lemmas.LoopRing
import UvModel.Lemmas.LoopCore
/-!
  Effect of every model function on the accounting core `(s.c, s.nextId)`:
  auxiliary functions leave it alone, the others are kernel applications (`CStep`).
  Then: the invariant `SInv` is preserved by every operation, callback and loop phase,
  for every script.
-/
namespace UvModel.Loop
open UvModel.HandleKernels

/-- the part of the state the accounting invariants talk about -/
def sig (s : State) : Core × Nat := (s.c, s.nextId)

/-- the accounting invariant (a `def`, so that updates of other state fields are transparent) -/
def SInv (s : State) : Prop := s.c.Inv ∧ ∀ e ∈ s.c.fl, e.1 < s.nextId
theorem SInv.core {s : State} (h : SInv s) : s.c.Inv := h.1
theorem SInv.ids {s : State} (h : SInv s) : ∀ e ∈ s.c.fl, e.1 < s.nextId := h.2

theorem SInv.of_sig {s s' : State} (h : sig s' = sig s) (hi : SInv s) : SInv s' := by
  simp only [sig, Prod.mk.injEq] at h
  exact ⟨h.1 ▸ hi.core, by rw [h.1, h.2]; exact hi.ids⟩

/-! ### ids are never invented by kernel steps -/
theorem mem_updF_id {fl : List (Nat × HFlags)} {id : Nat} {f' : HFlags} {e : Nat × HFlags}
    (h : e ∈ updF fl id f') : ∃ e0 ∈ fl, e0.1 = e.1 := by
  induction fl with
  | nil => simp [updF] at h
  | cons x t ih =>
    simp only [updF] at h
    split at h
    · rename_i hx
      rcases List.mem_cons.mp h with h | h
      · exact ⟨x, List.mem_cons_self, by subst h; simpa using hx⟩
      · exact ⟨e, List.mem_cons_of_mem _ h, rfl⟩
    · rcases List.mem_cons.mp h with h | h
      · exact ⟨x, List.mem_cons_self, by rw [h]⟩
      · obtain ⟨e0, h0, h1⟩ := ih h
        exact ⟨e0, List.mem_cons_of_mem _ h0, h1⟩

theorem apply_ids {c : Core} {id : Nat} {k : HK → HK} {e : Nat × HFlags} (h : e ∈ (c.apply id k).fl) :
    ∃ e0 ∈ c.fl, e0.1 = e.1 := by
  unfold Core.apply at h
  split at h
  · exact ⟨e, h, rfl⟩
  · exact mem_updF_id h

theorem CStep.ids {c c' : Core} (h : CStep c c') : ∀ e ∈ c'.fl, ∃ e0 ∈ c.fl, e0.1 = e.1 := by
  induction h with
  | refl => intro e he; exact ⟨e, he, rfl⟩
  | stop c id => intro e he; exact apply_ids he
  | ref c id => intro e he; exact apply_ids he
  | unref c id => intro e he; exact apply_ids he
  | setClosed c id => intro e he; exact apply_ids he
  | setInternal c id => intro e he; exact apply_ids he
  | start c id _ => intro e he; exact apply_ids he
  | close c id _ => intro e he; exact apply_ids he
  | remove c id _ => intro e he; exact ⟨e, mem_eraseF he, rfl⟩
  | trans _ _ ih1 ih2 =>
    intro e he
    obtain ⟨e1, h1, h1'⟩ := ih2 e he
    obtain ⟨e0, h0, h0'⟩ := ih1 e1 h1
    exact ⟨e0, h0, h0'.trans h1'⟩

theorem SInv.of_step {s s' : State} (h : CStep s.c s'.c) (hn : s'.nextId = s.nextId) (hi : SInv s) : SInv s' :=
  ⟨h.inv hi.core, by
    intro e he
    obtain ⟨e0, h0, h0'⟩ := h.ids e he
    rw [hn, ← h0']; exact hi.ids e0 h0⟩

/-- "the core evolves by kernel steps, nextId unchanged" -/
def Steps (s s' : State) : Prop := CStep s.c s'.c ∧ s'.nextId = s.nextId

theorem Steps.refl (s : State) : Steps s s := ⟨CStep.refl _, rfl⟩
theorem Steps.trans {a b c : State} (h1 : Steps a b) (h2 : Steps b c) : Steps a c :=
  ⟨CStep.trans h1.1 h2.1, h2.2.trans h1.2⟩
theorem Steps.of_sig {s s' : State} (h : sig s' = sig s) : Steps s s' := by
  simp only [sig, Prod.mk.injEq] at h
  exact ⟨h.1 ▸ CStep.refl _, h.2⟩
theorem Steps.inv {s s' : State} (h : Steps s s') (hi : SInv s) : SInv s' := SInv.of_step h.1 h.2 hi
theorem Steps.sig_left {a a' b : State} (h : sig a' = sig a) (h2 : Steps a' b) : Steps a b :=
  (Steps.of_sig h).trans h2

/-! ### auxiliary functions: `sig` unchanged -/
@[simp] theorem sig_modH (s : State) (id : Nat) (g : Handle → Handle) : sig (modH s id g) = sig s := rfl
@[simp] theorem sig_setIo (s : State) (w : W) (io : IoW) : sig (setIo s w io) = sig s := by
  cases w <;> rfl
@[simp] theorem sig_ioStart (s : State) (w : W) (ev : Nat) : sig (ioStart s w ev) = sig s := by
  unfold ioStart; simp only; split; · simp
  split <;> simp [sig]
  all_goals (have := sig_setIo s w { getIo s w with pevents := (getIo s w).pevents ||| ev }; simp [sig] at this; simp [this])
@[simp] theorem sig_ioStop (s : State) (w : W) (ev : Nat) : sig (ioStop s w ev) = sig s := by
  unfold ioStop; simp only
  split; · rfl
  split
  · have := sig_setIo s w { getIo s w with pevents := 0, events := 0 }
    simp [sig] at this ⊢; exact this
  · have := sig_setIo s w { getIo s w with pevents := clearBits (getIo s w).pevents ev }
    split <;> (simp [sig] at this ⊢; exact this)
@[simp] theorem sig_invalidate (s : State) (id : Nat) : sig (invalidate s id) = sig s := rfl
@[simp] theorem sig_ioClose (s : State) (id : Nat) : sig (ioClose s id) = sig s := by
  unfold ioClose; simp only
  have := sig_ioStop s (.h id) POLLALL
  split <;> (simp [sig, invalidate] at this ⊢; exact this)
@[simp] theorem sig_ioFeed (s : State) (id : Nat) : sig (ioFeed s id) = sig s := by
  unfold ioFeed; split <;> rfl
@[simp] theorem sig_updateTime (s : State) : sig (updateTime s) = sig s := rfl
@[simp] theorem sig_asyncSend (s : State) (id : Nat) : sig (asyncSend s id) = sig s := by
  unfold asyncSend; split; · rfl
  split <;> rfl
@[simp] theorem sig_udpSendmsg (s : State) (id : Nat) : sig (udpSendmsg s id) = sig s := by
  unfold udpSendmsg; split; · rfl
  split; · rfl
  simp
@[simp] theorem sig_pipeConnectBad (s : State) (id : Nat) : sig (pipeConnectBad s id) = sig s := by
  unfold pipeConnectBad; simp only; rw [sig_ioFeed]; rfl
@[simp] theorem sig_makeClosePending (s : State) (id : Nat) : sig (makeClosePending s id) = sig s := rfl
@[simp] theorem sig_initInotify (s : State) : sig (initInotify s) = sig s := by
  unfold initInotify; split; · rfl
  simp; rfl
@[simp] theorem sig_completeWorks (s : State) (k : Nat) : sig (completeWorks s k) = sig s := by
  unfold completeWorks; split; · rfl
  simp; rfl
@[simp] theorem sig_workSubmit (s : State) (api : Api) : sig (workSubmit s api) = sig s := by
  unfold workSubmit; simp only; split
  · split
    · rfl
    · rw [sig_asyncSend]; rfl
  · rfl
@[simp] theorem sig_ringInit (s : State) : sig (ringInit s) = sig s := by
  unfold ringInit; split <;> rfl
@[simp] theorem sig_submit (s : State) (api : Api) : sig (submit s api) = sig s := by
  unfold submit; simp only; split
  · split
    · unfold ringSubmit; simp only; exact sig_ringInit s
    · rw [sig_workSubmit, sig_ringInit]
  · rw [sig_workSubmit]
@[simp] theorem sig_workCancel (s : State) (r : Nat) : sig (workCancel s r).1 = sig s := by
  unfold workCancel; split
  · simp; rfl
  · split
    · simp; rfl
    · rfl
@[simp] theorem sig_emit (s : State) (e : Event) : sig (emit s e) = sig s := by
  unfold emit; split <;> rfl
@[simp] theorem sig_emitObs (s : State) : sig (emitObs s) = sig s := by simp [emitObs]
@[simp] theorem sig_setWList (s : State) (k : WKind) (l : List Nat) : sig (setWList s k l) = sig s := by
  cases k <;> rfl
@[simp] theorem sig_flushWatchers (s : State) : sig (flushWatchers s) = sig s := by
  unfold flushWatchers
  have : ∀ (l : List W) (s : State), sig (l.foldl (fun s w => let io := getIo s w; setIo s w { io with events := io.pevents }) s) = sig s := by
    intro l; induction l with
    | nil => intro s; rfl
    | cons w t ih => intro s; simp only [List.foldl]; rw [ih]; simp
  have h := this s.watcherQ s
  simp only [sig, Prod.mk.injEq] at h ⊢; exact h

/-! ### kernel functions -/
theorem hStop_steps (s : State) (id : Nat) : Steps s (hStop s id) := ⟨CStep.stop _ _, rfl⟩
theorem hStart_steps (s : State) (id : Nat) (h : ∀ f, getF s id = some f → f.closing = false) :
    Steps s (hStart s id) := ⟨CStep.start _ _ h, rfl⟩

theorem lookF_updF_same {fl : List (Nat × HFlags)} {id : Nat} {f' g : HFlags}
    (h : lookF (updF fl id f') id = some g) : g = f' ∧ ∃ f, lookF fl id = some f := by
  induction fl with
  | nil => simp [updF, lookF] at h
  | cons e t ih =>
    by_cases he : (e.1 == id) = true
    · simp [updF, he, lookF] at h
      exact ⟨h.symm, e.2, by simp [lookF, he]⟩
    · have he' : (e.1 == id) = false := by simpa using he
      simp [updF, he', lookF] at h
      obtain ⟨h1, f, h2⟩ := ih h
      exact ⟨h1, f, by simp [lookF, he', h2]⟩

/-- flags of `id` after a kernel application on `id` -/
theorem get_apply_same {c : Core} {id : Nat} {k : HK → HK} {g : HFlags} (h : (c.apply id k).get id = some g) :
    ∃ f, c.get id = some f ∧ g = ofHK (k (toHK f c.ah)) := by
  unfold Core.apply at h
  cases hg : c.get id with
  | none => simp [hg] at h
  | some f =>
    simp only [hg] at h
    exact ⟨f, rfl, (lookF_updF_same (by simpa [Core.get] using h)).1⟩

theorem closing_stop (f : HFlags) (ah : Int) : (ofHK (handleStop (toHK f ah))).closing = f.closing := by
  rcases f with ⟨a, r, c, d, i⟩; cases a <;> cases r <;> simp [handleStop, toHK, ofHK]

theorem sig_withKernel (s : State) (id : Nat) (k : HK → HK) : sig (withKernel s id k) = ((sig s).1.apply id k, (sig s).2) := rfl

/-- after uv__handle_stop the CLOSING flag of the handle is what it was -/
theorem closing_after_hStop {s : State} {id : Nat} (h : ∀ f, getF s id = some f → f.closing = false) :
    ∀ f, getF (hStop s id) id = some f → f.closing = false := by
  intro g hg
  obtain ⟨f, hf, rfl⟩ := get_apply_same (c := s.c) (k := handleStop) hg
  rw [closing_stop]; exact h f hf

theorem timerStop_steps (s : State) (id : Nat) : Steps s (timerStop s id) := by
  unfold timerStop
  exact Steps.sig_left (a' := { s with tm := Timer.stop s.tm id }) rfl (hStop_steps _ _)

theorem guard_closing {s : State} {id : Nat} (h : ((getF s id).map hClosing).getD true = false) :
    ∀ f, getF s id = some f → f.closing = false := by
  intro f hf
  simp [hf, hClosing, isClosing, toHK] at h
  exact h.1

theorem timerStart_steps (s : State) (id a b : Nat) : Steps s (timerStart s id a b).1 := by
  unfold timerStart
  split
  · exact Steps.refl _
  · rename_i hg
    simp only
    split
    · exact Steps.refl _
    · have hg' : ((getF s id).map hClosing).getD true = false := by simpa using hg
      have h1 := hStop_steps s id
      have hc := closing_after_hStop (guard_closing hg')
      refine h1.trans ?_
      exact Steps.sig_left (a' := { hStop s id with tm := (Timer.start s.tm id a b).1 }) rfl
        (hStart_steps _ _ (by intro f hf; exact hc f hf))

theorem timerAgain_steps (s : State) (id : Nat) : Steps s (timerAgain s id).1 := by
  unfold timerAgain
  simp only
  split
  · exact Steps.refl _
  · split
    · exact (timerStop_steps s id).trans (timerStart_steps _ _ _ _)
    · exact Steps.refl _

theorem watcherStart_steps (s : State) (k : WKind) (id : Nat) (h : ∀ f, getF s id = some f → f.closing = false) :
    Steps s (watcherStart s k id) := by
  unfold watcherStart
  split
  · exact Steps.refl _
  · exact Steps.sig_left (a' := setWList s k (id :: wList s k)) (by simp)
      (hStart_steps _ _ (by
        intro f hf
        have : sig (setWList s k (id :: wList s k)) = sig s := by simp
        simp only [sig, Prod.mk.injEq] at this
        exact h f (by simpa [getF, this.1] using hf)))

theorem watcherStop_steps (s : State) (k : WKind) (id : Nat) : Steps s (watcherStop s k id) := by
  unfold watcherStop
  split
  · exact Steps.refl _
  · simp only
    exact Steps.sig_left (a' := { setWList s k ((wList s k).filter (· != id)) with
        watcherLocal := (setWList s k ((wList s k).filter (· != id))).watcherLocal.filter (· != id) })
      (by have := sig_setWList s k ((wList s k).filter (· != id)); simp only [sig, Prod.mk.injEq] at this ⊢; exact this)
      (hStop_steps _ _)

/-- transport a closing-precondition across a `sig`-preserving change -/
theorem pre_of_sig {s s' : State} {id : Nat} (hs : sig s' = sig s) (h : ∀ f, getF s id = some f → f.closing = false) :
    ∀ f, getF s' id = some f → f.closing = false := by
  intro f hf
  simp only [sig, Prod.mk.injEq] at hs
  exact h f (by simpa [getF, hs.1] using hf)

theorem pollStop_steps (s : State) (id : Nat) : Steps s (pollStop s id) := by
  show Steps s (invalidate (hStop (ioStop s (.h id) POLLALL) id) id)
  refine Steps.trans (b := hStop (ioStop s (.h id) POLLALL) id) ?_ (Steps.of_sig (by simp))
  exact Steps.sig_left (a' := ioStop s (.h id) POLLALL) (by simp) (hStop_steps _ _)

theorem pollStop_pre {s : State} {id : Nat} (h : ∀ f, getF s id = some f → f.closing = false) :
    ∀ f, getF (pollStop s id) id = some f → f.closing = false := by
  show ∀ f, getF (invalidate (hStop (ioStop s (.h id) POLLALL) id) id) id = some f → f.closing = false
  exact pre_of_sig (s := hStop (ioStop s (.h id) POLLALL) id) (by simp)
    (closing_after_hStop (pre_of_sig (s := s) (by simp) h))

theorem pollStart_steps (s : State) (id mask : Nat) (h : ∀ f, getF s id = some f → f.closing = false) :
    Steps s (pollStart s id mask) := by
  unfold pollStart
  simp only
  split
  · exact pollStop_steps s id
  · exact (pollStop_steps s id).trans
      (Steps.sig_left (a' := ioStart (pollStop s id) (.h id) (pollEvents mask)) (by simp)
        (hStart_steps _ _ (pre_of_sig (s := pollStop s id) (by simp) (pollStop_pre h))))

theorem asyncClose_steps (s : State) (id : Nat) : Steps s (asyncClose s id) := by
  unfold asyncClose
  exact Steps.sig_left (a' := _) rfl (hStop_steps _ _)

theorem streamListen_steps (s : State) (id : Nat) (h : ∀ f, getF s id = some f → f.closing = false) :
    Steps s (streamListen s id) := by
  show Steps s (hStart (ioStart (modH s id _) (.h id) POLLIN) id)
  exact Steps.sig_left (a' := ioStart (modH s id _) (.h id) POLLIN) (by simp)
    (hStart_steps _ _ (pre_of_sig (s := s) (by simp) h))

theorem streamClose_steps (s : State) (id : Nat) : Steps s (streamClose s id) := by
  show Steps s (modH (hStop (ioClose s id) id) id _)
  refine Steps.trans (b := hStop (ioClose s id) id) ?_ (Steps.of_sig (by simp))
  exact Steps.sig_left (a' := ioClose s id) (by simp) (hStop_steps _ _)

theorem udpClose_steps (s : State) (id : Nat) : Steps s (udpClose s id) := by
  show Steps s (modH (hStop (ioClose s id) id) id _)
  refine Steps.trans (b := hStop (ioClose s id) id) ?_ (Steps.of_sig (by simp))
  exact Steps.sig_left (a' := ioClose s id) (by simp) (hStop_steps _ _)

theorem udpRecvStart_steps (s : State) (id : Nat) (h : ∀ f, getF s id = some f → f.closing = false) :
    Steps s (udpRecvStart s id).1 := by
  unfold udpRecvStart
  split
  · exact Steps.refl _
  · show Steps s (hStart (ioStart (modH s id _) (.h id) POLLIN) id)
    exact Steps.sig_left (a' := ioStart (modH s id _) (.h id) POLLIN) (by simp)
      (hStart_steps _ _ (pre_of_sig (s := s) (by simp) h))

theorem udpRecvStop_steps (s : State) (id : Nat) : Steps s (udpRecvStop s id) := by
  unfold udpRecvStop
  simp only
  split
  · exact Steps.sig_left (a' := ioStop s (.h id) POLLIN) (by simp) (hStop_steps _ _)
  · exact Steps.of_sig (by simp)

@[simp] theorem sig_udpSendEnqueue (s : State) (id : Nat) : sig (udpSendEnqueue s id) = sig s := rfl
@[simp] theorem sig_udpSendKick (s : State) (id : Nat) (a b : Bool) : sig (udpSendKick s id a b) = sig s := by
  unfold udpSendKick
  split
  · simp only
    split
    · simp
    · split <;> simp
  · simp

theorem udpSend_steps (s : State) (id : Nat) (h : ∀ f, getF s id = some f → f.closing = false) :
    Steps s (udpSend s id) := by
  unfold udpSend
  split
  · exact Steps.refl _
  · refine Steps.trans (b := hStart (udpSendEnqueue s id) id) ?_ (Steps.of_sig (by simp))
    exact Steps.sig_left (a' := udpSendEnqueue s id) (by simp)
      (hStart_steps _ _ (pre_of_sig (s := s) (by simp) h))

theorem fsEventStop_steps (s : State) (id : Nat) : Steps s (fsEventStop s id) := by
  unfold fsEventStop
  split
  · exact Steps.refl _
  · exact hStop_steps _ _

/-! ### uv_close -/
theorem updF_same {fl : List (Nat × HFlags)} {id : Nat} {f : HFlags} (h : lookF fl id = some f) : updF fl id f = fl := by
  induction fl with
  | nil => rfl
  | cons e t ih =>
    by_cases he : (e.1 == id) = true
    · simp [lookF, he] at h
      have : e.1 = id := by simpa using he
      simp [updF, he, ← h, ← this]
    · have he' : (e.1 == id) = false := by simpa using he
      simp [lookF, he'] at h
      simp [updF, he', ih h]

theorem apply_stop_inactive (c : Core) (id : Nat) (h : ((c.get id).map (·.active)).getD false = false) :
    c.apply id handleStop = c := by
  unfold Core.apply
  cases hg : c.get id with
  | none => rfl
  | some f =>
    simp [hg] at h
    have : handleStop (toHK f c.ah) = toHK f c.ah := by simp [handleStop, toHK, h]
    simp only [this]
    have h2 : ofHK (toHK f c.ah) = f := by cases f; rfl
    rw [h2, updF_same (by simpa [Core.get] using hg)]
    rfl

theorem closeKind_sig (s : State) (k : Kind) (id : Nat) :
    sig (closeKind s k id) = ((sig s).1.apply id handleStop, (sig s).2) := by
  have hw : ∀ wk, sig (watcherStop s wk id) = ((sig s).1.apply id handleStop, (sig s).2) := by
    intro wk
    unfold watcherStop
    split
    · rename_i hg
      simp only [sig]
      rw [apply_stop_inactive s.c id (by simpa [getF] using hg)]
    · simp only
      have := sig_setWList s wk ((wList s wk).filter (· != id))
      simp only [sig, Prod.mk.injEq] at this
      simp only [sig, hStop, withKernel, this.1, this.2]
  cases k with
  | timer => rfl
  | idle => exact hw .idle
  | prepare => exact hw .prepare
  | check => exact hw .check
  | async => rfl
  | poll =>
    show sig (invalidate (hStop (ioStop s (.h id) POLLALL) id) id) = _
    have := sig_ioStop s (.h id) POLLALL
    simp only [sig, Prod.mk.injEq] at this
    simp only [sig, invalidate, hStop, withKernel, this.1, this.2]
  | tcp =>
    show sig (modH (hStop (ioClose s id) id) id _) = _
    have := sig_ioClose s id
    simp only [sig, Prod.mk.injEq] at this
    simp only [sig, modH, hStop, withKernel, this.1, this.2]
  | pipe =>
    show sig (modH (hStop (ioClose s id) id) id _) = _
    have := sig_ioClose s id
    simp only [sig, Prod.mk.injEq] at this
    simp only [sig, modH, hStop, withKernel, this.1, this.2]
  | udp =>
    show sig (modH (hStop (ioClose s id) id) id _) = _
    have := sig_ioClose s id
    simp only [sig, Prod.mk.injEq] at this
    simp only [sig, modH, hStop, withKernel, this.1, this.2]
  | signal => rfl
  | fsEvent =>
    unfold closeKind fsEventStop
    simp only
    split
    · rename_i hg
      simp only [sig]
      rw [apply_stop_inactive s.c id (by simpa [getF] using hg)]
    · rfl

theorem closeH_steps (s : State) (k : Kind) (id : Nat) (h : ∀ f, getF s id = some f → f.closing = false) :
    Steps s (closeH s k id) := by
  have hs : sig (closeH s k id) = (s.c.apply id closeK, s.nextId) := by
    show sig (makeClosePending (closeKind (withKernel s id setClosing) k id) id) = _
    rw [sig_makeClosePending, closeKind_sig, sig_withKernel]
    simp only [sig, apply_apply]
    rfl
  simp only [sig, Prod.mk.injEq] at hs
  exact ⟨hs.1 ▸ CStep.close _ _ h, hs.2⟩

/-! ### handle creation -/
theorem lookF_append_fresh {fl : List (Nat × HFlags)} {id : Nat} {f : HFlags} (h : ∀ e ∈ fl, e.1 < id) :
    lookF (fl ++ [(id, f)]) id = some f := by
  induction fl with
  | nil => simp [lookF]
  | cons e t ih =>
    have : (e.1 == id) = false := by
      have := h e List.mem_cons_self
      simp; omega
    simp [lookF, this]
    exact ih (fun e' he' => h e' (List.mem_cons_of_mem _ he'))

theorem addHandle_inv (s : State) (k : Kind) (hi : SInv s) : SInv (addHandle s k) := by
  refine ⟨?_, ?_⟩
  · exact add_inv hi.core
  · intro e he
    simp only [addHandle, Core.add, List.mem_append, List.mem_singleton] at he ⊢
    rcases he with he | he
    · have := hi.ids e he; omega
    · subst he; simp

theorem addHandle_fresh (s : State) (k : Kind) (hi : SInv s) :
    ∀ f, getF (addHandle s k) s.nextId = some f → f.closing = false := by
  intro f hf
  have := lookF_append_fresh (fl := s.c.fl) (id := s.nextId) (f := ofHK (handleInit s.c.ah)) hi.ids
  simp only [getF, addHandle, Core.add, Core.get] at hf
  rw [this] at hf
  cases hf
  rfl

theorem initH_inv (s : State) (k : Kind) (hi : SInv s) : SInv (initH s k) := by
  unfold initH
  simp only
  have ha := addHandle_inv s k hi
  have hf := addHandle_fresh s k hi
  cases k with
  | timer => exact SInv.of_sig (s := addHandle s .timer) rfl ha
  | async =>
    have h1 : SInv { addHandle s .async with asyncs := (addHandle s .async).asyncs ++ [s.nextId] } :=
      SInv.of_sig (s := addHandle s .async) rfl ha
    exact (hStart_steps _ _ (by intro f h; exact hf f h)).inv h1
  | poll => exact SInv.of_sig (s := addHandle s .poll) rfl ha
  | idle => exact ha
  | prepare => exact ha
  | check => exact ha
  | tcp => exact ha
  | udp => exact ha
  | pipe => exact ha
  | signal => exact ha
  | fsEvent => exact ha

/-! ### one API call -/
theorem getHF_getF {s : State} {id : Nat} {h : Handle} {f : HFlags} (hg : getHF s id = some (h, f)) :
    getF s id = some f := by
  unfold getHF at hg
  split at hg
  · rename_i h1 h2
    simp only [Option.some.injEq, Prod.mk.injEq] at hg
    rw [h2, hg.2]
  · simp at hg

theorem pre_of_getHF {s : State} {id : Nat} {h : Handle} {f : HFlags} (hg : getHF s id = some (h, f))
    (hc : hClosing f = false) : ∀ f', getF s id = some f' → f'.closing = false := by
  intro f' hf'
  rw [getHF_getF hg] at hf'
  cases hf'
  simp [hClosing, isClosing, toHK] at hc
  exact hc.1

theorem illegal_inv {s : State} (hi : SInv s) : SInv (illegal s).1 := SInv.of_sig (s := s) rfl hi

theorem applyOp_inv (s : State) (o : Op) (hi : SInv s) : SInv (applyOp s o).1 := by
  unfold applyOp
  split
  · exact illegal_inv hi
  · cases o with
    | init k => exact initH_inv s k hi
    | start id a b =>
      simp only
      split
      · exact illegal_inv hi
      · rename_i h f hg
        split
        · exact illegal_inv hi
        · split
          · exact (timerStart_steps s id a b).inv hi
          · split
            · exact illegal_inv hi
            · rename_i hc
              have hc' : hClosing f = false := by
                cases h' : hClosing f <;> simp_all
              exact (pollStart_steps s id a (pre_of_getHF hg hc')).inv hi
          · split
            · exact illegal_inv hi
            · rename_i hc
              exact (watcherStart_steps s .idle id (pre_of_getHF hg (by simpa using hc))).inv hi
          · split
            · exact illegal_inv hi
            · rename_i hc
              exact (watcherStart_steps s .prepare id (pre_of_getHF hg (by simpa using hc))).inv hi
          · split
            · exact illegal_inv hi
            · rename_i hc
              exact (watcherStart_steps s .check id (pre_of_getHF hg (by simpa using hc))).inv hi
          · split
            · exact illegal_inv hi
            · rename_i hc
              exact (hStart_steps s id (pre_of_getHF hg (by simpa using hc))).inv hi
          · split
            · exact illegal_inv hi
            · rename_i hc
              split
              · exact hi
              · exact (Steps.sig_left (a' := initInotify s) (by simp)
                  (hStart_steps _ _ (pre_of_sig (s := s) (by simp) (pre_of_getHF hg (by simpa using hc))))).inv hi
          · split
            · exact illegal_inv hi
            · rename_i hc
              exact (udpRecvStart_steps s id (pre_of_getHF hg (by simpa using hc))).inv hi
          · split
            · exact illegal_inv hi
            · rename_i hc
              exact (streamListen_steps s id (pre_of_getHF hg (by simpa using hc))).inv hi
          · split
            · exact illegal_inv hi
            · rename_i hc
              have hc' : hClosing f = false := by
                cases h' : hClosing f <;> simp_all
              exact (streamListen_steps s id (pre_of_getHF hg hc')).inv hi
          · exact illegal_inv hi
    | stop id =>
      simp only
      split
      · exact illegal_inv hi
      · split
        · exact illegal_inv hi
        · split
          · exact (timerStop_steps s id).inv hi
          · exact (watcherStop_steps s .idle id).inv hi
          · exact (watcherStop_steps s .prepare id).inv hi
          · exact (watcherStop_steps s .check id).inv hi
          · exact (pollStop_steps s id).inv hi
          · exact (hStop_steps s id).inv hi
          · exact (fsEventStop_steps s id).inv hi
          · exact (udpRecvStop_steps s id).inv hi
          · exact illegal_inv hi
    | again id =>
      simp only
      split
      · split
        · exact (timerAgain_steps s id).inv hi
        · exact illegal_inv hi
      · exact illegal_inv hi
    | setRepeat id v =>
      simp only
      split
      · split
        · exact SInv.of_sig (s := s) rfl hi
        · exact illegal_inv hi
      · exact illegal_inv hi
    | ref id =>
      simp only
      split
      · split
        · exact illegal_inv hi
        · exact Steps.inv ⟨CStep.ref _ _, rfl⟩ hi
      · exact illegal_inv hi
    | unref id =>
      simp only
      split
      · split
        · exact illegal_inv hi
        · exact Steps.inv ⟨CStep.unref _ _, rfl⟩ hi
      · exact illegal_inv hi
    | close id =>
      simp only
      split
      · rename_i h f hg
        split
        · exact illegal_inv hi
        · rename_i hc
          have hc' : hClosing f = false := by
            cases h' : hClosing f <;> simp_all
          exact (closeH_steps s h.kind id (pre_of_getHF hg hc')).inv hi
      · exact illegal_inv hi
    | asyncSend id =>
      simp only
      split
      · split
        · exact SInv.of_sig (s := s) (by simp [ok]) hi
        · exact illegal_inv hi
      · exact illegal_inv hi
    | bind id =>
      simp only
      split
      · split
        · exact SInv.of_sig (s := s) rfl hi
        · exact illegal_inv hi
      · exact illegal_inv hi
    | udpSend id =>
      simp only
      split
      · rename_i h f hg
        split
        · rename_i hc
          have hc' : hClosing f = false := by
            cases h' : hClosing f <;> simp_all
          exact (udpSend_steps s id (pre_of_getHF hg hc')).inv hi
        · exact illegal_inv hi
      · exact illegal_inv hi
    | work api =>
      simp only
      split
      · exact illegal_inv hi
      · exact SInv.of_sig (s := s) (by simp [ok]) hi
    | useIoUring => exact SInv.of_sig (s := s) rfl hi
    | workNull => exact hi
    | reject api => simp only; split <;> first | exact hi | exact illegal_inv hi
    | connectBad id =>
      simp only
      split
      · split
        · exact SInv.of_sig (s := s) (by simp [ok]) hi
        · exact illegal_inv hi
      · exact illegal_inv hi
    | udpSendBad id =>
      simp only
      split
      · split
        · exact hi
        · exact illegal_inv hi
      · exact illegal_inv hi
    | cancel r =>
      simp only
      split
      · exact SInv.of_sig (s := s) (by simp [ok]) hi
      · exact illegal_inv hi
    | stopLoop => exact SInv.of_sig (s := s) rfl hi
    | updateTime => exact SInv.of_sig (s := s) rfl hi
    | advance n => exact SInv.of_sig (s := s) rfl hi
    | getAlive => exact hi
    | getBackendTimeout => exact hi
    | getNow => exact hi
    | isActive id =>
      simp only
      split
      · split
        · exact illegal_inv hi
        · exact hi
      · exact illegal_inv hi
    | hasRef id =>
      simp only
      split
      · split
        · exact illegal_inv hi
        · exact hi
      · exact illegal_inv hi
    | isClosing id =>
      simp only
      split
      · split
        · exact illegal_inv hi
        · exact hi
      · exact illegal_inv hi
    | dueIn id =>
      simp only
      split
      · split
        · exact hi
        · exact illegal_inv hi
      · exact illegal_inv hi
    | env n id =>
      simp only
      split
      · split
        · exact hi
        · exact illegal_inv hi
      · exact illegal_inv hi
    | bad t => exact illegal_inv hi

theorem stepOp_inv (s : State) (o : Op) (hi : SInv s) : SInv (stepOp s o) := by
  unfold stepOp
  exact SInv.of_sig (s := (applyOp s o).1) (by simp) (applyOp_inv s o hi)

end UvModel.Loop
