import UvModel.Lemmas.LoopClose3
/-!
  Requests attached to a closing handle: `uv__finish_close` reports each of them exactly once, in queue order,
  completed ones with their status and queued ones with UV_ECANCELED, and then runs the close callback.
  Callbacks cannot touch the request queues of a handle that carries UV_HANDLE_CLOSING (`FrzRel`).
-/
namespace UvModel.Loop
open UvModel.HandleKernels

/-! ### the callback events of a trace segment, oldest first -/
def cbOf : Event → Option (CbKind × Nat × Int)
  | .cb _ k i a _ => some (k, i, a)
  | _ => none
def cbsOf (new : List Event) : List (CbKind × Nat × Int) := new.reverse.filterMap cbOf

/-- the trace grows by a segment whose callback events are exactly `l` -/
def TrCb (s s' : State) (l : List (CbKind × Nat × Int)) : Prop := ∃ new, s'.trace = new ++ s.trace ∧ cbsOf new = l

theorem TrCb.refl (s : State) : TrCb s s [] := ⟨[], rfl, rfl⟩
theorem TrCb.of_eq {s s' : State} (h : s'.trace = s.trace) : TrCb s s' [] := ⟨[], by simpa using h, rfl⟩
theorem TrCb.trans {a b c : State} {l1 l2 : List (CbKind × Nat × Int)} (h1 : TrCb a b l1) (h2 : TrCb b c l2) :
    TrCb a c (l1 ++ l2) := by
  obtain ⟨n1, e1, c1⟩ := h1
  obtain ⟨n2, e2, c2⟩ := h2
  refine ⟨n2 ++ n1, by rw [e2, e1, List.append_assoc], ?_⟩
  simp only [cbsOf, List.reverse_append, List.filterMap_append] at c1 c2 ⊢
  rw [c1, c2]

theorem TrCb.tr_r {a b c : State} {l : List (CbKind × Nat × Int)} (h1 : TrCb a b l) (h2 : TrCb b c []) : TrCb a c l := by
  simpa using h1.trans h2
theorem TrCb.tr_l {a b c : State} {l : List (CbKind × Nat × Int)} (h1 : TrCb a b []) (h2 : TrCb b c l) : TrCb a c l := by
  simpa using h1.trans h2

theorem TrCb.emit_other (s : State) (e : Event) (he : cbOf e = none) : TrCb s (emit s e) [] := by
  unfold emit; split
  · exact TrCb.refl _
  · exact ⟨[e], rfl, by simp [cbsOf, he]⟩

theorem TrCb.emit_cb (s : State) (ph : Phase) (k : CbKind) (i : Nat) (a b : Int) (hh : s.halted = false) :
    TrCb s (emit s (.cb ph k i a b)) [(k, i, a)] := by
  unfold emit; simp only [hh, Bool.false_eq_true, if_false]
  exact ⟨[_], rfl, by simp [cbsOf, cbOf]⟩

theorem TrCb.stepOp (s : State) (o : Op) : TrCb s (stepOp s o) [] := by
  unfold Loop.stepOp
  have h1 : TrCb s (applyOp s o).1 [] := TrCb.of_eq (trOf (tr_applyOp s o))
  exact (h1.trans (TrCb.emit_other _ _ rfl)).trans (TrCb.emit_other _ _ rfl)

theorem TrCb.foldl_stepOp (ops : List Op) (s : State) : TrCb s (ops.foldl Loop.stepOp s) [] := by
  induction ops generalizing s with
  | nil => exact TrCb.refl _
  | cons o t ih => exact (TrCb.stepOp s o).trans (ih _)

theorem TrCb.runCb (sc : Script) (ph : Phase) (k : CbKind) (key : CbKey) (i : Nat) (a b : Int) (occ : Nat) (s : State)
    (hh : s.halted = false) : TrCb s (runCb sc ph k key i a b occ s) [(k, i, a)] := by
  unfold Loop.runCb
  simp only
  refine TrCb.tr_r ?_ (TrCb.emit_other _ _ rfl)
  refine TrCb.tr_r ?_ (TrCb.emit_other _ _ rfl)
  refine TrCb.tr_r ?_ (TrCb.foldl_stepOp _ _)
  refine TrCb.tr_r ?_ (TrCb.emit_other _ _ rfl)
  refine TrCb.tr_l (b := { s with ncbTotal := s.ncbTotal + 1 }) (TrCb.of_eq rfl) ?_
  exact TrCb.emit_cb _ _ _ _ _ _ hh

/-! ### a handle with UV_HANDLE_CLOSING is frozen -/
def Frz (id : Nat) (s : State) : Prop := id ∈ hids s ∧ ∃ f, getF s id = some f ∧ f.closing = true

def FrzRel (id : Nat) (s s' : State) : Prop := Frz id s → Frz id s' ∧ hq s' id = hq s id ∧ s'.halted = s.halted

theorem FrzRel.refl (id : Nat) (s : State) : FrzRel id s s := fun h => ⟨h, rfl, rfl⟩
theorem FrzRel.trans {id : Nat} {a b c : State} (h1 : FrzRel id a b) (h2 : FrzRel id b c) : FrzRel id a c := by
  intro h
  obtain ⟨f1, q1, a1⟩ := h1 h
  obtain ⟨f2, q2, a2⟩ := h2 f1
  exact ⟨f2, q2.trans q1, a2.trans a1⟩

theorem FrzRel.of_keepQ {id : Nat} {s s' : State} (h : KeepQ s s') : FrzRel id s s' := by
  rintro ⟨hm, f, hf, hc⟩
  obtain ⟨f', hf', hmono⟩ := h.1.flags id f hf
  exact ⟨⟨h.1.hold id hm, f', hf', hmono hc⟩, h.2 id hm, h.1.halted⟩

theorem FrzRel.of_opRes {id : Nat} {s s' : State} (h : OpRes s s') : FrzRel id s s' := by
  rcases h with h | ⟨j, h, hj⟩ | ⟨j, s2, hk, rfl, _⟩
  · exact FrzRel.of_keepQ h
  · rintro ⟨hm, f, hf, hc⟩
    have hne : id ≠ j := by
      intro he; subst he
      have := hj f hf; rw [hc] at this; cases this
    obtain ⟨f', hf', hmono⟩ := h.1.flags id f hf
    exact ⟨⟨h.1.hold id hm, f', hf', hmono hc⟩, h.2 id hm hne, h.1.halted⟩
  · intro hz
    obtain ⟨z, q, a⟩ := FrzRel.of_keepQ (id := id) hk hz
    exact ⟨⟨z.1, z.2⟩, q, a⟩

theorem FrzRel.stepOp (id : Nat) (s : State) (o : Op) : FrzRel id s (stepOp s o) :=
  (FrzRel.of_opRes (applyOp_keep s o)).trans (FrzRel.of_keepQ (KeepQ.of_kp (kp_stepOp s o)))

theorem FrzRel.foldl_stepOp (id : Nat) (ops : List Op) (s : State) : FrzRel id s (ops.foldl Loop.stepOp s) := by
  induction ops generalizing s with
  | nil => exact FrzRel.refl _ _
  | cons o t ih => exact (FrzRel.stepOp id s o).trans (ih _)

theorem FrzRel.runCb (id : Nat) (sc : Script) (ph : Phase) (k : CbKind) (key : CbKey) (i : Nat) (a b : Int) (occ : Nat)
    (s : State) : FrzRel id s (runCb sc ph k key i a b occ s) := by
  unfold Loop.runCb
  simp only
  refine FrzRel.trans ?_ (FrzRel.of_keepQ (KeepQ.of_kp (kp_emitObs _)))
  refine FrzRel.trans ?_ (FrzRel.of_keepQ (KeepQ.of_kp (kp_emit _ _)))
  refine FrzRel.trans ?_ (FrzRel.foldl_stepOp id _ _)
  refine FrzRel.trans ?_ (FrzRel.of_keepQ (KeepQ.of_kp (kp_emitObs _)))
  refine FrzRel.trans ?_ (FrzRel.of_keepQ (KeepQ.of_kp (kp_emit _ _)))
  exact FrzRel.of_keepQ (KeepQ.of_kp rfl)

/-! ### uv__udp_finish_close / uv__stream_destroy on a closing handle -/
/-- what the send callback of a completed request reports -/
def udpStatus (p : Nat × Int) : CbKind × Nat × Int := (.udpSend, p.1, if p.2 >= 0 then 0 else p.2)
/-- … and of a request that was still queued: UV_ECANCELED -/
def udpCancelled (r : Nat) : CbKind × Nat × Int := (.udpSend, r, -125)

theorem getH_of_hq {s : State} {id : Nat} {q : HQ} (h : hq s id = some q) : ∃ h', getH s id = some h' ∧ qOf h' = q := by
  unfold hq at h
  cases hg : getH s id with
  | none => simp [hg] at h
  | some h' => exact ⟨h', rfl, by simpa [hg] using h⟩

theorem Frz.of_eq {id : Nat} {s s' : State} (hz : Frz id s) (h1 : hids s' = hids s) (h2 : s'.c = s.c) : Frz id s' := by
  obtain ⟨hm, f, hf, hc⟩ := hz
  exact ⟨h1 ▸ hm, f, by simpa [getF, h2] using hf, hc⟩

theorem udpLoop_closing (sc : Script) (id : Nat) : ∀ (fuel : Nat) (s : State) (h : Handle),
    getH s id = some h → Frz id s → s.halted = false → h.wcq.length < fuel →
    ∃ h', TrCb s (udpRunCompletedLoop sc .closing id fuel s) (h.wcq.map udpStatus) ∧
      getH (udpRunCompletedLoop sc .closing id fuel s) id = some h' ∧ h'.wcq = [] ∧ h'.wq = h.wq ∧
      Frz id (udpRunCompletedLoop sc .closing id fuel s) ∧ (udpRunCompletedLoop sc .closing id fuel s).halted = false := by
  intro fuel
  induction fuel with
  | zero => intro s h _ _ _ hl; exact absurd hl (Nat.not_lt_zero _)
  | succ n ih =>
    intro s h hg hz hh hl
    unfold udpRunCompletedLoop
    simp only [hg]
    cases hw : h.wcq with
    | nil => exact ⟨h, by simpa using TrCb.refl s, hg, hw, rfl, hz, hh⟩
    | cons p rest =>
      obtain ⟨r, st⟩ := p
      simp only
      let g : Handle → Handle := fun h => { h with wcq := rest, sqc := h.sqc - 1 }
      have hga : getH (modH s id g) id = some (g h) := by rw [getH_modH_same _ _ _ (by intro _; rfl), hg]; rfl
      let sb : State := { modH s id g with ar := reqUnregister (modH s id g).ar, reqs := (modH s id g).reqs.filter (·.id != r) }
      have hzb : Frz id sb := hz.of_eq (hids_modH _ _ _ (by intro _; rfl)) rfl
      have hhb : sb.halted = false := hh
      obtain ⟨hzc, hqc, hhc⟩ := FrzRel.runCb id sc .closing .udpSend (.r r) r (if st >= 0 then 0 else st) 0 0 sb hzb
      have hqb : hq sb id = some (qOf (g h)) := by
        show (getH (modH s id g) id).map qOf = _
        rw [hga]; rfl
      obtain ⟨hc, hgc, hqe⟩ := getH_of_hq (hqc.trans hqb)
      have hwc : hc.wcq = rest := by
        have := congrArg (fun q : HQ => q.2.2.1) hqe; exact this
      have hwq : hc.wq = h.wq := by
        have := congrArg (fun q : HQ => q.2.1) hqe; exact this
      obtain ⟨h', t', g', w', q', z', a'⟩ := ih _ hc hgc hzc (hhc.trans hhb) (by rw [hwc]; rw [hw] at hl; simp at hl; omega)
      refine ⟨h', ?_, g', w', q'.trans hwq, z', a'⟩
      have t0 : TrCb s sb [] := TrCb.of_eq rfl
      have t1 := TrCb.runCb sc .closing .udpSend (.r r) r (if st >= 0 then 0 else st) 0 0 sb hhb
      have := (TrCb.tr_l t0 t1).trans t'
      rw [hwc] at this
      simpa [udpStatus] using this

theorem udpFinishClose_trcb (sc : Script) (id : Nat) (s : State) (h : Handle) (hg : getH s id = some h) (hz : Frz id s)
    (hh : s.halted = false) :
    TrCb s (udpFinishClose sc .closing id s) (h.wcq.map udpStatus ++ h.wq.map udpCancelled) := by
  unfold udpFinishClose
  simp only
  let g1 : Handle → Handle := fun h => { h with wcq := h.wcq ++ h.wq.map (fun r => (r, (-125 : Int))), wq := [] }
  have hg1 : getH (modH s id g1) id = some (g1 h) := by rw [getH_modH_same _ _ _ (by intro _; rfl), hg]; rfl
  have hz1 : Frz id (modH s id g1) := hz.of_eq (hids_modH _ _ _ (by intro _; rfl)) rfl
  show TrCb s (udpRunCompleted sc .closing id (modH s id g1)) _
  unfold udpRunCompleted
  simp only [hg1]
  let gp : Handle → Handle := fun h => { h with processing := true }
  have hg2 : getH (modH (modH s id g1) id gp) id = some (gp (g1 h)) := by
    rw [getH_modH_same _ _ _ (by intro _; rfl), hg1]; rfl
  have hz2 : Frz id (modH (modH s id g1) id gp) := hz1.of_eq (hids_modH _ _ _ (by intro _; rfl)) rfl
  obtain ⟨h', t', g', _, _, _, _⟩ := udpLoop_closing sc id ((g1 h).wcq.length + 1) _ (gp (g1 h)) hg2 hz2 hh (Nat.lt_succ_self _)
  have t0 : TrCb s (modH (modH s id g1) id gp) [] := TrCb.of_eq rfl
  have t1 := TrCb.tr_l t0 t'
  have e1 : (gp (g1 h)).wcq.map udpStatus = h.wcq.map udpStatus ++ h.wq.map udpCancelled := by
    show (h.wcq ++ h.wq.map (fun r => (r, (-125 : Int)))).map udpStatus = _
    simp [udpStatus, udpCancelled, Function.comp_def]
  rw [e1] at t1
  show TrCb s (match getH (udpRunCompletedLoop sc .closing id ((g1 h).wcq.length + 1) (modH (modH s id g1) id gp)) id with
    | none => _ | some h => _) _
  simp only [g']
  refine TrCb.tr_r t1 (TrCb.of_eq ?_)
  split
  · split
    · exact trOf ((tr_modH _ _ _).trans ((tr_hStop _ _).trans (tr_ioStop _ _ _)))
    · exact trOf ((tr_modH _ _ _).trans (tr_ioStop _ _ _))
  · rfl

theorem streamDestroy_trcb (sc : Script) (id : Nat) (s : State) (h : Handle) (hg : getH s id = some h) (hh : s.halted = false) :
    TrCb s (streamDestroy sc id s) (h.connReq.toList.map (fun r => (CbKind.connect, r, (-125 : Int)))) := by
  unfold streamDestroy
  simp only [hg]
  cases hc : h.connReq with
  | none => exact TrCb.refl _
  | some r =>
    simp only
    refine TrCb.tr_r ?_ (TrCb.of_eq (trOf (tr_modH _ _ _)))
    refine TrCb.tr_l (b := { s with ar := reqUnregister s.ar, reqs := s.reqs.filter (·.id != r) }) (TrCb.of_eq rfl) ?_
    exact TrCb.runCb _ _ _ _ _ _ _ _ _ hh

/-- the callbacks `uv__finish_close` owes to the requests attached to a handle record, in delivery order:
    udp — completed sends with their status (0 or the error), then queued sends with UV_ECANCELED (-125);
    stream — the pending connect request with UV_ECANCELED -/
def attachedReqs (h : Handle) : List (CbKind × Nat × Int) :=
  if h.kind == .udp then h.wcq.map udpStatus ++ h.wq.map udpCancelled
  else if h.kind == .pipe || h.kind == .tcp then h.connReq.toList.map (fun r => (CbKind.connect, r, (-125 : Int)))
  else []

theorem finishClose_reqs (sc : Script) (id : Nat) (s : State) (h : Handle) (hw : CloseWF' (some id) s)
    (hh : s.halted = false) (hg : getH s id = some h) :
    ∃ fb, TrCb s (finishClose sc id s) (attachedReqs h ++ [(CbKind.close, id, fb)]) := by
  obtain ⟨hjm, f0, hf0, hc0⟩ := hw.2 id (by simp [clList])
  unfold finishClose
  simp only [hg]
  have k1 : KeepQ s (withKernel s id setClosed) := keepQ_withKernel s id _ clMono_setClosed
  have hz1 : Frz id (withKernel s id setClosed) := ((FrzRel.of_keepQ (id := id) k1) ⟨hjm, f0, hf0, hc0⟩).1
  have hg1 : getH (withKernel s id setClosed) id = some h := hg
  have hh1 : (withKernel s id setClosed).halted = false := hh
  generalize hs2 : (if h.kind == .udp then udpFinishClose sc .closing id (withKernel s id setClosed)
      else if h.kind == .pipe || h.kind == .tcp then streamDestroy sc id (withKernel s id setClosed)
      else withKernel s id setClosed) = s2
  have w2 : WFStep (withKernel s id setClosed) s2 := by
    rw [← hs2]; split
    · exact wfRel0.udpFinishClose _ _ _ _
    · split
      · exact wfRel0.streamDestroy _ _ _
      · exact WFStep.refl _
  have t2 : TrCb s s2 (attachedReqs h) := by
    refine TrCb.tr_l (b := withKernel s id setClosed) (TrCb.of_eq rfl) ?_
    rw [← hs2]; unfold attachedReqs; split
    · exact udpFinishClose_trcb sc id _ h hg1 hz1 hh1
    · split
      · exact streamDestroy_trcb sc id _ h hg1 hh1
      · exact TrCb.refl _
  have hw3 : CloseWF' (some id) (withKernel s2 id handleUnref) :=
    (w2.1 _ (hw.keep k1.1)).keep (keepQ_withKernel s2 id _ clMono_unref).1
  obtain ⟨_, f3, hf3, _⟩ := hw3.2 id (by simp [clList])
  simp only [hf3]
  have hh2 : s2.halted = false := by rw [w2.2.2]; exact hh
  refine ⟨flagBits f3, t2.trans ?_⟩
  refine TrCb.tr_l ?_ (TrCb.runCb _ _ _ _ _ _ _ _ _ ?_)
  · exact TrCb.of_eq rfl
  · exact hh2

/-! ### finishing *another* handle leaves a closing handle's record alone -/
theorem FrzRel.of_keepN {id j : Nat} (hne : id ≠ j) {s s' : State} (h : KeepN j s s') : FrzRel id s s' := by
  rintro ⟨hm, f, hf, hc⟩
  obtain ⟨f', hf', hmono⟩ := h.1.flags id f hf
  exact ⟨⟨h.1.hold id hm, f', hf', hmono hc⟩, h.2 id hm hne, h.1.halted⟩

theorem FrzRel.modH_ne {id j : Nat} (hne : id ≠ j) (s : State) (g : Handle → Handle) (hg : ∀ h, (g h).id = h.id) :
    FrzRel id s (modH s j g) := FrzRel.of_keepN hne (keepN_modH s j g hg)

theorem FrzRel.of_kp {id : Nat} {s s' : State} (h : kp s' = kp s) : FrzRel id s s' := FrzRel.of_keepQ (KeepQ.of_kp h)

theorem FrzRel.after {id : Nat} {a b b' : State} (h : FrzRel id a b) (hk : kp b' = kp b) : FrzRel id a b' :=
  h.trans (FrzRel.of_kp hk)

theorem FrzRel.udpLoop_ne {id j : Nat} (hne : id ≠ j) (sc : Script) (ph : Phase) (fuel : Nat) (s : State) :
    FrzRel id s (udpRunCompletedLoop sc ph j fuel s) := by
  induction fuel generalizing s with
  | zero => exact FrzRel.refl _ _
  | succ n ih =>
    unfold udpRunCompletedLoop
    split
    · exact FrzRel.refl _ _
    · split
      · exact FrzRel.refl _ _
      · simp only
        refine FrzRel.trans ?_ (ih _)
        refine FrzRel.trans ?_ (FrzRel.runCb id _ _ _ _ _ _ _ _ _)
        refine FrzRel.after (b := modH s j _) ?_ rfl
        exact FrzRel.modH_ne hne s _ (by intro _; rfl)

theorem FrzRel.udpRunCompleted_ne {id j : Nat} (hne : id ≠ j) (sc : Script) (ph : Phase) (s : State) :
    FrzRel id s (udpRunCompleted sc ph j s) := by
  unfold udpRunCompleted
  split
  · exact FrzRel.refl _ _
  · rename_i h0 _
    simp only
    have h1 := (FrzRel.modH_ne hne s (fun h => { h with processing := true }) (by intro _; rfl)).trans
      (FrzRel.udpLoop_ne hne sc ph (h0.wcq.length + 1) _)
    split
    · exact h1
    · refine h1.trans ?_
      refine FrzRel.trans ?_ (FrzRel.modH_ne hne _ _ (by intro _; rfl))
      split
      · split
        · exact (FrzRel.of_kp (kp_ioStop _ _ _)).trans (FrzRel.of_keepQ (keepQ_hStop _ _))
        · exact FrzRel.of_kp (kp_ioStop _ _ _)
      · exact FrzRel.refl _ _

theorem find_filter_ne (hs : List Handle) (id j : Nat) (hne : id ≠ j) :
    (hs.filter (·.id != j)).find? (·.id == id) = hs.find? (·.id == id) := by
  induction hs with
  | nil => rfl
  | cons x t ih =>
    by_cases hx : x.id = j
    · have h1 : (x.id != j) = false := by simp [hx]
      have h2 : (x.id == id) = false := by simp [hx]; omega
      simp [List.filter, h1, List.find?, h2, ih]
    · have h1 : (x.id != j) = true := by simp [hx]
      simp only [List.filter, h1, List.find?, ih]

theorem FrzRel.finishClose_ne {id j : Nat} (hne : id ≠ j) (sc : Script) (s : State) : FrzRel id s (finishClose sc j s) := by
  unfold finishClose
  split
  · exact FrzRel.refl _ _
  · rename_i h _
    simp only
    have h1 : FrzRel id s (withKernel s j setClosed) := FrzRel.of_keepQ (keepQ_withKernel _ _ _ clMono_setClosed)
    generalize hs2 : (if h.kind == .udp then udpFinishClose sc .closing j (withKernel s j setClosed)
        else if h.kind == .pipe || h.kind == .tcp then streamDestroy sc j (withKernel s j setClosed)
        else withKernel s j setClosed) = s2
    have h2 : FrzRel id s s2 := by
      refine h1.trans ?_
      rw [← hs2]; split
      · unfold udpFinishClose
        exact (FrzRel.modH_ne hne _ _ (by intro _; rfl)).trans (FrzRel.udpRunCompleted_ne hne _ _ _)
      · split
        · unfold streamDestroy
          split
          · exact FrzRel.refl _ _
          · split
            · exact FrzRel.refl _ _
            · simp only
              refine FrzRel.trans ?_ (FrzRel.modH_ne hne _ _ (by intro _; rfl))
              refine FrzRel.trans ?_ (FrzRel.runCb id _ _ _ _ _ _ _ _ _)
              exact FrzRel.of_kp rfl
        · exact FrzRel.refl _ _
    have h3 : FrzRel id s (withKernel s2 j handleUnref) := h2.trans (FrzRel.of_keepQ (keepQ_withKernel _ _ _ clMono_unref))
    split
    · exact h3
    · refine FrzRel.trans ?_ (FrzRel.runCb id _ _ _ _ _ _ _ _ _)
      refine h3.trans ?_
      rintro ⟨hm, f, hf, hc⟩
      refine ⟨⟨?_, f, ?_, hc⟩, ?_, rfl⟩
      · simp only [hids, List.mem_map, List.mem_filter] at hm ⊢
        obtain ⟨x, hx, he⟩ := hm
        exact ⟨x, ⟨hx, by simp [he, hne]⟩, he⟩
      · simp only [getF, Core.get, Core.remove] at hf ⊢
        rw [lookF_eraseF_ne _ _ _ hne]; exact hf
      · simp only [hq, getH]
        rw [find_filter_ne _ _ _ hne]

/-! ### the trace only grows -/
def TrX (s s' : State) : Prop := ∃ new, s'.trace = new ++ s.trace

theorem TrX.emit_any (s : State) (e : Event) : TrX s (emit s e) := by
  unfold emit; split
  · exact ⟨[], rfl⟩
  · exact ⟨[e], rfl⟩

theorem trX : PhaseRel TrX where
  refl := fun _ => ⟨[], rfl⟩
  trans := fun ⟨n1, e1⟩ ⟨n2, e2⟩ => ⟨n2 ++ n1, by rw [e2, e1, List.append_assoc]⟩
  keep := fun _ ht => ⟨[], by simpa using ht⟩
  emit := fun s e _ => TrX.emit_any s e
  stepOp := fun s o => by
    obtain ⟨new, e, _⟩ := TrCb.stepOp s o
    exact ⟨new, e⟩
  cbH := fun s _ _ _ _ _ _ _ => TrX.emit_any s _
  cbR := fun s _ _ _ _ _ _ => TrX.emit_any s _
  halt := fun _ => ⟨[], rfl⟩

theorem TrX.finishClose (sc : Script) (j : Nat) (s : State) : TrX s (finishClose sc j s) := by
  unfold Loop.finishClose
  split
  · exact trX.refl _
  · rename_i h _
    simp only
    generalize hs2 : (if h.kind == .udp then udpFinishClose sc .closing j (withKernel s j setClosed)
        else if h.kind == .pipe || h.kind == .tcp then streamDestroy sc j (withKernel s j setClosed)
        else withKernel s j setClosed) = s2
    have h2 : TrX s s2 := by
      refine trX.trans (b := withKernel s j setClosed) ⟨[], rfl⟩ ?_
      rw [← hs2]; split
      · exact trX.udpFinishClose _ _ _ _
      · split
        · exact trX.streamDestroy _ _ _
        · exact trX.refl _
    split
    · exact trX.trans h2 ⟨[], rfl⟩
    · refine trX.trans h2 ?_
      unfold Loop.runCb
      simp only
      refine trX.trans ?_ (TrX.emit_any _ _)
      refine trX.trans ?_ (TrX.emit_any _ _)
      refine trX.trans ?_ (trX.foldl_stepOp _ _)
      refine trX.trans ?_ (TrX.emit_any _ _)
      refine trX.trans ?_ (TrX.emit_any _ _)
      exact ⟨[], rfl⟩

theorem TrX.runClosingLoop (sc : Script) (fuel : Nat) (s : State) : TrX s (runClosingLoop sc fuel s) := by
  induction fuel generalizing s with
  | zero => exact trX.refl _
  | succ n ih =>
    unfold Loop.runClosingLoop
    split
    · exact trX.refl _
    · simp only
      refine trX.trans ?_ (ih _)
      refine trX.trans ?_ (TrX.finishClose _ _ _)
      exact ⟨[], rfl⟩

theorem attachedReqs_congr {h h' : Handle} (hq : qOf h' = qOf h) : attachedReqs h' = attachedReqs h := by
  simp only [qOf, Prod.mk.injEq] at hq
  obtain ⟨h1, h2, h3, h4⟩ := hq
  simp only [attachedReqs, h1, h2, h3, h4]

/-- `reqs_before_close_cb` inside the closing phase: for a handle in the detached chain, the phase's trace contains
    a contiguous segment whose callbacks are exactly those owed to the requests attached to the record *as it is when
    the phase starts* (closing of other handles and their callbacks cannot change it), followed by its close callback -/
theorem runClosingLoop_reqs (sc : Script) (id : Nat) : ∀ (fuel : Nat) (s : State) (h : Handle),
    CloseWF s → s.halted = false → id ∈ s.closingLocal.take fuel → getH s id = some h →
    ∃ pre mid post fb, (runClosingLoop sc fuel s).trace = post ++ mid ++ pre ++ s.trace ∧
      cbsOf mid = attachedReqs h ++ [(CbKind.close, id, fb)] := by
  intro fuel
  induction fuel with
  | zero => intro s h _ _ hm _; simp at hm
  | succ n ih =>
    intro s h hw hh hm hg
    unfold Loop.runClosingLoop
    split
    · rename_i heq; simp [heq] at hm
    · rename_i j rest heq
      simp only
      have hw1 : CloseWF' (some j) { s with closingLocal := rest } := by
        have hl : clList (some j) { s with closingLocal := rest } = clList none s := by simp [clList, heq]
        exact ⟨hl ▸ hw.1, fun i hi => hw.2 i (hl ▸ hi)⟩
      by_cases hji : j = id
      · subst hji
        obtain ⟨fb, mid, e, c⟩ := finishClose_reqs sc j { s with closingLocal := rest } h hw1 hh hg
        obtain ⟨post, e2⟩ := TrX.runClosingLoop sc n (Loop.finishClose sc j { s with closingLocal := rest })
        exact ⟨[], mid, post, fb, by rw [e2, e]; simp, c⟩
      · have hne : id ≠ j := fun he => hji he.symm
        obtain ⟨pre1, e1⟩ := TrX.finishClose sc j { s with closingLocal := rest }
        have hz : Frz id { s with closingLocal := rest } := by
          have hmem : id ∈ clList none s := by
            simp only [clList, Option.toList_none, List.nil_append, List.mem_append]
            exact Or.inl (List.mem_of_mem_take hm)
          exact hw.2 id hmem
        obtain ⟨hz', hq', hh'⟩ := FrzRel.finishClose_ne hne sc { s with closingLocal := rest } hz
        obtain ⟨hw', hcl'⟩ := finishClose_wf sc j _ hw1
        have hqs : hq { s with closingLocal := rest } id = some (qOf h) := by
          show (getH s id).map qOf = _; rw [hg]; rfl
        obtain ⟨h', hg', hqe⟩ := getH_of_hq (hq'.trans hqs)
        have hm' : id ∈ (Loop.finishClose sc j { s with closingLocal := rest }).closingLocal.take n := by
          rw [hcl']
          rw [heq, List.take_succ_cons, List.mem_cons] at hm
          rcases hm with hm | hm
          · exact absurd hm hne
          · exact hm
        obtain ⟨pre, mid, post, fb, e, c⟩ := ih _ h' hw' (hh'.trans hh) hm' hg'
        refine ⟨pre ++ pre1, mid, post, fb, ?_, by rw [c, attachedReqs_congr hqe]⟩
        rw [e, e1]; simp

theorem runClosing_reqs (sc : Script) (id : Nat) (s : State) (h : Handle) (hw : CloseWF s) (hh : s.halted = false)
    (hid : id ∈ s.closing) (hg : getH s id = some h) :
    ∃ pre mid post fb, (runClosing sc s).trace = post ++ mid ++ pre ++ s.trace ∧
      cbsOf mid = attachedReqs h ++ [(CbKind.close, id, fb)] := by
  unfold Loop.runClosing
  simp only
  have hw0 : CloseWF { s with closingLocal := s.closing, closing := [] } := by
    have hsub : (clList none { s with closingLocal := s.closing, closing := [] }).Sublist (clList none s) := by
      simp [clList]
    exact ⟨hw.1.sublist hsub, fun i hi => hw.2 i (hsub.subset hi)⟩
  exact runClosingLoop_reqs sc id _ _ h hw0 hh (by simpa [List.take_of_length_le] using hid) hg

end UvModel.Loop
