import UvModel.ThreadArith
/-! helper lemmas for C20: the `& ~(pagesize-1)` mask on 64-bit words, rounding facts -/
namespace UvModel.ThreadArith

/-- `x & ~(2^k - 1)` on a 64-bit word clears the low `k` bits: it is `x - x % 2^k` -/
theorem and_mask (x k : Nat) (hk : k ≤ 64) (hx : x < 2 ^ 64) :
    x &&& (2 ^ 64 - 2 ^ k) = x - x % 2 ^ k := by
  apply Nat.eq_of_testBit_eq
  intro i
  have h1 : x - x % 2 ^ k = (x / 2 ^ k) * 2 ^ k := by
    have := Nat.div_add_mod x (2 ^ k)
    rw [Nat.mul_comm] at this; omega
  have h2 : 2 ^ 64 - 2 ^ k = (2 ^ (64 - k) - 1) * 2 ^ k := by
    rw [Nat.sub_mul, ← Nat.pow_add]; congr 2 <;> omega
  rw [h1, h2, Nat.testBit_and, Nat.testBit_mul_two_pow, Nat.testBit_mul_two_pow,
      Nat.testBit_two_pow_sub_one, Nat.testBit_div_two_pow]
  by_cases hik : k ≤ i
  · simp [hik]
    by_cases h64 : i < 64
    · have : i - k < 64 - k := by omega
      simp [this]
    · have : x.testBit i = false :=
        Nat.testBit_lt_two_pow (Nat.lt_of_lt_of_le hx (Nat.pow_le_pow_right (by omega) (by omega)))
      simp [this]
  · simp [hik]

/-- `not64 (2^k - 1) = 2^64 - 2^k` -/
theorem not64_mask (k : Nat) (hk : k ≤ 64) : not64 (2 ^ k - 1) = 2 ^ 64 - 2 ^ k := by
  have h1 : 0 < 2 ^ k := Nat.pos_of_ne_zero (by simp)
  have h2 : 2 ^ k ≤ 2 ^ 64 := Nat.pow_le_pow_right (by omega) hk
  unfold not64; omega

/-- the C rounding expression, for a power-of-two page size and no wrap, is round-down of
    `r + p - 1` to a multiple of `p` -/
theorem round_expr (r k : Nat) (hk : k ≤ 64) (h : r + 2 ^ k - 1 < 2 ^ 64) :
    ((r + 2 ^ k - 1) % 2 ^ 64) &&& not64 (2 ^ k - 1)
      = (r + 2 ^ k - 1) - (r + 2 ^ k - 1) % 2 ^ k := by
  rw [Nat.mod_eq_of_lt h, not64_mask k hk, and_mask _ k hk h]

/-- `x - x % p = p * (x / p)` -/
theorem sub_mod_eq_mul_div (x p : Nat) : x - x % p = p * (x / p) := by
  have := Nat.div_add_mod x p; omega

/-- retry combinator: `n` interrupted calls followed by a call with any other outcome `(r, e)`
    give exactly `final r e` after `n + 1` calls, whatever the script holds afterwards -/
theorem retry_eintr (final : Int → Int → Out) (n : Nat) (r e : Int) (rest : List (Int × Int))
    (h : ¬(r = -1 ∧ e = EINTR)) :
    retryEintr final (List.replicate n (-1, EINTR) ++ (r, e) :: rest) = some (final r e, n + 1) := by
  induction n with
  | zero => simp [retryEintr, h]
  | succ n ih => simp [List.replicate_succ, retryEintr, ih]

/-- the loop never returns on interruptions alone -/
theorem retry_only_eintr (final : Int → Int → Out) (n : Nat) :
    retryEintr final (List.replicate n (-1, EINTR)) = none := by
  induction n with
  | zero => rfl
  | succ n ih => simp [List.replicate_succ, retryEintr, ih]

/-- whenever the loop returns, it returns the decision on the LAST call made, that call was
    not an interruption, and every earlier call was one -/
theorem retry_returns_last (final : Int → Int → Out) (script : List (Int × Int)) (o : Out) (k : Nat)
    (h : retryEintr final script = some (o, k)) :
    ∃ r e rest, script = List.replicate (k - 1) (-1, EINTR) ++ (r, e) :: rest ∧ 0 < k ∧
      ¬(r = -1 ∧ e = EINTR) ∧ o = final r e := by
  induction script generalizing o k with
  | nil => simp [retryEintr] at h
  | cons hd tl ih =>
    obtain ⟨r, e⟩ := hd
    by_cases hc : r = -1 ∧ e = EINTR
    · simp only [retryEintr, hc, and_self, if_true, Option.map_eq_some_iff] at h
      obtain ⟨⟨o', k'⟩, h1, h2⟩ := h
      simp only [Prod.mk.injEq] at h2
      obtain ⟨rfl, rfl⟩ := h2
      obtain ⟨r', e', rest, hs, hk, hne, ho⟩ := ih o' k' h1
      refine ⟨r', e', rest, ?_, by omega, hne, ho⟩
      have : k' + 1 - 1 = (k' - 1) + 1 := by omega
      rw [this, List.replicate_succ, hc.1, hc.2, hs]
      simp
    · simp only [retryEintr, hc, if_false, Option.some.injEq, Prod.mk.injEq] at h
      obtain ⟨rfl, rfl⟩ := h
      exact ⟨r, e, tl, by simp, by omega, hc, rfl⟩

end UvModel.ThreadArith
