import UvModel.Lemmas.LoopReqs2
/-!
  Closing bookkeeping seen from the handle flags: the handles that are CLOSING and not yet CLOSED are exactly
  the members of `closing_handles` plus the chain detached by `uv__run_closing_handles`, each once; outside
  that phase the detached chain is empty.
  `BInv`: ids in `handle_queue` are distinct, below `nextId`, have a record; every CLOSING ∧ ¬CLOSED one is
  queued; the queue has no duplicates and every queued id is CLOSING ∧ ¬CLOSED.
  `BStep s s'`: the detached chain is untouched and, from `BInv s`, `BInv s'` holds and CLOSED entries stay
  CLOSED (needed inside `uv__finish_close`, whose request callbacks run before the record is unlinked).
-/
namespace UvModel.Loop.Reqs
open UvModel.HandleKernels

def cflag (f : HFlags) : Bool := f.closing && !f.closed
/-- (CLOSING ∧ ¬CLOSED, CLOSED) -/
def fg (f : HFlags) : Bool × Bool := (cflag f, f.closed)
def fm (fl : List (Nat × HFlags)) : List (Nat × Bool × Bool) := fl.map (fun e => (e.1, fg e.2))
def bq (s : State) := (fm s.c.fl, s.nextId, s.handles.map (·.id), s.closing, s.closingLocal)

def BInvP (p : List (Nat × Bool × Bool) × Nat × List Nat × List Nat × List Nat) : Prop :=
  (p.1.map (·.1)).Nodup ∧ (∀ a ∈ p.1.map (·.1), a < p.2.1) ∧ (∀ a ∈ p.1.map (·.1), a ∈ p.2.2.1) ∧
  (∀ e ∈ p.1, e.2.1 = true → e.1 ∈ p.2.2.2.2 ++ p.2.2.2.1) ∧
  (p.2.2.2.2 ++ p.2.2.2.1).Nodup ∧ (∀ j ∈ p.2.2.2.2 ++ p.2.2.2.1, (j, true, false) ∈ p.1)
def BInv (s : State) : Prop := BInvP (bq s)

/-- `BInv` is preserved, the detached chain is untouched, CLOSED handles stay CLOSED -/
def BStep (s s' : State) : Prop :=
  s'.closingLocal = s.closingLocal ∧
  (BInv s → BInv s' ∧ ∀ j, (j, false, true) ∈ fm s.c.fl → (j, false, true) ∈ fm s'.c.fl)

theorem BStep.cl {s s' : State} (h : BStep s s') : s'.closingLocal = s.closingLocal := h.1
theorem BStep.inv {s s' : State} (h : BStep s s') (hi : BInv s) : BInv s' := (h.2 hi).1
theorem BStep.closed {s s' : State} (h : BStep s s') (hi : BInv s) {j : Nat} (hj : (j, false, true) ∈ fm s.c.fl) :
    (j, false, true) ∈ fm s'.c.fl := (h.2 hi).2 j hj

theorem BStep.refl (s : State) : BStep s s := ⟨rfl, fun hi => ⟨hi, fun _ h => h⟩⟩
theorem BStep.trans {a b c : State} (h1 : BStep a b) (h2 : BStep b c) : BStep a c :=
  ⟨h2.1.trans h1.1, fun hi => ⟨h2.inv (h1.inv hi), fun _ hj => h2.closed (h1.inv hi) (h1.closed hi hj)⟩⟩
theorem BStep.of_bq {s s' : State} (h : bq s' = bq s) : BStep s s' := by
  refine ⟨?_, fun hi => ⟨?_, ?_⟩⟩
  · simp only [bq, Prod.mk.injEq] at h; exact h.2.2.2.2
  · unfold BInv; rw [h]; exact hi
  · simp only [bq, Prod.mk.injEq] at h; intro j hj; rw [h.1]; exact hj
theorem BStep.bq_left {a a' b : State} (h : bq a' = bq a) (h2 : BStep a' b) : BStep a b := (BStep.of_bq h).trans h2

/-! ### flags -/
theorem fm_updF_same {fl : List (Nat × HFlags)} {id : Nat} {f f' : HFlags} (h : lookF fl id = some f)
    (hc : fg f' = fg f) : fm (updF fl id f') = fm fl := by
  induction fl with
  | nil => rfl
  | cons e t ih =>
    by_cases he : (e.1 == id) = true
    · simp only [lookF, he, if_true, Option.some.injEq] at h
      have : e.1 = id := by simpa using he
      simp [updF, fm, hc, ← h, this]
    · have he' : (e.1 == id) = false := by simpa using he
      simp only [lookF, he', Bool.false_eq_true, if_false] at h
      have := ih h
      simp only [fm] at this
      simp [updF, he', fm, this]

theorem fm_apply (c : Core) (id : Nat) (k : HK → HK) (hk : ∀ f ah, fg (ofHK (k (toHK f ah))) = fg f) :
    fm (c.apply id k).fl = fm c.fl := by
  unfold Core.apply
  cases hg : c.get id with
  | none => rfl
  | some f => exact fm_updF_same (by simpa [Core.get] using hg) (hk f c.ah)

theorem kflag_start (f : HFlags) (ah : Int) : fg (ofHK (handleStart (toHK f ah))) = fg f := by
  rcases f with ⟨a, r, c, d, i⟩; cases a <;> cases r <;> simp [handleStart, toHK, ofHK, cflag, fg]
theorem kflag_stop (f : HFlags) (ah : Int) : fg (ofHK (handleStop (toHK f ah))) = fg f := by
  rcases f with ⟨a, r, c, d, i⟩; cases a <;> cases r <;> simp [handleStop, toHK, ofHK, cflag, fg]
theorem kflag_ref (f : HFlags) (ah : Int) : fg (ofHK (handleRef (toHK f ah))) = fg f := by
  rcases f with ⟨a, r, c, d, i⟩; cases a <;> cases r <;> cases c <;> simp [handleRef, toHK, ofHK, cflag, fg]
theorem kflag_unref (f : HFlags) (ah : Int) : fg (ofHK (handleUnref (toHK f ah))) = fg f := by
  rcases f with ⟨a, r, c, d, i⟩; cases a <;> cases r <;> cases c <;> simp [handleUnref, toHK, ofHK, cflag, fg]
theorem kflag_internal (f : HFlags) (ah : Int) : fg (ofHK (setInternal (toHK f ah))) = fg f := by
  rcases f with ⟨a, r, c, d, i⟩; simp [setInternal, toHK, ofHK, cflag, fg]

theorem bq_withKernel (s : State) (id : Nat) (k : HK → HK) (hk : ∀ f ah, fg (ofHK (k (toHK f ah))) = fg f) :
    bq (withKernel s id k) = bq s := by
  simp only [bq, withKernel, fm_apply _ _ _ hk]

theorem map_id_updH' (hs : List Handle) (id : Nat) (g : Handle → Handle) (hg : ∀ h, (g h).id = h.id) :
    (updH hs id g).map (·.id) = hs.map (·.id) := by
  induction hs with
  | nil => rfl
  | cons a t ih =>
    simp only [updH]
    split
    · simp [hg]
    · simp [ih]

theorem bq_modH (s : State) (id : Nat) (g : Handle → Handle) (hg : ∀ h, (g h).id = h.id) : bq (modH s id g) = bq s := by
  simp only [bq, modH, map_id_updH' _ _ _ hg]

/-! ### auxiliary functions: `bq` unchanged -/
@[simp] theorem bq_hStart (s : State) (id : Nat) : bq (hStart s id) = bq s := bq_withKernel _ _ _ kflag_start
@[simp] theorem bq_hStop (s : State) (id : Nat) : bq (hStop s id) = bq s := bq_withKernel _ _ _ kflag_stop
@[simp] theorem bq_setIo (s : State) (w : W) (io : IoW) : bq (setIo s w io) = bq s := by
  cases w with
  | h id => exact bq_modH _ _ _ (fun _ => rfl)
  | _ => rfl
@[simp] theorem bq_ioStart (s : State) (w : W) (ev : Nat) : bq (ioStart s w ev) = bq s := by
  unfold ioStart; simp only
  have := bq_setIo s w { getIo s w with pevents := (getIo s w).pevents ||| ev }
  split
  · exact this
  · split
    · exact this
    · simp only [bq, Prod.mk.injEq] at this ⊢; exact this
@[simp] theorem bq_ioStop (s : State) (w : W) (ev : Nat) : bq (ioStop s w ev) = bq s := by
  unfold ioStop; simp only
  split; · rfl
  split
  · have := bq_setIo s w { getIo s w with pevents := 0, events := 0 }
    simp only [bq, Prod.mk.injEq] at this ⊢; exact this
  · have := bq_setIo s w { getIo s w with pevents := clearBits (getIo s w).pevents ev }
    split
    · exact this
    · simp only [bq, Prod.mk.injEq] at this ⊢; exact this
@[simp] theorem bq_invalidate (s : State) (id : Nat) : bq (invalidate s id) = bq s := rfl
@[simp] theorem bq_ioClose (s : State) (id : Nat) : bq (ioClose s id) = bq s := by
  unfold ioClose; simp only
  have := bq_ioStop s (.h id) POLLALL
  split <;> (simp only [bq, invalidate, Prod.mk.injEq] at this ⊢; exact this)
@[simp] theorem bq_ioFeed (s : State) (id : Nat) : bq (ioFeed s id) = bq s := by
  unfold ioFeed; split <;> rfl
@[simp] theorem bq_updateTime (s : State) : bq (updateTime s) = bq s := rfl
@[simp] theorem bq_asyncSend (s : State) (id : Nat) : bq (asyncSend s id) = bq s := by
  unfold asyncSend; split; · rfl
  split
  · rfl
  · exact bq_modH _ _ _ (fun _ => rfl)
@[simp] theorem bq_initInotify (s : State) : bq (initInotify s) = bq s := by
  unfold initInotify; split; · rfl
  simp; rfl
@[simp] theorem bq_emit (s : State) (e : Event) : bq (emit s e) = bq s := by
  unfold emit; split <;> rfl
@[simp] theorem bq_emitObs (s : State) : bq (emitObs s) = bq s := by simp [emitObs]
@[simp] theorem bq_setWList (s : State) (k : WKind) (l : List Nat) : bq (setWList s k l) = bq s := by cases k <;> rfl
@[simp] theorem bq_flushWatchers (s : State) : bq (flushWatchers s) = bq s := by
  unfold flushWatchers
  have : ∀ (l : List W) (s : State), bq (l.foldl (fun s w => let io := getIo s w; setIo s w { io with events := io.pevents }) s) = bq s := by
    intro l; induction l with
    | nil => intro s; rfl
    | cons w t ih => intro s; simp only [List.foldl]; rw [ih]; simp
  have h := this s.watcherQ s
  simp only [bq, Prod.mk.injEq] at h ⊢; exact h
@[simp] theorem bq_timerStop (s : State) (id : Nat) : bq (timerStop s id) = bq s := by
  unfold timerStop; rw [bq_hStop]; rfl
@[simp] theorem bq_timerStart (s : State) (id a b : Nat) : bq (timerStart s id a b).1 = bq s := by
  unfold timerStart; split; · rfl
  simp only; split
  · rfl
  · rw [bq_hStart]
    exact (bq_hStop s id ▸ rfl : bq { hStop s id with tm := (Timer.start s.tm id a b).1 } = bq s)
@[simp] theorem bq_timerAgain (s : State) (id : Nat) : bq (timerAgain s id).1 = bq s := by
  unfold timerAgain; simp only
  split; · rfl
  split
  · rw [bq_timerStart, bq_timerStop]
  · rfl
@[simp] theorem bq_watcherStart (s : State) (k : WKind) (id : Nat) : bq (watcherStart s k id) = bq s := by
  unfold watcherStart; split; · rfl
  rw [bq_hStart, bq_setWList]
@[simp] theorem bq_watcherStop (s : State) (k : WKind) (id : Nat) : bq (watcherStop s k id) = bq s := by
  unfold watcherStop; split; · rfl
  simp only; rw [bq_hStop]
  have := bq_setWList s k ((wList s k).filter (· != id))
  simp only [bq, Prod.mk.injEq] at this ⊢; exact this
@[simp] theorem bq_pollStop (s : State) (id : Nat) : bq (pollStop s id) = bq s := by
  show bq (invalidate (hStop (ioStop s (.h id) POLLALL) id) id) = bq s
  simp
@[simp] theorem bq_pollStart (s : State) (id mask : Nat) : bq (pollStart s id mask) = bq s := by
  unfold pollStart; simp only; split <;> simp
@[simp] theorem bq_asyncClose (s : State) (id : Nat) : bq (asyncClose s id) = bq s := by
  unfold asyncClose
  simp only [bq_hStop]
  exact (bq_modH s id (fun h => { h with pending := true }) (fun _ => rfl) :)
@[simp] theorem bq_streamListen (s : State) (id : Nat) : bq (streamListen s id) = bq s := by
  show bq (hStart (ioStart (modH s id _) (.h id) POLLIN) id) = bq s
  rw [bq_hStart, bq_ioStart]; exact bq_modH _ _ _ (fun _ => rfl)
@[simp] theorem bq_streamClose (s : State) (id : Nat) : bq (streamClose s id) = bq s := by
  show bq (modH (hStop (ioClose s id) id) id _) = bq s
  refine Eq.trans (bq_modH _ _ _ ?_) (by simp)
  intro _; rfl
@[simp] theorem bq_udpClose (s : State) (id : Nat) : bq (udpClose s id) = bq s := by
  show bq (modH (hStop (ioClose s id) id) id _) = bq s
  refine Eq.trans (bq_modH _ _ _ ?_) (by simp)
  intro _; rfl
@[simp] theorem bq_udpRecvStart (s : State) (id : Nat) : bq (udpRecvStart s id).1 = bq s := by
  unfold udpRecvStart; split; · rfl
  show bq (hStart (ioStart (modH s id _) (.h id) POLLIN) id) = bq s
  rw [bq_hStart, bq_ioStart]; exact bq_modH _ _ _ (fun _ => rfl)
@[simp] theorem bq_udpRecvStop (s : State) (id : Nat) : bq (udpRecvStop s id) = bq s := by
  unfold udpRecvStop; simp only; split <;> simp
@[simp] theorem bq_fsEventStop (s : State) (id : Nat) : bq (fsEventStop s id) = bq s := by
  unfold fsEventStop; split
  · rfl
  · exact bq_hStop s id
@[simp] theorem bq_closeKind (s : State) (k : Kind) (id : Nat) : bq (closeKind s k id) = bq s := by
  cases k <;> simp [closeKind, signalStop]
  · rfl
@[simp] theorem bq_udpSendmsg (s : State) (id : Nat) : bq (udpSendmsg s id) = bq s := by
  unfold udpSendmsg; split; · rfl
  split; · rfl
  simp only; rw [bq_ioFeed]; exact bq_modH _ _ _ (fun _ => rfl)
@[simp] theorem bq_udpSendEnqueue (s : State) (id : Nat) : bq (udpSendEnqueue s id) = bq s := by
  unfold udpSendEnqueue; simp only
  refine Eq.trans (bq_modH _ _ _ ?_) rfl
  intro _; rfl
@[simp] theorem bq_udpSendKick (s : State) (id : Nat) (a b : Bool) : bq (udpSendKick s id a b) = bq s := by
  unfold udpSendKick
  split
  · simp only
    split
    · simp
    · split <;> simp
  · simp
@[simp] theorem bq_udpSend (s : State) (id : Nat) : bq (udpSend s id) = bq s := by
  unfold udpSend; split; · rfl
  simp
@[simp] theorem bq_pipeConnectBad (s : State) (id : Nat) : bq (pipeConnectBad s id) = bq s := by
  unfold pipeConnectBad; simp only; rw [bq_ioFeed]
  refine Eq.trans (bq_modH _ _ _ ?_) rfl
  intro _; rfl
@[simp] theorem bq_workSubmit (s : State) (api : Api) : bq (workSubmit s api) = bq s := by
  unfold workSubmit; simp only; split
  · split
    · rfl
    · rw [bq_asyncSend]; rfl
  · rfl
@[simp] theorem bq_ringInit (s : State) : bq (ringInit s) = bq s := by
  unfold ringInit; split <;> rfl
@[simp] theorem bq_submit (s : State) (api : Api) : bq (submit s api) = bq s := by
  unfold submit; simp only; split
  · split
    · unfold ringSubmit; simp only; exact bq_ringInit s
    · rw [bq_workSubmit, bq_ringInit]
  · rw [bq_workSubmit]
@[simp] theorem bq_workCancel (s : State) (r : Nat) : bq (workCancel s r).1 = bq s := by
  unfold workCancel; split
  · simp; rfl
  · split
    · simp; rfl
    · rfl
@[simp] theorem bq_completeWorks (s : State) (k : Nat) : bq (completeWorks s k) = bq s := by
  unfold completeWorks; split; · rfl
  simp; rfl

/-! ### steps that change flags or the lists -/
theorem keys_fm (fl : List (Nat × HFlags)) : (fm fl).map (·.1) = fl.map (·.1) := by
  simp [fm, List.map_map, Function.comp_def]

theorem keys_updF (fl : List (Nat × HFlags)) (id : Nat) (f' : HFlags) : (updF fl id f').map (·.1) = fl.map (·.1) := by
  induction fl with
  | nil => rfl
  | cons e t ih =>
    simp only [updF]
    split
    · rename_i he
      have : e.1 = id := by simpa using he
      simp [this]
    · simp [ih]

theorem mem_fm_updF {fl : List (Nat × HFlags)} {id : Nat} {f' : HFlags} {p : Nat × Bool × Bool}
    (h : p ∈ fm (updF fl id f')) : p ∈ fm fl ∨ p = (id, fg f') := by
  induction fl with
  | nil => simp [updF, fm] at h
  | cons e t ih =>
    simp only [updF] at h
    split at h
    · simp only [fm, List.map_cons, List.mem_cons] at h ⊢
      rcases h with h | h
      · exact Or.inr h
      · exact Or.inl (Or.inr h)
    · simp only [fm, List.map_cons, List.mem_cons] at h ⊢
      rcases h with h | h
      · exact Or.inl (Or.inl h)
      · rcases ih h with h | h
        · exact Or.inl (Or.inr h)
        · exact Or.inr h

theorem fm_updF_mem {fl : List (Nat × HFlags)} {id : Nat} {f f' : HFlags} (h : lookF fl id = some f) :
    (id, fg f') ∈ fm (updF fl id f') := by
  induction fl with
  | nil => simp [lookF] at h
  | cons e t ih =>
    by_cases he : (e.1 == id) = true
    · simp [updF, he, fm]
    · have he' : (e.1 == id) = false := by simpa using he
      simp only [lookF, he', Bool.false_eq_true, if_false] at h
      have := ih h
      simp only [updF, he', Bool.false_eq_true, if_false, fm, List.map_cons, List.mem_cons]
      exact Or.inr this

theorem nodup_keys_inj {β : Type} {m : List (Nat × β)} (hn : (m.map (·.1)).Nodup) {p q : Nat × β}
    (hp : p ∈ m) (hq : q ∈ m) (hk : p.1 = q.1) : p = q := by
  induction m with
  | nil => cases hp
  | cons a t ih =>
    simp only [List.map_cons, List.nodup_cons, List.mem_map, not_exists, not_and] at hn
    rcases List.mem_cons.mp hp with hp | hp <;> rcases List.mem_cons.mp hq with hq | hq
    · rw [hp, hq]
    · exact absurd (by rw [← hk, hp]) (hn.1 q hq)
    · exact absurd (by rw [hk, hq]) (hn.1 p hp)
    · exact ih hn.2 hp hq

theorem mem_fm_eraseF {fl : List (Nat × HFlags)} {id : Nat} (hn : (fl.map (·.1)).Nodup) {p : Nat × Bool × Bool}
    (h : p ∈ fm (eraseF fl id)) : p ∈ fm fl ∧ p.1 ≠ id := by
  induction fl with
  | nil => simp [eraseF, fm] at h
  | cons e t ih =>
    simp only [List.map_cons, List.nodup_cons] at hn
    simp only [eraseF] at h
    split at h
    · rename_i he
      have he' : e.1 = id := by simpa using he
      refine ⟨by simp only [fm, List.map_cons, List.mem_cons]; exact Or.inr h, ?_⟩
      intro hp
      apply hn.1
      have : p.1 ∈ (fm t).map (·.1) := List.mem_map.mpr ⟨p, h, rfl⟩
      rw [keys_fm] at this
      rw [he', ← hp]; exact this
    · rename_i he
      simp only [fm, List.map_cons, List.mem_cons] at h ⊢
      rcases h with h | h
      · refine ⟨Or.inl h, ?_⟩
        rw [h]; simpa using he
      · have := ih hn.2 h
        exact ⟨Or.inr this.1, this.2⟩

theorem mem_fm_updF_ne {fl : List (Nat × HFlags)} {id : Nat} {f' : HFlags} {p : Nat × Bool × Bool}
    (h : p ∈ fm fl) (hne : p.1 ≠ id) : p ∈ fm (updF fl id f') := by
  induction fl with
  | nil => simp [fm] at h
  | cons e t ih =>
    simp only [fm, List.map_cons, List.mem_cons] at h
    simp only [updF]
    split
    · rename_i he
      have he' : e.1 = id := by simpa using he
      simp only [fm, List.map_cons, List.mem_cons]
      rcases h with h | h
      · rw [h] at hne; exact absurd he' hne
      · exact Or.inr h
    · simp only [fm, List.map_cons, List.mem_cons]
      rcases h with h | h
      · exact Or.inl h
      · exact Or.inr (ih h)

theorem mem_fm_eraseF_ne {fl : List (Nat × HFlags)} {id : Nat} {p : Nat × Bool × Bool}
    (h : p ∈ fm fl) (hne : p.1 ≠ id) : p ∈ fm (eraseF fl id) := by
  induction fl with
  | nil => simp [fm] at h
  | cons e t ih =>
    simp only [fm, List.map_cons, List.mem_cons] at h
    simp only [eraseF]
    split
    · rename_i he
      have he' : e.1 = id := by simpa using he
      rcases h with h | h
      · rw [h] at hne; exact absurd he' hne
      · exact h
    · simp only [fm, List.map_cons, List.mem_cons]
      rcases h with h | h
      · exact Or.inl h
      · exact Or.inr (ih h)

theorem lookF_mem_fm {fl : List (Nat × HFlags)} {id : Nat} {f : HFlags} (h : lookF fl id = some f) : (id, fg f) ∈ fm fl := by
  induction fl with
  | nil => simp [lookF] at h
  | cons e t ih =>
    by_cases he : (e.1 == id) = true
    · simp only [lookF, he, if_true, Option.some.injEq] at h
      have : e.1 = id := by simpa using he
      simp [fm, ← h, ← this]
    · have he' : (e.1 == id) = false := by simpa using he
      simp only [lookF, he', Bool.false_eq_true, if_false] at h
      simp only [fm, List.map_cons, List.mem_cons]
      exact Or.inr (ih h)

theorem keys_eraseF_sub (fl : List (Nat × HFlags)) (id : Nat) : ((eraseF fl id).map (·.1)).Sublist (fl.map (·.1)) := by
  induction fl with
  | nil => exact List.Sublist.refl _
  | cons e t ih =>
    simp only [eraseF]
    split
    · exact List.sublist_cons_self _ _
    · exact List.Sublist.cons_cons _ ih

theorem addHandle_bstep (s : State) (k : Kind) : BStep s (addHandle s k) := by
  have hb : bq (addHandle s k) = (fm s.c.fl ++ [(s.nextId, false, false)], s.nextId + 1, s.handles.map (·.id) ++ [s.nextId],
      s.closing, s.closingLocal) := by
    simp [bq, addHandle, Core.add, fm, fg, cflag, ofHK, handleInit]
  refine ⟨rfl, fun hi => ⟨?_, ?_⟩⟩
  · obtain ⟨h1, h2, h3, h4, h5, h6⟩ := hi
    unfold BInv; rw [hb]
    simp only [bq] at h1 h2 h3 h4 h5 h6
    refine ⟨?_, ?_, ?_, ?_, h5, ?_⟩
    · simp only [List.map_append, List.map_cons, List.map_nil]
      refine List.nodup_append.mpr ⟨h1, by simp, ?_⟩
      intro a ha b hb
      have := h2 a ha
      simp only [List.mem_singleton] at hb
      omega
    · intro a ha
      simp only [List.map_append, List.map_cons, List.map_nil, List.mem_append, List.mem_singleton] at ha
      rcases ha with ha | ha
      · have := h2 a ha; show a < s.nextId + 1; omega
      · show a < s.nextId + 1; omega
    · intro a ha
      simp only [List.map_append, List.map_cons, List.map_nil, List.mem_append, List.mem_singleton] at ha
      show a ∈ s.handles.map (·.id) ++ [s.nextId]
      rcases ha with ha | ha
      · exact List.mem_append_left _ (h3 a ha)
      · exact List.mem_append_right _ (by simp [ha])
    · intro e he ht
      simp only [List.mem_append, List.mem_singleton] at he
      rcases he with he | he
      · exact h4 e he ht
      · rw [he] at ht; cases ht
    · intro j hj
      exact List.mem_append_left _ (h6 j hj)
  · intro j hj
    have : fm (addHandle s k).c.fl = fm s.c.fl ++ [(s.nextId, false, false)] := by
      simp only [bq, Prod.mk.injEq] at hb; exact hb.1
    rw [this]; exact List.mem_append_left _ hj

theorem initH_bstep (s : State) (k : Kind) : BStep s (initH s k) := by
  unfold initH
  simp only
  have ha := addHandle_bstep s k
  cases k with
  | timer => exact ha.trans (BStep.of_bq rfl)
  | async => exact ha.trans (BStep.of_bq (by rw [bq_hStart]; rfl))
  | poll => exact ha.trans (BStep.of_bq (bq_modH _ _ _ (fun _ => rfl)))
  | _ => exact ha

theorem fg_setClosing {f : HFlags} (hd : f.closed = false) (ah : Int) : fg (ofHK (setClosing (toHK f ah))) = (true, false) := by
  rcases f with ⟨a, r, c, d, i⟩; simp at hd; simp [setClosing, toHK, ofHK, fg, cflag, hd]

theorem closeH_bstep (s : State) (k : Kind) (id : Nat) (f : HFlags) (hf : getF s id = some f)
    (hc : f.closing = false) (hd : f.closed = false) : BStep s (closeH s k id) := by
  have hl : lookF s.c.fl id = some f := by simpa [getF, Core.get] using hf
  have hfl : (s.c.apply id setClosing).fl = updF s.c.fl id (ofHK (setClosing (toHK f s.c.ah))) := by
    unfold Core.apply
    have : s.c.get id = some f := hf
    simp only [this]
  have hb : bq (closeH s k id) = (fm (updF s.c.fl id (ofHK (setClosing (toHK f s.c.ah)))), s.nextId, s.handles.map (·.id),
      id :: s.closing, s.closingLocal) := by
    show bq (makeClosePending (closeKind (withKernel s id setClosing) k id) id) = _
    have := bq_closeKind (withKernel s id setClosing) k id
    simp only [bq, Prod.mk.injEq] at this
    simp only [bq, makeClosePending, this.1, this.2.1, this.2.2.1, this.2.2.2.1, this.2.2.2.2]
    simp only [withKernel, hfl]
  have hold : (id, false, false) ∈ fm s.c.fl := by
    have := lookF_mem_fm hl
    simpa [fg, cflag, hc, hd] using this
  refine ⟨by simp only [bq, Prod.mk.injEq] at hb; exact hb.2.2.2.2, fun hi => ⟨?_, ?_⟩⟩
  · obtain ⟨h1, h2, h3, h4, h5, h6⟩ := hi
    unfold BInv; rw [hb]
    simp only [bq] at h1 h2 h3 h4 h5 h6
    have hk : (fm (updF s.c.fl id (ofHK (setClosing (toHK f s.c.ah))))).map (·.1) = (fm s.c.fl).map (·.1) := by
      simp only [keys_fm, keys_updF]
    have hnot : id ∉ s.closingLocal ++ s.closing := by
      intro hm
      have := nodup_keys_inj h1 (h6 id hm) hold rfl
      simp at this
    refine ⟨by rw [hk]; exact h1, by rw [hk]; exact h2, by rw [hk]; exact h3, ?_, ?_, ?_⟩
    · intro e he ht
      show e.1 ∈ s.closingLocal ++ id :: s.closing
      rcases mem_fm_updF he with h | h
      · have := h4 e h ht
        simp only [List.mem_append, List.mem_cons] at this ⊢
        rcases this with h | h
        · exact Or.inl h
        · exact Or.inr (Or.inr h)
      · simp [h]
    · show (s.closingLocal ++ id :: s.closing).Nodup
      exact (List.perm_middle.nodup_iff).mpr (List.nodup_cons.mpr ⟨hnot, h5⟩)
    · intro j hj
      have hj' : j = id ∨ j ∈ s.closingLocal ++ s.closing := by
        have : j ∈ s.closingLocal ++ id :: s.closing := hj
        simp only [List.mem_append, List.mem_cons] at this ⊢
        rcases this with h | h | h
        · exact Or.inr (Or.inl h)
        · exact Or.inl h
        · exact Or.inr (Or.inr h)
      rcases hj' with rfl | hj'
      · have := fm_updF_mem (f' := ofHK (setClosing (toHK f s.c.ah))) hl
        rw [fg_setClosing hd] at this
        exact this
      · refine mem_fm_updF_ne (h6 j hj') ?_
        intro heq
        exact hnot (heq ▸ hj')
  · intro j hj
    have : fm (closeH s k id).c.fl = fm (updF s.c.fl id (ofHK (setClosing (toHK f s.c.ah)))) := by
      simp only [bq, Prod.mk.injEq] at hb; exact hb.1
    rw [this]
    refine mem_fm_updF_ne hj ?_
    intro heq
    -- the entry of `id` is not CLOSED
    have h1 : ((fm s.c.fl).map (·.1)).Nodup := hi.1
    have := nodup_keys_inj h1 hj hold heq
    simp at this

/-! ### one API call -/
set_option linter.unusedSimpArgs false in
theorem applyOp_bstep (s : State) (o : Op) : BStep s (applyOp s o).1 := by
  have hill : BStep s (illegal s).1 := BStep.of_bq rfl
  unfold applyOp
  split
  · exact hill
  · cases o with
    | init k => exact initH_bstep s k
    | close id =>
      simp only
      split
      · rename_i h f hg
        split
        · exact hill
        · rename_i hc
          have hc' : hClosing f = false := by
            cases h' : hClosing f <;> simp_all
          simp only [hClosing, isClosing, toHK, Bool.or_eq_false_iff] at hc'
          exact closeH_bstep s _ id f (getHF_getF hg) hc'.1 hc'.2
      · exact hill
    | ref id =>
      simp only
      split
      · split
        · exact hill
        · exact BStep.of_bq (bq_withKernel _ _ _ kflag_ref)
      · exact hill
    | unref id =>
      simp only
      split
      · split
        · exact hill
        · exact BStep.of_bq (bq_withKernel _ _ _ kflag_unref)
      · exact hill
    | bind id =>
      simp only
      split
      · split
        · exact BStep.of_bq (bq_modH _ _ _ (fun _ => rfl))
        · exact hill
      · exact hill
    | _ =>
      simp only <;> (repeat' split) <;>
        first
        | exact hill
        | exact BStep.refl _
        | exact BStep.of_bq rfl
        | exact BStep.of_bq (by simp [ok, signalStart, signalStop])

theorem stepOp_bstep (s : State) (o : Op) : BStep s (stepOp s o) := by
  unfold stepOp
  exact (applyOp_bstep s o).trans (BStep.of_bq (by simp))

theorem foldl_stepOp_bstep (ops : List Op) (s : State) : BStep s (ops.foldl stepOp s) := by
  induction ops generalizing s with
  | nil => exact BStep.refl _
  | cons o t ih => exact (stepOp_bstep s o).trans (ih _)

/-! ### callbacks and phases -/
theorem BStep.frame {a s s' : State} (h : BStep a s) (hb : bq s' = bq s) : BStep a s' := h.trans (BStep.of_bq hb)

theorem runCb_bstep (sc : Script) (ph : Phase) (k : CbKind) (key : CbKey) (id : Nat) (a b : Int) (occ : Nat) (s : State) :
    BStep s (runCb sc ph k key id a b occ s) := by
  unfold runCb
  simp only
  have h1 : ∀ t : State, BStep t (emitObs (emit t .endcb)) := fun t => BStep.of_bq (by simp)
  have h2 : BStep s (emitObs (emit { s with ncbTotal := s.ncbTotal + 1 } (.cb ph k id a b))) :=
    BStep.of_bq (by simp; rfl)
  exact (h2.trans (foldl_stepOp_bstep _ _)).trans (h1 _)

theorem runHandleCb_bstep (sc : Script) (ph : Phase) (k : CbKind) (id : Nat) (a b : Int) (s : State) :
    BStep s (runHandleCb sc ph k id a b s) := by
  unfold runHandleCb
  split
  · exact BStep.refl _
  · refine BStep.trans ?_ (runCb_bstep _ _ _ _ _ _ _ _ _)
    exact BStep.of_bq (bq_modH _ _ _ (fun _ => rfl))

theorem udpRunCompletedLoop_bstep (sc : Script) (ph : Phase) (id : Nat) (fuel : Nat) (s : State) :
    BStep s (udpRunCompletedLoop sc ph id fuel s) := by
  induction fuel generalizing s with
  | zero => exact BStep.refl _
  | succ n ih =>
    unfold udpRunCompletedLoop
    split
    · exact BStep.refl _
    · split
      · exact BStep.refl _
      · rename_i r st rest _
        refine BStep.trans ?_ (ih _)
        refine BStep.trans ?_ (runCb_bstep _ _ _ _ _ _ _ _ _)
        refine BStep.of_bq (Eq.trans rfl (bq_modH s id (fun h => { h with wcq := rest, sqc := h.sqc - 1 }) ?_))
        intro _; rfl

theorem udpRunCompleted_bstep (sc : Script) (ph : Phase) (id : Nat) (s : State) : BStep s (udpRunCompleted sc ph id s) := by
  unfold udpRunCompleted
  split
  · exact BStep.refl _
  · rename_i h _
    simp only
    have h1 : BStep s (udpRunCompletedLoop sc ph id (h.wcq.length + 1) (modH s id fun h => { h with processing := true })) := by
      refine BStep.trans ?_ (udpRunCompletedLoop_bstep _ _ _ _ _)
      exact BStep.of_bq (bq_modH _ _ _ (fun _ => rfl))
    split
    · exact h1
    · refine BStep.trans ?_ (BStep.of_bq (bq_modH _ _ _ (fun _ => rfl)))
      split
      · split
        · exact h1.frame (by simp)
        · exact h1.frame (by simp)
      · exact h1

theorem udpIo_bstep (sc : Script) (ph : Phase) (id ev : Nat) (s : State) : BStep s (udpIo sc ph id ev s) := by
  unfold udpIo
  split
  · exact BStep.refl _
  · split
    · exact BStep.bq_left (bq_udpSendmsg s id) (udpRunCompleted_bstep _ _ _ _)
    · exact BStep.refl _

theorem udpFinishClose_bstep (sc : Script) (ph : Phase) (id : Nat) (s : State) : BStep s (udpFinishClose sc ph id s) := by
  unfold udpFinishClose
  refine BStep.trans ?_ (udpRunCompleted_bstep _ _ _ _)
  exact BStep.of_bq (bq_modH _ _ _ (fun _ => rfl))

theorem streamIo_bstep (sc : Script) (ph : Phase) (id : Nat) (s : State) : BStep s (streamIo sc ph id s) := by
  unfold streamIo
  split
  · exact BStep.refl _
  · split
    · exact BStep.refl _
    · rename_i r _
      refine BStep.trans ?_ (runCb_bstep _ _ _ _ _ _ _ _ _)
      refine BStep.of_bq ?_
      rw [bq_ioStop]
      refine Eq.trans rfl (bq_modH s id (fun h => { h with connReq := none }) ?_)
      intro _; rfl

theorem streamDestroy_bstep (sc : Script) (id : Nat) (s : State) : BStep s (streamDestroy sc id s) := by
  unfold streamDestroy
  split
  · exact BStep.refl _
  · split
    · exact BStep.refl _
    · rename_i r _
      refine BStep.trans ?_ (BStep.of_bq (bq_modH _ _ _ (fun _ => rfl)))
      exact BStep.bq_left (a' := { s with ar := reqUnregister s.ar, reqs := s.reqs.filter (·.id != r) }) rfl
        (runCb_bstep _ _ _ _ _ _ _ _ _)

theorem pendingIo_bstep (sc : Script) (ph : Phase) (id : Nat) (s : State) : BStep s (pendingIo sc ph id s) := by
  unfold pendingIo
  split
  · exact BStep.refl _
  · split
    · exact udpIo_bstep _ _ _ _ _
    · exact streamIo_bstep _ _ _ _

theorem runPendingLoop_bstep (sc : Script) (ph : Phase) (fuel : Nat) (s : State) : BStep s (runPendingLoop sc ph fuel s) := by
  induction fuel generalizing s with
  | zero => exact BStep.refl _
  | succ n ih =>
    unfold runPendingLoop
    split
    · exact BStep.refl _
    · rename_i id rest _
      exact (BStep.bq_left (a' := { s with pendingLocal := rest }) rfl (pendingIo_bstep _ _ _ _)).trans (ih _)

theorem runPending_bstep (sc : Script) (ph : Phase) (s : State) : BStep s (runPending sc ph s) := by
  unfold runPending
  exact BStep.bq_left (a' := { s with pendingLocal := s.pending, pending := [] }) rfl (runPendingLoop_bstep _ _ _ _)

theorem runWatchersLoop_bstep (sc : Script) (k : WKind) (fuel : Nat) (s : State) : BStep s (runWatchersLoop sc k fuel s) := by
  induction fuel generalizing s with
  | zero => exact BStep.refl _
  | succ n ih =>
    unfold runWatchersLoop
    split
    · exact BStep.refl _
    · rename_i id rest _
      refine BStep.trans ?_ (ih _)
      refine BStep.bq_left (a' := setWList { s with watcherLocal := rest } k (wList { s with watcherLocal := rest } k ++ [id])) ?_
        (runHandleCb_bstep _ _ _ _ _ _ _)
      rw [bq_setWList]; rfl

theorem runWatchers_bstep (sc : Script) (k : WKind) (s : State) : BStep s (runWatchers sc k s) := by
  unfold runWatchers
  refine BStep.bq_left (a' := setWList { s with watcherLocal := wList s k } k []) ?_ (runWatchersLoop_bstep _ _ _ _)
  rw [bq_setWList]; rfl

theorem workDoneLoop_bstep (sc : Script) (fuel : Nat) (s : State) : BStep s (workDoneLoop sc fuel s) := by
  induction fuel generalizing s with
  | zero => exact BStep.refl _
  | succ n ih =>
    unfold workDoneLoop
    split
    · exact BStep.refl _
    · rename_i r c rest _
      refine BStep.trans ?_ (ih _)
      exact BStep.bq_left (a' := { s with doneLocal := rest, ar := reqUnregister s.ar, reqs := s.reqs.filter (·.id != r) }) rfl
        (runCb_bstep _ _ _ _ _ _ _ _ _)

theorem ringDone_bstep (sc : Script) (cq : List Nat) (s : State) : BStep s (ringDone sc cq s) := by
  unfold ringDone
  exact (BStep.of_bq (ringTake_frame bq (fun _ _ _ => rfl) s cq)).trans (workDoneLoop_bstep _ _ _)

theorem workDone_bstep (sc : Script) (s : State) : BStep s (workDone sc s) := by
  unfold workDone
  exact BStep.bq_left (a' := { s with doneLocal := s.doneQ, doneQ := [] }) rfl (workDoneLoop_bstep _ _ _)

theorem asyncIoLoop_bstep (sc : Script) (fuel : Nat) (s : State) : BStep s (asyncIoLoop sc fuel s) := by
  induction fuel generalizing s with
  | zero => exact BStep.refl _
  | succ n ih =>
    unfold asyncIoLoop
    split
    · exact BStep.refl _
    · rename_i id rest _
      have h0 : BStep s { s with asyncLocal := rest, asyncs := s.asyncs ++ [id] } := BStep.of_bq rfl
      simp only
      split
      · exact h0.trans (ih _)
      · split
        · exact h0.trans (ih _)
        · refine BStep.trans ?_ (ih _)
          have h1 : BStep s (modH { s with asyncLocal := rest, asyncs := s.asyncs ++ [id] } id fun h => { h with pending := false }) :=
            h0.trans (BStep.of_bq (bq_modH _ _ _ (fun _ => rfl)))
          split
          · exact h1.trans (workDone_bstep _ _)
          · exact h1.trans (runHandleCb_bstep _ _ _ _ _ _ _)

theorem asyncIo_bstep (sc : Script) (s : State) : BStep s (asyncIo sc s) := by
  unfold asyncIo
  exact BStep.bq_left (a' := { s with asyncLocal := s.asyncs, asyncs := [] }) rfl (asyncIoLoop_bstep _ _ _)

theorem pollIo_bstep (sc : Script) (id ev : Nat) (s : State) : BStep s (pollIo sc id ev s) := by
  unfold pollIo
  split
  · exact BStep.bq_left (a' := hStop (ioStop s (.h id) POLLALL) id) (by simp) (runHandleCb_bstep _ _ _ _ _ _ _)
  · exact runHandleCb_bstep _ _ _ _ _ _ _

theorem dispatchLoop_bstep (sc : Script) (fuel : Nat) (s : State) (n : Nat) (sg : Bool) :
    BStep s (dispatchLoop sc fuel s n sg).1 := by
  induction fuel generalizing s n sg with
  | zero => exact BStep.refl _
  | succ m ih =>
    unfold dispatchLoop
    split
    · exact BStep.refl _
    · rename_i o ev rest _
      have h0 : BStep s { s with batch := rest } := BStep.of_bq rfl
      simp only
      split
      · exact h0.trans (ih _ _ _)
      · split
        · exact h0.trans (ih _ _ _)
        · exact h0.trans (ih _ _ _)
      · split
        · exact h0.trans (ih _ _ _)
        · exact h0.trans (ih _ _ _)
      · split
        · exact h0.trans (ih _ _ _)
        · exact (h0.trans (asyncIo_bstep _ _)).trans (ih _ _ _)
      · split
        · exact h0.trans (ih _ _ _)
        · split
          · exact h0.trans (ih _ _ _)
          · refine BStep.trans ?_ (ih _ _ _)
            split
            · exact h0.trans (pollIo_bstep _ _ _ _)
            · exact h0.trans (udpIo_bstep _ _ _ _ _)
            · exact h0
      · split
        · exact (h0.trans (ringDone_bstep _ _ _)).trans (ih _ _ _)
        · exact h0.trans (ih _ _ _)

theorem pollLoop_bstep (sc : Script) (fuel : Nat) (s : State) (c : PollCtl) : BStep s (pollLoop sc fuel s c) := by
  induction fuel generalizing s c with
  | zero => exact BStep.refl _
  | succ m ih =>
    unfold pollLoop
    split
    · exact BStep.of_bq rfl
    · rename_i r rest _
      have h1 : ∀ e, BStep s (emit { completeWorks { s with oracle := rest } r.done with clock := r.clock } e) := by
        intro e
        refine BStep.of_bq ?_
        rw [bq_emit]
        exact (bq_completeWorks { s with oracle := rest } r.done : _)
      have h2 : ∀ e, BStep s (updateTime (emit { completeWorks { s with oracle := rest } r.done with clock := r.clock } e)) :=
        fun e => (h1 e).frame (bq_updateTime _)
      simp only
      split
      · exact (h1 _).frame rfl
      · split
        · split
          · split
            · exact h2 _
            · exact (h2 _).trans (ih _ _)
          · split
            · exact h2 _
            · split
              · exact h2 _
              · exact (h2 _).trans (ih _ _)
        · generalize hd : dispatchLoop sc (r.batch.length + 1) _ 0 false = d
          have h3 : BStep s d.1 := by
            rw [← hd]
            refine BStep.trans ?_ (dispatchLoop_bstep _ _ _ _ _)
            exact (h2 _).trans (BStep.of_bq rfl)
          have h5 : BStep s { d.1 with batch := [] } := h3.frame rfl
          repeat' split
          all_goals first | exact h5 | exact h5.trans (ih _ _)

theorem ioPoll_bstep (sc : Script) (s : State) (t : Int) : BStep s (ioPoll sc s t) := by
  unfold ioPoll
  exact BStep.bq_left (bq_flushWatchers s) (pollLoop_bstep _ _ _ _)

theorem collectTimers_bstep (fuel : Nat) (s : State) : BStep s (collectTimers fuel s) := by
  induction fuel generalizing s with
  | zero => exact BStep.refl _
  | succ n ih =>
    unfold collectTimers
    split
    · exact BStep.refl _
    · split
      · exact BStep.refl _
      · rename_i e _ _
        refine BStep.trans ?_ (ih _)
        exact (BStep.of_bq (bq_timerStop s e.id)).frame rfl

theorem fireTimers_bstep (sc : Script) (ph : Phase) (fuel : Nat) (s : State) : BStep s (fireTimers sc ph fuel s) := by
  induction fuel generalizing s with
  | zero => exact BStep.refl _
  | succ n ih =>
    unfold fireTimers
    split
    · exact BStep.refl _
    · rename_i id rest _
      refine BStep.trans ?_ (ih _)
      refine BStep.bq_left (a' := (timerAgain { s with tm := { s.tm with ready := rest } } id).1) ?_ (runHandleCb_bstep _ _ _ _ _ _ _)
      rw [bq_timerAgain]; rfl

theorem runTimers_bstep (sc : Script) (ph : Phase) (s : State) : BStep s (runTimers sc ph s) := by
  unfold runTimers
  exact (collectTimers_bstep _ _).trans (fireTimers_bstep _ _ _ _)

theorem pendingRounds_bstep (sc : Script) (n : Nat) (s : State) : BStep s (pendingRounds sc n s) := by
  induction n generalizing s with
  | zero => exact BStep.refl _
  | succ m ih =>
    unfold pendingRounds
    split
    · exact BStep.refl _
    · exact (runPending_bstep _ _ _).trans (ih _)

/-! ### the closing phase -/
theorem getH_none_not_mem {s : State} {id : Nat} (h : getH s id = none) : id ∉ s.handles.map (·.id) := by
  intro hm
  obtain ⟨x, hx, hxi⟩ := List.mem_map.mp hm
  have := List.find?_eq_none.mp h x hx
  simp [hxi] at this

theorem lookF_none_keys {fl : List (Nat × HFlags)} {id : Nat} (h : lookF fl id = none) : id ∉ fl.map (·.1) := by
  induction fl with
  | nil => simp
  | cons e t ih =>
    by_cases he : (e.1 == id) = true
    · simp [lookF, he] at h
    · have he' : (e.1 == id) = false := by simpa using he
      simp only [lookF, he', Bool.false_eq_true, if_false] at h
      simp only [List.map_cons, List.mem_cons, not_or]
      exact ⟨by simp at he'; omega, ih h⟩

theorem fg_setClosed (f : HFlags) (ah : Int) : fg (ofHK (setClosed (toHK f ah))) = (false, true) := by
  rcases f with ⟨a, r, c, d, i⟩; simp [setClosed, toHK, ofHK, fg, cflag]

/-- `uv__finish_close` of the head `id` of the detached chain -/
theorem finishClose_b (sc : Script) (id : Nat) (s0 : State) (rest : List Nat) (h0 : s0.closingLocal = id :: rest)
    (hi : BInv s0) :
    BInv (finishClose sc id { s0 with closingLocal := rest }) ∧
    (finishClose sc id { s0 with closingLocal := rest }).closingLocal = rest := by
  obtain ⟨i1, i2, i3, i4, i5, i6⟩ := hi
  simp only [bq, h0] at i1 i2 i3 i4 i5 i6
  generalize hs : ({ s0 with closingLocal := rest } : State) = s
  have e1 : s.c = s0.c := by subst hs; rfl
  have e2 : s.nextId = s0.nextId := by subst hs; rfl
  have e3 : s.handles = s0.handles := by subst hs; rfl
  have e4 : s.closing = s0.closing := by subst hs; rfl
  have e5 : s.closingLocal = rest := by subst hs; rfl
  -- `id` is queued exactly once and its entry is CLOSING ∧ ¬CLOSED
  have hn5 : id ∉ rest ++ s0.closing ∧ (rest ++ s0.closing).Nodup := by
    simpa only [List.cons_append, List.nodup_cons] using i5
  have hid : (id, true, false) ∈ fm s0.c.fl := i6 id (by simp)
  have hx : ∀ e ∈ fm s0.c.fl, e.2.1 = true → e.1 ≠ id → e.1 ∈ rest ++ s0.closing := by
    intro e he ht hne
    have := i4 e he ht
    simp only [List.cons_append, List.mem_cons] at this
    rcases this with h | h
    · exact absurd h hne
    · exact h
  have h6' : ∀ j ∈ rest ++ s0.closing, (j, true, false) ∈ fm s0.c.fl ∧ j ≠ id := by
    intro j hj
    refine ⟨i6 j (by simp only [List.cons_append, List.mem_cons]; exact Or.inr hj), ?_⟩
    intro heq; exact hn5.1 (heq ▸ hj)
  -- the record exists
  have hhid : id ∈ s0.handles.map (·.id) := i3 id (List.mem_map.mpr ⟨_, hid, rfl⟩)
  unfold finishClose
  split
  · rename_i hg
    exact absurd (e3 ▸ hhid) (getH_none_not_mem hg)
  · rename_i h hg
    simp only
    -- flags of `id`
    obtain ⟨f, hl⟩ : ∃ f, lookF s0.c.fl id = some f := by
      cases hl : lookF s0.c.fl id with
      | some f => exact ⟨f, rfl⟩
      | none =>
        exfalso
        apply lookF_none_keys hl
        rw [← keys_fm]
        exact List.mem_map.mpr ⟨_, hid, rfl⟩
    have hfl : (s.c.apply id setClosed).fl = updF s0.c.fl id (ofHK (setClosed (toHK f s0.c.ah))) := by
      rw [e1]; unfold Core.apply
      have : s0.c.get id = some f := hl
      simp only [this]
    have hk : (fm (s.c.apply id setClosed).fl).map (·.1) = (fm s0.c.fl).map (·.1) := by
      rw [hfl]; simp only [keys_fm, keys_updF]
    have hmem : (id, false, true) ∈ fm (s.c.apply id setClosed).fl := by
      rw [hfl]
      have := fm_updF_mem (f' := ofHK (setClosed (toHK f s0.c.ah))) hl
      rw [fg_setClosed] at this
      exact this
    -- after `flags |= UV_HANDLE_CLOSED`
    have b1 : BInv (withKernel s id setClosed) := by
      refine ⟨by simp only [bq, withKernel]; rw [hk]; exact i1, by simp only [bq, withKernel]; rw [hk, e2]; exact i2,
        by simp only [bq, withKernel]; rw [hk, e3]; exact i3, ?_, ?_, ?_⟩
      · intro e he ht
        simp only [bq, withKernel, e4, e5] at he ⊢
        have hn1 : ((fm (s.c.apply id setClosed).fl).map (·.1)).Nodup := by rw [hk]; exact i1
        have hne : e.1 ≠ id := by
          intro heq
          have := nodup_keys_inj hn1 he hmem heq
          rw [this] at ht; cases ht
        rw [hfl] at he
        rcases mem_fm_updF he with h | h
        · exact hx e h ht hne
        · rw [h] at hne; exact absurd rfl hne
      · simp only [bq, withKernel, e4, e5]; exact hn5.2
      · intro j hj
        simp only [bq, withKernel, e4, e5] at hj ⊢
        rw [hfl]
        exact mem_fm_updF_ne (h6' j hj).1 (h6' j hj).2
    have c1 : (withKernel s id setClosed).closingLocal = rest := e5
    generalize hs2 : (if h.kind == .udp then udpFinishClose sc .closing id (withKernel s id setClosed)
        else if h.kind == .pipe || h.kind == .tcp then streamDestroy sc id (withKernel s id setClosed)
        else withKernel s id setClosed) = s2
    have st2 : BStep (withKernel s id setClosed) s2 := by
      rw [← hs2]
      split
      · exact udpFinishClose_bstep _ _ _ _
      · split
        · exact streamDestroy_bstep _ _ _
        · exact BStep.refl _
    have st3 : BStep (withKernel s id setClosed) (withKernel s2 id handleUnref) :=
      st2.trans (BStep.of_bq (bq_withKernel _ _ _ kflag_unref))
    have b2 : BInv (withKernel s2 id handleUnref) := st3.inv b1
    have c2 : (withKernel s2 id handleUnref).closingLocal = rest := st3.cl.trans c1
    have m2 : (id, false, true) ∈ fm (withKernel s2 id handleUnref).c.fl := st3.closed b1 hmem
    generalize withKernel s2 id handleUnref = s3 at b2 c2 m2
    split
    · exact ⟨b2, c2⟩
    · have st4 := runCb_bstep sc .closing .close (.c id) id (flagBits ‹HFlags›) 0 0
        { s3 with c := s3.c.remove id, handles := s3.handles.filter (·.id != id) }
      refine ⟨st4.inv ?_, st4.cl.trans c2⟩
      obtain ⟨j1, j2, j3, j4, j5, j6⟩ := b2
      simp only [bq] at j1 j2 j3 j4 j5 j6
      have hsub : ((fm (eraseF s3.c.fl id)).map (·.1)).Sublist ((fm s3.c.fl).map (·.1)) := by
        rw [keys_fm, keys_fm]; exact keys_eraseF_sub _ _
      refine ⟨?_, ?_, ?_, ?_, j5, ?_⟩
      · exact List.Sublist.nodup hsub j1
      · intro a ha; exact j2 a (hsub.subset ha)
      · intro a ha
        show a ∈ (s3.handles.filter (·.id != id)).map (·.id)
        obtain ⟨p, hp, hpa⟩ := List.mem_map.mp ha
        have hne := (mem_fm_eraseF (by rw [← keys_fm]; exact j1) hp).2
        obtain ⟨x, hx1, hx2⟩ := List.mem_map.mp (j3 a (hsub.subset ha))
        refine List.mem_map.mpr ⟨x, List.mem_filter.mpr ⟨hx1, ?_⟩, hx2⟩
        rw [← hpa] at hx2
        simp [hx2, hne]
      · intro e he ht
        exact j4 e (mem_fm_eraseF (by rw [← keys_fm]; exact j1) he).1 ht
      · intro j hj
        refine mem_fm_eraseF_ne (j6 j hj) ?_
        intro heq
        have := nodup_keys_inj j1 (j6 j hj) m2 heq
        simp at this

theorem runClosingLoop_b (sc : Script) (fuel : Nat) (s : State) (hi : BInv s) :
    BInv (runClosingLoop sc fuel s) ∧ (s.closingLocal.length ≤ fuel → (runClosingLoop sc fuel s).closingLocal = []) := by
  induction fuel generalizing s with
  | zero =>
    refine ⟨hi, ?_⟩
    intro hl
    exact List.eq_nil_of_length_eq_zero (Nat.le_zero.mp hl)
  | succ n ih =>
    unfold runClosingLoop
    split
    · rename_i hc
      exact ⟨hi, fun _ => hc⟩
    · rename_i id rest hc
      have hf := finishClose_b sc id s rest hc hi
      have := ih _ hf.1
      refine ⟨this.1, ?_⟩
      intro hl
      apply this.2
      rw [hf.2]
      simp only [hc, List.length_cons] at hl
      omega

/-- boundary invariant: `BInv` and nothing detached -/
def BB (s : State) : Prop := BInv s ∧ s.closingLocal = []

theorem BStep.bb {s s' : State} (h : BStep s s') (hb : BB s) : BB s' := ⟨h.inv hb.1, h.cl.trans hb.2⟩

theorem runClosing_bb (sc : Script) (s : State) (hb : BB s) : BB (runClosing sc s) := by
  unfold runClosing
  obtain ⟨⟨i1, i2, i3, i4, i5, i6⟩, hl⟩ := hb
  simp only [bq, hl, List.nil_append] at i4 i5 i6
  have h1 : BInv { s with closingLocal := s.closing, closing := [] } := by
    refine ⟨i1, i2, i3, ?_, ?_, ?_⟩
    · intro e he ht
      simp only [bq, List.append_nil]
      exact i4 e he ht
    · simp only [bq, List.append_nil]; exact i5
    · intro j hj
      simp only [bq, List.append_nil] at hj
      exact i6 j hj
  have := runClosingLoop_b sc (s.closing.length + 1) _ h1
  exact ⟨this.1, this.2 (Nat.le_succ _)⟩

theorem iteration_bb (sc : Script) (mode : Mode) (s : State) (hb : BB s) : BB (iteration sc mode s) := by
  unfold iteration
  simp only
  refine (runTimers_bstep _ _ _).bb ?_
  refine (BStep.of_bq (bq_updateTime _)).bb ?_
  apply runClosing_bb
  refine (runWatchers_bstep _ _ _).bb ?_
  refine (pendingRounds_bstep _ _ _).bb ?_
  refine (ioPoll_bstep _ _ _).bb ?_
  have : BB (runWatchers sc .prepare (runWatchers sc .idle (runPending sc .pending (emit s .iterBegin)))) := by
    refine (runWatchers_bstep _ _ _).bb ?_
    refine (runWatchers_bstep _ _ _).bb ?_
    refine (runPending_bstep _ _ _).bb ?_
    exact (BStep.of_bq (bq_emit _ _)).bb hb
  exact (BStep.of_bq (s := runWatchers sc .prepare _) rfl).bb this

theorem runLoop_bb (sc : Script) (mode : Mode) (fuel : Nat) (s : State) (r : Bool) (hb : BB s) :
    ∀ s' r', runLoop sc mode fuel s r = some (s', r') → BB s' := by
  induction fuel generalizing s r with
  | zero => intro s' r' h; simp [runLoop] at h
  | succ n ih =>
    intro s' r' h
    unfold runLoop at h
    split at h
    · cases h; exact hb
    · simp only at h
      split at h
      · cases h; exact iteration_bb _ _ _ hb
      · exact ih _ _ (iteration_bb _ _ _ hb) _ _ h

theorem uvRun_bb (sc : Script) (mode : Mode) (fuel : Nat) (s : State) (hb : BB s) :
    ∀ s' r, uvRun sc mode fuel s = some (s', r) → BB s' := by
  intro s' r h
  unfold uvRun at h
  simp only at h
  have h0 : BB (if !alive s then updateTime s else s) := by
    split
    · exact (BStep.of_bq (bq_updateTime _)).bb hb
    · exact hb
  generalize (if !alive s then updateTime s else s) = s0 at h h0
  have h1 : BB (if initialTimers mode (alive s) s0.stop then runTimers sc .timers0 (updateTime s0) else s0) := by
    split
    · exact (runTimers_bstep _ _ _).bb ((BStep.of_bq (bq_updateTime _)).bb h0)
    · exact h0
  generalize (if initialTimers mode (alive s) s0.stop then runTimers sc .timers0 (updateTime s0) else s0) = s1 at h h1
  cases hr : runLoop sc mode fuel s1 (alive s) with
  | none => simp [hr] at h
  | some p =>
    simp only [hr, Option.some.injEq, Prod.mk.injEq] at h
    have := runLoop_bb sc mode fuel s1 (alive s) h1 p.1 p.2 (by simp [hr])
    rw [← h.1]
    exact (BStep.of_bq (s := p.1) rfl).bb this

theorem stepMain_bb (sc : Script) (fuel : Nat) (s : State) (m : MainOp) (hb : BB s) : BB (stepMain sc fuel s m) := by
  cases m with
  | op o =>
    simp only [stepMain]
    split
    · exact hb
    · exact (stepOp_bstep _ _).bb hb
  | run md =>
    simp only [stepMain]
    split
    · exact hb
    · have h0 : BB (emit s (.runBegin md)) := (BStep.of_bq (bq_emit _ _)).bb hb
      split
      · exact (BStep.of_bq (s := emit s (.runBegin md)) rfl).bb h0
      · rename_i s' r heq
        refine (BStep.of_bq (by simp)).bb (uvRun_bb _ _ _ _ h0 _ _ heq)
  | loopClose =>
    simp only [stepMain]
    split
    · exact hb
    · have : bq (loopClose s).1 = bq s := by
        unfold loopClose; split <;> rfl
      have h1 : BB (loopClose s).1 := (BStep.of_bq this).bb hb
      split
      · exact (BStep.of_bq (by simp)).bb h1
      · exact (BStep.of_bq (by simp)).bb h1

theorem runMain_bb (sc : Script) (fuel : Nat) (prog : List MainOp) (s : State) (hb : BB s) : BB (runMain sc fuel s prog) := by
  unfold runMain
  induction prog generalizing s with
  | nil => exact hb
  | cons m t ih => exact ih _ (stepMain_bb _ _ _ _ hb)

theorem initLoop_bb (clock0 : Nat) (metrics : Bool) (oracle : List PollRes) : BB (initLoop clock0 metrics oracle) := by
  unfold initLoop
  simp only
  have h0 : BB ({ clock := clock0, metrics := metrics, oracle := oracle } : State) := by
    refine ⟨⟨List.nodup_nil, ?_, ?_, ?_, List.nodup_nil, ?_⟩, rfl⟩
    · intro a h; simp [bq, fm] at h
    · intro a h; simp [bq, fm] at h
    · intro a h; simp [bq, fm] at h
    · intro a h; simp [bq] at h
  have hA : ∀ (s : State) io, BB s → BB (ioStart { s with wSignal := io } .signal POLLIN) :=
    fun s io h => (BStep.of_bq (s := s) (by rw [bq_ioStart]; rfl)).bb h
  have hB : ∀ (s : State) io, BB s → BB (ioStart { s with wAsync := io } .async POLLIN) :=
    fun s io h => (BStep.of_bq (s := s) (by rw [bq_ioStart]; rfl)).bb h
  have hU : ∀ (s : State) id, BB s → BB (withKernel s id handleUnref) :=
    fun s id h => (BStep.of_bq (bq_withKernel _ _ _ kflag_unref)).bb h
  have hI : ∀ (s : State) id, BB s → BB (withKernel s id setInternal) :=
    fun s id h => (BStep.of_bq (bq_withKernel _ _ _ kflag_internal)).bb h
  exact hI _ _ (hU _ _ ((initH_bstep _ _).bb (hB _ _ (hI _ _ (hU _ _ ((addHandle_bstep _ _).bb (hA _ _
    ((BStep.of_bq (bq_updateTime _)).bb h0))))))))

/-- at every API boundary of `main`: nothing is detached, and `closing_handles` holds exactly the handles that
    are CLOSING and not yet CLOSED, each once -/
theorem closing_queued (sc : Script) (fuel clock0 : Nat) (metrics : Bool) (oracle : List PollRes) (prog : List MainOp) :
    let s := runMain sc fuel (initLoop clock0 metrics oracle) prog
    s.closingLocal = [] ∧ s.closing.Nodup ∧
    (∀ e ∈ s.c.fl, e.2.closing = true → e.2.closed = false → e.1 ∈ s.closing) ∧
    (∀ id ∈ s.closing, ∃ e ∈ s.c.fl, e.1 = id ∧ e.2.closing = true ∧ e.2.closed = false) := by
  intro s
  obtain ⟨⟨_, _, _, i4, i5, i6⟩, hl⟩ := runMain_bb sc fuel prog _ (initLoop_bb clock0 metrics oracle)
  simp only [bq, hl, List.nil_append] at i4 i5 i6
  refine ⟨hl, i5, ?_, ?_⟩
  · intro e he h1 h2
    exact i4 (e.1, fg e.2) (List.mem_map.mpr ⟨e, he, rfl⟩) (by simp [fg, cflag, h1, h2])
  · intro id hid
    obtain ⟨e, he, heq⟩ := List.mem_map.mp (i6 id hid)
    simp only [fg, cflag, Prod.mk.injEq, Bool.and_eq_true, Bool.not_eq_true'] at heq
    exact ⟨e, he, heq.1, heq.2.1.1, heq.2.2⟩

end UvModel.Loop.Reqs
