import UvModel.FdOps
/-!
# C15 — every catalogue operation keeps the ledger clean

`Clean s`: every open descriptor is held by the caller, by the once-per-process lock pipe, by a field
of an initialised loop, or by a slot of a *live* handle of a kind that has that slot; in particular no
local variable of a finished operation (`temp`) and no orphan (`leaked`) is left behind.
Proved here: `step` preserves `Clean` for every operation and every injected failure schedule.
-/
namespace UvModel.FdLedger

/-- some open descriptor is owned by `o` -/
def Own (l : Ledger) (o : Owner) : Prop := ∃ e ∈ l.led, e.owner = o

/-- kind of a live handle -/
def kindOf (hs : List H) (h : Nat) : Option HKind :=
  match hs[h]? with
  | some x => if x.st = .live then some x.kind else none
  | none => none

/-- which handle kinds have which descriptor slots (streams: io, accepted, queued; udp: io) -/
def slotOk (k : HKind) : Slot → Bool
  | .io => isStream k || k == .udp
  | _ => isStream k

def okO (s : St) : Owner → Prop
  | .user => True
  | .glob _ => s.lockDone = true
  | .loop _ => s.loopOk = true
  | .handle h sl => ∃ k, kindOf s.hs h = some k ∧ slotOk k sl = true
  | .temp _ => False
  | .leaked => False

/-- clean up to a set `X` of owners that are allowed temporarily (inside an operation) -/
def CleanX (X : Owner → Prop) (s : St) : Prop := ∀ o, Own s.l.1 o → okO s o ∨ X o

def Clean (s : St) : Prop := ∀ o, Own s.l.1 o → okO s o

theorem clean_iff (s : St) : Clean s ↔ CleanX (fun _ => False) s :=
  ⟨fun h o ho => Or.inl (h o ho), fun h o ho => (h o ho).elim id False.elim⟩

theorem CleanX.weaken {X Y : Owner → Prop} {s : St} (h : CleanX X s) (hxy : ∀ o, X o → okO s o ∨ Y o) : CleanX Y s :=
  fun o ho => (h o ho).elim Or.inl (hxy o)

theorem CleanX.absent {X : Owner → Prop} {s : St} (h : CleanX X s) {o : Owner} (h1 : ¬ okO s o) (h2 : ¬ X o) :
    ¬ Own s.l.1 o := fun ho => (h o ho).elim h1 h2

/-! ### what each primitive does to the set of owners -/

def Prim.harmless : Prim → Bool
  | .createGive _ _ | .userCreate _ _ | .closeOwner _ _ | .closeUser _ | .userClose _ | .userCloseAll | .closeQ _ | .say _ => true
  | _ => false

theorem own_harmless {l : Ledger} {p : Prim} (hp : p.harmless = true) {o : Owner} (h : Own (exec1 l p) o) :
    Own l o ∨ o = .user := by
  obtain ⟨e, he, rfl⟩ := h
  unfold exec1 at he
  split at he
  · cases p with
    | create _ _ _ => simp [Prim.harmless] at hp
    | transfer _ _ => simp [Prim.harmless] at hp
    | adopt _ _ => simp [Prim.harmless] at hp
    | createGive site kind =>
      simp only [exec1raw, List.mem_append, List.mem_singleton] at he
      rcases he with he | rfl
      · exact Or.inl ⟨e, he, rfl⟩
      · exact Or.inr rfl
    | userCreate kind stdio =>
      simp only [exec1raw, List.mem_append, List.mem_singleton] at he
      rcases he with he | rfl
      · exact Or.inl ⟨e, he, rfl⟩
      · exact Or.inr rfl
    | closeOwner o g =>
      simp only [exec1raw] at he
      split at he
      · exact Or.inl ⟨e, he, rfl⟩
      · split at he
        · obtain ⟨e0, h0, _, _, _, _, _, ho⟩ := mem_setOwner he
          rcases ho with ⟨_, ho⟩ | ⟨_, ho⟩
          · exact Or.inl ⟨e0, h0, ho.symm⟩
          · exact Or.inr ho
        · exact Or.inl ⟨e, (List.mem_filter.mp he).1, rfl⟩
    | closeUser id =>
      simp only [exec1raw] at he
      split at he
      · exact Or.inl ⟨e, he, rfl⟩
      · split at he
        · exact Or.inl ⟨e, (List.mem_filter.mp he).1, rfl⟩
        · exact Or.inl ⟨e, he, rfl⟩
    | userClose id =>
      simp only [exec1raw] at he
      split at he
      · exact Or.inl ⟨e, he, rfl⟩
      · split at he
        · exact Or.inl ⟨e, (List.mem_filter.mp he).1, rfl⟩
        · exact Or.inl ⟨e, he, rfl⟩
    | userCloseAll =>
      simp only [exec1raw] at he
      exact Or.inl ⟨e, (List.mem_filter.mp he).1, rfl⟩
    | closeQ h =>
      simp only [exec1raw] at he
      exact Or.inl ⟨e, (List.mem_filter.mp he).1, rfl⟩
    | say line => exact Or.inl ⟨e, he, rfl⟩
  · exact Or.inl ⟨e, he, rfl⟩

theorem own_create {l : Ledger} {site : Site} {kind : Kind} {o o' : Owner} (h : Own (exec1 l (.create site kind o)) o') :
    o' = o ∨ Own l o' ∨ (o' = .leaked ∧ Own l o) := by
  obtain ⟨e, he, rfl⟩ := h
  simp only [exec1, Prim.ok, if_true, exec1raw, List.mem_append, List.mem_singleton] at he
  rcases he with he | rfl
  · obtain ⟨e0, h0, _, _, _, _, _, ho⟩ := mem_displace he
    rcases ho with ho | ⟨ho, ho0, _⟩
    · exact Or.inr (Or.inl ⟨e0, h0, ho.symm⟩)
    · exact Or.inr (Or.inr ⟨ho, e0, h0, ho0⟩)
  · exact Or.inl rfl

theorem own_move {l : Ledger} {led' : List Entry} {id : Nat} {dst o' : Owner}
    (h : ∃ e ∈ setOwner (displace l.led dst) id dst, e.owner = o') :
    Own l o' ∨ o' = dst ∨ (o' = .leaked ∧ Own l dst ∧ dst.unique = true) := by
  obtain ⟨e, he, rfl⟩ := h
  obtain ⟨e1, h1, _, _, _, _, _, ho⟩ := mem_setOwner he
  rcases ho with ⟨_, ho⟩ | ⟨_, ho⟩
  · obtain ⟨e0, h0, _, _, _, _, _, ho0⟩ := mem_displace h1
    rcases ho0 with ho0 | ⟨ho0, ho1, hu⟩
    · exact Or.inl ⟨e0, h0, by rw [ho, ho0]⟩
    · exact Or.inr (Or.inr ⟨by rw [ho, ho0], ⟨e0, h0, ho1⟩, hu⟩)
  · exact Or.inr (Or.inl ho)

theorem own_transfer {l : Ledger} {src dst o' : Owner} (h : Own (exec1 l (.transfer src dst)) o') :
    Own l o' ∨ o' = dst ∨ (o' = .leaked ∧ Own l dst ∧ dst.unique = true) := by
  unfold exec1 at h
  split at h
  · simp only [exec1raw] at h
    split at h
    · exact Or.inl h
    · exact own_move (led' := []) h
  · exact Or.inl h

theorem own_adopt {l : Ledger} {id : Nat} {dst o' : Owner} (h : Own (exec1 l (.adopt id dst)) o') :
    Own l o' ∨ o' = dst ∨ (o' = .leaked ∧ Own l dst ∧ dst.unique = true) := by
  unfold exec1 at h
  split at h
  · simp only [exec1raw] at h
    split at h
    · exact Or.inl h
    · split at h
      · exact own_move (led' := []) h
      · exact Or.inl h
  · exact Or.inl h

theorem notown_closeOwner {l : Ledger} (hl : LInv l) {o : Owner} {g : Bool} (hok : (Prim.closeOwner o g).ok = true)
    (hu : o.unique = true) : ¬ Own (exec1 l (.closeOwner o g)) o := by
  rintro ⟨e, he, ho⟩
  unfold exec1 at he
  rw [if_pos hok] at he
  simp only [exec1raw] at he
  split at he
  · rename_i hf
    have := List.find?_eq_none.mp hf e he
    simp [ho] at this
  · rename_i em hf
    obtain ⟨hem, hoe⟩ := find?_owner hf
    split at he
    · obtain ⟨e0, h0, hid, _, _, _, _, hoo⟩ := mem_setOwner he
      rcases hoo with ⟨hne, hoo⟩ | ⟨_, hoo⟩
      · exact hne (hl.uniq e0 h0 em hem (by rw [← hoo, ho, hoe]) (by rw [← hoo, ho]; exact hu))
      · rw [ho] at hoo; subst hoo; simp [Prim.ok, Owner.libuv] at hok
    · have hm := List.mem_filter.mp he
      have : e.id = em.id := hl.uniq e hm.1 em hem (by rw [ho, hoe]) (by rw [ho]; exact hu)
      simp [this] at hm

theorem notown_transfer {l : Ledger} (hl : LInv l) {src dst : Owner} (hok : (Prim.transfer src dst).ok = true)
    (hu : src.unique = true) (hne : src ≠ dst) : ¬ Own (exec1 l (.transfer src dst)) src := by
  rintro ⟨e, he, ho⟩
  unfold exec1 at he
  rw [if_pos hok] at he
  simp only [exec1raw] at he
  split at he
  · rename_i hf
    have := List.find?_eq_none.mp hf e he
    simp [ho] at this
  · rename_i em hf
    obtain ⟨hem, hoe⟩ := find?_owner hf
    obtain ⟨e1, h1, _, _, _, _, _, hoo⟩ := mem_setOwner he
    rcases hoo with ⟨hid, hoo⟩ | ⟨_, hoo⟩
    · obtain ⟨e0, h0, hid0, _, _, _, _, ho0⟩ := mem_displace h1
      rcases ho0 with ho0 | ⟨ho0, _, _⟩
      · have h3 : e0.owner = src := by rw [← ho0, ← hoo, ho]
        exact hid (by rw [hid0]; exact hl.uniq e0 h0 em hem (by rw [h3, hoe]) (by rw [h3]; exact hu))
      · rw [hoo, ho0] at ho
        subst ho
        simp [Prim.ok] at hok
    · exact hne (by rw [← ho, hoo])

theorem notown_closeQ {l : Ledger} {h : Nat} : ¬ Own (exec1 l (.closeQ h)) (.handle h .q) := by
  rintro ⟨e, he, ho⟩
  simp only [exec1, Prim.ok, if_true, exec1raw] at he
  have := (List.mem_filter.mp he).2
  simp [ho] at this

/-! ### state-level bookkeeping -/

theorem has_iff {s : St} {o : Owner} : s.has o = true ↔ Own s.l.1 o := by
  unfold St.has find? Own
  rw [List.find?_isSome]
  simp

theorem not_has_iff {s : St} {o : Owner} : s.has o = false ↔ ¬ Own s.l.1 o := by
  rw [← has_iff]; simp

theorem run_nil (s : St) : s.run [] = s := rfl
theorem run_cons (s : St) (p : Prim) (ps : List Prim) : s.run (p :: ps) = (s.run [p]).run ps := rfl
theorem run_append (s : St) (ps qs : List Prim) : s.run (ps ++ qs) = (s.run ps).run qs := by
  induction ps generalizing s with
  | nil => rfl
  | cons p ps ih => exact ih (s.run [p])

@[simp] theorem run_hs (s : St) (ps : List Prim) : (s.run ps).hs = s.hs := rfl
@[simp] theorem run_loopOk (s : St) (ps : List Prim) : (s.run ps).loopOk = s.loopOk := rfl
@[simp] theorem run_lockDone (s : St) (ps : List Prim) : (s.run ps).lockDone = s.lockDone := rfl
@[simp] theorem run_cnt (s : St) (ps : List Prim) : (s.run ps).cnt = s.cnt := rfl
@[simp] theorem run1_l (s : St) (p : Prim) : (s.run [p]).l.1 = exec1 s.l.1 p := rfl
theorem run_l (s : St) (ps : List Prim) : (s.run ps).l.1 = exec s.l.1 ps := rfl
@[simp] theorem say_led (s : St) (x : String) : (s.say x).l.1.led = s.l.1.led := by
  simp [St.say, exec1, Prim.ok, exec1raw]
@[simp] theorem say_hs (s : St) (x : String) : (s.say x).hs = s.hs := rfl
@[simp] theorem say_loopOk (s : St) (x : String) : (s.say x).loopOk = s.loopOk := rfl
@[simp] theorem say_lockDone (s : St) (x : String) : (s.say x).lockDone = s.lockDone := rfl
@[simp] theorem tick_led (s : St) (inj : Inj) (n : String) : (s.tick inj n).l.1.led = s.l.1.led := by
  unfold St.tick; split <;> simp
@[simp] theorem tick_hs (s : St) (inj : Inj) (n : String) : (s.tick inj n).hs = s.hs := by
  unfold St.tick; split <;> simp
@[simp] theorem tick_loopOk (s : St) (inj : Inj) (n : String) : (s.tick inj n).loopOk = s.loopOk := by
  unfold St.tick; split <;> simp
@[simp] theorem tick_lockDone (s : St) (inj : Inj) (n : String) : (s.tick inj n).lockDone = s.lockDone := by
  unfold St.tick; split <;> simp
@[simp] theorem setH_hs (s : St) (i : Nat) (f : H → H) : (s.setH i f).hs = s.hs.modify i f := rfl
@[simp] theorem setH_l (s : St) (i : Nat) (f : H → H) : (s.setH i f).l = s.l := rfl
@[simp] theorem setH_loopOk (s : St) (i : Nat) (f : H → H) : (s.setH i f).loopOk = s.loopOk := rfl
@[simp] theorem setH_lockDone (s : St) (i : Nat) (f : H → H) : (s.setH i f).lockDone = s.lockDone := rfl
@[simp] theorem newH_l (s : St) (x : H) : (s.newH x).l = s.l := rfl
@[simp] theorem newH_loopOk (s : St) (x : H) : (s.newH x).loopOk = s.loopOk := rfl
@[simp] theorem newH_lockDone (s : St) (x : H) : (s.newH x).lockDone = s.lockDone := rfl
@[simp] theorem newH_hs (s : St) (x : H) : (s.newH x).hs = s.hs ++ [x] := rfl
@[simp] theorem ret_led (s : St) (b : Bool) : (ret s b).l.1.led = s.l.1.led := by simp [ret]
@[simp] theorem ret_hs (s : St) (b : Bool) : (ret s b).hs = s.hs := rfl
@[simp] theorem ret_loopOk (s : St) (b : Bool) : (ret s b).loopOk = s.loopOk := rfl
@[simp] theorem ret_lockDone (s : St) (b : Bool) : (ret s b).lockDone = s.lockDone := rfl
@[simp] theorem bad_led (s : St) : (bad s).l.1.led = s.l.1.led := by simp [bad]
@[simp] theorem bad_hs (s : St) : (bad s).hs = s.hs := rfl
@[simp] theorem bad_loopOk (s : St) : (bad s).loopOk = s.loopOk := rfl
@[simp] theorem bad_lockDone (s : St) : (bad s).lockDone = s.lockDone := rfl

theorem own_congr {l l' : Ledger} (h : l'.led = l.led) (o : Owner) : Own l' o ↔ Own l o := by
  unfold Own; rw [h]

@[simp] theorem has_say (s : St) (x : String) (o : Owner) : (s.say x).has o = s.has o := by simp [St.has]
@[simp] theorem has_tick (s : St) (inj : Inj) (n : String) (o : Owner) : (s.tick inj n).has o = s.has o := by simp [St.has]
@[simp] theorem has_setH (s : St) (i : Nat) (f : H → H) (o : Owner) : (s.setH i f).has o = s.has o := rfl
@[simp] theorem has_newH (s : St) (x : H) (o : Owner) : (s.newH x).has o = s.has o := rfl
@[simp] theorem liveH_say (s : St) (x : String) (i : Nat) : (s.say x).liveH i = s.liveH i := rfl
@[simp] theorem liveH_run (s : St) (ps : List Prim) (i : Nat) : (s.run ps).liveH i = s.liveH i := rfl
@[simp] theorem liveH_tick (s : St) (inj : Inj) (n : String) (i : Nat) : (s.tick inj n).liveH i = s.liveH i := by
  simp [St.liveH]

/-- handle bookkeeping that does not touch `st`/`kind` keeps every live handle live -/
theorem kindOf_modify {hs : List H} {i : Nat} {f : H → H} (hf : ∀ x, (f x).st = x.st ∧ (f x).kind = x.kind) (h : Nat) :
    kindOf (hs.modify i f) h = kindOf hs h := by
  unfold kindOf
  rw [List.getElem?_modify]
  by_cases hih : i = h
  · subst hih
    cases hg : hs[i]? with
    | none => simp
    | some x => simp [(hf x).1, (hf x).2]
  · simp [hih]

theorem kindOf_lt {hs : List H} {h : Nat} {k : HKind} (hk : kindOf hs h = some k) : h < hs.length := by
  unfold kindOf at hk
  split at hk
  · rename_i x hx
    exact (List.getElem?_eq_some_iff.mp hx).1
  · cases hk

theorem kindOf_append {hs : List H} {h : Nat} {k : HKind} (x : H) (hk : kindOf hs h = some k) :
    kindOf (hs ++ [x]) h = some k := by
  have hlt := kindOf_lt hk
  unfold kindOf at hk ⊢
  rw [List.getElem?_append_left hlt]
  exact hk

theorem kindOf_new (hs : List H) (x : H) : kindOf (hs ++ [x]) hs.length = if x.st = .live then some x.kind else none := by
  unfold kindOf
  simp

theorem liveH_kindOf {s : St} {h : Nat} {hh : H} (hl : s.liveH h = some hh) : kindOf s.hs h = some hh.kind := by
  unfold St.liveH at hl
  unfold kindOf
  split at hl
  · rename_i x hx
    rw [hx]
    split at hl
    · rename_i hst
      simp only [Option.some.injEq] at hl
      subst hl
      simp [hst]
    · cases hl
  · cases hl

/-- the state changed only in ways that keep every permitted owner permitted -/
theorem CleanX.frame {X : Owner → Prop} {s s' : St} (h : CleanX X s) (hl : s'.l.1.led = s.l.1.led)
    (hk : ∀ h k, kindOf s.hs h = some k → kindOf s'.hs h = some k)
    (hlo : s.loopOk = true → s'.loopOk = true) (hld : s.lockDone = true → s'.lockDone = true) : CleanX X s' := by
  intro o ho
  rcases h o ((own_congr hl o).mp ho) with h1 | h1
  · left
    cases o with
    | user => trivial
    | glob i => exact hld h1
    | loop f => exact hlo h1
    | handle hh sl => obtain ⟨k, hk1, hk2⟩ := h1; exact ⟨k, hk hh k hk1, hk2⟩
    | temp k => exact h1
    | leaked => exact h1
  · exact Or.inr h1

theorem CleanX.say {X : Owner → Prop} {s : St} (h : CleanX X s) (x : String) : CleanX X (s.say x) :=
  h.frame (by simp) (fun _ _ hk => hk) id id
theorem CleanX.ret {X : Owner → Prop} {s : St} (h : CleanX X s) (b : Bool) : CleanX X (ret s b) := h.say _
theorem CleanX.bad {X : Owner → Prop} {s : St} (h : CleanX X s) : CleanX X (bad s) := h.say _
theorem CleanX.tick {X : Owner → Prop} {s : St} (h : CleanX X s) (inj : Inj) (n : String) : CleanX X (s.tick inj n) :=
  h.frame (by simp) (fun _ _ hk => by simpa using hk) (by simp) (by simp)
theorem CleanX.setH {X : Owner → Prop} {s : St} (h : CleanX X s) (i : Nat) {f : H → H}
    (hf : ∀ x, (f x).st = x.st ∧ (f x).kind = x.kind) : CleanX X (s.setH i f) :=
  h.frame rfl (fun hh k hk => by simpa [St.setH, kindOf_modify hf] using hk) id id
theorem CleanX.newH {X : Owner → Prop} {s : St} (h : CleanX X s) (x : H) : CleanX X (s.newH x) :=
  h.frame rfl (fun _ _ hk => kindOf_append x hk) id id

/-! ### rules for the descriptor primitives -/

theorem CleanX.harmless {X : Owner → Prop} {s : St} (h : CleanX X s) {ps : List Prim}
    (hp : ∀ p ∈ ps, p.harmless = true) : CleanX X (s.run ps) := by
  induction ps generalizing s with
  | nil => exact h
  | cons p ps ih =>
    rw [run_cons]
    apply ih _ (fun q hq => hp q (List.mem_cons_of_mem _ hq))
    intro o ho
    rcases own_harmless (hp p (List.mem_cons_self ..)) ho with h1 | h1
    · exact h o h1
    · subst h1; exact Or.inl trivial

theorem CleanX.create {X : Owner → Prop} {s : St} (h : CleanX X s) {site : Site} {kind : Kind} {o : Owner}
    (hfree : ¬ Own s.l.1 o) : CleanX (fun x => X x ∨ x = o) (s.run [.create site kind o]) := by
  intro o' ho'
  rcases own_create ho' with h1 | h1 | ⟨_, h1⟩
  · exact Or.inr (Or.inr h1)
  · exact (h o' h1).elim Or.inl (fun hx => Or.inr (Or.inl hx))
  · exact absurd h1 hfree

/-- creating into a many-valued owner (a handle's descriptor queue) never displaces anything -/
theorem CleanX.createQ {X : Owner → Prop} {s : St} (h : CleanX X s) {site : Site} {kind : Kind} {hh : Nat} :
    CleanX (fun x => X x ∨ x = .handle hh .q) (s.run [.create site kind (.handle hh .q)]) := by
  intro o' ho'
  obtain ⟨e, he, rfl⟩ := ho'
  simp only [run1_l, exec1, Prim.ok, if_true, exec1raw, displace, Owner.unique, List.mem_append, List.mem_singleton] at he
  rcases he with he | rfl
  · exact (h _ ⟨e, he, rfl⟩).elim Or.inl (fun hx => Or.inr (Or.inl hx))
  · exact Or.inr (Or.inr rfl)

theorem CleanX.close {X : Owner → Prop} {s : St} (h : CleanX X s) {o : Owner} {g : Bool}
    (hok : (Prim.closeOwner o g).ok = true) (hu : o.unique = true) :
    CleanX (fun x => X x ∧ x ≠ o) (s.run [.closeOwner o g]) := by
  intro o' ho'
  have hne : o' ≠ o := fun hc => notown_closeOwner s.l.2 hok hu (hc ▸ ho')
  rcases own_harmless (p := .closeOwner o g) rfl ho' with h1 | h1
  · exact (h o' h1).elim Or.inl (fun hx => Or.inr ⟨hx, hne⟩)
  · subst h1; exact Or.inl trivial

theorem CleanX.transfer {X : Owner → Prop} {s : St} (h : CleanX X s) {src dst : Owner}
    (hok : (Prim.transfer src dst).ok = true) (hu : src.unique = true) (hne : src ≠ dst) (hfree : ¬ Own s.l.1 dst) :
    CleanX (fun x => (X x ∧ x ≠ src) ∨ x = dst) (s.run [.transfer src dst]) := by
  intro o' ho'
  have hns : o' ≠ src := fun hc => notown_transfer s.l.2 hok hu hne (hc ▸ ho')
  rcases own_transfer ho' with h1 | h1 | ⟨_, h1, _⟩
  · exact (h o' h1).elim Or.inl (fun hx => Or.inr (Or.inl ⟨hx, hns⟩))
  · exact Or.inr (Or.inr h1)
  · exact absurd h1 hfree

/-- moving a local into a many-valued owner (a handle's descriptor queue): nothing can be displaced -/
theorem CleanX.transferToQ {X : Owner → Prop} {s : St} (h : CleanX X s) {src : Owner} {hq : Nat}
    (hok : (Prim.transfer src (.handle hq .q)).ok = true) (hu : src.unique = true) (hne : src ≠ .handle hq .q) :
    CleanX (fun x => (X x ∧ x ≠ src) ∨ x = .handle hq .q) (s.run [.transfer src (.handle hq .q)]) := by
  intro o' ho'
  have hns : o' ≠ src := fun hc => notown_transfer s.l.2 hok hu hne (hc ▸ ho')
  rcases own_transfer ho' with h1 | h1 | ⟨_, _, h1⟩
  · exact (h o' h1).elim Or.inl (fun hx => Or.inr (Or.inl ⟨hx, hns⟩))
  · exact Or.inr (Or.inr h1)
  · simp [Owner.unique] at h1

/-- moving one descriptor out of a many-valued owner -/
theorem CleanX.transferQ {X : Owner → Prop} {s : St} (h : CleanX X s) {src dst : Owner} (hfree : ¬ Own s.l.1 dst) :
    CleanX (fun x => X x ∨ x = dst) (s.run [.transfer src dst]) := by
  intro o' ho'
  rcases own_transfer ho' with h1 | h1 | ⟨_, h1, _⟩
  · exact (h o' h1).elim Or.inl (fun hx => Or.inr (Or.inl hx))
  · exact Or.inr (Or.inr h1)
  · exact absurd h1 hfree

theorem CleanX.adopt {X : Owner → Prop} {s : St} (h : CleanX X s) {id : Nat} {dst : Owner} (hfree : ¬ Own s.l.1 dst) :
    CleanX (fun x => X x ∨ x = dst) (s.run [.adopt id dst]) := by
  intro o' ho'
  rcases own_adopt ho' with h1 | h1 | ⟨_, h1, _⟩
  · exact (h o' h1).elim Or.inl (fun hx => Or.inr (Or.inl hx))
  · exact Or.inr (Or.inr h1)
  · exact absurd h1 hfree

/-! ### more bookkeeping -/

/-- peel state changes that do not touch descriptors or handle liveness -/
macro "clean_step" : tactic => `(tactic| first
  | assumption
  | apply CleanX.ret | apply CleanX.bad | apply CleanX.say | apply CleanX.tick | apply CleanX.newH
  | refine CleanX.setH ?_ _ (fun x => ⟨rfl, rfl⟩))
macro "clean_frame" : tactic => `(tactic| ((repeat clean_step); done))

abbrev Z : Owner → Prop := fun _ => False

@[simp] theorem own_tick {s : St} {inj : Inj} {n : String} {o : Owner} : Own (s.tick inj n).l.1 o ↔ Own s.l.1 o :=
  own_congr (tick_led ..) o
@[simp] theorem own_say {s : St} {x : String} {o : Owner} : Own (s.say x).l.1 o ↔ Own s.l.1 o := own_congr (say_led ..) o
@[simp] theorem own_ret {s : St} {b : Bool} {o : Owner} : Own (ret s b).l.1 o ↔ Own s.l.1 o := own_congr (ret_led ..) o
@[simp] theorem own_setH {s : St} {i : Nat} {f : H → H} {o : Owner} : Own (s.setH i f).l.1 o ↔ Own s.l.1 o := Iff.rfl
@[simp] theorem own_newH {s : St} {x : H} {o : Owner} : Own (s.newH x).l.1 o ↔ Own s.l.1 o := Iff.rfl

theorem okO_of_frame {s s' : St} (hhs : s'.hs = s.hs) (hlo : s'.loopOk = s.loopOk) (hld : s'.lockDone = s.lockDone)
    (o : Owner) : okO s' o ↔ okO s o := by
  cases o <;> simp [okO, hhs, hlo, hld]

@[simp] theorem okO_run {s : St} {ps : List Prim} {o : Owner} : okO (s.run ps) o ↔ okO s o := okO_of_frame rfl rfl rfl o
@[simp] theorem okO_tick {s : St} {inj : Inj} {n : String} {o : Owner} : okO (s.tick inj n) o ↔ okO s o :=
  okO_of_frame (by simp) (by simp) (by simp) o
@[simp] theorem okO_say {s : St} {x : String} {o : Owner} : okO (s.say x) o ↔ okO s o := okO_of_frame rfl rfl rfl o

theorem kindOf_modify_ne {hs : List H} {i h : Nat} {f : H → H} (hne : i ≠ h) : kindOf (hs.modify i f) h = kindOf hs h := by
  unfold kindOf
  rw [List.getElem?_modify]
  simp [hne]

/-- any change to a handle that owns no descriptor -/
theorem CleanX.setH_free {X : Owner → Prop} {s : St} (h : CleanX X s) {i : Nat} (f : H → H)
    (hfree : ∀ sl, ¬ Own s.l.1 (.handle i sl)) : CleanX X (s.setH i f) := by
  intro o ho
  have ho' : Own s.l.1 o := ho
  rcases h o ho' with h1 | h1
  · left
    cases o with
    | handle hh sl =>
      by_cases hc : i = hh
      · subst hc; exact absurd ho' (hfree sl)
      · obtain ⟨k, hk1, hk2⟩ := h1
        exact ⟨k, by simpa [St.setH, kindOf_modify_ne hc] using hk1, hk2⟩
    | _ => exact h1
  · exact Or.inr h1

/-- a handle index that does not exist yet owns nothing -/
theorem fresh_free {X : Owner → Prop} {s : St} (h : CleanX X s) (hX : ∀ sl, ¬ X (.handle s.hs.length sl)) (sl : Slot) :
    ¬ Own s.l.1 (.handle s.hs.length sl) := by
  apply h.absent _ (hX sl)
  rintro ⟨k, hk, _⟩
  exact absurd (kindOf_lt hk) (Nat.lt_irrefl _)

theorem CleanX.createOk {X : Owner → Prop} {s : St} (h : CleanX X s) {site : Site} {kind : Kind} {o : Owner}
    (hfree : ¬ Own s.l.1 o) (hok : okO s o) : CleanX X (s.run [.create site kind o]) :=
  (h.create hfree).weaken (fun o' ho' => ho'.elim Or.inr (fun e => Or.inl (by rw [e]; exact okO_run.mpr hok)))

/-- create a local and close it again -/
theorem CleanX.createClose {X : Owner → Prop} {s : St} (h : CleanX X s) {site : Site} {kind : Kind} {k : Nat}
    (hfree : ¬ Own s.l.1 (.temp k)) :
    CleanX X (s.run [.create site kind (.temp k), .closeOwner (.temp k) false]) := by
  rw [run_cons]
  exact ((h.create hfree).close (o := .temp k) rfl rfl).weaken (fun o ho => by
    rcases ho with ⟨hx | hx, hne⟩
    · exact Or.inr hx
    · exact absurd hx hne)

theorem temp_free {s : St} (h : CleanX Z s) (k : Nat) : ¬ Own s.l.1 (.temp k) := h.absent (fun hc => hc) (fun hc => hc)

/-- locals `temp k` with a ≤ k < b -/
def TX (a b : Nat) : Owner → Prop := fun x => ∃ k, x = .temp k ∧ a ≤ k ∧ k < b

theorem TX_free {s : St} {a b k : Nat} (h : CleanX (TX a b) s) (hk : ¬ (a ≤ k ∧ k < b)) : ¬ Own s.l.1 (.temp k) :=
  h.absent (fun hc => hc) (by rintro ⟨k', hk', h1, h2⟩; cases hk'; exact hk ⟨h1, h2⟩)

theorem temp_inj {a b : Nat} (h : Owner.temp a = Owner.temp b) : a = b := by injection h

/-! ### uv__stream_init's spare descriptor -/

@[simp] theorem emfile_hs (s : St) (inj : Inj) : (emfileInit s inj).hs = s.hs := by
  unfold emfileInit; split
  · rfl
  · split
    · simp
    · dsimp only; split <;> simp
@[simp] theorem emfile_loopOk (s : St) (inj : Inj) : (emfileInit s inj).loopOk = s.loopOk := by
  unfold emfileInit; split
  · rfl
  · split
    · simp
    · dsimp only; split <;> simp
@[simp] theorem emfile_lockDone (s : St) (inj : Inj) : (emfileInit s inj).lockDone = s.lockDone := by
  unfold emfileInit; split
  · rfl
  · split
    · simp
    · dsimp only; split <;> simp

theorem emfile_own {s : St} {inj : Inj} {o : Owner} (hf : ¬ Own s.l.1 o) (hne : o ≠ .loop .emfile) (hl : o ≠ .leaked) :
    ¬ Own (emfileInit s inj).l.1 o := by
  unfold emfileInit; split
  · exact hf
  · split
    · intro hc
      rcases own_create hc with h1 | h1 | ⟨h1, _⟩
      · exact hne h1
      · exact hf (by simpa using h1)
      · exact hl h1
    · dsimp only
      split
      · intro hc
        rcases own_create hc with h1 | h1 | ⟨h1, _⟩
        · exact hne h1
        · exact hf (by simpa using h1)
        · exact hl h1
      · simpa using hf

theorem CleanX.emfileInit {X : Owner → Prop} {s : St} (h : CleanX X s) (hlo : s.loopOk = true) (inj : Inj) :
    CleanX X (emfileInit s inj) := by
  unfold UvModel.FdLedger.emfileInit
  split
  · exact h
  · rename_i hh
    have hfree : ¬ Own s.l.1 (.loop .emfile) := not_has_iff.mp (by simpa using hh)
    split
    · exact (h.tick _ _).createOk (by simpa using hfree) (by simpa [okO] using hlo)
    · dsimp only
      split
      · exact ((h.tick _ _).tick _ _).createOk (by simpa using hfree) (by simpa [okO] using hlo)
      · exact (h.tick _ _).tick _ _

attribute [local irreducible] St.say ret bad St.tick St.setH St.newH St.run

/-! ### operations that only touch caller-owned descriptors or no descriptor at all -/

theorem clean_opUfd {s : St} (h : CleanX Z s) (kind : String) (at_ : Option Nat) : CleanX Z (opUfd s kind at_) := by
  unfold opUfd
  split
  · exact h.bad
  · dsimp only
    repeat' split
    all_goals first
      | exact h.bad
      | exact h.harmless (by intro p hp; obtain ⟨i, _, rfl⟩ := List.mem_map.mp hp; rfl)

theorem clean_opUclose {s : St} (h : CleanX Z s) (f : Nat) : CleanX Z (opUclose s f) := by
  unfold opUclose
  split
  · exact h.harmless (by simp [Prim.harmless])
  · exact h.bad

theorem clean_opUvPipe {s : St} (h : CleanX Z s) (inj : Inj) : CleanX Z (opUvPipe s inj) := by
  unfold opUvPipe
  split
  · exact (h.tick _ _).ret _
  · exact ((h.tick _ _).harmless (by simp [Prim.harmless])).ret _

theorem clean_opUvSocketpair {s : St} (h : CleanX Z s) (inj : Inj) : CleanX Z (opUvSocketpair s inj) := by
  unfold opUvSocketpair
  split
  · exact (h.tick _ _).ret _
  · exact ((h.tick _ _).harmless (by simp [Prim.harmless])).ret _

theorem clean_opPollInit {s : St} (h : CleanX Z s) (f : Nat) : CleanX Z (opPollInit s f) := by
  unfold opPollInit
  split
  · exact h.bad
  · split
    · exact (h.newH _).ret _
    · exact (h.newH _).ret _

theorem clean_opFsOpen {s : St} (h : CleanX Z s) (inj : Inj) (v : String) : CleanX Z (opFsOpen s inj v) := by
  unfold opFsOpen
  split
  · exact h.bad
  · split
    · exact (h.tick _ _).ret _
    · simp only
      split
      · exact (h.tick _ _).ret _
      · exact ((h.tick _ _).harmless (by simp [Prim.harmless])).say _

theorem clean_opFsClose {s : St} (h : CleanX Z s) (f : Nat) : CleanX Z (opFsClose s f) := by
  unfold opFsClose
  split
  · split
    · exact h.bad
    · exact (h.harmless (by simp [Prim.harmless])).ret _
  · exact h.bad

theorem clean_opFsCopyfile {s : St} (h : CleanX Z s) (inj : Inj) (v : String) : CleanX Z (opFsCopyfile s inj v) := by
  unfold opFsCopyfile
  split
  · exact h.bad
  · split
    · exact (h.tick _ _).ret _
    · dsimp only
      split
      · exact (h.tick _ _).ret _
      · have h0 := h.tick inj "open"
        have h1 := h0.create (site := .fsOpen) (kind := .file) (temp_free h0 0)
        have hclose : CleanX Z ((((s.tick inj "open").run [.create .fsOpen .file (.temp 0)]).tick inj "open").run
            [.closeOwner (.temp 0) false]) :=
          ((h1.tick _ _).close (o := .temp 0) (g := false) rfl rfl).weaken (by
            intro o ho; rcases ho with ⟨hx | hx, hne⟩
            · exact hx.elim
            · exact absurd hx hne)
        split
        · exact hclose.ret _
        · split
          · exact hclose.ret _
          · have h2 := h1.tick inj "open"
            have hf1 : ¬ Own ((s.tick inj "open").run [.create .fsOpen .file (.temp 0)] |>.tick inj "open").l.1 (.temp 1) :=
              h2.absent (fun hc => hc) (by simp)
            have h3 := h2.create (site := .fsOpen) (kind := .file) hf1
            have h4 := (h3.close (o := .temp 0) (g := false) rfl rfl).close (o := .temp 1) (g := false) rfl rfl
            refine (CleanX.weaken (X := fun x => ((((False ∨ x = Owner.temp 0) ∨ x = Owner.temp 1) ∧ x ≠ Owner.temp 0) ∧ x ≠ Owner.temp 1)) ?_ ?_).ret _
            · rw [run_cons, run_cons]; exact h4
            · intro o ho
              rcases ho with ⟨⟨(hx | hx) | hx, hne0⟩, hne1⟩
              · exact hx.elim
              · exact absurd hx hne0
              · exact absurd hx hne1

theorem clean_opFlood {s : St} (h : CleanX Z s) (hh n : Nat) : CleanX Z (opFlood s hh n) := by
  unfold opFlood
  split
  · exact h.bad
  · split
    · exact h.bad
    · split <;> clean_frame

theorem clean_opIpcSend {s : St} (h : CleanX Z s) (f hh : Nat) (ks : List HKind) : CleanX Z (opIpcSend s f hh ks) := by
  unfold opIpcSend
  split
  · exact h.bad
  · simp only
    split
    · clean_frame
    · clean_frame

theorem clean_opFsEventStart {s : St} (h : CleanX Z s) (hlo : s.loopOk = true) (inj : Inj) (ok : Bool) :
    CleanX Z (opFsEventStart s inj ok) := by
  unfold opFsEventStart
  simp only
  split
  · exact (h.newH _).ret _
  · rename_i hh
    have hfree : ¬ Own s.l.1 (.loop .inotify) := not_has_iff.mp (by simpa using hh)
    split
    · exact ((h.newH _).tick _ _).ret _
    · exact (((h.newH _).tick _ _).createOk (by simpa using hfree) (by simpa [okO] using hlo)).ret _

/-! ### loop init / close -/

theorem own_run1_harmless {s : St} {p : Prim} (hp : p.harmless = true) {o : Owner} (h : Own (s.run [p]).l.1 o) :
    Own s.l.1 o ∨ o = .user := own_harmless hp (by simpa using h)

theorem notown_persist {s : St} {ps : List Prim} (hp : ∀ p ∈ ps, p.harmless = true) {o : Owner} (hne : o ≠ .user)
    (h : ¬ Own s.l.1 o) : ¬ Own (s.run ps).l.1 o := by
  induction ps generalizing s with
  | nil => rw [run_nil]; exact h
  | cons p ps ih =>
    rw [run_cons]
    apply ih (fun q hq => hp q (List.mem_cons_of_mem _ hq))
    intro hc
    rcases own_run1_harmless (hp p (List.mem_cons_self ..)) hc with h1 | h1
    · exact h h1
    · exact hne h1

@[simp] theorem ring_loopOk (s : St) (inj : Inj) : (loopInitRing s inj).loopOk = s.loopOk := by
  unfold loopInitRing; split <;> simp
@[simp] theorem lock_loopOk (s : St) (inj : Inj) : (loopInitLock s inj).loopOk = s.loopOk := by
  unfold loopInitLock; split <;> simp

theorem clean_ring {X : Owner → Prop} {s : St} (h : CleanX X s) (hlo : s.loopOk = false) (hX : ¬ X (.loop .ring)) (inj : Inj) :
    CleanX (fun x => X x ∨ x = .loop .ring) (loopInitRing s inj) := by
  unfold loopInitRing
  split
  · exact (h.tick _ _).weaken (fun o ho => Or.inr (Or.inl ho))
  · exact (h.tick _ _).create ((h.tick _ _).absent (by simp [okO, hlo]) hX)

theorem clean_lock {X : Owner → Prop} {s : St} (h : CleanX X s) (hX : ∀ i, ¬ X (.glob i)) (inj : Inj) :
    CleanX X (loopInitLock s inj) := by
  unfold loopInitLock
  split
  · exact h
  · rename_i hld
    have hld' : s.lockDone = false := by simpa using hld
    have h0 := h.tick inj "pipe2"
    have h1 := h0.create (site := .pipe2) (kind := .pipe) (o := .glob 0) (h0.absent (by simp [okO, hld']) (hX 0))
    have h2 := h1.create (site := .pipe2) (kind := .pipe) (o := .glob 1)
      (h1.absent (by simp [okO, hld']) (by simp [hX 1]))
    rw [run_cons]
    intro o ho
    rcases h2 o ho with h3 | (h3 | h3) | h3
    · cases o with
      | glob i => exact Or.inl rfl
      | _ => exact Or.inl h3
    · exact Or.inr h3
    · subst h3; exact Or.inl rfl
    · subst h3; exact Or.inl rfl

/-- an initialised loop makes every loop field a legitimate owner -/
theorem CleanX.loopUp {X : Owner → Prop} {s s' : St} (h : CleanX X s) (hX : ∀ o, X o → ∃ f, o = .loop f)
    (hl : s'.l.1.led = s.l.1.led) (hhs : s'.hs = s.hs) (hld : s'.lockDone = s.lockDone) (hlo : s'.loopOk = true) :
    CleanX Z s' := by
  intro o ho
  rcases h o ((own_congr hl o).mp ho) with h1 | h1
  · left
    cases o with
    | loop f => exact hlo
    | _ => simpa [okO, hhs, hld] using h1
  · obtain ⟨f, rfl⟩ := hX o h1
    exact Or.inl hlo

theorem clean_tail {s : St} (h : CleanX (fun x => x = .loop .backend ∨ x = .loop .ring) s) (hlo : s.loopOk = false) (inj : Inj) :
    CleanX Z (loopInitTail s inj) := by
  unfold loopInitTail
  split
  · apply CleanX.ret
    rw [run_cons]
    exact (((h.tick _ _).close (o := .loop .ring) (g := false) rfl rfl).close (o := .loop .backend) (g := false) rfl rfl).weaken
      (by intro o ho; rcases ho with ⟨⟨ho | ho, h1⟩, h2⟩
          · exact absurd ho h2
          · exact absurd ho h1)
  · dsimp only
    have h0 := h.tick inj "pipe2"
    have h1 := h0.create (site := .pipe2) (kind := .pipe) (o := .loop .sig0) (h0.absent (by simp [okO, hlo]) (by simp))
    have h2 := h1.create (site := .pipe2) (kind := .pipe) (o := .loop .sig1) (h1.absent (by simp [okO, hlo]) (by simp))
    rw [run_cons]
    split
    · apply CleanX.ret
      rw [run_cons, run_cons, run_cons]
      exact (((((h2.tick _ _).close (o := .loop .sig0) (g := false) rfl rfl).close (o := .loop .sig1) (g := false) rfl rfl).close
        (o := .loop .ring) (g := false) rfl rfl).close (o := .loop .backend) (g := false) rfl rfl).weaken
        (by intro o ho
            rcases ho with ⟨⟨⟨⟨((ho | ho) | ho) | ho, h1⟩, h2⟩, h3⟩, h4⟩
            · exact absurd ho h4
            · exact absurd ho h3
            · exact absurd ho h1
            · exact absurd ho h2)
    · apply CleanX.ret
      have h3 := (h2.tick inj "eventfd").create (site := .eventfd) (kind := .evfd) (o := .loop .async)
        ((h2.tick inj "eventfd").absent (by simp [okO, hlo]) (by simp))
      exact h3.loopUp (by
        intro o ho
        rcases ho with (((ho | ho) | ho) | ho) | ho <;> exact ⟨_, ho⟩) rfl rfl rfl rfl

theorem clean_opLoopInit {s : St} (h : CleanX Z s) (inj : Inj) : CleanX Z (opLoopInit s inj) := by
  unfold opLoopInit
  split
  · exact h.bad
  · rename_i hlo
    have hlo' : s.loopOk = false := by simpa using hlo
    split
    · exact (h.tick _ _).ret _
    · have h0 := h.tick inj "epoll_create1"
      have h1 := h0.create (site := .epollCreate) (kind := .epoll) (o := .loop .backend) (h0.absent (by simp [okO, hlo']) (fun hc => hc))
      have h2 := clean_ring h1 (by simpa using hlo') (by simp) inj
      have h3 := clean_lock h2 (by simp) inj
      exact clean_tail (h3.weaken (by
        intro o ho
        rcases ho with (ho | ho) | ho
        · exact ho.elim
        · exact Or.inr (Or.inl ho)
        · exact Or.inr (Or.inr ho))) (by simpa using hlo') inj

theorem clean_opLoopClose {s : St} (h : CleanX Z s) : CleanX Z (opLoopClose s) := by
  unfold opLoopClose
  split
  · exact h.ret _
  · split
    · exact h.ret _
    · apply CleanX.ret
      have h1 : CleanX Z (s.run loopClosePrims) := h.harmless (by simp [loopClosePrims, Prim.harmless])
      intro o ho
      have ho' : Own (s.run loopClosePrims).l.1 o := ho
      obtain ⟨e, he, rfl⟩ := ho'
      have hne := (loopClose_led s.l.1 s.l.2 e (by simpa [run_l] using he)).2
      rcases h1 _ ⟨e, he, rfl⟩ with h2 | h2
      · left
        cases hown : e.owner with
        | loop f => exact absurd hown (hne f)
        | _ => simpa [okO, hown] using h2
      · exact h2.elim

/-! ### handle initialisation and descriptor adoption -/

/-- socket() into the empty io slot of a live handle of a kind that has one -/
theorem clean_sockInto {s : St} (h : CleanX Z s) {hh : Nat} {k : HKind} (hk : kindOf s.hs hh = some k)
    (hsl : slotOk k .io = true) (hfree : ¬ Own s.l.1 (.handle hh .io)) (inj : Inj) (site : Site) (kind : Kind) :
    CleanX Z ((s.tick inj "socket").run [.create site kind (.handle hh .io)]) :=
  (h.tick _ _).createOk (by simpa using hfree) (by simpa [okO] using ⟨k, hk, hsl⟩)

theorem clean_opTcpInit {s : St} (h : CleanX Z s) (hlo : s.loopOk = true) (inj : Inj) (af : Bool) :
    CleanX Z (opTcpInit s inj af) := by
  unfold opTcpInit
  dsimp only
  have h1 : CleanX Z (emfileInit (s.newH { kind := .tcp }) inj) := (h.newH _).emfileInit (by simpa using hlo) inj
  have hfree : ∀ sl, ¬ Own (emfileInit (s.newH { kind := .tcp }) inj).l.1 (.handle s.hs.length sl) := fun sl =>
    emfile_own (by simpa using fresh_free h (fun _ hc => hc) sl) (by simp) (by simp)
  split
  · split
    · apply CleanX.ret
      exact (h1.tick _ _).setH_free _ (by simpa using hfree)
    · apply CleanX.ret
      exact clean_sockInto h1 (k := .tcp) (by simp [kindOf_new]) rfl (hfree .io) inj _ _
  · exact h1.ret _

theorem clean_opUdpInit {s : St} (h : CleanX Z s) (inj : Inj) (af : Bool) : CleanX Z (opUdpInit s inj af) := by
  unfold opUdpInit
  dsimp only
  have h1 : CleanX Z (s.newH { kind := .udp }) := h.newH _
  have hfree : ∀ sl, ¬ Own (s.newH { kind := .udp }).l.1 (.handle s.hs.length sl) := fun sl =>
    by simpa using fresh_free h (fun _ hc => hc) sl
  split
  · split
    · apply CleanX.ret
      exact (h1.tick _ _).setH_free _ (by simpa using hfree)
    · apply CleanX.ret
      exact clean_sockInto h1 (k := .udp) (by simp [kindOf_new]) rfl (hfree .io) inj _ _
  · exact h1.ret _

theorem clean_opTtyInit {s : St} (h : CleanX Z s) (hlo : s.loopOk = true) (inj : Inj) (f : Nat) :
    CleanX Z (opTtyInit s inj f) := by
  unfold opTtyInit
  split
  · exact h.bad
  · dsimp only
    split
    · exact (h.newH _).ret _
    · apply CleanX.ret
      have h1 : CleanX Z (emfileInit (s.newH { kind := .tty, readable := true }) inj) :=
        (h.newH _).emfileInit (by simpa using hlo) inj
      have hfree : ¬ Own (emfileInit (s.newH { kind := .tty, readable := true }) inj).l.1 (.handle s.hs.length .io) :=
        emfile_own (by simpa using fresh_free h (fun _ hc => hc) .io) (by simp) (by simp)
      exact (h1.adopt hfree).weaken (by
        intro o ho
        rcases ho with ho | ho
        · exact ho.elim
        · subst ho; left; simp [okO, kindOf_new, slotOk, isStream])

theorem clean_opOpen {s : St} (h : CleanX Z s) (inj : Inj) (hh f : Nat) : CleanX Z (opOpen s inj hh f) := by
  unfold opOpen
  split
  · rename_i x e hl _
    split
    · exact h.bad
    · rename_i hkind
      split
      · exact h.ret _
      · rename_i hhas
        split
        · exact h.ret _
        · dsimp only
          have hfree : ¬ Own s.l.1 (.handle hh .io) := not_has_iff.mp (by simpa using hhas)
          have hok : okO s (.handle hh .io) := by
            refine ⟨x.kind, liveH_kindOf hl, ?_⟩
            simp only [Bool.not_eq_true', Bool.not_eq_false] at hkind
            rcases (by simpa using hkind : (x.kind = .tcp ∨ x.kind = .pipe) ∨ x.kind = .udp) with (hk | hk) | hk <;> simp [hk, slotOk, isStream]
          have key : ∀ s0 : St, CleanX Z s0 → ¬ Own s0.l.1 (.handle hh .io) → okO s0 (.handle hh .io) →
              CleanX Z (ret ((s0.run [.adopt f (.handle hh .io)]).setH hh (fun x => { x with readable := true })) true) := by
            intro s0 h0 hf0 hok0
            apply CleanX.ret
            refine CleanX.setH ?_ _ (fun x => ⟨rfl, rfl⟩)
            exact (h0.adopt hf0).weaken (by
              intro o ho
              rcases ho with ho | ho
              · exact ho.elim
              · subst ho; exact Or.inl (okO_run.mpr hok0))
          repeat' split
          all_goals first
            | clean_frame
            | exact key _ (h.tick _ _) (by simpa using hfree) (by simpa using hok)
            | exact key _ h hfree hok
  · exact h.bad

theorem clean_opSockopt {s : St} (h : CleanX Z s) (inj : Inj) (hh : Nat) (ka : Bool) : CleanX Z (opSockopt s inj hh ka) := by
  unfold opSockopt
  split
  · exact h.bad
  · split
    · exact h.bad
    · dsimp only
      repeat' split
      all_goals first
        | clean_frame
        | (refine CleanX.ret (CleanX.setH h _ ?_) _; intro x; split <;> exact ⟨rfl, rfl⟩)

/-! ### bind / listen / connect -/

theorem clean_ensureSock {s s' : St} (h : CleanX Z s) {hh : Nat} {k : HKind} (hk : kindOf s.hs hh = some k)
    (hsl : slotOk k .io = true) {inj : Inj} (he : ensureSock s inj hh = some s') : CleanX Z s' := by
  unfold ensureSock at he
  split at he
  · cases he; exact h
  · rename_i hhas
    have hfree : ¬ Own s.l.1 (.handle hh .io) := not_has_iff.mp (by simpa using hhas)
    split at he
    · cases he
    · dsimp only at he
      split at he
      · split at he
        · cases he
        · cases he; exact (clean_sockInto h hk hsl hfree inj _ _).tick _ _
      · cases he; exact clean_sockInto h hk hsl hfree inj _ _

theorem clean_ensureSockFail {s : St} (h : CleanX Z s) (inj : Inj) (hh : Nat) : CleanX Z (ensureSockFail s inj hh) := by
  unfold ensureSockFail
  split
  · exact h.tick _ _
  · have h0 := h.tick inj "socket"
    have h1 := (h0.create (site := .uvSocket) (kind := sockKindOf s hh) (temp_free h0 0)).tick inj "nodelay"
    exact (h1.close (o := .temp 0) (g := false) rfl rfl).weaken (by
      intro o ho; rcases ho with ⟨hx | hx, hne⟩
      · exact hx.elim
      · exact absurd hx hne)

theorem slot_tcp_udp_pipe {k : HKind} (h : k = .tcp ∨ k = .udp ∨ k = .pipe) : slotOk k .io = true := by
  rcases h with h | h | h <;> simp [h, slotOk, isStream]

theorem clean_opBind {s : St} (h : CleanX Z s) (inj : Inj) (hh : Nat) (v : String) : CleanX Z (opBind s inj hh v) := by
  unfold opBind
  split
  · exact h.bad
  · rename_i x hl
    have hk := liveH_kindOf hl
    split
    · exact h.bad
    · split
      · rename_i hkind
        have hsl : slotOk x.kind .io = true :=
          slot_tcp_udp_pipe (by rcases (by simpa using hkind : x.kind = .tcp ∨ x.kind = .udp) with h1 | h1 <;> simp [h1])
        split
        · exact (clean_ensureSockFail h inj hh).ret _
        · rename_i s' he
          have hs' := clean_ensureSock h hk hsl he
          repeat' split
          all_goals clean_frame
      · split
        · rename_i hkind
          have hkp : x.kind = .pipe := by simpa using hkind
          split
          · exact h.ret _
          · rename_i hhas
            have hfree : ¬ Own s.l.1 (.handle hh .io) := not_has_iff.mp (by simpa using hhas)
            split
            · exact (h.tick _ _).ret _
            · dsimp only
              split
              · apply CleanX.ret
                refine CleanX.setH ?_ _ (fun x => ⟨rfl, rfl⟩)
                exact (h.tick _ _).createOk (by simpa using hfree) (by simpa [okO] using ⟨x.kind, hk, by simp [hkp, slotOk, isStream]⟩)
              · apply CleanX.ret
                exact (h.tick _ _).createClose (temp_free (h.tick _ _) 0)
        · exact h.bad

theorem clean_opListen {s : St} (h : CleanX Z s) (inj : Inj) (hh : Nat) : CleanX Z (opListen s inj hh) := by
  unfold opListen
  split
  · exact h.bad
  · rename_i x hl
    have hk := liveH_kindOf hl
    split
    · rename_i hkind
      have hsl : slotOk x.kind .io = true := slot_tcp_udp_pipe (Or.inl (by simpa using hkind))
      split
      · exact h.ret _
      · split
        · exact (clean_ensureSockFail h inj hh).ret _
        · rename_i s' he
          have hs' := clean_ensureSock h hk hsl he
          split <;> clean_frame
    · split
      · split <;> clean_frame
      · exact h.bad

theorem clean_connSock {s s' : St} (h : CleanX Z s) {hh : Nat} {k : HKind} (hk : kindOf s.hs hh = some k)
    (hsl : slotOk k .io = true) {inj : Inj} {d : Bool} (he : connSock s inj hh d = some s') : CleanX Z s' := by
  unfold connSock at he
  split at he
  · cases he; exact h
  · exact clean_ensureSock h hk hsl he

theorem clean_opConnect {s : St} (h : CleanX Z s) (inj : Inj) (hh : Nat) (t : Option Nat) :
    CleanX Z (opConnect s inj hh t) := by
  unfold opConnect
  split
  · exact h.bad
  · rename_i x hl
    have hk := liveH_kindOf hl
    dsimp only
    split
    · rename_i hkind
      have hsl : slotOk x.kind .io = true := slot_tcp_udp_pipe (Or.inl (by simpa using hkind))
      repeat' split
      all_goals first
        | clean_frame
        | exact (clean_ensureSockFail h inj hh).ret _
        | (have hs' := clean_connSock h hk hsl ‹connSock _ _ _ _ = some _›; clean_frame)
    · split
      · rename_i hkind
        have hsl : slotOk x.kind .io = true := slot_tcp_udp_pipe (Or.inr (Or.inr (by simpa using hkind)))
        repeat' split
        all_goals first
          | clean_frame
          | exact (clean_ensureSockFail h inj hh).ret _
          | (have hs' := clean_ensureSock h hk hsl ‹ensureSock _ _ _ = some _›; clean_frame)
      · exact h.bad

/-! ### uv_accept -/

theorem accept_slot {k : HKind} (h : (k = .tcp || k = .pipe || k = .udp || k = .tty) = true) : slotOk k .io = true := by
  simp only [Bool.or_eq_true, decide_eq_true_eq] at h
  rcases h with ((h | h) | h) | h <;> simp [h, slotOk, isStream]

theorem okO_setH {s : St} {i : Nat} {f : H → H} (hf : ∀ x, (f x).st = x.st ∧ (f x).kind = x.kind) {o : Owner}
    (h : okO s o) : okO (s.setH i f) o := by
  cases o with
  | handle hh sl =>
    obtain ⟨k, hk1, hk2⟩ := h
    exact ⟨k, by simpa [St.setH, kindOf_modify hf] using hk1, hk2⟩
  | _ => simpa [okO] using h

theorem acceptMove_spec {s : St} (h : CleanX Z s) {inj : Inj} {srv cli : Nat} {ck : HKind}
    (hcli : kindOf s.hs cli = some ck) (hsrv : okO s (.handle srv .acc)) :
    CleanX Z (acceptMove s inj srv cli ck) ∧ ¬ Own (acceptMove s inj srv cli ck).l.1 (.handle srv .acc) ∧
      okO (acceptMove s inj srv cli ck) (.handle srv .acc) := by
  unfold acceptMove
  dsimp only
  -- the state after the (possible) setsockopt(TCP_NODELAY) bookkeeping
  have key : ∀ s0 : St, CleanX Z s0 → (∀ o, Own s0.l.1 o ↔ Own s.l.1 o) → okO s0 (.handle srv .acc) →
      (∀ o, okO s o → okO s0 o) →
      (acceptOk s inj srv cli ck = true →
        (let t := (s0.run [.transfer (.handle srv .acc) (.handle cli .io)]).setH cli
            (fun h => { h with readable := true, bound := !((s.h? srv).map (·.ipc)).getD false,
                               connected := !((s.h? srv).map (·.ipc)).getD false })
         CleanX Z t ∧ ¬ Own t.l.1 (.handle srv .acc) ∧ okO t (.handle srv .acc))) ∧
      (let t := (s0.run [.closeOwner (.handle srv .acc) false]).setH srv (fun h => { h with stalled := true })
       CleanX Z t ∧ ¬ Own t.l.1 (.handle srv .acc) ∧ okO t (.handle srv .acc)) := by
    intro s0 h0 hown hsrv0 hmono
    constructor
    · intro hok
      unfold acceptOk acceptPre at hok
      simp only [Bool.and_eq_true, Bool.not_eq_true'] at hok
      have hfree : ¬ Own s0.l.1 (.handle cli .io) := fun hc => not_has_iff.mp hok.1.1 ((hown _).mp hc)
      have htr : (Prim.transfer (.handle srv .acc) (.handle cli .io)).ok = true := by simp [Prim.ok, Owner.libuv]
      refine ⟨?_, ?_, ?_⟩
      · refine CleanX.setH ?_ _ (fun x => ⟨rfl, rfl⟩)
        exact (h0.transfer htr rfl (by simp) hfree).weaken (by
          intro o ho
          rcases ho with ⟨ho, _⟩ | ho
          · exact ho.elim
          · subst ho; exact Or.inl (okO_run.mpr (hmono _ ⟨ck, hcli, accept_slot hok.1.2⟩)))
      · simpa using notown_transfer s0.l.2 htr rfl (by simp)
      · refine okO_setH ?_ (okO_run.mpr hsrv0)
        intro x; exact ⟨rfl, rfl⟩
    · have hcl : (Prim.closeOwner (.handle srv .acc) false).ok = true := by simp [Prim.ok, Owner.libuv]
      refine ⟨?_, ?_, ?_⟩
      · refine CleanX.setH ?_ _ (fun x => ⟨rfl, rfl⟩)
        exact (h0.close hcl rfl).weaken (by intro o ho; exact ho.1.elim)
      · simpa using notown_closeOwner s0.l.2 hcl rfl
      · refine okO_setH ?_ (okO_run.mpr hsrv0)
        intro x; exact ⟨rfl, rfl⟩
  have k1 := key s h (fun _ => Iff.rfl) hsrv (fun _ ho => ho)
  have k2 := key (s.tick inj "nodelay") (h.tick _ _) (fun _ => own_tick) (okO_tick.mpr hsrv) (fun _ ho => okO_tick.mpr ho)
  by_cases hok : acceptOk s inj srv cli ck = true
  · simp only [hok, if_true]
    split
    · exact k2.1 hok
    · exact k1.1 hok
  · simp only [hok, if_false, Bool.false_eq_true]
    split
    · exact k2.2
    · exact k1.2

theorem clean_acceptShift {s : St} (h : CleanX Z s) {srv : Nat} (hfree : ¬ Own s.l.1 (.handle srv .acc))
    (hok : okO s (.handle srv .acc)) : CleanX Z (acceptShift s srv) := by
  unfold acceptShift
  dsimp only
  have h1 : CleanX Z (s.run [.transfer (.handle srv .q) (.handle srv .acc)]) :=
    (h.transferQ hfree).weaken (by
      intro o ho
      rcases ho with ho | ho
      · exact ho.elim
      · subst ho; exact Or.inl (okO_run.mpr hok))
  split <;> clean_frame

theorem clean_acceptInto {s : St} (h : CleanX Z s) {inj : Inj} {srv cli : Nat} {ck : HKind} (hcli : kindOf s.hs cli = some ck)
    (hsrv : okO s (.handle srv .acc)) : CleanX Z (acceptInto s inj srv cli ck) := by
  unfold acceptInto
  obtain ⟨a, b, c⟩ := acceptMove_spec h (inj := inj) hcli hsrv
  exact clean_acceptShift a b c

theorem clean_opAccept {s : St} (h : CleanX Z s) (inj : Inj) (sv c : Nat) : CleanX Z (opAccept s inj sv c) := by
  unfold opAccept
  split
  · rename_i x ch hlsv hlc
    split
    · exact h.ret _
    · rename_i hhas
      have hown : Own s.l.1 (.handle sv .acc) := has_iff.mp (by simpa using hhas)
      split
      · exact h.ret _
      · exact (clean_acceptInto h (liveH_kindOf hlc) ((h _ hown).elim id False.elim)).ret _
  · exact h.bad

/-! ### uv_close -/

theorem slot_absent {s : St} (h : CleanX Z s) {hh : Nat} {k : HKind} (hk : kindOf s.hs hh = some k) {sl : Slot}
    (hsl : slotOk k sl = false) : ¬ Own s.l.1 (.handle hh sl) := by
  apply h.absent _ (fun hc => hc)
  rintro ⟨k', hk', hs'⟩
  rw [hk] at hk'
  cases hk'
  rw [hsl] at hs'
  cases hs'

theorem clean_opClose {s : St} (h : CleanX Z s) (hh : Nat) : CleanX Z (opClose s hh) := by
  unfold opClose
  split
  · exact h.bad
  · rename_i x hl
    have hk := liveH_kindOf hl
    dsimp only
    apply CleanX.ret
    split
    · -- streams: uv__stream_close empties all three slots
      have hio : (Prim.closeOwner (.handle hh .io) true).ok = true := by simp [Prim.ok, Owner.libuv]
      have hacc : (Prim.closeOwner (.handle hh .acc) false).ok = true := by simp [Prim.ok, Owner.libuv]
      have h1 : CleanX Z (s.run (streamClosePrims hh)) := h.harmless (by simp [streamClosePrims, Prim.harmless])
      apply h1.setH_free
      intro sl
      unfold streamClosePrims
      rw [run_cons, run_cons]
      cases sl with
      | io =>
        exact notown_persist (ps := [.closeQ hh]) (by simp [Prim.harmless]) (by simp)
          (notown_persist (ps := [.closeOwner (.handle hh .acc) false]) (by simp [Prim.harmless]) (by simp)
            (by simpa using notown_closeOwner s.l.2 hio rfl))
      | acc =>
        exact notown_persist (ps := [.closeQ hh]) (by simp [Prim.harmless]) (by simp)
          (by simpa using notown_closeOwner (s.run [.closeOwner (.handle hh .io) true]).l.2 hacc rfl)
      | q =>
        simpa using notown_closeQ (l := ((s.run [.closeOwner (.handle hh .io) true]).run [.closeOwner (.handle hh .acc) false]).l.1) (h := hh)
    · rename_i hns
      have hns' : isStream x.kind = false := by simpa using hns
      split
      · rename_i hudp
        have hio : (Prim.closeOwner (.handle hh .io) true).ok = true := by simp [Prim.ok, Owner.libuv]
        have h1 : CleanX Z (s.run [.closeOwner (.handle hh .io) true]) := h.harmless (by simp [Prim.harmless])
        apply h1.setH_free
        intro sl
        cases sl with
        | io => simpa using notown_closeOwner s.l.2 hio rfl
        | acc => exact notown_persist (by simp [Prim.harmless]) (by simp) (slot_absent h hk (by simp [slotOk, hns']))
        | q => exact notown_persist (by simp [Prim.harmless]) (by simp) (slot_absent h hk (by simp [slotOk, hns']))
      · rename_i hnudp
        apply h.setH_free
        intro sl
        apply slot_absent h hk
        cases sl <;> simp [slotOk, hns', hnudp]

/-! ### uv_run -/

theorem foldl_pres {α β : Type} (P : α → Prop) (f : α → β → α) (l : List β) (a : α) (h0 : P a)
    (hstep : ∀ a b, P a → P (f a b)) : P (l.foldl f a) := by
  induction l generalizing a with
  | nil => exact h0
  | cons b l ih => exact ih _ (hstep a b h0)

theorem kindOf_setH {s : St} {i : Nat} {f : H → H} (h : Nat)
    (hf : ∀ x, (f x).st = x.st ∧ (f x).kind = x.kind := by intro x; exact ⟨rfl, rfl⟩) :
    kindOf (s.setH i f).hs h = kindOf s.hs h := by simp [kindOf_modify hf]

theorem liveH_h? {s : St} {i : Nat} {hh : H} (hl : s.liveH i = some hh) : s.h? i = some hh := by
  unfold St.liveH at hl
  unfold St.h?
  split at hl
  · rename_i x hx
    split at hl
    · cases hl; exact hx
    · cases hl
  · cases hl

@[simp] theorem acceptInto_loopOk (s : St) (inj : Inj) (a b : Nat) (k : HKind) : (acceptInto s inj a b k).loopOk = s.loopOk := by
  unfold acceptInto acceptShift acceptMove; dsimp only; repeat' split
  all_goals simp
@[simp] theorem acceptInto_lockDone (s : St) (inj : Inj) (a b : Nat) (k : HKind) : (acceptInto s inj a b k).lockDone = s.lockDone := by
  unfold acceptInto acceptShift acceptMove; dsimp only; repeat' split
  all_goals simp
theorem acceptShift_kindOf (s : St) (a h : Nat) : kindOf (acceptShift s a).hs h = kindOf s.hs h := by
  unfold acceptShift; dsimp only
  split
  · rw [kindOf_setH]; simp only [run_hs]
  · simp only [run_hs]
theorem acceptMove_kindOf (s : St) (inj : Inj) (a b : Nat) (k : HKind) (h : Nat) :
    kindOf (acceptMove s inj a b k).hs h = kindOf s.hs h := by
  unfold acceptMove; dsimp only
  split
  · rw [kindOf_setH]; simp only [run_hs]; split <;> simp
  · rw [kindOf_setH]; simp only [run_hs]; split <;> simp
theorem acceptInto_kindOf (s : St) (inj : Inj) (a b : Nat) (k : HKind) (h : Nat) :
    kindOf (acceptInto s inj a b k).hs h = kindOf s.hs h := by
  unfold acceptInto; rw [acceptShift_kindOf, acceptMove_kindOf]

@[simp] theorem cbAccept_loopOk (s : St) (inj : Inj) (i : Nat) (k : HKind) (b : Bool) : (cbAccept s inj i k b).loopOk = s.loopOk := by
  unfold cbAccept; dsimp only; split <;> simp
theorem cbAccept_kindOf {s : St} {inj : Inj} {i : Nat} {k : HKind} {b : Bool} {h : Nat} {k' : HKind}
    (hk : kindOf s.hs h = some k') : kindOf (cbAccept s inj i k b).hs h = some k' := by
  unfold cbAccept; dsimp only
  rw [say_hs, acceptInto_kindOf]
  split
  · simpa using kindOf_append _ hk
  · simpa using kindOf_append _ hk

theorem clean_cbAccept {s : St} (h : CleanX Z s) (hlo : s.loopOk = true) {inj : Inj} {i : Nat} {k : HKind} {b : Bool}
    (hsrv : okO s (.handle i .acc)) : CleanX Z (cbAccept s inj i k b) := by
  unfold cbAccept
  dsimp only
  apply CleanX.say
  have hsrv' : okO (s.newH { kind := k }) (.handle i .acc) := by
    obtain ⟨k', hk1, hk2⟩ := hsrv
    exact ⟨k', by simpa using kindOf_append _ hk1, hk2⟩
  split
  · apply clean_acceptInto ((h.newH _).emfileInit (by simpa using hlo) inj)
    · simp [kindOf_new]
    · obtain ⟨k', hk1, hk2⟩ := hsrv'
      exact ⟨k', by simpa using hk1, hk2⟩
  · apply clean_acceptInto (h.newH _)
    · simp [kindOf_new]
    · exact hsrv'

theorem shed_spec (inj : Inj) (i : Nat) (n : Nat) (s : St) (h : CleanX Z s) :
    CleanX Z (shed inj i n s) ∧ (∀ o, o ≠ .user → ¬ Own s.l.1 o → ¬ Own (shed inj i n s).l.1 o) ∧
      (shed inj i n s).loopOk = s.loopOk := by
  induction n generalizing s with
  | zero =>
    unfold shed
    exact ⟨h.tick _ _, fun o _ hn => by simpa using hn, by simp⟩
  | succ n ih =>
    unfold shed
    split
    · exact ⟨h.tick _ _, fun o _ hn => by simpa using hn, by simp⟩
    · have h1 : CleanX Z (((s.tick inj "accept4").run [.create .uvAccept .sock (.temp 0), .closeOwner (.temp 0) false]).setH i
          (fun h => { h with pending := h.pending - 1 })) := by
        refine CleanX.setH ?_ _ (fun x => ⟨rfl, rfl⟩)
        exact (h.tick _ _).createClose (temp_free (h.tick _ _) 0)
      obtain ⟨a, b, c⟩ := ih _ h1
      refine ⟨a, ?_, by rw [c]; simp⟩
      intro o hne hn
      apply b o hne
      simp only [own_setH]
      rw [run_cons]
      intro hc
      rcases own_run1_harmless (by rfl) hc with h2 | h2
      · rcases own_create (by simpa using h2 : Own (exec1 (s.tick inj "accept4").l.1 (.create .uvAccept .sock (.temp 0))) o)
          with h3 | h3 | ⟨_, h3⟩
        · subst h3
          exact notown_closeOwner ((s.tick inj "accept4").run [.create .uvAccept .sock (.temp 0)]).l.2 (o := .temp 0) (g := false) rfl rfl
            (by simpa using hc)
        · exact hn (by simpa using h3)
        · exact temp_free (h.tick inj "accept4") 0 h3
      · exact hne h2

theorem serverReady_spec {s : St} {i : Nat} (h : serverReady s = some i) :
    ∃ hh, s.liveH i = some hh ∧ isStream hh.kind = true ∧ s.has (.handle i .acc) = false := by
  unfold serverReady at h
  have := List.find?_some h
  cases hl : s.liveH i with
  | none => simp [hl] at this
  | some hh =>
    simp only [hl, Bool.and_eq_true, Bool.not_eq_true'] at this
    exact ⟨hh, rfl, this.1.1.1.1, this.2⟩

theorem ipcReady_spec {s : St} {i : Nat} (h : ipcReady s = some i) :
    ∃ hh, s.liveH i = some hh ∧ hh.kind = .pipe := by
  unfold ipcReady at h
  have := List.find?_some h
  cases hl : s.liveH i with
  | none => simp [hl] at this
  | some hh =>
    simp only [hl, Bool.and_eq_true, decide_eq_true_eq] at this
    exact ⟨hh, rfl, this.1.1.1⟩

theorem clean_serverEvent {s : St} (h : CleanX Z s) (hlo : s.loopOk = true) (inj : Inj) {i : Nat}
    (hr : serverReady s = some i) : CleanX Z (serverEvent s inj i) ∧ (serverEvent s inj i).loopOk = true := by
  obtain ⟨hh, hl, hst, hacc⟩ := serverReady_spec hr
  have hk := liveH_kindOf hl
  unfold serverEvent
  dsimp only
  split
  · split
    · split
      · exact ⟨h.tick _ _, by simpa using hlo⟩
      · rename_i hem
        have hcl : (Prim.closeOwner (.loop .emfile) false).ok = true := rfl
        have h1 : CleanX Z ((s.tick inj "accept4").run [.closeOwner (.loop .emfile) false]) :=
          (h.tick _ _).harmless (by simp [Prim.harmless])
        have hno : ¬ Own ((s.tick inj "accept4").run [.closeOwner (.loop .emfile) false]).l.1 (.loop .emfile) := by
          simpa using notown_closeOwner (s.tick inj "accept4").l.2 hcl rfl
        obtain ⟨a, b, c⟩ := shed_spec inj i ((s.h? i).getD { kind := .tcp }).pending _ h1
        have hlo' : (shed inj i ((s.h? i).getD { kind := .tcp }).pending
            ((s.tick inj "accept4").run [.closeOwner (.loop .emfile) false])).loopOk = true := by rw [c]; simpa using hlo
        split
        · exact ⟨(a.tick _ _).createOk (by simpa using b _ (by simp) hno) (by simpa [okO] using hlo'), by simpa using hlo'⟩
        · exact ⟨a.tick _ _, by simpa using hlo'⟩
    · exact ⟨h.tick _ _, by simpa using hlo⟩
  · have hfree : ¬ Own s.l.1 (.handle i .acc) := not_has_iff.mp hacc
    have hokacc : okO s (.handle i .acc) := ⟨hh.kind, hk, by simpa [slotOk] using hst⟩
    have h1 : CleanX Z ((((s.tick inj "accept4").run [.create .uvAccept (sockKind ((s.h? i).getD { kind := .tcp }).kind) (.handle i .acc)]).setH i
        (fun h => { h with pending := h.pending - 1 })).say s!"cb conn h{i} 0") := by
      apply CleanX.say
      refine CleanX.setH ?_ _ (fun x => ⟨rfl, rfl⟩)
      exact (h.tick _ _).createOk (by simpa using hfree) (by simpa using hokacc)
    have hok1 : okO ((((s.tick inj "accept4").run [.create .uvAccept (sockKind ((s.h? i).getD { kind := .tcp }).kind) (.handle i .acc)]).setH i
        (fun h => { h with pending := h.pending - 1 })).say s!"cb conn h{i} 0") (.handle i .acc) := by
      refine ⟨hh.kind, ?_, by simpa [slotOk] using hst⟩
      simp only [say_hs]
      rw [kindOf_setH]
      simpa using hk
    split
    · exact ⟨clean_cbAccept h1 (by simpa using hlo) hok1, by simpa using hlo⟩
    · exact ⟨h1, by simpa using hlo⟩

theorem recvCreate_spec (ks : List HKind) (j : Nat) (s : St) (h : CleanX (TX 0 j) s) :
    CleanX (TX 0 (j + ks.length)) (recvCreate j ks s) ∧ (recvCreate j ks s).hs = s.hs ∧
      (recvCreate j ks s).loopOk = s.loopOk := by
  induction ks generalizing j s with
  | nil => exact ⟨by simpa [recvCreate] using h, rfl, rfl⟩
  | cons k ks ih =>
    simp only [recvCreate]
    have h1 : CleanX (TX 0 (j + 1)) (s.run [.create .recvCmsg (ipcKind k) (.temp j)]) :=
      (h.create (TX_free h (by omega))).weaken (by
        rintro o (⟨k', hk', ha, hb⟩ | ho)
        · exact Or.inr ⟨k', hk', ha, by omega⟩
        · exact Or.inr ⟨j, ho, by omega, by omega⟩)
    obtain ⟨a, b, c⟩ := ih (j + 1) _ h1
    refine ⟨by simpa [Nat.add_assoc, Nat.add_comm 1] using a, by rw [b]; simp, by rw [c]; simp⟩

theorem TX_step_close {s : St} {j n : Nat} (h : CleanX (TX j (j + (n + 1))) s) :
    CleanX (TX (j + 1) (j + 1 + n)) (s.run [.closeOwner (.temp j) false]) :=
  (h.close (o := .temp j) (g := false) rfl rfl).weaken (by
    rintro o ⟨⟨k, hk, ha, hb⟩, hne⟩
    refine Or.inr ⟨k, hk, ?_, by omega⟩
    subst hk
    have : k ≠ j := fun hc => hne (by rw [hc])
    omega)

theorem recvQueue_spec (inj : Inj) (i : Nat) (n : Nat) (j : Nat) (s : St) (err : Bool)
    (h : CleanX (TX j (j + n)) s) (hk : kindOf s.hs i = some .pipe) :
    CleanX Z (recvQueue inj i j n s err).1 ∧ kindOf (recvQueue inj i j n s err).1.hs i = some .pipe ∧
      (recvQueue inj i j n s err).1.loopOk = s.loopOk := by
  induction n generalizing j s err with
  | zero =>
    exact ⟨by simpa [recvQueue] using h.weaken (Y := Z) (by rintro o ⟨k, _, ha, hb⟩; omega), by simpa [recvQueue] using hk,
           by simp [recvQueue]⟩
  | succ n ih =>
    have hokq : ∀ t : St, kindOf t.hs i = some .pipe → ∀ sl, okO t (.handle i sl) := fun t hk sl =>
      ⟨.pipe, hk, by cases sl <;> rfl⟩
    -- moving local `temp j` into the pending slot / the queue
    have hmoveq : ∀ t : St, CleanX (TX j (j + (n + 1))) t → kindOf t.hs i = some .pipe →
        CleanX (TX (j + 1) (j + 1 + n)) (t.run [.transfer (.temp j) (.handle i .q)]) := by
      intro t ht hkt
      exact (ht.transferToQ (by simp [Prim.ok, Owner.libuv]) rfl (by simp)).weaken (by
        rintro o (⟨⟨k, hk', ha, hb⟩, hne⟩ | ho)
        · refine Or.inr ⟨k, hk', ?_, by omega⟩
          subst hk'
          have : k ≠ j := fun hc => hne (by rw [hc])
          omega
        · subst ho; exact Or.inl (okO_run.mpr (hokq t hkt .q)))
    simp only [recvQueue]
    split
    · obtain ⟨a, b, c⟩ := ih (j + 1) _ true (TX_step_close h) (by simpa using hk)
      exact ⟨a, b, by rw [c]; simp⟩
    · split
      · rename_i hhas
        have hfree : ¬ Own s.l.1 (.handle i .acc) := not_has_iff.mp (by simpa using hhas)
        have h1 : CleanX (TX (j + 1) (j + 1 + n)) (s.run [.transfer (.temp j) (.handle i .acc)]) :=
          (h.transfer (by simp [Prim.ok, Owner.libuv]) rfl (by simp) hfree).weaken (by
            rintro o (⟨⟨k, hk', ha, hb⟩, hne⟩ | ho)
            · refine Or.inr ⟨k, hk', ?_, by omega⟩
              subst hk'
              have : k ≠ j := fun hc => hne (by rw [hc])
              omega
            · subst ho; exact Or.inl (okO_run.mpr (hokq s hk .acc)))
        obtain ⟨a, b, c⟩ := ih (j + 1) _ false h1 (by simpa using hk)
        exact ⟨a, b, by rw [c]; simp⟩
      · split
        · split
          · obtain ⟨a, b, c⟩ := ih (j + 1) _ true (TX_step_close (h.tick inj "malloc")) (by simpa using hk)
            exact ⟨a, b, by rw [c]; simp⟩
          · have h1 := (hmoveq _ (h.tick inj "malloc") (by simpa using hk)).setH i (f := fun h => { h with qsize := 8 })
              (fun x => ⟨rfl, rfl⟩)
            obtain ⟨a, b, c⟩ := ih (j + 1) _ false h1 (by rw [kindOf_setH]; simpa using hk)
            exact ⟨a, b, by rw [c]; simp⟩
        · split
          · split
            · obtain ⟨a, b, c⟩ := ih (j + 1) _ true (TX_step_close (h.tick inj "realloc")) (by simpa using hk)
              exact ⟨a, b, by rw [c]; simp⟩
            · have h1 := (hmoveq _ (h.tick inj "realloc") (by simpa using hk)).setH i (f := fun h => { h with qsize := h.qsize + 8 })
                (fun x => ⟨rfl, rfl⟩)
              obtain ⟨a, b, c⟩ := ih (j + 1) _ false h1 (by rw [kindOf_setH]; simpa using hk)
              exact ⟨a, b, by rw [c]; simp⟩
          · obtain ⟨a, b, c⟩ := ih (j + 1) _ false (hmoveq _ h hk) (by simpa using hk)
            exact ⟨a, b, by rw [c]; simp⟩

theorem ipcAcceptAll_spec (inj : Inj) (i : Nat) (n : Nat) (s : St) (h : CleanX Z s)
    (hk : kindOf s.hs i = some .pipe) (hlo : s.loopOk = true) :
    CleanX Z (ipcAcceptAll inj i n s) ∧ kindOf (ipcAcceptAll inj i n s).hs i = some .pipe ∧
      (ipcAcceptAll inj i n s).loopOk = true := by
  induction n generalizing s with
  | zero => exact ⟨h, hk, hlo⟩
  | succ n ih =>
    simp only [ipcAcceptAll]
    split
    · exact ⟨h, hk, hlo⟩
    · exact ih _ (clean_cbAccept h hlo ⟨.pipe, hk, rfl⟩) (cbAccept_kindOf hk) (by simpa using hlo)

theorem clean_ipcEvent {s : St} (h : CleanX Z s) (hlo : s.loopOk = true) (inj : Inj) {i : Nat}
    (hr : ipcReady s = some i) : CleanX Z (ipcEvent s inj i) ∧ (ipcEvent s inj i).loopOk = true := by
  obtain ⟨hh, hl, hkp⟩ := ipcReady_spec hr
  have hk : kindOf s.hs i = some .pipe := hkp ▸ liveH_kindOf hl
  unfold ipcEvent
  dsimp only
  generalize ((s.h? i).getD { kind := .pipe }).inflight.headD [] = batch
  let P : St → Prop := fun s => CleanX Z s ∧ kindOf s.hs i = some .pipe ∧ s.loopOk = true
  have hokq : ∀ s : St, kindOf s.hs i = some .pipe → ∀ sl, okO s (.handle i sl) := fun s hk sl =>
    ⟨.pipe, hk, by cases sl <;> rfl⟩
  have h00 : CleanX Z (s.setH i (fun h => { h with inflight := h.inflight.tail })) := by
    refine CleanX.setH h _ ?_; intro x; exact ⟨rfl, rfl⟩
  have h0 : CleanX (TX 0 0) (s.setH i (fun h => { h with inflight := h.inflight.tail })) :=
    h00.weaken (fun o ho => ho.elim)
  obtain ⟨c1, c2, c3⟩ := recvCreate_spec batch 0 _ h0
  obtain ⟨q1, q2, q3⟩ := recvQueue_spec inj i batch.length 0 _ false
    c1 (by rw [c2, kindOf_setH]; exact hk)
  have hloq : (recvQueue inj i 0 batch.length
      (recvCreate 0 batch (s.setH i (fun h => { h with inflight := h.inflight.tail }))) false).1.loopOk = true := by
    rw [q3, c3]; simpa using hlo
  split
  · refine ⟨?_, by simpa using hloq⟩
    refine CleanX.setH q1 _ ?_
    intro x; exact ⟨rfl, rfl⟩
  · have h2 : P ((recvQueue inj i 0 batch.length
        (recvCreate 0 batch (s.setH i (fun h => { h with inflight := h.inflight.tail }))) false).1.say s!"cb read h{i} 1") :=
      ⟨q1.say _, by simpa using q2, by simpa using hloq⟩
    split
    · obtain ⟨a3, _, c3'⟩ := ipcAcceptAll_spec inj i _ _ h2.1 h2.2.1 h2.2.2
      exact ⟨a3, c3'⟩
    · exact ⟨h2.1, h2.2.2⟩

theorem clean_runLoop (inj : Inj) (n : Nat) (s : St) (h : CleanX Z s) (hlo : s.loopOk = true) :
    CleanX Z (runLoop inj n s) ∧ (runLoop inj n s).loopOk = true := by
  induction n generalizing s with
  | zero => exact ⟨h, hlo⟩
  | succ n ih =>
    unfold runLoop
    split
    · exact ⟨h, hlo⟩
    · rename_i s' hs'
      unfold runStep at hs'
      split at hs'
      · rename_i i hi
        cases hs'
        obtain ⟨a, b⟩ := clean_serverEvent h hlo inj hi
        exact ih _ a b
      · split at hs'
        · rename_i i hi
          cases hs'
          obtain ⟨a, b⟩ := clean_ipcEvent h hlo inj hi
          exact ih _ a b
        · cases hs'

theorem clean_opRun {s : St} (h : CleanX Z s) (hlo : s.loopOk = true) (inj : Inj) : CleanX Z (opRun s inj) := by
  unfold opRun
  dsimp only
  apply CleanX.ret
  obtain ⟨a, _⟩ := clean_runLoop inj (runFuel s) s h hlo
  intro o ho
  rcases a o ho with h1 | h1
  · left
    cases o with
    | handle hh sl =>
      obtain ⟨k, hk1, hk2⟩ := h1
      refine ⟨k, ?_, hk2⟩
      unfold kindOf at hk1 ⊢
      simp only [List.getElem?_map]
      cases hx : (runLoop inj (runFuel s) s).hs[hh]? with
      | none => simp [hx] at hk1
      | some x =>
        simp only [hx] at hk1
        split at hk1
        · rename_i hst
          cases hk1
          have hnp : x.kind ≠ .proc := by
            intro hc; rw [hc] at hk2; cases sl <;> simp [slotOk, isStream] at hk2
          simp [hst, hnp]
        · cases hk1
    | _ => exact h1
  · exact h1.elim

/-! ### uv_spawn -/


theorem CleanX.closeTemps {X : Owner → Prop} {s : St} (h : CleanX X s) (ks : List Nat) :
    CleanX (fun x => X x ∧ ∀ k ∈ ks, x ≠ .temp k) (s.run (ks.map (fun k => Prim.closeOwner (.temp k) false))) := by
  induction ks generalizing X s with
  | nil => rw [List.map_nil, run_nil]; exact h.weaken (fun o ho => Or.inr ⟨ho, by simp⟩)
  | cons k ks ih =>
    rw [List.map_cons, run_cons]
    exact (ih (h.close (o := .temp k) (g := false) rfl rfl)).weaken (by
      intro o ⟨⟨hx, hne⟩, hall⟩
      refine Or.inr ⟨hx, ?_⟩
      intro k' hk'
      rcases List.mem_cons.mp hk' with rfl | hk'
      · exact hne
      · exact hall k' hk')

theorem CleanX.sweep {s : St} {a b : Nat} (h : CleanX (TX a b) s) : CleanX Z (s.run (sweepPrims a b)) := by
  unfold sweepPrims
  exact (h.closeTemps _).weaken (by
    intro o ⟨⟨k, hk, ha, hb⟩, hall⟩
    exact absurd hk (hall k (List.mem_range'_1.mpr ⟨ha, by omega⟩)))


theorem initStdio_spec (inj : Inj) (cs : List Cont) (s : St) (m : Nat) (h : CleanX (TX 0 (2 * m)) s) :
    ((initStdio inj s m cs).2 = none → CleanX Z (initStdio inj s m cs).1) ∧
    (∀ M, (initStdio inj s m cs).2 = some M →
      CleanX (TX 0 (2 * M)) (initStdio inj s m cs).1 ∧ M = m + (pipeHandles cs).length) ∧
    (initStdio inj s m cs).1.hs = s.hs := by
  induction cs generalizing s m with
  | nil =>
    refine ⟨by simp [initStdio], ?_, by simp [initStdio]⟩
    intro M hM
    simp only [initStdio, Option.some.injEq] at hM
    subst hM
    exact ⟨by simpa [initStdio] using h, by simp [pipeHandles]⟩
  | cons c cs ih =>
    cases c with
    | pipe hp =>
      simp only [initStdio]
      cases hf : s.fails inj "socketpair" with
      | some e => exact ⟨fun _ => (h.tick _ _).sweep, by simp, by simp⟩
      | none =>
        simp only []
        have h0 := h.tick inj "socketpair"
        have h1 := h0.create (site := .socketpair) (kind := .sock) (o := .temp (2 * m)) (TX_free h0 (by omega))
        have h2 := h1.create (site := .socketpair) (kind := .sock) (o := .temp (2 * m + 1))
          (h1.absent (fun hc => hc) (by
            rintro (⟨k, hk, _, h3⟩ | hk)
            · have := temp_inj hk; omega
            · have := temp_inj hk; omega))
        have h3 : CleanX (TX 0 (2 * (m + 1))) ((s.tick inj "socketpair").run
            [.create .socketpair .sock (.temp (2 * m)), .create .socketpair .sock (.temp (2 * m + 1))]) := by
          rw [run_cons]
          exact h2.weaken (by
            rintro o ((⟨k, hk, ha, hb⟩ | hk) | hk)
            · exact Or.inr ⟨k, hk, ha, by omega⟩
            · exact Or.inr ⟨_, hk, by omega, by omega⟩
            · exact Or.inr ⟨_, hk, by omega, by omega⟩)
        obtain ⟨a, b, c⟩ := ih _ (m + 1) h3
        refine ⟨a, ?_, by rw [c]; simp⟩
        intro M hM
        obtain ⟨b1, b2⟩ := b M hM
        exact ⟨b1, by simp [pipeHandles] at b2 ⊢; omega⟩
    | stream hp =>
      simp only [initStdio]
      cases hh : s.has (.handle hp .io) with
      | true => simpa [pipeHandles] using ih s m h
      | false => exact ⟨fun _ => by simpa using h.sweep, by simp, by simp⟩
    | ignore => simpa [initStdio, pipeHandles] using ih s m h
    | fd f => simpa [initStdio, pipeHandles] using ih s m h

theorem openStreams_spec (M : Nat) (rest : List Nat) (s : St) (m : Nat) (done : List Nat)
    (h : CleanX (TX (2 * m) (2 * M)) s) (hp : ∀ x ∈ rest, kindOf s.hs x = some .pipe) :
    ((openStreams M s m done rest).2 = false → CleanX Z (openStreams M s m done rest).1) ∧
    ((openStreams M s m done rest).2 = true → CleanX (TX (2 * (m + rest.length)) (2 * M)) (openStreams M s m done rest).1) ∧
    (∀ x k, kindOf s.hs x = some k → kindOf (openStreams M s m done rest).1.hs x = some k) := by
  induction rest generalizing s m done with
  | nil => exact ⟨by simp [openStreams], by simpa [openStreams] using h, by simp [openStreams]⟩
  | cons hd rest ih =>
    simp only [openStreams]
    have h1 := h.close (o := .temp (2 * m + 1)) (g := false) rfl rfl
    split
    · -- UV_EBUSY
      refine ⟨fun _ => ?_, by simp, ?_⟩
      · have h2 : CleanX (TX (2 * m) (2 * M)) (done.foldl (fun s hj => s.run (streamClosePrims hj))
            (s.run [.closeOwner (.temp (2 * m + 1)) false])) := by
          apply foldl_pres (fun s => CleanX (TX (2 * m) (2 * M)) s)
          · exact h1.weaken (fun o ho => Or.inr ho.1)
          · intro a b ha
            exact ha.harmless (by simp [streamClosePrims, Prim.harmless])
        exact h2.sweep
      · intro x k hk
        have : (done.foldl (fun s hj => s.run (streamClosePrims hj)) (s.run [.closeOwner (.temp (2 * m + 1)) false])).hs = s.hs := by
          apply foldl_pres (fun t : St => t.hs = s.hs)
          · simp
          · intro a b ha; simpa using ha
        simpa [this] using hk
    · rename_i hhas
      have hfree : ¬ Own (s.run [.closeOwner (.temp (2 * m + 1)) false]).l.1 (.handle hd .io) :=
        not_has_iff.mp (by simpa using hhas)
      have htr : (Prim.transfer (.temp (2 * m)) (.handle hd .io)).ok = true := by simp [Prim.ok, Owner.libuv]
      have hkp : kindOf s.hs hd = some .pipe := hp hd (List.mem_cons_self ..)
      have h2 : CleanX (TX (2 * (m + 1)) (2 * M)) (((s.run [.closeOwner (.temp (2 * m + 1)) false]).run
          [.transfer (.temp (2 * m)) (.handle hd .io)]).setH hd (fun x => { x with readable := true })) := by
        refine CleanX.setH ?_ _ (fun x => ⟨rfl, rfl⟩)
        exact (h1.transfer htr rfl (by simp) hfree).weaken (by
          rintro o (⟨⟨⟨k, hk, ha, hb⟩, hne1⟩, hne0⟩ | ho)
          · refine Or.inr ⟨k, hk, ?_, hb⟩
            subst hk
            have : k ≠ 2 * m + 1 := fun hc => hne1 (by rw [hc])
            have : k ≠ 2 * m := fun hc => hne0 (by rw [hc])
            omega
          · subst ho
            exact Or.inl (by simpa [okO] using ⟨HKind.pipe, hkp, rfl⟩))
      have hp' : ∀ x ∈ rest, kindOf (((s.run [.closeOwner (.temp (2 * m + 1)) false]).run
          [.transfer (.temp (2 * m)) (.handle hd .io)]).setH hd (fun x => { x with readable := true })).hs x = some .pipe := by
        intro x hx
        rw [kindOf_setH]
        simpa using hp x (List.mem_cons_of_mem _ hx)
      obtain ⟨a, b, c⟩ := ih _ (m + 1) (hd :: done) h2 hp'
      refine ⟨a, ?_, ?_⟩
      · intro ht
        have := b ht
        simpa [Nat.add_assoc, Nat.add_comm 1] using this
      · intro x k hk
        apply c
        rw [kindOf_setH]
        simpa using hk

theorem spawnExecPipe_spec {s : St} {M : Nat} (h : CleanX (TX 0 (2 * M)) s) (inj : Inj) :
    CleanX (TX 0 (2 * M)) (spawnExecPipe s inj M) ∧ (spawnExecPipe s inj M).hs = s.hs := by
  unfold spawnExecPipe
  split
  · exact ⟨h.tick _ _, by simp⟩
  · refine ⟨?_, by simp⟩
    have t0 := h.tick inj "pipe2"
    have t1 := t0.create (site := .pipe2) (kind := .pipe) (o := .temp (2 * M)) (TX_free t0 (by omega))
    have t2 := t1.create (site := .pipe2) (kind := .pipe) (o := .temp (2 * M + 1))
      (t1.absent (fun hc => hc) (by
        rintro (⟨k, hk, _, h3⟩ | hk)
        · have := temp_inj hk; omega
        · have := temp_inj hk; omega))
    have t3 := ((t2.tick inj "fork").close (o := .temp (2 * M + 1)) (g := false) rfl rfl).close (o := .temp (2 * M)) (g := false) rfl rfl
    have e2 : ∀ (t : St) (a b : Prim), t.run [a, b] = (t.run [a]).run [b] := fun t a b => run_cons t a [b]
    rw [e2, e2]
    exact t3.weaken (by
      rintro o ⟨⟨(ho | ho) | ho, h1⟩, h2⟩
      · exact Or.inr ho
      · exact absurd ho h2
      · exact absurd ho h1)

theorem clean_spawnOp {s : St} (h : CleanX Z s) (inj : Inj) (ok : Bool) (cs : List Cont)
    (hp : ∀ x ∈ pipeHandles cs, kindOf s.hs x = some .pipe) : CleanX Z (spawnOp s inj ok cs) := by
  unfold spawnOp
  dsimp only
  have h0 : CleanX (TX 0 (2 * 0)) (s.newH { kind := .proc }) := (h.newH _).weaken (fun o ho => ho.elim)
  have hkp : kindOf (s.newH { kind := .proc }).hs s.hs.length = some .proc := by simp [kindOf_new]
  obtain ⟨specN, specS, hhs⟩ := initStdio_spec inj cs _ 0 h0
  -- the process handle never owns a descriptor
  have pfree : ∀ t : St, CleanX Z t → kindOf t.hs s.hs.length = some .proc → ∀ sl, ¬ Own t.l.1 (.handle s.hs.length sl) :=
    fun t ht hk sl => slot_absent ht hk (by cases sl <;> rfl)
  split
  · rename_i s1 heq
    rw [heq] at specN hhs
    apply CleanX.ret
    exact CleanX.setH_free (specN rfl) _ (pfree _ (specN rfl) (by rw [hhs]; exact hkp))
  · rename_i s1 M heq
    rw [heq] at specS hhs
    obtain ⟨spec1, hM⟩ := specS M rfl
    obtain ⟨hs2a, hs2b⟩ := spawnExecPipe_spec spec1 inj
    have hp2 : ∀ x ∈ pipeHandles cs, kindOf (spawnExecPipe s1 inj M).hs x = some .pipe := by
      intro x hx
      rw [hs2b, hhs]
      simpa using kindOf_append _ (hp x hx)
    obtain ⟨a, b, c⟩ := openStreams_spec M (pipeHandles cs) _ 0 [] (by simpa using hs2a) hp2
    have hkfin : kindOf (openStreams M (spawnExecPipe s1 inj M) 0 [] (pipeHandles cs)).1.hs s.hs.length = some .proc :=
      c _ _ (by rw [hs2b, hhs]; exact hkp)
    split
    · rename_i s3 heq3
      rw [heq3] at a hkfin
      apply CleanX.ret
      exact CleanX.setH_free (a rfl) _ (pfree _ (a rfl) hkfin)
    · rename_i s3 heq3
      rw [heq3] at b hkfin
      have hz : CleanX Z s3 := (b rfl).weaken (by
        rintro o ⟨k, _, h1, h2⟩
        omega)
      split
      · exact hz.ret _
      · apply CleanX.ret
        exact CleanX.setH_free hz _ (pfree _ hz hkfin)

theorem clean_opSpawn {s : St} (h : CleanX Z s) (inj : Inj) (ok : Bool) (cs : List Cont) : CleanX Z (opSpawn s inj ok cs) := by
  unfold opSpawn
  split
  · exact h.bad
  · rename_i hany
    apply clean_spawnOp h
    intro x hx
    unfold pipeHandles at hx
    obtain ⟨c, hc, hcx⟩ := List.mem_filterMap.mp hx
    cases c with
    | pipe hh =>
      simp only [Option.some.injEq] at hcx
      subst hcx
      rw [Bool.not_eq_true] at hany
      have := List.any_eq_false.mp hany _ hc
      simp only [ne_eq, decide_not, Bool.not_eq_true', decide_eq_false_iff_not, Decidable.not_not] at this
      cases hl : s.liveH hh with
      | none => simp [hl] at this
      | some y =>
        simp only [hl, Option.map_some, Option.some.injEq] at this
        rw [← this]
        exact liveH_kindOf hl
    | _ => simp at hcx

/-! ### fork() + uv_loop_fork in the child -/

theorem notown_create_persist {s : St} {site : Site} {kind : Kind} {o o' : Owner} (h : ¬ Own s.l.1 o) (hne : o ≠ o')
    (hl : o ≠ .leaked) : ¬ Own (s.run [.create site kind o']).l.1 o := by
  intro hc
  rcases own_create (by simpa using hc) with h1 | h1 | ⟨h1, _⟩
  · exact hne h1
  · exact h h1
  · exact hl h1

theorem clean_ring_ok {s : St} (h : CleanX Z s) (hlo : s.loopOk = true) (hfree : ¬ Own s.l.1 (.loop .ring)) (inj : Inj) :
    CleanX Z (loopInitRing s inj) := by
  unfold loopInitRing
  split
  · exact h.tick _ _
  · exact (h.tick _ _).createOk (by simpa using hfree) (by simpa [okO] using hlo)

theorem notown_ring {s : St} {inj : Inj} {o : Owner} (h : ¬ Own s.l.1 o) (hne : o ≠ .loop .ring) (hl : o ≠ .leaked) :
    ¬ Own (loopInitRing s inj).l.1 o := by
  unfold loopInitRing
  split
  · simpa using h
  · exact notown_create_persist (by simpa using h) hne hl

@[simp] theorem ring_hs (s : St) (inj : Inj) : (loopInitRing s inj).hs = s.hs := by
  unfold loopInitRing; split <;> simp

theorem clean_forkSignal {s : St} (h : CleanX Z s) (hlo : s.loopOk = true) (inj : Inj) : CleanX Z (forkSignal s inj) := by
  unfold forkSignal
  dsimp only
  have h1 : CleanX Z (s.run [.closeOwner (.loop .sig0) false, .closeOwner (.loop .sig1) false]) :=
    h.harmless (by simp [Prim.harmless])
  have f0 : ¬ Own (s.run [.closeOwner (.loop .sig0) false, .closeOwner (.loop .sig1) false]).l.1 (.loop .sig0) := by
    rw [run_cons]
    exact notown_persist (ps := [.closeOwner (.loop .sig1) false]) (by simp [Prim.harmless]) (by simp)
      (by simpa using notown_closeOwner s.l.2 (o := .loop .sig0) (g := false) rfl rfl)
  have f1 : ¬ Own (s.run [.closeOwner (.loop .sig0) false, .closeOwner (.loop .sig1) false]).l.1 (.loop .sig1) := by
    rw [run_cons]
    simpa using notown_closeOwner (s.run [.closeOwner (.loop .sig0) false]).l.2 (o := .loop .sig1) (g := false) rfl rfl
  split
  · exact (h1.tick _ _).ret _
  · apply CleanX.ret
    rw [run_cons]
    have h2 := (h1.tick inj "pipe2").createOk (site := .pipe2) (kind := .pipe) (o := .loop .sig0) (by simpa using f0)
      (by simpa [okO] using hlo)
    exact h2.createOk (notown_create_persist (by simpa using f1) (by simp) (by simp)) (by simpa [okO] using hlo)

theorem clean_forkAsync {s : St} (h : CleanX Z s) (hlo : s.loopOk = true) (inj : Inj) : CleanX Z (forkAsync s inj) := by
  unfold forkAsync
  dsimp only
  have h1 : CleanX Z (s.run [.closeOwner (.loop .async) false]) := h.harmless (by simp [Prim.harmless])
  have f0 : ¬ Own (s.run [.closeOwner (.loop .async) false]).l.1 (.loop .async) := by
    simpa using notown_closeOwner s.l.2 (o := .loop .async) (g := false) rfl rfl
  split
  · exact (h1.tick _ _).ret _
  · exact clean_forkSignal ((h1.tick inj "eventfd").createOk (by simpa using f0) (by simpa [okO] using hlo)) (by simpa using hlo) inj

theorem clean_forkIo {s : St} (h : CleanX Z s) (hlo : s.loopOk = true) (inj : Inj) : CleanX Z (forkIo s inj) := by
  unfold forkIo
  dsimp only
  have h1 : CleanX Z (s.run [.closeOwner (.loop .backend) false, .closeOwner (.loop .ring) false, .closeOwner (.loop .inotify) false]) :=
    h.harmless (by simp [Prim.harmless])
  have fb : ¬ Own (s.run [.closeOwner (.loop .backend) false, .closeOwner (.loop .ring) false, .closeOwner (.loop .inotify) false]).l.1
      (.loop .backend) := by
    rw [run_cons]
    exact notown_persist (ps := [.closeOwner (.loop .ring) false, .closeOwner (.loop .inotify) false]) (by simp [Prim.harmless]) (by simp)
      (by simpa using notown_closeOwner s.l.2 (o := .loop .backend) (g := false) rfl rfl)
  have fr : ¬ Own (s.run [.closeOwner (.loop .backend) false, .closeOwner (.loop .ring) false, .closeOwner (.loop .inotify) false]).l.1
      (.loop .ring) := by
    rw [run_cons, run_cons]
    exact notown_persist (ps := [.closeOwner (.loop .inotify) false]) (by simp [Prim.harmless]) (by simp)
      (by simpa using notown_closeOwner (s.run [.closeOwner (.loop .backend) false]).l.2 (o := .loop .ring) (g := false) rfl rfl)
  have fi : ¬ Own (s.run [.closeOwner (.loop .backend) false, .closeOwner (.loop .ring) false, .closeOwner (.loop .inotify) false]).l.1
      (.loop .inotify) := by
    rw [run_cons, run_cons]
    simpa using notown_closeOwner ((s.run [.closeOwner (.loop .backend) false]).run [.closeOwner (.loop .ring) false]).l.2
      (o := .loop .inotify) (g := false) rfl rfl
  split
  · exact (h1.tick _ _).ret _
  · have h2 := (h1.tick inj "epoll_create1").createOk (site := .epollCreate) (kind := .epoll) (o := .loop .backend)
      (by simpa using fb) (by simpa [okO] using hlo)
    have fr2 := notown_create_persist (site := .epollCreate) (kind := .epoll) (o' := .loop .backend)
      (s := (s.run [.closeOwner (.loop .backend) false, .closeOwner (.loop .ring) false, .closeOwner (.loop .inotify) false]).tick inj "epoll_create1")
      (by simpa using fr) (by simp) (by simp)
    have fi2 := notown_create_persist (site := .epollCreate) (kind := .epoll) (o' := .loop .backend)
      (s := (s.run [.closeOwner (.loop .backend) false, .closeOwner (.loop .ring) false, .closeOwner (.loop .inotify) false]).tick inj "epoll_create1")
      (by simpa using fi) (by simp) (by simp)
    have h3 := clean_ring_ok h2 (by simpa using hlo) fr2 inj
    have fi3 := notown_ring (inj := inj) fi2 (by simp) (by simp)
    have hlo3 : (loopInitRing (((s.run [.closeOwner (.loop .backend) false, .closeOwner (.loop .ring) false,
        .closeOwner (.loop .inotify) false]).tick inj "epoll_create1").run [.create .epollCreate .epoll (.loop .backend)]) inj).loopOk = true := by
      simpa using hlo
    split
    · split
      · exact (h3.tick _ _).ret _
      · exact clean_forkAsync ((h3.tick inj "inotify_init1").createOk (by simpa using fi3) (by simpa [okO] using hlo3))
          (by simpa using hlo3) inj
    · exact clean_forkAsync h3 hlo3 inj

theorem clean_forkLock {s : St} (h : CleanX Z s) (inj : Inj) : CleanX Z (forkLock s inj) ∧ (forkLock s inj).loopOk = s.loopOk := by
  unfold forkLock
  split
  · rename_i hld
    refine ⟨?_, by simp⟩
    have h1 : CleanX Z (s.run [.closeOwner (.glob 0) false, .closeOwner (.glob 1) false]) := h.harmless (by simp [Prim.harmless])
    have f0 : ¬ Own (s.run [.closeOwner (.glob 0) false, .closeOwner (.glob 1) false]).l.1 (.glob 0) := by
      rw [run_cons]
      exact notown_persist (ps := [.closeOwner (.glob 1) false]) (by simp [Prim.harmless]) (by simp)
        (by simpa using notown_closeOwner s.l.2 (o := .glob 0) (g := false) rfl rfl)
    have f1 : ¬ Own (s.run [.closeOwner (.glob 0) false, .closeOwner (.glob 1) false]).l.1 (.glob 1) := by
      rw [run_cons]
      simpa using notown_closeOwner (s.run [.closeOwner (.glob 0) false]).l.2 (o := .glob 1) (g := false) rfl rfl
    rw [run_cons]
    have h2 := (h1.tick inj "pipe2").createOk (site := .pipe2) (kind := .pipe) (o := .glob 0) (by simpa using f0)
      (by simpa [okO] using hld)
    exact h2.createOk (notown_create_persist (by simpa using f1) (by simp) (by simp)) (by simpa [okO] using hld)
  · exact ⟨h, rfl⟩

theorem clean_opFork {s : St} (h : CleanX Z s) (inj : Inj) : CleanX Z (opFork s inj) := by
  unfold opFork
  dsimp only
  obtain ⟨a, b⟩ := clean_forkLock h inj
  split
  · rename_i hlo
    exact clean_forkIo a hlo inj
  · exact a.ret _

/-! ### every operation of the catalogue, every injected failure -/

theorem clean_step {s : St} (h : Clean s) (inj : Inj) (op : Op) : Clean (step s inj op) := by
  rw [clean_iff] at h ⊢
  have h0 : CleanX Z ({ s with cnt := [] } : St) := h.frame rfl (fun _ _ hk => hk) id id
  unfold step
  cases op <;> dsimp only
  case loopInit => exact clean_opLoopInit h0 inj
  case loopClose => exact clean_opLoopClose h0
  case ufd k a => exact clean_opUfd h0 k a
  case uclose f => exact clean_opUclose h0 f
  case uvPipe => exact clean_opUvPipe h0 inj
  case uvSocketpair => exact clean_opUvSocketpair h0 inj
  case end_ => exact (h0.harmless (by simp [Prim.harmless])).ret _
  case fork => exact clean_opFork h0 inj
  case tcpInit af =>
    split
    · exact h0.bad
    · rename_i hlo
      have hlo' : ({ s with cnt := [] } : St).loopOk = true := by simpa using hlo
      exact clean_opTcpInit h0 hlo' inj af
  case pipeInit ipc =>
    split
    · exact h0.bad
    · rename_i hlo
      have hlo' : ({ s with cnt := [] } : St).loopOk = true := by simpa using hlo
      exact ((h0.newH _).emfileInit (by simpa using hlo') inj).ret _
  case udpInit af =>
    split
    · exact h0.bad
    · rename_i hlo
      have hlo' : ({ s with cnt := [] } : St).loopOk = true := by simpa using hlo
      exact clean_opUdpInit h0 inj af
  case ttyInit f =>
    split
    · exact h0.bad
    · rename_i hlo
      have hlo' : ({ s with cnt := [] } : St).loopOk = true := by simpa using hlo
      exact clean_opTtyInit h0 hlo' inj f
  case pollInit f =>
    split
    · exact h0.bad
    · rename_i hlo
      have hlo' : ({ s with cnt := [] } : St).loopOk = true := by simpa using hlo
      exact clean_opPollInit h0 f
  case asyncInit =>
    split
    · exact h0.bad
    · rename_i hlo
      have hlo' : ({ s with cnt := [] } : St).loopOk = true := by simpa using hlo
      exact (h0.newH _).ret _
  case signalStart =>
    split
    · exact h0.bad
    · rename_i hlo
      have hlo' : ({ s with cnt := [] } : St).loopOk = true := by simpa using hlo
      exact (h0.newH _).ret _
  case fsEventStart ok =>
    split
    · exact h0.bad
    · rename_i hlo
      have hlo' : ({ s with cnt := [] } : St).loopOk = true := by simpa using hlo
      exact clean_opFsEventStart h0 hlo' inj ok
  case open_ a b =>
    split
    · exact h0.bad
    · rename_i hlo
      have hlo' : ({ s with cnt := [] } : St).loopOk = true := by simpa using hlo
      exact clean_opOpen h0 inj a b
  case bind a v o =>
    split
    · exact h0.bad
    · rename_i hlo
      have hlo' : ({ s with cnt := [] } : St).loopOk = true := by simpa using hlo
      exact clean_opBind h0 inj a v
  case listen a =>
    split
    · exact h0.bad
    · rename_i hlo
      have hlo' : ({ s with cnt := [] } : St).loopOk = true := by simpa using hlo
      exact clean_opListen h0 inj a
  case connect a t =>
    split
    · exact h0.bad
    · rename_i hlo
      have hlo' : ({ s with cnt := [] } : St).loopOk = true := by simpa using hlo
      exact clean_opConnect h0 inj a t
  case accept a b =>
    split
    · exact h0.bad
    · rename_i hlo
      have hlo' : ({ s with cnt := [] } : St).loopOk = true := by simpa using hlo
      exact clean_opAccept h0 inj a b
  case close a =>
    split
    · exact h0.bad
    · rename_i hlo
      have hlo' : ({ s with cnt := [] } : St).loopOk = true := by simpa using hlo
      exact clean_opClose h0 a
  case run =>
    split
    · exact h0.bad
    · rename_i hlo
      have hlo' : ({ s with cnt := [] } : St).loopOk = true := by simpa using hlo
      exact clean_opRun h0 hlo' inj
  case fsOpen v =>
    split
    · exact h0.bad
    · rename_i hlo
      have hlo' : ({ s with cnt := [] } : St).loopOk = true := by simpa using hlo
      exact clean_opFsOpen h0 inj v
  case fsMkstemp =>
    split
    · exact h0.bad
    · rename_i hlo
      have hlo' : ({ s with cnt := [] } : St).loopOk = true := by simpa using hlo
      exact (h0.harmless (by simp [Prim.harmless])).say _
  case fsClose f =>
    split
    · exact h0.bad
    · rename_i hlo
      have hlo' : ({ s with cnt := [] } : St).loopOk = true := by simpa using hlo
      exact clean_opFsClose h0 f
  case fsCopyfile v =>
    split
    · exact h0.bad
    · rename_i hlo
      have hlo' : ({ s with cnt := [] } : St).loopOk = true := by simpa using hlo
      exact clean_opFsCopyfile h0 inj v
  case flood a n =>
    split
    · exact h0.bad
    · rename_i hlo
      have hlo' : ({ s with cnt := [] } : St).loopOk = true := by simpa using hlo
      exact clean_opFlood h0 a n
  case util =>
    split
    · exact h0.bad
    · rename_i hlo
      have hlo' : ({ s with cnt := [] } : St).loopOk = true := by simpa using hlo
      exact h0.ret _
  case ipcSend f a ks =>
    split
    · exact h0.bad
    · rename_i hlo
      have hlo' : ({ s with cnt := [] } : St).loopOk = true := by simpa using hlo
      exact clean_opIpcSend h0 f a ks
  case spawn ok cs =>
    split
    · exact h0.bad
    · rename_i hlo
      have hlo' : ({ s with cnt := [] } : St).loopOk = true := by simpa using hlo
      exact clean_opSpawn h0 inj ok cs
  case sockopt a ka =>
    split
    · exact h0.bad
    · exact clean_opSockopt h0 inj a ka
  case policy a b =>
    split
    · exact h0.bad
    · split <;> clean_frame
  case readStart a =>
    split
    · exact h0.bad
    · split
      · exact h0.bad
      · split <;> clean_frame

theorem clean_init : Clean ({} : St) := by
  intro o ⟨e, he, _⟩
  simp at he

end UvModel.FdLedger
