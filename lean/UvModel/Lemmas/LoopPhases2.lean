import UvModel.Lemmas.LoopPhases
/-!
  The poll loop (`uv__io_poll`): trace extension with the bound on every timeout handed to `epoll_pwait`
  (`pollLoop_ext`, `ioPoll_ext`; the proposition `G` switches the bound and its hypotheses on or off), and the
  phase order of one loop iteration (`Mono`, `iteration_mono`).
-/
namespace UvModel.Loop.Phases
open UvModel.Loop UvModel.HandleKernels

/-! ### general trace extension -/
def TrExt (P : Event → Prop) (s0 s : State) : Prop := ∃ new, s.trace = new ++ s0.trace ∧ ∀ e ∈ new, P e

theorem TrExt.refl (P : Event → Prop) (s : State) : TrExt P s s := ⟨[], rfl, by simp⟩

theorem TrExt.upd {P : Event → Prop} {s0 s s' : State} (hi : TrExt P s0 s) (h1 : s'.trace = s.trace) : TrExt P s0 s' := by
  obtain ⟨n, t, p⟩ := hi
  exact ⟨n, h1.trans t, p⟩

theorem TrExt.trans {P : Event → Prop} {a b c : State} (h1 : TrExt P a b) (h2 : TrExt P b c) : TrExt P a c := by
  obtain ⟨n1, t1, p1⟩ := h1
  obtain ⟨n2, t2, p2⟩ := h2
  refine ⟨n2 ++ n1, by rw [t2, t1, List.append_assoc], ?_⟩
  intro e he
  rcases List.mem_append.1 he with h | h
  · exact p2 e h
  · exact p1 e h

theorem TrExt.mono {P Q : Event → Prop} {s0 s : State} (h : ∀ e, P e → Q e) (hi : TrExt P s0 s) : TrExt Q s0 s := by
  obtain ⟨n, t, p⟩ := hi
  exact ⟨n, t, fun e he => h e (p e he)⟩

theorem TrExt.of_ext {P : Event → Prop} {ph : Phase} {s0 s s' : State} (h : ∀ e, EvOK ph e → P e)
    (hi : TrExt P s0 s) (he : Ext ph s s') : TrExt P s0 s' := by
  obtain ⟨n, t, p, _⟩ := he
  exact hi.trans ⟨n, t, fun e he => h e (p e he)⟩

theorem TrExt_emit {P : Event → Prop} {s0 s : State} {e : Event} (he : P e) (hi : TrExt P s0 s) : TrExt P s0 (emit s e) := by
  unfold emit
  split
  · exact hi
  · obtain ⟨n, t, p⟩ := hi
    refine ⟨e :: n, by simp [t], ?_⟩
    intro x hx
    rcases List.mem_cons.1 hx with h | h
    · exact h ▸ he
    · exact p x h

/-! ### flushWatchers -/
def fw (s : State) : List Event × List PollRes × Timer.S × Bool := (s.trace, s.oracle, s.tm, s.metrics)

theorem fw_flushWatchers (s : State) : fw (flushWatchers s) = fw s := by
  unfold flushWatchers
  have : ∀ (l : List W) (s : State), fw (l.foldl (fun s w => let io := getIo s w; setIo s w { io with events := io.pevents }) s) = fw s := by
    intro l; induction l with
    | nil => intro s; rfl
    | cons w t ih =>
      intro s
      simp only [List.foldl]
      rw [ih]
      cases w <;> rfl
  exact this s.watcherQ s

/-! ### the timeout loop -/
def Bound (t tmo : Int) : Prop := tmo = 0 ∨ tmo = t ∨ (0 < tmo ∧ tmo ≤ t)

/-- events of the poll phase; under `G` every timeout handed to the poller obeys `Bound t` -/
def PollEv (G : Prop) (t : Int) : Event → Prop
  | .cb ph _ _ _ _ => ph = .poll
  | .poll _ tmo _ => G → Bound t tmo
  | _ => True

theorem PollEv.of_EvOK (G : Prop) (t : Int) (e : Event) (h : EvOK .poll e) : PollEv G t e := by
  cases e <;> simp_all [EvOK, PollEv]

/-- what the timeout loop maintains: the clock never reads below `base` (and does not wrap), the current
    timeout obeys the bound, the remaining time never exceeds the user's timeout -/
def PollHyp (t : Int) (s : State) (c : PollCtl) : Prop :=
  (∀ r ∈ s.oracle, c.base ≤ r.clock ∧ r.clock < Timer.U64) ∧ Bound t c.timeout ∧ c.realTimeout ≤ t ∧
  (c.reset = true → c.userTimeout = t)

theorem PollHyp.step {t : Int} {s s' : State} {c c1 c' : PollCtl} {r : PollRes} {rest : List PollRes} {time : Nat}
    (hh : PollHyp t s c) (ho : s.oracle = r :: rest) (ho' : s'.oracle = rest) (htime : time = r.clock % Timer.U64)
    (hb : c1.base = c.base) (hr : c1.realTimeout = c.realTimeout) (hreset : c1.reset = false) (hbd : Bound t c1.timeout)
    (hu : updateTimeout c1 time = some c') : PollHyp t s' c' := by
  obtain ⟨h1, _, h3, _⟩ := hh
  have hr0 := h1 r (by rw [ho]; exact List.mem_cons_self)
  have hrest : ∀ x ∈ rest, c.base ≤ x.clock ∧ x.clock < Timer.U64 := fun x hx => h1 x (by rw [ho]; exact List.mem_cons_of_mem _ hx)
  have hm : c.base ≤ time := by rw [htime, Nat.mod_eq_of_lt hr0.2]; exact hr0.1
  unfold updateTimeout at hu
  split at hu
  · simp at hu
  · split at hu
    · simp only [Option.some.injEq] at hu
      subst hu
      exact ⟨by rw [ho', hb]; exact hrest, hbd, by rw [hr]; exact h3, by simp [hreset]⟩
    · simp only at hu
      split at hu
      · simp at hu
      · simp only [Option.some.injEq] at hu
        subst hu
        refine ⟨by rw [ho']; simpa [hb] using hrest, ?_, ?_, by simp [hreset]⟩
        · right; right; simp only; omega
        · simp only; omega

theorem PollHyp.zero {t : Int} {s s' : State} {c c1 : PollCtl} {r : PollRes} {rest : List PollRes} (n : Nat)
    (hh : PollHyp t s c) (ho : s.oracle = r :: rest) (ho' : s'.oracle = rest)
    (hb : c1.base = c.base) (hr : c1.realTimeout = c.realTimeout) (hreset : c1.reset = false) :
    PollHyp t s' { c1 with count := n, timeout := 0 } := by
  obtain ⟨h1, _, h3, _⟩ := hh
  refine ⟨?_, Or.inl rfl, by simpa [hr] using h3, by simp [hreset]⟩
  intro x hx
  rw [ho'] at hx
  simpa [hb] using h1 x (by rw [ho]; exact List.mem_cons_of_mem _ hx)

/-- once the "leave uv__io_poll after this batch" flag (have_signals / have_iou_events) is set it stays set -/
theorem dispatchLoop_sg_true (sc : Script) (fuel : Nat) (s : State) (n : Nat) :
    (dispatchLoop sc fuel s n true).2.2 = true := by
  induction fuel generalizing s n with
  | zero => rfl
  | succ m ih =>
    unfold dispatchLoop
    split
    · rfl
    · simp only
      split
      · exact ih _ _
      · split <;> exact ih _ _
      · split <;> exact ih _ _
      · split <;> exact ih _ _
      · split
        · exact ih _ _
        · split <;> exact ih _ _
      · split <;> exact ih _ _

/-- the dispatch count only grows; if it did not grow and the io_uring completion queue was not served
    (the flag stays clear) no callback ran: `loop->time` is untouched -/
theorem dispatchLoop_count (sc : Script) (fuel : Nat) (s : State) (n : Nat) (sg : Bool) :
    n ≤ (dispatchLoop sc fuel s n sg).2.1 ∧
    ((dispatchLoop sc fuel s n sg).2.1 = n → (dispatchLoop sc fuel s n sg).2.2 = false →
      (dispatchLoop sc fuel s n sg).1.tm = s.tm) := by
  induction fuel generalizing s n sg with
  | zero => exact ⟨Nat.le_refl _, fun _ _ => rfl⟩
  | succ m ih =>
    unfold dispatchLoop
    split
    · exact ⟨Nat.le_refl _, fun _ _ => rfl⟩
    · have same : ∀ (s' : State) sg', s'.tm = s.tm → n ≤ (dispatchLoop sc m s' n sg').2.1 ∧
          ((dispatchLoop sc m s' n sg').2.1 = n → (dispatchLoop sc m s' n sg').2.2 = false →
            (dispatchLoop sc m s' n sg').1.tm = s.tm) := by
        intro s' sg' h; rw [← h]; exact ih s' n sg'
      have more : ∀ (s' : State) sg', n ≤ (dispatchLoop sc m s' (n + 1) sg').2.1 ∧
          ((dispatchLoop sc m s' (n + 1) sg').2.1 = n → (dispatchLoop sc m s' (n + 1) sg').2.2 = false →
            (dispatchLoop sc m s' (n + 1) sg').1.tm = s.tm) := by
        intro s' sg'
        have := (ih s' (n + 1) sg').1
        exact ⟨by omega, fun h => by omega⟩
      simp only
      split
      · exact same _ _ rfl
      · split
        · exact same _ _ rfl
        · exact more _ _
      · split
        · exact same _ _ rfl
        · exact more _ _
      · split
        · exact same _ _ rfl
        · exact more _ _
      · split
        · exact same _ _ rfl
        · split
          · exact same _ _ rfl
          · exact more _ _
      · split
        · refine ⟨(ih _ n true).1, fun _ h => ?_⟩
          rw [dispatchLoop_sg_true] at h
          cases h
        · exact same _ _ rfl

theorem pollLoop_ext (G : Prop) (t : Int) (sc : Script) (s0 : State) (fuel : Nat) (s : State) (c : PollCtl)
    (hi : TrExt (PollEv G t) s0 s) (hh : G → PollHyp t s c) :
    TrExt (PollEv G t) s0 (pollLoop sc fuel s c) := by
  induction fuel generalizing s c with
  | zero => exact hi
  | succ m ih =>
    unfold pollLoop
    split
    · exact hi.upd rfl
    · rename_i r rest heq
      have f3 : ({ completeWorks { s with oracle := rest } r.done with clock := r.clock } : State).trace = s.trace ∧
          ({ completeWorks { s with oracle := rest } r.done with clock := r.clock } : State).oracle = rest ∧
          ({ completeWorks { s with oracle := rest } r.done with clock := r.clock } : State).clock = r.clock := by
        have h1 := tr_completeWorks { s with oracle := rest } r.done
        have h2 := ow_completeWorks { s with oracle := rest } r.done
        simp only [tr, ow, Prod.mk.injEq] at h1 h2
        exact ⟨h1.1, h2.1, rfl⟩
      simp only
      generalize ({ completeWorks { s with oracle := rest } r.done with clock := r.clock } : State) = s3 at f3 ⊢
      obtain ⟨h3, o3, c3⟩ := f3
      have e4 : ∀ it, TrExt (PollEv G t) s0 (emit s3 (.poll it c.timeout r)) := fun it =>
        TrExt_emit (fun g => (hh g).2.1) (hi.upd h3)
      have e5 : ∀ it, TrExt (PollEv G t) s0 (updateTime (emit s3 (.poll it c.timeout r))) := fun it => (e4 it).upd rfl
      have o5 : ∀ it, (updateTime (emit s3 (.poll it c.timeout r))).oracle = rest := by
        intro it; unfold emit; split <;> exact o3
      have t5 : ∀ it, (updateTime (emit s3 (.poll it c.timeout r))).tm.time = r.clock % Timer.U64 := by
        intro it; unfold emit; split <;> simp [updateTime, Timer.updateTime, c3]
      generalize (completeWorks _ r.done).loopCount = it
      have e4 := e4 it
      have e5 := e5 it
      have o5 := o5 it
      have t5 := t5 it
      generalize emit s3 (.poll it c.timeout r) = s4 at e4 e5 o5 t5 ⊢
      split
      · exact e4.upd rfl
      generalize updateTime s4 = s5 at e5 o5 t5 ⊢
      have hE : ∀ e, EvOK .poll e → PollEv G t e := PollEv.of_EvOK G t
      split
      · -- empty or interrupted poll
        split
        · rename_i hreset
          split
          · exact e5
          · rename_i c' hu
            refine ih _ _ e5 (fun g => (hh g).step (c1 := { c with timeout := c.userTimeout, reset := false }) heq o5 t5 rfl rfl rfl ?_ hu)
            right; left; exact (hh g).2.2.2 hreset
        · rename_i hreset
          split
          · exact e5
          · split
            · exact e5
            · rename_i c' hu
              exact ih _ _ e5 (fun g => (hh g).step (c1 := c) heq o5 t5 rfl rfl (by simpa using hreset) (hh g).2.1 hu)
      · -- dispatch
        generalize hd : dispatchLoop sc (r.batch.length + 1) { s5 with batch := r.batch } 0 false = d
        have hx : Ext .poll s5 d.1 := by
          rw [← hd]
          exact dispatchLoop_ext sc _ _ _ _ ((Ext.refl .poll s5).upd rfl rfl)
        have h6 : TrExt (PollEv G t) s0 { d.1 with batch := [] } := (TrExt.of_ext hE e5 hx).upd rfl
        have o6 : ({ d.1 with batch := [] } : State).oracle = rest := by
          obtain ⟨_, _, _, ho⟩ := hx
          exact ho.trans o5
        have t6 : d.2.2 = false → (d.2.1 != 0) = false → d.1.tm.time = r.clock % Timer.U64 := by
          intro hsg hn
          have := (dispatchLoop_count sc (r.batch.length + 1) { s5 with batch := r.batch } 0 false).2
          rw [hd] at this
          have h0 : d.2.1 = 0 := by simpa using hn
          rw [this h0 hsg]; exact t5
        generalize ({ d.1 with batch := [] } : State) = s6 at h6 o6 ⊢
        have hc1 : (if c.reset = true then { c with timeout := c.userTimeout, reset := false } else c).base = c.base ∧
            (if c.reset = true then { c with timeout := c.userTimeout, reset := false } else c).realTimeout = c.realTimeout ∧
            (if c.reset = true then { c with timeout := c.userTimeout, reset := false } else c).reset = false ∧
            (G → Bound t (if c.reset = true then { c with timeout := c.userTimeout, reset := false } else c).timeout) := by
          split
          · rename_i hreset
            exact ⟨rfl, rfl, rfl, fun g => Or.inr (Or.inl ((hh g).2.2.2 hreset))⟩
          · rename_i hreset
            exact ⟨rfl, rfl, by simpa using hreset, fun g => (hh g).2.1⟩
        generalize (if c.reset = true then { c with timeout := c.userTimeout, reset := false } else c) = c1 at hc1 ⊢
        obtain ⟨b1, r1, rs1, bd1⟩ := hc1
        split
        · exact h6
        · rename_i hsg
          split
          · split
            · exact ih _ _ h6 (fun g => (hh g).zero _ heq o6 b1 r1 rs1)
            · exact h6
          · rename_i hn
            split
            · exact h6
            · rename_i c' hu
              exact ih _ _ h6 (fun g => (hh g).step (c1 := c1) heq o6 (t6 (by simpa using hsg) (by simpa using hn)) b1 r1 rs1 (bd1 g) hu)

theorem ioPoll_ext (G : Prop) (t : Int) (sc : Script) (s0 s : State) (hi : TrExt (PollEv G t) s0 s)
    (hh : G → ∀ r ∈ s.oracle, s.tm.time ≤ r.clock ∧ r.clock < Timer.U64) :
    TrExt (PollEv G t) s0 (ioPoll sc s t) := by
  unfold ioPoll
  simp only
  have f := fw_flushWatchers s
  simp only [fw, Prod.mk.injEq] at f
  obtain ⟨f1, f2, f3, _⟩ := f
  apply pollLoop_ext
  · exact hi.upd f1
  · intro g
    have h := hh g
    rw [← f2, ← f3] at h
    split
    · exact ⟨h, Or.inl rfl, Int.le_refl _, fun _ => rfl⟩
    · exact ⟨h, Or.inr (Or.inl rfl), Int.le_refl _, fun hc => by simp at hc⟩

/-! ### phase order of one iteration -/
def phasesOf (l : List Event) : List Phase :=
  l.filterMap (fun e => match e with | .cb ph _ _ _ _ => some ph | _ => none)

/-- every callback event is of phase `p` -/
def CbIn (p : Phase) : Event → Prop
  | .cb ph _ _ _ _ => ph = p
  | _ => True

theorem CbIn.of_EvOK (p : Phase) (e : Event) (h : EvOK p e) : CbIn p e := by
  cases e <;> simp_all [EvOK, CbIn]
theorem CbIn.of_PollEv (G : Prop) (t : Int) (e : Event) (h : PollEv G t e) : CbIn .poll e := by
  cases e <;> simp_all [PollEv, CbIn]

/-- the new events' callback phases are in order, all between `lo` and `hi` -/
def Mono (lo hi : Nat) (s0 s : State) : Prop :=
  ∃ new, s.trace = new ++ s0.trace ∧ (phasesOf new.reverse).Pairwise (fun a b => a.ctorIdx ≤ b.ctorIdx) ∧
    ∀ p ∈ phasesOf new, lo ≤ p.ctorIdx ∧ p.ctorIdx ≤ hi

theorem mem_phasesOf {p : Phase} {l : List Event} : p ∈ phasesOf l ↔ ∃ k i a b, Event.cb p k i a b ∈ l := by
  unfold phasesOf
  rw [List.mem_filterMap]
  constructor
  · rintro ⟨e, he, h⟩
    cases e <;> simp at h
    subst h
    exact ⟨_, _, _, _, he⟩
  · rintro ⟨k, i, a, b, h⟩
    exact ⟨_, h, rfl⟩

theorem Mono.of_trext {p : Phase} {s0 s : State} (h : TrExt (CbIn p) s0 s) : Mono p.ctorIdx p.ctorIdx s0 s := by
  obtain ⟨new, ht, hp⟩ := h
  have hall : ∀ q ∈ phasesOf new, q = p := by
    intro q hq
    obtain ⟨k, i, a, b, hm⟩ := mem_phasesOf.1 hq
    exact hp _ hm
  refine ⟨new, ht, ?_, ?_⟩
  · apply List.pairwise_of_forall_mem_list
    intro a ha b hb
    have ha' : a ∈ phasesOf new := by
      obtain ⟨k, i, x, y, hm⟩ := mem_phasesOf.1 ha
      exact mem_phasesOf.2 ⟨k, i, x, y, List.mem_reverse.1 hm⟩
    have hb' : b ∈ phasesOf new := by
      obtain ⟨k, i, x, y, hm⟩ := mem_phasesOf.1 hb
      exact mem_phasesOf.2 ⟨k, i, x, y, List.mem_reverse.1 hm⟩
    rw [hall a ha', hall b hb']
    exact Nat.le_refl _
  · intro q hq
    rw [hall q hq]
    exact ⟨Nat.le_refl _, Nat.le_refl _⟩

theorem Mono.of_ext {p : Phase} {s0 s : State} (h : Ext p s0 s) : Mono p.ctorIdx p.ctorIdx s0 s :=
  Mono.of_trext (TrExt.of_ext (CbIn.of_EvOK p) (TrExt.refl _ s0) h)

theorem Mono.upd {lo hi : Nat} {s0 s s' : State} (h : Mono lo hi s0 s) (h1 : s'.trace = s.trace) : Mono lo hi s0 s' := by
  obtain ⟨n, t, p⟩ := h
  exact ⟨n, h1.trans t, p⟩

theorem Mono.trans {a b c d : Nat} {s0 s1 s2 : State} (h1 : Mono a b s0 s1) (h2 : Mono c d s1 s2)
    (hab : a ≤ b) (hbc : b ≤ c) (hcd : c ≤ d) : Mono a d s0 s2 := by
  obtain ⟨n1, t1, p1, r1⟩ := h1
  obtain ⟨n2, t2, p2, r2⟩ := h2
  refine ⟨n2 ++ n1, by rw [t2, t1, List.append_assoc], ?_, ?_⟩
  · rw [List.reverse_append]
    unfold phasesOf at p1 p2 ⊢
    rw [List.filterMap_append, List.pairwise_append]
    refine ⟨p1, p2, ?_⟩
    intro x hx y hy
    have hx' : x ∈ phasesOf n1 := by
      obtain ⟨k, i, u, v, hm⟩ := mem_phasesOf.1 hx
      exact mem_phasesOf.2 ⟨k, i, u, v, List.mem_reverse.1 hm⟩
    have hy' : y ∈ phasesOf n2 := by
      obtain ⟨k, i, u, v, hm⟩ := mem_phasesOf.1 hy
      exact mem_phasesOf.2 ⟨k, i, u, v, List.mem_reverse.1 hm⟩
    have := (r1 x hx').2
    have := (r2 y hy').1
    omega
  · intro q hq
    unfold phasesOf at hq
    rw [List.filterMap_append, List.mem_append] at hq
    rcases hq with h | h
    · have := r2 q h; omega
    · have := r1 q h; omega

theorem iteration_mono (sc : Script) (mode : Mode) (s : State) : Mono 1 8 s (iteration sc mode s) := by
  unfold iteration
  simp only
  have m0 : Mono 1 1 s (emit s .iterBegin) :=
    Mono.of_trext (p := .pending) (TrExt_emit trivial (TrExt.refl _ s))
  generalize emit s .iterBegin = s1 at m0 ⊢
  have m1 := Mono.trans m0 (Mono.of_ext (runPending_ext sc s1 (Ext.refl .pending s1))) (by decide) (by decide) (by decide)
  generalize runPending sc .pending s1 = s2 at m1 ⊢
  have m2 := Mono.trans m1 (Mono.of_ext (runWatchers_ext sc .idle s2 (Ext.refl _ s2))) (by decide) (by decide) (by decide)
  generalize runWatchers sc .idle s2 = s3 at m2 ⊢
  have m3 := Mono.trans m2 (Mono.of_ext (runWatchers_ext sc .prepare s3 (Ext.refl _ s3))) (by decide) (by decide) (by decide)
  generalize runWatchers sc .prepare s3 = s4 at m3 ⊢
  generalize pollTimeout mode _ s4 = t
  have m4 := Mono.trans m3 (Mono.of_trext (p := .poll) (TrExt.mono (CbIn.of_PollEv False t)
    (ioPoll_ext False t sc _ { s4 with loopCount := s4.loopCount + 1 } (TrExt.refl _ _) (fun g => g.elim))))
    (by decide) (by decide) (by decide)
  generalize ioPoll sc { s4 with loopCount := s4.loopCount + 1 } t = s5 at m4 ⊢
  have m5 := Mono.trans m4 (Mono.of_ext (pendingRounds_ext sc 8 s5 (Ext.refl _ s5))) (by decide) (by decide) (by decide)
  generalize pendingRounds sc 8 s5 = s6 at m5 ⊢
  have m6 := Mono.trans m5 (Mono.of_ext (runWatchers_ext sc .check s6 (Ext.refl _ s6))) (by decide) (by decide) (by decide)
  generalize runWatchers sc .check s6 = s7 at m6 ⊢
  have m7 := Mono.trans m6 (Mono.of_ext (runClosing_ext sc s7 (Ext.refl _ s7))) (by decide) (by decide) (by decide)
  generalize runClosing sc s7 = s8 at m7 ⊢
  have m8 := Mono.trans m7 (Mono.of_ext (runTimers_ext (ph := .timers) sc (updateTime s8) (Ext.refl _ _))) (by decide) (by decide) (by decide)
  exact m8

end UvModel.Loop.Phases
