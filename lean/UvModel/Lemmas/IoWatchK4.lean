import UvModel.Lemmas.IoWatchK3
import UvModel.Lemmas.IoWatchRing2
/-! C14: `FInv` through `uv__io_poll` (both ctl modes), `uv_run` and whole programs; `abort()` is never
reached by user operations and callbacks -/
namespace UvModel.IoWatch

/-! ### user operations never reach `abort()` -/

theorem ioStart_ab (s : St) (id : Nat) (m : Mask) : (ioStart s id m).aborted = s.aborted := by
  unfold ioStart maybeResize setW; simp only []
  repeat' split
  all_goals rfl

theorem ioStop_ab (s : St) (id : Nat) (m : Mask) : (ioStop s id m).aborted = s.aborted := by
  unfold ioStop setW; simp only []
  repeat' split
  all_goals rfl

theorem invalidate_ab (s : St) (fd : Nat) : (invalidate s fd).aborted = s.aborted := by
  unfold invalidate; split <;> rfl

theorem pollStop_ab (s : St) (id : Nat) : (pollStop s id).aborted = s.aborted := by
  unfold pollStop
  show (invalidate _ _).aborted = _
  rw [invalidate_ab]; show (ioStop s id Mask.all4).aborted = _; exact ioStop_ab _ _ _

theorem ioClose_ab (s : St) (id : Nat) : (ioClose s id).aborted = s.aborted := by
  unfold ioClose
  show (invalidate _ _).aborted = _
  rw [invalidate_ab]; show (ioStop s id Mask.all4).aborted = _; exact ioStop_ab _ _ _

theorem pollClose_ab (s : St) (id : Nat) : (pollClose s id).aborted = s.aborted := by
  unfold pollClose; show (pollStop s id).aborted = _; exact pollStop_ab _ _

theorem pollStart_ab (s : St) (id : Nat) (u : UvEv) : (pollStart s id u).1.aborted = s.aborted := by
  unfold pollStart; simp only []
  split
  · rfl
  · split
    · exact pollStop_ab _ _
    · show (ioStart (pollStop s id) id (uvToPoll u)).aborted = _
      rw [ioStart_ab, pollStop_ab]

theorem ctl_del_ret (k : Kernel) (fd o : Nat) (m : Mask) (ow : Option Nat) (h : k.ofdAt fd = some o)
    (hn : k.maskAt o fd ≠ none) : (k.ctl .del fd m ow).2 = 0 := by
  have hh := (hasEnt_true_iff k o fd).mpr hn
  unfold Kernel.ctl; simp [h, hh]

theorem pollInit_ab (s : St) (fd : Nat) : (pollInit s fd).1.aborted = s.aborted := by
  rw [pollInit_eq]
  split
  · rfl
  · split
    · rfl
    · rename_i hr
      split
      · -- the DEL after a successful or EEXIST ADD cannot fail
        rename_i hd
        exfalso; apply hd
        show ((s.k.ctl .add fd Mask.pollin none).1.ctl .del fd Mask.none none).2 = 0
        cases ho : s.k.ofdAt fd with
        | none =>
          have : (ctl s .add fd Mask.pollin none).2 = -9 := by
            show (s.k.ctl .add fd Mask.pollin none).2 = -9; rw [ctl_closed _ _ _ _ _ ho]
          exact (hr ⟨by rw [this]; decide, by rw [this]; decide⟩).elim
        | some o =>
          cases hm : s.k.maskAt o fd with
          | none =>
            have a := ctl_add_new s.k fd o Mask.pollin none ho hm
            exact ctl_del_ret _ fd o _ _ (by rw [ctl_ofdAt]; exact ho) (by rw [a.2, if_pos ⟨rfl, rfl⟩]; simp)
          | some x =>
            have hne : s.k.maskAt o fd ≠ none := by rw [hm]; simp
            rw [ctl_add_exists _ _ _ _ _ ho hne]
            exact ctl_del_ret _ fd o _ _ ho hne
      · rfl

theorem doOp_ab (s : St) (o : Op) : (doOp s o).aborted = s.aborted := by
  cases o <;> simp only [doOp]
  case openfd fd k => split <;> rfl
  case closefd fd => split <;> rfl
  case dupfd fd => split <;> rfl
  case closedup d => split <;> rfl
  case pinit fd =>
    split
    · rfl
    · have := pollInit_ab s fd
      split
      · rename_i h; rw [h] at this; exact this
      · rename_i h; rw [h] at this; split
        · exact this
        · exact this
  case pstart id u => split; exact pollStart_ab _ _ _; rfl
  case pstop id => split; exact pollStop_ab _ _; rfl
  case pclose id => split; exact pollClose_ab _ _; rfl
  case ioinit fd => split <;> rfl
  case iostart id m => split; exact ioStart_ab _ _ _; rfl
  case iostop id m => split; exact ioStop_ab _ _ _; rfl
  case ioclose id => split; exact ioClose_ab _ _; rfl
  case iofeed id =>
    split
    · show (ioFeed s id).aborted = _; unfold ioFeed; split <;> rfl
    · rfl

theorem execOp_ab (s : St) (o : Op) : (execOp s o).aborted = s.aborted := by
  unfold execOp; split
  · rfl
  · show (doOp (emit s (.op o)) o).aborted = _; rw [doOp_ab]; rfl

theorem execOps_ab (s : St) (ops : List Op) : (execOps s ops).aborted = s.aborted := by
  unfold execOps
  induction ops generalizing s with
  | nil => rfl
  | cons o r ih => simp only [List.foldl_cons]; rw [ih, execOp_ab]

theorem deliver_ab (sc : Script) (s : St) (id : Nat) (ev : Mask) : (deliver sc s id ev).aborted = s.aborted := by
  unfold deliver; simp only []
  split
  · split
    · rw [execOps_ab]; show (ioStop _ id Mask.all4).aborted = _; rw [ioStop_ab]; rfl
    · rw [execOps_ab]; rfl
  · rw [execOps_ab]; rfl

theorem runPend_ab (sc : Script) (s : St) (n : Nat) : (runPend sc s n).aborted = s.aborted := by
  induction n generalizing s with
  | zero => rfl
  | succ n ih =>
    unfold runPend; split
    · rfl
    · rw [ih, deliver_ab]

theorem runPending_ab (sc : Script) (s : St) : (runPending sc s).aborted = s.aborted := by
  unfold runPending; rw [runPend_ab]

/-! ### queue application in both modes -/

theorem foldApply_frame (l : List Nat) : ∀ {t : St}, KCore t → t.ring = false →
    (∀ id ∈ l, id < t.ws.length ∧ (getW t id).pevents ≠ Mask.none) →
    (l.foldl applyOne t).aborted = t.aborted ∧
    KFrame t.k (l.foldl applyOne t).k (l.map fun a => (getW t a).fd) := by
  induction l with
  | nil => intro t _ _ _; exact ⟨rfl, KFrame.refl _ _⟩
  | cons a r ih =>
    intro t c hr hl
    simp only [List.foldl_cons]
    have ha := hl a (by simp)
    obtain ⟨o, _, hof, hmk, hab⟩ := applyOne_direct c hr a ha.1 ha.2
    have hs := applyOne_same t a
    have hg : ∀ j, (getW (applyOne t a) j).pevents = (getW t j).pevents ∧ (getW (applyOne t a) j).fd = (getW t j).fd := by
      intro j
      have : getW (applyOne t a) j = getW (setW t a { getW t a with events := (getW t a).pevents }) j := by
        simp [getW, hs.1]
      rw [this, getW_setW]; split
      · rename_i e; rw [e.1]; exact ⟨rfl, rfl⟩
      · exact ⟨rfl, rfl⟩
    have hlen : (applyOne t a).ws.length = t.ws.length := by rw [hs.1]; simp
    obtain ⟨i1, i2⟩ := ih (c.applyOne hr a ha.1 ha.2) (applyOne_direct_sq t hr a).2.1 (by
      intro id hid; rw [hlen, (hg id).1]; exact hl id (List.mem_cons_of_mem _ hid))
    refine ⟨by rw [i1, hab], ?_⟩
    have f1 : KFrame t.k (applyOne t a).k [(getW t a).fd] :=
      ⟨hof, fun o' g hg' => by rw [hmk, if_neg]; intro h; exact hg' (by simp [h.2])⟩
    refine (KFrame.trans f1 i2).mono ?_
    intro g hg'
    rcases List.mem_append.mp hg' with h | h
    · simp at h; rw [h]; simp
    · obtain ⟨b, hb, hbg⟩ := List.mem_map.mp h
      exact List.mem_map.mpr ⟨b, List.mem_cons_of_mem _ hb, by rw [← hbg, (hg b).2]⟩

theorem applyQueue_direct {s : St} (c : KCore s) (hr : s.ring = false) :
    KCore (flushAll (applyQueue s)) ∧ (flushAll (applyQueue s)).aborted = s.aborted ∧
    KFrame s.k (flushAll (applyQueue s)).k (s.wq.map fun a => (getW s a).fd) ∧
    (applyQueue s).aborted = s.aborted := by
  have c0 : KCore { s with wq := [] } :=
    ⟨c.sq, c.multi, c.armed, c.owned, c.uniq, c.quiet, c.live, by intro id h; simp at h⟩
  have c1 : KCore (applyQueue s) := by
    unfold applyQueue; exact KCore.foldApply s.wq c0 hr (fun id h => c.queued id h)
  have e : flushAll (applyQueue s) = applyQueue s := by
    unfold flushAll; rw [flushOnce_nil _ c1.sq, flushOnce_nil _ c1.sq]
  rw [e]
  obtain ⟨a, b⟩ := foldApply_frame s.wq c0 hr (fun id h => c.queued id h)
  exact ⟨c1, a, b, a⟩

theorem applyQueue_any {s : St} (f : FInv s) :
    FInv (flushAll (applyQueue s)) ∧ (flushAll (applyQueue s)).aborted = s.aborted ∧
    KFrame s.k (flushAll (applyQueue s)).k (s.wq.map fun a => (getW s a).fd) ∧
    (applyQueue s).aborted = s.aborted := by
  have si : SInv (flushAll (applyQueue s)) :=
    f.si.reach (Reach.trans (reach_applyQueue s) (same_flushAll _).reach)
  cases hr : s.ring
  · obtain ⟨a, b, c, d⟩ := applyQueue_direct f.kc hr; exact ⟨⟨si, a⟩, b, c, d⟩
  · obtain ⟨a, b, c, d⟩ := applyQueue_ring f.kc f.si hr; exact ⟨⟨si, a⟩, b, c, d⟩

theorem flushAll_id {s : St} (h : s.sq = []) : flushAll s = s := by
  unfold flushAll; rw [flushOnce_nil _ h, flushOnce_nil _ h]

/-! ### the poll loop, uv_run, programs -/

theorem FInv.same {s t : St} (f : FInv s) (h1 : t.ws = s.ws) (h2 : t.watchers = s.watchers) (h3 : t.nfds = s.nfds)
    (h4 : t.wq = s.wq) (h5 : t.k = s.k) (h6 : t.sq = s.sq) (h7 : t.multi = s.multi) : FInv t :=
  ⟨f.si.reach (Same4.reach ⟨h1, h2, h3, h4⟩), f.kc.frame h1 h2 h4 h5 h6 h7⟩

theorem pollLoop_finv (sc : Script) (bs : List Batch) : ∀ (s : St) (t0 : Bool) (count : Nat),
    FInv (flushAll s) → FInv (flushAll (pollLoop sc s t0 count bs)) := by
  induction bs with
  | nil =>
    intro s t0 count f
    unfold pollLoop; split
    · exact f
    · have f2 : FInv (emit (emit (flushAll s) (.block t0 (interestOf (flushAll s)))) (.batch [])) :=
        f.same rfl rfl rfl rfl rfl rfl rfl
      rw [flushAll_id f2.kc.sq]; exact f2
  | cons b rest ih =>
    intro s t0 count f
    unfold pollLoop; split
    · exact f
    · simp only []
      split
      · rw [flushAll_id f.kc.sq]; exact f
      · have f2 : FInv (emit (emit (flushAll s) (.block t0 (interestOf (flushAll s)))) (.batch b)) :=
          f.same rfl rfl rfl rfl rfl rfl rfl
        generalize emit (emit (flushAll s) (.block t0 (interestOf (flushAll s)))) (.batch b) = s0 at f2 ⊢
        split
        · rw [flushAll_id f2.kc.sq]; exact f2
        · have f3 : FInv { s0 with batch := b, inv := true } := f2.same rfl rfl rfl rfl rfl rfl rfl
          have f4 := dispatchFrom_finv sc f3 0 b.length
          generalize dispatchFrom sc { s0 with batch := b, inv := true } 0 b.length = r at f4 ⊢
          have f5 : FInv { r.1 with inv := false, batch := [] } := f4.same rfl rfl rfl rfl rfl rfl rfl
          have f5' : FInv (flushAll { r.1 with inv := false, batch := [] }) := by
            rw [flushAll_id f5.kc.sq]; exact f5
          split
          · exact f5'
          · split
            · split
              · exact ih _ _ _ f5'
              · exact f5'
            · split
              · exact f5'
              · exact ih _ _ _ f5'

theorem ioPoll_finv (sc : Script) {s : St} (f : FInv s) (hab : s.aborted = false) (t0 : Bool) (bs : List Batch) :
    FInv (ioPoll sc s t0 bs) := by
  obtain ⟨fa, _, _, hb⟩ := applyQueue_any f
  have hna : (applyQueue s).aborted = false := by rw [hb]; exact hab
  unfold ioPoll; simp only [hna, Bool.false_eq_true, ↓reduceIte]
  exact pollLoop_finv sc bs (applyQueue s) t0 48 fa


theorem runPend_finv (sc : Script) {s : St} (f : FInv s) (n : Nat) : FInv (runPend sc s n) := by
  induction n generalizing s with
  | zero => exact f
  | succ n ih =>
    unfold runPend; split
    · exact f
    · rename_i id rest _
      have f1 : FInv { s with pendingRun := rest } := f.same rfl rfl rfl rfl rfl rfl rfl
      exact ih (deliver_finv sc f1 id Mask.pollout)

theorem runPending_finv (sc : Script) {s : St} (f : FInv s) : FInv (runPending sc s) := by
  unfold runPending
  exact runPend_finv sc (f.same (t := { s with pendingRun := s.pending, pending := [] }) rfl rfl rfl rfl rfl rfl rfl) _

theorem pend8_finv (sc : Script) (n : Nat) {s : St} (f : FInv s) : FInv (pend8 sc n s) := by
  induction n generalizing s with
  | zero => exact f
  | succ n ih =>
    unfold pend8; split
    · exact f
    · exact ih (runPending_finv sc f)

theorem foldEmit_finv (l : List Nat) {s : St} (f : FInv s) :
    FInv (l.foldl (fun s id => emit s (.cbClose id)) s) := by
  induction l generalizing s with
  | nil => exact f
  | cons a r ih => exact ih (f.same rfl rfl rfl rfl rfl rfl rfl)

theorem runClosing_finv {s : St} (f : FInv s) : FInv (runClosing s) := by
  unfold runClosing
  exact foldEmit_finv _ (f.same (t := { s with closingQ := [] }) rfl rfl rfl rfl rfl rfl rfl)

theorem run_finv (sc : Script) {s : St} (f : FInv s) (bs : List Batch) : FInv (run sc s bs) := by
  unfold run; split
  · exact f
  · rename_i hab
    simp only []
    have f1 := runPending_finv sc f
    have a1 : (runPending sc s).aborted = false := by rw [runPending_ab]; simpa using hab
    have f2 := ioPoll_finv sc f1 a1
      (!((s.pending.isEmpty && (runPending sc s).pending.isEmpty && (runPending sc s).closingQ.isEmpty))) bs
    have f3 := pend8_finv sc 8 f2
    have f4 := runClosing_finv f3
    exact f4.same rfl rfl rfl rfl rfl rfl rfl

theorem finv_init (ring : Bool) (internal nw : Nat) : FInv (init ring internal nw) :=
  ⟨sinv_init ring internal nw, kcore_init ring internal nw⟩

theorem exec_finv (sc : Script) {s : St} (f : FInv s) (p : List Cmd) : FInv (exec sc s p) := by
  unfold exec
  induction p generalizing s with
  | nil => exact f
  | cons c r ih =>
    simp only [List.foldl_cons]
    apply ih
    cases c with
    | op o => exact execOp_finv f o
    | run bs => exact run_finv sc f bs

end UvModel.IoWatch
