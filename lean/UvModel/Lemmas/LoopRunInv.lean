import UvModel.Lemmas.LoopSteps
/-!
  `SInv` (counter = |active ∧ ref ∧ ¬closing|, closing ⇒ ¬active, ids below nextId) is preserved by
  every callback, loop phase, `uv_run` and whole programs — for every `Script`.
-/
namespace UvModel.Loop
open UvModel.HandleKernels

theorem SInv.iff_of_sig {s s' : State} (h : sig s' = sig s) : SInv s' ↔ SInv s :=
  ⟨SInv.of_sig h.symm, SInv.of_sig h⟩
@[simp] theorem SInv_emit (s : State) (e : Event) : SInv (emit s e) ↔ SInv s := SInv.iff_of_sig (by simp)
@[simp] theorem SInv_emitObs (s : State) : SInv (emitObs s) ↔ SInv s := SInv.iff_of_sig (by simp)
@[simp] theorem SInv_modH (s : State) (id : Nat) (g : Handle → Handle) : SInv (modH s id g) ↔ SInv s := SInv.iff_of_sig (by simp)
@[simp] theorem SInv_updateTime (s : State) : SInv (updateTime s) ↔ SInv s := SInv.iff_of_sig (by simp)
@[simp] theorem SInv_ioStop (s : State) (w : W) (ev : Nat) : SInv (ioStop s w ev) ↔ SInv s := SInv.iff_of_sig (by simp)
@[simp] theorem SInv_udpSendmsg (s : State) (id : Nat) : SInv (udpSendmsg s id) ↔ SInv s := SInv.iff_of_sig (by simp)
@[simp] theorem SInv_setWList (s : State) (k : WKind) (l : List Nat) : SInv (setWList s k l) ↔ SInv s := SInv.iff_of_sig (by simp)
@[simp] theorem SInv_completeWorks (s : State) (k : Nat) : SInv (completeWorks s k) ↔ SInv s := SInv.iff_of_sig (by simp)
@[simp] theorem SInv_flushWatchers (s : State) : SInv (flushWatchers s) ↔ SInv s := SInv.iff_of_sig (by simp)
theorem SInv_hStop {s : State} (id : Nat) (hi : SInv s) : SInv (hStop s id) := (hStop_steps s id).inv hi

theorem foldl_stepOp_inv (ops : List Op) (s : State) (hi : SInv s) : SInv (ops.foldl stepOp s) := by
  induction ops generalizing s with
  | nil => exact hi
  | cons o t ih => exact ih _ (stepOp_inv s o hi)

theorem runCb_inv (sc : Script) (ph : Phase) (k : CbKind) (key : CbKey) (id : Nat) (a b : Int) (occ : Nat)
    (s : State) (hi : SInv s) : SInv (runCb sc ph k key id a b occ s) := by
  unfold runCb
  simp only [SInv_emit, SInv_emitObs]
  apply foldl_stepOp_inv
  simp only [SInv_emit, SInv_emitObs]
  exact SInv.of_sig (s := s) rfl hi

theorem runHandleCb_inv (sc : Script) (ph : Phase) (k : CbKind) (id : Nat) (a b : Int) (s : State) (hi : SInv s) :
    SInv (runHandleCb sc ph k id a b s) := by
  unfold runHandleCb
  split
  · exact hi
  · apply runCb_inv
    simpa using hi

theorem udpRunCompletedLoop_inv (sc : Script) (ph : Phase) (id : Nat) (fuel : Nat) (s : State) (hi : SInv s) :
    SInv (udpRunCompletedLoop sc ph id fuel s) := by
  induction fuel generalizing s with
  | zero => exact hi
  | succ n ih =>
    unfold udpRunCompletedLoop
    split
    · exact hi
    · split
      · exact hi
      · apply ih
        apply runCb_inv
        exact SInv.of_sig (s := s) rfl hi

theorem udpRunCompleted_inv (sc : Script) (ph : Phase) (id : Nat) (s : State) (hi : SInv s) :
    SInv (udpRunCompleted sc ph id s) := by
  unfold udpRunCompleted
  split
  · exact hi
  · rename_i h _
    simp only
    have h1 : SInv (udpRunCompletedLoop sc ph id (h.wcq.length + 1) (modH s id fun h => { h with processing := true })) :=
      udpRunCompletedLoop_inv _ _ _ _ _ (by simpa using hi)
    split
    · exact h1
    · simp only [SInv_modH]
      split
      · split
        · apply SInv_hStop; simpa using h1
        · simpa using h1
      · exact h1

theorem udpIo_inv (sc : Script) (ph : Phase) (id ev : Nat) (s : State) (hi : SInv s) : SInv (udpIo sc ph id ev s) := by
  unfold udpIo
  split
  · exact hi
  · split
    · apply udpRunCompleted_inv; simpa using hi
    · exact hi

theorem udpFinishClose_inv (sc : Script) (ph : Phase) (id : Nat) (s : State) (hi : SInv s) :
    SInv (udpFinishClose sc ph id s) := by
  unfold udpFinishClose
  apply udpRunCompleted_inv; simpa using hi

theorem streamIo_inv (sc : Script) (ph : Phase) (id : Nat) (s : State) (hi : SInv s) : SInv (streamIo sc ph id s) := by
  unfold streamIo
  split
  · exact hi
  · split
    · exact hi
    · apply runCb_inv
      simp only [SInv_ioStop]
      have : SInv (modH s id fun h => { h with connReq := none }) := by simpa using hi
      exact this

theorem streamDestroy_inv (sc : Script) (id : Nat) (s : State) (hi : SInv s) : SInv (streamDestroy sc id s) := by
  unfold streamDestroy
  split
  · exact hi
  · split
    · exact hi
    · simp only [SInv_modH]
      apply runCb_inv
      exact hi

theorem pendingIo_inv (sc : Script) (ph : Phase) (id : Nat) (s : State) (hi : SInv s) : SInv (pendingIo sc ph id s) := by
  unfold pendingIo
  split
  · exact hi
  · split
    · exact udpIo_inv _ _ _ _ _ hi
    · exact streamIo_inv _ _ _ _ hi

theorem runPendingLoop_inv (sc : Script) (ph : Phase) (fuel : Nat) (s : State) (hi : SInv s) :
    SInv (runPendingLoop sc ph fuel s) := by
  induction fuel generalizing s with
  | zero => exact hi
  | succ n ih =>
    unfold runPendingLoop
    split
    · exact hi
    · apply ih
      apply pendingIo_inv
      exact SInv.of_sig (s := s) rfl hi

theorem runPending_inv (sc : Script) (ph : Phase) (s : State) (hi : SInv s) : SInv (runPending sc ph s) := by
  unfold runPending
  exact runPendingLoop_inv _ _ _ _ (SInv.of_sig (s := s) rfl hi)

theorem runWatchersLoop_inv (sc : Script) (k : WKind) (fuel : Nat) (s : State) (hi : SInv s) :
    SInv (runWatchersLoop sc k fuel s) := by
  induction fuel generalizing s with
  | zero => exact hi
  | succ n ih =>
    unfold runWatchersLoop
    split
    · exact hi
    · apply ih
      apply runHandleCb_inv
      simp only [SInv_setWList]
      exact SInv.of_sig (s := s) rfl hi

theorem runWatchers_inv (sc : Script) (k : WKind) (s : State) (hi : SInv s) : SInv (runWatchers sc k s) := by
  unfold runWatchers
  apply runWatchersLoop_inv
  simp only [SInv_setWList]
  exact SInv.of_sig (s := s) rfl hi

theorem workDoneLoop_inv (sc : Script) (fuel : Nat) (s : State) (hi : SInv s) : SInv (workDoneLoop sc fuel s) := by
  induction fuel generalizing s with
  | zero => exact hi
  | succ n ih =>
    unfold workDoneLoop
    split
    · exact hi
    · apply ih
      apply runCb_inv
      exact SInv.of_sig (s := s) rfl hi

theorem workDone_inv (sc : Script) (s : State) (hi : SInv s) : SInv (workDone sc s) := by
  unfold workDone
  exact workDoneLoop_inv _ _ _ (SInv.of_sig (s := s) rfl hi)

theorem ringDone_inv (sc : Script) (cq : List Nat) (s : State) (hi : SInv s) : SInv (ringDone sc cq s) := by
  unfold ringDone
  exact workDoneLoop_inv _ _ _ (SInv.of_sig (s := s) (ringTake_frame sig (fun _ _ _ => rfl) s cq) hi)

theorem asyncIoLoop_inv (sc : Script) (fuel : Nat) (s : State) (hi : SInv s) : SInv (asyncIoLoop sc fuel s) := by
  induction fuel generalizing s with
  | zero => exact hi
  | succ n ih =>
    unfold asyncIoLoop
    split
    · exact hi
    · simp only
      split
      · apply ih; exact SInv.of_sig (s := s) rfl hi
      · split
        · apply ih; exact SInv.of_sig (s := s) rfl hi
        · apply ih
          split
          · apply workDone_inv; simp only [SInv_modH]; exact SInv.of_sig (s := s) rfl hi
          · apply runHandleCb_inv; simp only [SInv_modH]; exact SInv.of_sig (s := s) rfl hi

theorem asyncIo_inv (sc : Script) (s : State) (hi : SInv s) : SInv (asyncIo sc s) := by
  unfold asyncIo
  exact asyncIoLoop_inv _ _ _ (SInv.of_sig (s := s) rfl hi)

theorem pollIo_inv (sc : Script) (id ev : Nat) (s : State) (hi : SInv s) : SInv (pollIo sc id ev s) := by
  unfold pollIo
  split
  · apply runHandleCb_inv; apply SInv_hStop; simpa using hi
  · apply runHandleCb_inv; exact hi

theorem dispatchLoop_inv (sc : Script) (fuel : Nat) (s : State) (n : Nat) (sg : Bool) (hi : SInv s) :
    SInv (dispatchLoop sc fuel s n sg).1 := by
  induction fuel generalizing s n sg with
  | zero => exact hi
  | succ m ih =>
    unfold dispatchLoop
    split
    · exact hi
    · have h0 : ∀ b, SInv { s with batch := b } := fun b => SInv.of_sig (s := s) rfl hi
      simp only
      split
      · apply ih; exact h0 _
      · split
        · apply ih; exact h0 _
        · apply ih; exact h0 _
      · split
        · apply ih; exact h0 _
        · apply ih; exact h0 _
      · split
        · apply ih; exact h0 _
        · apply ih; apply asyncIo_inv; exact h0 _
      · split
        · apply ih; exact h0 _
        · split
          · apply ih; exact h0 _
          · apply ih
            split
            · apply pollIo_inv; exact h0 _
            · apply udpIo_inv; exact h0 _
            · exact h0 _
      · split
        · apply ih; apply ringDone_inv; exact h0 _
        · apply ih; exact h0 _

theorem pollLoop_inv (sc : Script) (fuel : Nat) (s : State) (c : PollCtl) (hi : SInv s) : SInv (pollLoop sc fuel s c) := by
  induction fuel generalizing s c with
  | zero => exact hi
  | succ m ih =>
    unfold pollLoop
    split
    · exact hi
    · rename_i r rest _
      have h1 : ∀ e, SInv (emit { completeWorks { s with oracle := rest } r.done with clock := r.clock } e) := by
        intro e
        rw [SInv_emit]
        have : SInv (completeWorks { s with oracle := rest } r.done) := by rw [SInv_completeWorks]; exact hi
        exact this
      have h2 : ∀ e, SInv (updateTime (emit { completeWorks { s with oracle := rest } r.done with clock := r.clock } e)) := by
        intro e; rw [SInv_updateTime]; exact h1 e
      simp only
      split
      · exact h1 _
      · split
        · split
          · split
            · exact h2 _
            · exact ih _ _ (h2 _)
          · split
            · exact h2 _
            · split
              · exact h2 _
              · exact ih _ _ (h2 _)
        · generalize hd : dispatchLoop sc (r.batch.length + 1) _ 0 false = d
          have h3 : SInv d.1 := by
            rw [← hd]
            apply dispatchLoop_inv
            exact h2 _
          have h5 : SInv { d.1 with batch := [] } := h3
          repeat' split
          all_goals first | exact h5 | exact ih _ _ h5

theorem ioPoll_inv (sc : Script) (s : State) (t : Int) (hi : SInv s) : SInv (ioPoll sc s t) := by
  unfold ioPoll
  apply pollLoop_inv
  simpa using hi

theorem ref_after_unref {s : State} {id : Nat} :
    ∀ f, getF (withKernel s id handleUnref) id = some f → f.ref = false := by
  intro g hg
  obtain ⟨f, _, rfl⟩ := get_apply_same (c := s.c) (k := handleUnref) hg
  rcases f with ⟨a, r, c, d, i⟩
  cases r <;> cases c <;> cases a <;> simp [handleUnref, toHK, ofHK]

theorem finishClose_inv (sc : Script) (id : Nat) (s : State) (hi : SInv s) : SInv (finishClose sc id s) := by
  unfold finishClose
  split
  · exact hi
  · rename_i h _
    simp only
    have h1 : SInv (withKernel s id setClosed) := Steps.inv ⟨CStep.setClosed _ _, rfl⟩ hi
    have h2 : SInv (if h.kind == .udp then udpFinishClose sc .closing id (withKernel s id setClosed)
        else if h.kind == .pipe || h.kind == .tcp then streamDestroy sc id (withKernel s id setClosed) else withKernel s id setClosed) := by
      split
      · exact udpFinishClose_inv _ _ _ _ h1
      · split
        · exact streamDestroy_inv _ _ _ h1
        · exact h1
    have h3 : SInv (withKernel (if h.kind == .udp then udpFinishClose sc .closing id (withKernel s id setClosed)
        else if h.kind == .pipe || h.kind == .tcp then streamDestroy sc id (withKernel s id setClosed) else withKernel s id setClosed) id handleUnref) :=
      Steps.inv ⟨CStep.unref _ _, rfl⟩ h2
    split
    · exact h3
    · apply runCb_inv
      exact Steps.inv (s := withKernel _ id handleUnref) ⟨CStep.remove _ _ ref_after_unref, rfl⟩ h3

theorem runClosingLoop_inv (sc : Script) (fuel : Nat) (s : State) (hi : SInv s) : SInv (runClosingLoop sc fuel s) := by
  induction fuel generalizing s with
  | zero => exact hi
  | succ n ih =>
    unfold runClosingLoop
    split
    · exact hi
    · apply ih; apply finishClose_inv; exact hi

theorem runClosing_inv (sc : Script) (s : State) (hi : SInv s) : SInv (runClosing sc s) := by
  unfold runClosing
  apply runClosingLoop_inv; exact hi

theorem collectTimers_inv (fuel : Nat) (s : State) (hi : SInv s) : SInv (collectTimers fuel s) := by
  induction fuel generalizing s with
  | zero => exact hi
  | succ n ih =>
    unfold collectTimers
    split
    · exact hi
    · split
      · exact hi
      · apply ih
        exact ((timerStop_steps s _).inv hi : SInv (timerStop s _))

theorem fireTimers_inv (sc : Script) (ph : Phase) (fuel : Nat) (s : State) (hi : SInv s) : SInv (fireTimers sc ph fuel s) := by
  induction fuel generalizing s with
  | zero => exact hi
  | succ n ih =>
    unfold fireTimers
    split
    · exact hi
    · apply ih
      apply runHandleCb_inv
      rename_i id rest _
      exact (timerAgain_steps { s with tm := { s.tm with ready := rest } } id).inv hi

theorem runTimers_inv (sc : Script) (ph : Phase) (s : State) (hi : SInv s) : SInv (runTimers sc ph s) := by
  unfold runTimers
  exact fireTimers_inv _ _ _ _ (collectTimers_inv _ _ hi)

theorem pendingRounds_inv (sc : Script) (n : Nat) (s : State) (hi : SInv s) : SInv (pendingRounds sc n s) := by
  induction n generalizing s with
  | zero => exact hi
  | succ m ih =>
    unfold pendingRounds
    split
    · exact hi
    · exact ih _ (runPending_inv _ _ _ hi)

theorem iteration_inv (sc : Script) (mode : Mode) (s : State) (hi : SInv s) : SInv (iteration sc mode s) := by
  unfold iteration
  simp only
  apply runTimers_inv
  rw [SInv_updateTime]
  apply runClosing_inv
  apply runWatchers_inv
  apply pendingRounds_inv
  apply ioPoll_inv
  have : SInv (runWatchers sc .prepare (runWatchers sc .idle (runPending sc .pending (emit s .iterBegin)))) := by
    apply runWatchers_inv
    apply runWatchers_inv
    apply runPending_inv
    simpa using hi
  exact this

theorem runLoop_inv (sc : Script) (mode : Mode) (fuel : Nat) (s : State) (r : Bool) (hi : SInv s) :
    ∀ s' r', runLoop sc mode fuel s r = some (s', r') → SInv s' := by
  induction fuel generalizing s r with
  | zero => intro s' r' h; simp [runLoop] at h
  | succ n ih =>
    intro s' r' h
    unfold runLoop at h
    split at h
    · cases h; exact hi
    · simp only at h
      split at h
      · cases h; exact iteration_inv _ _ _ hi
      · exact ih _ _ (iteration_inv _ _ _ hi) _ _ h

theorem uvRun_inv (sc : Script) (mode : Mode) (fuel : Nat) (s : State) (hi : SInv s) :
    ∀ s' r, uvRun sc mode fuel s = some (s', r) → SInv s' := by
  intro s' r h
  unfold uvRun at h
  simp only at h
  have h0 : SInv (if !alive s then updateTime s else s) := by
    split
    · simpa using hi
    · exact hi
  generalize (if !alive s then updateTime s else s) = s0 at h h0
  have h1 : SInv (if initialTimers mode (alive s) s0.stop then runTimers sc .timers0 (updateTime s0) else s0) := by
    split
    · apply runTimers_inv; simpa using h0
    · exact h0
  generalize (if initialTimers mode (alive s) s0.stop then runTimers sc .timers0 (updateTime s0) else s0) = s1 at h h1
  cases hr : runLoop sc mode fuel s1 (alive s) with
  | none => simp [hr] at h
  | some p =>
    simp only [hr, Option.some.injEq, Prod.mk.injEq] at h
    have := runLoop_inv sc mode fuel s1 (alive s) h1 p.1 p.2 (by simp [hr])
    rw [← h.1]
    exact this

theorem stepMain_inv (sc : Script) (fuel : Nat) (s : State) (m : MainOp) (hi : SInv s) : SInv (stepMain sc fuel s m) := by
  cases m with
  | op o =>
    simp only [stepMain]
    split
    · exact hi
    · exact stepOp_inv _ _ hi
  | run md =>
    simp only [stepMain]
    split
    · exact hi
    · split
      · have : SInv (emit s (.runBegin md)) := by simpa using hi
        exact this
      · rename_i s' r heq
        simp only [SInv_emit, SInv_emitObs]
        exact uvRun_inv _ _ _ _ (by simpa using hi) _ _ heq
  | loopClose =>
    simp only [stepMain]
    split
    · exact hi
    · have : sig (loopClose s).1 = sig s := by
        unfold loopClose; split <;> rfl
      have h1 : SInv (loopClose s).1 := SInv.of_sig this hi
      split
      · simpa using h1
      · simpa using h1

theorem runMain_inv (sc : Script) (fuel : Nat) (prog : List MainOp) (s : State) (hi : SInv s) :
    SInv (runMain sc fuel s prog) := by
  unfold runMain
  induction prog generalizing s with
  | nil => exact hi
  | cons m t ih => exact ih _ (stepMain_inv _ _ _ _ hi)

end UvModel.Loop
