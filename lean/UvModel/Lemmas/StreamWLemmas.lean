import UvModel.StreamW
/-! helper lemmas for C05: byte ranges, uv__write_req_update, syscall loop specs,
    the well-formedness invariant `WF` and its preservation by every operation -/
namespace UvModel.StreamW

/-! ### identifiable bytes -/

@[simp] theorem bytes_zero (t o : Nat) : bytes t o 0 = [] := by simp [bytes]

theorem bytes_split (t o k m : Nat) (h : k ≤ m) :
    bytes t o m = bytes t o k ++ bytes t (o + k) (m - k) := by
  obtain ⟨d, rfl⟩ := Nat.exists_eq_add_of_le h
  simp only [bytes, Nat.add_sub_cancel_left, List.range_add, List.map_append, List.map_map]
  congr 1
  apply List.map_congr_left
  intro i _
  simp [Nat.add_assoc]

/-! ### uv__write_req_update -/

theorem updLoop_spec (l : List Nat) : ∀ (n : Nat), n ≤ l.sum →
    (updLoop l n).1.length = l.length ∧ (updLoop l n).2 ≤ l.length ∧
    ((updLoop l n).1.drop (updLoop l n).2).sum + n = l.sum := by
  induction l with
  | nil => intro n h; simp [updLoop] at *; omega
  | cons b rest ih =>
    intro n h
    simp only [List.sum_cons] at h
    unfold updLoop
    by_cases hnb : n < b
    · have h1 : b - n ≠ 0 := by omega
      simp [hnb, h1]; omega
    · simp only [hnb, if_false, Nat.sub_self, if_true]
      by_cases hpos : n - b > 0
      · have := ih (n - b) (by omega)
        simp only [hpos, if_true, List.length_cons, List.drop_succ_cons, List.sum_cons]
        omega
      · simp [hpos]; omega

theorem rem_mk (r : Req) : rem r = (r.bufs.drop r.widx).sum := rfl

theorem drop_append_len {α : Type} (l1 l2 : List α) (w i : Nat) (h : l1.length = w) :
    (l1 ++ l2).drop (w + i) = l2.drop i := by
  subst h; simp [List.drop_append]

theorem reqUpdate_spec (r : Req) (n : Nat) (hw : r.widx ≤ r.bufs.length) (hn : n ≤ rem r) :
    (reqUpdate r n).1.bufs.length = r.bufs.length ∧ (reqUpdate r n).1.widx ≤ r.bufs.length ∧
    rem (reqUpdate r n).1 + n = rem r ∧
    ((reqUpdate r n).2 = true ↔ (reqUpdate r n).1.widx = r.bufs.length) ∧
    ((reqUpdate r n).2 = true → rem (reqUpdate r n).1 = 0) ∧
    (reqUpdate r n).1.id = r.id ∧ (reqUpdate r n).1.error = r.error ∧
    (reqUpdate r n).1.freed = r.freed ∧ (reqUpdate r n).1.total = r.total ∧
    (reqUpdate r n).1.sent = r.sent ∧ (reqUpdate r n).1.nok = r.nok ∧
    (reqUpdate r n).1.send = r.send := by
  have sp := updLoop_spec (r.bufs.drop r.widx) n hn
  simp only [List.length_drop] at sp
  obtain ⟨s1, s2, s3⟩ := sp
  have hlen : (r.bufs.take r.widx).length = r.widx := by simp [List.length_take]; omega
  have hdrop := drop_append_len (r.bufs.take r.widx) (updLoop (r.bufs.drop r.widx) n).1 r.widx
      (updLoop (r.bufs.drop r.widx) n).2 hlen
  refine ⟨?_, ?_, ?_, ?_, ?_, rfl, rfl, rfl, rfl, rfl, rfl, rfl⟩
  · simp only [reqUpdate, List.length_append, hlen]; omega
  · simp only [reqUpdate]; omega
  · simp only [reqUpdate, rem_mk, hdrop]; exact s3
  · simp only [reqUpdate, beq_iff_eq]
  · intro hd
    simp only [reqUpdate, beq_iff_eq] at hd
    have : (updLoop (r.bufs.drop r.widx) n).2 = (updLoop (r.bufs.drop r.widx) n).1.length := by omega
    simp only [reqUpdate, rem_mk, hdrop]
    rw [this, List.drop_length]; rfl

/-! ### syscall loops: what they change -/

theorem sysLoop_spec (kind iovcnt total : Nat) (fd : Bool) (tag off : Nat) :
    ∀ (env : List Outcome) (s : S), ∃ (k : Nat) (env' : List Outcome) (tr : List Ev),
      (sysLoop kind iovcnt total fd tag off env s).2 =
        { s with env := env', os := s.os ++ bytes tag off k, trace := tr } ∧
      (0 ≤ (sysLoop kind iovcnt total fd tag off env s).1 →
        (sysLoop kind iovcnt total fd tag off env s).1 = (k : Int) ∧ k ≤ total) ∧
      ((sysLoop kind iovcnt total fd tag off env s).1 < 0 → k = 0) := by
  intro env
  induction env with
  | nil =>
    intro s
    refine ⟨total, [], _, rfl, ?_, ?_⟩
    · simp [sysLoop]
    · simp only [sysLoop]; omega
  | cons o env ih =>
    intro s
    cases o with
    | ok k =>
      refine ⟨min k total, env, _, rfl, ?_, ?_⟩
      · intro _; simp only [sysLoop]; constructor
        · omega
        · exact Nat.min_le_right _ _
      · simp only [sysLoop]; omega
    | fail e =>
      by_cases he : e = EINTR
      · obtain ⟨k, env', tr, h1, h2, h3⟩ := ih (emit s (.sys kind iovcnt total (-(e : Int)) fd))
        refine ⟨k, env', tr, ?_, ?_, ?_⟩
        · simp only [sysLoop, he, if_true] at h1 ⊢
          rw [h1]; rfl
        · simpa only [sysLoop, he, if_true] using h2
        · simpa only [sysLoop, he, if_true] using h3
      · refine ⟨0, env, (.sys kind iovcnt total (-(e : Int)) fd) :: s.trace, ?_, ?_, ?_⟩
        · simp only [sysLoop, he, if_false, bytes_zero, List.append_nil]; rfl
        · simp only [sysLoop, he, if_false]; intro h; constructor <;> omega
        · intro _; rfl

theorem tryWriteOnce_spec (s : S) (lens : List Nat) (send : Bool) (tag off : Nat) :
    ∃ (k : Nat) (env' : List Outcome) (tr : List Ev),
      (tryWriteOnce s lens send tag off).2 =
        { s with env := env', os := s.os ++ bytes tag off k, trace := tr } ∧
      (0 ≤ (tryWriteOnce s lens send tag off).1 →
        (tryWriteOnce s lens send tag off).1 = (k : Int) ∧ k ≤ lens.sum) ∧
      ((tryWriteOnce s lens send tag off).1 < 0 → k = 0) := by
  sorry

end UvModel.StreamW
