import UvModel.StreamW
/-! helper lemmas for C05: byte ranges, uv__write_req_update, syscall loop specs,
    the well-formedness invariant `WF` and its preservation by every operation -/
namespace UvModel.StreamW

/-! ### identifiable bytes -/

@[simp] theorem bytes_zero (t o : Nat) : bytes t o 0 = [] := by simp [bytes]

theorem bytes_split (t o k m : Nat) (h : k ≤ m) :
    bytes t o m = bytes t o k ++ bytes t (o + k) (m - k) := by
  obtain ⟨d, rfl⟩ := Nat.exists_eq_add_of_le h
  simp only [bytes, Nat.add_sub_cancel_left, List.range_add, List.map_append, List.map_map]
  congr 1
  apply List.map_congr_left
  intro i _
  simp [Nat.add_assoc]

/-! ### uv__write_req_update -/

theorem updLoop_spec (l : List Nat) : ∀ (n : Nat), n ≤ l.sum →
    (updLoop l n).1.length = l.length ∧ (updLoop l n).2 ≤ l.length ∧
    ((updLoop l n).1.drop (updLoop l n).2).sum + n = l.sum := by
  induction l with
  | nil => intro n h; simp [updLoop] at *; omega
  | cons b rest ih =>
    intro n h
    simp only [List.sum_cons] at h
    unfold updLoop
    by_cases hnb : n < b
    · have h1 : b - n ≠ 0 := by omega
      simp [hnb, h1]; omega
    · simp only [hnb, if_false, Nat.sub_self, if_true]
      by_cases hpos : n - b > 0
      · have := ih (n - b) (by omega)
        simp only [hpos, if_true, List.length_cons, List.drop_succ_cons, List.sum_cons]
        omega
      · simp [hpos]; omega

theorem rem_mk (r : Req) : rem r = (r.bufs.drop r.widx).sum := rfl

theorem drop_append_len {α : Type} (l1 l2 : List α) (w i : Nat) (h : l1.length = w) :
    (l1 ++ l2).drop (w + i) = l2.drop i := by
  subst h; simp [List.drop_append]

theorem reqUpdate_spec (r : Req) (n : Nat) (hw : r.widx ≤ r.bufs.length) (hn : n ≤ rem r) :
    (reqUpdate r n).1.bufs.length = r.bufs.length ∧ (reqUpdate r n).1.widx ≤ r.bufs.length ∧
    rem (reqUpdate r n).1 + n = rem r ∧
    ((reqUpdate r n).2 = true ↔ (reqUpdate r n).1.widx = r.bufs.length) ∧
    ((reqUpdate r n).2 = true → rem (reqUpdate r n).1 = 0) ∧
    (reqUpdate r n).1.id = r.id ∧ (reqUpdate r n).1.error = r.error ∧
    (reqUpdate r n).1.freed = r.freed ∧ (reqUpdate r n).1.total = r.total ∧
    (reqUpdate r n).1.sent = r.sent ∧ (reqUpdate r n).1.nok = r.nok ∧
    (reqUpdate r n).1.send = r.send := by
  have sp := updLoop_spec (r.bufs.drop r.widx) n hn
  simp only [List.length_drop] at sp
  obtain ⟨s1, s2, s3⟩ := sp
  have hlen : (r.bufs.take r.widx).length = r.widx := by simp [List.length_take]; omega
  have hdrop := drop_append_len (r.bufs.take r.widx) (updLoop (r.bufs.drop r.widx) n).1 r.widx
      (updLoop (r.bufs.drop r.widx) n).2 hlen
  refine ⟨?_, ?_, ?_, ?_, ?_, rfl, rfl, rfl, rfl, rfl, rfl, rfl⟩
  · simp only [reqUpdate, List.length_append, hlen]; omega
  · simp only [reqUpdate]; omega
  · simp only [reqUpdate, rem_mk, hdrop]; exact s3
  · simp only [reqUpdate, beq_iff_eq]
  · intro hd
    simp only [reqUpdate, beq_iff_eq] at hd
    have : (updLoop (r.bufs.drop r.widx) n).2 = (updLoop (r.bufs.drop r.widx) n).1.length := by omega
    simp only [reqUpdate, rem_mk, hdrop]
    rw [this, List.drop_length]; rfl

/-! ### syscall loops: what they change -/

theorem sysLoop_spec (kind iovcnt total : Nat) (fd : Bool) (tag off : Nat) :
    ∀ (env : List Outcome) (s : S), ∃ (k : Nat) (env' : List Outcome) (tr : List Ev),
      (sysLoop kind iovcnt total fd tag off env s).2 =
        { s with env := env', os := s.os ++ bytes tag off k, trace := tr } ∧
      (0 ≤ (sysLoop kind iovcnt total fd tag off env s).1 →
        (sysLoop kind iovcnt total fd tag off env s).1 = (k : Int) ∧ k ≤ total) ∧
      ((sysLoop kind iovcnt total fd tag off env s).1 < 0 → k = 0) := by
  intro env
  induction env with
  | nil =>
    intro s
    refine ⟨total, [], _, rfl, ?_, ?_⟩
    · simp [sysLoop]
    · simp only [sysLoop]; omega
  | cons o env ih =>
    intro s
    cases o with
    | ok k =>
      refine ⟨min k total, env, _, rfl, ?_, ?_⟩
      · intro _; simp only [sysLoop]; constructor
        · omega
        · exact Nat.min_le_right _ _
      · simp only [sysLoop]; omega
    | fail e =>
      by_cases he : e = EINTR
      · obtain ⟨k, env', tr, h1, h2, h3⟩ := ih (emit s (.sys kind iovcnt total (-(e : Int)) fd))
        refine ⟨k, env', tr, ?_, ?_, ?_⟩
        · simp only [sysLoop, he, if_true] at h1 ⊢
          rw [h1]; rfl
        · simpa only [sysLoop, he, if_true] using h2
        · simpa only [sysLoop, he, if_true] using h3
      · refine ⟨0, env, (.sys kind iovcnt total (-(e : Int)) fd) :: s.trace, ?_, ?_, ?_⟩
        · simp only [sysLoop, he, if_false, bytes_zero, List.append_nil]; rfl
        · simp only [sysLoop, he, if_false]; intro h; constructor <;> omega
        · intro _; rfl

theorem sum_take_le (l : List Nat) (n : Nat) : (l.take n).sum ≤ l.sum := by
  conv => rhs; rw [← List.take_append_drop n l]
  rw [List.sum_append]; omega

def twPost (r : Int × S) : Int × S :=
  if r.1 ≥ 0 then r
  else if r.1 = -(EAGAIN : Int) ∨ r.1 = -(ENOBUFS : Int) then (UV_EAGAIN, r.2)
  else r

theorem twPost_spec (r : Int × S) :
    (twPost r).2 = r.2 ∧ (0 ≤ (twPost r).1 → (twPost r).1 = r.1) ∧ ((twPost r).1 < 0 → r.1 < 0) := by
  unfold twPost
  split
  · exact ⟨rfl, fun _ => rfl, fun h => h⟩
  · split
    · refine ⟨rfl, ?_, fun _ => by omega⟩
      intro h; simp [UV_EAGAIN] at h
    · exact ⟨rfl, fun _ => rfl, fun h => h⟩

theorem tryWriteOnce_spec (s : S) (lens : List Nat) (send : Bool) (tag off : Nat) :
    ∃ (k : Nat) (env' : List Outcome) (tr : List Ev),
      (tryWriteOnce s lens send tag off).2 =
        { s with env := env', os := s.os ++ bytes tag off k, trace := tr } ∧
      (0 ≤ (tryWriteOnce s lens send tag off).1 →
        (tryWriteOnce s lens send tag off).1 = (k : Int) ∧ k ≤ lens.sum) ∧
      ((tryWriteOnce s lens send tag off).1 < 0 → k = 0) := by
  have heq : tryWriteOnce s lens send tag off = twPost (sysLoop
    (if send then 2 else if (if lens.length > IOV_MAX then IOV_MAX else lens.length) = 1 then 0 else 1)
    (if lens.length > IOV_MAX then IOV_MAX else lens.length)
    ((lens.take (if lens.length > IOV_MAX then IOV_MAX else lens.length)).sum) send tag off s.env s) := rfl
  obtain ⟨k, env', tr, h1, h2, h3⟩ := sysLoop_spec
    (if send then 2 else if (if lens.length > IOV_MAX then IOV_MAX else lens.length) = 1 then 0 else 1)
    (if lens.length > IOV_MAX then IOV_MAX else lens.length)
    ((lens.take (if lens.length > IOV_MAX then IOV_MAX else lens.length)).sum) send tag off s.env s
  have hle := sum_take_le lens (if lens.length > IOV_MAX then IOV_MAX else lens.length)
  rw [heq]
  obtain ⟨p1, p2, p3⟩ := twPost_spec (sysLoop
    (if send then 2 else if (if lens.length > IOV_MAX then IOV_MAX else lens.length) = 1 then 0 else 1)
    (if lens.length > IOV_MAX then IOV_MAX else lens.length)
    ((lens.take (if lens.length > IOV_MAX then IOV_MAX else lens.length)).sum) send tag off s.env s)
  refine ⟨k, env', tr, ?_, ?_, ?_⟩
  · rw [p1]; exact h1
  · intro h
    have e := p2 h
    rw [e] at h ⊢
    have := h2 h
    exact ⟨this.1, by omega⟩
  · intro h; exact h3 (p3 h)

/-! ### the invariant -/

/-- bytes still to be sent by the requests of the write queue, in order -/
def pend : List Req → List (Nat × Nat)
  | [] => []
  | r :: l => bytes r.id r.sent (rem r) ++ pend l

@[simp] theorem pend_nil : pend [] = [] := rfl
@[simp] theorem pend_cons (r : Req) (l : List Req) : pend (r :: l) = bytes r.id r.sent (rem r) ++ pend l := rfl
theorem pend_append (a b : List Req) : pend (a ++ b) = pend a ++ pend b := by
  induction a with
  | nil => rfl
  | cons r l ih => simp [ih]

@[simp] theorem unsent_nil : unsent [] = 0 := rfl
@[simp] theorem unsent_cons (r : Req) (l : List Req) : unsent (r :: l) = rem r + unsent l := by
  simp [unsent]
@[simp] theorem unsent_append (a b : List Req) : unsent (a ++ b) = unsent a + unsent b := by
  simp [unsent]

theorem pend_of_unsent_zero (l : List Req) (h : unsent l = 0) : pend l = [] := by
  induction l with
  | nil => rfl
  | cons r l ih =>
    simp only [unsent_cons] at h
    have h1 : rem r = 0 := by omega
    have h2 : unsent l = 0 := by omega
    simp [h1, ih h2]

structure WF (s : S) : Prop where
  wqs_eq : s.wqs = ((unsent (s.pq ++ s.cq ++ s.wq) : Nat) : Int)
  wq_ok : ∀ r ∈ s.wq, r.widx ≤ r.bufs.length ∧ r.error = 0 ∧ r.freed = false ∧ (r.send = true → r.nok = 0)
  sent_ok : ∀ r ∈ s.pq ++ s.cq ++ s.wq, r.sent + rem r = r.total
  done_ok : ∀ r ∈ s.pq ++ s.cq, (r.freed = true → rem r = 0) ∧ (r.error = 0 → r.freed = true)
  acc_eq : s.accepted = s.cbs.map (·.id) ++ (s.pq ++ s.cq ++ s.wq).map (·.id)
  acc_lt : s.accepted.Pairwise (· < ·) ∧ ∀ i ∈ s.accepted, i < s.nextId
  closing_ok : s.closing = true →
    s.fdOpen = false ∧ s.pending = false ∧ s.pollout = false ∧ s.writable = false
  shut_ok : s.shut = true → s.osAtShut = some s.os ∧ s.wq = [] ∧ s.writable = false
  called_ok : s.shutdownCalled = true → s.writable = false
  req_ok : s.shutdownReq = true → s.writable = false
  os_ok : s.hardErr = true ∨
    ∃ rest, s.submitted = s.os ++ rest ∧ (s.closing = false → rest = pend s.wq)
  cbs_ok : ∀ c ∈ s.cbs, c.status = 0 → c.sent = c.total
  mon_ok : s.obsBad = false ∧ s.shutCbEarly = [] ∧ s.shutSysPending = [] ∧ ∀ p ∈ s.fdSent, p.2 = 0
  closed_ok : s.closed = true → s.closing = true ∧ s.wq = [] ∧ s.cq = []

theorem rem_freed (r : Req) (b : Bool) : rem { r with freed := b } = rem r := rfl
theorem rem_error (r : Req) (e : Int) : rem { r with error := e } = rem r := rfl

theorem writeIter_wf (s : S) (r : Req) (rest : List Req) (h : WF s) (hq : s.wq = r :: rest)
    (hc : s.closing = false) :
    WF (writeIter s r rest).1 ∧ (writeIter s r rest).1.closing = false ∧
    (writeIter s r rest).1.pq = s.pq := by
  obtain ⟨k, env', tr, e1, e2, e3⟩ := tryWriteOnce_spec s (r.bufs.drop r.widx) r.send r.id r.sent
  have hr := h.wq_ok r (by rw [hq]; simp)
  have hsent := h.sent_ok r (by rw [hq]; simp)
  have hwqs := h.wqs_eq
  have hacc := h.acc_eq
  have hshut : s.shut = false := by
    cases hs : s.shut with
    | false => rfl
    | true => have := (h.shut_ok hs).2.1; rw [hq] at this; cases this
  rw [hq] at hwqs hacc
  simp only [unsent_append, unsent_cons] at hwqs
  unfold writeIter
  simp only [e1]
  by_cases hn : (tryWriteOnce s (r.bufs.drop r.widx) r.send r.id r.sent).1 ≥ 0
  · obtain ⟨ek, hk⟩ := e2 hn
    have hk' : k ≤ rem r := hk
    have ru := reqUpdate_spec { r with send := false, sent := r.sent + k, nok := r.nok + 1 } k
      (by simp only []; omega) hk'
    simp only [ek, Int.toNat_natCast, ge_iff_le, Int.natCast_nonneg, if_true]
    generalize reqUpdate { r with send := false, sent := r.sent + k, nok := r.nok + 1 } k = u at ru ⊢
    obtain ⟨u1, u2, u3, u4, u5, u6, u7, u8, u9, u10, u11, u12⟩ := ru
    have u1 : u.1.bufs.length = r.bufs.length := u1
    have u2 : u.1.widx ≤ r.bufs.length := u2
    have u3' : rem u.1 + k = rem r := u3
    have u4 : u.2 = true ↔ u.1.widx = r.bufs.length := u4
    have u6 : u.1.id = r.id := u6
    have u7 : u.1.error = r.error := u7
    have u8 : u.1.freed = r.freed := u8
    have u9 : u.1.total = r.total := u9
    have u10 : u.1.sent = r.sent + k := u10
    have u11 : u.1.nok = r.nok + 1 := u11
    have u12 : u.1.send = false := u12
    clear u3
    have hos : s.hardErr = true ∨ ∃ rest', s.submitted = (s.os ++ bytes r.id r.sent k) ++ rest' ∧
        rest' = bytes r.id (r.sent + k) (rem u.1) ++ pend rest := by
      rcases h.os_ok with hh | ⟨rest', hr1, hr2⟩
      · exact Or.inl hh
      · right
        have := hr2 hc
        rw [hq, pend_cons, bytes_split r.id r.sent k (rem r) hk'] at this
        refine ⟨_, ?_, rfl⟩
        rw [hr1, this]
        have : rem r - k = rem u.1 := by omega
        simp [this, List.append_assoc]
    by_cases hd : u.2 = true
    · have hz := u5 hd
      simp only [hd, if_true, finish]
      refine ⟨?_, hc, by first | rfl | trivial⟩
      exact {
        wqs_eq := by
          simp only [unsent_append, unsent_cons, unsent_nil, rem_freed]
          omega
        wq_ok := fun x hx => h.wq_ok x (by rw [hq]; exact List.mem_cons_of_mem _ hx)
        sent_ok := by
          intro x hx
          simp only [List.mem_append, List.mem_singleton] at hx
          rcases hx with (hx | hx | hx) | hx
          · exact h.sent_ok x (by simp [hx])
          · exact h.sent_ok x (by simp [hx])
          · subst hx; show u.1.sent + rem u.1 = u.1.total; omega
          · exact h.sent_ok x (by rw [hq]; simp [hx])
        done_ok := by
          intro x hx
          simp only [List.mem_append, List.mem_singleton] at hx
          rcases hx with hx | hx | hx
          · exact h.done_ok x (by simp [hx])
          · exact h.done_ok x (by simp [hx])
          · subst hx; exact ⟨fun _ => by rw [rem_freed]; exact hz, fun _ => rfl⟩
        acc_eq := by
          rw [hacc]; simp [u6]
        acc_lt := h.acc_lt
        closing_ok := by intro hcl; simp only [] at hcl; rw [hc] at hcl; cases hcl
        shut_ok := by intro hs; simp only [] at hs; rw [hshut] at hs; cases hs
        called_ok := h.called_ok
        req_ok := h.req_ok
        os_ok := by
          rcases hos with hh | ⟨rest', hr1, hr2⟩
          · exact Or.inl hh
          · right
            refine ⟨rest', hr1, fun _ => ?_⟩
            rw [hr2, hz]; simp
        cbs_ok := h.cbs_ok
        mon_ok := by
          refine ⟨h.mon_ok.1, h.mon_ok.2.1, h.mon_ok.2.2.1, ?_⟩
          intro p hp
          simp only [] at hp
          split at hp
          · rename_i hsend
            rcases List.mem_cons.1 hp with hp | hp
            · rw [hp]; exact hr.2.2.2 hsend
            · exact h.mon_ok.2.2.2 p hp
          · exact h.mon_ok.2.2.2 p hp
        closed_ok := by
          intro hcl
          have := (h.closed_ok hcl).1
          rw [hc] at this; cases this }
    · have hd' : u.2 = false := by cases hu : u.2 <;> simp_all
      have hlt : u.1.widx ≤ u.1.bufs.length := by omega
      simp only [hd', Bool.false_eq_true, if_false]
      refine ⟨?_, hc, by first | rfl | trivial⟩
      exact {
        wqs_eq := by
          simp only [unsent_append, unsent_cons]
          omega
        wq_ok := by
          intro x hx
          rcases List.mem_cons.1 hx with hx | hx
          · subst hx
            exact ⟨hlt, by rw [u7]; exact hr.2.1, by rw [u8]; exact hr.2.2.1, fun hs => by rw [u12] at hs; cases hs⟩
          · exact h.wq_ok x (by rw [hq]; exact List.mem_cons_of_mem _ hx)
        sent_ok := by
          intro x hx
          simp only [List.mem_append, List.mem_cons] at hx
          rcases hx with (hx | hx) | hx | hx
          · exact h.sent_ok x (by simp [hx])
          · exact h.sent_ok x (by simp [hx])
          · subst hx; omega
          · exact h.sent_ok x (by rw [hq]; simp [hx])
        done_ok := h.done_ok
        acc_eq := by
          rw [hacc]; simp [u6]
        acc_lt := h.acc_lt
        closing_ok := by intro hcl; simp only [] at hcl; rw [hc] at hcl; cases hcl
        shut_ok := by intro hs; simp only [] at hs; rw [hshut] at hs; cases hs
        called_ok := h.called_ok
        req_ok := h.req_ok
        os_ok := by
          rcases hos with hh | ⟨rest', hr1, hr2⟩
          · exact Or.inl hh
          · right
            refine ⟨rest', hr1, fun _ => ?_⟩
            rw [hr2, pend_cons, u6, u10]
        cbs_ok := h.cbs_ok
        mon_ok := by
          refine ⟨h.mon_ok.1, h.mon_ok.2.1, h.mon_ok.2.2.1, ?_⟩
          intro p hp
          simp only [] at hp
          split at hp
          · rename_i hsend
            rcases List.mem_cons.1 hp with hp | hp
            · rw [hp]; exact hr.2.2.2 hsend
            · exact h.mon_ok.2.2.2 p hp
          · exact h.mon_ok.2.2.2 p hp
        closed_ok := by
          intro hcl
          have := (h.closed_ok hcl).1
          rw [hc] at this; cases this }
  · have hneg : (tryWriteOnce s (r.bufs.drop r.widx) r.send r.id r.sent).1 < 0 := by omega
    have hk0 := e3 hneg
    subst hk0
    simp only [hn, if_false, bytes_zero, List.append_nil]
    by_cases hag : (tryWriteOnce s (r.bufs.drop r.widx) r.send r.id r.sent).1 = UV_EAGAIN
    · simp only [hag, if_true]
      refine ⟨?_, hc, by first | rfl | trivial⟩
      exact {
        wqs_eq := h.wqs_eq
        wq_ok := h.wq_ok
        sent_ok := h.sent_ok
        done_ok := h.done_ok
        acc_eq := h.acc_eq
        acc_lt := h.acc_lt
        closing_ok := by intro hcl; simp only [] at hcl; rw [hc] at hcl; cases hcl
        shut_ok := by intro hs; simp only [] at hs; rw [hshut] at hs; cases hs
        called_ok := h.called_ok
        req_ok := h.req_ok
        os_ok := h.os_ok
        cbs_ok := h.cbs_ok
        mon_ok := h.mon_ok
        closed_ok := h.closed_ok }
    · simp only [hag, if_false, finish]
      refine ⟨?_, hc, by first | rfl | trivial⟩
      exact {
        wqs_eq := by
          simp only [unsent_append, unsent_cons, unsent_nil, rem_error]
          omega
        wq_ok := fun x hx => h.wq_ok x (by rw [hq]; exact List.mem_cons_of_mem _ hx)
        sent_ok := by
          intro x hx
          simp only [List.mem_append, List.mem_singleton] at hx
          rcases hx with (hx | hx | hx) | hx
          · exact h.sent_ok x (by simp [hx])
          · exact h.sent_ok x (by simp [hx])
          · subst hx; exact hsent
          · exact h.sent_ok x (by rw [hq]; simp [hx])
        done_ok := by
          intro x hx
          simp only [List.mem_append, List.mem_singleton] at hx
          rcases hx with hx | hx | hx
          · exact h.done_ok x (by simp [hx])
          · exact h.done_ok x (by simp [hx])
          · subst hx
            refine ⟨fun hf => ?_, fun he => ?_⟩
            · have : r.freed = true := hf
              rw [hr.2.2.1] at this; cases this
            · have : (tryWriteOnce s (r.bufs.drop r.widx) r.send r.id r.sent).1 = 0 := he
              omega
        acc_eq := by
          rw [hacc]; simp
        acc_lt := h.acc_lt
        closing_ok := by intro hcl; simp only [] at hcl; rw [hc] at hcl; cases hcl
        shut_ok := by intro hs; simp only [] at hs; rw [hshut] at hs; cases hs
        called_ok := h.called_ok
        req_ok := h.req_ok
        os_ok := Or.inl rfl
        cbs_ok := h.cbs_ok
        mon_ok := h.mon_ok
        closed_ok := by
          intro hcl
          have := (h.closed_ok hcl).1
          rw [hc] at this; cases this }

theorem writeLoop_wf : ∀ (c : Nat) (s : S), WF s → s.closing = false →
    WF (writeLoop c s) ∧ (writeLoop c s).closing = false ∧ (writeLoop c s).pq = s.pq := by
  intro c
  induction c with
  | zero =>
    intro s h hc
    unfold writeLoop
    split
    · exact ⟨h, hc, rfl⟩
    · rename_i r rest hq
      have := writeIter_wf s r rest h hq hc
      simp only []
      split <;> exact this
  | succ c ih =>
    intro s h hc
    unfold writeLoop
    split
    · exact ⟨h, hc, rfl⟩
    · rename_i r rest hq
      have := writeIter_wf s r rest h hq hc
      simp only []
      split
      · obtain ⟨w1, w2, w3⟩ := this
        have := ih _ w1 w2
        exact ⟨this.1, this.2.1, this.2.2.trans w3⟩
      · exact this

/-- what neither the write loop nor an API call ever changes -/
structure Frame (s s' : S) : Prop where
  pq : s'.pq = s.pq
  cbs : s'.cbs = s.cbs
  connErr : s'.connErr = s.connErr
  closed : s'.closed = s.closed
  hard : s.hardErr = true → s'.hardErr = true

theorem Frame.refl (s : S) : Frame s s := ⟨rfl, rfl, rfl, rfl, id⟩
theorem Frame.trans {a b c : S} (h1 : Frame a b) (h2 : Frame b c) : Frame a c :=
  ⟨h2.pq.trans h1.pq, h2.cbs.trans h1.cbs, h2.connErr.trans h1.connErr, h2.closed.trans h1.closed,
   fun h => h2.hard (h1.hard h)⟩

theorem writeIter_frame (s : S) (r : Req) (rest : List Req) : Frame s (writeIter s r rest).1 := by
  obtain ⟨k, env', tr, e1, _, _⟩ := tryWriteOnce_spec s (r.bufs.drop r.widx) r.send r.id r.sent
  unfold writeIter
  simp only [e1]
  split
  · split <;> exact ⟨rfl, rfl, rfl, rfl, id⟩
  · split
    · exact ⟨rfl, rfl, rfl, rfl, id⟩
    · exact ⟨rfl, rfl, rfl, rfl, fun _ => rfl⟩

theorem writeLoop_frame : ∀ (c : Nat) (s : S), Frame s (writeLoop c s) := by
  intro c
  induction c with
  | zero =>
    intro s
    unfold writeLoop
    split
    · exact Frame.refl s
    · simp only []; split <;> exact writeIter_frame s _ _
  | succ c ih =>
    intro s
    unfold writeLoop
    split
    · exact Frame.refl s
    · simp only []
      split
      · exact (writeIter_frame s _ _).trans (ih _)
      · exact writeIter_frame s _ _

/-! ### API calls preserve the invariant -/

def ClFrame (s s' : S) : Prop :=
  s.closing = true → s'.closing = true ∧ s'.cq = s.cq ∧ s'.wq = s.wq

theorem WF.bump {s : S} (h : WF s) : WF { s with nextId := s.nextId + 1 } :=
  { wqs_eq := h.wqs_eq, wq_ok := h.wq_ok, sent_ok := h.sent_ok, done_ok := h.done_ok, acc_eq := h.acc_eq,
    acc_lt := ⟨h.acc_lt.1, fun i hi => Nat.lt_succ_of_lt (h.acc_lt.2 i hi)⟩,
    closing_ok := h.closing_ok, shut_ok := h.shut_ok, called_ok := h.called_ok, req_ok := h.req_ok,
    os_ok := h.os_ok, cbs_ok := h.cbs_ok, mon_ok := h.mon_ok, closed_ok := h.closed_ok }

theorem check_ok (s : S) (send : Bool) (h : ¬ checkBeforeWrite s send < 0) :
    s.fdOpen = true ∧ s.writable = true := by
  cases hf : s.fdOpen <;> cases hw : s.writable <;>
    simp [checkBeforeWrite, hf, hw, UV_EBADF, UV_EPIPE] at h ⊢

theorem WF.open_facts {s : S} (h : WF s) (hf : s.fdOpen = true) (hw : s.writable = true) :
    s.closing = false ∧ s.shut = false ∧ s.closed = false ∧ s.shutdownCalled = false ∧
    s.shutdownReq = false := by
  have hc : s.closing = false := by
    cases hc : s.closing with
    | false => rfl
    | true => have := (h.closing_ok hc).1; rw [hf] at this; cases this
  refine ⟨hc, ?_, ?_, ?_, ?_⟩
  · cases hs : s.shut with
    | false => rfl
    | true => have := (h.shut_ok hs).2.2; rw [hw] at this; cases this
  · cases hs : s.closed with
    | false => rfl
    | true => have := (h.closed_ok hs).1; rw [hc] at this; cases this
  · cases hs : s.shutdownCalled with
    | false => rfl
    | true => have := h.called_ok hs; rw [hw] at this; cases this
  · cases hs : s.shutdownReq with
    | false => rfl
    | true => have := h.req_ok hs; rw [hw] at this; cases this

theorem write2_wf (s : S) (bufs : List Nat) (send : Bool) (nomem : Bool) (h : WF s) :
    WF (write2 s bufs send nomem).1 ∧ Frame s (write2 s bufs send nomem).1 ∧
    ClFrame s (write2 s bufs send nomem).1 := by
  unfold write2
  simp only []
  by_cases hchk : checkBeforeWrite { s with nextId := s.nextId + 1 } send < 0
  · simp only [hchk, if_true]
    exact ⟨h.bump, ⟨rfl, rfl, rfl, rfl, id⟩, fun hc => ⟨hc, rfl, rfl⟩⟩
  · simp only [hchk, if_false]
    by_cases hnm : nomem = true ∧ bufs.length > BUFSML
    · rw [if_pos hnm]
      exact ⟨h.bump, ⟨rfl, rfl, rfl, rfl, id⟩, fun hc => ⟨hc, rfl, rfl⟩⟩
    rw [if_neg hnm]
    obtain ⟨hf, hw⟩ := check_ok _ _ hchk
    have hf : s.fdOpen = true := hf
    have hw : s.writable = true := hw
    obtain ⟨hc, hs, hcd, hsc, hsr⟩ := h.open_facts hf hw
    have hclf : ∀ s' : S, ClFrame s s' := fun s' hcl => by rw [hc] at hcl; cases hcl
    have w2 : WF { s with
        nextId := s.nextId + 1, wqs := s.wqs + totalOf bufs,
        wq := s.wq ++ [{ id := s.nextId, bufs := bufs, send := send, total := totalOf bufs }],
        accepted := s.accepted ++ [s.nextId],
        submitted := s.submitted ++ bytes s.nextId 0 (totalOf bufs) } :=
      { wqs_eq := by
          have := h.wqs_eq
          simp only [unsent_append, unsent_cons, unsent_nil, rem, List.drop_zero, totalOf] at this ⊢
          omega
        wq_ok := by
          intro x hx
          rcases List.mem_append.1 hx with hx | hx
          · exact h.wq_ok x hx
          · rw [List.mem_singleton.1 hx]
            exact ⟨Nat.zero_le _, rfl, rfl, fun _ => rfl⟩
        sent_ok := by
          intro x hx
          simp only [List.mem_append, List.mem_singleton] at hx
          rcases hx with (hx | hx) | hx | hx
          · exact h.sent_ok x (by simp [hx])
          · exact h.sent_ok x (by simp [hx])
          · exact h.sent_ok x (by simp [hx])
          · subst hx; simp [rem, totalOf]
        done_ok := h.done_ok
        acc_eq := by
          have := h.acc_eq
          simp only [List.map_append, List.map_cons, List.map_nil, List.append_assoc] at this ⊢
          rw [this]; simp only [List.append_assoc]
        acc_lt := by
          refine ⟨List.pairwise_append.2 ⟨h.acc_lt.1, List.pairwise_singleton _ _, ?_⟩, ?_⟩
          · intro a ha b hb
            rw [List.mem_singleton.1 hb]; exact h.acc_lt.2 a ha
          · intro i hi
            rcases List.mem_append.1 hi with hi | hi
            · exact Nat.lt_succ_of_lt (h.acc_lt.2 i hi)
            · rw [List.mem_singleton.1 hi]; exact Nat.lt_succ_self _
        closing_ok := by intro hcl; simp only [] at hcl; rw [hc] at hcl; cases hcl
        shut_ok := by intro hh; simp only [] at hh; rw [hs] at hh; cases hh
        called_ok := by intro hh; simp only [] at hh; rw [hsc] at hh; cases hh
        req_ok := by intro hh; simp only [] at hh; rw [hsr] at hh; cases hh
        os_ok := by
          rcases h.os_ok with hh | ⟨rest, hr1, hr2⟩
          · exact Or.inl hh
          · right
            refine ⟨rest ++ bytes s.nextId 0 (totalOf bufs), ?_, fun _ => ?_⟩
            · simp only [hr1, List.append_assoc]
            · rw [hr2 hc, pend_append]; simp [rem, totalOf]
        cbs_ok := h.cbs_ok
        mon_ok := h.mon_ok
        closed_ok := by intro hh; simp only [] at hh; rw [hcd] at hh; cases hh }
    split
    · exact ⟨w2, ⟨rfl, rfl, rfl, rfl, id⟩, hclf _⟩
    · split
      · have := writeLoop_wf 32 _ w2 hc
        have fr := writeLoop_frame 32 { s with
          nextId := s.nextId + 1, wqs := s.wqs + totalOf bufs,
          wq := s.wq ++ [{ id := s.nextId, bufs := bufs, send := send, total := totalOf bufs }],
          accepted := s.accepted ++ [s.nextId],
          submitted := s.submitted ++ bytes s.nextId 0 (totalOf bufs) }
        exact ⟨this.1, ⟨fr.pq, fr.cbs, fr.connErr, fr.closed, fr.hard⟩, hclf _⟩
      · refine ⟨?_, ⟨rfl, rfl, rfl, rfl, id⟩, hclf _⟩
        exact { wqs_eq := w2.wqs_eq, wq_ok := w2.wq_ok, sent_ok := w2.sent_ok, done_ok := w2.done_ok,
                acc_eq := w2.acc_eq, acc_lt := w2.acc_lt,
                closing_ok := (by intro hcl; simp only [] at hcl; rw [hc] at hcl; cases hcl),
                shut_ok := w2.shut_ok, called_ok := w2.called_ok, req_ok := w2.req_ok, os_ok := w2.os_ok,
                cbs_ok := w2.cbs_ok, mon_ok := w2.mon_ok, closed_ok := w2.closed_ok }

theorem unsent_wq_zero {s : S} (h : WF s) (hz : s.wqs = 0) : unsent s.wq = 0 := by
  have := h.wqs_eq
  simp only [unsent_append] at this
  omega

theorem tryWrite2_wf (s : S) (bufs : List Nat) (send : Bool) (h : WF s) :
    WF (tryWrite2 s bufs send).1 ∧ Frame s (tryWrite2 s bufs send).1 ∧
    ClFrame s (tryWrite2 s bufs send).1 := by
  unfold tryWrite2
  simp only []
  split
  · exact ⟨h.bump, ⟨rfl, rfl, rfl, rfl, id⟩, fun hc => ⟨hc, rfl, rfl⟩⟩
  · rename_i hcond
    have hz : s.wqs = 0 := by
      cases hcn : s.connecting <;> simp_all
    by_cases hchk : checkBeforeWrite { s with nextId := s.nextId + 1 } send < 0
    · simp only [hchk, if_true]
      exact ⟨h.bump, ⟨rfl, rfl, rfl, rfl, id⟩, fun hc => ⟨hc, rfl, rfl⟩⟩
    · simp only [hchk, if_false]
      obtain ⟨hf, hw⟩ := check_ok _ _ hchk
      have hf : s.fdOpen = true := hf
      have hw : s.writable = true := hw
      obtain ⟨hc, hs, hcd, hsc, hsr⟩ := h.open_facts hf hw
      have hclf : ∀ s' : S, ClFrame s s' := fun s' hcl => by rw [hc] at hcl; cases hcl
      have hpend : pend s.wq = [] := pend_of_unsent_zero _ (unsent_wq_zero h hz)
      obtain ⟨k, env', tr, e1, e2, e3⟩ :=
        tryWriteOnce_spec { s with nextId := s.nextId + 1 } bufs send s.nextId 0
      simp only [e1]
      have hb := h.bump
      split
      · rename_i hn
        obtain ⟨ek, _⟩ := e2 hn
        simp only [ek, Int.toNat_natCast]
        refine ⟨?_, ⟨rfl, rfl, rfl, rfl, id⟩, hclf _⟩
        exact {
          wqs_eq := hb.wqs_eq, wq_ok := hb.wq_ok, sent_ok := hb.sent_ok, done_ok := hb.done_ok,
          acc_eq := hb.acc_eq, acc_lt := hb.acc_lt,
          closing_ok := (by intro hcl; simp only [] at hcl; rw [hc] at hcl; cases hcl),
          shut_ok := (by intro hh; simp only [] at hh; rw [hs] at hh; cases hh),
          called_ok := hb.called_ok, req_ok := hb.req_ok,
          os_ok := (by
            rcases h.os_ok with hh | ⟨rest, hr1, hr2⟩
            · exact Or.inl hh
            · right
              have hr := hr2 hc
              rw [hpend] at hr
              refine ⟨[], ?_, fun _ => hpend.symm⟩
              simp only [hr1, hr, List.append_nil]),
          cbs_ok := hb.cbs_ok,
          mon_ok := (by
            refine ⟨h.mon_ok.1, h.mon_ok.2.1, h.mon_ok.2.2.1, ?_⟩
            intro p hp
            simp only [] at hp
            split at hp
            · rcases List.mem_cons.1 hp with hp | hp
              · rw [hp]
              · exact h.mon_ok.2.2.2 p hp
            · exact h.mon_ok.2.2.2 p hp),
          closed_ok := hb.closed_ok }
      · rename_i hn
        have hk0 : k = 0 := e3 (by omega)
        subst hk0
        simp only [bytes_zero, List.append_nil]
        split
        · refine ⟨?_, ⟨rfl, rfl, rfl, rfl, id⟩, hclf _⟩
          exact {
            wqs_eq := hb.wqs_eq, wq_ok := hb.wq_ok, sent_ok := hb.sent_ok, done_ok := hb.done_ok,
            acc_eq := hb.acc_eq, acc_lt := hb.acc_lt, closing_ok := hb.closing_ok, shut_ok := hb.shut_ok,
            called_ok := hb.called_ok, req_ok := hb.req_ok, os_ok := hb.os_ok, cbs_ok := hb.cbs_ok,
            mon_ok := hb.mon_ok, closed_ok := hb.closed_ok }
        · refine ⟨?_, ⟨rfl, rfl, rfl, rfl, fun _ => rfl⟩, hclf _⟩
          exact {
            wqs_eq := hb.wqs_eq, wq_ok := hb.wq_ok, sent_ok := hb.sent_ok, done_ok := hb.done_ok,
            acc_eq := hb.acc_eq, acc_lt := hb.acc_lt, closing_ok := hb.closing_ok, shut_ok := hb.shut_ok,
            called_ok := hb.called_ok, req_ok := hb.req_ok, os_ok := Or.inl rfl, cbs_ok := hb.cbs_ok,
            mon_ok := hb.mon_ok, closed_ok := hb.closed_ok }

theorem shutdownOp_wf (s : S) (h : WF s) :
    WF (shutdownOp s).1 ∧ Frame s (shutdownOp s).1 ∧ ClFrame s (shutdownOp s).1 := by
  unfold shutdownOp
  split
  · exact ⟨h, Frame.refl s, fun hc => ⟨hc, rfl, rfl⟩⟩
  · rename_i hcond
    have hc : s.closing = false := by cases hx : s.closing <;> simp_all
    have hs : s.shut = false := by cases hx : s.shut <;> simp_all
    have hcd : s.closed = false := by
      cases hx : s.closed with
      | false => rfl
      | true => have := (h.closed_ok hx).1; rw [hc] at this; cases this
    refine ⟨?_, ⟨rfl, rfl, rfl, rfl, id⟩, fun hcl => by rw [hc] at hcl; cases hcl⟩
    exact {
      wqs_eq := h.wqs_eq, wq_ok := h.wq_ok, sent_ok := h.sent_ok, done_ok := h.done_ok,
      acc_eq := h.acc_eq, acc_lt := h.acc_lt,
      closing_ok := (by intro hcl; simp only [] at hcl; rw [hc] at hcl; cases hcl),
      shut_ok := (by intro hh; simp only [] at hh; rw [hs] at hh; cases hh),
      called_ok := fun _ => rfl, req_ok := fun _ => rfl, os_ok := h.os_ok, cbs_ok := h.cbs_ok,
      mon_ok := h.mon_ok,
      closed_ok := (by intro hh; simp only [] at hh; rw [hcd] at hh; cases hh) }

theorem closeOp_wf (s : S) (h : WF s) :
    WF (closeOp s).1 ∧ Frame s (closeOp s).1 ∧ ClFrame s (closeOp s).1 := by
  unfold closeOp
  split
  · exact ⟨h, Frame.refl s, fun hc => ⟨hc, rfl, rfl⟩⟩
  · rename_i hcond
    have hc : s.closing = false := by cases hx : s.closing <;> simp_all
    have hcd : s.closed = false := by
      cases hx : s.closed with
      | false => rfl
      | true => have := (h.closed_ok hx).1; rw [hc] at this; cases this
    refine ⟨?_, ⟨rfl, rfl, rfl, rfl, id⟩, fun _ => ⟨rfl, rfl, rfl⟩⟩
    exact {
      wqs_eq := h.wqs_eq, wq_ok := h.wq_ok, sent_ok := h.sent_ok, done_ok := h.done_ok,
      acc_eq := h.acc_eq, acc_lt := h.acc_lt,
      closing_ok := fun _ => ⟨rfl, rfl, rfl, rfl⟩,
      shut_ok := fun hh => ⟨(h.shut_ok hh).1, (h.shut_ok hh).2.1, rfl⟩,
      called_ok := fun _ => rfl, req_ok := fun _ => rfl,
      os_ok := (by
        rcases h.os_ok with hh | ⟨rest, hr1, _⟩
        · exact Or.inl hh
        · exact Or.inr ⟨rest, hr1, fun hx => by cases hx⟩),
      cbs_ok := h.cbs_ok, mon_ok := h.mon_ok,
      closed_ok := (by intro hh; simp only [] at hh; rw [hcd] at hh; cases hh) }

theorem WF.emit {s : S} (h : WF s) (e : Ev) : WF (emit s e) :=
  { wqs_eq := h.wqs_eq, wq_ok := h.wq_ok, sent_ok := h.sent_ok, done_ok := h.done_ok,
    acc_eq := h.acc_eq, acc_lt := h.acc_lt, closing_ok := h.closing_ok, shut_ok := h.shut_ok,
    called_ok := h.called_ok, req_ok := h.req_ok, os_ok := h.os_ok, cbs_ok := h.cbs_ok,
    mon_ok := h.mon_ok, closed_ok := h.closed_ok }

theorem apiOp_wf (s : S) (o : Op) (h : WF s) :
    WF (apiOp s o) ∧ Frame s (apiOp s o) ∧ ClFrame s (apiOp s o) := by
  have key : ∀ (r : S × Int), WF r.1 → Frame s r.1 → ClFrame s r.1 →
      WF (UvModel.StreamW.emit
        { UvModel.StreamW.emit r.1 (.ret r.2) with
          obsBad := (UvModel.StreamW.emit r.1 (.ret r.2)).obsBad ||
            ((UvModel.StreamW.emit r.1 (.ret r.2)).wqs !=
              ((unsent ((UvModel.StreamW.emit r.1 (.ret r.2)).pq ++ (UvModel.StreamW.emit r.1 (.ret r.2)).cq ++
                (UvModel.StreamW.emit r.1 (.ret r.2)).wq) : Nat) : Int)) }
        (.obs (UvModel.StreamW.emit r.1 (.ret r.2)).wqs
          (unsent ((UvModel.StreamW.emit r.1 (.ret r.2)).pq ++ (UvModel.StreamW.emit r.1 (.ret r.2)).cq ++
            (UvModel.StreamW.emit r.1 (.ret r.2)).wq)))) ∧
      Frame s (UvModel.StreamW.emit
        { UvModel.StreamW.emit r.1 (.ret r.2) with
          obsBad := (UvModel.StreamW.emit r.1 (.ret r.2)).obsBad ||
            ((UvModel.StreamW.emit r.1 (.ret r.2)).wqs !=
              ((unsent ((UvModel.StreamW.emit r.1 (.ret r.2)).pq ++ (UvModel.StreamW.emit r.1 (.ret r.2)).cq ++
                (UvModel.StreamW.emit r.1 (.ret r.2)).wq) : Nat) : Int)) }
        (.obs (UvModel.StreamW.emit r.1 (.ret r.2)).wqs
          (unsent ((UvModel.StreamW.emit r.1 (.ret r.2)).pq ++ (UvModel.StreamW.emit r.1 (.ret r.2)).cq ++
            (UvModel.StreamW.emit r.1 (.ret r.2)).wq)))) ∧
      ClFrame s (UvModel.StreamW.emit
        { UvModel.StreamW.emit r.1 (.ret r.2) with
          obsBad := (UvModel.StreamW.emit r.1 (.ret r.2)).obsBad ||
            ((UvModel.StreamW.emit r.1 (.ret r.2)).wqs !=
              ((unsent ((UvModel.StreamW.emit r.1 (.ret r.2)).pq ++ (UvModel.StreamW.emit r.1 (.ret r.2)).cq ++
                (UvModel.StreamW.emit r.1 (.ret r.2)).wq) : Nat) : Int)) }
        (.obs (UvModel.StreamW.emit r.1 (.ret r.2)).wqs
          (unsent ((UvModel.StreamW.emit r.1 (.ret r.2)).pq ++ (UvModel.StreamW.emit r.1 (.ret r.2)).cq ++
            (UvModel.StreamW.emit r.1 (.ret r.2)).wq)))) := by
    intro r hw hfr hcl
    refine ⟨?_, ⟨hfr.pq, hfr.cbs, hfr.connErr, hfr.closed, hfr.hard⟩, hcl⟩
    exact {
      wqs_eq := hw.wqs_eq, wq_ok := hw.wq_ok, sent_ok := hw.sent_ok, done_ok := hw.done_ok,
      acc_eq := hw.acc_eq, acc_lt := hw.acc_lt, closing_ok := hw.closing_ok, shut_ok := hw.shut_ok,
      called_ok := hw.called_ok, req_ok := hw.req_ok, os_ok := hw.os_ok, cbs_ok := hw.cbs_ok,
      mon_ok := (by
        refine ⟨?_, hw.mon_ok.2.1, hw.mon_ok.2.2.1, hw.mon_ok.2.2.2⟩
        have h1 := hw.mon_ok.1
        have h2 := hw.wqs_eq
        simp only [UvModel.StreamW.emit, h1, Bool.false_or, bne_eq_false_iff_eq]
        exact h2),
      closed_ok := hw.closed_ok }
  cases o with
  | write bufs send => obtain ⟨a, b, c⟩ := write2_wf s bufs send false h; exact key _ a b c
  | writeNoMem bufs send => obtain ⟨a, b, c⟩ := write2_wf s bufs send true h; exact key _ a b c
  | tryWrite bufs send => obtain ⟨a, b, c⟩ := tryWrite2_wf s bufs send h; exact key _ a b c
  | shutdown => obtain ⟨a, b, c⟩ := shutdownOp_wf s h; exact key _ a b c
  | close => obtain ⟨a, b, c⟩ := closeOp_wf s h; exact key _ a b c

/-! ### callbacks, drain, stream_io, destroy -/

theorem ClFrame.trans {a b c : S} (h1 : ClFrame a b) (h2 : ClFrame b c) : ClFrame a c := by
  intro ha
  obtain ⟨b1, b2, b3⟩ := h1 ha
  obtain ⟨c1, c2, c3⟩ := h2 b1
  exact ⟨c1, c2.trans b2, c3.trans b3⟩

theorem fold_api_wf (ops : List Op) : ∀ s : S, WF s →
    WF (ops.foldl apiOp s) ∧ Frame s (ops.foldl apiOp s) ∧ ClFrame s (ops.foldl apiOp s) := by
  induction ops with
  | nil => intro s h; exact ⟨h, Frame.refl s, fun hc => ⟨hc, rfl, rfl⟩⟩
  | cons o ops ih =>
    intro s h
    obtain ⟨a, b, c⟩ := apiOp_wf s o h
    obtain ⟨a', b', c'⟩ := ih _ a
    exact ⟨a', b.trans b', c.trans c'⟩

theorem WF.ncb {s : S} (h : WF s) (n : Nat) : WF { s with ncb := n } :=
  { wqs_eq := h.wqs_eq, wq_ok := h.wq_ok, sent_ok := h.sent_ok, done_ok := h.done_ok,
    acc_eq := h.acc_eq, acc_lt := h.acc_lt, closing_ok := h.closing_ok, shut_ok := h.shut_ok,
    called_ok := h.called_ok, req_ok := h.req_ok, os_ok := h.os_ok, cbs_ok := h.cbs_ok,
    mon_ok := h.mon_ok, closed_ok := h.closed_ok }

theorem userCb_wf (sc : Script) (s : S) (h : WF s) :
    WF (userCb sc s) ∧ Frame s (userCb sc s) ∧ ClFrame s (userCb sc s) := by
  unfold userCb
  obtain ⟨a, b, c⟩ := fold_api_wf (sc s.ncb) { s with ncb := s.ncb + 1 } (h.ncb _)
  exact ⟨a, ⟨b.pq, b.cbs, b.connErr, b.closed, b.hard⟩, c⟩

/-- a callback with an event in front -/
theorem userCb_emit_wf (sc : Script) (s : S) (e : Ev) (h : WF s) :
    WF (userCb sc (emit s e)) ∧ Frame s (userCb sc (emit s e)) ∧ ClFrame s (userCb sc (emit s e)) := by
  obtain ⟨a, b, c⟩ := userCb_wf sc (emit s e) (h.emit e)
  exact ⟨a, ⟨b.pq, b.cbs, b.connErr, b.closed, b.hard⟩, c⟩

theorem cbOne_wf (sc : Script) (s : S) (r : Req) (rest : List Req) (h : WF s) (hp : s.pq = r :: rest) :
    WF (cbOne sc r { s with pq := rest }) ∧ (cbOne sc r { s with pq := rest }).pq = rest ∧
    (cbOne sc r { s with pq := rest }).connErr = s.connErr ∧
    (cbOne sc r { s with pq := rest }).closed = s.closed ∧
    (s.hardErr = true → (cbOne sc r { s with pq := rest }).hardErr = true) ∧
    ClFrame s (cbOne sc r { s with pq := rest }) ∧
    (cbOne sc r { s with pq := rest }).cbs = s.cbs ++ [⟨r.id, r.error, r.sent, r.total⟩] := by
  have hd := h.done_ok r (by rw [hp]; simp)
  have hs := h.sent_ok r (by rw [hp]; simp)
  have w : WF { s with pq := rest, wqs := if !r.freed then s.wqs - rem r else s.wqs,
                       cbs := s.cbs ++ [⟨r.id, r.error, r.sent, r.total⟩] } :=
    { wqs_eq := (by
        have := h.wqs_eq
        rw [hp] at this
        simp only [unsent_append, unsent_cons] at this ⊢
        cases hf : r.freed
        · simp only [Bool.not_false, if_true]; omega
        · have := hd.1 hf
          simp only [Bool.not_true, Bool.false_eq_true, if_false]; omega),
      wq_ok := h.wq_ok,
      sent_ok := (fun x hx => h.sent_ok x (by
        rw [hp]; simp only [List.mem_append, List.mem_cons] at hx ⊢
        rcases hx with (hx | hx) | hx
        · exact Or.inl (Or.inl (Or.inr hx))
        · exact Or.inl (Or.inr hx)
        · exact Or.inr hx)),
      done_ok := (fun x hx => h.done_ok x (by
        rw [hp]; simp only [List.mem_append, List.mem_cons] at hx ⊢
        rcases hx with hx | hx
        · exact Or.inl (Or.inr hx)
        · exact Or.inr hx)),
      acc_eq := (by
        have := h.acc_eq
        rw [hp] at this
        rw [this]; simp),
      acc_lt := h.acc_lt, closing_ok := h.closing_ok, shut_ok := h.shut_ok,
      called_ok := h.called_ok, req_ok := h.req_ok, os_ok := h.os_ok,
      cbs_ok := (by
        intro c hc
        rcases List.mem_append.1 hc with hc | hc
        · exact h.cbs_ok c hc
        · rw [List.mem_singleton.1 hc]
          intro he
          have he : r.error = 0 := he
          have := hd.1 (hd.2 he)
          show r.sent = r.total
          omega),
      mon_ok := h.mon_ok, closed_ok := h.closed_ok }
  obtain ⟨a, b, c⟩ := userCb_emit_wf sc _ (.cb r.id r.error) w
  unfold cbOne
  exact ⟨a, b.pq, b.connErr, b.closed, b.hard, c, b.cbs⟩

theorem cbLoop_wf (sc : Script) : ∀ (l : List Req) (s : S), WF s → s.pq = l →
    WF (cbLoop sc l s) ∧ (cbLoop sc l s).pq = [] ∧ (cbLoop sc l s).connErr = s.connErr ∧
    (cbLoop sc l s).closed = s.closed ∧ (s.hardErr = true → (cbLoop sc l s).hardErr = true) ∧
    ClFrame s (cbLoop sc l s) ∧
    (cbLoop sc l s).cbs = s.cbs ++ l.map (fun r => ⟨r.id, r.error, r.sent, r.total⟩) := by
  intro l
  induction l with
  | nil =>
    intro s h hp
    exact ⟨h, hp, rfl, rfl, id, fun hc => ⟨hc, rfl, rfl⟩, by simp [cbLoop]⟩
  | cons r rest ih =>
    intro s h hp
    obtain ⟨a1, a2, a3, a4, a5, a6, a7⟩ := cbOne_wf sc s r rest h hp
    obtain ⟨b1, b2, b3, b4, b5, b6, b7⟩ := ih _ a1 a2
    unfold cbLoop
    refine ⟨b1, b2, b3.trans a3, b4.trans a4, fun hh => b5 (a5 hh), a6.trans b6, ?_⟩
    rw [b7, a7]; simp

theorem writeCallbacks_wf (sc : Script) (s : S) (h : WF s) (hp : s.pq = []) :
    WF (writeCallbacks sc s) ∧ (writeCallbacks sc s).pq = [] ∧
    (writeCallbacks sc s).connErr = s.connErr ∧ (writeCallbacks sc s).closed = s.closed ∧
    (s.hardErr = true → (writeCallbacks sc s).hardErr = true) ∧
    (s.closing = true → (writeCallbacks sc s).closing = true ∧ (writeCallbacks sc s).cq = [] ∧
      (writeCallbacks sc s).wq = s.wq) ∧
    (s.closing = false → s.cq = [] → writeCallbacks sc s = s) ∧
    (writeCallbacks sc s).cbs = s.cbs ++ s.cq.map (fun r => ⟨r.id, r.error, r.sent, r.total⟩) := by
  unfold writeCallbacks
  by_cases hcq : s.cq = []
  · have he : s.cq.isEmpty = true := by simp [hcq]
    rw [if_pos he]
    exact ⟨h, hp, rfl, rfl, id, fun hc => ⟨hc, hcq, rfl⟩, fun _ _ => rfl, by simp [hcq]⟩
  · obtain ⟨r, rest, hcq'⟩ := List.exists_cons_of_ne_nil hcq
    have he : ¬ (s.cq.isEmpty = true) := by simp [hcq]
    rw [if_neg he]
    have w : WF { s with pq := s.cq, cq := [] } :=
      { wqs_eq := (by
          have := h.wqs_eq
          rw [hp] at this
          simpa using this),
        wq_ok := h.wq_ok,
        sent_ok := (fun x hx => h.sent_ok x (by
          rw [hp]; simpa using hx)),
        done_ok := (fun x hx => h.done_ok x (by
          rw [hp]; simpa using hx)),
        acc_eq := (by
          have := h.acc_eq
          rw [hp] at this
          simpa using this),
        acc_lt := h.acc_lt, closing_ok := h.closing_ok, shut_ok := h.shut_ok,
        called_ok := h.called_ok, req_ok := h.req_ok, os_ok := h.os_ok, cbs_ok := h.cbs_ok,
        mon_ok := h.mon_ok,
        closed_ok := (by
          intro hh
          exact absurd (h.closed_ok hh).2.2 hcq) }
    obtain ⟨b1, b2, b3, b4, b5, b6, b7⟩ := cbLoop_wf sc s.cq _ w rfl
    exact ⟨b1, b2, b3, b4, b5, fun hc => b6 hc, fun _ hx => absurd hx hcq, b7⟩

theorem drain_wf (sc : Script) (s : S) (h : WF s) (hp : s.pq = []) (hcq : s.cq = []) (hwq : s.wq = []) :
    WF (drain sc s) ∧ (drain sc s).pq = [] ∧ (drain sc s).connErr = s.connErr ∧
    (drain sc s).closed = s.closed ∧ (s.hardErr = true → (drain sc s).hardErr = true) ∧
    ClFrame s (drain sc s) ∧ (drain sc s).cbs = s.cbs := by
  have w1 : WF { s with pollout := if !s.closing then false else s.pollout } :=
    { wqs_eq := h.wqs_eq, wq_ok := h.wq_ok, sent_ok := h.sent_ok, done_ok := h.done_ok,
      acc_eq := h.acc_eq, acc_lt := h.acc_lt,
      closing_ok := (by
        intro hc
        have := h.closing_ok hc
        have hc' : s.closing = true := hc
        simp only [hc', Bool.not_true, Bool.false_eq_true, if_false]
        exact this),
      shut_ok := h.shut_ok, called_ok := h.called_ok, req_ok := h.req_ok, os_ok := h.os_ok,
      cbs_ok := h.cbs_ok, mon_ok := h.mon_ok, closed_ok := h.closed_ok }
  have hpi : List.map (fun x : Req => x.id) (s.pq ++ s.cq ++ s.wq) = [] := by simp [hp, hcq, hwq]
  have hwi : List.map (fun x : Req => x.id) s.wq = [] := by simp [hwq]
  unfold drain
  simp only [hpi, hwi]
  split
  · exact ⟨w1, hp, rfl, rfl, id, fun hc => ⟨hc, rfl, rfl⟩, rfl⟩
  · rename_i hreq
    have hreq : s.shutdownReq = true := by cases hx : s.shutdownReq <;> simp_all
    split
    · rename_i hcond
      split
      · rename_i hcl
        have hcl : s.closing = true := hcl
        have w2 : WF { s with pollout := if !s.closing then false else s.pollout,
                              shutdownReq := false, shutCbEarly := [] } :=
          { wqs_eq := w1.wqs_eq, wq_ok := w1.wq_ok, sent_ok := w1.sent_ok, done_ok := w1.done_ok,
            acc_eq := w1.acc_eq, acc_lt := w1.acc_lt, closing_ok := w1.closing_ok,
            shut_ok := w1.shut_ok, called_ok := w1.called_ok, req_ok := (fun hh => by cases hh),
            os_ok := w1.os_ok, cbs_ok := w1.cbs_ok,
            mon_ok := ⟨h.mon_ok.1, rfl, h.mon_ok.2.2.1, h.mon_ok.2.2.2⟩, closed_ok := w1.closed_ok }
        obtain ⟨a, b, c⟩ := userCb_emit_wf sc _ (.shutcb UV_ECANCELED) w2
        exact ⟨a, b.pq.trans hp, b.connErr, b.closed, b.hard, c, b.cbs⟩
      · rename_i hcl
        have hcl : s.closing = false := by cases hx : s.closing <;> simp_all
        have hsh : s.shut = false := by cases hx : s.shut <;> simp_all
        have hwr : s.writable = false := h.req_ok hreq
        have hcd : s.closed = false := by
          cases hx : s.closed with
          | false => rfl
          | true => have := (h.closed_ok hx).1; rw [hcl] at this; cases this
        have w2 : WF { s with
            pollout := if !s.closing then false else s.pollout,
            shutdownReq := false, shutSysPending := [],
            trace := Ev.shutsys s.shutErr :: s.trace,
            shut := if s.shutErr = 0 then true else s.shut,
            osAtShut := if s.shutErr = 0 then some s.os else s.osAtShut,
            shutCbEarly := [] } :=
          { wqs_eq := w1.wqs_eq, wq_ok := w1.wq_ok, sent_ok := w1.sent_ok, done_ok := w1.done_ok,
            acc_eq := w1.acc_eq, acc_lt := w1.acc_lt,
            closing_ok := (by intro hc; simp only [] at hc; rw [hcl] at hc; cases hc),
            shut_ok := (by
              intro hh
              simp only [] at hh ⊢
              split at hh
              · rename_i he
                simp only [he, if_true]
                exact ⟨by first | rfl | trivial, hwq, hwr⟩
              · rw [hsh] at hh; cases hh),
            called_ok := w1.called_ok, req_ok := (fun hh => by cases hh),
            os_ok := w1.os_ok, cbs_ok := w1.cbs_ok,
            mon_ok := ⟨h.mon_ok.1, rfl, rfl, h.mon_ok.2.2.2⟩,
            closed_ok := (by intro hh; simp only [] at hh; rw [hcd] at hh; cases hh) }
        obtain ⟨a, b, c⟩ := userCb_emit_wf sc _ (.shutcb s.shutErr) w2
        refine ⟨a, b.pq.trans hp, b.connErr, b.closed, b.hard, ?_, b.cbs⟩
        intro hc; rw [hcl] at hc; cases hc
    · exact ⟨w1, hp, rfl, rfl, id, fun hc => ⟨hc, rfl, rfl⟩, rfl⟩

theorem unsent_cancel (l : List Req) :
    unsent (l.map fun r => { r with error := UV_ECANCELED }) = unsent l := by
  induction l with
  | nil => rfl
  | cons r l ih => simp [ih, rem_error]

theorem flush_wf (s : S) (h : WF s) (hx : s.closing = true ∨ s.hardErr = true) :
    WF (flush s) ∧ (flush s).wq = [] ∧ (flush s).pq = s.pq ∧ (flush s).closing = s.closing ∧
    (flush s).connErr = s.connErr ∧ (flush s).closed = s.closed ∧ (flush s).hardErr = s.hardErr ∧
    (flush s).cbs = s.cbs ∧
    (flush s).cq = s.cq ++ s.wq.map (fun r => { r with error := UV_ECANCELED }) := by
  refine ⟨?_, rfl, rfl, rfl, rfl, rfl, rfl, rfl, rfl⟩
  unfold flush
  exact {
    wqs_eq := (by
      have := h.wqs_eq
      simp only [unsent_append, unsent_nil, unsent_cancel] at this ⊢
      omega),
    wq_ok := (fun x hx => by cases hx),
    sent_ok := (by
      intro x hx
      simp only [List.mem_append, List.mem_map, List.append_nil] at hx
      rcases hx with hx | hx | ⟨y, hy, rfl⟩
      · exact h.sent_ok x (by simp [hx])
      · exact h.sent_ok x (by simp [hx])
      · exact h.sent_ok y (by simp [hy])),
    done_ok := (by
      intro x hx
      simp only [List.mem_append, List.mem_map] at hx
      rcases hx with hx | hx | ⟨y, hy, rfl⟩
      · exact h.done_ok x (by simp [hx])
      · exact h.done_ok x (by simp [hx])
      · refine ⟨fun hf => ?_, fun he => ?_⟩
        · have : y.freed = true := hf
          rw [(h.wq_ok y hy).2.2.1] at this; cases this
        · have : UV_ECANCELED = 0 := he
          simp [UV_ECANCELED] at this),
    acc_eq := (by
      have := h.acc_eq
      rw [this]; simp [List.map_map, Function.comp_def]),
    acc_lt := h.acc_lt, closing_ok := h.closing_ok,
    shut_ok := (fun hh => ⟨(h.shut_ok hh).1, rfl, (h.shut_ok hh).2.2⟩),
    called_ok := h.called_ok, req_ok := h.req_ok,
    os_ok := (by
      rcases hx with hc | hh
      · rcases h.os_ok with hh | ⟨rest, hr1, _⟩
        · exact Or.inl hh
        · exact Or.inr ⟨rest, hr1, fun hcf => by
            have hcf : s.closing = false := hcf
            rw [hc] at hcf; cases hcf⟩
      · exact Or.inl hh),
    cbs_ok := h.cbs_ok, mon_ok := h.mon_ok,
    closed_ok := (by
      intro hh
      have := h.closed_ok hh
      exact ⟨this.1, rfl, by simp [this.2.1, this.2.2]⟩) }

def Inv (s : S) : Prop := WF s ∧ s.pq = []

theorem streamConnect_inv (sc : Script) (s : S) (h : WF s) (hp : s.pq = []) (hc : s.closing = false) :
    Inv (streamConnect sc s) := by
  have hcd : s.closed = false := by
    cases hx : s.closed with
    | false => rfl
    | true => have := (h.closed_ok hx).1; rw [hc] at this; cases this
  have w1 : WF { s with connecting := false,
                        pollout := if s.connErr < 0 ∨ (s.wq.isEmpty ∧ !s.shutdownReq) then false else s.pollout,
                        hardErr := if s.connErr < 0 then true else s.hardErr } :=
    { wqs_eq := h.wqs_eq, wq_ok := h.wq_ok, sent_ok := h.sent_ok, done_ok := h.done_ok,
      acc_eq := h.acc_eq, acc_lt := h.acc_lt,
      closing_ok := (by intro hh; simp only [] at hh; rw [hc] at hh; cases hh),
      shut_ok := h.shut_ok, called_ok := h.called_ok, req_ok := h.req_ok,
      os_ok := (by
        rcases h.os_ok with hh | hh
        · left; simp only [hh]; split <;> rfl
        · by_cases he : s.connErr < 0
          · left; simp only [he, if_true]
          · simp only [he, if_false]; exact h.os_ok),
      cbs_ok := h.cbs_ok, mon_ok := h.mon_ok, closed_ok := h.closed_ok }
  obtain ⟨a, b, c⟩ := userCb_emit_wf sc _ (.conncb s.connErr) w1
  generalize hs2 : userCb sc (emit { s with
      connecting := false,
      pollout := if s.connErr < 0 ∨ (s.wq.isEmpty ∧ !s.shutdownReq) then false else s.pollout,
      hardErr := if s.connErr < 0 then true else s.hardErr } (.conncb s.connErr)) = s2 at a b c
  have heq : streamConnect sc s =
      if !s2.fdOpen then s2 else if s2.connErr < 0 then writeCallbacks sc (flush s2) else s2 := by
    rw [← hs2]; rfl
  rw [heq]
  have hp2 : s2.pq = [] := b.pq.trans hp
  by_cases h1 : (!s2.fdOpen) = true
  · rw [if_pos h1]; exact ⟨a, hp2⟩
  · rw [if_neg h1]
    by_cases h2 : s2.connErr < 0
    · rw [if_pos h2]
      have hneg : s.connErr < 0 := by
        have := b.connErr
        simp only [] at this
        rw [this] at h2; exact h2
      have hh := b.hard (by simp only [hneg, if_true])
      obtain ⟨f1, f2, f3, f4, f5, f6, f7, f8, f9⟩ := flush_wf _ a (Or.inr hh)
      have := writeCallbacks_wf sc _ f1 (f3.trans hp2)
      exact ⟨this.1, this.2.1⟩
    · rw [if_neg h2]; exact ⟨a, hp2⟩

theorem streamIo_inv (sc : Script) (s : S) (h : WF s) (hp : s.pq = []) (hc : s.closing = false) :
    Inv (streamIo sc s) := by
  unfold streamIo
  split
  · exact streamConnect_inv sc s h hp hc
  · obtain ⟨a1, a2, a3⟩ := writeLoop_wf 32 s h hc
    obtain ⟨b1, b2, _⟩ := writeCallbacks_wf sc _ a1 (a3.trans hp)
    simp only []
    split
    · rename_i hcond
      have hwq : (writeCallbacks sc (writeLoop 32 s)).wq = [] := by
        have := hcond.1; simpa using this
      have hcq : (writeCallbacks sc (writeLoop 32 s)).cq = [] := by
        have := hcond.2; simpa using this
      have := drain_wf sc _ b1 b2 hcq hwq
      exact ⟨this.1, this.2.1⟩
    · exact ⟨b1, b2⟩

theorem WF.closedSet {s : S} (h : WF s) (hc : s.closing = true) (hwq : s.wq = []) (hcq : s.cq = []) :
    WF { s with closed := true } :=
  { wqs_eq := h.wqs_eq, wq_ok := h.wq_ok, sent_ok := h.sent_ok, done_ok := h.done_ok,
    acc_eq := h.acc_eq, acc_lt := h.acc_lt, closing_ok := h.closing_ok, shut_ok := h.shut_ok,
    called_ok := h.called_ok, req_ok := h.req_ok, os_ok := h.os_ok, cbs_ok := h.cbs_ok,
    mon_ok := h.mon_ok, closed_ok := fun _ => ⟨hc, hwq, hcq⟩ }

theorem WF.connSet {s : S} (h : WF s) (b : Bool) : WF { s with connecting := b } :=
  { wqs_eq := h.wqs_eq, wq_ok := h.wq_ok, sent_ok := h.sent_ok, done_ok := h.done_ok,
    acc_eq := h.acc_eq, acc_lt := h.acc_lt, closing_ok := h.closing_ok, shut_ok := h.shut_ok,
    called_ok := h.called_ok, req_ok := h.req_ok, os_ok := h.os_ok, cbs_ok := h.cbs_ok,
    mon_ok := h.mon_ok, closed_ok := h.closed_ok }

/-- the state just before `closed := true` in `destroy` -/
def destroyPre (sc : Script) (s : S) : S :=
  drain sc (writeCallbacks sc (flush
    (if s.connecting then { userCb sc (emit s (.conncb UV_ECANCELED)) with connecting := false } else s)))

theorem destroy_eq (sc : Script) (s : S) :
    destroy sc s = userCb sc (emit { destroyPre sc s with closed := true } .closecb) := rfl

def cbRec (r : Req) : CbRec := ⟨r.id, r.error, r.sent, r.total⟩

theorem destroyPre_wf (sc : Script) (s : S) (h : WF s) (hp : s.pq = []) (hc : s.closing = true) :
    WF (destroyPre sc s) ∧ (destroyPre sc s).pq = [] ∧ (destroyPre sc s).closing = true ∧
    (destroyPre sc s).cq = [] ∧ (destroyPre sc s).wq = [] ∧
    (destroyPre sc s).cbs = s.cbs ++
      (s.cq ++ s.wq.map (fun r : Req => { r with error := UV_ECANCELED })).map cbRec := by
  have s1 : ∃ s1 : S, s1 = (if s.connecting then
      { userCb sc (emit s (.conncb UV_ECANCELED)) with connecting := false } else s) ∧
      WF s1 ∧ s1.pq = [] ∧ s1.closing = true ∧ s1.cq = s.cq ∧ s1.wq = s.wq ∧ s1.cbs = s.cbs := by
    refine ⟨_, rfl, ?_⟩
    split
    · obtain ⟨a, b, c⟩ := userCb_emit_wf sc s (.conncb UV_ECANCELED) h
      exact ⟨a.connSet false, b.pq.trans hp, (c hc).1, (c hc).2.1, (c hc).2.2, b.cbs⟩
    · exact ⟨h, hp, hc, rfl, rfl, rfl⟩
  obtain ⟨s1, e1, w1, p1, c1, q1, q2, q3⟩ := s1
  unfold destroyPre
  rw [← e1]
  obtain ⟨f1, f2, f3, f4, _, _, _, f8, f9⟩ := flush_wf s1 w1 (Or.inl c1)
  obtain ⟨g1, g2, _, _, _, g6, _, g8⟩ := writeCallbacks_wf sc _ f1 (f3.trans p1)
  obtain ⟨k1, k2, k3⟩ := g6 (f4.trans c1)
  obtain ⟨d1, d2, _, _, _, d6, d7⟩ := drain_wf sc _ g1 g2 k2 (k3.trans f2)
  obtain ⟨m1, m2, m3⟩ := d6 k1
  refine ⟨d1, d2, m1, m2.trans k2, m3.trans (k3.trans f2), ?_⟩
  rw [d7, g8, f8, f9, q1, q2, q3]; rfl

theorem destroy_inv (sc : Script) (s : S) (h : WF s) (hp : s.pq = []) (hc : s.closing = true) :
    Inv (destroy sc s) ∧ (destroy sc s).closed = true ∧ (destroy sc s).wq = [] ∧ (destroy sc s).cq = [] ∧
    (destroy sc s).cbs = s.cbs ++
      (s.cq ++ s.wq.map (fun r : Req => { r with error := UV_ECANCELED })).map cbRec := by
  obtain ⟨a1, a2, a3, a4, a5, a6⟩ := destroyPre_wf sc s h hp hc
  rw [destroy_eq]
  obtain ⟨b1, b2, b3⟩ := userCb_emit_wf sc _ .closecb (a1.closedSet a3 a5 a4)
  obtain ⟨c1, c2, c3⟩ := b3 a3
  exact ⟨⟨b1, b2.pq.trans a2⟩, b2.closed, c3.trans a5, c2.trans a4, b2.cbs.trans a6⟩

theorem WF.envSet {s : S} (h : WF s) (e : List Outcome) : WF { s with env := e } :=
  { wqs_eq := h.wqs_eq, wq_ok := h.wq_ok, sent_ok := h.sent_ok, done_ok := h.done_ok,
    acc_eq := h.acc_eq, acc_lt := h.acc_lt, closing_ok := h.closing_ok, shut_ok := h.shut_ok,
    called_ok := h.called_ok, req_ok := h.req_ok, os_ok := h.os_ok, cbs_ok := h.cbs_ok,
    mon_ok := h.mon_ok, closed_ok := h.closed_ok }

theorem lstep_inv (sc : Script) (s : S) (op : LOp) (h : Inv s) : Inv (lstep sc s op) := by
  obtain ⟨w, hp⟩ := h
  cases op with
  | api o =>
    obtain ⟨a, b, _⟩ := apiOp_wf s o w
    exact ⟨a, b.pq.trans hp⟩
  | feed outs => exact ⟨w.envSet _, hp⟩
  | clearEnv => exact ⟨w.envSet _, hp⟩
  | runPending =>
    simp only [lstep]
    split
    · rename_i hpend
      have hc : s.closing = false := by
        cases hx : s.closing with
        | false => rfl
        | true => have := (w.closing_ok hx).2.1; rw [hpend] at this; cases this
      have w' : WF { s with pending := false } :=
        { wqs_eq := w.wqs_eq, wq_ok := w.wq_ok, sent_ok := w.sent_ok, done_ok := w.done_ok,
          acc_eq := w.acc_eq, acc_lt := w.acc_lt,
          closing_ok := (by intro hh; simp only [] at hh; rw [hc] at hh; cases hh),
          shut_ok := w.shut_ok, called_ok := w.called_ok, req_ok := w.req_ok, os_ok := w.os_ok,
          cbs_ok := w.cbs_ok, mon_ok := w.mon_ok, closed_ok := w.closed_ok }
      exact streamIo_inv sc _ w' hp hc
    · exact ⟨w, hp⟩
  | pollout =>
    simp only [lstep]
    split
    · rename_i hpo
      have hc : s.closing = false := by
        cases hx : s.closing with
        | false => rfl
        | true => have := (w.closing_ok hx).2.2.1; rw [hpo] at this; cases this
      exact streamIo_inv sc _ w hp hc
    · exact ⟨w, hp⟩
  | endgame =>
    simp only [lstep]
    split
    · rename_i hcond
      exact (destroy_inv sc s w hp hcond.1).1
    · exact ⟨w, hp⟩

theorem runOps_inv (sc : Script) (ops : List LOp) : ∀ s : S, Inv s → Inv (runOps sc s ops) := by
  induction ops with
  | nil => intro s h; exact h
  | cons o ops ih => intro s h; exact ih _ (lstep_inv sc s o h)

/-- initial states: a freshly opened stream (any configuration, any scripted environment) -/
def initS (ipc : Bool) (shutErr connErr : Int) (connecting pollout pending : Bool)
    (env : List Outcome) : S :=
  { ipc := ipc, shutErr := shutErr, connErr := connErr, connecting := connecting,
    pollout := pollout, pending := pending, env := env }

theorem init_inv (ipc : Bool) (shutErr connErr : Int) (connecting pollout pending : Bool)
    (env : List Outcome) : Inv (initS ipc shutErr connErr connecting pollout pending env) := by
  refine ⟨?_, rfl⟩
  exact {
    wqs_eq := rfl, wq_ok := (fun x hx => by cases hx), sent_ok := (fun x hx => by cases hx),
    done_ok := (fun x hx => by cases hx), acc_eq := rfl,
    acc_lt := ⟨List.Pairwise.nil, fun i hi => by cases hi⟩,
    closing_ok := (fun hh => by cases hh), shut_ok := (fun hh => by cases hh),
    called_ok := (fun hh => by cases hh), req_ok := (fun hh => by cases hh),
    os_ok := Or.inr ⟨[], rfl, fun _ => rfl⟩, cbs_ok := (fun c hc => by cases hc),
    mon_ok := ⟨rfl, rfl, rfl, fun p hp => by cases hp⟩, closed_ok := (fun hh => by cases hh) }

end UvModel.StreamW
