import UvModel.StreamR
/-! Helper lemmas for C06: a specification automaton `Mon` run over the event trace, and the
    coupling invariant between its state and the model state, preserved by every step. -/
namespace UvModel.StreamR

/-- specification automaton over the trace (the property text as a left fold) -/
structure Mon where
  sentB : List Byte := []
  deliv : List Byte := []
  pending : Option (Nat × Nat) := none    -- alloc (id, size) whose buffer has not been handed back
  nAl : Nat := 0
  quiet : Bool := true                    -- no callback allowed until `ret start 0`
  shut : Bool := false
  okPair : Bool := true
  okQuiet : Bool := true
  okEof : Bool := true

/-- does read_cb(n) end the reading session?  any negative nread except the UV_ENOBUFS that answers
    an alloc_cb refusal (buffer of size 0) -/
def quieting (n : Int) (pending : Option (Nat × Nat)) : Bool :=
  decide (n < 0) && !(n == UV_ENOBUFS && pending.map (·.2) == some 0)

def Mon.step (m : Mon) : Ev → Mon
  | .peerW b => { m with sentB := m.sentB ++ b, okPair := m.okPair && m.pending.isNone }
  | .peerShut => { m with shut := true, okPair := m.okPair && m.pending.isNone }
  | .alloc id sz =>
    { m with pending := some (id, sz), nAl := m.nAl + 1
             okPair := m.okPair && m.pending.isNone && id == m.nAl
             okQuiet := m.okQuiet && !m.quiet }
  | .readCb n buf bytes =>
    { m with pending := none
             deliv := m.deliv ++ (if n > 0 then bytes else [])
             okPair := m.okPair && (buf == m.pending.map (·.1))
             okQuiet := m.okQuiet && !m.quiet
             okEof := m.okEof && (!(n == UV_EOF) || buf.isNone || (m.deliv == m.sentB && m.shut))
             quiet := m.quiet || quieting n m.pending }
  | .ret op c =>
    { m with okPair := m.okPair && m.pending.isNone
             quiet := if c = 0 then (match op with | .start => false | _ => true) else m.quiet }
  | .closeCb => { m with okPair := m.okPair && m.pending.isNone }

def mon (tr : List Ev) : Mon := tr.foldl Mon.step {}

theorem mon_snoc (tr : List Ev) (e : Ev) : mon (tr ++ [e]) = (mon tr).step e := by
  simp [mon, List.foldl_append]

/-- coupling between the automaton after `tr` and the model state components -/
structure C (err : Bool) (tr : List Ev) (kbuf : List Byte) (peerShut : Bool) (nAlloc : Nat)
    (readable reading : Bool) : Prop where
  okPair : (mon tr).okPair = true
  okQuiet : (mon tr).okQuiet = true
  okEof : (mon tr).okEof = true
  pend : (mon tr).pending = none
  cons : (mon tr).sentB = (mon tr).deliv ++ kbuf
  shut : (mon tr).shut = peerShut
  nal : (mon tr).nAl = nAlloc
  q : if err then ((mon tr).quiet = true ∧ readable = false) else (mon tr).quiet = !reading

def Coupled (err : Bool) (s : St) : Prop :=
  C err s.trace s.kbuf s.peerShut s.nAlloc s.readable s.reading

theorem coupled_init : Coupled false init := by
  constructor <;> simp [init, mon]

theorem coupled_doOp (b : Bool) (s : St) (op : CbOp) (h : Coupled b s) : Coupled b (doOp s op) := by
  obtain ⟨h1, h2, h3, h4, h5, h6, h7, h8⟩ := h
  cases op <;> cases b <;>
    simp only [doOp, readStop, readStart, closeH, emit, UV_EINVAL, UV_EALREADY, UV_ENOTCONN] <;>
    (repeat' split) <;>
    (constructor <;> simp_all [mon_snoc, Mon.step])

theorem coupled_runOps (b : Bool) (ops : List CbOp) : ∀ (s : St), Coupled b s → Coupled b (runOps s ops) := by
  induction ops with
  | nil => intro s h; exact h
  | cons o t ih => intro s h; exact ih _ (coupled_doOp b s o h)


theorem kread_spec (kbuf : List Byte) (shut : Bool) (cap : Nat) (o : Option Outcome) :
    match (kread kbuf shut cap o).1 with
    | .data bs => bs ≠ [] ∧ bs ++ (kread kbuf shut cap o).2 = kbuf ∧ bs.length ≤ cap
    | .eof => kbuf = [] ∧ shut = true ∧ (kread kbuf shut cap o).2 = kbuf
    | .eagain => (kread kbuf shut cap o).2 = kbuf
    | .err e => e ≠ 0 ∧ (kread kbuf shut cap o).2 = kbuf := by
  have full : ∀ k : Nat,
      match (if min k (min cap kbuf.length) = 0 then
              (if kbuf.isEmpty && shut then (RRes.eof, kbuf) else (RRes.eagain, kbuf))
             else (RRes.data (kbuf.take (min k (min cap kbuf.length))), kbuf.drop (min k (min cap kbuf.length)))).1 with
      | .data bs => bs ≠ [] ∧ bs ++ (if min k (min cap kbuf.length) = 0 then
              (if kbuf.isEmpty && shut then (RRes.eof, kbuf) else (RRes.eagain, kbuf))
             else (RRes.data (kbuf.take (min k (min cap kbuf.length))), kbuf.drop (min k (min cap kbuf.length)))).2 = kbuf ∧ bs.length ≤ cap
      | .eof => kbuf = [] ∧ shut = true ∧ (if min k (min cap kbuf.length) = 0 then
              (if kbuf.isEmpty && shut then (RRes.eof, kbuf) else (RRes.eagain, kbuf))
             else (RRes.data (kbuf.take (min k (min cap kbuf.length))), kbuf.drop (min k (min cap kbuf.length)))).2 = kbuf
      | .eagain => (if min k (min cap kbuf.length) = 0 then
              (if kbuf.isEmpty && shut then (RRes.eof, kbuf) else (RRes.eagain, kbuf))
             else (RRes.data (kbuf.take (min k (min cap kbuf.length))), kbuf.drop (min k (min cap kbuf.length)))).2 = kbuf
      | .err e => e ≠ 0 ∧ True := by
    intro k
    by_cases h0 : min k (min cap kbuf.length) = 0
    · by_cases h1 : (kbuf.isEmpty && shut) = true
      · simp only [h0, h1, if_true]; simp at h1; exact ⟨List.isEmpty_iff.mp h1.1, h1.2, rfl⟩
      · simp only [h0, h1, if_true]; simp
    · simp only [h0, if_false]
      refine ⟨?_, List.take_append_drop _ _, ?_⟩
      · intro hc; have := congrArg List.length hc; simp at this; omega
      · simp; omega
  unfold kread
  cases o with
  | none => simpa using full cap
  | some o =>
    cases o with
    | ok k => simpa using full k
    | eagain => simp
    | eintr => simp
    | err e => by_cases he : e = 11 ∨ e = 4 ∨ e = 0 <;> simp [he]; omega

end UvModel.StreamR
