import UvModel.StreamR
/-! Helper lemmas for C06: a specification automaton `Mon` run over the event trace, and the
    coupling invariant between its state and the model state, preserved by every step. -/
namespace UvModel.StreamR

/-- specification automaton over the trace (the property text as a left fold) -/
structure Mon where
  sentB : List Byte := []
  deliv : List Byte := []
  pending : Option (Nat × Nat) := none    -- alloc (id, size) whose buffer has not been handed back
  nAl : Nat := 0
  quiet : Bool := true                    -- no callback allowed until `ret start 0`
  shut : Bool := false
  okPair : Bool := true
  okQuiet : Bool := true
  okEof : Bool := true
  okSyn : Bool := true                    -- synthetic EOF (no buffer) only when everything was delivered

/-- does read_cb(n) end the reading session?  any negative nread except the UV_ENOBUFS that answers
    an alloc_cb refusal (buffer of size 0) -/
def quieting (n : Int) (pending : Option (Nat × Nat)) : Bool :=
  decide (n < 0) && !(n == UV_ENOBUFS && pending.map (·.2) == some 0)

def Mon.step (m : Mon) : Ev → Mon
  | .peerW b => { m with sentB := m.sentB ++ b, okPair := m.okPair && m.pending.isNone }
  | .peerShut => { m with shut := true, okPair := m.okPair && m.pending.isNone }
  | .alloc id sz =>
    { m with pending := some (id, sz), nAl := m.nAl + 1
             okPair := m.okPair && m.pending.isNone && id == m.nAl
             okQuiet := m.okQuiet && !m.quiet }
  | .readCb n buf bytes =>
    { m with pending := none
             deliv := m.deliv ++ (if n > 0 then bytes else [])
             okPair := m.okPair && (buf == m.pending.map (·.1))
             okQuiet := m.okQuiet && !m.quiet
             okEof := m.okEof && (!(n == UV_EOF) || buf.isNone || (m.deliv == m.sentB && m.shut))
             okSyn := m.okSyn && (!(n == UV_EOF) || buf.isSome || m.deliv == m.sentB)
             quiet := m.quiet || quieting n m.pending }
  | .ret op c =>
    { m with okPair := m.okPair && m.pending.isNone
             quiet := if c = 0 then (match op with | .start => false | _ => true) else m.quiet }
  | .closeCb => { m with okPair := m.okPair && m.pending.isNone }

def mon (tr : List Ev) : Mon := tr.foldl Mon.step {}

theorem mon_append (tr l : List Ev) : mon (tr ++ l) = l.foldl Mon.step (mon tr) := by
  simp [mon, List.foldl_append]

theorem mon_snoc (tr : List Ev) (e : Ev) : mon (tr ++ [e]) = (mon tr).step e := by
  simp [mon_append]

/-- coupling between the automaton after `tr` and the model state components -/
structure C (err : Bool) (ipc0 syn : Bool) (tr : List Ev) (kbuf : List Byte) (peerShut : Bool) (nAlloc : Nat)
    (readable reading ipc : Bool) : Prop where
  okPair : (mon tr).okPair = true
  okQuiet : (mon tr).okQuiet = true
  okEof : (mon tr).okEof = true
  pend : (mon tr).pending = none
  cons : (mon tr).sentB = (mon tr).deliv ++ kbuf
  shut : (mon tr).shut = peerShut
  nal : (mon tr).nAl = nAlloc
  q : if err then ((mon tr).quiet = true ∧ readable = false) else (mon tr).quiet = !reading
  okSyn : syn = true → (mon tr).okSyn = true
  ipcEq : ipc = ipc0

def Coupled (err : Bool) (ipc0 syn : Bool) (s : St) : Prop :=
  C err ipc0 syn s.trace s.kbuf s.peerShut s.nAlloc s.readable s.reading s.ipc

variable {i0 syn : Bool}

theorem coupled_start (ipc : Bool) : Coupled false ipc syn (start ipc) := by
  constructor <;> simp [start, mon]

theorem coupled_doOp (b : Bool) (s : St) (op : CbOp) (h : Coupled b i0 syn s) : Coupled b i0 syn (doOp s op) := by
  obtain ⟨h1, h2, h3, h4, h5, h6, h7, h8, h9, h10⟩ := h
  cases op <;> cases b <;>
    simp only [doOp, readStop, readStart, closeH, emit, UV_EINVAL, UV_EALREADY, UV_ENOTCONN] <;>
    (repeat' split) <;>
    (constructor <;> simp_all [mon_append, Mon.step])

theorem coupled_runOps (b : Bool) (ops : List CbOp) : ∀ (s : St), Coupled b i0 syn s → Coupled b i0 syn (runOps s ops) := by
  induction ops with
  | nil => intro s h; exact h
  | cons o t ih => intro s h; exact ih _ (coupled_doOp b s o h)


/-- what the kernel model guarantees about one read result -/
def KOk (kbuf : List Byte) (shut : Bool) (cap : Nat) (r : RRes × List Byte) : Prop :=
  match r.1 with
  | .data bs => bs ≠ [] ∧ bs ++ r.2 = kbuf ∧ bs.length ≤ cap
  | .eof => kbuf = [] ∧ shut = true ∧ r.2 = kbuf
  | .eagain => r.2 = kbuf
  | .err e => (e ≠ 0 ∧ e < 4095) ∧ r.2 = kbuf

theorem kfull_ok (kbuf : List Byte) (shut : Bool) (cap k : Nat) : KOk kbuf shut cap (kfull kbuf shut cap k) := by
  unfold kfull
  by_cases h0 : min k (min cap kbuf.length) = 0
  · by_cases h1 : (kbuf.isEmpty && shut) = true
    · simp only [h0, h1, if_true, KOk]; simp at h1; simp [h1]
    · simp only [h0, h1, if_true, KOk]; simp
  · simp only [h0, if_false, KOk]
    refine ⟨?_, List.take_append_drop _ _, ?_⟩
    · intro hc
      have h2 := congrArg List.length hc
      rw [List.length_take] at h2
      simp only [List.length_nil] at h2
      omega
    · rw [List.length_take]; omega

theorem kread_ok (kbuf : List Byte) (shut : Bool) (cap : Nat) (o : Option Outcome) :
    KOk kbuf shut cap (kread kbuf shut cap o) := by
  unfold kread
  cases o with
  | none => exact kfull_ok _ _ _ _
  | some o =>
    cases o with
    | ok k => exact kfull_ok _ _ _ _
    | eagain => simp [KOk]
    | eintr => simp [KOk]
    | err e => by_cases he : e = 11 ∨ e = 4 ∨ e = 0 ∨ 4095 ≤ e <;> simp [he, KOk]; omega


theorem coupled_callReadCb (u : User) (b : Bool) (s : St) (n : Int) (buf : Option Nat) (bytes : List Byte)
    (h : Coupled b i0 syn (emit { s with nCb := s.nCb + 1 } (.readCb n buf bytes))) :
    Coupled b i0 syn (callReadCb u s n buf bytes) := by
  unfold callReadCb
  exact coupled_runOps b _ _ h

/-- state right after the `alloc` event of a round, before its read_cb -/
structure CP (syn : Bool) (tr : List Ev) (kbuf0 : List Byte) (peerShut : Bool) (nAlloc : Nat) (id sz : Nat) : Prop where
  okPair : (mon tr).okPair = true
  okQuiet : (mon tr).okQuiet = true
  okEof : (mon tr).okEof = true
  pend : (mon tr).pending = some (id, sz)
  cons : (mon tr).sentB = (mon tr).deliv ++ kbuf0
  shut : (mon tr).shut = peerShut
  nal : (mon tr).nAl = nAlloc
  q : (mon tr).quiet = false
  okSyn : syn = true → (mon tr).okSyn = true

theorem coupled_afterRead (u : User) (s : St) (id sz : Nat) (kbuf0 : List Byte) (r : RRes)
    (h : CP syn s.trace kbuf0 s.peerShut s.nAlloc id sz) (hi : s.ipc = i0) (hr : s.reading = true) (hsz : sz ≠ 0)
    (hk : KOk kbuf0 s.peerShut sz (r, s.kbuf)) :
    Coupled false i0 syn (afterRead u s id sz r).1 := by
  obtain ⟨h1, h2, h3, h4, h5, h6, h7, h8, h9⟩ := h
  cases r with
  | eagain =>
    simp only [KOk] at hk
    simp only [afterRead]
    apply coupled_callReadCb
    split <;> (constructor <;> simp_all [emit, mon_append, Mon.step, quieting, UV_ENOBUFS, UV_EOF])
  | err e =>
    simp only [KOk] at hk
    simp only [afterRead]
    have hneg : (-(e : Int)) < 0 := by omega
    have hne : ¬ (-(e : Int)) = -4095 := by omega
    have hc : Coupled true i0 syn (callReadCb u { s with readable := false, writable := false } (-(e : Int)) (some id) []) := by
      apply coupled_callReadCb
      constructor <;> simp_all [emit, mon_append, Mon.step, quieting, UV_ENOBUFS, UV_EOF]
    obtain ⟨c1, c2, c3, c4, c5, c6, c7, c8, c9, c10⟩ := hc
    simp only [if_true] at c8
    split <;> (constructor <;> simp_all)
  | eof =>
    simp only [KOk] at hk
    simp only [afterRead, streamEof]
    apply coupled_callReadCb
    constructor <;> simp_all [emit, mon_append, Mon.step, quieting, UV_ENOBUFS, UV_EOF]
  | data bs =>
    simp only [KOk] at hk
    simp only [afterRead]
    have hpos : (0 : Int) < (bs.length : Int) := by
      have : bs.length ≠ 0 := by intro h0; exact hk.1 (List.length_eq_zero_iff.mp h0)
      omega
    have hc : Coupled false i0 syn (callReadCb u s bs.length (some id) bs) := by
      apply coupled_callReadCb
      obtain ⟨k1, k2, k3⟩ := hk
      constructor <;> simp_all [emit, mon_append, Mon.step, quieting, UV_ENOBUFS, UV_EOF]
    have hc' : Coupled false i0 syn { callReadCb u s bs.length (some id) bs with readPartial := true } := hc
    repeat' split
    all_goals first | exact hc | exact hc'

theorem coupled_readRound (u : User) (s : St) (h : Coupled false i0 syn s) (hr : s.reading = true) :
    Coupled false i0 syn (readRound u s).1 := by
  obtain ⟨h1, h2, h3, h4, h5, h6, h7, h8, h9, h10⟩ := h
  simp only [Bool.false_eq_true, if_false] at h8
  unfold readRound
  by_cases hz : u.allocS s.nAlloc = 0
  · simp only [hz, if_true]
    apply coupled_callReadCb
    constructor <;> simp_all [emit, mon_append, Mon.step, quieting, UV_ENOBUFS, UV_EOF]
  · simp only [hz, if_false]
    apply coupled_afterRead u _ _ _ s.kbuf
    · constructor <;> simp_all [emit, mon_append, Mon.step]
    · simpa [emit] using h10
    · simpa [emit] using hr
    · exact hz
    · simpa [emit] using kread_ok s.kbuf s.peerShut (u.allocS s.nAlloc) (skipEintr s.oracle).2.1


theorem coupled_readLoop (u : User) : ∀ (count : Nat) (s : St), Coupled false i0 syn s → Coupled false i0 syn (readLoop u count s) := by
  intro count
  induction count with
  | zero => intro s h; simpa [readLoop] using h
  | succ c ih =>
    intro s h
    unfold readLoop
    by_cases hc : (!(s.hasCb && s.reading)) = true
    · simp only [hc, if_true]; exact h
    · simp only [hc]
      have hr : s.reading = true := by simp at hc; exact hc.2
      have h' := coupled_readRound u s h hr
      simp only [Bool.false_eq_true, if_false]
      split
      · exact ih _ h'
      · exact h'

theorem coupled_uvRead (u : User) (s : St) (h : Coupled false i0 syn s) : Coupled false i0 syn (uvRead u s) :=
  coupled_readLoop u 32 _ h

/-- uv__read leaves READ_PARTIAL set only with an empty kernel buffer -/
def Drain (u : User) (s : St) : Prop := (uvRead u s).readPartial = true → (uvRead u s).kbuf = []

/-- environment condition on the read outcomes of one loop iteration (see `pollOK_ipc`, `pollOK_noShort`) -/
def PollOK (u : User) (ipc : Bool) (reads : List Outcome) : Prop :=
  ∀ s : St, s.ipc = ipc → s.oracle = reads → Drain u s

theorem coupled_streamIo (u : User) (s : St) (ev : PollEv) (h : Coupled false i0 syn s) (hD : syn = true → Drain u s) :
    Coupled false i0 syn (streamIo u s ev) := by
  unfold streamIo
  by_cases hc : (ev.inn || ev.err || ev.hup) = true
  · simp only [hc, if_true]
    have h1 := coupled_uvRead u s h
    simp only [Drain] at hD
    revert h1 hD
    generalize uvRead u s = s1
    intro hD h1
    split
    · exact h1
    · split
      · rename_i hsyn
        simp only [streamEof]
        apply coupled_callReadCb
        obtain ⟨c1, c2, c3, c4, c5, c6, c7, c8, c9, c10⟩ := h1
        simp at hsyn
        have hk : syn = true → s1.kbuf = [] := fun hs => hD hs hsyn.1.2
        constructor <;> simp_all [emit, mon_append, Mon.step, quieting, UV_ENOBUFS, UV_EOF]
      · exact h1
  · have hh : ev.hup = false := by
      cases hv : ev.hup <;> simp_all
    rw [if_neg hc]
    simp only [hh]
    split
    · exact h
    · simpa using h

theorem coupled_ioPoll (u : User) (s : St) (ev : PollEv) (h : Coupled false i0 syn s) (hD : syn = true → Drain u s) :
    Coupled false i0 syn (ioPoll u s ev) := by
  unfold ioPoll
  simp only
  repeat' split
  all_goals first | exact h | exact coupled_streamIo u s _ h hD

/-- condition on a main program: every loop iteration's read outcomes are acceptable -/
def OpsOK (u : User) (ipc : Bool) (ops : List Op) : Prop :=
  ∀ ev reads, Op.poll ev reads ∈ ops → PollOK u ipc reads

theorem coupled_stepOp (u : User) (s : St) (op : Op) (h : Coupled false i0 syn s) (hok : syn = true → OpsOK u i0 [op]) :
    Coupled false i0 syn (stepOp u s op) := by
  cases op with
  | start => exact coupled_doOp false s .start h
  | stop => exact coupled_doOp false s .stop h
  | close => exact coupled_doOp false s .close h
  | poll ev reads =>
    simp only [stepOp, runClosing]
    have hD : syn = true → Drain u { s with oracle := reads } := fun hs => hok hs ev reads (by simp) _ h.ipcEq rfl
    have h1 : Coupled false i0 syn (ioPoll u { s with oracle := reads } ev) := coupled_ioPoll u _ ev h hD
    split
    · obtain ⟨c1, c2, c3, c4, c5, c6, c7, c8, c9, c10⟩ := h1
      constructor <;> simp_all [emit, mon_append, Mon.step]
    · exact h1
  | peerW bytes =>
    simp only [stepOp]
    split
    · exact h
    · obtain ⟨c1, c2, c3, c4, c5, c6, c7, c8, c9, c10⟩ := h
      constructor <;> simp_all [emit, mon_append, Mon.step]
  | peerShut =>
    simp only [stepOp]
    obtain ⟨c1, c2, c3, c4, c5, c6, c7, c8, c9, c10⟩ := h
    constructor <;> simp_all [emit, mon_append, Mon.step]

theorem coupled_exec (u : User) (ops : List Op) : ∀ s, Coupled false i0 syn s → (syn = true → OpsOK u i0 ops) →
    Coupled false i0 syn (exec u s ops) := by
  induction ops with
  | nil => intro s h _; exact h
  | cons o t ih =>
    intro s h hok
    refine ih _ (coupled_stepOp u s o h ?_) ?_
    · intro hs ev reads hm; exact hok hs ev reads (by simp at hm; simp [hm])
    · intro hs ev reads hm; exact hok hs ev reads (List.mem_cons_of_mem _ hm)

/-! generic facts about the automaton -/

theorem fold_deliv (l : List Ev) : ∀ m : Mon, (l.foldl Mon.step m).deliv = m.deliv ++ delivered l := by
  induction l with
  | nil => intro m; simp [delivered]
  | cons e t ih => intro m; cases e <;> simp [ih, Mon.step, delivered]

theorem fold_sent (l : List Ev) : ∀ m : Mon, (l.foldl Mon.step m).sentB = m.sentB ++ sent l := by
  induction l with
  | nil => intro m; simp [sent]
  | cons e t ih => intro m; cases e <;> simp [ih, Mon.step, sent]

theorem mon_deliv (tr : List Ev) : (mon tr).deliv = delivered tr := by
  simpa [mon] using fold_deliv tr {}

theorem mon_sent (tr : List Ev) : (mon tr).sentB = sent tr := by
  simpa [mon] using fold_sent tr {}

theorem fold_shut (l : List Ev) : ∀ m : Mon, (l.foldl Mon.step m).shut = true → m.shut = true ∨ Ev.peerShut ∈ l := by
  induction l with
  | nil => intro m h; exact Or.inl h
  | cons e t ih =>
    intro m h
    rcases ih _ h with h1 | h1
    · cases e <;> simp_all [Mon.step]
    · exact Or.inr (List.mem_cons_of_mem _ h1)

theorem fold_okPair (l : List Ev) : ∀ m : Mon, (l.foldl Mon.step m).okPair = true → m.okPair = true := by
  induction l with
  | nil => intro m h; exact h
  | cons e t ih =>
    intro m h
    have h1 := ih _ h
    clear h ih
    cases e <;> simp [Mon.step] at h1 <;> simp_all

theorem fold_okQuiet (l : List Ev) : ∀ m : Mon, (l.foldl Mon.step m).okQuiet = true → m.okQuiet = true := by
  induction l with
  | nil => intro m h; exact h
  | cons e t ih =>
    intro m h
    have h1 := ih _ h
    clear h ih
    cases e <;> simp [Mon.step] at h1 <;> simp_all

theorem fold_okEof (l : List Ev) : ∀ m : Mon, (l.foldl Mon.step m).okEof = true → m.okEof = true := by
  induction l with
  | nil => intro m h; exact h
  | cons e t ih =>
    intro m h
    have h1 := ih _ h
    clear h ih
    cases e <;> simp [Mon.step] at h1 <;> simp_all

theorem fold_okSyn (l : List Ev) : ∀ m : Mon, (l.foldl Mon.step m).okSyn = true → m.okSyn = true := by
  induction l with
  | nil => intro m h; exact h
  | cons e t ih =>
    intro m h
    have h1 := ih _ h
    clear h ih
    cases e <;> simp [Mon.step] at h1 <;> simp_all

/-- once quiet, only a successful uv_read_start makes callbacks legal again -/
theorem fold_quiet (l : List Ev) : ∀ m : Mon, m.quiet = true → (l.foldl Mon.step m).quiet = false →
    Ev.ret .start 0 ∈ l := by
  induction l with
  | nil => intro m h1 h2; simp_all
  | cons e t ih =>
    intro m h1 h2
    by_cases he : e = Ev.ret .start 0
    · simp [he]
    · have hq : (m.step e).quiet = true := by
        cases e with
        | ret op c =>
          cases op <;> simp_all [Mon.step]
        | _ => simp_all [Mon.step]
      exact List.mem_cons_of_mem _ (ih _ hq h2)

theorem mon_split (pre post : List Ev) (e : Ev) :
    mon (pre ++ e :: post) = post.foldl Mon.step ((mon pre).step e) := by
  simp [mon_append]

/-! frame facts, short reads, iteration count -/

/-- components that user callbacks / API calls never touch -/
def Same (s s' : St) : Prop :=
  s'.readPartial = s.readPartial ∧ s'.kbuf = s.kbuf ∧ s'.nAlloc = s.nAlloc ∧ s'.ipc = s.ipc ∧ s'.oracle = s.oracle

theorem same_doOp (s : St) (op : CbOp) : Same s (doOp s op) := by
  cases op <;> simp only [doOp, readStop, readStart, closeH, emit, Same] <;> (repeat' split) <;> simp_all

theorem same_runOps (ops : List CbOp) : ∀ s, Same s (runOps s ops) := by
  induction ops with
  | nil => intro s; simp [runOps, Same]
  | cons o t ih =>
    intro s
    have h1 := same_doOp s o
    have h2 := ih (doOp s o)
    simp only [runOps, List.foldl_cons] at h2 ⊢
    simp only [Same] at *
    simp_all

theorem same_callReadCb (u : User) (s : St) (n : Int) (buf : Option Nat) (b : List Byte) :
    Same s (callReadCb u s n buf b) := by
  have h := same_runOps (u.cbS s.nCb) (emit { s with nCb := s.nCb + 1 } (.readCb n buf b))
  simpa [callReadCb, Same, emit] using h

theorem skipEintr_mem (l : List Outcome) :
    (∀ o, (skipEintr l).2.1 = some o → o ∈ l) ∧ (∀ o, o ∈ (skipEintr l).2.2 → o ∈ l) := by
  induction l with
  | nil => simp [skipEintr]
  | cons a t ih =>
    cases a <;> simp [skipEintr]
    · intro o ho; exact Or.inr ho
    · intro o ho; exact Or.inr ho
    · exact ⟨fun o ho => Or.inr (ih.1 o ho), fun o ho => Or.inr (ih.2 o ho)⟩
    · intro o ho; exact Or.inr ho


def NoShort (K : Nat) (l : List Outcome) : Prop := ∀ o ∈ l, ∀ k, o = .ok k → K ≤ k

theorem kfull_noshort (kbuf : List Byte) (shut : Bool) (sz k : Nat) (hk : sz ≤ k) (bs : List Byte)
    (h : (kfull kbuf shut sz k).1 = .data bs) (hl : bs.length < sz) : (kfull kbuf shut sz k).2 = [] := by
  unfold kfull at h ⊢
  by_cases h0 : min k (min sz kbuf.length) = 0
  · simp only [h0, if_true] at h; split at h <;> simp at h
  · simp only [h0, if_false] at h ⊢
    simp only [RRes.data.injEq] at h
    subst h
    rw [List.length_take] at hl
    simp only [List.drop_eq_nil_iff]
    omega

theorem kread_noshort (kbuf : List Byte) (shut : Bool) (sz : Nat) (o : Option Outcome)
    (ho : ∀ k, o = some (.ok k) → sz ≤ k) (bs : List Byte)
    (h : (kread kbuf shut sz o).1 = .data bs) (hl : bs.length < sz) : (kread kbuf shut sz o).2 = [] := by
  unfold kread at h ⊢
  cases o with
  | none => exact kfull_noshort _ _ _ _ (Nat.le_refl _) bs h hl
  | some o =>
    cases o with
    | ok k => exact kfull_noshort _ _ _ _ (ho k rfl) bs h hl
    | eagain => simp at h
    | eintr => simp at h
    | err e => simp only at h; split at h <;> simp at h

/-- the environment condition under which a hang-up loses nothing: an IPC pipe (READ_PARTIAL is never
    set), or a kernel that hands over min(buffer, available) bytes on every successful read -/
def EnvOK (u : User) (K : Nat) (ipc : Bool) (l : List Outcome) : Prop :=
  ipc = true ∨ ((∀ i, u.allocS i ≤ K) ∧ NoShort K l)

theorem readRound_facts (u : User) (K : Nat) (s : St)
    (hp : s.readPartial = false) (H : EnvOK u K s.ipc s.oracle) :
    (readRound u s).1.nAlloc = s.nAlloc + 1 ∧ (readRound u s).1.ipc = s.ipc ∧
    (∀ o, o ∈ (readRound u s).1.oracle → o ∈ s.oracle) ∧
    ((readRound u s).2 = true → (readRound u s).1.readPartial = false) ∧
    ((readRound u s).1.readPartial = true → (readRound u s).1.kbuf = [] ∧ s.ipc = false) := by
  unfold readRound
  simp only [emit]
  by_cases hz : u.allocS s.nAlloc = 0
  · simp only [hz, if_true]
    have h := same_callReadCb u (emit { s with nAlloc := s.nAlloc + 1 } (.alloc s.nAlloc 0)) UV_ENOBUFS (some s.nAlloc) []
    simp only [Same, emit] at h
    simp_all
  · simp only [hz, if_false]
    have hm := skipEintr_mem s.oracle
    have ho : s.ipc = false → ∀ k, (skipEintr s.oracle).2.1 = some (.ok k) → u.allocS s.nAlloc ≤ k := by
      intro hi k hk
      rcases H with H | ⟨hA, hO⟩
      · rw [hi] at H; cases H
      · exact Nat.le_trans (hA _) (hO _ (hm.1 _ hk) k rfl)
    have hns : s.ipc = false → ∀ bs, (kread s.kbuf s.peerShut (u.allocS s.nAlloc) (skipEintr s.oracle).2.1).1 = .data bs →
        bs.length < u.allocS s.nAlloc → (kread s.kbuf s.peerShut (u.allocS s.nAlloc) (skipEintr s.oracle).2.1).2 = [] :=
      fun hi => kread_noshort s.kbuf s.peerShut (u.allocS s.nAlloc) (skipEintr s.oracle).2.1 (ho hi)
    have hsub := hm.2
    clear ho
    revert hns
    generalize kread s.kbuf s.peerShut (u.allocS s.nAlloc) (skipEintr s.oracle).2.1 = kr
    obtain ⟨r, kb⟩ := kr
    intro hns
    cases r with
    | eagain =>
      simp only [afterRead]
      split
      · have h := same_callReadCb u { s with nAlloc := s.nAlloc + 1, trace := s.trace ++ [.alloc s.nAlloc (u.allocS s.nAlloc)], oracle := (skipEintr s.oracle).2.2, nSys := s.nSys + (skipEintr s.oracle).1, kbuf := kb, pollin := true } 0 (some s.nAlloc) []
        simp only [Same] at h; simp_all
      · have h := same_callReadCb u { s with nAlloc := s.nAlloc + 1, trace := s.trace ++ [.alloc s.nAlloc (u.allocS s.nAlloc)], oracle := (skipEintr s.oracle).2.2, nSys := s.nSys + (skipEintr s.oracle).1, kbuf := kb } 0 (some s.nAlloc) []
        simp only [Same] at h; simp_all
    | err e =>
      simp only [afterRead]
      have h := same_callReadCb u { s with nAlloc := s.nAlloc + 1, trace := s.trace ++ [.alloc s.nAlloc (u.allocS s.nAlloc)], oracle := (skipEintr s.oracle).2.2, nSys := s.nSys + (skipEintr s.oracle).1, kbuf := kb, readable := false, writable := false } (-(e:Int)) (some s.nAlloc) []
      simp only [Same] at h
      split <;> simp_all
    | eof =>
      simp only [afterRead, streamEof]
      have h := same_callReadCb u { s with nAlloc := s.nAlloc + 1, trace := s.trace ++ [.alloc s.nAlloc (u.allocS s.nAlloc)], oracle := (skipEintr s.oracle).2.2, nSys := s.nSys + (skipEintr s.oracle).1, kbuf := kb, readEof := true, reading := false, pollin := false } UV_EOF (some s.nAlloc) []
      simp only [Same] at h
      simp_all
    | data bs =>
      simp only [afterRead]
      have h := same_callReadCb u { s with nAlloc := s.nAlloc + 1, trace := s.trace ++ [.alloc s.nAlloc (u.allocS s.nAlloc)], oracle := (skipEintr s.oracle).2.2, nSys := s.nSys + (skipEintr s.oracle).1, kbuf := kb } bs.length (some s.nAlloc) bs
      simp only [Same] at h
      cases hi : s.ipc
      · have hns' := hns hi bs rfl
        split
        · simp_all
        · simp_all
      · split <;> simp_all

theorem readLoop_facts (u : User) (K : Nat) :
    ∀ (count : Nat) (s : St), s.readPartial = false → EnvOK u K s.ipc s.oracle →
      ((readLoop u count s).readPartial = true → (readLoop u count s).kbuf = [] ∧ s.ipc = false) := by
  intro count
  induction count with
  | zero => intro s hp _; simp [readLoop, hp]
  | succ c ih =>
    intro s hp hO
    unfold readLoop
    by_cases hc : (!(s.hasCb && s.reading)) = true
    · simp only [hc, if_true]; simp [hp]
    · simp only [hc]
      obtain ⟨f1, f2, f3, f4, f5⟩ := readRound_facts u K s hp hO
      simp only [Bool.false_eq_true, if_false]
      split
      · rename_i hcont
        have hO' : EnvOK u K (readRound u s).1.ipc (readRound u s).1.oracle := by
          rw [f2]
          rcases hO with h | ⟨hA, hN⟩
          · exact Or.inl h
          · exact Or.inr ⟨hA, fun o ho k hk => hN o (f3 o ho) k hk⟩
        intro hh; have := ih _ (f4 hcont) hO' hh; rw [f2] at this; exact this
      · exact f5

theorem partial_implies_drained (u : User) (K : Nat) (s : St) (H : EnvOK u K s.ipc s.oracle) :
    (uvRead u s).readPartial = true → (uvRead u s).kbuf = [] ∧ s.ipc = false := by
  have h := readLoop_facts u K 32 { s with readPartial := false } rfl H
  simpa [uvRead] using h

theorem pollOK_of_envOK (u : User) (K : Nat) (ipc : Bool) (reads : List Outcome) (H : EnvOK u K ipc reads) :
    PollOK u ipc reads := by
  intro s hi ho hp
  exact (partial_implies_drained u K s (by rw [hi, ho]; exact H) hp).1

theorem afterRead_nAlloc (u : User) (s : St) (id sz : Nat) (r : RRes) :
    (afterRead u s id sz r).1.nAlloc = s.nAlloc := by
  cases r with
  | eagain =>
    simp only [afterRead]
    split
    · have h := same_callReadCb u { s with pollin := true } 0 (some id) []
      simp only [Same] at h; simp_all
    · have h := same_callReadCb u s 0 (some id) []
      simp only [Same] at h; simp_all
  | err e =>
    simp only [afterRead]
    have h := same_callReadCb u { s with readable := false, writable := false } (-(e:Int)) (some id) []
    simp only [Same] at h
    split <;> simp_all
  | eof =>
    simp only [afterRead, streamEof]
    have h := same_callReadCb u { s with readEof := true, reading := false, pollin := false } UV_EOF (some id) []
    simp only [Same] at h
    simp_all
  | data bs =>
    simp only [afterRead]
    have h := same_callReadCb u s bs.length (some id) bs
    simp only [Same] at h
    repeat' split
    all_goals simp_all

theorem readRound_nAlloc (u : User) (s : St) : (readRound u s).1.nAlloc = s.nAlloc + 1 := by
  unfold readRound
  simp only [emit]
  split
  · have h := same_callReadCb u { s with nAlloc := s.nAlloc + 1, trace := s.trace ++ [.alloc s.nAlloc (u.allocS s.nAlloc)] } UV_ENOBUFS (some s.nAlloc) []
    simp only [Same] at h; simp_all
  · rw [afterRead_nAlloc]

theorem readLoop_nAlloc (u : User) : ∀ (count : Nat) (s : St), (readLoop u count s).nAlloc ≤ s.nAlloc + count := by
  intro count
  induction count with
  | zero => intro s; simp [readLoop]
  | succ c ih =>
    intro s
    unfold readLoop
    split
    · omega
    · have h1 := readRound_nAlloc u s
      simp only
      split
      · have := ih (readRound u s).1; omega
      · omega

theorem streamIo_nAlloc (u : User) (s : St) (ev : PollEv) : (streamIo u s ev).nAlloc ≤ s.nAlloc + 32 := by
  unfold streamIo
  have h1 : (if (ev.inn || ev.err || ev.hup) = true then uvRead u s else s).nAlloc ≤ s.nAlloc + 32 := by
    split
    · have := readLoop_nAlloc u 32 { s with readPartial := false }
      simpa [uvRead] using this
    · omega
  revert h1
  generalize (if (ev.inn || ev.err || ev.hup) = true then uvRead u s else s) = s1
  intro h1
  simp only
  split
  · exact h1
  · split
    · simp only [streamEof]
      have h := same_callReadCb u { s1 with readEof := true, reading := false, pollin := false } UV_EOF none []
      simp only [Same] at h
      simp_all
    · exact h1

theorem poll_nAlloc (u : User) (s : St) (ev : PollEv) (reads : List Outcome) :
    (stepOp u s (.poll ev reads)).nAlloc ≤ s.nAlloc + 32 := by
  simp only [stepOp, runClosing, ioPoll]
  have h := fun e => streamIo_nAlloc u { s with oracle := reads } e
  simp only at h
  repeat' split
  all_goals first | (simp only [emit]; first | exact h _ | omega) | exact h _ | omega

/-- number of alloc_cb calls in a trace -/
def allocCount : List Ev → Nat
  | [] => 0
  | .alloc _ _ :: t => allocCount t + 1
  | _ :: t => allocCount t

theorem fold_nAl (l : List Ev) : ∀ m : Mon, (l.foldl Mon.step m).nAl = m.nAl + allocCount l := by
  induction l with
  | nil => intro m; simp [allocCount]
  | cons e t ih => intro m; cases e <;> simp [ih, Mon.step, allocCount] <;> omega


end UvModel.StreamR
