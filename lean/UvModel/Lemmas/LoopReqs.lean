import UvModel.Lemmas.LoopRunInv
/-!
  Request accounting: `loop->active_reqs.count` equals the number of owed request records.

  Every owed request is *held* by at most one queue slot: the thread-pool queues
  (`running`, `poolQ`, `doneQ`, `doneLocal`) or a handle record (`wq`, `wcq`, `connReq`).
  `cnt e x s` counts the slots holding request `x` (`e = some id`: the connect request of handle `id`
  is not counted — the window inside `uv__stream_destroy` where the request is already unregistered
  while `connect_req` is cleared only after the callback).  `RInv e s`: `ar = |reqs|`, every request id
  is held at most as often as it is owed, owed at most once, and ids are below `nextReq`.
  Registration adds one record and one slot (`RInv.register`); a completion removes the record of a
  request that sits in a slot, together with that slot (`RInv.complete`); everything else only moves
  or drops slots (`RLe`).
-/
namespace UvModel.Loop.Reqs
open UvModel.HandleKernels

/-! ### counting holders -/
def hp (h : Handle) : Nat × List Nat × List (Nat × Int) × Option Nat := (h.id, h.wq, h.wcq, h.connReq)

def rq (s : State) :=
  (s.ar, s.reqs, s.nextReq, s.running, s.poolQ, s.doneQ, s.doneLocal, s.ringQ, s.handles.map hp)

/-- occurrences of request `x` as first component -/
def cp {β : Type} (x : Nat) (l : List (Nat × β)) : Nat := l.countP (·.1 == x)

def hcW (x : Nat) (h : Handle) : Nat := h.wq.count x + cp x h.wcq
def hcC (x : Nat) (h : Handle) : Nat := if h.connReq = some x then 1 else 0

def hcnt (e : Option Nat) (x : Nat) : List Handle → Nat
  | [] => 0
  | h :: t => if e = some h.id then hcW x h + hcnt none x t else hcW x h + hcC x h + hcnt e x t

def wcnt (x : Nat) (s : State) : Nat :=
  (if s.running = some x then 1 else 0) + s.poolQ.count x + cp x s.doneQ + cp x s.doneLocal + s.ringQ.count x

def cnt (e : Option Nat) (x : Nat) (s : State) : Nat := wcnt x s + hcnt e x s.handles
def idc (x : Nat) (s : State) : Nat := s.reqs.countP (·.id == x)

def RInv (e : Option Nat) (s : State) : Prop :=
  s.ar = s.reqs.length ∧ (∀ x, cnt e x s ≤ idc x s) ∧ (∀ x, idc x s ≤ 1) ∧ (∀ x, s.nextReq ≤ x → idc x s = 0)

def RLe (s s' : State) : Prop :=
  s'.ar = s.ar ∧ s'.reqs = s.reqs ∧ s'.nextReq = s.nextReq ∧ ∀ e x, cnt e x s' ≤ cnt e x s

theorem hcnt_congr {hs hs' : List Handle} (h : hs.map hp = hs'.map hp) (e : Option Nat) (x : Nat) :
    hcnt e x hs = hcnt e x hs' := by
  induction hs generalizing hs' e with
  | nil => cases hs' with
    | nil => rfl
    | cons _ _ => simp at h
  | cons a t ih =>
    cases hs' with
    | nil => simp at h
    | cons b t' =>
      simp only [List.map_cons, List.cons.injEq, hp, Prod.mk.injEq] at h
      obtain ⟨⟨h1, h2, h3, h4⟩, h5⟩ := h
      simp only [hcnt, hcW, hcC, h1, h2, h3, h4, ih h5]

theorem cnt_of_rq {s s' : State} (h : rq s' = rq s) (e : Option Nat) (x : Nat) : cnt e x s' = cnt e x s := by
  simp only [rq, Prod.mk.injEq] at h
  obtain ⟨_, _, _, h4, h5, h6, h7, h7', h8⟩ := h
  simp only [cnt, wcnt, h4, h5, h6, h7, h7', hcnt_congr h8]

theorem RLe.refl (s : State) : RLe s s := ⟨rfl, rfl, rfl, fun _ _ => Nat.le_refl _⟩
theorem RLe.trans {a b c : State} (h1 : RLe a b) (h2 : RLe b c) : RLe a c :=
  ⟨h2.1.trans h1.1, h2.2.1.trans h1.2.1, h2.2.2.1.trans h1.2.2.1, fun e x => Nat.le_trans (h2.2.2.2 e x) (h1.2.2.2 e x)⟩
theorem RLe.of_rq {s s' : State} (h : rq s' = rq s) : RLe s s' := by
  have hc := cnt_of_rq h
  simp only [rq, Prod.mk.injEq] at h
  exact ⟨h.1, h.2.1, h.2.2.1, fun e x => Nat.le_of_eq (hc e x)⟩
theorem RLe.inv {s s' : State} {e : Option Nat} (h : RLe s s') (hi : RInv e s) : RInv e s' := by
  obtain ⟨h1, h2, h3, h4⟩ := h
  obtain ⟨i1, i2, i3, i4⟩ := hi
  refine ⟨by rw [h1, h2]; exact i1, ?_, ?_, ?_⟩
  · intro x; have := h4 e x; have := i2 x; simp only [idc, h2] at *; omega
  · intro x; simp only [idc, h2]; exact i3 x
  · intro x hx; simp only [idc, h2]; rw [h3] at hx; exact i4 x hx
theorem RLe.rq_left {a a' b : State} (h : rq a' = rq a) (h2 : RLe a' b) : RLe a b := (RLe.of_rq h).trans h2
theorem RInv.of_rq {s s' : State} {e : Option Nat} (h : rq s' = rq s) (hi : RInv e s) : RInv e s' := (RLe.of_rq h).inv hi
theorem RInv.iff_of_rq {s s' : State} {e : Option Nat} (h : rq s' = rq s) : RInv e s' ↔ RInv e s :=
  ⟨RInv.of_rq h.symm, RInv.of_rq h⟩

/-! ### list counting facts -/
theorem countP_id_filter (l : List Req) (x r : Nat) :
    (l.filter (·.id != r)).countP (·.id == x) = if x = r then 0 else l.countP (·.id == x) := by
  induction l with
  | nil => simp
  | cons a t ih =>
    by_cases ha : a.id = r
    · simp only [List.filter, ha, bne_self_eq_false, ih]
      split
      · rfl
      · rename_i hx
        have : (r == x) = false := by simp; omega
        simp [ha, this]
    · have : (a.id != r) = true := by simp [ha]
      simp only [List.filter, this, List.countP_cons, ih]
      split
      · rename_i hx; subst hx; simp [ha]
      · rfl

theorem length_id_filter (l : List Req) (r : Nat) :
    (l.filter (·.id != r)).length + l.countP (·.id == r) = l.length := by
  induction l with
  | nil => rfl
  | cons a t ih =>
    by_cases ha : a.id = r
    · simp [List.filter, ha]; omega
    · have : (a.id != r) = true := by simp [ha]
      simp [List.filter, this, ha]; omega


/-! ### the two generic transitions: registration and completion -/
theorem RInv.register {e : Option Nat} {s s' : State} (k : ReqKind) (hi : RInv e s)
    (har : s'.ar = reqRegister s.ar) (hr : s'.reqs = s.reqs ++ [({ id := s.nextReq, kind := k } : Req)])
    (hn : s'.nextReq = s.nextReq + 1)
    (hc : ∀ x, cnt e x s' ≤ cnt e x s + (if x = s.nextReq then 1 else 0)) : RInv e s' := by
  obtain ⟨i1, i2, i3, i4⟩ := hi
  have hid : ∀ x, idc x s' = idc x s + (if x = s.nextReq then 1 else 0) := by
    intro x
    simp only [idc, hr, List.countP_append, List.countP_cons, List.countP_nil, Nat.zero_add]
    by_cases hx : x = s.nextReq
    · subst hx; simp
    · have : (s.nextReq == x) = false := by simp; omega
      simp [hx, this]
  refine ⟨by rw [har, hr, i1]; simp [reqRegister], ?_, ?_, ?_⟩
  · intro x; have := hc x; have := i2 x; rw [hid]; omega
  · intro x; rw [hid]
    split
    · rename_i hx; have := i4 x (by omega); omega
    · have := i3 x; omega
  · intro x hx; rw [hid, hn] at *
    have := i4 x (by omega)
    have : x ≠ s.nextReq := by omega
    simp [*]

/-- completion of `r`: one holder of `r` disappears together with the record -/
theorem RInv.complete {e e' : Option Nat} {s s' : State} (r : Nat) (hi : RInv e s)
    (har : s'.ar = reqUnregister s.ar) (hr : s'.reqs = s.reqs.filter (·.id != r))
    (hn : s'.nextReq = s.nextReq)
    (hc : ∀ x, cnt e' x s' + (if x = r then 1 else 0) ≤ cnt e x s) : RInv e' s' := by
  obtain ⟨i1, i2, i3, i4⟩ := hi
  have hid : ∀ x, idc x s' = if x = r then 0 else idc x s := by
    intro x; simp only [idc, hr]; exact countP_id_filter _ _ _
  have h1 : idc r s = 1 := by
    have := hc r; have := i2 r; have := i3 r; simp at *; omega
  refine ⟨?_, ?_, ?_, ?_⟩
  · have := length_id_filter s.reqs r
    simp only [idc] at h1
    rw [har, hr, i1]; simp only [reqUnregister]; omega
  · intro x; have := hc x; have := i2 x; rw [hid]
    split
    · rename_i hx; subst hx; simp at *; omega
    · rename_i hx; simp [hx] at *; omega
  · intro x; rw [hid]; split
    · omega
    · exact i3 x
  · intro x hx; rw [hid]; split
    · rfl
    · exact i4 x (by omega)

/-! ### handle records -/
/-- contribution of one handle record -/
def hcK (e : Option Nat) (x : Nat) (h : Handle) : Nat := if e = some h.id then hcW x h else hcW x h + hcC x h

theorem find_id {hs : List Handle} {id : Nat} {h : Handle} (hf : hs.find? (·.id == id) = some h) : h.id = id := by
  have := List.find?_some hf
  simpa using this

/-- `modH` rewrites exactly the record `getH` returns -/
theorem hcnt_updH {hs : List Handle} {id : Nat} {h : Handle} (g : Handle → Handle) (hg : ∀ h, (g h).id = h.id)
    (hf : hs.find? (·.id == id) = some h) (e : Option Nat) (x : Nat) :
    hcnt e x (updH hs id g) + hcK e x h = hcnt e x hs + hcK e x (g h) := by
  induction hs generalizing e with
  | nil => simp at hf
  | cons a t ih =>
    by_cases ha : (a.id == id) = true
    · simp only [List.find?, ha, Option.some.injEq] at hf
      subst hf
      simp only [updH, ha, if_true, hcnt, hcK, hg]
      split <;> omega
    · have ha' : (a.id == id) = false := by simpa using ha
      simp only [List.find?, ha'] at hf
      simp only [updH, ha', Bool.false_eq_true, if_false, hcnt]
      have hid := find_id hf
      split
      · rename_i he
        have hne : ¬ (e = some h.id) := by
          rw [he, hid]; intro h0; simp at ha'; simp at h0; exact ha' h0
        have := ih hf none
        simp only [hcK, hg, hne, if_false] at this ⊢
        simp only [reduceCtorEq, if_false] at this
        omega
      · have := ih hf e
        omega

theorem updH_none {hs : List Handle} {id : Nat} (g : Handle → Handle) (hf : hs.find? (·.id == id) = none) :
    updH hs id g = hs := by
  induction hs with
  | nil => rfl
  | cons a t ih =>
    by_cases ha : (a.id == id) = true
    · simp [List.find?, ha] at hf
    · have ha' : (a.id == id) = false := by simpa using ha
      simp only [List.find?, ha'] at hf
      simp [updH, ha', ih hf]

theorem map_hp_updH (hs : List Handle) (id : Nat) (g : Handle → Handle) (hg : ∀ h, hp (g h) = hp h) :
    (updH hs id g).map hp = hs.map hp := by
  induction hs with
  | nil => rfl
  | cons a t ih =>
    simp only [updH]
    split
    · simp [hg]
    · simp [ih]

theorem hcnt_skip_le (hs : List Handle) (e : Option Nat) (x : Nat) : hcnt e x hs ≤ hcnt none x hs := by
  induction hs generalizing e with
  | nil => exact Nat.le_refl _
  | cons a t ih =>
    simp only [hcnt, reduceCtorEq, if_false]
    split
    · omega
    · have := ih e; omega

theorem hcnt_filter_le (hs : List Handle) (p : Handle → Bool) (e : Option Nat) (x : Nat) :
    hcnt e x (hs.filter p) ≤ hcnt e x hs := by
  induction hs generalizing e with
  | nil => exact Nat.le_refl _
  | cons a t ih =>
    simp only [List.filter]
    cases p a with
    | true =>
      simp only [hcnt]
      split
      · have := ih none; omega
      · have := ih e; omega
    | false =>
      simp only [hcnt]
      split
      · have := ih none; have := hcnt_skip_le (t.filter p) e x; omega
      · have := ih e; omega

theorem hcnt_append_empty (hs : List Handle) (n : Handle) (h1 : n.wq = []) (h2 : n.wcq = []) (h3 : n.connReq = none)
    (e : Option Nat) (x : Nat) : hcnt e x (hs ++ [n]) = hcnt e x hs := by
  induction hs generalizing e with
  | nil => simp [hcnt, hcW, hcC, cp, h1, h2, h3]
  | cons a t ih => simp only [List.cons_append, hcnt, ih]

/-- the skipped connect request of the first record `id` -/
theorem hcnt_skip {hs : List Handle} {id : Nat} {h : Handle} (hf : hs.find? (·.id == id) = some h) (x : Nat) :
    hcnt (some id) x hs + hcC x h = hcnt none x hs := by
  induction hs with
  | nil => simp at hf
  | cons a t ih =>
    by_cases ha : (a.id == id) = true
    · simp only [List.find?, ha, Option.some.injEq] at hf
      subst hf
      have : a.id = id := by simpa using ha
      simp only [hcnt, this, if_true]
      simp; omega
    · have ha' : (a.id == id) = false := by simpa using ha
      simp only [List.find?, ha'] at hf
      have hne : ¬ (some id = some a.id) := by simp at ha' ⊢; omega
      simp only [hcnt, hne, if_false]
      have := ih hf
      simp; omega

theorem hcnt_clear_conn (hs : List Handle) (id : Nat) (x : Nat) :
    hcnt none x (updH hs id (fun h => { h with connReq := none })) = hcnt (some id) x hs := by
  induction hs with
  | nil => rfl
  | cons a t ih =>
    by_cases ha : (a.id == id) = true
    · have : a.id = id := by simpa using ha
      simp [updH, hcnt, this, hcW, hcC]
    · have ha' : (a.id == id) = false := by simpa using ha
      have hne : ¬ (some id = some a.id) := by simp at ha' ⊢; omega
      simp only [updH, ha', hcnt, hne, if_false, ih, Bool.false_eq_true, reduceCtorEq]

/-! ### auxiliary functions: `rq` unchanged -/
theorem rq_modH (s : State) (id : Nat) (g : Handle → Handle) (hg : ∀ h, hp (g h) = hp h) : rq (modH s id g) = rq s := by
  simp only [rq, modH, map_hp_updH _ _ _ hg]
@[simp] theorem rq_withKernel (s : State) (id : Nat) (k : HK → HK) : rq (withKernel s id k) = rq s := rfl
@[simp] theorem rq_hStart (s : State) (id : Nat) : rq (hStart s id) = rq s := rfl
@[simp] theorem rq_hStop (s : State) (id : Nat) : rq (hStop s id) = rq s := rfl
@[simp] theorem rq_setIo (s : State) (w : W) (io : IoW) : rq (setIo s w io) = rq s := by
  cases w with
  | h id => exact rq_modH _ _ _ (fun _ => rfl)
  | _ => rfl
@[simp] theorem rq_ioStart (s : State) (w : W) (ev : Nat) : rq (ioStart s w ev) = rq s := by
  unfold ioStart; simp only
  have := rq_setIo s w { getIo s w with pevents := (getIo s w).pevents ||| ev }
  split
  · exact this
  · split
    · exact this
    · simp only [rq, Prod.mk.injEq] at this ⊢; exact this
@[simp] theorem rq_ioStop (s : State) (w : W) (ev : Nat) : rq (ioStop s w ev) = rq s := by
  unfold ioStop; simp only
  split; · rfl
  split
  · have := rq_setIo s w { getIo s w with pevents := 0, events := 0 }
    simp only [rq, Prod.mk.injEq] at this ⊢; exact this
  · have := rq_setIo s w { getIo s w with pevents := clearBits (getIo s w).pevents ev }
    split
    · exact this
    · simp only [rq, Prod.mk.injEq] at this ⊢; exact this
@[simp] theorem rq_invalidate (s : State) (id : Nat) : rq (invalidate s id) = rq s := rfl
@[simp] theorem rq_ioClose (s : State) (id : Nat) : rq (ioClose s id) = rq s := by
  unfold ioClose; simp only
  have := rq_ioStop s (.h id) POLLALL
  split <;> (simp only [rq, invalidate, Prod.mk.injEq] at this ⊢; exact this)
@[simp] theorem rq_ioFeed (s : State) (id : Nat) : rq (ioFeed s id) = rq s := by
  unfold ioFeed; split <;> rfl
@[simp] theorem rq_updateTime (s : State) : rq (updateTime s) = rq s := rfl
@[simp] theorem rq_asyncSend (s : State) (id : Nat) : rq (asyncSend s id) = rq s := by
  unfold asyncSend; split; · rfl
  split
  · rfl
  · exact rq_modH _ _ _ (fun _ => rfl)
@[simp] theorem rq_makeClosePending (s : State) (id : Nat) : rq (makeClosePending s id) = rq s := rfl
@[simp] theorem rq_initInotify (s : State) : rq (initInotify s) = rq s := by
  unfold initInotify; split; · rfl
  simp; rfl
@[simp] theorem rq_emit (s : State) (e : Event) : rq (emit s e) = rq s := by
  unfold emit; split <;> rfl
@[simp] theorem rq_emitObs (s : State) : rq (emitObs s) = rq s := by simp [emitObs]
@[simp] theorem rq_setWList (s : State) (k : WKind) (l : List Nat) : rq (setWList s k l) = rq s := by cases k <;> rfl
@[simp] theorem rq_flushWatchers (s : State) : rq (flushWatchers s) = rq s := by
  unfold flushWatchers
  have : ∀ (l : List W) (s : State), rq (l.foldl (fun s w => let io := getIo s w; setIo s w { io with events := io.pevents }) s) = rq s := by
    intro l; induction l with
    | nil => intro s; rfl
    | cons w t ih => intro s; simp only [List.foldl]; rw [ih]; simp
  have h := this s.watcherQ s
  simp only [rq, Prod.mk.injEq] at h ⊢; exact h
@[simp] theorem rq_timerStop (s : State) (id : Nat) : rq (timerStop s id) = rq s := rfl
@[simp] theorem rq_timerStart (s : State) (id a b : Nat) : rq (timerStart s id a b).1 = rq s := by
  unfold timerStart; split; · rfl
  simp only; split <;> rfl
@[simp] theorem rq_timerAgain (s : State) (id : Nat) : rq (timerAgain s id).1 = rq s := by
  unfold timerAgain; simp only
  split; · rfl
  split
  · rw [rq_timerStart, rq_timerStop]
  · rfl
@[simp] theorem rq_watcherStart (s : State) (k : WKind) (id : Nat) : rq (watcherStart s k id) = rq s := by
  unfold watcherStart; split; · rfl
  rw [rq_hStart, rq_setWList]
@[simp] theorem rq_watcherStop (s : State) (k : WKind) (id : Nat) : rq (watcherStop s k id) = rq s := by
  unfold watcherStop; split; · rfl
  simp only; rw [rq_hStop]
  have := rq_setWList s k ((wList s k).filter (· != id))
  simp only [rq, Prod.mk.injEq] at this ⊢; exact this
@[simp] theorem rq_pollStop (s : State) (id : Nat) : rq (pollStop s id) = rq s := by
  show rq (invalidate (hStop (ioStop s (.h id) POLLALL) id) id) = rq s
  simp
@[simp] theorem rq_pollStart (s : State) (id mask : Nat) : rq (pollStart s id mask) = rq s := by
  unfold pollStart; simp only; split <;> simp
@[simp] theorem rq_asyncClose (s : State) (id : Nat) : rq (asyncClose s id) = rq s := by
  unfold asyncClose
  simp only [rq_hStop]
  exact (rq_modH s id (fun h => { h with pending := true }) (fun _ => rfl) :)
@[simp] theorem rq_streamListen (s : State) (id : Nat) : rq (streamListen s id) = rq s := by
  show rq (hStart (ioStart (modH s id _) (.h id) POLLIN) id) = rq s
  rw [rq_hStart, rq_ioStart]; exact rq_modH _ _ _ (fun _ => rfl)
@[simp] theorem rq_streamClose (s : State) (id : Nat) : rq (streamClose s id) = rq s := by
  show rq (modH (hStop (ioClose s id) id) id _) = rq s
  refine Eq.trans (rq_modH _ _ _ ?_) (by simp)
  intro _; rfl
@[simp] theorem rq_udpClose (s : State) (id : Nat) : rq (udpClose s id) = rq s := by
  show rq (modH (hStop (ioClose s id) id) id _) = rq s
  refine Eq.trans (rq_modH _ _ _ ?_) (by simp)
  intro _; rfl
@[simp] theorem rq_udpRecvStart (s : State) (id : Nat) : rq (udpRecvStart s id).1 = rq s := by
  unfold udpRecvStart; split; · rfl
  show rq (hStart (ioStart (modH s id _) (.h id) POLLIN) id) = rq s
  rw [rq_hStart, rq_ioStart]; exact rq_modH _ _ _ (fun _ => rfl)
@[simp] theorem rq_udpRecvStop (s : State) (id : Nat) : rq (udpRecvStop s id) = rq s := by
  unfold udpRecvStop; simp only; split <;> simp
@[simp] theorem rq_fsEventStop (s : State) (id : Nat) : rq (fsEventStop s id) = rq s := by
  unfold fsEventStop; split <;> rfl
@[simp] theorem rq_closeKind (s : State) (k : Kind) (id : Nat) : rq (closeKind s k id) = rq s := by
  cases k <;> simp [closeKind, signalStop]
  · rfl
@[simp] theorem rq_closeH (s : State) (k : Kind) (id : Nat) : rq (closeH s k id) = rq s := by
  show rq (makeClosePending (closeKind (withKernel s id setClosing) k id) id) = rq s
  simp

/-! ### queue counting -/
theorem cp_append {β : Type} (x : Nat) (l l' : List (Nat × β)) : cp x (l ++ l') = cp x l + cp x l' := by
  simp [cp, List.countP_append]
theorem cp_map_pair {β : Type} (x : Nat) (l : List Nat) (c : β) : cp x (l.map (fun r => (r, c))) = l.count x := by
  induction l with
  | nil => rfl
  | cons a t ih =>
    simp only [cp, List.map_cons, List.countP_cons, List.count_cons] at ih ⊢
    rw [ih]
theorem cp_cons {β : Type} (x : Nat) (a : Nat × β) (l : List (Nat × β)) :
    cp x (a :: l) = cp x l + (if a.1 = x then 1 else 0) := by
  simp [cp, List.countP_cons]
theorem cp_filter_le {β : Type} (x : Nat) (p : Nat × β → Bool) (l : List (Nat × β)) : cp x (l.filter p) ≤ cp x l := by
  induction l with
  | nil => exact Nat.le_refl _
  | cons a t ih =>
    simp only [List.filter]
    split
    · simp only [cp_cons]; omega
    · simp only [cp_cons]; omega
theorem cp_filter_ne {x r : Nat} (hx : x ≠ r) (b : Bool) (l : List (Nat × Bool)) :
    cp x (l.filter (· != (r, b))) = cp x l := by
  induction l with
  | nil => rfl
  | cons a t ih =>
    simp only [List.filter]
    split
    · simp only [cp_cons, ih]
    · rename_i h
      have : a = (r, b) := by simpa using h
      subst this
      simp only [cp_cons, ih]
      have : ¬ (r = x) := by omega
      simp [this]
theorem cp_filter_mem {r : Nat} (b : Bool) (l : List (Nat × Bool)) (h : (r, b) ∈ l) :
    cp r (l.filter (· != (r, b))) + 1 ≤ cp r l := by
  induction l with
  | nil => simp at h
  | cons a t ih =>
    simp only [List.filter]
    split
    · rename_i hne
      have hne' : a ≠ (r, b) := by simpa using hne
      rcases List.mem_cons.mp h with h | h
      · exact absurd h.symm hne'
      · have := ih h; simp only [cp_cons]; omega
    · rename_i heq
      have : a = (r, b) := by simpa using heq
      subst this
      have := cp_filter_le r (· != (r, b)) t
      simp only [cp_cons]; simp; omega
theorem count_filter_ne {x r : Nat} (hx : x ≠ r) (l : List Nat) : (l.filter (· != r)).count x = l.count x := by
  induction l with
  | nil => rfl
  | cons a t ih =>
    simp only [List.filter]
    split
    · simp only [List.count_cons, ih]
    · rename_i h
      have : a = r := by simpa using h
      subst this
      simp only [List.count_cons, ih]
      have : (a == x) = false := by simp; omega
      simp [this]
theorem count_filter_self (r : Nat) (l : List Nat) : (l.filter (· != r)).count r = 0 := by
  induction l with
  | nil => rfl
  | cons a t ih =>
    simp only [List.filter]
    split
    · rename_i h
      have : (a == r) = false := by simpa using h
      simp only [List.count_cons, ih, this]; simp
    · exact ih

/-! ### functions that move or add holders -/
theorem cnt_modH {s : State} {id : Nat} {h : Handle} (g : Handle → Handle) (hg : ∀ h, (g h).id = h.id)
    (hf : getH s id = some h) (e : Option Nat) (x : Nat) :
    cnt e x (modH s id g) + hcK e x h = cnt e x s + hcK e x (g h) := by
  have := hcnt_updH g hg hf e x
  show wcnt x s + hcnt e x (updH s.handles id g) + _ = _
  simp only [cnt]
  omega

theorem modH_none {s : State} {id : Nat} (g : Handle → Handle) (hf : getH s id = none) : modH s id g = s := by
  simp only [modH, updH_none g hf]

/-- a `modH` that keeps ar/reqs/nextReq and does not increase the record's contribution -/
theorem modH_rle (s : State) (id : Nat) (g : Handle → Handle) (hg : ∀ h, (g h).id = h.id)
    (hk : ∀ e x h, hcK e x (g h) ≤ hcK e x h) : RLe s (modH s id g) := by
  refine ⟨rfl, rfl, rfl, ?_⟩
  intro e x
  cases hf : getH s id with
  | none => rw [modH_none g hf]; exact Nat.le_refl _
  | some h => have := cnt_modH g hg hf e x; have := hk e x h; omega

theorem addHandle_rle (s : State) (k : Kind) : RLe s (addHandle s k) := by
  refine ⟨rfl, rfl, rfl, ?_⟩
  intro e x
  simp only [cnt, addHandle, wcnt]
  rw [hcnt_append_empty _ _ rfl rfl rfl]
  exact Nat.le_refl _

theorem initH_rle (s : State) (k : Kind) : RLe s (initH s k) := by
  unfold initH
  simp only
  have ha := addHandle_rle s k
  cases k with
  | timer => exact ha.trans (RLe.of_rq rfl)
  | async => exact ha.trans (RLe.of_rq rfl)
  | poll => exact ha.trans (RLe.of_rq (rq_modH _ _ _ (fun _ => rfl)))
  | _ => exact ha

theorem udpSendmsg_rle (s : State) (id : Nat) : RLe s (udpSendmsg s id) := by
  unfold udpSendmsg
  split
  · exact RLe.refl _
  · split
    · exact RLe.refl _
    · simp only
      refine (modH_rle s id (fun h => { h with wcq := h.wcq ++ h.wq.map (fun r => (r, (1 : Int))), wq := [] })
        (fun _ => rfl) ?_).trans (RLe.of_rq (by simp))
      intro e x h
      simp only [hcK, hcW, hcC, cp_append, cp_map_pair, List.count_nil]
      split <;> omega

theorem udpSendKick_rle (s : State) (id : Nat) (a b : Bool) : RLe s (udpSendKick s id a b) := by
  unfold udpSendKick
  split
  · simp only
    split
    · exact udpSendmsg_rle s id
    · split
      · exact (udpSendmsg_rle s id).trans (RLe.of_rq (by simp))
      · exact udpSendmsg_rle s id
  · exact RLe.of_rq (by simp)

theorem udpSendEnqueue_rinv {e : Option Nat} (s : State) (id : Nat) (hi : RInv e s) : RInv e (udpSendEnqueue s id) := by
  refine RInv.register (.udpSend id) hi rfl rfl rfl ?_
  intro x
  unfold udpSendEnqueue
  simp only
  generalize hs1 : ({ s with ar := reqRegister s.ar, reqs := s.reqs ++ [({ id := s.nextReq, kind := .udpSend id } : Req)], nextReq := s.nextReq + 1 } : State) = s1
  have h1 : cnt e x s1 = cnt e x s := by subst hs1; rfl
  cases hf : getH s1 id with
  | none => rw [modH_none _ hf, h1]; omega
  | some h =>
    have := cnt_modH (fun h => { h with io := { h.io with hasFd := true }, sqc := h.sqc + 1, wq := h.wq ++ [s.nextReq] })
      (fun _ => rfl) hf e x
    simp only [hcK, hcW, hcC, List.count_append, List.count_cons, List.count_nil] at this
    have h2 : ((s.nextReq == x) = true) ↔ x = s.nextReq := by simp; omega
    by_cases hx : x = s.nextReq
    · subst hx
      simp only [BEq.rfl, if_true] at this ⊢
      split at this <;> omega
    · have h3 : (s.nextReq == x) = false := by simp; omega
      simp only [h3, hx, if_false] at this ⊢
      split at this <;> simp at this <;> omega

theorem udpSend_rinv {e : Option Nat} (s : State) (id : Nat) (hi : RInv e s) : RInv e (udpSend s id) := by
  unfold udpSend
  split
  · exact hi
  · refine (udpSendKick_rle _ _ _ _).inv ?_
    exact RInv.of_rq (s := udpSendEnqueue s id) (by simp) (udpSendEnqueue_rinv s id hi)

theorem pipeConnectBad_rinv {e : Option Nat} (s : State) (id : Nat) (hi : RInv e s)
    (hn : ∀ h, getH s id = some h → h.connReq = none) : RInv e (pipeConnectBad s id) := by
  unfold pipeConnectBad
  simp only
  refine RInv.of_rq (rq_ioFeed _ _) ?_
  refine RInv.register (.connect id) hi rfl rfl rfl ?_
  intro x
  generalize hs1 : ({ s with ar := reqRegister s.ar, reqs := s.reqs ++ [({ id := s.nextReq, kind := .connect id } : Req)], nextReq := s.nextReq + 1 } : State) = s1
  have h1 : cnt e x s1 = cnt e x s := by subst hs1; rfl
  have h0 : getH s1 id = getH s id := by subst hs1; rfl
  cases hf : getH s1 id with
  | none => rw [modH_none _ hf, h1]; omega
  | some h =>
    have hc := hn h (by rw [← h0, hf])
    have := cnt_modH (fun h => { h with connReq := some s.nextReq }) (fun _ => rfl) hf e x
    simp only [hcK, hcW, hcC, hc] at this
    by_cases hx : x = s.nextReq
    · subst hx
      simp only [if_true] at this ⊢
      split at this <;> simp at this <;> omega
    · have h3 : ¬ (s.nextReq = x) := by omega
      simp only [hx, if_false] at this ⊢
      split at this <;> simp [h3] at this <;> omega

theorem workSubmit_rinv {e : Option Nat} (s : State) (api : Api) (hi : RInv e s) : RInv e (workSubmit s api) := by
  have h1 : (workSubmit s api).ar = reqRegister s.ar := by
    unfold workSubmit; simp only; split
    · split
      · rfl
      · have := rq_asyncSend { s with ar := reqRegister s.ar, reqs := s.reqs ++ [({ id := s.nextReq, kind := .work api } : Req)], nextReq := s.nextReq + 1, doneQ := s.doneQ ++ [(s.nextReq, false)] } 1
        simp only [rq, Prod.mk.injEq] at this; exact this.1
    · rfl
  have h2 : (workSubmit s api).reqs = s.reqs ++ [({ id := s.nextReq, kind := .work api } : Req)] := by
    unfold workSubmit; simp only; split
    · split
      · rfl
      · have := rq_asyncSend { s with ar := reqRegister s.ar, reqs := s.reqs ++ [({ id := s.nextReq, kind := .work api } : Req)], nextReq := s.nextReq + 1, doneQ := s.doneQ ++ [(s.nextReq, false)] } 1
        simp only [rq, Prod.mk.injEq] at this; exact this.2.1
    · rfl
  have h3 : (workSubmit s api).nextReq = s.nextReq + 1 := by
    unfold workSubmit; simp only; split
    · split
      · rfl
      · have := rq_asyncSend { s with ar := reqRegister s.ar, reqs := s.reqs ++ [({ id := s.nextReq, kind := .work api } : Req)], nextReq := s.nextReq + 1, doneQ := s.doneQ ++ [(s.nextReq, false)] } 1
        simp only [rq, Prod.mk.injEq] at this; exact this.2.2.1
    · rfl
  refine RInv.register (.work api) hi h1 h2 h3 ?_
  intro x
  unfold workSubmit
  simp only
  split
  · rename_i hr
    split
    · simp only [cnt, wcnt, hr]
      by_cases hx : x = s.nextReq
      · simp [hx]; omega
      · have : ¬ (s.nextReq = x) := by omega
        simp [hx, this]
    · rw [cnt_of_rq (rq_asyncSend _ 1)]
      simp only [cnt, wcnt, hr, cp_append, cp_cons]
      by_cases hx : x = s.nextReq
      · simp [hx, cp]; omega
      · have h' : ¬ (s.nextReq = x) := by omega
        simp [hx, h', cp]
  · rename_i hr
    simp only [cnt, wcnt, hr, List.count_append, List.count_cons, List.count_nil]
    by_cases hx : x = s.nextReq
    · simp [hx]; omega
    · have : (s.nextReq == x) = false := by simp; omega
      simp [hx, this]

@[simp] theorem rq_ringInit (s : State) : rq (ringInit s) = rq s := by
  unfold ringInit; split <;> rfl

theorem ringSubmit_rinv {e : Option Nat} (s : State) (api : Api) (hi : RInv e s) : RInv e (ringSubmit s api) := by
  refine RInv.register (.ring api) hi rfl rfl rfl ?_
  intro x
  show wcnt x (ringSubmit s api) + hcnt e x s.handles ≤ wcnt x s + hcnt e x s.handles + _
  simp only [ringSubmit, wcnt, List.count_append, List.count_cons, List.count_nil]
  by_cases hx : x = s.nextReq
  · simp [hx]; omega
  · have : (s.nextReq == x) = false := by simp; omega
    by_cases hrn : s.running = some x <;> simp [hx, this, hrn]

theorem submit_rinv {e : Option Nat} (s : State) (api : Api) (hi : RInv e s) : RInv e (submit s api) := by
  unfold submit
  simp only
  have hr : RInv e (ringInit s) := RInv.of_rq (rq_ringInit s) hi
  split
  · split
    · exact ringSubmit_rinv _ api hr
    · exact workSubmit_rinv _ api hr
  · exact workSubmit_rinv s api hi

/-- uv__poll_io_uring reading the completion queue: ids move from `ringQ` to `doneLocal` -/
theorem ringTake_rle (s : State) (cq : List Nat) : RLe s (ringTake s cq) := by
  induction cq generalizing s with
  | nil => exact RLe.refl _
  | cons r t ih =>
    rw [ringTake_cons]
    split
    · rename_i hc
      refine RLe.trans ?_ (ih _)
      refine ⟨rfl, rfl, rfl, ?_⟩
      intro e x
      simp only [cnt, wcnt, cp_append, cp_cons]
      by_cases hx : x = r
      · subst hx
        have h2 : 0 < s.ringQ.count x := List.count_pos_iff.mpr (by simpa using hc)
        have h1 : (s.ringQ.erase x).count x = s.ringQ.count x - 1 := List.count_erase_self
        simp [cp, h1]; omega
      · have h1 : (s.ringQ.erase r).count x = s.ringQ.count x := List.count_erase_of_ne hx
        have : ¬ (r = x) := by omega
        simp [cp, h1, this]
    · exact ih s

theorem workCancel_rle (s : State) (r : Nat) : RLe s (workCancel s r).1 := by
  unfold workCancel
  split
  · rename_i hc
    refine RLe.trans ?_ (RLe.of_rq (rq_asyncSend _ 1))
    refine ⟨rfl, rfl, rfl, ?_⟩
    intro e x
    simp only [cnt, wcnt, cp_append, cp_cons]
    by_cases hx : x = r
    · subst hx
      have h1 := count_filter_self x s.poolQ
      have h2 : 0 < s.poolQ.count x := List.count_pos_iff.mpr (by simpa using hc)
      simp [cp, h1]; omega
    · have h1 := count_filter_ne hx s.poolQ
      have : ¬ (r = x) := by omega
      simp [cp, h1, this]
  · split
    · rename_i hc
      refine RLe.trans ?_ (RLe.of_rq (rq_asyncSend _ 1))
      refine ⟨rfl, rfl, rfl, ?_⟩
      intro e x
      simp only [cnt, wcnt, cp_append, cp_cons]
      by_cases hx : x = r
      · subst hx
        have h1 := cp_filter_le x (· != (x, true)) s.doneQ
        have h2 := cp_filter_le x (· != (x, true)) s.doneLocal
        simp only [Bool.or_eq_true, List.contains_iff_mem] at hc
        rcases hc with hc | hc
        · have := cp_filter_mem true s.doneQ hc
          simp [cp] at *; omega
        · have := cp_filter_mem true s.doneLocal hc
          simp [cp] at *; omega
      · have h1 := cp_filter_ne hx true s.doneQ
        have h2 := cp_filter_ne hx true s.doneLocal
        have : ¬ (r = x) := by omega
        simp [cp, this] at *; omega
    · exact RLe.refl _

theorem completeWorks_rle (s : State) (k : Nat) : RLe s (completeWorks s k) := by
  unfold completeWorks
  split
  · exact RLe.refl _
  · simp only
    refine RLe.trans ?_ (RLe.of_rq (rq_asyncSend _ 1))
    refine ⟨rfl, rfl, rfl, ?_⟩
    intro e x
    simp only [cnt, wcnt, cp_append, cp_map_pair]
    generalize hall : s.running.toList ++ s.poolQ = all
    have h1 : all.count x = (if s.running = some x then 1 else 0) + s.poolQ.count x := by
      rw [← hall, List.count_append]
      cases s.running with
      | none => simp
      | some a => simp [List.count_cons]
    have h2 : (all.take k).count x + (all.drop k).count x = all.count x := by
      rw [← List.count_append, List.take_append_drop]
    have h3 : (if (all.drop k).head? = some x then 1 else 0) + (all.drop k).tail.count x = (all.drop k).count x := by
      cases all.drop k with
      | nil => simp
      | cons a t => simp [List.count_cons]; omega
    omega

/-! ### one API call -/
theorem getHF_getH {s : State} {id : Nat} {h : Handle} {f : HFlags} (hg : getHF s id = some (h, f)) :
    getH s id = some h := by
  unfold getHF at hg
  split at hg
  · rename_i h1 h2
    simp only [Option.some.injEq, Prod.mk.injEq] at hg
    rw [h1, hg.1]
  · simp at hg

set_option linter.unusedSimpArgs false in
theorem applyOp_rinv {e : Option Nat} (s : State) (o : Op) (hi : RInv e s) : RInv e (applyOp s o).1 := by
  have hill : RInv e (illegal s).1 := RInv.of_rq (s := s) rfl hi
  unfold applyOp
  split
  · exact hill
  · cases o with
    | init k => exact (initH_rle s k).inv hi
    | udpSend id =>
      simp only
      split
      · split
        · exact udpSend_rinv s id hi
        · exact hill
      · exact hill
    | work api =>
      simp only
      split
      · exact hill
      · exact submit_rinv s api hi
    | connectBad id =>
      simp only
      split
      · rename_i h f hg
        split
        · rename_i hc
          refine pipeConnectBad_rinv s id hi ?_
          intro h' hh'
          rw [getHF_getH hg] at hh'
          cases hh'
          simp only [Bool.and_eq_true] at hc
          simpa using hc.2
        · exact hill
      · exact hill
    | cancel r =>
      simp only
      split
      · have := (workCancel_rle s r).inv hi
        simpa [ok] using this
      · exact hill
    | bind id =>
      simp only
      split
      · split
        · exact RInv.of_rq (s := s) (rq_modH _ _ _ (fun _ => rfl)) hi
        · exact hill
      · exact hill
    | _ =>
      simp only <;> (repeat' split) <;>
        first
        | exact hi
        | exact hill
        | exact RInv.of_rq (s := s) rfl hi
        | exact RInv.of_rq (s := s) (by simp [ok, signalStart, signalStop]) hi

theorem stepOp_rinv {e : Option Nat} (s : State) (o : Op) (hi : RInv e s) : RInv e (stepOp s o) := by
  unfold stepOp
  exact RInv.of_rq (s := (applyOp s o).1) (by simp) (applyOp_rinv s o hi)

theorem foldl_stepOp_rinv {e : Option Nat} (ops : List Op) (s : State) (hi : RInv e s) : RInv e (ops.foldl stepOp s) := by
  induction ops generalizing s with
  | nil => exact hi
  | cons o t ih => exact ih _ (stepOp_rinv s o hi)

end UvModel.Loop.Reqs
