import UvModel.Fault
/-! helper lemmas for C16 (`UvModel.Props.C16`) -/
namespace UvModel.Fault

/-! ### retry loop -/

theorem retryFrom_prefix (f : Nat → Outcome) :
    ∀ (n fuel i : Nat), (∀ j, i ≤ j → j < i + n → (f j).isEintr = true) → (f (i + n)).isEintr = false →
      n < fuel → retryFrom f fuel i = some (i + n, f (i + n)) := by
  intro n
  induction n with
  | zero =>
    intro fuel i _ hend hfuel
    cases fuel with
    | zero => omega
    | succ fuel => simp [retryFrom, Nat.add_zero] at hend ⊢; simp [hend]
  | succ n ih =>
    intro fuel i hpre hend hfuel
    cases fuel with
    | zero => omega
    | succ fuel =>
      have hi : (f i).isEintr = true := hpre i (Nat.le_refl _) (by omega)
      have hrec := ih fuel (i + 1) (fun j h1 h2 => hpre j (by omega) (by omega))
        (by have : i + 1 + n = i + (n + 1) := by omega
            rw [this]; exact hend) (by omega)
      have e : i + 1 + n = i + (n + 1) := by omega
      simp [retryFrom, hi, hrec, e]

theorem retryFrom_some_not_eintr (f : Nat → Outcome) :
    ∀ (fuel i k : Nat) (o : Outcome), retryFrom f fuel i = some (k, o) →
      o = f k ∧ (f k).isEintr = false ∧ i ≤ k ∧ ∀ j, i ≤ j → j < k → (f j).isEintr = true := by
  intro fuel
  induction fuel with
  | zero => intro i k o h; simp [retryFrom] at h
  | succ fuel ih =>
    intro i k o h
    unfold retryFrom at h
    by_cases hi : (f i).isEintr = true
    · simp [hi] at h
      obtain ⟨h1, h2, h3, h4⟩ := ih (i + 1) k o h
      refine ⟨h1, h2, by omega, ?_⟩
      intro j hj1 hj2
      by_cases hji : j = i
      · subst hji; exact hi
      · exact h4 j (by omega) hj2
    · simp [hi] at h
      obtain ⟨rfl, rfl⟩ := h
      refine ⟨rfl, by simpa using hi, Nat.le_refl _, ?_⟩
      intro j h1 h2; omega

theorem retryFrom_terminates (f : Nat → Outcome) :
    ∀ (n i : Nat), (f (i + n)).isEintr = false → (retryFrom f (n + 1) i).isSome = true := by
  intro n
  induction n with
  | zero => intro i h; simp [retryFrom] at h ⊢; simp [h]
  | succ n ih =>
    intro i h
    unfold retryFrom
    by_cases hi : (f i).isEintr = true
    · simp [hi]
      apply ih (i + 1)
      have : i + 1 + n = i + (n + 1) := by omega
      rw [this]; exact h
    · simp [hi]

/-! ### would-block -/

theorem accepts_replicate (n : Nat) : accepts (List.replicate n Resp.accept) = n := by
  induction n with
  | zero => rfl
  | succ n ih => simp [List.replicate_succ, accepts, ih]

theorem runW_spec : ∀ (rs : List Resp) (s : WState),
    (runW s rs).done = s.done ++ s.queue.take (accepts rs) ∧ (runW s rs).queue = s.queue.drop (accepts rs) := by
  intro rs
  induction rs with
  | nil => intro s; simp [runW, accepts]
  | cons r rs ih =>
    intro s
    have hstep : runW s (r :: rs) = runW (attempt s r) rs := by simp [runW]
    rw [hstep]
    obtain ⟨h1, h2⟩ := ih (attempt s r)
    cases r with
    | accept =>
      cases hq : s.queue with
      | nil => simp [attempt, hq, accepts] at h1 h2 ⊢; exact ⟨h1, h2⟩
      | cons q qs => simp [attempt, hq, accepts] at h1 h2 ⊢; exact ⟨h1, h2⟩
    | wouldblock e =>
      cases hq : s.queue with
      | nil => simp [attempt, hq, accepts] at h1 h2 ⊢; exact ⟨h1, h2⟩
      | cons q qs => simp [attempt, hq, accepts] at h1 h2 ⊢; exact ⟨h1, h2⟩

theorem attempt_pending_armed (s : WState) (r : Resp) : (attempt s r).queue ≠ [] → (attempt s r).pollout = true := by
  cases r <;> cases hq : s.queue <;> simp [attempt, hq]

/-! ### accounting vectors -/

@[simp] theorem D.add_reqs (a b : D) : (a + b).reqs = a.reqs + b.reqs := rfl
@[simp] theorem D.add_mem (a b : D) : (a + b).mem = a.mem + b.mem := rfl
@[simp] theorem D.add_fds (a b : D) : (a + b).fds = a.fds + b.fds := rfl
@[simp] theorem D.add_handles (a b : D) : (a + b).handles = a.handles + b.handles := rfl
@[simp] theorem D.add_queued (a b : D) : (a + b).queued = a.queued + b.queued := rfl
@[simp] theorem D.add_watches (a b : D) : (a + b).watches = a.watches + b.watches := rfl
@[simp] theorem D.neg_reqs (a : D) : (-a).reqs = -a.reqs := rfl
@[simp] theorem D.neg_mem (a : D) : (-a).mem = -a.mem := rfl
@[simp] theorem D.neg_fds (a : D) : (-a).fds = -a.fds := rfl
@[simp] theorem D.neg_handles (a : D) : (-a).handles = -a.handles := rfl
@[simp] theorem D.neg_queued (a : D) : (-a).queued = -a.queued := rfl
@[simp] theorem D.neg_watches (a : D) : (-a).watches = -a.watches := rfl
@[simp] theorem D.zero_reqs : D.zero.reqs = 0 := rfl
@[simp] theorem D.zero_mem : D.zero.mem = 0 := rfl
@[simp] theorem D.zero_fds : D.zero.fds = 0 := rfl
@[simp] theorem D.zero_handles : D.zero.handles = 0 := rfl
@[simp] theorem D.zero_queued : D.zero.queued = 0 := rfl
@[simp] theorem D.zero_watches : D.zero.watches = 0 := rfl

/-- equalities between accounting vectors: componentwise linear arithmetic -/
macro "d_arith" : tactic => `(tactic| (apply D.ext <;> simp <;> omega))

theorem D.add_assoc (a b c : D) : a + b + c = a + (b + c) := by d_arith
theorem D.add_zero (a : D) : a + D.zero = a := by d_arith
theorem D.zero_add (a : D) : D.zero + a = a := by d_arith
theorem D.add_comm (a b : D) : a + b = b + a := by d_arith
theorem D.add_neg_cancel (a b : D) : a + b + -b = a := by d_arith

theorem net_append (a b : List Eff) : net (a ++ b) = net a + net b := by
  induction a with
  | nil => simp [net, D.zero_add]
  | cons e es ih => simp [net, ih, D.add_assoc]

theorem net_rep_fdClose (n : Nat) : net (rep n .fdClose) = ⟨0, 0, -(n : Int), 0, 0, 0⟩ := by
  induction n with
  | zero => rfl
  | succ n ih =>
    simp only [rep, List.replicate_succ, net] at ih ⊢
    rw [ih]; apply D.ext <;> simp [Eff.delta] <;> omega

theorem net_rep_free (n : Nat) : net (rep n .free) = ⟨0, -(n : Int), 0, 0, 0, 0⟩ := by
  induction n with
  | zero => rfl
  | succ n ih =>
    simp only [rep, List.replicate_succ, net] at ih ⊢
    rw [ih]; apply D.ext <;> simp [Eff.delta] <;> omega

/-! ### operations -/

theorem runFrom_none_total : ∀ (op : Op) (st : D), runFrom op st none = (st + total op, 0) := by
  intro op
  induction op with
  | nil => intro st; simp [runFrom, total, D.add_zero]
  | cons s rest ih =>
    intro st
    cases hs : s.fault <;> simp [runFrom, hs, total, ih, D.add_assoc]

theorem balancedFrom_append : ∀ (a b : Op) (acc : D),
    balancedFrom acc (a ++ b) = (balancedFrom acc a && balancedFrom (acc + total a) b) := by
  intro a
  induction a with
  | nil => intro b acc; simp [balancedFrom, total, D.add_zero]
  | cons s rest ih => intro b acc; simp [balancedFrom, total, ih, D.add_assoc, Bool.and_assoc]

/-- the core of `fault_atomic`: under a balanced program any single fault either does not fire (success with
the fault-free effect) or returns the mapped error with the state the operation started from -/
theorem runFrom_atomic : ∀ (op : Op) (acc st0 : D) (k e : Nat), balancedFrom acc op = true →
    ((runFrom op (st0 + acc) (some (k, e))).2 = 0 ∧
       (runFrom op (st0 + acc) (some (k, e))).1 = (runFrom op (st0 + acc) none).1) ∨
    ((runFrom op (st0 + acc) (some (k, e))).1 = st0 ∧
       ∃ kind, (runFrom op (st0 + acc) (some (k, e))).2 = errCode kind e) := by
  intro op
  induction op with
  | nil => intro acc st0 k e _; left; simp [runFrom]
  | cons s rest ih =>
    intro acc st0 k e hb
    simp only [balancedFrom, Bool.and_eq_true, Bool.or_eq_true, decide_eq_true_eq] at hb
    obtain ⟨hs, hrest⟩ := hb
    cases hf : s.fault with
    | none =>
      have := ih (acc + net s.eff) st0 k e hrest
      simpa [runFrom, hf, D.add_assoc] using this
    | some kind =>
      cases k with
      | zero =>
        right
        have hz : acc + net s.undo = D.zero := by
          cases hs with
          | inl h => simp [hf] at h
          | inr h => exact h
        refine ⟨?_, kind, ?_⟩
        · simp [runFrom, hf, D.add_assoc, hz, D.add_zero]
        · simp [runFrom, hf]
      | succ k =>
        have := ih (acc + net s.eff) st0 k e hrest
        simpa [runFrom, hf, D.add_assoc] using this

theorem errCode_neg (kind : FaultKind) (e : Nat) (he : 0 < e) : errCode kind e < 0 := by
  cases kind <;> simp [errCode, ENOMEM] <;> omega

/-! ### loops inside operations -/

theorem total_append (a b : Op) : total (a ++ b) = total a + total b := by
  induction a with
  | nil => simp [total, D.zero_add]
  | cons s rest ih => simp [total, ih, D.add_assoc]

theorem spawnPairs_balanced (heap : Bool) : ∀ (n i : Nat) (tail : Op),
    balancedFrom ⟨0, (if heap then 1 else 0), 2 * (i : Int), 0, 0, 0⟩ (spawnPairs heap n i ++ tail) =
    balancedFrom ⟨0, (if heap then 1 else 0), 2 * ((i + n : Nat) : Int), 0, 0, 0⟩ tail := by
  intro n
  induction n with
  | zero => intro i tail; simp [spawnPairs]
  | succ n ih =>
    intro i tail
    have hundo : (⟨0, (if heap then 1 else 0), 2 * (i : Int), 0, 0, 0⟩ : D) +
        net (rep (2 * i) .fdClose ++ (if heap then [Eff.free] else [])) = D.zero := by
      rw [net_append, net_rep_fdClose]
      cases heap <;> (apply D.ext <;> simp [net, Eff.delta] <;> omega)
    have hacc : (⟨0, (if heap then 1 else 0), 2 * (i : Int), 0, 0, 0⟩ : D) + net [Eff.fdOpen, Eff.fdOpen] =
        ⟨0, (if heap then 1 else 0), 2 * ((i + 1 : Nat) : Int), 0, 0, 0⟩ := by
      apply D.ext <;> simp [net, Eff.delta] <;> omega
    have hidx : i + 1 + n = i + (n + 1) := by omega
    simp only [spawnPairs, List.cons_append, balancedFrom, hundo, hacc, ih (i + 1) tail, hidx]
    simp

theorem environCopies_balanced : ∀ (n i : Nat),
    balancedFrom ⟨0, 1 + (i : Int), 0, 0, 0, 0⟩ (environCopies n i) = true := by
  intro n
  induction n with
  | zero => intro i; simp [environCopies, balancedFrom]
  | succ n ih =>
    intro i
    have hundo : (⟨0, 1 + (i : Int), 0, 0, 0, 0⟩ : D) + net (rep i .free ++ [Eff.free]) = D.zero := by
      rw [net_append, net_rep_free]
      apply D.ext <;> simp [net, Eff.delta] <;> omega
    have hacc : (⟨0, 1 + (i : Int), 0, 0, 0, 0⟩ : D) + net [Eff.alloc] = ⟨0, 1 + ((i + 1 : Nat) : Int), 0, 0, 0, 0⟩ := by
      apply D.ext <;> simp [net, Eff.delta] <;> omega
    simp only [environCopies, balancedFrom, hundo, hacc, ih (i + 1)]
    simp

theorem runFrom_append_skip : ∀ (a b : Op) (st : D) (k e : Nat), nFaultPoints a ≤ k →
    runFrom (a ++ b) st (some (k, e)) = runFrom b (st + total a) (some (k - nFaultPoints a, e)) := by
  intro a
  induction a with
  | nil => intro b st k e _; simp [total, nFaultPoints, D.add_zero]
  | cons s rest ih =>
    intro b st k e hk
    cases hf : s.fault with
    | none =>
      simp only [nFaultPoints, hf, Option.isSome_none, Bool.false_eq_true, if_false, Nat.zero_add] at hk ⊢
      simp only [List.cons_append, runFrom, hf, total, ih b _ k e hk, D.add_assoc]
    | some kind =>
      simp only [nFaultPoints, hf, Option.isSome_some, if_true] at hk ⊢
      cases k with
      | zero => omega
      | succ k =>
        have hk' : nFaultPoints rest ≤ k := by omega
        have e1 : k + 1 - (1 + nFaultPoints rest) = k - nFaultPoints rest := by omega
        simp only [List.cons_append, runFrom, hf, total, ih b _ k e hk', D.add_assoc, e1]

theorem spawnPairs_total (heap : Bool) : ∀ (n i : Nat),
    total (spawnPairs heap n i) = ⟨0, 0, 2 * (n : Int), 0, 0, 0⟩ ∧ nFaultPoints (spawnPairs heap n i) = n := by
  intro n
  induction n with
  | zero => intro i; exact ⟨rfl, rfl⟩
  | succ n ih =>
    intro i
    obtain ⟨h1, h2⟩ := ih (i + 1)
    refine ⟨?_, ?_⟩
    · simp only [spawnPairs, total, h1]; apply D.ext <;> simp [net, Eff.delta] <;> omega
    · simp only [spawnPairs, nFaultPoints, h2, Option.isSome_some, if_true]; omega

/-! ### sequences -/

theorem sumD_eraseIdx : ∀ (l : List D) (i : Nat) (d : D), l[i]? = some d → sumD l = d + sumD (l.eraseIdx i) := by
  intro l
  induction l with
  | nil => intro i d h; simp at h
  | cons x xs ih =>
    intro i d h
    cases i with
    | zero => simp at h; subst h; simp [sumD, List.eraseIdx]
    | succ i =>
      simp at h
      have := ih i d h
      simp only [sumD, List.eraseIdx, this]
      d_arith

end UvModel.Fault
