import UvModel.Lemmas.LoopTrace
import UvModel.Lemmas.LoopRunInv
namespace UvModel.Loop
open UvModel.HandleKernels

/-! ### handle records: ids and the request-carrying part -/
def hids (s : State) : List Nat := s.handles.map (·.id)

/-- the part of a handle record that carries requests (and its kind) -/
abbrev HQ := Kind × List Nat × List (Nat × Int) × Option Nat
def qOf (h : Handle) : HQ := (h.kind, h.wq, h.wcq, h.connReq)
def hq (s : State) (id : Nat) : Option HQ := (getH s id).map qOf

theorem getH_isSome_iff (s : State) (id : Nat) : (getH s id).isSome ↔ id ∈ hids s := by
  simp only [getH, hids, List.find?_isSome, List.mem_map]
  constructor
  · rintro ⟨h, hm, he⟩; exact ⟨h, hm, by simpa using he⟩
  · rintro ⟨h, hm, he⟩; exact ⟨h, hm, by simpa using he⟩

theorem getH_some_mem {s : State} {id : Nat} {h : Handle} (hg : getH s id = some h) : id ∈ hids s :=
  (getH_isSome_iff s id).mp (by simp [hg])

theorem getH_none_iff (s : State) (id : Nat) : getH s id = none ↔ id ∉ hids s := by
  rw [← getH_isSome_iff]; cases getH s id <;> simp

theorem getH_id {s : State} {id : Nat} {h : Handle} (hg : getH s id = some h) : h.id = id := by
  have := List.find?_some hg
  simpa using this

theorem map_id_updH (hs : List Handle) (id : Nat) (g : Handle → Handle) (hg : ∀ h, (g h).id = h.id) :
    (updH hs id g).map (·.id) = hs.map (·.id) := by
  induction hs with
  | nil => rfl
  | cons x t ih =>
    simp only [updH]
    split
    · simp [hg]
    · simp [ih]

theorem find_updH_ne (hs : List Handle) (id id' : Nat) (g : Handle → Handle) (hg : ∀ h, (g h).id = h.id)
    (hne : id' ≠ id) : (updH hs id g).find? (·.id == id') = hs.find? (·.id == id') := by
  induction hs with
  | nil => rfl
  | cons x t ih =>
    simp only [updH]
    split
    · rename_i hx
      have hx' : x.id = id := by simpa using hx
      have : (x.id == id') = false := by simp [hx']; omega
      simp [List.find?, hg, this]
    · simp only [List.find?, ih]

theorem find_updH_same (hs : List Handle) (id : Nat) (g : Handle → Handle) (hg : ∀ h, (g h).id = h.id) :
    (updH hs id g).find? (·.id == id) = (hs.find? (·.id == id)).map g := by
  induction hs with
  | nil => rfl
  | cons x t ih =>
    simp only [updH]
    split
    · rename_i hx
      simp [List.find?, hg, hx]
    · rename_i hx
      have : (x.id == id) = false := by simpa using hx
      simp only [List.find?, this, ih]

@[simp] theorem hids_modH (s : State) (id : Nat) (g : Handle → Handle) (hg : ∀ h, (g h).id = h.id) :
    hids (modH s id g) = hids s := map_id_updH _ _ _ hg

theorem getH_modH_ne (s : State) (id id' : Nat) (g : Handle → Handle) (hg : ∀ h, (g h).id = h.id) (hne : id' ≠ id) :
    getH (modH s id g) id' = getH s id' := find_updH_ne _ _ _ _ hg hne

theorem getH_modH_same (s : State) (id : Nat) (g : Handle → Handle) (hg : ∀ h, (g h).id = h.id) :
    getH (modH s id g) id = (getH s id).map g := find_updH_same _ _ _ hg

theorem hq_modH_ne (s : State) (id id' : Nat) (g : Handle → Handle) (hg : ∀ h, (g h).id = h.id) (hne : id' ≠ id) :
    hq (modH s id g) id' = hq s id' := by simp [hq, getH_modH_ne _ _ _ _ hg hne]

/-- a record update that leaves id, kind and the request queues alone -/
theorem hq_modH_q (s : State) (id id' : Nat) (g : Handle → Handle) (hg : ∀ h, (g h).id = h.id)
    (hgq : ∀ h, qOf (g h) = qOf h) : hq (modH s id g) id' = hq s id' := by
  by_cases hne : id' = id
  · subst hne
    simp only [hq, getH_modH_same _ _ _ hg, Option.map_map]
    congr 1; funext h; exact hgq h
  · exact hq_modH_ne _ _ _ _ hg hne

/-! ### flags: CLOSING is never cleared, records never vanish (outside uv__finish_close) -/
def KMono (c c' : Core) : Prop :=
  ∀ id f, c.get id = some f → ∃ f', c'.get id = some f' ∧ (f.closing = true → f'.closing = true)

theorem KMono.refl (c : Core) : KMono c c := fun _ f h => ⟨f, h, id⟩
theorem KMono.trans {a b c : Core} (h1 : KMono a b) (h2 : KMono b c) : KMono a c := by
  intro id f hf
  obtain ⟨f1, hf1, m1⟩ := h1 id f hf
  obtain ⟨f2, hf2, m2⟩ := h2 id f1 hf1
  exact ⟨f2, hf2, fun h => m2 (m1 h)⟩

theorem lookF_updF_ne (fl : List (Nat × HFlags)) (id id' : Nat) (f' : HFlags) (hne : id' ≠ id) :
    lookF (updF fl id f') id' = lookF fl id' := by
  induction fl with
  | nil => rfl
  | cons e t ih =>
    simp only [updF]
    split
    · rename_i he
      have he' : e.1 = id := by simpa using he
      have h1 : (id == id') = false := by simp; omega
      have h2 : (e.1 == id') = false := by simp [he']; omega
      simp [lookF, h1, h2]
    · simp only [lookF, ih]

def ClMono (k : HK → HK) : Prop := ∀ x : HK, x.closing = true → (k x).closing = true

theorem KMono.apply (c : Core) (id : Nat) (k : HK → HK) (hk : ClMono k) : KMono c (c.apply id k) := by
  intro id' f hf
  unfold Core.apply
  cases hg : c.get id with
  | none => exact ⟨f, hf, fun h => h⟩
  | some f0 =>
    simp only
    by_cases hne : id' = id
    · subst hne
      have hff : f0 = f := by rw [hg] at hf; exact Option.some.inj hf
      subst hff
      refine ⟨ofHK (k (toHK f0 c.ah)), ?_, ?_⟩
      · simpa [Core.get] using get_updF_same c.fl id' f0 _ (by simpa [Core.get] using hg)
      · intro h; exact hk _ h
    · refine ⟨f, ?_, fun h => h⟩
      simp only [Core.get] at hf ⊢
      rw [lookF_updF_ne _ _ _ _ hne]; exact hf

theorem lookF_append_some {fl : List (Nat × HFlags)} {id : Nat} {f : HFlags} (h : lookF fl id = some f)
    (l2 : List (Nat × HFlags)) : lookF (fl ++ l2) id = some f := by
  induction fl with
  | nil => simp [lookF] at h
  | cons e t ih =>
    simp only [lookF, List.cons_append] at h ⊢
    split
    · rename_i he; simpa [he] using h
    · rename_i he; simp only [he, Bool.false_eq_true, if_false] at h; exact ih h

theorem KMono.add (c : Core) (id : Nat) : KMono c (c.add id) := by
  intro id' f hf
  exact ⟨f, by simpa [Core.add, Core.get] using lookF_append_some (by simpa [Core.get] using hf) _, fun h => h⟩

theorem clMono_start : ClMono handleStart := by
  intro x h; unfold handleStart; split; · exact h
  simp only; split <;> exact h
theorem clMono_stop : ClMono handleStop := by
  intro x h; unfold handleStop; split; · exact h
  simp only; split <;> exact h
theorem clMono_ref : ClMono handleRef := by
  intro x h; unfold handleRef; split; · exact h
  simp only [h, if_true]
theorem clMono_unref : ClMono handleUnref := by
  intro x h; unfold handleUnref; split; · exact h
  simp only [h, if_true]
theorem clMono_setClosing : ClMono setClosing := fun _ _ => rfl
theorem clMono_setClosed : ClMono setClosed := fun _ h => h
theorem clMono_setInternal : ClMono setInternal := fun _ h => h


/-! ### `Keep`: what every step outside `uv_close` / `uv__finish_close` does to the close bookkeeping -/
structure Keep (s s' : State) : Prop where
  closing : s'.closing = s.closing
  closingLocal : s'.closingLocal = s.closingLocal
  halted : s'.halted = s.halted
  nextId : s.nextId ≤ s'.nextId
  hnew : ∀ id ∈ hids s', id ∈ hids s ∨ s.nextId ≤ id
  hold : ∀ id ∈ hids s, id ∈ hids s'
  flags : KMono s.c s'.c

theorem Keep.refl (s : State) : Keep s s :=
  ⟨rfl, rfl, rfl, Nat.le_refl _, fun _ h => Or.inl h, fun _ h => h, KMono.refl _⟩

theorem Keep.trans {a b c : State} (h1 : Keep a b) (h2 : Keep b c) : Keep a c where
  closing := h2.closing.trans h1.closing
  closingLocal := h2.closingLocal.trans h1.closingLocal
  halted := h2.halted.trans h1.halted
  nextId := Nat.le_trans h1.nextId h2.nextId
  hnew := by
    intro id hid
    rcases h2.hnew id hid with h | h
    · exact h1.hnew id h
    · exact Or.inr (Nat.le_trans h1.nextId h)
  hold := fun id h => h2.hold id (h1.hold id h)
  flags := h1.flags.trans h2.flags

/-- request queues of all already existing handles are untouched -/
def HQAll (s s' : State) : Prop := ∀ id ∈ hids s, hq s' id = hq s id
/-- … of all existing handles except `j` -/
def HQNe (j : Nat) (s s' : State) : Prop := ∀ id ∈ hids s, id ≠ j → hq s' id = hq s id

def KeepQ (s s' : State) : Prop := Keep s s' ∧ HQAll s s'
def KeepN (j : Nat) (s s' : State) : Prop := Keep s s' ∧ HQNe j s s'

theorem KeepQ.refl (s : State) : KeepQ s s := ⟨Keep.refl s, fun _ _ => rfl⟩
theorem KeepQ.trans {a b c : State} (h1 : KeepQ a b) (h2 : KeepQ b c) : KeepQ a c :=
  ⟨h1.1.trans h2.1, fun id hid => (h2.2 id (h1.1.hold id hid)).trans (h1.2 id hid)⟩
theorem KeepQ.toN {s s' : State} (j : Nat) (h : KeepQ s s') : KeepN j s s' := ⟨h.1, fun id hid _ => h.2 id hid⟩
theorem KeepN.refl (j : Nat) (s : State) : KeepN j s s := (KeepQ.refl s).toN j
theorem KeepN.trans {j : Nat} {a b c : State} (h1 : KeepN j a b) (h2 : KeepN j b c) : KeepN j a c :=
  ⟨h1.1.trans h2.1, fun id hid hne => (h2.2 id (h1.1.hold id hid) hne).trans (h1.2 id hid hne)⟩

/-! ### auxiliary functions: the projection `kp` is unchanged -/
def qq (h : Handle) : Nat × HQ := (h.id, qOf h)
def kp (s : State) := (s.c, s.nextId, s.handles.map qq, s.closing, s.closingLocal, s.halted)

theorem hids_eq_kp (s : State) : hids s = (s.handles.map qq).map (·.1) := by
  simp [hids, qq, List.map_map, Function.comp_def]

theorem hq_eq_kp (s : State) (id : Nat) : hq s id = ((s.handles.map qq).find? (·.1 == id)).map (·.2) := by
  simp only [hq, getH, List.find?_map, Option.map_map]
  rfl

theorem KeepQ.of_kp {s s' : State} (h : kp s' = kp s) : KeepQ s s' := by
  simp only [kp, Prod.mk.injEq] at h
  obtain ⟨hc, hn, hh, hcl, hcll, hha⟩ := h
  have hi : hids s' = hids s := by rw [hids_eq_kp, hids_eq_kp, hh]
  refine ⟨⟨hcl, hcll, hha, by omega, fun id hid => Or.inl (hi ▸ hid), fun id hid => hi ▸ hid, hc ▸ KMono.refl _⟩, ?_⟩
  intro id _
  rw [hq_eq_kp, hq_eq_kp, hh]

theorem map_updH {β : Type} (F : Handle → β) (hs : List Handle) (id : Nat) (g : Handle → Handle) (hg : ∀ h, F (g h) = F h) :
    (updH hs id g).map F = hs.map F := by
  induction hs with
  | nil => rfl
  | cons x t ih =>
    simp only [updH]
    split
    · simp [hg]
    · simp [ih]

theorem kp_modH (s : State) (id : Nat) (g : Handle → Handle) (hg : ∀ h, qq (g h) = qq h) : kp (modH s id g) = kp s := by
  simp only [kp, modH, map_updH qq _ _ _ hg]

@[simp] theorem kp_setIo (s : State) (w : W) (io : IoW) : kp (setIo s w io) = kp s := by
  cases w
  · rfl
  · rfl
  · rfl
  · exact kp_modH _ _ _ (fun _ => rfl)
@[simp] theorem kp_ioStart (s : State) (w : W) (ev : Nat) : kp (ioStart s w ev) = kp s := by
  unfold ioStart; simp only
  split
  · simp
  · split
    · simp
    · exact Eq.trans rfl (kp_setIo s w { getIo s w with pevents := (getIo s w).pevents ||| ev })
@[simp] theorem kp_ioStop (s : State) (w : W) (ev : Nat) : kp (ioStop s w ev) = kp s := by
  unfold ioStop; simp only
  split; · rfl
  split
  · exact Eq.trans rfl (kp_setIo s w { getIo s w with pevents := 0, events := 0 })
  · split
    · simp
    · exact Eq.trans rfl (kp_setIo s w { getIo s w with pevents := clearBits (getIo s w).pevents ev })
@[simp] theorem kp_invalidate (s : State) (id : Nat) : kp (invalidate s id) = kp s := rfl
@[simp] theorem kp_ioClose (s : State) (id : Nat) : kp (ioClose s id) = kp s := by
  unfold ioClose; simp only
  split
  · exact Eq.trans rfl (kp_ioStop s (.h id) POLLALL)
  · exact Eq.trans rfl (kp_ioStop s (.h id) POLLALL)
@[simp] theorem kp_ioFeed (s : State) (id : Nat) : kp (ioFeed s id) = kp s := by
  unfold ioFeed; split <;> rfl
@[simp] theorem kp_updateTime (s : State) : kp (updateTime s) = kp s := rfl
@[simp] theorem kp_asyncSend (s : State) (id : Nat) : kp (asyncSend s id) = kp s := by
  unfold asyncSend; split; · rfl
  split
  · rfl
  · exact kp_modH _ _ _ (fun _ => rfl)
@[simp] theorem kp_initInotify (s : State) : kp (initInotify s) = kp s := by
  unfold initInotify; split; · rfl
  rw [kp_ioStart]; rfl
@[simp] theorem kp_completeWorks (s : State) (k : Nat) : kp (completeWorks s k) = kp s := by
  unfold completeWorks; split; · rfl
  simp only; rw [kp_asyncSend]; rfl
@[simp] theorem kp_workSubmit (s : State) (api : Api) : kp (workSubmit s api) = kp s := by
  unfold workSubmit; simp only; split
  · split
    · rfl
    · rw [kp_asyncSend]; rfl
  · rfl
@[simp] theorem kp_ringInit (s : State) : kp (ringInit s) = kp s := by
  unfold ringInit; split <;> rfl
@[simp] theorem kp_submit (s : State) (api : Api) : kp (submit s api) = kp s := by
  unfold submit; simp only; split
  · split
    · unfold ringSubmit; simp only; exact kp_ringInit s
    · rw [kp_workSubmit, kp_ringInit]
  · rw [kp_workSubmit]
@[simp] theorem kp_workCancel (s : State) (r : Nat) : kp (workCancel s r).1 = kp s := by
  unfold workCancel; split
  · simp only; rw [kp_asyncSend]; rfl
  · split
    · simp only; rw [kp_asyncSend]; rfl
    · rfl
@[simp] theorem kp_emit (s : State) (e : Event) : kp (emit s e) = kp s := by
  unfold emit; split <;> rfl
@[simp] theorem kp_emitObs (s : State) : kp (emitObs s) = kp s := by simp [emitObs]
@[simp] theorem kp_setWList (s : State) (k : WKind) (l : List Nat) : kp (setWList s k l) = kp s := by
  cases k <;> rfl
@[simp] theorem kp_flushWatchers (s : State) : kp (flushWatchers s) = kp s := by
  unfold flushWatchers
  have : ∀ (l : List W) (s : State), kp (l.foldl (fun s w => let io := getIo s w; setIo s w { io with events := io.pevents }) s) = kp s := by
    intro l; induction l with
    | nil => intro s; rfl
    | cons w t ih => intro s; simp only [List.foldl]; rw [ih]; simp
  exact Eq.trans rfl (this s.watcherQ s)


/-! ### kernel applications and record updates -/
theorem KeepQ.kp_left {a a' b : State} (h : kp a' = kp a) (h2 : KeepQ a' b) : KeepQ a b := (KeepQ.of_kp h).trans h2
theorem KeepN.kp_left {j : Nat} {a a' b : State} (h : kp a' = kp a) (h2 : KeepN j a' b) : KeepN j a b :=
  ((KeepQ.of_kp h).toN j).trans h2
theorem KeepN.kp_right {j : Nat} {a b b' : State} (h2 : KeepN j a b) (h : kp b' = kp b) : KeepN j a b' :=
  h2.trans ((KeepQ.of_kp h).toN j)
theorem KeepQ.kp_right {a b b' : State} (h2 : KeepQ a b) (h : kp b' = kp b) : KeepQ a b' :=
  h2.trans (KeepQ.of_kp h)

theorem keepQ_withKernel (s : State) (id : Nat) (k : HK → HK) (hk : ClMono k) : KeepQ s (withKernel s id k) :=
  ⟨⟨rfl, rfl, rfl, Nat.le_refl _, fun _ h => Or.inl h, fun _ h => h, KMono.apply _ _ _ hk⟩, fun _ _ => rfl⟩

theorem keepQ_hStart (s : State) (id : Nat) : KeepQ s (hStart s id) := keepQ_withKernel _ _ _ clMono_start
theorem keepQ_hStop (s : State) (id : Nat) : KeepQ s (hStop s id) := keepQ_withKernel _ _ _ clMono_stop

/-- any record update of handle `id` (ids are never rewritten) -/
theorem keepN_modH (s : State) (id : Nat) (g : Handle → Handle) (hg : ∀ h, (g h).id = h.id) : KeepN id s (modH s id g) :=
  ⟨⟨rfl, rfl, rfl, Nat.le_refl _, fun i h => Or.inl (by rw [hids_modH _ _ _ hg] at h; exact h),
    fun i h => by rw [hids_modH _ _ _ hg]; exact h, KMono.refl _⟩,
   fun i _ hne => hq_modH_ne _ _ _ _ hg hne⟩

theorem keepQ_timerStop (s : State) (id : Nat) : KeepQ s (timerStop s id) :=
  KeepQ.kp_left (a' := { s with tm := Timer.stop s.tm id }) rfl (keepQ_hStop _ _)

theorem keepQ_timerStart (s : State) (id a b : Nat) : KeepQ s (timerStart s id a b).1 := by
  unfold timerStart
  split
  · exact KeepQ.refl _
  · simp only
    split
    · exact KeepQ.refl _
    · exact (keepQ_hStop s id).trans
        (KeepQ.kp_left (a' := { hStop s id with tm := (Timer.start s.tm id a b).1 }) rfl (keepQ_hStart _ _))

theorem keepQ_timerAgain (s : State) (id : Nat) : KeepQ s (timerAgain s id).1 := by
  unfold timerAgain
  simp only
  split
  · exact KeepQ.refl _
  · split
    · exact (keepQ_timerStop s id).trans (keepQ_timerStart _ _ _ _)
    · exact KeepQ.refl _

theorem keepQ_watcherStart (s : State) (k : WKind) (id : Nat) : KeepQ s (watcherStart s k id) := by
  unfold watcherStart
  split
  · exact KeepQ.refl _
  · exact KeepQ.kp_left (a' := setWList s k (id :: wList s k)) (by simp) (keepQ_hStart _ _)

theorem keepQ_watcherStop (s : State) (k : WKind) (id : Nat) : KeepQ s (watcherStop s k id) := by
  unfold watcherStop
  split
  · exact KeepQ.refl _
  · simp only
    exact KeepQ.kp_left (a' := { setWList s k ((wList s k).filter (· != id)) with
        watcherLocal := (setWList s k ((wList s k).filter (· != id))).watcherLocal.filter (· != id) })
      (Eq.trans rfl (kp_setWList s k ((wList s k).filter (· != id)))) (keepQ_hStop _ _)

theorem keepQ_pollStop (s : State) (id : Nat) : KeepQ s (pollStop s id) := by
  show KeepQ s (invalidate (hStop (ioStop s (.h id) POLLALL) id) id)
  refine KeepQ.trans ?_ (KeepQ.of_kp (kp_invalidate _ _))
  refine KeepQ.trans ?_ (keepQ_hStop _ _)
  exact KeepQ.of_kp (kp_ioStop _ _ _)

theorem keepQ_pollStart (s : State) (id mask : Nat) : KeepQ s (pollStart s id mask) := by
  unfold pollStart
  simp only
  split
  · exact keepQ_pollStop s id
  · exact (keepQ_pollStop s id).trans
      (KeepQ.kp_left (a' := ioStart (pollStop s id) (.h id) (pollEvents mask)) (by simp) (keepQ_hStart _ _))

theorem keepQ_asyncClose (s : State) (id : Nat) : KeepQ s (asyncClose s id) := by
  unfold asyncClose
  simp only
  refine KeepQ.trans ?_ (keepQ_hStop _ _)
  exact KeepQ.of_kp (Eq.trans rfl (kp_modH s id _ (by intro _; rfl)))

theorem keepQ_streamListen (s : State) (id : Nat) : KeepQ s (streamListen s id) := by
  unfold streamListen
  simp only
  refine KeepQ.trans ?_ (keepQ_hStart _ _)
  refine KeepQ.of_kp ?_
  rw [kp_ioStart]; exact kp_modH _ _ _ (by intro _; rfl)

theorem keepQ_streamClose (s : State) (id : Nat) : KeepQ s (streamClose s id) := by
  unfold streamClose
  simp only
  refine KeepQ.trans ?_ (KeepQ.of_kp (kp_modH _ _ _ (by intro _; rfl)))
  refine KeepQ.trans ?_ (keepQ_hStop _ _)
  exact KeepQ.of_kp (kp_ioClose _ _)

theorem keepQ_udpClose (s : State) (id : Nat) : KeepQ s (udpClose s id) := by
  unfold udpClose
  simp only
  refine KeepQ.trans ?_ (KeepQ.of_kp (kp_modH _ _ _ (by intro _; rfl)))
  refine KeepQ.trans ?_ (keepQ_hStop _ _)
  exact KeepQ.of_kp (kp_ioClose _ _)

theorem keepQ_udpRecvStart (s : State) (id : Nat) : KeepQ s (udpRecvStart s id).1 := by
  unfold udpRecvStart
  split
  · exact KeepQ.refl _
  · simp only
    refine KeepQ.trans ?_ (keepQ_hStart _ _)
    refine KeepQ.of_kp ?_
    rw [kp_ioStart]; exact kp_modH _ _ _ (by intro _; rfl)

theorem keepQ_udpRecvStop (s : State) (id : Nat) : KeepQ s (udpRecvStop s id) := by
  unfold udpRecvStop
  simp only
  split
  · exact KeepQ.kp_left (a' := ioStop s (.h id) POLLIN) (by simp) (keepQ_hStop _ _)
  · exact KeepQ.of_kp (by simp)

theorem keepQ_fsEventStop (s : State) (id : Nat) : KeepQ s (fsEventStop s id) := by
  unfold fsEventStop
  split
  · exact KeepQ.refl _
  · exact keepQ_hStop _ _

theorem keepN_udpSendmsg (s : State) (id : Nat) : KeepN id s (udpSendmsg s id) := by
  unfold udpSendmsg
  split
  · exact KeepN.refl _ _
  · split
    · exact KeepN.refl _ _
    · simp only
      refine KeepN.trans ?_ ((KeepQ.of_kp (kp_ioFeed _ _)).toN id)
      exact keepN_modH s id _ (by intro _; rfl)

theorem keepN_udpSendEnqueue (s : State) (id : Nat) : KeepN id s (udpSendEnqueue s id) := by
  unfold udpSendEnqueue
  simp only
  refine KeepN.trans ?_ (keepN_modH _ id _ (by intro _; rfl))
  exact KeepQ.toN id (KeepQ.of_kp (s := s) rfl)

theorem keepN_udpSendKick (s : State) (id : Nat) (a b : Bool) : KeepN id s (udpSendKick s id a b) := by
  unfold udpSendKick
  split
  · simp only
    split
    · exact keepN_udpSendmsg s id
    · split
      · exact (keepN_udpSendmsg s id).kp_right (by simp)
      · exact keepN_udpSendmsg s id
  · exact (KeepQ.of_kp (by simp)).toN id

theorem keepN_udpSend (s : State) (id : Nat) : KeepN id s (udpSend s id) := by
  unfold udpSend
  split
  · exact KeepN.refl _ _
  · exact ((keepN_udpSendEnqueue s id).trans ((keepQ_hStart _ id).toN id)).trans (keepN_udpSendKick _ _ _ _)

theorem keepN_pipeConnectBad (s : State) (id : Nat) : KeepN id s (pipeConnectBad s id) := by
  unfold pipeConnectBad
  simp only
  refine KeepN.trans ?_ ((KeepQ.of_kp (kp_ioFeed _ _)).toN id)
  refine KeepN.trans ?_ (keepN_modH _ id _ (by intro _; rfl))
  exact KeepQ.toN id (KeepQ.of_kp (s := s) rfl)

theorem keepQ_closeKind (s : State) (k : Kind) (id : Nat) : KeepQ s (closeKind s k id) := by
  cases k with
  | timer => exact KeepQ.kp_left (a' := { s with tm := Timer.close s.tm id }) rfl (keepQ_timerStop _ _)
  | idle => exact keepQ_watcherStop _ _ _
  | prepare => exact keepQ_watcherStop _ _ _
  | check => exact keepQ_watcherStop _ _ _
  | async => exact keepQ_asyncClose _ _
  | poll => exact keepQ_pollStop _ _
  | tcp => exact keepQ_streamClose _ _
  | pipe => exact keepQ_streamClose _ _
  | udp => exact keepQ_udpClose _ _
  | signal => exact keepQ_hStop _ _
  | fsEvent => exact keepQ_fsEventStop _ _

/-! ### handle creation -/
theorem find_append_some {l : List Handle} {p : Handle → Bool} {h : Handle} (hf : l.find? p = some h) (l2 : List Handle) :
    (l ++ l2).find? p = some h := by
  simp [List.find?_append, hf]

theorem keepQ_addHandle (s : State) (k : Kind) : KeepQ s (addHandle s k) := by
  have e : (addHandle s k).handles = s.handles ++ [{ id := s.nextId, kind := k }] := rfl
  refine ⟨⟨rfl, rfl, rfl, Nat.le_succ _, ?_, ?_, KMono.add _ _⟩, ?_⟩
  · intro id hid
    simp only [hids, e, List.map_append, List.mem_append, List.map_cons, List.map_nil, List.mem_singleton] at hid
    rcases hid with h | h
    · exact Or.inl h
    · exact Or.inr (by omega)
  · intro id hid
    simp only [hids, e, List.map_append, List.mem_append]
    exact Or.inl hid
  · intro id hid
    obtain ⟨h, hh⟩ := Option.isSome_iff_exists.mp ((getH_isSome_iff s id).mpr hid)
    simp only [hq, getH, e] at hh ⊢
    rw [find_append_some hh, hh]

theorem keepQ_initH (s : State) (k : Kind) : KeepQ s (initH s k) := by
  unfold initH
  simp only
  have ha := keepQ_addHandle s k
  cases k with
  | timer => exact ha.kp_right rfl
  | async => exact ha.trans (KeepQ.kp_left (a' := { addHandle s .async with asyncs := (addHandle s .async).asyncs ++ [s.nextId] }) rfl (keepQ_hStart _ _))
  | poll => exact ha.kp_right (kp_modH _ _ _ (fun _ => rfl))
  | idle => exact ha
  | prepare => exact ha
  | check => exact ha
  | tcp => exact ha
  | udp => exact ha
  | pipe => exact ha
  | signal => exact ha
  | fsEvent => exact ha


theorem getF_withKernel_same {s : State} {id : Nat} {k : HK → HK} {f : HFlags} (hf : getF s id = some f) :
    getF (withKernel s id k) id = some (ofHK (k (toHK f s.c.ah))) := by
  have hf' : s.c.get id = some f := hf
  simp only [getF, withKernel, Core.apply, hf']
  simpa [Core.get] using get_updF_same s.c.fl id f _ (by simpa [Core.get] using hf')

theorem getHF_getH {s : State} {id : Nat} {h : Handle} {f : HFlags} (hg : getHF s id = some (h, f)) :
    getH s id = some h := by
  unfold getHF at hg
  split at hg
  · rename_i h1 h2
    simp only [Option.some.injEq, Prod.mk.injEq] at hg
    rw [h1, hg.1]
  · simp at hg

/-- a legal `uv_close`: everything but the closing list is a `KeepQ` step ending with CLOSING set, then
    uv__make_close_pending -/
def CloseOp (s s' : State) : Prop :=
  ∃ id s2, KeepQ s s2 ∧ s' = makeClosePending s2 id ∧ id ∈ hids s ∧
    (∃ f, getF s id = some f ∧ f.closing = false) ∧ (∃ f', getF s2 id = some f' ∧ f'.closing = true)

def OpRes (s s' : State) : Prop :=
  KeepQ s s' ∨ (∃ j, KeepN j s s' ∧ ∀ f, getF s j = some f → f.closing = false) ∨ CloseOp s s'

theorem applyOp_keep (s : State) (o : Op) : OpRes s (applyOp s o).1 := by
  unfold applyOp
  split
  · exact .inl (KeepQ.of_kp rfl)
  · cases o with
    | close id =>
      simp only
      split
      · rename_i h f hg
        split
        · exact .inl (KeepQ.of_kp rfl)
        · rename_i hc
          have hc' : hClosing f = false := by cases h' : hClosing f <;> simp_all
          have hf := getHF_getF hg
          have hcl : f.closing = false := by
            simp [hClosing, isClosing, toHK] at hc'; exact hc'.1
          have h1 := getF_withKernel_same (k := setClosing) hf
          obtain ⟨f', hf', hm⟩ := (keepQ_closeKind (withKernel s id setClosing) h.kind id).1.flags id _ h1
          exact .inr (.inr ⟨id, closeKind (withKernel s id setClosing) h.kind id,
            (keepQ_withKernel s id setClosing clMono_setClosing).trans (keepQ_closeKind _ _ _), rfl,
            getH_some_mem (getHF_getH hg), ⟨f, hf, hcl⟩, ⟨f', hf', hm rfl⟩⟩)
      · exact .inl (KeepQ.of_kp rfl)
    | udpSend id =>
      simp only
      split
      · rename_i h f hg
        split
        · rename_i hc
          have hc' : hClosing f = false := by cases h' : hClosing f <;> simp_all
          exact .inr (.inl ⟨id, keepN_udpSend s id, pre_of_getHF hg hc'⟩)
        · exact .inl (KeepQ.of_kp rfl)
      · exact .inl (KeepQ.of_kp rfl)
    | connectBad id =>
      simp only
      split
      · rename_i h f hg
        split
        · rename_i hc
          have hc' : hClosing f = false := by cases h' : hClosing f <;> simp_all
          exact .inr (.inl ⟨id, keepN_pipeConnectBad s id, pre_of_getHF hg hc'⟩)
        · exact .inl (KeepQ.of_kp rfl)
      · exact .inl (KeepQ.of_kp rfl)
    | init k => exact .inl (keepQ_initH s k)
    | start id a b =>
      simp only
      split
      · exact .inl (KeepQ.of_kp rfl)
      · split
        · exact .inl (KeepQ.of_kp rfl)
        · split
          · exact .inl (keepQ_timerStart s id a b)
          · split
            · exact .inl (KeepQ.of_kp rfl)
            · exact .inl (keepQ_pollStart s id a)
          · split
            · exact .inl (KeepQ.of_kp rfl)
            · exact .inl (keepQ_watcherStart s .idle id)
          · split
            · exact .inl (KeepQ.of_kp rfl)
            · exact .inl (keepQ_watcherStart s .prepare id)
          · split
            · exact .inl (KeepQ.of_kp rfl)
            · exact .inl (keepQ_watcherStart s .check id)
          · split
            · exact .inl (KeepQ.of_kp rfl)
            · exact .inl (keepQ_hStart s id)
          · split
            · exact .inl (KeepQ.of_kp rfl)
            · split
              · exact .inl (KeepQ.refl _)
              · exact .inl (KeepQ.kp_left (a' := initInotify s) (kp_initInotify s) (keepQ_hStart _ _))
          · split
            · exact .inl (KeepQ.of_kp rfl)
            · exact .inl (keepQ_udpRecvStart s id)
          · split
            · exact .inl (KeepQ.of_kp rfl)
            · exact .inl (keepQ_streamListen s id)
          · split
            · exact .inl (KeepQ.of_kp rfl)
            · exact .inl (keepQ_streamListen s id)
          · exact .inl (KeepQ.of_kp rfl)
    | stop id =>
      simp only
      split
      · exact .inl (KeepQ.of_kp rfl)
      · split
        · exact .inl (KeepQ.of_kp rfl)
        · split
          · exact .inl (keepQ_timerStop s id)
          · exact .inl (keepQ_watcherStop s .idle id)
          · exact .inl (keepQ_watcherStop s .prepare id)
          · exact .inl (keepQ_watcherStop s .check id)
          · exact .inl (keepQ_pollStop s id)
          · exact .inl (keepQ_hStop s id)
          · exact .inl (keepQ_fsEventStop s id)
          · exact .inl (keepQ_udpRecvStop s id)
          · exact .inl (KeepQ.of_kp rfl)
    | again id =>
      simp only
      split
      · split
        · exact .inl (keepQ_timerAgain s id)
        · exact .inl (KeepQ.of_kp rfl)
      · exact .inl (KeepQ.of_kp rfl)
    | setRepeat id v =>
      simp only
      split
      · split
        · exact .inl (KeepQ.of_kp rfl)
        · exact .inl (KeepQ.of_kp rfl)
      · exact .inl (KeepQ.of_kp rfl)
    | ref id =>
      simp only
      split
      · split
        · exact .inl (KeepQ.of_kp rfl)
        · exact .inl (keepQ_withKernel s id _ clMono_ref)
      · exact .inl (KeepQ.of_kp rfl)
    | unref id =>
      simp only
      split
      · split
        · exact .inl (KeepQ.of_kp rfl)
        · exact .inl (keepQ_withKernel s id _ clMono_unref)
      · exact .inl (KeepQ.of_kp rfl)
    | asyncSend id =>
      simp only
      split
      · split
        · exact .inl (KeepQ.of_kp (kp_asyncSend s id))
        · exact .inl (KeepQ.of_kp rfl)
      · exact .inl (KeepQ.of_kp rfl)
    | bind id =>
      simp only
      split
      · split
        · exact .inl (KeepQ.of_kp (kp_modH s id _ (by intro _; rfl)))
        · exact .inl (KeepQ.of_kp rfl)
      · exact .inl (KeepQ.of_kp rfl)
    | work api =>
      simp only
      split
      · exact .inl (KeepQ.of_kp rfl)
      · exact .inl (KeepQ.of_kp (kp_submit s api))
    | useIoUring => exact .inl (KeepQ.of_kp rfl)
    | workNull => exact .inl (KeepQ.refl _)
    | reject api => simp only; split <;> first | exact .inl (KeepQ.refl _) | exact .inl (KeepQ.of_kp rfl)
    | udpSendBad id =>
      simp only
      split
      · split
        · exact .inl (KeepQ.refl _)
        · exact .inl (KeepQ.of_kp rfl)
      · exact .inl (KeepQ.of_kp rfl)
    | cancel r =>
      simp only
      split
      · exact .inl (KeepQ.of_kp (kp_workCancel s r))
      · exact .inl (KeepQ.of_kp rfl)
    | stopLoop => exact .inl (KeepQ.of_kp rfl)
    | updateTime => exact .inl (KeepQ.of_kp rfl)
    | advance n => exact .inl (KeepQ.of_kp rfl)
    | getAlive => exact .inl (KeepQ.refl _)
    | getBackendTimeout => exact .inl (KeepQ.refl _)
    | getNow => exact .inl (KeepQ.refl _)
    | isActive id =>
      simp only
      split
      · split
        · exact .inl (KeepQ.of_kp rfl)
        · exact .inl (KeepQ.refl _)
      · exact .inl (KeepQ.of_kp rfl)
    | hasRef id =>
      simp only
      split
      · split
        · exact .inl (KeepQ.of_kp rfl)
        · exact .inl (KeepQ.refl _)
      · exact .inl (KeepQ.of_kp rfl)
    | isClosing id =>
      simp only
      split
      · split
        · exact .inl (KeepQ.of_kp rfl)
        · exact .inl (KeepQ.refl _)
      · exact .inl (KeepQ.of_kp rfl)
    | dueIn id =>
      simp only
      split
      · split
        · exact .inl (KeepQ.refl _)
        · exact .inl (KeepQ.of_kp rfl)
      · exact .inl (KeepQ.of_kp rfl)
    | env n id =>
      simp only
      split
      · split
        · exact .inl (KeepQ.refl _)
        · exact .inl (KeepQ.of_kp rfl)
      · exact .inl (KeepQ.of_kp rfl)
    | bad t => exact .inl (KeepQ.of_kp rfl)
end UvModel.Loop
