import UvModel.Lemmas.LoopTrace
import UvModel.Lemmas.LoopReqs2
/-!
  A request's callback is delivered at most once over the whole trace.
  `reqCbs r t`: number of request-kind callback events (`work`, `udpSend`, `connect`) for request `r` in `t`.
  `TInv s`: for every `r`, callbacks delivered so far + records still owed ≤ 1, and no callback for ids not yet
  handed out.  `J e s = RInv e s ∧ TInv s` is preserved by every step: a completion site takes `r` out of a
  queue slot, so (`RInv`) `r` is owed exactly once, hence (`TInv`) has had no callback; the record is dropped
  right before the callback event; ids are never reused (`nextReq` only grows).
-/
namespace UvModel.Loop.Reqs
open UvModel.HandleKernels

def isReqK : CbKind → Bool
  | .work | .udpSend | .connect => true
  | _ => false

/-- the request a callback event belongs to -/
def rcbE : Event → Option Nat
  | .cb _ k id _ _ => if isReqK k then some id else none
  | _ => none

def reqCbs (r : Nat) (t : List Event) : Nat := t.countP (fun e => rcbE e == some r)

def TInv (s : State) : Prop :=
  (∀ r, reqCbs r s.trace + idc r s ≤ 1) ∧ (∀ r, s.nextReq ≤ r → reqCbs r s.trace = 0)

def J (e : Option Nat) (s : State) : Prop := RInv e s ∧ TInv s

/-- `J` is preserved -/
def JS (e : Option Nat) (s s' : State) : Prop := J e s → J e s'
theorem JS.refl {e : Option Nat} (s : State) : JS e s s := id
theorem JS.trans {e : Option Nat} {a b c : State} (h1 : JS e a b) (h2 : JS e b c) : JS e a c := fun h => h2 (h1 h)

theorem JS.of_rle {e : Option Nat} {s s' : State} (h : RLe s s') (ht : s'.trace = s.trace) : JS e s s' := by
  rintro ⟨hr, h1, h2⟩
  refine ⟨h.inv hr, ?_, ?_⟩
  · intro r; have := h1 r; simp only [idc, h.2.1, ht] at this ⊢; exact this
  · intro r hr'; rw [h.2.2.1] at hr'; rw [ht]; exact h2 r hr'

theorem JS.frame {e : Option Nat} {s s' : State} (h : rq s' = rq s) (ht : tr s' = tr s) : JS e s s' :=
  JS.of_rle (RLe.of_rq h) (congrArg Prod.fst ht)

/-! ### events -/
theorem reqCbs_cons (r : Nat) (ev : Event) (t : List Event) :
    reqCbs r (ev :: t) = reqCbs r t + (if rcbE ev = some r then 1 else 0) := by
  simp [reqCbs, List.countP_cons]

/-- an event that is not a request callback -/
theorem JS.emit {e : Option Nat} (s : State) (ev : Event) (hev : rcbE ev = none) : JS e s (Loop.emit s ev) := by
  rintro ⟨hr, h1, h2⟩
  refine ⟨RInv.of_rq (rq_emit _ _) hr, ?_⟩
  unfold Loop.emit
  split
  · exact ⟨h1, h2⟩
  · refine ⟨?_, ?_⟩
    · intro r; have := h1 r
      simp only [reqCbs_cons, hev, reduceCtorEq, if_false, Nat.add_zero]
      exact this
    · intro r hr'
      simp only [reqCbs_cons, hev, reduceCtorEq, if_false, Nat.add_zero]
      exact h2 r hr'

theorem JS.emitObs {e : Option Nat} (s : State) : JS e s (Loop.emitObs s) := JS.emit s _ rfl

/-! ### API calls: the trace is untouched, at most one fresh record is added -/
def Reg (s s' : State) : Prop :=
  (s'.reqs = s.reqs ∧ s'.nextReq = s.nextReq) ∨
  (∃ k, s'.reqs = s.reqs ++ [({ id := s.nextReq, kind := k } : Req)] ∧ s'.nextReq = s.nextReq + 1)

theorem rn_of_rq {s s' : State} (h : rq s' = rq s) : s'.reqs = s.reqs ∧ s'.nextReq = s.nextReq := by
  simp only [rq, Prod.mk.injEq] at h; exact ⟨h.2.1, h.2.2.1⟩
theorem Reg.of_rq {s s' : State} (h : rq s' = rq s) : Reg s s' := Or.inl (rn_of_rq h)
theorem Reg.of_rle {s s' : State} (h : RLe s s') : Reg s s' := Or.inl ⟨h.2.1, h.2.2.1⟩

theorem TInv.reg {s s' : State} (h : Reg s s') (ht : s'.trace = s.trace) (hf : idc s.nextReq s = 0) (hi : TInv s) : TInv s' := by
  obtain ⟨h1, h2⟩ := hi
  rcases h with ⟨hr, hn⟩ | ⟨k, hr, hn⟩
  · refine ⟨?_, ?_⟩
    · intro r; have := h1 r; simp only [idc, hr, ht] at this ⊢; exact this
    · intro r hr'; rw [hn] at hr'; rw [ht]; exact h2 r hr'
  · refine ⟨?_, ?_⟩
    · intro r
      have := h1 r
      simp only [idc, hr, ht, List.countP_append, List.countP_cons, List.countP_nil] at this ⊢
      by_cases hx : r = s.nextReq
      · rw [hx] at this ⊢
        have hz := h2 s.nextReq (Nat.le_refl _)
        simp only [idc] at hf
        simp [hz, hf]
      · have : (s.nextReq == r) = false := by simp; omega
        simp [this]; omega
    · intro r hr'; rw [hn] at hr'; rw [ht]; exact h2 r (by omega)

theorem workSubmit_rn (s : State) (api : Api) :
    (workSubmit s api).reqs = s.reqs ++ [({ id := s.nextReq, kind := .work api } : Req)] ∧
    (workSubmit s api).nextReq = s.nextReq + 1 := by
  unfold workSubmit; simp only; split
  · split
    · exact ⟨rfl, rfl⟩
    · exact rn_of_rq (rq_asyncSend _ 1)
  · exact ⟨rfl, rfl⟩

theorem submit_reg (s : State) (api : Api) : Reg s (submit s api) := by
  unfold submit; simp only
  have hr := rn_of_rq (rq_ringInit s)
  split
  · split
    · exact Or.inr ⟨.ring api, by simp only [ringSubmit, hr.1, hr.2], by simp only [ringSubmit, hr.2]⟩
    · have := workSubmit_rn (ringInit s) api
      exact Or.inr ⟨.work api, by rw [this.1, hr.1, hr.2], by rw [this.2, hr.2]⟩
  · have := workSubmit_rn s api
    exact Or.inr ⟨.work api, this.1, this.2⟩

set_option linter.unusedSimpArgs false in
theorem applyOp_reg (s : State) (o : Op) : Reg s (applyOp s o).1 := by
  have hill : Reg s (illegal s).1 := Reg.of_rq rfl
  unfold applyOp
  split
  · exact hill
  · cases o with
    | init k => exact Reg.of_rle (initH_rle s k)
    | udpSend id =>
      simp only
      split
      · rename_i h f hg
        split
        · have hgh := getHF_getH hg
          refine Or.inr ⟨.udpSend id, ?_, ?_⟩
          · simp only [ok, udpSend, hgh]
            rw [(udpSendKick_rle _ _ _ _).2.1]; rfl
          · simp only [ok, udpSend, hgh]
            rw [(udpSendKick_rle _ _ _ _).2.2.1]; rfl
        · exact hill
      · exact hill
    | work api =>
      simp only
      split
      · exact hill
      · exact submit_reg s api
    | connectBad id =>
      simp only
      split
      · split
        · refine Or.inr ⟨.connect id, ?_, ?_⟩
          · simp only [ok]; unfold pipeConnectBad; simp only
            rw [(rn_of_rq (rq_ioFeed _ _)).1]; rfl
          · simp only [ok]; unfold pipeConnectBad; simp only
            rw [(rn_of_rq (rq_ioFeed _ _)).2]; rfl
        · exact hill
      · exact hill
    | cancel r =>
      simp only
      split
      · have := Reg.of_rle (workCancel_rle s r)
        simpa [ok] using this
      · exact hill
    | bind id =>
      simp only
      split
      · split
        · exact Reg.of_rq (rq_modH _ _ _ (fun _ => rfl))
        · exact hill
      · exact hill
    | _ =>
      simp only <;> (repeat' split) <;>
        first
        | exact hill
        | exact Reg.of_rq rfl
        | exact Reg.of_rq (by simp [ok, signalStart, signalStop])

theorem stepOp_js {e : Option Nat} (s : State) (o : Op) : JS e s (stepOp s o) := by
  unfold stepOp
  have h1 : JS e s (applyOp s o).1 := fun hj =>
    ⟨applyOp_rinv s o hj.1, TInv.reg (applyOp_reg s o) (congrArg Prod.fst (tr_applyOp s o)) (hj.1.2.2.2 _ (Nat.le_refl _)) hj.2⟩
  exact (h1.trans (JS.emit _ _ rfl)).trans (JS.emitObs _)

theorem foldl_stepOp_js {e : Option Nat} (ops : List Op) (s : State) : JS e s (ops.foldl stepOp s) := by
  induction ops generalizing s with
  | nil => exact JS.refl _
  | cons o t ih => exact (stepOp_js s o).trans (ih _)

/-! ### callbacks -/
/-- a handle or close callback -/
theorem runCb_js {e : Option Nat} (sc : Script) (ph : Phase) (k : CbKind) (hk : isReqK k = false) (key : CbKey) (id : Nat)
    (a b : Int) (occ : Nat) (s : State) : JS e s (runCb sc ph k key id a b occ s) := by
  unfold runCb
  simp only
  have h0 : JS e s { s with ncbTotal := s.ncbTotal + 1 } := JS.of_rle (RLe.of_rq rfl) rfl
  refine (((((h0.trans (JS.emit _ _ ?_)).trans (JS.emitObs _)).trans (foldl_stepOp_js _ _)).trans (JS.emit _ _ rfl)).trans (JS.emitObs _))
  simp [rcbE, hk]

theorem RInv.owed_of_held {e : Option Nat} {s : State} (hi : RInv e s) {r : Nat} (h : 0 < cnt e r s) : idc r s = 1 := by
  have := hi.2.1 r; have := hi.2.2.1 r; omega

/-- a completion site: `r` leaves its queue slot, the record is dropped, then the request callback runs -/
theorem J.complete {e e' : Option Nat} {s s' : State} (r : Nat) (hi : J e s)
    (har : s'.ar = reqUnregister s.ar) (hr : s'.reqs = s.reqs.filter (·.id != r)) (hn : s'.nextReq = s.nextReq)
    (hc : ∀ x, cnt e' x s' + (if x = r then 1 else 0) ≤ cnt e x s) (ht : s'.trace = s.trace)
    (sc : Script) (ph : Phase) (k : CbKind) (hk : isReqK k = true) (key : CbKey) (a b : Int) (occ : Nat) :
    J e' (runCb sc ph k key r a b occ s') := by
  obtain ⟨hri, h1, h2⟩ := hi
  have hri' : RInv e' s' := RInv.complete r hri har hr hn hc
  have howed : idc r s = 1 := hri.owed_of_held (by have := hc r; simp at this; omega)
  have hz : reqCbs r s.trace = 0 := by have := h1 r; omega
  have hlt : r < s.nextReq := by
    apply Nat.lt_of_not_le; intro hle; have := hri.2.2.2 r hle; omega
  have hid : ∀ x, idc x s' = if x = r then 0 else idc x s := by
    intro x; simp only [idc, hr]; exact countP_id_filter _ _ _
  unfold runCb
  simp only
  -- the callback event
  have hj1 : J e' (emit { s' with ncbTotal := s'.ncbTotal + 1 } (.cb ph k r a b)) := by
    refine ⟨RInv.of_rq (s := s') (by rw [rq_emit]; rfl) hri', ?_⟩
    unfold Loop.emit
    split
    · refine ⟨?_, ?_⟩
      · intro x; show reqCbs x s'.trace + idc x s' ≤ 1
        rw [ht, hid]; have := h1 x; split <;> omega
      · intro x hx; show reqCbs x s'.trace = 0
        rw [ht]; exact h2 x (hn ▸ hx)
    · refine ⟨?_, ?_⟩
      · intro x
        show reqCbs x (Event.cb ph k r a b :: s'.trace) + idc x s' ≤ 1
        rw [reqCbs_cons, ht, hid]
        simp only [rcbE, hk, if_true, Option.some.injEq]
        have := h1 x
        by_cases hx : x = r
        · subst hx; simp; omega
        · have : ¬ (r = x) := by omega
          simp [hx, this]; omega
      · intro x hx
        show reqCbs x (Event.cb ph k r a b :: s'.trace) = 0
        have hx' : s.nextReq ≤ x := hn ▸ hx
        rw [reqCbs_cons, ht, h2 x hx']
        simp only [rcbE, hk, if_true, Option.some.injEq]
        have : ¬ (r = x) := by omega
        simp [this]
  exact ((((JS.emitObs _).trans (foldl_stepOp_js _ _)).trans (JS.emit _ _ rfl)).trans (JS.emitObs _)) hj1

/-! ### phases -/
theorem trace_flushWatchers (s : State) : tr (flushWatchers s) = tr s := by
  unfold flushWatchers
  have : ∀ (l : List W) (s : State), tr (l.foldl (fun s w => let io := getIo s w; setIo s w { io with events := io.pevents }) s) = tr s := by
    intro l; induction l with
    | nil => intro s; rfl
    | cons w t ih => intro s; simp only [List.foldl]; rw [ih]; simp
  have h := this s.watcherQ s
  simp only [tr, Prod.mk.injEq] at h ⊢; exact h

theorem trace_completeWorks (s : State) (k : Nat) : (completeWorks s k).trace = s.trace := by
  unfold completeWorks; split; · rfl
  simp only; exact (congrArg Prod.fst (tr_asyncSend _ _)).trans rfl

theorem runHandleCb_js (sc : Script) (ph : Phase) (k : CbKind) (hk : isReqK k = false) (id : Nat) (a b : Int) (s : State) :
    JS none s (runHandleCb sc ph k id a b s) := by
  unfold runHandleCb
  split
  · exact JS.refl _
  · refine JS.trans ?_ (runCb_js _ _ _ hk _ _ _ _ _ _)
    exact JS.frame (rq_modH _ _ _ (fun _ => rfl)) rfl

theorem udpRunCompletedLoop_js (sc : Script) (ph : Phase) (id : Nat) (fuel : Nat) (s : State) :
    JS none s (udpRunCompletedLoop sc ph id fuel s) := by
  induction fuel generalizing s with
  | zero => exact JS.refl _
  | succ n ih =>
    unfold udpRunCompletedLoop
    split
    · exact JS.refl _
    · rename_i h hf
      split
      · exact JS.refl _
      · rename_i r st rest hw
        refine JS.trans ?_ (ih _)
        intro hj
        refine J.complete (sc := sc) (ph := ph) (k := .udpSend) (hk := rfl) r hj ?_ ?_ ?_ ?_ ?_ _ _ _ _
        · rfl
        · rfl
        · rfl
        rotate_left
        · rfl
        intro x
        have := cnt_modH (fun h => { h with wcq := rest, sqc := h.sqc - 1 }) (fun _ => rfl) hf none x
        simp only [hcK, hcW, hcC, hw, cp_cons, reduceCtorEq, if_false] at this
        show cnt none x (modH s id fun h => { h with wcq := rest, sqc := h.sqc - 1 }) + _ ≤ _
        by_cases hx : x = r
        · subst hx; simp only [if_true] at this ⊢; omega
        · have : ¬ (r = x) := by omega
          simp only [hx, this, if_false] at *; omega

theorem udpRunCompleted_js (sc : Script) (ph : Phase) (id : Nat) (s : State) : JS none s (udpRunCompleted sc ph id s) := by
  unfold udpRunCompleted
  split
  · exact JS.refl _
  · rename_i h _
    simp only
    have h1 : JS none s (udpRunCompletedLoop sc ph id (h.wcq.length + 1) (modH s id fun h => { h with processing := true })) := by
      refine JS.trans ?_ (udpRunCompletedLoop_js _ _ _ _ _)
      exact JS.frame (rq_modH _ _ _ (fun _ => rfl)) rfl
    split
    · exact h1
    · refine JS.trans ?_ (JS.frame (rq_modH _ _ _ (fun _ => rfl)) rfl)
      split
      · split
        · exact h1.trans (JS.frame (by simp) (by simp))
        · exact h1.trans (JS.frame (by simp) (by simp))
      · exact h1

theorem modH_move_rle (s : State) (id : Nat) (st : Int) :
    RLe s (modH s id (fun h => { h with wcq := h.wcq ++ h.wq.map (fun r => (r, st)), wq := [] })) := by
  refine modH_rle s id _ (fun _ => rfl) ?_
  intro e x h
  simp only [hcK, hcW, hcC, cp_append, cp_map_pair, List.count_nil]
  split <;> omega

theorem udpIo_js (sc : Script) (ph : Phase) (id ev : Nat) (s : State) : JS none s (udpIo sc ph id ev s) := by
  unfold udpIo
  split
  · exact JS.refl _
  · split
    · exact (JS.of_rle (udpSendmsg_rle s id) (congrArg Prod.fst (tr_udpSendmsg s id))).trans (udpRunCompleted_js _ _ _ _)
    · exact JS.refl _

theorem udpFinishClose_js (sc : Script) (ph : Phase) (id : Nat) (s : State) : JS none s (udpFinishClose sc ph id s) := by
  unfold udpFinishClose
  exact (JS.of_rle (modH_move_rle s id (-125)) rfl).trans (udpRunCompleted_js _ _ _ _)

theorem streamIo_js (sc : Script) (ph : Phase) (id : Nat) (s : State) : JS none s (streamIo sc ph id s) := by
  unfold streamIo
  split
  · exact JS.refl _
  · rename_i h hf
    split
    · exact JS.refl _
    · rename_i r hr
      intro hj
      have hq := rq_ioStop { (modH s id fun h => { h with connReq := none }) with
        ar := reqUnregister s.ar, reqs := s.reqs.filter (·.id != r) } (.h id) POLLOUT
      have hq' := hq
      simp only [rq, Prod.mk.injEq] at hq'
      refine J.complete (sc := sc) (ph := ph) (k := .connect) (hk := rfl) r hj hq'.1 hq'.2.1 hq'.2.2.1 ?_
        (congrArg Prod.fst (tr_ioStop _ _ _)) _ _ _ _
      intro x
      have := cnt_modH (fun h => { h with connReq := none }) (fun _ => rfl) hf none x
      simp only [hcK, hcW, hcC, hr, reduceCtorEq, if_false, Option.some.injEq] at this
      rw [cnt_of_rq hq]
      show cnt none x (modH s id fun h => { h with connReq := none }) + _ ≤ _
      by_cases hx : x = r
      · subst hx; simp only [if_true] at this ⊢; omega
      · have : ¬ (r = x) := by omega
        simp only [hx, this, if_false] at *; omega

theorem streamDestroy_js (sc : Script) (id : Nat) (s : State) : JS none s (streamDestroy sc id s) := by
  unfold streamDestroy
  split
  · exact JS.refl _
  · rename_i h hf
    split
    · exact JS.refl _
    · rename_i r hr
      intro hj
      have h1 : J (some id) (runCb sc .closing .connect (.r r) r (-125) 0 0
          { s with ar := reqUnregister s.ar, reqs := s.reqs.filter (·.id != r) }) := by
        refine J.complete (sc := sc) (ph := .closing) (k := .connect) (hk := rfl) r hj ?_ ?_ ?_ ?_ ?_ _ _ _ _
        · rfl
        · rfl
        · rfl
        rotate_left
        · rfl
        intro x
        have := hcnt_skip hf x
        simp only [hcC, hr, Option.some.injEq] at this
        show wcnt x s + hcnt (some id) x s.handles + _ ≤ wcnt x s + hcnt none x s.handles
        by_cases hx : x = r
        · subst hx; simp only [if_true] at this ⊢; omega
        · have : ¬ (r = x) := by omega
          simp only [hx, this, if_false] at *; omega
      exact ⟨RInv_clear_conn h1.1, h1.2⟩

theorem pendingIo_js (sc : Script) (ph : Phase) (id : Nat) (s : State) : JS none s (pendingIo sc ph id s) := by
  unfold pendingIo
  split
  · exact JS.refl _
  · split
    · exact udpIo_js _ _ _ _ _
    · exact streamIo_js _ _ _ _

theorem runPendingLoop_js (sc : Script) (ph : Phase) (fuel : Nat) (s : State) : JS none s (runPendingLoop sc ph fuel s) := by
  induction fuel generalizing s with
  | zero => exact JS.refl _
  | succ n ih =>
    unfold runPendingLoop
    split
    · exact JS.refl _
    · rename_i id rest _
      exact ((JS.frame (s' := { s with pendingLocal := rest }) rfl rfl).trans (pendingIo_js _ _ _ _)).trans (ih _)

theorem runPending_js (sc : Script) (ph : Phase) (s : State) : JS none s (runPending sc ph s) := by
  unfold runPending
  exact (JS.frame (s' := { s with pendingLocal := s.pending, pending := [] }) rfl rfl).trans (runPendingLoop_js _ _ _ _)

theorem wCb_notReq (k : WKind) : isReqK (wCb k) = false := by cases k <;> rfl

theorem runWatchersLoop_js (sc : Script) (k : WKind) (fuel : Nat) (s : State) : JS none s (runWatchersLoop sc k fuel s) := by
  induction fuel generalizing s with
  | zero => exact JS.refl _
  | succ n ih =>
    unfold runWatchersLoop
    split
    · exact JS.refl _
    · rename_i id rest _
      refine JS.trans ?_ (ih _)
      refine JS.trans ?_ (runHandleCb_js _ _ _ (wCb_notReq k) _ _ _ _)
      exact JS.frame (s := s) (by rw [rq_setWList]; rfl) (by rw [tr_setWList]; rfl)

theorem runWatchers_js (sc : Script) (k : WKind) (s : State) : JS none s (runWatchers sc k s) := by
  unfold runWatchers
  refine JS.trans ?_ (runWatchersLoop_js _ _ _ _)
  exact JS.frame (s := s) (by rw [rq_setWList]; rfl) (by rw [tr_setWList]; rfl)

theorem workDoneLoop_js (sc : Script) (fuel : Nat) (s : State) : JS none s (workDoneLoop sc fuel s) := by
  induction fuel generalizing s with
  | zero => exact JS.refl _
  | succ n ih =>
    unfold workDoneLoop
    split
    · exact JS.refl _
    · rename_i r c rest hd
      refine JS.trans ?_ (ih _)
      intro hj
      refine J.complete (sc := sc) (ph := .poll) (k := .work) (hk := rfl) r hj ?_ ?_ ?_ ?_ ?_ _ _ _ _
      · rfl
      · rfl
      · rfl
      rotate_left
      · rfl
      intro x
      simp only [cnt, wcnt, hd, cp_cons]
      by_cases hx : x = r
      · subst hx; simp only [if_true]; omega
      · have : ¬ (r = x) := by omega
        simp only [hx, this, if_false]; omega

theorem workDone_js (sc : Script) (s : State) : JS none s (workDone sc s) := by
  unfold workDone
  refine JS.trans ?_ (workDoneLoop_js _ _ _)
  refine JS.of_rle (s := s) ⟨rfl, rfl, rfl, ?_⟩ rfl
  intro e x
  simp only [cnt, wcnt, cp, List.countP_nil]
  omega

theorem ringDone_js (sc : Script) (cq : List Nat) (s : State) : JS none s (ringDone sc cq s) := by
  unfold ringDone
  refine JS.trans ?_ (workDoneLoop_js _ _ _)
  exact JS.of_rle (s := s) (ringTake_rle s cq) (ringTake_frame (·.trace) (fun _ _ _ => rfl) s cq)

theorem asyncIoLoop_js (sc : Script) (fuel : Nat) (s : State) : JS none s (asyncIoLoop sc fuel s) := by
  induction fuel generalizing s with
  | zero => exact JS.refl _
  | succ n ih =>
    unfold asyncIoLoop
    split
    · exact JS.refl _
    · rename_i id rest _
      have h0 : JS none s { s with asyncLocal := rest, asyncs := s.asyncs ++ [id] } := JS.frame rfl rfl
      simp only
      split
      · exact h0.trans (ih _)
      · split
        · exact h0.trans (ih _)
        · refine JS.trans ?_ (ih _)
          have h1 : JS none s (modH { s with asyncLocal := rest, asyncs := s.asyncs ++ [id] } id fun h => { h with pending := false }) :=
            h0.trans (JS.frame (rq_modH _ _ _ (fun _ => rfl)) rfl)
          split
          · exact h1.trans (workDone_js _ _)
          · exact h1.trans (runHandleCb_js _ _ _ rfl _ _ _ _)

theorem asyncIo_js (sc : Script) (s : State) : JS none s (asyncIo sc s) := by
  unfold asyncIo
  exact (JS.frame (s' := { s with asyncLocal := s.asyncs, asyncs := [] }) rfl rfl).trans (asyncIoLoop_js _ _ _)

theorem pollIo_js (sc : Script) (id ev : Nat) (s : State) : JS none s (pollIo sc id ev s) := by
  unfold pollIo
  split
  · exact (JS.frame (s' := hStop (ioStop s (.h id) POLLALL) id) (by simp) (by simp)).trans (runHandleCb_js _ _ _ rfl _ _ _ _)
  · exact runHandleCb_js _ _ _ rfl _ _ _ _

theorem dispatchLoop_js (sc : Script) (fuel : Nat) (s : State) (n : Nat) (sg : Bool) :
    JS none s (dispatchLoop sc fuel s n sg).1 := by
  induction fuel generalizing s n sg with
  | zero => exact JS.refl _
  | succ m ih =>
    unfold dispatchLoop
    split
    · exact JS.refl _
    · rename_i o ev rest _
      have h0 : JS none s { s with batch := rest } := JS.frame rfl rfl
      simp only
      split
      · exact h0.trans (ih _ _ _)
      · split
        · exact h0.trans (ih _ _ _)
        · exact h0.trans (ih _ _ _)
      · split
        · exact h0.trans (ih _ _ _)
        · exact h0.trans (ih _ _ _)
      · split
        · exact h0.trans (ih _ _ _)
        · exact (h0.trans (asyncIo_js _ _)).trans (ih _ _ _)
      · split
        · exact h0.trans (ih _ _ _)
        · split
          · exact h0.trans (ih _ _ _)
          · refine JS.trans ?_ (ih _ _ _)
            split
            · exact h0.trans (pollIo_js _ _ _ _)
            · exact h0.trans (udpIo_js _ _ _ _ _)
            · exact h0
      · split
        · exact (h0.trans (ringDone_js _ _ _)).trans (ih _ _ _)
        · exact h0.trans (ih _ _ _)

theorem pollLoop_js (sc : Script) (fuel : Nat) (s : State) (c : PollCtl) : JS none s (pollLoop sc fuel s c) := by
  induction fuel generalizing s c with
  | zero => exact JS.refl _
  | succ m ih =>
    unfold pollLoop
    split
    · exact JS.frame rfl rfl
    · rename_i r rest _
      have h1 : ∀ e, JS none s (emit { completeWorks { s with oracle := rest } r.done with clock := r.clock } (.poll e c.timeout r)) := by
        intro e
        have a1 : JS none s { s with oracle := rest } := JS.frame rfl rfl
        have a2 : JS none s (completeWorks { s with oracle := rest } r.done) :=
          a1.trans (JS.of_rle (completeWorks_rle _ _) (trace_completeWorks _ _))
        have a3 : JS none s { completeWorks { s with oracle := rest } r.done with clock := r.clock } :=
          a2.trans (JS.frame rfl rfl)
        exact a3.trans (JS.emit _ _ rfl)
      have h2 : ∀ e, JS none s (updateTime (emit { completeWorks { s with oracle := rest } r.done with clock := r.clock } (.poll e c.timeout r))) :=
        fun e => (h1 e).trans (JS.frame (rq_updateTime _) (tr_updateTime _))
      simp only
      split
      · exact (h1 _).trans (JS.frame rfl rfl)
      · split
        · split
          · split
            · exact h2 _
            · exact (h2 _).trans (ih _ _)
          · split
            · exact h2 _
            · split
              · exact h2 _
              · exact (h2 _).trans (ih _ _)
        · generalize hd : dispatchLoop sc (r.batch.length + 1) _ 0 false = d
          have h3 : JS none s d.1 := by
            rw [← hd]
            refine JS.trans ?_ (dispatchLoop_js _ _ _ _ _)
            exact (h2 _).trans (JS.frame rfl rfl)
          have h5 : JS none s { d.1 with batch := [] } := h3.trans (JS.frame rfl rfl)
          repeat' split
          all_goals first | exact h5 | exact h5.trans (ih _ _)

theorem ioPoll_js (sc : Script) (s : State) (t : Int) : JS none s (ioPoll sc s t) := by
  unfold ioPoll
  exact (JS.frame (rq_flushWatchers s) (trace_flushWatchers s)).trans (pollLoop_js _ _ _ _)

theorem finishClose_js (sc : Script) (id : Nat) (s : State) : JS none s (finishClose sc id s) := by
  unfold finishClose
  split
  · exact JS.refl _
  · rename_i h _
    simp only
    have h1 : JS none s (withKernel s id setClosed) := JS.frame rfl rfl
    generalize hs2 : (if h.kind == .udp then udpFinishClose sc .closing id (withKernel s id setClosed)
        else if h.kind == .pipe || h.kind == .tcp then streamDestroy sc id (withKernel s id setClosed)
        else withKernel s id setClosed) = s2
    have h2 : JS none s s2 := by
      rw [← hs2]
      split
      · exact h1.trans (udpFinishClose_js _ _ _ _)
      · split
        · exact h1.trans (streamDestroy_js _ _ _)
        · exact h1
    have h3 : JS none s (withKernel s2 id handleUnref) := h2.trans (JS.frame rfl rfl)
    generalize withKernel s2 id handleUnref = s3 at h3
    split
    · exact h3
    · refine (h3.trans ?_).trans (runCb_js _ _ _ rfl _ _ _ _ _ _)
      refine JS.of_rle (s := s3) ⟨rfl, rfl, rfl, ?_⟩ rfl
      intro e x
      have := hcnt_filter_le s3.handles (·.id != id) e x
      simp only [cnt, wcnt]
      omega

theorem runClosingLoop_js (sc : Script) (fuel : Nat) (s : State) : JS none s (runClosingLoop sc fuel s) := by
  induction fuel generalizing s with
  | zero => exact JS.refl _
  | succ n ih =>
    unfold runClosingLoop
    split
    · exact JS.refl _
    · rename_i id rest _
      exact ((JS.frame (s' := { s with closingLocal := rest }) rfl rfl).trans (finishClose_js _ _ _)).trans (ih _)

theorem runClosing_js (sc : Script) (s : State) : JS none s (runClosing sc s) := by
  unfold runClosing
  exact (JS.frame (s' := { s with closingLocal := s.closing, closing := [] }) rfl rfl).trans (runClosingLoop_js _ _ _)

theorem collectTimers_js (fuel : Nat) (s : State) : JS none s (collectTimers fuel s) := by
  induction fuel generalizing s with
  | zero => exact JS.refl _
  | succ n ih =>
    unfold collectTimers
    split
    · exact JS.refl _
    · split
      · exact JS.refl _
      · rename_i e _ _
        refine JS.trans ?_ (ih _)
        exact (JS.frame (rq_timerStop s e.id) (tr_timerStop s e.id)).trans (JS.frame rfl rfl)

theorem fireTimers_js (sc : Script) (ph : Phase) (fuel : Nat) (s : State) : JS none s (fireTimers sc ph fuel s) := by
  induction fuel generalizing s with
  | zero => exact JS.refl _
  | succ n ih =>
    unfold fireTimers
    split
    · exact JS.refl _
    · rename_i id rest _
      refine JS.trans ?_ (ih _)
      refine JS.trans ?_ (runHandleCb_js _ _ _ rfl _ _ _ _)
      exact (JS.frame (s' := { s with tm := { s.tm with ready := rest } }) rfl rfl).trans
        (JS.frame (rq_timerAgain _ _) (tr_timerAgain _ _))

theorem runTimers_js (sc : Script) (ph : Phase) (s : State) : JS none s (runTimers sc ph s) := by
  unfold runTimers
  exact (collectTimers_js _ _).trans (fireTimers_js _ _ _ _)

theorem pendingRounds_js (sc : Script) (n : Nat) (s : State) : JS none s (pendingRounds sc n s) := by
  induction n generalizing s with
  | zero => exact JS.refl _
  | succ m ih =>
    unfold pendingRounds
    split
    · exact JS.refl _
    · exact (runPending_js _ _ _).trans (ih _)

theorem iteration_js (sc : Script) (mode : Mode) (s : State) : JS none s (iteration sc mode s) := by
  unfold iteration
  simp only
  refine JS.trans ?_ (runTimers_js _ _ _)
  refine JS.trans ?_ (JS.frame (rq_updateTime _) (tr_updateTime _))
  refine JS.trans ?_ (runClosing_js _ _)
  refine JS.trans ?_ (runWatchers_js _ _ _)
  refine JS.trans ?_ (pendingRounds_js _ _ _)
  refine JS.trans ?_ (ioPoll_js _ _ _)
  have : JS none s (runWatchers sc .prepare (runWatchers sc .idle (runPending sc .pending (emit s .iterBegin)))) :=
    (((JS.emit s .iterBegin rfl).trans (runPending_js _ _ _)).trans (runWatchers_js _ _ _)).trans (runWatchers_js _ _ _)
  exact this.trans (JS.frame rfl rfl)

theorem runLoop_js (sc : Script) (mode : Mode) (fuel : Nat) (s : State) (r : Bool) (hj : J none s) :
    ∀ s' r', runLoop sc mode fuel s r = some (s', r') → J none s' := by
  induction fuel generalizing s r with
  | zero => intro s' r' h; simp [runLoop] at h
  | succ n ih =>
    intro s' r' h
    unfold runLoop at h
    split at h
    · cases h; exact hj
    · simp only at h
      split at h
      · cases h; exact iteration_js _ _ _ hj
      · exact ih _ _ (iteration_js _ _ _ hj) _ _ h

theorem uvRun_js (sc : Script) (mode : Mode) (fuel : Nat) (s : State) (hj : J none s) :
    ∀ s' r, uvRun sc mode fuel s = some (s', r) → J none s' := by
  intro s' r h
  unfold uvRun at h
  simp only at h
  have h0 : J none (if !alive s then updateTime s else s) := by
    split
    · exact JS.frame (rq_updateTime _) (tr_updateTime _) hj
    · exact hj
  generalize (if !alive s then updateTime s else s) = s0 at h h0
  have h1 : J none (if initialTimers mode (alive s) s0.stop then runTimers sc .timers0 (updateTime s0) else s0) := by
    split
    · exact runTimers_js _ _ _ (JS.frame (rq_updateTime _) (tr_updateTime _) h0)
    · exact h0
  generalize (if initialTimers mode (alive s) s0.stop then runTimers sc .timers0 (updateTime s0) else s0) = s1 at h h1
  cases hr : runLoop sc mode fuel s1 (alive s) with
  | none => simp [hr] at h
  | some p =>
    simp only [hr, Option.some.injEq, Prod.mk.injEq] at h
    have := runLoop_js sc mode fuel s1 (alive s) h1 p.1 p.2 (by simp [hr])
    rw [← h.1]
    exact JS.frame (s := p.1) rfl rfl this

theorem stepMain_js (sc : Script) (fuel : Nat) (s : State) (m : MainOp) : JS none s (stepMain sc fuel s m) := by
  intro hj
  cases m with
  | op o =>
    simp only [stepMain]
    split
    · exact hj
    · exact stepOp_js _ _ hj
  | run md =>
    simp only [stepMain]
    split
    · exact hj
    · have h0 : J none (emit s (.runBegin md)) := JS.emit _ _ rfl hj
      split
      · exact JS.frame (s := emit s (.runBegin md)) rfl rfl h0
      · rename_i s' r heq
        exact ((JS.emit _ _ rfl).trans (JS.emitObs _)) (uvRun_js _ _ _ _ h0 _ _ heq)
  | loopClose =>
    simp only [stepMain]
    split
    · exact hj
    · have h1 : J none (loopClose s).1 := by
        unfold loopClose; split
        · exact hj
        · exact JS.frame (s := s) rfl rfl hj
      split
      · exact JS.emit _ _ rfl h1
      · exact ((JS.emit _ _ rfl).trans (JS.emitObs _)) h1

theorem runMain_js (sc : Script) (fuel : Nat) (prog : List MainOp) (s : State) (hj : J none s) :
    J none (runMain sc fuel s prog) := by
  unfold runMain
  induction prog generalizing s with
  | nil => exact hj
  | cons m t ih => exact ih _ (stepMain_js _ _ _ _ hj)

theorem initLoop_tinv (clock0 : Nat) (metrics : Bool) (oracle : List PollRes) : TInv (initLoop clock0 metrics oracle) := by
  have ht : (initLoop clock0 metrics oracle).trace = [] := by
    have hA : ∀ (s : State) io, tr (ioStart { s with wSignal := io } .signal POLLIN) = tr s :=
      fun s io => by rw [tr_ioStart]; rfl
    have hB : ∀ (s : State) io, tr (ioStart { s with wAsync := io } .async POLLIN) = tr s :=
      fun s io => by rw [tr_ioStart]; rfl
    have hC : ∀ (s : State) k, tr (addHandle s k) = tr s := fun _ _ => rfl
    have : tr (initLoop clock0 metrics oracle) = ([], 0) := by
      unfold initLoop
      simp only
      rw [tr_withKernel, tr_withKernel, tr_initH, hB, tr_withKernel, tr_withKernel, hC, hA, tr_updateTime]
      rfl
    exact congrArg Prod.fst this
  have hr := (initLoop_rinv clock0 metrics oracle)
  refine ⟨?_, ?_⟩
  · intro r; rw [ht]; have := hr.2.2.1 r; simpa [reqCbs] using this
  · intro r _; rw [ht]; rfl

theorem initLoop_j (clock0 : Nat) (metrics : Bool) (oracle : List PollRes) : J none (initLoop clock0 metrics oracle) :=
  ⟨initLoop_rinv clock0 metrics oracle, initLoop_tinv clock0 metrics oracle⟩

end UvModel.Loop.Reqs
