import UvModel.HeapPtr
import UvModel.Heap
import UvModel.Lemmas.HeapLemmas
/-! helper lemmas for `Props/HeapPtrRefine.lean`: cell-level evaluation of the `heap-inl.h` statements and the
abstraction relation `Rep` between the pointer memory and the level-order array of node ids -/
set_option linter.unusedSimpArgs false
namespace UvModel.HeapPtr

@[simp] theorem setLeft_left (m : Mem) (a v x : Nat) : (setLeft m a v).left x = if x = a then v else m.left x := rfl
@[simp] theorem setLeft_right (m : Mem) (a v : Nat) : (setLeft m a v).right = m.right := rfl
@[simp] theorem setLeft_parent (m : Mem) (a v : Nat) : (setLeft m a v).parent = m.parent := rfl
@[simp] theorem setRight_right (m : Mem) (a v x : Nat) : (setRight m a v).right x = if x = a then v else m.right x := rfl
@[simp] theorem setRight_left (m : Mem) (a v : Nat) : (setRight m a v).left = m.left := rfl
@[simp] theorem setRight_parent (m : Mem) (a v : Nat) : (setRight m a v).parent = m.parent := rfl
@[simp] theorem setParent_parent (m : Mem) (a v x : Nat) : (setParent m a v).parent x = if x = a then v else m.parent x := rfl
@[simp] theorem setParent_left (m : Mem) (a v : Nat) : (setParent m a v).left = m.left := rfl
@[simp] theorem setParent_right (m : Mem) (a v : Nat) : (setParent m a v).right = m.right := rfl
@[simp] theorem setParentIf_left (m : Mem) (a v : Nat) : (setParentIf m a v).left = m.left := by
  unfold setParentIf; split <;> rfl
@[simp] theorem setParentIf_right (m : Mem) (a v : Nat) : (setParentIf m a v).right = m.right := by
  unfold setParentIf; split <;> rfl
@[simp] theorem setParentIf_parent (m : Mem) (a v x : Nat) :
    (setParentIf m a v).parent x = if a ≠ 0 ∧ x = a then v else m.parent x := by
  unfold setParentIf; by_cases h : a = 0 <;> simp [h]

/-- the cells after heap-inl.h:78-96, in terms of the cells before (`L`/`R`/`P` = old left/right/parent) -/
theorem swapBody_left (m : Mem) {p c : Nat} (hpc : p ≠ c) (x : Nat) :
    (swapBody m p c).left x =
      if x = c then (if m.left p = c then p else m.left p) else if x = p then m.left c else m.left x := by
  by_cases h : m.left p = c <;> simp [swapBody, setNode, hpc, Ne.symm hpc, h] <;> grind

theorem swapBody_right (m : Mem) {p c : Nat} (hpc : p ≠ c) (x : Nat) :
    (swapBody m p c).right x =
      if x = c then (if m.left p = c then m.right p else p) else if x = p then m.right c else m.right x := by
  by_cases h : m.left p = c <;> simp [swapBody, setNode, hpc, Ne.symm hpc, h] <;> grind

theorem swapBody_parent (m : Mem) {p c : Nat} (hpc : p ≠ c) (x : Nat) :
    (swapBody m p c).parent x =
      let sib := if m.left p = c then m.right p else m.left p
      if m.right c ≠ 0 ∧ x = m.right c then p
      else if m.left c ≠ 0 ∧ x = m.left c then p
      else if sib ≠ 0 ∧ x = sib then c
      else if x = p then c
      else if x = c then m.parent p
      else m.parent x := by
  by_cases h : m.left p = c <;> simp [swapBody, setNode, hpc, Ne.symm hpc, h] <;> grind

/-- the abstraction: `f i` is the node at level-order position `i` of a complete tree with `n` nodes -/
structure Rep (s : St) (f : Nat → Nat) (n : Nat) : Prop where
  nelts : s.nelts = n
  min : s.min = f 0
  live : ∀ i, i < n → f i ≠ 0
  dead : ∀ i, n ≤ i → f i = 0
  inj : ∀ i j, i < n → j < n → f i = f j → i = j
  left : ∀ i, i < n → s.m.left (f i) = f (2 * i + 1)
  right : ∀ i, i < n → s.m.right (f i) = f (2 * i + 2)
  parent : ∀ i, i < n → s.m.parent (f i) = if i = 0 then 0 else f ((i - 1) / 2)

/-- the array with positions `i` and `j` exchanged -/
def exchange (f : Nat → Nat) (i j : Nat) : Nat → Nat := fun k => if k = i then f j else if k = j then f i else f k

theorem Rep.ne {s : St} {f : Nat → Nat} {n : Nat} (h : Rep s f n) {a b : Nat} (ha : a < n) (hab : a ≠ b) :
    f a ≠ f b := by
  intro e
  by_cases hb : b < n
  · exact hab (h.inj a b ha hb e)
  · exact h.live a ha (by rw [e]; exact h.dead b (by omega))

theorem Rep.eq_iff {s : St} {f : Nat → Nat} {n : Nat} (h : Rep s f n) {a b : Nat} (ha : a < n) :
    f a = f b ↔ a = b := ⟨fun e => Classical.byContradiction fun c => h.ne ha c e, fun e => e ▸ rfl⟩

theorem Rep.nz_iff {s : St} {f : Nat → Nat} {n : Nat} (h : Rep s f n) (a : Nat) : f a = 0 ↔ n ≤ a := by
  constructor
  · intro e; apply Classical.byContradiction; intro c; exact h.live a (by omega) e
  · exact h.dead a

theorem swapBody_left_pos {s : St} {f : Nat → Nat} {n i j : Nat} (h : Rep s f n) (hj : j < n)
    (hc : j = 2 * i + 1 ∨ j = 2 * i + 2) (k : Nat) (hk : k < n) :
    (swapBody s.m (f i) (f j)).left (exchange f i j k) =
      if 2 * k + 1 = i then f i else exchange f i j (2 * k + 1) := by
  have hi : i < n := by omega
  have hpc : f i ≠ f j := h.ne hi (by omega)
  have hL := h.left i hi
  have hR := h.right i hi
  have hcL := h.left j hj
  have hcR := h.right j hj
  have hs : f (2 * i + 1) ≠ f (2 * i + 2) := h.ne (by omega) (by omega)
  rw [swapBody_left _ hpc]
  simp only [hL, hR, hcL, hcR, exchange]
  by_cases hki : k = i
  · subst hki; rcases hc with rfl | rfl <;> simp [h.eq_iff hj, h.eq_iff hi, h.nz_iff, hs, Ne.symm hs, hpc, Ne.symm hpc] <;> grind
  · by_cases hkj : k = j
    · subst hkj; rcases hc with rfl | rfl <;> simp [h.eq_iff hj, h.eq_iff hi, h.nz_iff, hki, hs, Ne.symm hs, hpc, Ne.symm hpc] <;> grind
    · rcases hc with rfl | rfl <;>
        simp [hki, hkj, h.eq_iff hj, h.eq_iff hi, h.eq_iff hk, h.nz_iff, h.left k hk] <;> grind

theorem swapBody_right_pos {s : St} {f : Nat → Nat} {n i j : Nat} (h : Rep s f n) (hj : j < n)
    (hc : j = 2 * i + 1 ∨ j = 2 * i + 2) (k : Nat) (hk : k < n) :
    (swapBody s.m (f i) (f j)).right (exchange f i j k) =
      if 2 * k + 2 = i then f i else exchange f i j (2 * k + 2) := by
  have hi : i < n := by omega
  have hpc : f i ≠ f j := h.ne hi (by omega)
  have hL := h.left i hi
  have hR := h.right i hi
  have hcL := h.left j hj
  have hcR := h.right j hj
  have hs : f (2 * i + 1) ≠ f (2 * i + 2) := h.ne (by omega) (by omega)
  rw [swapBody_right _ hpc]
  simp only [hL, hR, hcL, hcR, exchange]
  by_cases hki : k = i
  · subst hki; rcases hc with rfl | rfl <;> simp [h.eq_iff hj, h.eq_iff hi, h.nz_iff, hs, Ne.symm hs, hpc, Ne.symm hpc] <;> grind
  · by_cases hkj : k = j
    · subst hkj; rcases hc with rfl | rfl <;> simp [h.eq_iff hj, h.eq_iff hi, h.nz_iff, hki, hs, Ne.symm hs, hpc, Ne.symm hpc] <;> grind
    · rcases hc with rfl | rfl <;>
        simp [hki, hkj, h.eq_iff hj, h.eq_iff hi, h.eq_iff hk, h.nz_iff, h.right k hk] <;> grind

theorem swapBody_parent_pos {s : St} {f : Nat → Nat} {n i j : Nat} (h : Rep s f n) (hj : j < n)
    (hc : j = 2 * i + 1 ∨ j = 2 * i + 2) (k : Nat) (hk : k < n) :
    (swapBody s.m (f i) (f j)).parent (exchange f i j k) =
      if k = 0 then 0 else exchange f i j ((k - 1) / 2) := by
  have hi : i < n := by omega
  have hpc : f i ≠ f j := h.ne hi (by omega)
  have hL := h.left i hi
  have hR := h.right i hi
  have hcL := h.left j hj
  have hcR := h.right j hj
  have hs : f (2 * i + 1) ≠ f (2 * i + 2) := h.ne (by omega) (by omega)
  have hP := h.parent i hi
  rw [swapBody_parent _ hpc]
  simp only [hL, hR, hP, hcL, hcR, exchange]
  rcases hc with rfl | rfl
  · simp only [if_true]
    by_cases hki : k = i
    · subst hki; simp [h.eq_iff hj, h.eq_iff hk, h.nz_iff, hs, Ne.symm hs, hpc, Ne.symm hpc]; grind
    · by_cases hkj : k = 2 * i + 1
      · subst hkj; simp [h.eq_iff hk, h.eq_iff hi, h.nz_iff, hs, Ne.symm hs, hpc, Ne.symm hpc]
        have := h.ne hi (b := 2 * (2 * i + 1) + 2) (by omega)
        have := h.ne hi (b := 2 * (2 * i + 1) + 1) (by omega)
        have : (2 * i + 1 - 1) / 2 = i := by omega
        simp [*]
      · simp [hki, hkj, h.eq_iff hj, h.eq_iff hi, h.eq_iff hk, h.nz_iff, h.parent k hk]
        grind
  · simp only [if_neg hs]
    by_cases hki : k = i
    · subst hki; simp [h.eq_iff hj, h.eq_iff hk, h.nz_iff, hs, Ne.symm hs, hpc, Ne.symm hpc]; grind
    · by_cases hkj : k = 2 * i + 2
      · subst hkj; simp [h.eq_iff hk, h.eq_iff hi, h.nz_iff, hs, Ne.symm hs, hpc, Ne.symm hpc]
        have := h.ne hi (b := 2 * (2 * i + 2) + 2) (by omega)
        have := h.ne hi (b := 2 * (2 * i + 2) + 1) (by omega)
        have : (2 * i + 2 - 1) / 2 = i := by omega
        have : (2 * i + 1) / 2 = i := by omega
        simp [*]
      · simp [hki, hkj, h.eq_iff hj, h.eq_iff hi, h.eq_iff hk, h.nz_iff, h.parent k hk]
        grind

end UvModel.HeapPtr
namespace UvModel.HeapPtr
theorem exchange_zero_iff {s : St} {f : Nat → Nat} {n i j : Nat} (h : Rep s f n) (hi : i < n) (hj : j < n) (k : Nat) :
    exchange f i j k = 0 ↔ n ≤ k := by
  unfold exchange
  split
  · have := h.live j hj; constructor <;> intro <;> omega
  · split
    · have := h.live i hi; constructor <;> intro <;> omega
    · exact h.nz_iff k

theorem exchange_inj {s : St} {f : Nat → Nat} {n i j : Nat} (h : Rep s f n) (hi : i < n) (hj : j < n) (a b : Nat)
    (ha : a < n) (hb : b < n) (e : exchange f i j a = exchange f i j b) : a = b := by
  unfold exchange at e
  have := @Rep.eq_iff s f n h
  grind

/-- heap_node_swap(heap, parent, child) on a represented heap: positions `i` (parent) and `j` (its left or
right child) are exchanged, every other position keeps its node -/
theorem swap_rep {s : St} {f : Nat → Nat} {n i j : Nat} (h : Rep s f n) (hj : j < n)
    (hc : j = 2 * i + 1 ∨ j = 2 * i + 2) : Rep (swap s (f i) (f j)) (exchange f i j) n := by
  have hi : i < n := by omega
  have hpc : f i ≠ f j := h.ne hi (by omega)
  have bl := swapBody_left_pos h hj hc
  have br := swapBody_right_pos h hj hc
  have bp := swapBody_parent_pos h hj hc
  have hxi : exchange f i j i = f j := by simp [exchange]
  have hpar := bp i hi
  rw [hxi] at hpar
  by_cases h0 : i = 0
  · have e : swap s (f i) (f j) = { s with m := swapBody s.m (f i) (f j), min := f j } := by
      simp only [swap, hpar]; simp [h0]
    rw [e]
    refine ⟨h.nelts, ?_, ?_, ?_, exchange_inj h hi hj, ?_, ?_, bp⟩
    · simp [exchange, h0]
    · intro k hk; rw [Ne, exchange_zero_iff h hi hj]; omega
    · intro k hk; exact (exchange_zero_iff h hi hj k).2 hk
    · intro k hk; rw [show ({ s with m := swapBody s.m (f i) (f j), min := f j } : St).m = swapBody s.m (f i) (f j) from rfl, bl k hk, if_neg (by omega)]
    · intro k hk; rw [show ({ s with m := swapBody s.m (f i) (f j), min := f j } : St).m = swapBody s.m (f i) (f j) from rfl, br k hk, if_neg (by omega)]
  · have hg : (i - 1) / 2 < n := by omega
    have hxg : exchange f i j ((i - 1) / 2) = f ((i - 1) / 2) := by
      unfold exchange; rw [if_neg (by omega), if_neg (by omega)]
    have hgx : ∀ k, k < n → (exchange f i j k = f ((i - 1) / 2) ↔ k = (i - 1) / 2) := by
      intro k hk; rw [← hxg]
      exact ⟨exchange_inj h hi hj k _ hk hg, fun e => e ▸ rfl⟩
    rw [if_neg h0, hxg] at hpar
    have hgl := bl _ hg
    rw [hxg] at hgl
    have hnz : f ((i - 1) / 2) ≠ 0 := h.live _ hg
    have hmin : f 0 = exchange f i j 0 := by unfold exchange; rw [if_neg (by omega), if_neg (by omega)]
    by_cases hodd : 2 * ((i - 1) / 2) + 1 = i
    · have e : swap s (f i) (f j) =
          { s with m := setLeft (swapBody s.m (f i) (f j)) (f ((i - 1) / 2)) (f j) } := by
        simp only [swap, hpar, hgl, if_pos hodd, if_neg hnz, if_true]
      rw [e]
      refine ⟨h.nelts, h.min.trans hmin, ?_, ?_, exchange_inj h hi hj, ?_, ?_, bp⟩
      · intro k hk; rw [Ne, exchange_zero_iff h hi hj]; omega
      · intro k hk; exact (exchange_zero_iff h hi hj k).2 hk
      · intro k hk
        show (setLeft (swapBody s.m (f i) (f j)) (f ((i - 1) / 2)) (f j)).left _ = _
        simp only [setLeft_left, hgx k hk]
        by_cases hk2 : k = (i - 1) / 2
        · rw [if_pos hk2, hk2, hodd]; simp [exchange]
        · rw [if_neg hk2, bl k hk, if_neg (by omega)]
      · intro k hk
        show (setLeft (swapBody s.m (f i) (f j)) (f ((i - 1) / 2)) (f j)).right _ = _
        rw [setLeft_right, br k hk, if_neg (by omega)]
    · have hne : exchange f i j (2 * ((i - 1) / 2) + 1) ≠ f i := by
        unfold exchange; rw [if_neg hodd, if_neg (by omega)]
        exact Ne.symm (h.ne hi (Ne.symm hodd))
      have e : swap s (f i) (f j) =
          { s with m := setRight (swapBody s.m (f i) (f j)) (f ((i - 1) / 2)) (f j) } := by
        simp only [swap, hpar, hgl, if_neg hodd, if_neg hnz, if_neg hne]
      rw [e]
      refine ⟨h.nelts, h.min.trans hmin, ?_, ?_, exchange_inj h hi hj, ?_, ?_, bp⟩
      · intro k hk; rw [Ne, exchange_zero_iff h hi hj]; omega
      · intro k hk; exact (exchange_zero_iff h hi hj k).2 hk
      · intro k hk
        show (setRight (swapBody s.m (f i) (f j)) (f ((i - 1) / 2)) (f j)).left _ = _
        rw [setRight_left, bl k hk, if_neg (by omega)]
      · intro k hk
        show (setRight (swapBody s.m (f i) (f j)) (f ((i - 1) / 2)) (f j)).right _ = _
        simp only [setRight_right, hgx k hk]
        by_cases hk2 : k = (i - 1) / 2
        · rw [if_pos hk2, hk2, show 2 * ((i - 1) / 2) + 2 = i by omega]; simp [exchange]
        · rw [if_neg hk2, br k hk, if_neg (by omega)]
end UvModel.HeapPtr
namespace UvModel.HeapPtr

/-! ### the path-bit loop and the `struct heap_node**` walk -/

/-- 1-based level-order position reached from position `q` by consuming `k` bits of `path`, least
significant first: bit 0 = go to the left child (`2q`), bit 1 = right child (`2q+1`) -/
def reach : Nat → Nat → Nat → Nat
  | q, 0, _ => q
  | q, k + 1, path => reach (2 * q + path % 2) k (path / 2)

theorem bitstep (path n : Nat) : (path <<< 1) ||| (n &&& 1) = 2 * path + n % 2 := by
  rw [Nat.and_one_is_mod, ← Nat.shiftLeft_add_eq_or_of_lt (i := 1) (by omega), Nat.shiftLeft_eq]; omega

theorem pathLoop_reach (N : Nat) : ∀ fuel n k path, 1 ≤ n → n ≤ fuel → reach n k path = N →
    reach 1 (pathLoop fuel n k path).1 (pathLoop fuel n k path).2 = N := by
  intro fuel
  induction fuel with
  | zero => intro n k path h1 h2; omega
  | succ fuel ih =>
    intro n k path h1 h2 hr
    unfold pathLoop
    by_cases hn : n ≥ 2
    · rw [if_pos hn]
      apply ih (n / 2) (k + 1) _ (by omega) (by omega)
      rw [bitstep, reach]
      have e1 : (2 * path + n % 2) % 2 = n % 2 := by omega
      have e2 : (2 * path + n % 2) / 2 = path := by omega
      have e3 : 2 * (n / 2) + n % 2 = n := by omega
      rw [e1, e2, e3, hr]
    · rw [if_neg hn]
      have : n = 1 := by omega
      subst this; exact hr

theorem reach_ge : ∀ k q path, q ≤ reach q k path := by
  intro k
  induction k with
  | zero => intro q path; simp [reach]
  | succ k ih => intro q path; rw [reach]; have := ih (2 * q + path % 2) (path / 2); omega

/-- the lvalue holding the node at 1-based position `q`: `&heap->min` for the root, else the `left` /
`right` cell of the node at position `q / 2` -/
def slotOf (f : Nat → Nat) (q : Nat) : Slot :=
  if q ≤ 1 then Slot.root else if q % 2 = 1 then Slot.r (f (q / 2 - 1)) else Slot.l (f (q / 2 - 1))

theorem deref_slotOf {s : St} {f : Nat → Nat} {n : Nat} (h : Rep s f n) (q : Nat) (hq : 1 ≤ q)
    (hq2 : q = 1 ∨ q / 2 ≤ n) : deref s (slotOf f q) = f (q - 1) := by
  unfold slotOf
  by_cases h1 : q ≤ 1
  · rw [if_pos h1]; have : q = 1 := by omega
    subst this; exact h.min
  · rw [if_neg h1]
    have hlt : q / 2 - 1 < n := by omega
    split
    · rw [deref, h.right _ hlt]; congr 1; omega
    · rw [deref, h.left _ hlt]; congr 1; omega

/-- the walk of heap-inl.h:127-136 follows `reach`: from the slot of position `q` it ends on the slot of
position `reach q k path`, with `parent` the slot of that position's parent (if any step was taken) -/
theorem walk_slot {s : St} {f : Nat → Nat} {n : Nat} (h : Rep s f n) : ∀ k path q ps, 1 ≤ q →
    (k = 0 ∨ reach q k path / 2 ≤ n) →
    walk s k path ps (slotOf f q) =
      (if k = 0 then ps else slotOf f (reach q k path / 2), slotOf f (reach q k path)) := by
  intro k
  induction k with
  | zero => intro path q ps _ _; simp [walk, reach]
  | succ k ih =>
    intro path q ps hq hr
    have hr : reach (2 * q + path % 2) k (path / 2) / 2 ≤ n := by
      rcases hr with hr | hr
      · omega
      · rw [reach] at hr; exact hr
    have hge := reach_ge k (2 * q + path % 2) (path / 2)
    have hd : deref s (slotOf f q) = f (q - 1) := deref_slotOf h q hq (by omega)
    have hstep : (if path &&& 1 ≠ 0 then Slot.r (deref s (slotOf f q)) else Slot.l (deref s (slotOf f q))) =
        slotOf f (2 * q + path % 2) := by
      rw [hd, Nat.and_one_is_mod]
      unfold slotOf
      have e3 : ¬ (2 * q + path % 2 ≤ 1) := by omega
      have e : (2 * q + path % 2) / 2 - 1 = q - 1 := by omega
      rw [if_neg e3, e]
      by_cases hb : path % 2 = 0
      · have e2 : ¬ ((2 * q + path % 2) % 2 = 1) := by omega
        rw [if_neg (show ¬ (path % 2 ≠ 0) from fun c => c hb), if_neg e2]
      · have e2 : (2 * q + path % 2) % 2 = 1 := by omega
        rw [if_pos hb, if_pos e2]
    have e5 : path >>> 1 = path / 2 := by simp [Nat.shiftRight_eq_div_pow]
    rw [walk]
    simp only [hstep, e5]
    rw [ih (path / 2) (2 * q + path % 2) (slotOf f q) (by omega) (Or.inr hr), reach]
    simp only [Nat.succ_ne_zero, if_false]
    by_cases hk : k = 0
    · subst hk; simp only [reach, if_true]; congr 2; omega
    · rw [if_neg hk]

end UvModel.HeapPtr
