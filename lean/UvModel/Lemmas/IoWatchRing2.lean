import UvModel.Lemmas.IoWatchRing
/-! C14: watcher-queue application through the ctl ring, and ring ≡ direct -/
namespace UvModel.IoWatch

theorem applyOne_ring_eq (t : St) (id : Nat) (hr : t.ring = true) :
    applyOne t id = prep (setW t id { getW t id with events := (getW t id).pevents })
      (if (getW t id).events = Mask.none then CtlOp.add else CtlOp.mod, (getW t id).fd, (getW t id).pevents, id) := by
  have hr1 : ∀ w, (setW t id w).ring = true := fun _ => hr
  unfold applyOne; simp only [hr1, ↓reduceIte]

/-- the watcher's mask is copied to `events` and the submission queued -/
theorem RS.armPush {t : St} (r : RS t) (id : Nat) (hid : id < t.ws.length)
    (hp : (getW t id).pevents ≠ Mask.none) (hfresh : ∀ x ∈ t.sq, x.2.2.2 ≠ id) :
    RS { setW t id { getW t id with events := (getW t id).pevents } with
      sq := t.sq ++ [(if (getW t id).events = Mask.none then CtlOp.add else CtlOp.mod,
        (getW t id).fd, (getW t id).pevents, id)] } := by
  generalize hw : getW t id = w at *
  generalize hc : ((if w.events = Mask.none then CtlOp.add else CtlOp.mod, w.fd, w.pevents, id) : Ctl) = c
  generalize ht1 : setW t id { w with events := w.pevents } = t1
  have hg : ∀ j, getW t1 j = if j = id then { w with events := w.pevents } else getW t j := by
    intro j; rw [← ht1, getW_setW]; simp [hid]
  have hl : t1.ws.length = t.ws.length := by rw [← ht1]; simp
  have hwat : ∀ g, watcherAt t1 g = watcherAt t g := by intro g; rw [← ht1]; rfl
  have gfd : ∀ j, (getW t1 j).fd = (getW t j).fd := by
    intro j; rw [hg]; split
    · rename_i e; rw [e, hw]
    · rfl
  have gpe : ∀ j, (getW t1 j).pevents = (getW t j).pevents := by
    intro j; rw [hg]; split
    · rename_i e; rw [e, hw]
    · rfl
  have gcl : ∀ j, (getW t1 j).closing = (getW t j).closing ∧ (getW t1 j).clean = (getW t j).clean := by
    intro j; rw [hg]; split
    · rename_i e; rw [e, hw]; exact ⟨rfl, rfl⟩
    · exact ⟨rfl, rfl⟩
  have gev : ∀ j, j ≠ id → (getW t1 j).events = (getW t j).events := by
    intro j hj; rw [hg, if_neg hj]
  have core : RCore t1 t.k (t.sq ++ [c]) := by
    refine ⟨by rw [← ht1]; exact r.multi, ?_, ?_, ?_, ?_, ?_, ?_, ?_⟩
    · intro x hx
      rcases List.mem_append.mp hx with h | h
      · have hne := hfresh x h
        obtain ⟨q1, q2, q3, q4, q5, q6, q7⟩ := r.pend x h
        exact ⟨by rw [hl]; exact q1, by rw [gfd]; exact q2, by rw [gpe]; exact q3,
          by rw [gev _ hne, gpe]; exact q4, by rw [gpe]; exact q5, q6, q7⟩
      · simp at h; rw [h, ← hc]
        refine ⟨by rw [hl]; exact hid, by rw [gfd, hw], by rw [gpe, hw], ?_, by rw [gpe, hw]; exact hp, ?_, ?_⟩
        · show (getW t1 id).events = (getW t1 id).pevents
          rw [hg, if_pos rfl]
        · show (if w.events = Mask.none then CtlOp.add else CtlOp.mod) ≠ CtlOp.del
          split <;> simp
        · intro hmod
          have hev : w.events ≠ Mask.none := by
            intro h0; simp [h0] at hmod
          obtain ⟨o, a1, a2⟩ := r.armed id hid (by rw [hw]; exact hev) hfresh
          rw [hw] at a1 a2
          exact ⟨o, a1, by rw [a2]; simp⟩
    · intro j hj hne hno
      have hjid : j ≠ id := by
        intro e; exact hno c (by simp) (by rw [← hc, e])
      rw [gfd, gev j hjid]; rw [gev j hjid] at hne
      exact r.armed j (by rw [← hl]; exact hj) hne (fun x hx => hno x (List.mem_append_left _ hx))
    · intro o g h
      obtain ⟨a, j, b1, b2, b3, b4⟩ := r.owned o g h
      exact ⟨a, j, by rw [hl]; exact b1, by rw [gfd]; exact b2, by rw [(gcl j).1]; exact b3,
        by rw [(gcl j).2, gpe]; exact b4⟩
    · intro a b ha hb; rw [gfd, gfd, (gcl a).1, (gcl b).1]
      exact r.uniq a b (by rw [← hl]; exact ha) (by rw [← hl]; exact hb)
    · intro j; rw [hg]; split
      · intro h; exact h
      · exact r.quiet j
    · intro j hj hpj; rw [hl] at hj; rw [gpe] at hpj
      have l := r.live j hj hpj
      exact ⟨by rw [(gcl j).1]; exact l.1, by rw [(gcl j).2]; exact l.2.1, by rw [gfd]; exact l.2.2.1,
        by rw [gfd, hwat]; exact l.2.2.2⟩
    · intro j hj
      have hq : t1.wq = t.wq := by rw [← ht1]; rfl
      rw [hq] at hj; rw [hl, gpe]; exact r.queued j hj
  have hk : t1.k = t.k := by rw [← ht1]; rfl
  have hsq : t1.sq = t.sq := by rw [← ht1]; rfl
  show RCore _ t1.k (t.sq ++ [c])
  rw [hk]
  exact core.frame rfl rfl rfl rfl

theorem applyOne_ring_spec {t : St} (r : RS t) (hr : t.ring = true) (id : Nat) (hid : id < t.ws.length)
    (hp : (getW t id).pevents ≠ Mask.none) (hfresh : ∀ x ∈ t.sq, x.2.2.2 ≠ id) :
    RS (applyOne t id) ∧ (applyOne t id).ring = true ∧ (applyOne t id).aborted = t.aborted ∧
    (∀ x ∈ (applyOne t id).sq, (x.2.2.2 = id ∧ x.2.1 = (getW t id).fd) ∨
      ∃ y ∈ t.sq, y.2.2.2 = x.2.2.2 ∧ y.2.1 = x.2.1) ∧
    KFrame t.k (applyOne t id).k (t.sq.map (·.2.1) ++ [(getW t id).fd]) := by
  have ra := r.armPush id hid hp hfresh
  rw [applyOne_ring_eq t id hr]
  generalize ht1 : setW t id { getW t id with events := (getW t id).pevents } = t1 at ra ⊢
  have hk : t1.k = t.k := by rw [← ht1]; rfl
  have hsq : t1.sq = t.sq := by rw [← ht1]; rfl
  have hrg : t1.ring = true := by rw [← ht1]; exact hr
  have hab : t1.aborted = t.aborted := by rw [← ht1]; rfl
  rw [← hsq] at ra
  obtain ⟨p1, _, p3, p4, p5, p6⟩ := prep_spec _ ra
  refine ⟨p1, by rw [p4]; exact hrg, by rw [p3]; exact hab, ?_, ?_⟩
  · intro x hx
    obtain ⟨y, hy, h⟩ := p5 x hx
    rcases List.mem_append.mp hy with h' | h'
    · right; exact ⟨y, by rw [← hsq]; exact h', h⟩
    · left; simp at h'; rw [← h.1, ← h.2, h']; exact ⟨rfl, rfl⟩
  · rw [← hk]; refine p6.mono ?_
    intro g hg; simpa [hsq] using hg

theorem ringFold_spec (l : List Nat) : ∀ {t : St}, RS t → t.ring = true → l.Nodup →
    (∀ a ∈ l, a < t.ws.length ∧ (getW t a).pevents ≠ Mask.none ∧ ∀ x ∈ t.sq, x.2.2.2 ≠ a) →
    RS (l.foldl applyOne t) ∧ (l.foldl applyOne t).ring = true ∧ (l.foldl applyOne t).aborted = t.aborted ∧
    KFrame t.k (l.foldl applyOne t).k (t.sq.map (·.2.1) ++ l.map (fun a => (getW t a).fd)) ∧
    (∀ x ∈ (l.foldl applyOne t).sq, x.2.1 ∈ t.sq.map (·.2.1) ++ l.map (fun a => (getW t a).fd)) := by
  induction l with
  | nil =>
    intro t r hr _ _
    exact ⟨r, hr, rfl, KFrame.refl _ _, fun x hx => List.mem_append_left _ (List.mem_map.mpr ⟨x, hx, rfl⟩)⟩
  | cons a rest ih =>
    intro t r hr hnd hl
    simp only [List.foldl_cons]
    obtain ⟨ha1, ha2, ha3⟩ := hl a (by simp)
    obtain ⟨s1, s2, s3, s4, s5⟩ := applyOne_ring_spec r hr a ha1 ha2 ha3
    have hs := applyOne_same t a
    have hgp : ∀ j, (getW (applyOne t a) j).pevents = (getW t j).pevents ∧ (getW (applyOne t a) j).fd = (getW t j).fd := by
      intro j
      have : getW (applyOne t a) j = getW (setW t a { getW t a with events := (getW t a).pevents }) j := by
        simp [getW, hs.1]
      rw [this, getW_setW]; split
      · rename_i e; rw [e.1]; exact ⟨rfl, rfl⟩
      · exact ⟨rfl, rfl⟩
    have hlen : (applyOne t a).ws.length = t.ws.length := by rw [hs.1]; simp
    have hnd' := List.nodup_cons.mp hnd
    obtain ⟨i1, i2, i3, i4, i5⟩ := ih s1 s2 hnd'.2 (by
      intro b hb
      obtain ⟨hb1, hb2, hb3⟩ := hl b (List.mem_cons_of_mem _ hb)
      refine ⟨by rw [hlen]; exact hb1, by rw [(hgp b).1]; exact hb2, ?_⟩
      intro x hx
      rcases s4 x hx with h | ⟨y, hy, h⟩
      · rw [h.1]; intro e; rw [e] at hnd'; exact hnd'.1 hb
      · rw [← h.1]; exact hb3 y hy)
    have conv : ∀ g, g ∈ (applyOne t a).sq.map (·.2.1) ++ rest.map (fun b => (getW (applyOne t a) b).fd) →
        g ∈ t.sq.map (·.2.1) ++ (a :: rest).map (fun b => (getW t b).fd) := by
      intro g h
      rcases List.mem_append.mp h with h | h
      · obtain ⟨x, hx, hxg⟩ := List.mem_map.mp h
        rcases s4 x hx with h' | ⟨y, hy, h'⟩
        · apply List.mem_append_right; rw [← hxg, h'.2]; simp
        · apply List.mem_append_left; exact List.mem_map.mpr ⟨y, hy, by rw [h'.2]; exact hxg⟩
      · obtain ⟨b, hb, hbg⟩ := List.mem_map.mp h
        apply List.mem_append_right
        exact List.mem_map.mpr ⟨b, List.mem_cons_of_mem _ hb, by rw [← hbg, (hgp b).2]⟩
    refine ⟨i1, i2, by rw [i3, s3], ?_, fun x hx => conv _ (i5 x hx)⟩
    refine (KFrame.trans s5 i4).mono ?_
    intro g hg
    rcases List.mem_append.mp hg with h | h
    · rcases List.mem_append.mp h with h | h
      · exact List.mem_append_left _ h
      · simp at h; apply List.mem_append_right; rw [h]; simp
    · exact conv g h

/-- ring mode: `uv__io_poll`'s queue application followed by the flush before `epoll_pwait` -/
theorem applyQueue_ring {s : St} (c : KCore s) (i : SInv s) (hr : s.ring = true) :
    KCore (flushAll (applyQueue s)) ∧ (flushAll (applyQueue s)).aborted = s.aborted ∧
    KFrame s.k (flushAll (applyQueue s)).k (s.wq.map fun a => (getW s a).fd) ∧
    (applyQueue s).aborted = s.aborted := by
  have c0 : KCore { s with wq := [] } :=
    ⟨c.sq, c.multi, c.armed, c.owned, c.uniq, c.quiet, c.live, by intro id h; simp at h⟩
  generalize ht0 : ({ s with wq := [] } : St) = t0 at c0
  have q0 : t0.sq = [] := c0.sq
  have k0 : t0.k = s.k := by rw [← ht0]
  have g0 : ∀ a, getW t0 a = getW s a := by intro a; rw [← ht0]; rfl
  have l0 : t0.ws.length = s.ws.length := by rw [← ht0]
  have rg0 : t0.ring = true := by rw [← ht0]; exact hr
  have ab0 : t0.aborted = s.aborted := by rw [← ht0]
  have r0 : RS t0 := by unfold RS; rw [q0]; exact c0.toR
  obtain ⟨f1, f2, f3, f4, f5⟩ := ringFold_spec s.wq r0 rg0 i.nodup (by
    intro a ha
    have := c.queued a ha
    exact ⟨by rw [l0]; exact this.1, by rw [g0]; exact this.2, by intro x hx; rw [q0] at hx; simp at hx⟩)
  have e : applyQueue s = s.wq.foldl applyOne t0 := by rw [← ht0]; rfl
  rw [← e] at f1 f2 f3 f4 f5
  rw [k0] at f4; rw [ab0] at f3
  have hF : ∀ g, g ∈ t0.sq.map (·.2.1) ++ s.wq.map (fun a => (getW t0 a).fd) →
      g ∈ s.wq.map fun a => (getW s a).fd := by
    intro g hg; rw [q0] at hg
    simp only [List.map_nil, List.nil_append] at hg
    obtain ⟨a, ha, hag⟩ := List.mem_map.mp hg
    exact List.mem_map.mpr ⟨a, ha, by rw [← g0]; exact hag⟩
  obtain ⟨a1, _, a3, _, _, a6, _, a8⟩ := flushOnce_spec f1
  obtain ⟨b1, _, b3, _, _, _, b7, b8⟩ := flushOnce_spec a1
  have hsq : (flushOnce (flushOnce (applyQueue s))).sq = [] := b7 (fun x hx => (a6 x hx).1)
  have hk : KCore (flushOnce (flushOnce (applyQueue s))) := by
    have : RCore (flushOnce (flushOnce (applyQueue s))) (flushOnce (flushOnce (applyQueue s))).k [] := by
      rw [← hsq]; exact b1
    exact this.toK hsq
  refine ⟨hk, by show (flushOnce (flushOnce (applyQueue s))).aborted = _; rw [b3, a3, f3], ?_, f3⟩
  show KFrame s.k (flushOnce (flushOnce (applyQueue s))).k _
  refine (KFrame.trans (KFrame.trans f4 a8) b8).mono ?_
  intro g hg
  rcases List.mem_append.mp hg with h | h
  · rcases List.mem_append.mp h with h | h
    · exact hF g h
    · obtain ⟨x, hx, hxg⟩ := List.mem_map.mp h
      exact hF g (by rw [← hxg]; exact f5 x hx)
  · obtain ⟨x, hx, hxg⟩ := List.mem_map.mp h
    obtain ⟨_, y, hy, hy2⟩ := a6 x hx
    exact hF g (by rw [← hxg, ← hy2.2]; exact f5 y hy)

end UvModel.IoWatch
