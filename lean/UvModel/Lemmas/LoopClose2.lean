import UvModel.Lemmas.LoopPhaseRel
/-!
  The close bookkeeping invariant `CloseWF` (closing lists duplicate-free, their members are live records with
  CLOSING set) and the delivery count of close callbacks in `uv__run_closing_handles`.
-/
namespace UvModel.Loop
open UvModel.HandleKernels

/-- number of close callbacks delivered for handle `id` in a trace -/
def closeCbs (id : Nat) : List Event → Nat
  | [] => 0
  | .cb _ .close i _ _ :: t => (if i = id then 1 else 0) + closeCbs id t
  | _ :: t => closeCbs id t

theorem closeCbs_emit_obs (id : Nat) (s : State) : closeCbs id (emitObs s).trace = closeCbs id s.trace := by
  unfold emitObs emit; split <;> simp [closeCbs]

theorem closeCbs_emit_ne (id : Nat) (s : State) (e : Event) (he : ∀ ph i a b, e ≠ Event.cb ph .close i a b) :
    closeCbs id (emit s e).trace = closeCbs id s.trace := by
  unfold emit; split
  · rfl
  · cases e with
    | cb ph k i a b =>
      cases k <;> first | rfl | exact absurd rfl (he ph i a b)
    | _ => rfl

theorem closeCbs_stepOp (id : Nat) (s : State) (o : Op) : closeCbs id (stepOp s o).trace = closeCbs id s.trace := by
  unfold stepOp
  rw [closeCbs_emit_obs, closeCbs_emit_ne _ _ _ (fun _ _ _ _ h => by cases h)]
  exact congrArg _ (trOf (tr_applyOp s o))

theorem closeCbs_foldl (id : Nat) (ops : List Op) (s : State) :
    closeCbs id (ops.foldl stepOp s).trace = closeCbs id s.trace := by
  induction ops generalizing s with
  | nil => rfl
  | cons o t ih => simp only [List.foldl]; rw [ih, closeCbs_stepOp]

/-- a callback invocation adds exactly its own `cb` event: one close callback for `id` iff it is the
    close callback of `id`, whatever the script does inside -/
theorem runCb_closeCbs (sc : Script) (ph : Phase) (k : CbKind) (key : CbKey) (i : Nat) (a b : Int) (occ : Nat)
    (id : Nat) (s : State) (hh : s.halted = false) :
    closeCbs id (runCb sc ph k key i a b occ s).trace =
      closeCbs id s.trace + (if k = .close ∧ i = id then 1 else 0) := by
  unfold runCb
  simp only
  rw [closeCbs_emit_obs, closeCbs_emit_ne _ _ _ (fun _ _ _ _ h => by cases h), closeCbs_foldl, closeCbs_emit_obs]
  unfold emit
  simp only [hh, Bool.false_eq_true, if_false]
  cases k <;> simp [closeCbs] <;> (try (split <;> omega))

/-- outside `uv__finish_close` nothing delivers a close callback -/
def CntRel (id : Nat) (s s' : State) : Prop := closeCbs id s'.trace = closeCbs id s.trace

theorem cntRel (id : Nat) : PhaseRel (CntRel id) where
  refl := fun _ => rfl
  trans := fun h1 h2 => Eq.trans h2 h1
  keep := fun _ ht => congrArg _ ht
  emit := fun s e he => closeCbs_emit_ne id s e (fun ph i a b => he ph .close i a b)
  stepOp := fun s o => closeCbs_stepOp id s o
  cbH := fun s ph k i a b _ hk => closeCbs_emit_ne id s _ (fun _ _ _ _ h => by cases h; exact hk rfl)
  cbR := fun s ph k r a b hk => closeCbs_emit_ne id s _ (fun _ _ _ _ h => by cases h; simp at hk)
  halt := fun _ => rfl

/-! ### the invariant -/
/-- ids whose close callback is owed: the one being finished (`x`), the detached chain, `closing_handles` -/
def clList (x : Option Nat) (s : State) : List Nat := x.toList ++ s.closingLocal ++ s.closing

def CloseWF' (x : Option Nat) (s : State) : Prop :=
  (clList x s).Nodup ∧ ∀ id ∈ clList x s, id ∈ hids s ∧ ∃ f, getF s id = some f ∧ f.closing = true

/-- the close bookkeeping invariant: no handle is queued for closing twice, every queued handle still has its
    record and carries UV_HANDLE_CLOSING -/
abbrev CloseWF (s : State) : Prop := CloseWF' none s

theorem CloseWF'.keep {x : Option Nat} {s s' : State} (h : Keep s s') (hw : CloseWF' x s) : CloseWF' x s' := by
  have hl : clList x s' = clList x s := by simp [clList, h.closing, h.closingLocal]
  refine ⟨hl ▸ hw.1, ?_⟩
  intro id hid
  rw [hl] at hid
  obtain ⟨h1, f, hf, hc⟩ := hw.2 id hid
  obtain ⟨f', hf', hm⟩ := h.flags id f hf
  exact ⟨h.hold id h1, f', hf', hm hc⟩

theorem CloseWF'.closeOp {x : Option Nat} {s s' : State} (h : CloseOp s s') (hw : CloseWF' x s) : CloseWF' x s' := by
  obtain ⟨id, s2, hk, rfl, hid, ⟨f, hf, hfc⟩, ⟨f', hf', hfc'⟩⟩ := h
  have hw2 := hw.keep hk.1
  have hl : clList x (makeClosePending s2 id) = x.toList ++ s2.closingLocal ++ id :: s2.closing := rfl
  have hnot : id ∉ clList x s2 := by
    intro hm
    have : clList x s2 = clList x s := by simp [clList, hk.1.closing, hk.1.closingLocal]
    rw [this] at hm
    obtain ⟨_, g, hg, hgc⟩ := hw.2 id hm
    rw [hf] at hg; cases hg; rw [hfc] at hgc; cases hgc
  have hperm : (clList x (makeClosePending s2 id)).Perm (id :: clList x s2) := by
    rw [hl]; exact List.perm_middle
  refine ⟨hperm.nodup_iff.mpr (List.nodup_cons.mpr ⟨hnot, hw2.1⟩), ?_⟩
  intro j hj
  rcases List.mem_cons.mp (hperm.mem_iff.mp hj) with rfl | hj
  · exact ⟨hk.1.hold _ hid, f', hf', hfc'⟩
  · exact hw2.2 j hj

/-- preserved, and neither the detached chain nor the halt marker is touched -/
def WFStep (s s' : State) : Prop :=
  (∀ x, CloseWF' x s → CloseWF' x s') ∧ s'.closingLocal = s.closingLocal ∧ s'.halted = s.halted

theorem WFStep.refl (s : State) : WFStep s s := ⟨fun _ h => h, rfl, rfl⟩
theorem WFStep.trans {a b c : State} (h1 : WFStep a b) (h2 : WFStep b c) : WFStep a c :=
  ⟨fun x h => h2.1 x (h1.1 x h), h2.2.1.trans h1.2.1, h2.2.2.trans h1.2.2⟩
theorem WFStep.of_keep {s s' : State} (h : Keep s s') : WFStep s s' :=
  ⟨fun _ hw => hw.keep h, h.closingLocal, h.halted⟩
theorem WFStep.of_kp {s s' : State} (h : kp s' = kp s) : WFStep s s' := WFStep.of_keep (KeepQ.of_kp h).1

theorem WFStep.of_opRes {s s' : State} (h : OpRes s s') : WFStep s s' := by
  rcases h with h | ⟨j, h, _⟩ | h
  · exact WFStep.of_keep h.1
  · exact WFStep.of_keep h.1
  · refine ⟨fun _ hw => hw.closeOp h, ?_, ?_⟩
    · obtain ⟨id, s2, hk, rfl, _⟩ := h; exact hk.1.closingLocal
    · obtain ⟨id, s2, hk, rfl, _⟩ := h; exact hk.1.halted

theorem WFStep.stepOp (s : State) (o : Op) : WFStep s (stepOp s o) := by
  unfold Loop.stepOp
  exact (WFStep.of_opRes (applyOp_keep s o)).trans
    ((WFStep.of_kp (kp_emit _ _)).trans (WFStep.of_kp (kp_emitObs _)))

theorem wfRel0 : PhaseRel0 WFStep where
  refl := WFStep.refl
  trans := WFStep.trans
  keep := fun h _ => WFStep.of_keep h
  emit := fun _ _ _ => WFStep.of_kp (kp_emit _ _)
  stepOp := WFStep.stepOp
  cbH := fun _ _ _ _ _ _ _ _ => WFStep.of_kp (kp_emit _ _)
  cbR := fun _ _ _ _ _ _ _ => WFStep.of_kp (kp_emit _ _)

/-- any callback, also a close callback -/
theorem WFStep.runCb (sc : Script) (ph : Phase) (k : CbKind) (key : CbKey) (i : Nat) (a b : Int) (occ : Nat) (s : State) :
    WFStep s (runCb sc ph k key i a b occ s) := by
  unfold Loop.runCb
  simp only
  refine WFStep.trans ?_ (WFStep.of_kp (kp_emitObs _))
  refine WFStep.trans ?_ (WFStep.of_kp (kp_emit _ _))
  refine WFStep.trans ?_ (wfRel0.foldl_stepOp _ _)
  refine WFStep.trans ?_ (WFStep.of_kp (kp_emitObs _))
  refine WFStep.trans ?_ (WFStep.of_kp (kp_emit _ _))
  exact WFStep.of_kp rfl

/-! ### uv__finish_close -/
theorem lookF_eraseF_ne (fl : List (Nat × HFlags)) (id id' : Nat) (hne : id' ≠ id) :
    lookF (eraseF fl id) id' = lookF fl id' := by
  induction fl with
  | nil => rfl
  | cons e t ih =>
    simp only [eraseF]
    split
    · rename_i he
      have he' : e.1 = id := by simpa using he
      have h2 : (e.1 == id') = false := by simp [he']; omega
      simp [lookF, h2]
    · simp only [lookF, ih]

/-- unlinking the record of the handle being finished -/
theorem CloseWF'.remove {j : Nat} {s : State} (hw : CloseWF' (some j) s) :
    CloseWF' none { s with c := s.c.remove j, handles := s.handles.filter (·.id != j) } := by
  have hl : clList (some j) s = j :: clList none { s with c := s.c.remove j, handles := s.handles.filter (·.id != j) } := by
    simp [clList]
  have hnd := hw.1
  rw [hl] at hnd
  obtain ⟨hj, hnd'⟩ := List.nodup_cons.mp hnd
  refine ⟨hnd', ?_⟩
  intro id hid
  have hne : id ≠ j := fun h => hj (h ▸ hid)
  obtain ⟨h1, f, hf, hc⟩ := hw.2 id (by rw [hl]; exact List.mem_cons_of_mem _ hid)
  refine ⟨?_, f, ?_, hc⟩
  · simp only [hids, List.mem_map, List.mem_filter] at h1 ⊢
    obtain ⟨h, hm, he⟩ := h1
    exact ⟨h, ⟨hm, by simp [he, hne]⟩, he⟩
  · simp only [getF, Core.get, Core.remove] at hf ⊢
    rw [lookF_eraseF_ne _ _ _ hne]; exact hf

/-- `uv__finish_close` keeps the invariant (no matter whether the simulator is halted) -/
theorem finishClose_wf (sc : Script) (j : Nat) (s : State) (hw : CloseWF' (some j) s) :
    CloseWF' none (finishClose sc j s) ∧ (finishClose sc j s).closingLocal = s.closingLocal := by
  obtain ⟨hjm, _⟩ := hw.2 j (by simp [clList])
  obtain ⟨h, hg⟩ := Option.isSome_iff_exists.mp ((getH_isSome_iff s j).mpr hjm)
  unfold finishClose
  simp only [hg]
  have k1 : KeepQ s (withKernel s j setClosed) := keepQ_withKernel s j _ clMono_setClosed
  generalize hs2 : (if h.kind == .udp then udpFinishClose sc .closing j (withKernel s j setClosed)
      else if h.kind == .pipe || h.kind == .tcp then streamDestroy sc j (withKernel s j setClosed)
      else withKernel s j setClosed) = s2
  have w2 : WFStep (withKernel s j setClosed) s2 := by
    rw [← hs2]; split
    · exact wfRel0.udpFinishClose _ _ _ _
    · split
      · exact wfRel0.streamDestroy _ _ _
      · exact WFStep.refl _
  have hw3 : CloseWF' (some j) (withKernel s2 j handleUnref) :=
    (w2.1 _ (hw.keep k1.1)).keep (keepQ_withKernel s2 j _ clMono_unref).1
  obtain ⟨_, f3, hf3, _⟩ := hw3.2 j (by simp [clList])
  simp only [hf3]
  have w4 := fun s4 => WFStep.runCb sc .closing .close (.c j) j (flagBits f3) 0 0 s4
  refine ⟨(w4 _).1 _ hw3.remove, ?_⟩
  rw [(w4 _).2.1]; show s2.closingLocal = _; rw [w2.2.1]; rfl

theorem runClosingLoop_wf (sc : Script) (fuel : Nat) (s : State) (hw : CloseWF s) : CloseWF (runClosingLoop sc fuel s) := by
  induction fuel generalizing s with
  | zero => exact hw
  | succ n ih =>
    unfold runClosingLoop
    split
    · exact hw
    · rename_i j rest heq
      simp only
      have hw1 : CloseWF' (some j) { s with closingLocal := rest } := by
        have hl : clList (some j) { s with closingLocal := rest } = clList none s := by simp [clList, heq]
        exact ⟨hl ▸ hw.1, fun i hi => hw.2 i (hl ▸ hi)⟩
      exact ih _ (finishClose_wf sc j _ hw1).1

theorem runClosing_wf (sc : Script) (s : State) (hw : CloseWF s) : CloseWF (runClosing sc s) := by
  unfold runClosing
  simp only
  apply runClosingLoop_wf
  have hsub : (clList none { s with closingLocal := s.closing, closing := [] }).Sublist (clList none s) := by
    simp [clList]
  exact ⟨hw.1.sublist hsub, fun i hi => hw.2 i (hsub.subset hi)⟩

/-- the invariant is respected by every step of the loop -/
def WFRel (s s' : State) : Prop := CloseWF s → CloseWF s'

theorem wfRel : PhaseRel WFRel where
  refl := fun _ h => h
  trans := fun h1 h2 h => h2 (h1 h)
  keep := fun h _ hw => hw.keep h
  emit := fun _ _ _ hw => hw.keep (KeepQ.of_kp (kp_emit _ _)).1
  stepOp := fun s o hw => (WFStep.stepOp s o).1 _ hw
  cbH := fun _ _ _ _ _ _ _ _ hw => hw.keep (KeepQ.of_kp (kp_emit _ _)).1
  cbR := fun _ _ _ _ _ _ _ hw => hw.keep (KeepQ.of_kp (kp_emit _ _)).1
  halt := fun _ hw => ⟨hw.1, hw.2⟩

/-- `CloseWF` holds in every state a program can reach -/
theorem closeWF_runMain (sc : Script) (fuel : Nat) (prog : List MainOp) (s : State) (hw : CloseWF s) :
    CloseWF (runMain sc fuel s prog) :=
  wfRel.runMain (fun sc s => runClosing_wf sc s) sc fuel prog s hw

theorem closeWF_of_empty {s : State} (h1 : s.closing = []) (h2 : s.closingLocal = []) : CloseWF s := by
  have : clList none s = [] := by simp [clList, h1, h2]
  exact ⟨this ▸ List.nodup_nil, fun i hi => by rw [this] at hi; cases hi⟩

theorem Keep.after {a b b' : State} (h : Keep a b) (hk : kp b' = kp b) : Keep a b' := h.trans (KeepQ.of_kp hk).1

theorem keep_initLoop (clock0 : Nat) (metrics : Bool) (oracle : List PollRes) :
    Keep ({ clock := clock0, metrics := metrics, oracle := oracle } : State) (initLoop clock0 metrics oracle) := by
  unfold initLoop
  simp only
  refine Keep.trans ?_ (keepQ_withKernel _ 1 _ clMono_setInternal).1
  refine Keep.trans ?_ (keepQ_withKernel _ 1 _ clMono_unref).1
  refine Keep.trans ?_ (keepQ_initH _ .async).1
  refine Keep.trans ?_ (KeepQ.of_kp (kp_ioStart _ _ _)).1
  refine Keep.after (b := withKernel _ 0 setInternal) ?_ rfl
  refine Keep.trans ?_ (keepQ_withKernel _ 0 _ clMono_setInternal).1
  refine Keep.trans ?_ (keepQ_withKernel _ 0 _ clMono_unref).1
  refine Keep.trans ?_ (keepQ_addHandle _ .signal).1
  refine Keep.trans ?_ (KeepQ.of_kp (kp_ioStart _ _ _)).1
  exact Keep.after (Keep.refl _) rfl

theorem closeWF_initLoop (clock0 : Nat) (metrics : Bool) (oracle : List PollRes) : CloseWF (initLoop clock0 metrics oracle) := by
  have h := keep_initLoop clock0 metrics oracle
  exact closeWF_of_empty (h.closing.trans rfl) (h.closingLocal.trans rfl)

theorem finishClose_spec (sc : Script) (id j : Nat) (s : State) (hw : CloseWF' (some j) s) (hh : s.halted = false) :
    closeCbs id (finishClose sc j s).trace = closeCbs id s.trace + (if j = id then 1 else 0) ∧
    CloseWF' none (finishClose sc j s) ∧ (finishClose sc j s).closingLocal = s.closingLocal ∧
    (finishClose sc j s).halted = false := by
  obtain ⟨hjm, _⟩ := hw.2 j (by simp [clList])
  obtain ⟨h, hg⟩ := Option.isSome_iff_exists.mp ((getH_isSome_iff s j).mpr hjm)
  unfold finishClose
  simp only [hg]
  have k1 : KeepQ s (withKernel s j setClosed) := keepQ_withKernel s j _ clMono_setClosed
  generalize hs2 : (if h.kind == .udp then udpFinishClose sc .closing j (withKernel s j setClosed)
      else if h.kind == .pipe || h.kind == .tcp then streamDestroy sc j (withKernel s j setClosed)
      else withKernel s j setClosed) = s2
  have w2 : WFStep (withKernel s j setClosed) s2 := by
    rw [← hs2]; split
    · exact wfRel0.udpFinishClose _ _ _ _
    · split
      · exact wfRel0.streamDestroy _ _ _
      · exact WFStep.refl _
  have c2 : closeCbs id s2.trace = closeCbs id s.trace := by
    rw [← hs2]; split
    · exact (cntRel id).udpFinishClose _ _ _ _
    · split
      · exact (cntRel id).streamDestroy _ _ _
      · rfl
  have hw3 : CloseWF' (some j) (withKernel s2 j handleUnref) :=
    (w2.1 _ (hw.keep k1.1)).keep (keepQ_withKernel s2 j _ clMono_unref).1
  obtain ⟨_, f3, hf3, _⟩ := hw3.2 j (by simp [clList])
  simp only [hf3]
  have hh2 : s2.halted = false := by rw [w2.2.2]; exact hh
  have w4 := fun s4 => WFStep.runCb sc .closing .close (.c j) j (flagBits f3) 0 0 s4
  refine ⟨?_, (w4 _).1 _ hw3.remove, ?_, ?_⟩
  · refine (runCb_closeCbs _ _ _ _ _ _ _ _ _ _ ?_).trans ?_
    · exact hh2
    · show closeCbs id s2.trace + _ = _
      rw [c2]; simp
  · rw [(w4 _).2.1]; show s2.closingLocal = _; rw [w2.2.1]; rfl
  · rw [(w4 _).2.2]; exact hh2

theorem runClosingLoop_spec (sc : Script) (id : Nat) (fuel : Nat) (s : State) (hw : CloseWF s) (hh : s.halted = false) :
    closeCbs id (runClosingLoop sc fuel s).trace =
      closeCbs id s.trace + (if id ∈ s.closingLocal.take fuel then 1 else 0) ∧
    CloseWF (runClosingLoop sc fuel s) ∧ (runClosingLoop sc fuel s).halted = false := by
  induction fuel generalizing s with
  | zero => exact ⟨by simp [runClosingLoop], hw, hh⟩
  | succ n ih =>
    unfold runClosingLoop
    split
    · rename_i heq
      exact ⟨by simp [heq], hw, hh⟩
    · rename_i j rest heq
      simp only
      have hw1 : CloseWF' (some j) { s with closingLocal := rest } := by
        have hl : clList (some j) { s with closingLocal := rest } = clList none s := by simp [clList, heq]
        exact ⟨hl ▸ hw.1, fun i hi => hw.2 i (hl ▸ hi)⟩
      obtain ⟨hc, hw', hcl, hh'⟩ := finishClose_spec sc id j { s with closingLocal := rest } hw1 hh
      obtain ⟨ic, iw, ihh⟩ := ih _ hw' hh'
      refine ⟨?_, iw, ihh⟩
      rw [ic, hc, hcl, heq]
      simp only [List.take_succ_cons, List.mem_cons]
      have hnd : (j :: rest).Nodup := by
        have := hw.1
        simp only [clList, heq, Option.toList_none, List.nil_append] at this
        exact (List.nodup_append.mp this).1
      by_cases hji : j = id
      · subst hji
        have hnot : j ∉ rest.take n := fun hm => (List.nodup_cons.mp hnd).1 (List.mem_of_mem_take hm)
        simp [hnot]
      · have : ¬ id = j := fun h => hji h.symm
        simp [hji, this]

/-- `close_cb_exactly_once`, on any state satisfying the bookkeeping invariant -/
theorem runClosing_spec (sc : Script) (id : Nat) (s : State) (hw : CloseWF s) (hh : s.halted = false) :
    closeCbs id (runClosing sc s).trace = closeCbs id s.trace + (if id ∈ s.closing then 1 else 0) ∧
    CloseWF (runClosing sc s) := by
  unfold runClosing
  simp only
  have hw0 : CloseWF { s with closingLocal := s.closing, closing := [] } := by
    have hsub : (clList none { s with closingLocal := s.closing, closing := [] }).Sublist (clList none s) := by
      simp [clList]
    exact ⟨hw.1.sublist hsub, fun i hi => hw.2 i (hsub.subset hi)⟩
  obtain ⟨hc, hw', _⟩ := runClosingLoop_spec sc id (s.closing.length + 1) _ hw0 hh
  refine ⟨?_, hw'⟩
  rw [hc]
  simp [List.take_of_length_le]

end UvModel.Loop
