import UvModel.Lemmas.LoopPhases2
/-!
  Phase order of a whole `uv_run`: the new part of the trace, oldest first, is an initial timer segment
  (callbacks of phase `timers0` only, and none at all unless `initialTimers`) followed by one segment per
  loop iteration, each with its callback phases in order and none of phase `timers0`.
-/
namespace UvModel.Loop.Phases
open UvModel.Loop UvModel.HandleKernels

/-- the events (oldest first) of one loop iteration: callback phases in order, none of the initial timer pass -/
def IterSeg (seg : List Event) : Prop :=
  (phasesOf seg).Pairwise (fun a b => a.ctorIdx ≤ b.ctorIdx) ∧ Phase.timers0 ∉ phasesOf seg

/-- `s` is reached from `s0` by whole iterations -/
def Iters (s0 s : State) : Prop :=
  ∃ segs : List (List Event), s.trace.reverse = s0.trace.reverse ++ segs.flatten ∧ ∀ seg ∈ segs, IterSeg seg

theorem Iters.refl (s : State) : Iters s s := ⟨[], by simp, by simp⟩

theorem mem_phasesOf_reverse {p : Phase} {l : List Event} : p ∈ phasesOf l.reverse ↔ p ∈ phasesOf l := by
  rw [mem_phasesOf, mem_phasesOf]
  simp only [List.mem_reverse]

theorem Iters.iteration {s0 s : State} (sc : Script) (mode : Mode) (h : Iters s0 s) : Iters s0 (iteration sc mode s) := by
  obtain ⟨segs, ht, hs⟩ := h
  obtain ⟨new, hn, hp, hr⟩ := iteration_mono sc mode s
  refine ⟨segs ++ [new.reverse], ?_, ?_⟩
  · rw [hn, List.reverse_append, ht]
    simp [List.append_assoc]
  · intro seg hseg
    rcases List.mem_append.1 hseg with h1 | h1
    · exact hs seg h1
    · rw [List.mem_singleton.1 h1]
      refine ⟨hp, ?_⟩
      intro hm
      have := (hr _ (mem_phasesOf_reverse.1 hm)).1
      revert this
      decide

theorem runLoop_iters (sc : Script) (mode : Mode) (s0 : State) (fuel : Nat) (s : State) (r : Bool) (hi : Iters s0 s) :
    ∀ s' r', runLoop sc mode fuel s r = some (s', r') → Iters s0 s' := by
  induction fuel generalizing s r with
  | zero => intro s' r' h; simp [runLoop] at h
  | succ n ih =>
    intro s' r' h
    unfold runLoop at h
    split at h
    · cases h; exact hi
    · simp only at h
      split at h
      · cases h; exact hi.iteration sc mode
      · exact ih _ _ (hi.iteration sc mode) _ _ h

/-- the new part of the trace of a whole `uv_run`, oldest first -/
theorem uvRun_trace (sc : Script) (mode : Mode) (fuel : Nat) (s s' : State) (r : Bool)
    (h : uvRun sc mode fuel s = some (s', r)) :
    ∃ (seg0 : List Event) (segs : List (List Event)),
      s'.trace.reverse = s.trace.reverse ++ seg0 ++ segs.flatten ∧
      (∀ p ∈ phasesOf seg0, p = Phase.timers0) ∧
      (initialTimers mode (alive s) s.stop = false → phasesOf seg0 = []) ∧
      ∀ seg ∈ segs, IterSeg seg := by
  unfold uvRun at h
  simp only at h
  have h0 : (if !alive s then updateTime s else s).trace = s.trace ∧ (if !alive s then updateTime s else s).stop = s.stop := by
    split <;> exact ⟨rfl, rfl⟩
  generalize (if !alive s then updateTime s else s) = sa at h h0
  obtain ⟨ta, sta⟩ := h0
  rw [sta] at h
  have h1 : ∃ seg0, (if initialTimers mode (alive s) s.stop then runTimers sc .timers0 (updateTime sa) else sa).trace.reverse =
      s.trace.reverse ++ seg0 ∧ (∀ p ∈ phasesOf seg0, p = Phase.timers0) ∧
      (initialTimers mode (alive s) s.stop = false → phasesOf seg0 = []) := by
    split
    · rename_i hit
      obtain ⟨new, hn, hp, _⟩ := runTimers_ext (ph := .timers0) sc (updateTime sa) (Ext.refl _ _)
      refine ⟨new.reverse, ?_, ?_, ?_⟩
      · rw [hn, List.reverse_append]
        show sa.trace.reverse ++ _ = _
        rw [ta]
      · intro p hm
        obtain ⟨k, i, a, b, he⟩ := mem_phasesOf.1 (mem_phasesOf_reverse.1 hm)
        exact hp _ he
      · intro hf; rw [hf] at hit; exact absurd hit (by simp)
    · exact ⟨[], by simp [ta], by simp [phasesOf], fun _ => rfl⟩
  generalize (if initialTimers mode (alive s) s.stop then runTimers sc .timers0 (updateTime sa) else sa) = sb at h h1
  obtain ⟨seg0, tb, p0, e0⟩ := h1
  cases hr : runLoop sc mode fuel sb (alive s) with
  | none => simp [hr] at h
  | some p =>
    simp only [hr, Option.some.injEq, Prod.mk.injEq] at h
    obtain ⟨segs, ht, hs⟩ := runLoop_iters sc mode sb fuel sb (alive s) (Iters.refl sb) p.1 p.2 (by simp [hr])
    refine ⟨seg0, segs, ?_, p0, e0, hs⟩
    rw [← h.1]
    show p.1.trace.reverse = _
    rw [ht, tb]

end UvModel.Loop.Phases
