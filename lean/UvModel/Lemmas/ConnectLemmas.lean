import UvModel.Accept
/-! helper lemmas for C07 (connect side): invariant of the request bookkeeping of
uv__tcp_connect / uv_pipe_connect2 / uv__stream_connect / uv__stream_destroy -/
namespace UvModel.Accept

/-- invariant of the connect bookkeeping -/
structure CInv (c : Conn) : Prop where
  nodup : (c.cbs.map (·.1)).Nodup
  lt : ∀ r ∈ c.cbs.map (·.1), r < c.nextReq
  pend : ∀ r, c.connectReq = some r → r < c.nextReq ∧ r ∉ c.cbs.map (·.1)
  acc : c.accepted = List.range c.nextReq
  dest : c.destroyed = true → c.connectReq = none
  clos : c.destroyed = true → c.closing = true

/-- no request is lost: completed or still pending -/
def NoneLost (c : Conn) : Prop := ∀ r, r < c.nextReq → r ∈ c.cbs.map (·.1) ∨ c.connectReq = some r

/-- "the user does not start a pipe connect while one is pending on the same handle" -/
def noOverlap : Conn → List COp → Bool
  | _, [] => true
  | c, op :: rest =>
    (match op with
     | .pipeConnect a _ _ => c.connectReq.isNone || a != 0 || c.closing
     | _ => true) && noOverlap (cstep c op) rest

theorem cinv_init : CInv {} := by constructor <;> simp

theorem cinv_step (c : Conn) (op : COp) (h : CInv c) : CInv (cstep c op) := by
  obtain ⟨h1, h2, h3, h4, h5, h6⟩ := h
  rcases c with ⟨req, de, nx, closing, destroyed, fdo, fed, po, wq, cbs, wcbs, accd, ncon⟩
  simp only at h1 h2 h3 h4 h5 h6
  cases op with
  | tcpBind r =>
    simp only [cstep, tcpBind]
    repeat' split
    all_goals (constructor <;> simp_all <;> (try assumption))
  | tcpConnect e r =>
    simp only [cstep, tcpConnect]
    repeat' split
    all_goals (constructor <;> simp_all [List.range_succ] <;> (try intro r hr) <;> (try omega))
    all_goals (first | (intro hm; have := h2 _ _ hm; omega) | (have := h2 _ _ hr; omega) | skip)
  | pipeConnect a e r =>
    simp only [cstep, pipeConnect]
    repeat' split
    all_goals (constructor <;> simp_all [List.range_succ] <;> (try intro r hr) <;> (try omega))
    all_goals (first | (intro hm; have := h2 _ _ hm; omega) | (have := h2 _ _ hr; omega) | skip)
  | io so =>
    simp only [cstep, streamConnect, flushWrites]
    repeat' split
    all_goals (constructor <;> simp_all [List.nodup_append] <;> (try assumption))
    all_goals (first
      | (intro a x hm he; subst he; exact h3.2 _ hm)
      | (intro r hr; rcases hr with ⟨x, hm⟩ | rfl
         · exact h2 _ _ hm
         · exact h3.1)
      | skip)
  | write w => constructor <;> simp_all [cstep, queueWrite] <;> assumption
  | close => simp only [cstep, connClose]; split <;> constructor <;> simp_all <;> assumption
  | destroy =>
    simp only [cstep, connDestroy, flushWrites]
    repeat' split
    all_goals (constructor <;> simp_all [List.nodup_append] <;> (try assumption))
    all_goals (first
      | (intro a x hm he; subst he; exact h3.2 _ hm)
      | (intro r hr; rcases hr with ⟨x, hm⟩ | rfl
         · exact h2 _ _ hm
         · exact h3.1)
      | skip)

theorem cinv_run (ops : List COp) : ∀ c, CInv c → CInv (crun c ops) := by
  induction ops with
  | nil => intro c h; exact h
  | cons op rest ih => intro c h; exact ih _ (cinv_step c op h)

theorem nonelost_step (c : Conn) (op : COp) (h : CInv c) (hn : NoneLost c)
    (ho : noOverlap c [op] = true) : NoneLost (cstep c op) := by
  obtain ⟨h1, h2, h3, h4, h5, h6⟩ := h
  rcases c with ⟨req, de, nx, closing, destroyed, fdo, fed, po, wq, cbs, wcbs, accd, ncon⟩
  simp only [NoneLost] at *
  cases op with
  | tcpBind r =>
    simp only [cstep, tcpBind]
    repeat' split
    all_goals (intro q hq; simpa using hn q hq)
  | tcpConnect e r =>
    simp only [cstep, tcpConnect]
    repeat' split
    all_goals (intro q hq; simp_all)
    all_goals (first
      | exact hn q hq
      | (by_cases hqe : q = nx
         · right; exact hqe.symm
         · left; have := hn q (by omega); simpa using this))
  | pipeConnect a e r =>
    simp only [noOverlap, Bool.and_true] at ho
    simp only [cstep, pipeConnect]
    repeat' split
    all_goals (intro q hq; simp_all)
    all_goals (first
      | exact hn q hq
      | (by_cases hqe : q = nx
         · right; exact hqe.symm
         · left; have := hn q (by omega); simpa using this))
  | io so =>
    simp only [cstep, streamConnect, flushWrites]
    repeat' split
    all_goals (intro q hq; simp_all)
    all_goals (first
      | exact hn q hq
      | (rcases hn q hq with hx | hx
         · exact Or.inl (Or.inl hx)
         · exact Or.inl (Or.inr hx.symm))
      | (rcases hn q hq with hx | hx
         · exact Or.inl hx
         · exact Or.inr hx.symm)
      | (rcases hn q hq with hx | hx
         · exact Or.inl hx
         · exact Or.inr hx))
  | write w => intro q hq; simpa [cstep, queueWrite] using hn q hq
  | close => simp only [cstep, connClose]; split <;> (intro q hq; simpa using hn q hq)
  | destroy =>
    simp only [cstep, connDestroy, flushWrites]
    repeat' split
    all_goals (intro q hq; simp_all)
    all_goals (first
      | exact hn q hq
      | (rcases hn q hq with hx | hx
         · exact Or.inl (Or.inl hx)
         · exact Or.inl (Or.inr hx.symm))
      | (rcases hn q hq with hx | hx
         · exact Or.inl hx
         · exact Or.inr hx.symm)
      | (rcases hn q hq with hx | hx
         · exact Or.inl hx
         · exact Or.inr hx))

theorem noOverlap_cons (c : Conn) (op : COp) (rest : List COp) (h : noOverlap c (op :: rest) = true) :
    noOverlap c [op] = true ∧ noOverlap (cstep c op) rest = true := by
  simp only [noOverlap, Bool.and_eq_true] at h ⊢
  exact ⟨⟨h.1, trivial⟩, h.2⟩

theorem nonelost_run (ops : List COp) : ∀ c, CInv c → NoneLost c → noOverlap c ops = true →
    NoneLost (crun c ops) := by
  induction ops with
  | nil => intro c _ hn _; exact hn
  | cons op rest ih =>
    intro c h hn ho
    have := noOverlap_cons c op rest ho
    exact ih _ (cinv_step c op h) (nonelost_step c op h hn this.1) this.2

end UvModel.Accept
